#!/bin/bash
# usage: tools/run_harmless.sh Hk [checks...]
# Applies a behaviour-preserving rewrite (harmless/Hk/patch.diff, written by an independent sub-agent) to a scratch worktree of
# /repo outside /repo and /verif, runs the given checks (default: all 20) against it and removes the worktree. Every check must
# stay silent: a VIOLATION line here is a false alarm of the machinery.
H=$1; shift
CHECKS=${@:-C01 C02 C03 C04 C05 C06 C07 C08 C09 C10 C11 C12 C13 C14 C15 C16 C17 C18 C19 C20}
WT=$(mktemp -d /tmp/harmlessXXXX); rmdir $WT
git -C /repo worktree add -q $WT HEAD || exit 3
if ! git -C $WT apply /verif/harmless/$H/patch.diff; then echo "$H PATCH DOES NOT APPLY"; git -C /repo worktree remove --force $WT; exit 3; fi
for c in $CHECKS; do
  VERIF_REPO=$WT /verif/check $c --tier quick 2>&1 | grep -E "VIOLATION|quick seed|ERROR" | sed "s/^/$H /"
done
git -C /repo worktree remove --force $WT
