#!/usr/bin/env python3
"""Regenerates MANIFEST.json from the table below (keeps it valid at all times)."""
import json
from pathlib import Path

VERIF = Path(__file__).resolve().parent.parent
props = [json.loads(l) for l in (VERIF / "properties.jsonl").read_text().splitlines() if l.strip()]
ids = [p["id"] for p in props]

# id -> (text, note, technique, design_ref)
CLAIMED = json.loads((VERIF / "tools" / "claims.json").read_text())
COMMON = CLAIMED.pop("_common_note")
PROPS = json.loads((VERIF / "lean" / "props.json").read_text())
# a proof-level claim needs proved obligations: properties whose theorems are not in the build yet stay unclaimed
CLAIMED = {k: v for k, v in CLAIMED.items() if len(PROPS.get(k, {}).get("theorems", [])) >= 1}

checks = []
na = []
for pid in ids:
    if pid in CLAIMED:
        c = CLAIMED[pid]
        checks.append(
            {
                "property_id": pid,
                "quick_cmd": f"./check {pid} --tier quick",
                "thorough_cmd": f"./check {pid} --tier thorough",
                "evidence_file": f"evidence/{pid}.json",
                "replay_cmd_template": f"./check {pid} --replay {{path}}",
                "engine": "lean4-model+correspondence",
                "level_claimed": {"category": "proof", "text": c["text"], "design_ref": c.get("design_ref", "DESIGN.md section 4")},
                "level_note": c.get("note", COMMON),
                "technique": c["technique"],
            }
        )
    else:
        na.append({"property_id": pid, "reason": "not claimed in this revision: the correspondence check and oracle exist (./check " + pid + ") but the Lean theorems for this property are not in the build yet, so no proof-level claim is made"})

manifest = {
    "version": 1,
    "setup_cmd": "cd lean && lake build",
    "hooks": {
        "guard": "MODEL_DIAGNOSTICS_VERIF",
        "enable": "no hooks are needed: every observation point is reachable through the public API or a recording callable; the checks import /repo/src directly (VERIF_REPO overrides the tree)",
        "baseline_off_cmd": "cd /repo && /venv/bin/python -m pytest -ra -q -p no:cacheprovider --timeout=900 --continue-on-collection-errors",
        "source_commits": [],
        "add_only": True,
    },
    "engines": [
        {
            "name": "lean4-model+correspondence",
            "path": "lean/ (model, proofs, Driver.lean) + harness/ (Python correspondence, oracles)",
            "serves_properties": [c["property_id"] for c in checks],
            "kind_free_text": "Lean 4 theorems about a hand-written executable model; the model is tied to /repo on every run by a differential correspondence check (real code vs `lake env lean --run Driver.lean` on the same inputs) and an exact-arithmetic property oracle used for failing-input search",
        }
    ],
    "checks": checks,
    "not_applicable": na,
    "notes": "See DESIGN.md. Exit 0 = held; exit 1 + VIOLATION line = violation; exit 2 = infrastructure error (never a violation).",
}
(VERIF / "MANIFEST.json").write_text(json.dumps(manifest, indent=1) + "\n")
print(f"{len(checks)} checks, {len(na)} not yet claimed")
