#!/usr/bin/env python3
"""replaces the seeded-changes table in DESIGN.md (between the two markers) by the output of seeded_table.py"""
import subprocess, re
from pathlib import Path
p = Path("/verif/DESIGN.md")
s = p.read_text()
t = subprocess.run(["python3", "/verif/tools/seeded_table.py"], capture_output=True, text=True, check=True).stdout
b, e = "<!-- SEEDED_TABLE_BEGIN -->", "<!-- SEEDED_TABLE_END -->"
if "SEEDED_TABLE\n" in s and b not in s:
    s = s.replace("SEEDED_TABLE\n", f"{b}\n{t}{e}\n")
else:
    s = re.sub(re.escape(b) + r".*?" + re.escape(e), lambda m: f"{b}\n{t}{e}", s, flags=re.S)
p.write_text(s)
print("table rows:", t.count("\n") - 2)
