#!/usr/bin/env python3
"""usage: keep_seeded.py <src dir> <id> <property> <caught_by comma list> <needs...>
copies patch.diff / demo.py / notes.txt into /verif/seeded/<id>/ and writes meta.json"""
import json, shutil, sys
from pathlib import Path

src, sid, prop, caught = sys.argv[1:5]
needs = " ".join(sys.argv[5:])
dst = Path("/verif/seeded") / sid
dst.mkdir(parents=True, exist_ok=True)
for f in ("patch.diff", "demo.py", "notes.txt"):
    if (Path(src) / f).exists():
        shutil.copy(Path(src) / f, dst / f)
notes = (dst / "notes.txt").read_text() if (dst / "notes.txt").exists() else ""
meta = {
    "id": sid,
    "breaks_property": prop,
    "needs_to_manifest": needs,
    "author": "independent sub-agent given only the property text and a scratch worktree of /repo",
    "what_was_run": [
        "tools/try_seeded.sh: patch applied to a scratch worktree of /repo HEAD; demo.py exits 1 with the change and 0 without it",
        "baseline suite in the changed worktree: tools/baseline.py (stable_pass 408/408)",
        "checks run against the changed worktree with VERIF_REPO=<worktree> ./check <id> --tier quick",
    ],
    "caught_by": [c for c in caught.split(",") if c],
    "notes": notes,
}
(dst / "meta.json").write_text(json.dumps(meta, indent=1))
print("kept", dst)
