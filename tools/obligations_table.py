#!/usr/bin/env python3
"""prints DESIGN.md section 10.9: obligations per property from lean/props.json"""
import json
P = json.load(open("/verif/lean/props.json"))
for pid in sorted(P):
    v = P[pid]
    names = [t["name"].replace("MD.Props.", "").replace("MD.Cfg.", "").replace("MD.Val.", "").replace("MD.", "") + ("*" if t.get("kind") != "full" else "") for t in v["theorems"]]
    print(f"* **{pid}** ({len(names)}; modules {', '.join(m.replace('MD.', '') for m in v['modules'])}): " + ", ".join(f"`{n}`" for n in names))
