#!/usr/bin/env python3
"""usage: seeded_merge.py <partial results files...>: merges them into seeded/RESULTS.json"""
import json, sys
from pathlib import Path

R = Path("/verif/seeded/RESULTS.json")
res = json.loads(R.read_text()) if R.exists() else {}
for f in sys.argv[1:]:
    res.update(json.loads(Path(f).read_text()))
R.write_text(json.dumps(dict(sorted(res.items())), indent=1))
print(len(res), "entries")
