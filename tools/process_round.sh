#!/bin/bash
# usage: tools/process_round.sh <round> <Cxx> [extra checks...]   -- confirms /tmp/out<round>_<Cxx>/{A,B} and runs the property's check
R=$1; C=$2; shift 2
for x in A B; do
  D=/tmp/out${R}_$C/$x
  [ -f $D/patch.diff ] || { echo "#### $C $x: nothing delivered"; continue; }
  echo "#### $C $x"
  /verif/tools/try_seeded.sh $D $C "$@" > $D/try.log 2>&1
  grep -E "exit=|stable_pass|VIOLATION|quick seed|DOES NOT|== check" $D/try.log | cut -c1-220
done
