#!/bin/bash
# usage: soak.sh <seed-from> <seed-to>   (run inside a /verif snapshot)
cd lean && lake build > ../soak_build.log 2>&1; cd ..
for s in $(seq $1 $2); do
  for i in 01 02 03 04 05 06 07 08 09 10 11 12 13 14 15 16 17 18 19 20; do echo "$s C$i"; done
done | xargs -P 3 -L 1 sh -c 'VERIF_SEED=$0 nice -n 10 ./check $1 --tier quick 2>&1 | grep -E "VIOLATION|KNOWN|INFRA|seed=" | sed "s/^/[seed $0] /"'
