#!/usr/bin/env python3
"""Runs the repository's baseline suite and compares with BASELINE.json's stable_pass list."""
import json, subprocess, sys, xml.etree.ElementTree as ET, tempfile, os
base = json.load(open("/root/.vp/BASELINE.json"))
out = tempfile.mktemp(suffix=".xml")
cmd = base["cmd"].replace("<file>", out)
alt = os.environ.get("VERIF_BASELINE_DIR")  # run the suite of another checkout (scratch worktree)
if alt:
    cmd = cmd.replace("cd /repo", f"cd {alt} && export PYTHONPATH={alt}/src")
subprocess.run(cmd, shell=True, capture_output=True)
passed = set()
for tc in ET.parse(out).getroot().iter("testcase"):
    if not any(ch.tag in ("failure", "error", "skipped") for ch in tc):
        passed.add(tc.get("classname") + "::" + tc.get("name"))
os.remove(out)
want = set(base["stable_pass"])
missing = sorted(want - passed)
print(f"stable_pass {len(want)}, passed now {len(passed)}, missing {len(missing)}")
for m in missing[:20]:
    print("  MISSING", m)
sys.exit(1 if missing else 0)
