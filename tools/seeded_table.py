#!/usr/bin/env python3
"""prints the markdown table of DESIGN.md section 10.5 from seeded/*/meta.json and seeded/RESULTS.json"""
import json
from pathlib import Path

S = Path("/verif/seeded")
res = json.loads((S / "RESULTS.json").read_text()) if (S / "RESULTS.json").exists() else {}
print("| id | breaks | needs to manifest | checks that report it (measured) | history |")
print("|---|---|---|---|---|")
for d in sorted(S.iterdir()):
    m = d / "meta.json"
    if not m.exists():
        continue
    m = json.loads(m.read_text())
    r = res.get(d.name, {})
    caught = ", ".join(c for c, v in r.get("checks", {}).items() if v["exit"] == 1) or "—"
    missed = ", ".join(c for c, v in r.get("checks", {}).items() if v["exit"] != 1)
    if missed:
        caught += f" (not: {missed})"
    hist = m.get("history", "")
    hist = "as delivered" if hist.startswith("caught by the check as it stood") else hist
    print(f"| {d.name} | {m['breaks_property']} | {m['needs_to_manifest']} | {caught} | {hist} |")
