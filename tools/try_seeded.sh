#!/bin/bash
# usage: tools/try_seeded.sh <dir with patch.diff + demo.py> <check ids...>
# Confirms a candidate change (demo fails with it / passes without it, baseline suite still green) in a scratch
# worktree outside /repo and /verif and runs the given checks against it. Removes the worktree afterwards.
D=$1; shift
WT=$(mktemp -d /tmp/seedXXXX); rmdir $WT
git -C /repo worktree add -q $WT HEAD || exit 3
if ! git -C $WT apply $D/patch.diff; then echo "PATCH DOES NOT APPLY"; git -C /repo worktree remove --force $WT; exit 3; fi
echo "== demo on changed tree (expect exit 1)"; (cd /tmp && PYTHONPATH=$WT/src timeout 600 /venv/bin/python $D/demo.py 2>&1 | tail -2; echo "exit=${PIPESTATUS[0]}")
echo "== demo on /repo (expect exit 0)"; (cd /tmp && PYTHONPATH=/repo/src timeout 600 /venv/bin/python $D/demo.py 2>&1 | tail -1; echo "exit=${PIPESTATUS[0]}")
if [ -z "$SKIP_BASELINE" ]; then
echo "== baseline suite on changed tree"; VERIF_BASELINE_DIR=$WT /venv/bin/python /verif/tools/baseline.py | tail -3
fi
for c in "$@"; do echo "== check $c"; VERIF_REPO=$WT /verif/check $c --tier quick 2>&1 | grep -E "VIOLATION|KNOWN|quick seed|ERROR" | head -4; done
git -C /repo worktree remove --force $WT
