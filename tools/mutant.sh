#!/bin/bash
# usage: tools/mutant.sh <sed-expression> <file-relative-to-src/model_diagnostics> <check ids...>
# applies a sed expression to a scratch copy of /repo/src and runs the given checks against it
set -e
D=$(mktemp -d /tmp/mutXXXX)
cp -r /repo/src $D/src
sed -i "$1" $D/src/model_diagnostics/$2
if diff -q /repo/src/model_diagnostics/$2 $D/src/model_diagnostics/$2 >/dev/null; then echo "MUTATION DID NOT APPLY"; rm -rf $D; exit 3; fi
diff /repo/src/model_diagnostics/$2 $D/src/model_diagnostics/$2 || true
shift 2
for c in "$@"; do VERIF_REPO=$D /verif/check $c --tier quick 2>&1 | grep -v "^\s*$" | tail -4 || true; done
rm -rf $D
