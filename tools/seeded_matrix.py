#!/usr/bin/env python3
"""Applies every kept seeded change to a scratch worktree of /repo (outside /repo and /verif), runs the given
checks (default: the broken property's own check plus the candidates in meta.json) against it with VERIF_REPO,
records which ones report a VIOLATION, and removes the worktree. Writes seeded/RESULTS.json and updates
meta.json['caught_by'] with what was measured."""
import json, subprocess, sys, tempfile, os
from pathlib import Path

SEEDED = Path("/verif/seeded")
only = sys.argv[1:]
# --out <file>: write the results of this invocation to a separate file (several invocations may then run side by side on
# disjoint ids; merge with tools/seeded_merge.py)
OUT = SEEDED / "RESULTS.json"
if only and only[0] == "--out":
    OUT = Path(only[1])
    only = only[2:]
results = json.loads(OUT.read_text()) if OUT.exists() else {}
for d in sorted(SEEDED.iterdir()):
    if not (d / "patch.diff").exists() or (only and d.name not in only):
        continue
    meta = json.loads((d / "meta.json").read_text())
    checks = sorted(set([meta["breaks_property"]] + meta.get("caught_by", []) + meta.get("also_try", [])))
    wt = tempfile.mkdtemp(prefix="seedm", dir="/tmp"); os.rmdir(wt)
    subprocess.run(["git", "-C", "/repo", "worktree", "add", "-q", wt, "HEAD"], check=True)
    try:
        if subprocess.run(["git", "-C", wt, "apply", str(d / "patch.diff")]).returncode != 0:
            results[d.name] = {"error": "patch does not apply"}
            continue
        demo_changed = subprocess.run(["/venv/bin/python", str(d / "demo.py")], cwd="/tmp", env={**os.environ, "PYTHONPATH": wt + "/src"}, capture_output=True).returncode
        demo_clean = subprocess.run(["/venv/bin/python", str(d / "demo.py")], cwd="/tmp", env={**os.environ, "PYTHONPATH": "/repo/src"}, capture_output=True).returncode
        res = {"demo_exit_with_change": demo_changed, "demo_exit_without": demo_clean, "checks": {}}
        for c in checks:
            p = subprocess.run(["/verif/check", c, "--tier", "quick"], env={**os.environ, "VERIF_REPO": wt}, capture_output=True, text=True)
            viol = [l for l in p.stdout.splitlines() if l.startswith("VIOLATION")]
            res["checks"][c] = {"exit": p.returncode, "violation_lines": len(viol), "no_failing_input_found": any("no-failing-input-found" in l for l in viol)}
        results[d.name] = res
        meta["caught_by"] = [c for c, r in res["checks"].items() if r["exit"] == 1 and r["violation_lines"] > 0]
        (d / "meta.json").write_text(json.dumps(meta, indent=1))
        print(d.name, {c: r["exit"] for c, r in res["checks"].items()}, "demo", demo_changed, demo_clean, flush=True)
    finally:
        subprocess.run(["git", "-C", "/repo", "worktree", "remove", "--force", wt])
    OUT.write_text(json.dumps(results, indent=1))
