#!/usr/bin/env python3
"""usage: make_mutant_prompts.py <round-number>
Writes /tmp/prompt<r>_Cxx.txt for every property: the adversary brief a fresh sub-agent gets (property text only, nothing
from /verif) with the changes already delivered for that property listed as taken."""
import json, sys
from pathlib import Path

r = sys.argv[1]
tmpl = Path("/verif/tools/mutant_prompt_template.txt").read_text()
seeded = Path("/verif/seeded")
for line in open("/verif/properties.jsonl"):
    p = json.loads(line)
    pid = p["id"]
    prop = (f"{pid} — {p['title']}\n\nSTATEMENT: {p['statement']}\n\nQUANTIFIED OVER: {p['quantifier']['text']}\n\n"
            f"CODE ANCHORS: {', '.join(p['anchors']['files'])}\n")
    taken = []
    for d in sorted(seeded.glob(f"{pid}-*")):
        m = json.loads((d / "meta.json").read_text())
        taken.append("  - " + m["needs_to_manifest"])
    txt = tmpl.replace("@PROP@", prop).replace("@TAKEN@", "\n".join(taken)).replace("@ID@", pid).replace("@R@", r)
    Path(f"/tmp/prompt{r}_{pid}.txt").write_text(txt)
    print(pid, len(taken), "taken")
