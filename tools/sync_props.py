#!/usr/bin/env python3
"""Rebuilds lean/props.json: property -> modules + obligations (every `theorem` of the property's
Props files, plus hand-listed supporting theorems)."""
import json
import re
from pathlib import Path

LEAN = Path(__file__).resolve().parent.parent / "lean"

# property -> list of (module, [explicit theorem names] or None = every theorem in the file)
SPEC = {
    "C01": [("MD.Props.C01", None), ("MD.Props.C01b", None), ("MD.Proofs.Unique", ["MD.C01_argmin_iff"]), ("MD.Proofs.MaxMin", ["MD.gpava_maxmin"]), ("MD.Proofs.Gpava", ["MD.gpava_spec"])],
    "C02": [("MD.Props.C02", None), ("MD.Props.C02b", None), ("MD.Props.C03b", ["MD.Props.C02_array_lower_stage", "MD.Props.C03_array_program"]), ("MD.Proofs.QuantStage", ["MD.pinball_flat", "MD.qLower_le_qUpper", "MD.C02_optimal_inc"])],
    "C03": [("MD.Props.C03", None), ("MD.Props.C03b", None), ("MD.Proofs.ExpectileInst", ["MD.eSum_expectile", "MD.eSum_strictMono", "MD.expectile_le_iff"])],
    "C04": [("MD.Props.C04_HES", None), ("MD.Props.C04_HQS", None)],
    "C05": [("MD.Props.C05", None)],
    "C06": [("MD.Props.C06", None), ("MD.Props.C06b", None)],
    "C07": [("MD.Props.C07", None), ("MD.Props.C07b", None)],
    "C08": [("MD.Props.C08", None)],
    "C09": [("MD.Props.C09", None)],
    "C10": [("MD.Props.C10", None), ("MD.Props.C10b", None)],
    "C11": [("MD.Props.C11", None), ("MD.Props.C11b", None)],
    "C12": [("MD.Props.C12", None), ("MD.Props.C12b", None), ("MD.Props.C01b", None), ("MD.Props.C03b", None), ("MD.Props.C12c", None)],
    "C13": [("MD.Props.C13", None)],
    "C14": [("MD.Props.C14", None), ("MD.Props.C04_HES", "re:C14_"), ("MD.Props.C04_HQS", "re:C14_")],
    "C15": [("MD.Props.C15", None), ("MD.Proofs.ElemIntegral", None)],
    "C16": [("MD.Props.C16", None), ("MD.Props.C16b", None)],
    "C17": [("MD.Props.C17", None), ("MD.Props.C17b", None)],
    "C18": [("MD.Props.C18", None)],
    "C19": [("MD.Props.C19", None), ("MD.Props.C19b", None), ("MD.Props.C19c", None)],
    "C20": [("MD.Props.C20", None)],
}
FALLBACK_MODULE = {"C04": "MD.Proofs.ScoreReal", "C05": "MD.Proofs.ScoreReal", "C14": "MD.Proofs.ScoreReal"}


INTEGRATED = set(re.findall(r"^import\s+(\S+)", (LEAN / "MD.lean").read_text(), flags=re.M))


def theorems_of(module):
    f = LEAN / (module.replace(".", "/") + ".lean")
    if not f.exists() or module not in INTEGRATED:  # only files that are part of the build (MD.lean)
        return None
    src = f.read_text()
    out = []
    ns = []
    for line in src.split("\n"):
        m = re.match(r"^namespace\s+(\S+)", line)
        if m:
            ns.append(m.group(1))
            continue
        m = re.match(r"^end\s+(\S+)", line)
        if m and ns and ns[-1] == m.group(1):
            ns.pop()
            continue
        m = re.match(r"^(?:@\[[^\]]*\]\s*)?(?:private\s+|protected\s+)?theorem\s+([^\s:({\[]+)", line)
        if m:
            name = m.group(1).replace("«", "").replace("»", "")
            kind = "partial" if name.endswith("_partial") else ("counterexample" if "counterexample" in name else "full")
            out.append({"name": ".".join(ns + [name]), "kind": kind})
    return out


props = {}
for pid, parts in SPEC.items():
    mods, thms = [], []
    for module, names in parts:
        ths = theorems_of(module)
        if ths is None:
            continue
        mods.append(module)
        if names is None:
            thms.extend(ths)
        elif isinstance(names, str) and names.startswith("re:"):
            thms.extend(t for t in ths if re.search(names[3:], t["name"]))
        else:
            thms.extend({"name": n, "kind": "full"} for n in names)
    if not mods:
        fb = FALLBACK_MODULE.get(pid)
        mods = [fb] if fb and (LEAN / (fb.replace(".", "/") + ".lean")).exists() else ["MD.Model.Num"]
    props[pid] = {"modules": mods, "theorems": thms}
(LEAN / "props.json").write_text(json.dumps(props, indent=1) + "\n")
for pid, v in props.items():
    print(pid, len(v["theorems"]), v["modules"])
