/-! Model of gpava (core only). -/
namespace MD

/-- observation (y, w) -/
abbrev Obs (K : Type) := K × K

structure Blk (K : Type) where
  data : List (Obs K)
  val  : K

variable {K : Type} [LE K] [DecidableLE K]

/-- Busing line 16: absorb following raw elements while `cur.val ≥ y_{i+1}` -/
def absorb (T : List (Obs K) → K) (cur : Blk K) : List (Obs K) → Blk K × List (Obs K)
  | [] => (cur, [])
  | p :: rest =>
    if p.1 ≤ cur.val then
      absorb T ⟨cur.data ++ [p], T (cur.data ++ [p])⟩ rest
    else (cur, p :: rest)

/-- Busing line 22: merge back while `prev.val ≥ cur.val`; stack has top first -/
def mergeBack (T : List (Obs K) → K) (cur : Blk K) : List (Blk K) → Blk K × List (Blk K)
  | [] => (cur, [])
  | top :: st =>
    if cur.val ≤ top.val then
      mergeBack T ⟨top.data ++ cur.data, T (top.data ++ cur.data)⟩ st
    else (cur, top :: st)

theorem absorb_len (T : List (Obs K) → K) (cur : Blk K) (l : List (Obs K)) :
    (absorb T cur l).2.length ≤ l.length := by
  induction l generalizing cur with
  | nil => simp [absorb]
  | cons p rest ih =>
    unfold absorb
    split
    · exact Nat.le_succ_of_le (ih _)
    · simp

/-- outer loop; `stack` top first -/
def loop (T : List (Obs K) → K) (stack : List (Blk K)) (rest : List (Obs K)) : List (Blk K) :=
  match rest with
  | [] => stack
  | p :: rest' =>
    match stack with
    | [] => loop T [⟨[p], p.1⟩] rest'
    | top :: st =>
      if p.1 ≤ top.val then
        let r1 := absorb T ⟨top.data ++ [p], T (top.data ++ [p])⟩ rest'
        let r2 := mergeBack T r1.1 st
        have : r1.2.length < (p :: rest').length := by
          have h := absorb_len T ⟨top.data ++ [p], T (top.data ++ [p])⟩ rest'
          show (absorb T ⟨top.data ++ [p], T (top.data ++ [p])⟩ rest').2.length < _
          simp only [List.length_cons]; omega
        loop T (r2.1 :: r2.2) r1.2
      else
        loop T (⟨[p], p.1⟩ :: top :: st) rest'
termination_by rest.length

def gpava (T : List (Obs K) → K) (ys : List (Obs K)) : List (Blk K) :=
  (loop T [] ys).reverse


/-! ## Functionals (executable, op-classes only) -/

section Functionals
variable {K : Type} [LE K] [DecidableLE K] [LT K] [DecidableLT K]
  [Add K] [Sub K] [Mul K] [Div K] [Neg K] [Zero K] [One K] [NatCast K] [Min K]

def wsum (d : List (Obs K)) : K := (d.map (fun o => o.2)).sum
def wysum (d : List (Obs K)) : K := (d.map (fun o => o.1 * o.2)).sum
/-- weighted mean (model of `sb / wb`) -/
def wmean (d : List (Obs K)) : K := wysum d / wsum d

/-- number of observations with y ≤ u -/
def cntLe (d : List (Obs K)) (u : K) : Nat := d.countP (fun o => o.1 ≤ u)
/-- number of observations with y < u -/
def cntLt (d : List (Obs K)) (u : K) : Nat := d.countP (fun o => o.1 < u)

/-- candidates: data values u with α·n ≤ #{y ≤ u} -/
def qCands (α : K) (d : List (Obs K)) : List K :=
  (d.map (·.1)).filter (fun u => α * (d.length : K) ≤ (cntLe d u : K))

/-- minimum of a list with a default for the empty list (never used on empty lists) -/
def minD (dflt : K) : List K → K
  | [] => dflt
  | a :: l => l.foldl min a

/-- lower α-quantile: least data value u with #{y ≤ u} ≥ α n (model of
`np.quantile(x, α, method="inverted_cdf")`); weights are ignored as in `quantile_lower`. -/
def qLower (α : K) (d : List (Obs K)) : K := minD 0 (qCands α d)

def negObs (d : List (Obs K)) : List (Obs K) := d.map (fun o => (-o.1, o.2))

/-- upper α-quantile exactly as `quantile_upper` writes it: `-quantile(-x, 1 - α)` with `1 - α`
exact (that is what the `Decimal` detour in the code is for). -/
def qUpper (α : K) (d : List (Obs K)) : K := - qLower (1 - α) (negObs d)

/-- asymmetry factor `|1{y ≤ u} - α|` of the expectile identification function -/
def eWeight (α : K) (u : K) (o : Obs K) : K := if o.1 ≤ u then 1 - α else α

/-- weighted expectile identification sum `Σ w |1{y≤u}-α| (u - y)` -/
def eSum (α : K) (d : List (Obs K)) (u : K) : K :=
  (d.map (fun o => o.2 * eWeight α u o * (u - o.1))).sum
/-- its slope on the linear piece that starts at `u` -/
def eSlope (α : K) (d : List (Obs K)) (u : K) : K :=
  (d.map (fun o => o.2 * eWeight α u o)).sum

/-- data values `c` whose identification sum is still ≤ 0 -/
def eCands (α : K) (d : List (Obs K)) : List K :=
  (d.map (·.1)).filter (fun c => eSum α d c ≤ 0)

def maxD (dflt : K) [Max K] : List K → K
  | [] => dflt
  | a :: l => l.foldl max a

/-- weighted α-expectile (model of `scipy.stats.expectile(x, alpha, weights)`): the identification
sum is piecewise linear, so one exact Newton step from the greatest data value with non-positive
sum lands on the root. -/
def expectile [Max K] (α : K) (d : List (Obs K)) : K :=
  let c := maxD 0 (eCands α d)
  c - eSum α d c / eSlope α d c

end Functionals

/-! ## `pava()` with running sums, as the code has it -/

section Pava
variable {K : Type} [LE K] [DecidableLE K] [Add K] [Mul K] [Div K]

/-- a block of `pava`: raw data (ghost), value `x[b]`, weight `w[b]` -/
structure MBlk (K : Type) where
  data : List (Obs K)
  val : K
  wgt : K

/-- current block under construction: ghost data, running sum `sb`, weight `wb`, value `xb` -/
structure MCur (K : Type) where
  data : List (Obs K)
  sb : K
  wb : K
  xb : K

/-- lines 112-116: `while i < n-1 and xb >= x[i+1]` -/
def mAbsorb (cur : MCur K) : List (Obs K) → MCur K × List (Obs K)
  | [] => (cur, [])
  | p :: rest =>
    if p.1 ≤ cur.xb then
      let sb := cur.sb + p.2 * p.1
      let wb := cur.wb + p.2
      mAbsorb ⟨cur.data ++ [p], sb, wb, sb / wb⟩ rest
    else (cur, p :: rest)

/-- lines 117-121: `while b >= 1 and x[b-1] >= xb` -/
def mMergeBack (cur : MCur K) : List (MBlk K) → MCur K × List (MBlk K)
  | [] => (cur, [])
  | top :: st =>
    if cur.xb ≤ top.val then
      let sb := cur.sb + top.wgt * top.val
      let wb := cur.wb + top.wgt
      mMergeBack ⟨top.data ++ cur.data, sb, wb, sb / wb⟩ st
    else (cur, top :: st)

theorem mAbsorb_len (cur : MCur K) (l : List (Obs K)) :
    (mAbsorb cur l).2.length ≤ l.length := by
  induction l generalizing cur with
  | nil => simp [mAbsorb]
  | cons p rest ih =>
    unfold mAbsorb
    split
    · exact Nat.le_succ_of_le (ih _)
    · simp

def mLoop (stack : List (MBlk K)) (rest : List (Obs K)) : List (MBlk K) :=
  match rest with
  | [] => stack
  | p :: rest' =>
    match stack with
    | [] => mLoop [⟨[p], p.1, p.2⟩] rest'
    | top :: st =>
      if p.1 ≤ top.val then
        let sb := top.wgt * top.val + p.2 * p.1
        let wb := p.2 + top.wgt
        let r1 := mAbsorb ⟨top.data ++ [p], sb, wb, sb / wb⟩ rest'
        let r2 := mMergeBack r1.1 st
        have : r1.2.length < (p :: rest').length := by
          have h := mAbsorb_len ⟨top.data ++ [p], sb, wb, sb / wb⟩ rest'
          show (mAbsorb ⟨top.data ++ [p], sb, wb, sb / wb⟩ rest').2.length < _
          simp only [List.length_cons]; omega
        mLoop (⟨r2.1.data, r2.1.xb, r2.1.wb⟩ :: r2.2) r1.2
      else
        mLoop (⟨[p], p.1, p.2⟩ :: top :: st) rest'
termination_by rest.length

/-- `pava(y, w)` as a list of blocks -/
def pavaMean (ys : List (Obs K)) : List (Blk K) :=
  ((mLoop [] ys).reverse).map (fun b => ⟨b.data, b.val⟩)

end Pava

/-! ## Output format and `isotonic_regression` -/

/-- the fitted sequence -/
def expand {K : Type} (bs : List (Blk K)) : List K :=
  bs.flatMap (fun b => List.replicate b.data.length b.val)

/-- block index vector `r`: `[0, n₁, n₁+n₂, …, n]` -/
def bounds {K : Type} (bs : List (Blk K)) : List Nat :=
  (bs.foldl (fun (acc : List Nat × Nat) b => (acc.1 ++ [acc.2 + b.data.length], acc.2 + b.data.length))
    ([0], 0)).1

inductive Err where
  | valueError | notImplemented | typeError | zeroDivision | other
  deriving Repr, DecidableEq

inductive Functional where
  | mean | median | expectile | quantile
  deriving Repr, DecidableEq

def Functional.ofString? : String → Option Functional
  | "mean" => some .mean
  | "median" => some .median
  | "expectile" => some .expectile
  | "quantile" => some .quantile
  | _ => none

section IsoReg
variable {K : Type} [LE K] [DecidableLE K] [LT K] [DecidableLT K]
  [Add K] [Sub K] [Mul K] [Div K] [Neg K] [Zero K] [One K] [NatCast K] [Min K] [Max K]

/-- running minimum from the right: `np.minimum.accumulate(q[::-1])[::-1]` -/
def minAccRight : List K → List K
  | [] => []
  | [a] => [a]
  | a :: l => match minAccRight l with
    | [] => [a]
    | m :: t => min a m :: m :: t

/-- `np.nonzero(np.diff(x))[0] + 1` wrapped as `np.r_[0, …, len(x)]`: starts of maximal constant runs -/
def runBounds (x : List K) : List Nat :=
  let rec go (i : Nat) : List K → List Nat
    | a :: b :: t => if a ≤ b ∧ b ≤ a then go (i + 1) (b :: t) else (i + 1) :: go (i + 1) (b :: t)
    | _ => []
  0 :: (go 0 x ++ [x.length])

def half : K := 1 / (1 + 1)

/-- the quantile stage of `isotonic_regression` (lines 398-418) on already-oriented data -/
def quantileFit (α : K) (ys : List (Obs K)) : List K × List Nat :=
  let bl := gpava (qLower α) ys
  let xl := expand bl
  let q := bl.map (fun b => qUpper α b.data)
  let qa := minAccRight q
  let xu := (List.zipWith (fun (b : Blk K) v => List.replicate b.data.length v) bl qa).flatten
  let x := List.zipWith (fun a b => half * (a + b)) xl xu
  (x, runBounds x)

/-- `isotonic_regression(y, weights, increasing, functional, level)` with the code's order of checks.
`w = none` models `weights=None`. -/
def isoReg (fn : Option Functional) (α : K) (inc : Bool) (y : List K) (w : Option (List K)) :
    Except Err (List K × List Nat) := do
  let f ← match fn with
    | none => throw Err.valueError
    | some f => pure f
  if (f = .expectile ∨ f = .quantile) ∧ (α ≤ 0 ∨ 1 ≤ α) then throw Err.valueError
  let (f, α) := if f = .median then (Functional.quantile, (half : K)) else (f, α)
  let w ← match w with
    | none => pure (y.map (fun _ => (1 : K)))
    | some w =>
      if f = .quantile then throw Err.notImplemented
      if w.length ≠ y.length then throw Err.valueError
      if w.any (fun v => v ≤ 0) then throw Err.valueError
      pure w
  if y = [] then throw Err.other  -- `y[0]`: IndexError
  let obs := List.zip y w
  let obs := if inc then obs else obs.reverse
  let (x, r) := match f with
    | .mean => let bs := pavaMean obs; (expand bs, bounds bs)
    | .expectile => let bs := gpava (expectile α) obs; (expand bs, bounds bs)
    | _ => quantileFit α obs
  if inc then pure (x, r)
  else
    let n := r.getLast?.getD 0
    pure (x.reverse, r.reverse.map (fun i => n - i))

end IsoReg

end MD
