import MD.Model.Ident
/-! Binning (`_utils/binning.py`), `compute_bias` and `compute_marginal`
(`calibration/identification.py`), exact over an ordered field. -/
namespace MD

/-- a numeric feature cell: null/NaN, ±inf or a finite value -/
inductive Cell (K : Type) where
  | null | negInf | fin (v : K) | posInf
  deriving Repr

section Binning
variable {K : Type} [LE K] [DecidableLE K] [LT K] [DecidableLT K]
  [Add K] [Sub K] [Mul K] [Div K] [Neg K] [Zero K] [One K] [NatCast K]

def Cell.isNull : Cell K → Bool
  | .null => true
  | _ => false

/-- order on non-null cells -/
def Cell.lt : Cell K → Cell K → Bool
  | .negInf, .negInf => false
  | .negInf, _ => true
  | _, .negInf => false
  | .posInf, _ => false
  | _, .posInf => true
  | .fin a, .fin b => decide (a < b)
  | _, _ => false

def Cell.le (a b : Cell K) : Bool := !(Cell.lt b a)

def cellMin (l : List (Cell K)) : Option (Cell K) :=
  match l with
  | [] => none
  | a :: t => some (t.foldl (fun m c => if Cell.lt c m then c else m) a)

def cellMax (l : List (Cell K)) : Option (Cell K) :=
  match l with
  | [] => none
  | a :: t => some (t.foldl (fun m c => if Cell.lt m c then c else m) a)

def finiteVals (l : List (Cell K)) : List K :=
  l.filterMap (fun c => match c with | .fin v => some v | _ => none)

/-- inverted-cdf quantile of non-null cells at level `k/m`: least cell `u` with `#{c ≤ u}·m ≥ k·n` -/
def cellQuantile (l : List (Cell K)) (k m : Nat) : Option (Cell K) :=
  let n := l.length
  cellMin (l.filter (fun u => decide (k * n ≤ (l.countP (fun c => Cell.le c u)) * m)))

/-- sorted distinct (`np.unique`) -/
def cellDedupSorted (l : List (Cell K)) : List (Cell K) :=
  let sorted := l.mergeSort (fun a b => Cell.le a b)
  sorted.foldr (fun c acc => match acc with
    | [] => [c]
    | d :: _ => if Cell.lt c d then c :: acc else acc) []

inductive BinMethod where
  | quantile | uniform
  | numpy   -- one of the eight `np.histogram_bin_edges` estimators: edges are supplied
  deriving DecidableEq, Repr

/-- interior bin edges; `given` = what `np.histogram_bin_edges(...)[1:-1]` returned for `numpy` -/
def interiorEdges (m : BinMethod) (nonNull : List (Cell K)) (nBinsEf : Nat) (given : List K) :
    List (Cell K) :=
  match m with
  | .quantile =>
    cellDedupSorted ((List.range (nBinsEf - 1)).filterMap (fun i => cellQuantile nonNull (i + 1) nBinsEf))
  | .uniform =>
    let fv := finiteVals nonNull
    match fv with
    | [] => []
    | a :: t =>
      let fmin := t.foldl (fun m v => if v < m then v else m) a
      let fmax := t.foldl (fun m v => if m < v then v else m) a
      (List.range (nBinsEf - 1)).map (fun i => Cell.fin (fmin + (fmax - fmin) * ((i + 1 : Nat) : K) / (nBinsEf : K)))
  | .numpy => given.map Cell.fin

/-- `np.digitize(x, bins, right=True)`: number of edges strictly below `x` -/
def digitize (edges : List (Cell K)) (x : Cell K) : Nat := edges.countP (fun e => Cell.lt e x)

structure NumBinning (K : Type) where
  nBins : Nat                                   -- returned `n_bins_ef + has_nulls`
  bins : List (Option Nat)                      -- per row
  edges : List (Option (Cell K × Cell K))       -- per row: `bin_edges`

/-- numeric branch of `bin_feature` (lines 226-296) -/
def binNumeric (m : BinMethod) (nBins : Nat) (given : List K) (feature : List (Cell K)) :
    NumBinning K :=
  let nonNull := feature.filter (fun c => !c.isNull)
  let hasNulls := feature.any (·.isNull)
  if nonNull = [] then
    ⟨1, feature.map (fun _ => none), feature.map (fun _ => none)⟩
  else
    let nBinsEf0 := max 1 (nBins - (if hasNulls then 1 else 0))
    let inner := interiorEdges m nonNull nBinsEf0 given
    let nBinsEf := if m = .numpy then inner.length + 1 else nBinsEf0
    let lo := (cellMin nonNull).getD .null
    let hi := (cellMax nonNull).getD .null
    let full := [lo] ++ inner ++ [hi]
    let bins := feature.map (fun c => if c.isNull then none else some (digitize inner c))
    let edges := bins.map (fun b => b.map (fun i => (full.getD i .null, full.getD (i + 1) .null)))
    ⟨nBinsEf + (if hasNulls then 1 else 0), bins, edges⟩

end Binning

/-! ### string-like features -/

/-- `_format_integer`: three significant digits (round half to even), suffixes k/M/G/T -/
def formatInteger (n : Nat) : String :=
  let digits := (toString n).length
  let m :=
    if digits ≤ 3 then n
    else
      let p := 10 ^ (digits - 3)
      let q := n / p
      let r := n % p
      let q := if 2 * r > p ∨ (2 * r = p ∧ q % 2 = 1) then q + 1 else q
      q * p
  let rec mag (x : Nat) (k : Nat) (fuel : Nat) : Nat :=
    match fuel with
    | 0 => k
    | fuel + 1 => if x ≥ 1000 * 1000 ^ k ∧ k < 4 then mag x (k + 1) fuel else k
  let k := mag m 0 4
  let unit := 1000 ^ k
  let ip := m / unit
  let fp := m % unit
  -- six decimals as `f"{x:f}"` prints them, then strip trailing zeros
  let frac6 := fp * 1000000 / unit
  let fs := toString frac6
  let fs := String.mk (List.replicate (6 - fs.length) '0') ++ fs
  let fs := String.mk (fs.toList.reverse.dropWhile (· = '0')).reverse
  let body := if fs.isEmpty then toString ip else toString ip ++ "." ++ fs
  body ++ (["", "k", "M", "G", "T"].getD k "")

structure StrBinning where
  nBins : Nat
  bins : List (Option String)
  pooled : Option String     -- the artificial name, if any
  deriving Repr

/-- position of a category in the natural order: string order, or the Enum's category list -/
def catLt (enumOrder : Option (List String)) (a b : String) : Bool :=
  match enumOrder with
  | none => decide (a < b)
  | some cats => decide (cats.idxOf a < cats.idxOf b)

def countOcc (feature : List (Option String)) (c : String) : Nat :=
  feature.countP (fun v => v = some c)

/-- distinct non-null values in order of first occurrence -/
def distinctVals (feature : List (Option String)) : List String :=
  feature.foldl (fun acc v => match v with
    | some s => if acc.contains s then acc else acc ++ [s]
    | none => acc) []

/-- string / categorical / enum branch of `bin_feature` (lines 167-225) -/
def binString (enumOrder : Option (List String)) (nBins : Nat) (feature : List (Option String)) :
    StrBinning :=
  let hasNulls := feature.any (·.isNone)
  let nBinsEf := max 1 (nBins - (if hasNulls then 1 else 0))
  let vals := distinctVals feature
  -- value_counts sorted by (count desc, value asc)
  let vc := vals.mergeSort (fun a b =>
    let ca := countOcc feature a
    let cb := countOcc feature b
    if ca > cb then true else if ca < cb then false else !(catLt enumOrder b a))
  if nBinsEf ≥ vc.length then
    ⟨vc.length + (if hasNulls then 1 else 0), feature, none⟩
  else
    let keep := vc.take (nBinsEf - 1)
    let nRemaining := vc.length - (nBinsEf - 1)
    let name0 := "other " ++ formatInteger nRemaining
    -- `while remaining_name in existing_values: remaining_name = "_" + remaining_name`; the existing
    -- values are all real values of the column (for an Enum: all its declared categories)
    let existing := match enumOrder with
      | some cats => cats
      | none => vals
    let rec fresh (name : String) (fuel : Nat) : String :=
      match fuel with
      | 0 => name
      | fuel + 1 => if existing.contains name then fresh ("_" ++ name) fuel else name
    let name := fresh name0 (existing.length + 1)
    let bins := feature.map (fun v => match v with
      | none => none
      | some s => if keep.contains s then some s else some name)
    ⟨nBinsEf + (if hasNulls then 1 else 0), bins, some name⟩

/-! ### group-by tables -/

section Tables
variable {K : Type} [LE K] [DecidableLE K] [LT K] [DecidableLT K]
  [Add K] [Sub K] [Mul K] [Div K] [Neg K] [Zero K] [One K] [NatCast K]

/-- statistics of one value column inside one group -/
structure ColStat (K : Type) where
  mean : K
  /-- `stderr²`: `variance/(count-1)` if `count > 1` else `variance` -/
  stderr2 : K

def groupStat (vals ws : List K) : ColStat K :=
  let sw := ws.sum
  let m := (List.zipWith (· * ·) ws vals).sum / sw
  let var := (List.zipWith (fun w v => w * ((v - m) * (v - m))) ws vals).sum / sw
  let c := vals.length
  ⟨m, if c > 1 then var / ((c - 1 : Nat) : K) else var⟩

/-- the distinct group keys in order of first occurrence -/
def distinctKeys {α : Type} [BEq α] (keys : List α) : List α :=
  keys.foldl (fun acc k => if acc.contains k then acc else acc ++ [k]) []

structure GroupRow (K : Type) (α : Type) where
  key : α
  count : Nat
  weights : K
  stats : List (ColStat K)    -- one per value column
  idx : List Nat              -- member row indices

/-- `group_by(bin).agg(...)`: groups in order of first occurrence -/
def groupRows {α : Type} [BEq α] (keys : List α) (cols : List (List K)) (ws : List K) :
    List (GroupRow K α) :=
  (distinctKeys keys).map (fun k =>
    let idx := (List.range keys.length).filter (fun i => keys[i]? == some k)
    let pick (l : List K) : List K := idx.filterMap (fun i => l[i]?)
    ⟨k, idx.length, (pick ws).sum, cols.map (fun c => groupStat (pick c) (pick ws)), idx⟩)

/-- `.sort("__priority", descending=True).head(n_bins)`: the null group first, then by count -/
def truncateGroups {α : Type} (isNullKey : α → Bool) (nBins : Nat) (gs : List (GroupRow K α)) :
    List (GroupRow K α) :=
  let maxc := gs.foldl (fun m g => max m g.count) 0
  let prio (g : GroupRow K α) : Nat := if isNullKey g.key then maxc + 1 else g.count
  (gs.mergeSort (fun a b => decide (prio a ≥ prio b))).take nBins

/-- bin key of a row -/
inductive Key where
  | null | num (i : Nat) | str (s : String)
  deriving BEq, Repr

def Key.isNull : Key → Bool
  | .null => true
  | _ => false

/-- mean of the feature values of a numeric bin as polars computes it (`null` stands for NaN) -/
def cellMean (cs : List (Cell K)) : Cell K :=
  let hasP := cs.any (fun c => match c with | .posInf => true | _ => false)
  let hasN := cs.any (fun c => match c with | .negInf => true | _ => false)
  if hasP ∧ hasN then .null
  else if hasP then .posInf
  else if hasN then .negInf
  else
    let v := finiteVals cs
    if v = [] then .null else .fin (v.sum / (v.length : K))

/-- population variance (`std(ddof=0)²`) of the feature values of a bin; `none` for NaN/null -/
def cellVar (cs : List (Cell K)) : Option K :=
  let v := finiteVals cs
  if v.length ≠ cs.length ∨ v = [] then none
  else
    let m := v.sum / (v.length : K)
    some ((v.map (fun x => (x - m) * (x - m))).sum / (v.length : K))

structure OutRow (K : Type) where
  key : Key
  /-- numeric features: mean of the feature in the bin -/
  featMean : Cell K
  count : Nat
  weights : K
  stats : List (ColStat K)
  featVar : Option K
  edges : Option (Cell K × Cell K)

/-- final `.sort(feature_name)`: nulls first; numeric by bin mean; strings in natural order with the
pooled name placed by string order (Utf8, Categorical) or last (Enum) -/
def keyLe (enumOrder : Option (List String)) (pooled : Option String) (a b : OutRow K) : Bool :=
  match a.key, b.key with
  | .null, _ => true
  | _, .null => false
  | .num _, .num _ =>
    -- NaN (encoded as null) sorts last
    (match a.featMean, b.featMean with
     | .null, .null => true
     | .null, _ => false
     | _, .null => true
     | x, y => Cell.le x y)
  | .str s, .str t =>
    (match enumOrder with
     | none => decide (s ≤ t)
     | some cats =>
       if some s = pooled then decide (some t = pooled)
       else if some t = pooled then true
       else decide (cats.idxOf s ≤ cats.idxOf t))
  | .num _, .str _ => true
  | .str _, .num _ => false

/-- the grouped table shared by `compute_bias` (one value column: the identification function) and
`compute_marginal` (two value columns: `y_obs`, `y_pred`) -/
def groupedTable (keys : List Key) (feature : List (Cell K)) (rowEdges : List (Option (Cell K × Cell K)))
    (cols : List (List K)) (ws : List K) (nBins : Nat)
    (enumOrder : Option (List String)) (pooled : Option String) : List (OutRow K) :=
  let gs := truncateGroups Key.isNull nBins (groupRows keys cols ws)
  let rows := gs.map (fun g =>
    let cs := g.idx.filterMap (fun i => feature[i]?)
    (⟨g.key, cellMean cs, g.count, g.weights, g.stats, cellVar cs,
      (g.idx.head?.bind (fun i => rowEdges[i]?)).join⟩ : OutRow K))
  rows.mergeSort (keyLe enumOrder pooled)

/-- ungrouped path (`feature=None`) -/
def ungroupedRow (cols : List (List K)) (ws : List K) : OutRow K :=
  ⟨.null, .null, ws.length, ws.sum, cols.map (fun c => groupStat c ws), none, none⟩

end Tables
end MD
