import MD.Model.PD
/-! The partial-dependence column of `compute_marginal` (`calibration/identification.py`): the grid is
the feature column of the grouped table without the artificial pooled row; the values are put back
at the rows they belong to. -/
namespace MD

section Marginal
variable {K : Type} [Add K] [Sub K] [Mul K] [Div K] [Zero K] [One K] [NatCast K]
  [LE K] [DecidableLE K] [Inhabited K]

/-- `is_real = [v in real_values for v in grid]` with `real_values = set(feature.unique())` (a null
feature value is a real value); numeric features: every row is real -/
def isRealKey (feature : List (Option String)) (key : Option String) : Bool := feature.contains key

/-- `grid.filter(pl.Series(is_real))` -/
def realGrid {α : Type} (rowVals : List α) (isReal : List Bool) : List α :=
  (rowVals.zip isReal).filterMap (fun p => if p.2 then some p.1 else none)

/-- `[next(pd_iter) if real else None for real in is_real]`; `none` also where the iterator would
be exhausted (`next` would raise `StopIteration`; `reinsert_realGrid` shows it cannot happen) -/
def reinsert {β : Type} : List Bool → List β → List (Option β)
  | [], _ => []
  | true :: r, v :: vs => some v :: reinsert r vs
  | true :: r, [] => none :: reinsert r []
  | false :: r, vs => none :: reinsert r vs

/-- the `partial_dependence` column: one entry per output row of the table. `rowVals` = the feature
column of the table (bin means / category values as the predict function sees them), `isReal` the
flags above. -/
def marginalPD (f : List K → K) (X : List (List K)) (j : Nat) (rowVals : List K) (isReal : List Bool)
    (w : Option (List K)) (sub : Option (List Nat)) : List (Option K) :=
  if isReal.all id then
    -- `has_rest_n` is false: the whole feature column is the grid
    (partialDependence f X j rowVals w sub).map some
  else
    reinsert isReal (partialDependence f X j (realGrid rowVals isReal) w sub)

/-- predict functions used by the correspondence for string-like features (the harness maps every
category to a number): `value(category) * x_k + c` -/
def predCat (c : K) (j k : Nat) (row : List K) : K := row[j]! * row[k]! + c

end Marginal
end MD
