import MD.Model.Iso
/-! `pava()` (`_utils/isotonic.py` 33-143) **as the code has it**: three arrays `x`, `w`, `r` that are overwritten in place,
the block counter `b`, the element counter `i`, `xb_prev`, `wb_prev`, the two inner `while` loops, and the closing
loop that spreads the block values over the elements (Algorithm 1 of Busing 2022, 0-based).

`pavaMean` (`MD/Model/Iso.lean`) describes the same computation with a stack of blocks; `MD/Proofs/PavaArrLemmas.lean`
proves that the array program below computes exactly `expand (pavaMean …)` and `bounds (pavaMean …)`, so every
theorem about the stack model is a theorem about this program.

Arrays are total functions `Nat → _` (a write is `upd`); the positions the program reads are always inside `0 ≤ · < n`
(resp. `≤ n` for `r`). Loops carry a fuel argument that the entry point sets to the number of remaining elements.
Core only. -/
namespace MD.Arr

/-- `a[k] = v` -/
def upd {α : Type} (a : Nat → α) (k : Nat) (v : α) : Nat → α := fun j => if j = k then v else a j

variable {K : Type} [LE K] [DecidableLE K] [Add K] [Mul K] [Div K]

/-- lines 16-20: `while i < n - 1 and xb >= x[i + 1]: i += 1; sb += w[i] * x[i]; wb += w[i]; xb = sb / wb` -/
def up (x w : Nat → K) (n : Nat) : Nat → Nat → K → K → K → Nat × K × K × K
  | 0, i, sb, wb, xb => (i, sb, wb, xb)
  | fuel + 1, i, sb, wb, xb =>
    if i + 1 < n ∧ x (i + 1) ≤ xb then
      let sb' := sb + w (i + 1) * x (i + 1)
      let wb' := wb + w (i + 1)
      up x w n fuel (i + 1) sb' wb' (sb' / wb')
    else (i, sb, wb, xb)

/-- lines 22-26: `while b >= 1 and x[b - 1] >= xb: b -= 1; sb += w[b] * x[b]; wb += w[b]; xb = sb / wb` -/
def down (x w : Nat → K) : Nat → K → K → K → Nat × K × K × K
  | 0, sb, wb, xb => (0, sb, wb, xb)
  | b + 1, sb, wb, xb =>
    if xb ≤ x b then
      let sb' := sb + w b * x b
      let wb' := wb + w b
      down x w b sb' wb' (sb' / wb')
    else (b + 1, sb, wb, xb)

/-- the variables of the main loop -/
structure St (K : Type) where
  x : Nat → K
  w : Nat → K
  r : Nat → Nat
  b : Nat
  i : Nat
  xbp : K
  wbp : K

/-- one round of `while i < n` (lines 8-32) -/
def step (n : Nat) (s : St K) : St K :=
  let xb := s.x s.i
  let wb := s.w s.i
  if xb ≤ s.xbp then
    -- down violation: the element joins the previous block (`b += 1; b -= 1`)
    let sb := s.wbp * s.xbp + wb * xb
    let wb := wb + s.wbp
    let xb := sb / wb
    let u := up s.x s.w n (n - s.i) s.i sb wb xb
    let d := down s.x s.w s.b u.2.1 u.2.2.1 u.2.2.2
    { x := upd s.x d.1 d.2.2.2, w := upd s.w d.1 d.2.2.1, r := upd s.r (d.1 + 1) (u.1 + 1),
      b := d.1, i := u.1 + 1, xbp := d.2.2.2, wbp := d.2.2.1 }
  else
    { x := upd s.x (s.b + 1) xb, w := upd s.w (s.b + 1) wb, r := upd s.r (s.b + 2) (s.i + 1),
      b := s.b + 1, i := s.i + 1, xbp := xb, wbp := wb }

/-- `while i < n` -/
def loop (n : Nat) : Nat → St K → St K
  | 0, s => s
  | fuel + 1, s => if s.i < n then loop n fuel (step n s) else s

/-- lines 33-40, one block: `for i in range(f, t - 1, -1): x[i] = xk` (`e = f + 1`, the exclusive end) -/
def fillRange (x : Nat → K) (t e : Nat) (v : K) : Nat → K := fun p => if t ≤ p ∧ p < e then v else x p

/-- lines 33-40: `for k in range(b, -1, -1): t = r[k]; xk = x[k]; fill x[t..f] with xk; f = t - 1`;
`cnt = k + 1` blocks remain, `e = f + 1` -/
def spread (r : Nat → Nat) : Nat → (Nat → K) → Nat → Nat → K
  | 0, x, _ => x
  | k + 1, x, e => spread r k (fillRange x (r k) e (x k)) (r k)

/-- `pava(y, w)` for `n ≥ 1` observations: returns `x` and `r[: b + 2]` -/
def pavaArr (ys : List (Obs K)) : List K × List Nat :=
  match ys with
  | [] => ([], [0])          -- not reached: `y[0]` raises for an empty array (isoReg rejects it before)
  | p :: _ =>
    let n := ys.length
    let x0 : Nat → K := fun k => (ys.getD k p).1
    let w0 : Nat → K := fun k => (ys.getD k p).2
    let r0 : Nat → Nat := upd (upd (fun _ => 0) 0 0) 1 1
    let s := loop n n { x := x0, w := w0, r := r0, b := 0, i := 1, xbp := p.1, wbp := p.2 }
    let x' := spread s.r (s.b + 1) s.x n
    ((List.range n).map x', (List.range (s.b + 2)).map s.r)

end MD.Arr
