import MD.Model.Decompose
import MD.Model.Table
/-! Line data of the three diagnostic plots (matplotlib backend), built from the models of the
statistics they draw. Rendering itself is outside the model. -/
namespace MD

section Plot
variable {K : Type} [LE K] [DecidableLE K] [LT K] [DecidableLT K]
  [Add K] [Sub K] [Mul K] [Div K] [Neg K] [Zero K] [One K] [NatCast K] [Min K] [Max K] [Inhabited K]

/-- a drawn line: x data and y data -/
structure Line (K : Type) where
  xs : List K
  ys : List K

/-- `get_array_min_max(y_pred)` over all columns -/
def predRange (cols : List (List K)) : Option (K × K) :=
  match cols.flatten with
  | [] => none
  | a :: t => some (t.foldl min a, t.foldl max a)

/-- the dotted diagonal of a reliability diagram: from the smallest to the largest prediction -/
def diagonal (cols : List (List K)) : Option (Line K) :=
  (predRange cols).map (fun (lo, hi) => ⟨[lo, hi], [lo, hi]⟩)

/-- one reliability curve: the thresholds of the isotonic fit of the observations on the
predictions; `bias = true` draws prediction minus fit -/
def reliabilityCurve (fn : Option Functional) (α : K) (bias : Bool) (ys x : List K)
    (w : Option (List K)) : Except Err (Line K) := do
  let (tx, ty) ← isoFit fn α true x ys w
  pure ⟨tx, if bias then List.zipWith (· - ·) tx ty else ty⟩

/-- all curves of `plot_reliability_diagram`, one per model column, in column order -/
def reliabilityLines (fn : Option Functional) (α : K) (bias : Bool) (ys : List K)
    (cols : List (List K)) (w : Option (List K)) : Except Err (List (Line K)) :=
  cols.mapM (fun x => reliabilityCurve fn α bias ys x w)

/-- `np.average` with `eqK` on the exact field (no ScoreOps needed) -/
def averageK (a : List K) (w : Option (List K)) : Except Err K :=
  match w with
  | none => if a = [] then throw Err.zeroDivision else pure (a.sum / (a.length : K))
  | some w =>
    if w.length ≠ a.length then throw Err.typeError
    else
      let sw := w.sum
      if sw ≤ 0 ∧ 0 ≤ sw then throw Err.zeroDivision
      else pure ((List.zipWith (· * ·) a w).sum / sw)

/-- one Murphy curve: the weighted average elementary score at each threshold -/
def murphyCurve (fn : Option Functional) (α : K) (etas : List K) (ys x : List K)
    (w : Option (List K)) : Except Err (Line K) := do
  let vals ← etas.mapM (fun η => do
    let s ← elemArr false fn α η ys x
    averageK s w)
  pure ⟨etas, vals⟩

def murphyLines (fn : Option Functional) (α : K) (etas : List K) (ys : List K)
    (cols : List (List K)) (w : Option (List K)) : Except Err (List (Line K)) :=
  cols.mapM (fun x => murphyCurve fn α etas ys x w)

end Plot
end MD

namespace MD
section BiasPlot
variable {K : Type} [Zero K]

/-- `plot_bias`, one model: the points joined by the line are the non-null rows of that model's
`compute_bias` table, in table order — (row, its `bias_mean`) -/
def biasPoints (rows : List (OutRow K)) : List (OutRow K × K) :=
  (rows.filter (fun r => !r.key.isNull)).map (fun r => (r, (r.stats.headD ⟨0, 0⟩).mean))

/-- … and the diamond drawn for the null group, at that group's `bias_mean` -/
def biasNullPoint (rows : List (OutRow K)) : Option K :=
  (rows.find? (fun r => r.key.isNull)).map (fun r => (r.stats.headD ⟨0, 0⟩).mean)

end BiasPlot
end MD
