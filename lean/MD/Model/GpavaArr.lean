import MD.Model.PavaArr
/-! `gpava(fun, y, w)` (`_utils/isotonic.py` 146-284) **as the code has it**: the same skeleton as `pava` (Algorithm 1 of
Busing 2022), but without running sums: whenever a block changes, its value is recomputed by `fun` from a slice of the
*original* arrays, `fun(y[r[b] : i + 1], w[r[b] : i + 1])`. `x` (block values in `x[0..b]`, unprocessed observations in
`x[i..n)`) and `r` are overwritten in place; `y`, `w` are only read.

`MD/Proofs/GpavaArrLemmas.lean` proves that this program computes `expand (gpava T ys)` and `bounds (gpava T ys)` for the
stack model `gpava` the property theorems (C02, C03, C11, C12) are about - for every functional `T` and every
non-empty input. Core only. -/
namespace MD.Arr

variable {K : Type} [LE K] [DecidableLE K]

/-- `zip(y[a:b], w[a:b])` -/
def slice (y w : Nat → K) (a b : Nat) : List (Obs K) := (List.range (b - a)).map (fun t => (y (a + t), w (a + t)))

/-- lines 16-20: `while i < n - 1 and xb >= x[i + 1]: i += 1; xb = fun(y[r[b] : i + 1], w[r[b] : i + 1])`;
`start = r[b]` does not change in this loop -/
def upG (T : List (Obs K) → K) (x y w : Nat → K) (n start : Nat) : Nat → Nat → K → Nat × K
  | 0, i, xb => (i, xb)
  | fuel + 1, i, xb =>
    if i + 1 < n ∧ x (i + 1) ≤ xb then upG T x y w n start fuel (i + 1) (T (slice y w start (i + 2)))
    else (i, xb)

/-- lines 22-26: `while b >= 1 and x[b - 1] >= xb: b -= 1; xb = fun(y[r[b] : i + 1], w[r[b] : i + 1])` -/
def downG (T : List (Obs K) → K) (x y w : Nat → K) (r : Nat → Nat) (i : Nat) : Nat → K → Nat × K
  | 0, xb => (0, xb)
  | b + 1, xb => if xb ≤ x b then downG T x y w r i b (T (slice y w (r b) (i + 1))) else (b + 1, xb)

structure StG (K : Type) where
  x : Nat → K
  r : Nat → Nat
  b : Nat
  i : Nat
  xbp : K

/-- one round of `while i < n` -/
def stepG (T : List (Obs K) → K) (y w : Nat → K) (n : Nat) (s : StG K) : StG K :=
  let xb := s.x s.i
  if xb ≤ s.xbp then
    -- `xb = fun(y[r[b] : r[b + 1] + 1], …)` with `r[b + 1] = i`
    let xb := T (slice y w (s.r s.b) (s.r (s.b + 1) + 1))
    let u := upG T s.x y w n (s.r s.b) (n - s.i) s.i xb
    let d := downG T s.x y w s.r u.1 s.b u.2
    { x := upd s.x d.1 d.2, r := upd s.r (d.1 + 1) (u.1 + 1), b := d.1, i := u.1 + 1, xbp := d.2 }
  else
    { x := upd s.x (s.b + 1) xb, r := upd s.r (s.b + 2) (s.i + 1), b := s.b + 1, i := s.i + 1, xbp := xb }

def loopG (T : List (Obs K) → K) (y w : Nat → K) (n : Nat) : Nat → StG K → StG K
  | 0, s => s
  | fuel + 1, s => if s.i < n then loopG T y w n fuel (stepG T y w n s) else s

/-- `gpava(fun, y, w)` for `n ≥ 1`: returns `x` and `r[: b + 2]` -/
def gpavaArr (T : List (Obs K) → K) (ys : List (Obs K)) : List K × List Nat :=
  match ys with
  | [] => ([], [0])
  | p :: _ =>
    let n := ys.length
    let y0 : Nat → K := fun k => (ys.getD k p).1
    let w0 : Nat → K := fun k => (ys.getD k p).2
    let r0 : Nat → Nat := upd (upd (fun _ => 0) 0 0) 1 1
    let s := loopG T y0 w0 n n { x := y0, r := r0, b := 0, i := 1, xbp := p.1 }
    let x' := spread s.r (s.b + 1) s.x n
    ((List.range n).map x', (List.range (s.b + 2)).map s.r)

end MD.Arr
