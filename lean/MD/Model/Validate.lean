/-! Argument validation of the public entry points as decision logic: a finite *descriptor* of a
call (which documented constraints it violates) is mapped to the outcome class, following the
order of checks in the code. -/
namespace MD.Val

inductive EP where
  | ident          -- identification_function
  | bias           -- compute_bias
  | marginal       -- compute_marginal
  | decompose      -- decompose
  | scoreCtor      -- HomogeneousExpectileScore / HomogeneousQuantileScore / PinballLoss / ElementaryScore (...)
  | scoreCall      -- scoring_function(y_obs, y_pred, weights)
  | iso            -- isotonic_regression
  | isoModel       -- IsotonicRegression(...).fit (reached from plot_reliability_diagram for non-mean functionals)
  | plotReliability
  | plotMurphy
  | plotBias
  deriving DecidableEq, Repr

inductive FD where
  | mean | median | expectile | quantile | unknown
  deriving DecidableEq, Repr

inductive Out where
  | ok | valueError | notImplemented | exception
  deriving DecidableEq, Repr

/-- what a call looks like with respect to the documented constraints -/
structure Desc where
  ep : EP
  lenMismatch : Bool      -- y_obs vs y_pred (X vs y for the model) differ in length
  hasFeature : Bool
  featLenMismatch : Bool  -- feature (or X) has another length than y_pred
  binMethodValid : Bool
  nBinsOk : Bool          -- n_bins >= 2
  hasWeights : Bool
  wLenMismatch : Bool
  wNdim2 : Bool           -- weights with more than one dimension
  wNonPositive : Bool     -- some weight <= 0
  f : FD
  levelValid : Bool       -- 0 < level < 1
  deriving DecidableEq, Repr

def needsLevel (f : FD) : Bool := f = .expectile || f = .quantile

/-- `identification_function`: shapes, then level (only where used), then the functional name -/
def identOut (d : Desc) : Out :=
  if d.lenMismatch then .valueError
  else if needsLevel d.f && !d.levelValid then .valueError
  else if d.f = .unknown then .valueError
  else .ok

/-- weights checks shared by compute_bias / compute_marginal / decompose -/
def weightsOut (d : Desc) : Out :=
  if d.hasWeights && d.wLenMismatch then .valueError
  else if d.hasWeights && d.wNdim2 then .valueError
  else .ok

/-- `bin_feature` is only reached when a feature is given -/
def binOut (d : Desc) : Out :=
  if !d.hasFeature then .ok
  else if !d.binMethodValid then .valueError
  else if !d.nBinsOk then .valueError
  else if d.featLenMismatch then .valueError
  else .ok

def seq (a b : Out) : Out := if a = .ok then b else a

/-- `isotonic_regression`: functional, level, then weights (quantile => NotImplementedError before
the shape checks), shape, positivity -/
def isoOut (d : Desc) : Out :=
  if d.f = .unknown then .valueError
  else if needsLevel d.f && !d.levelValid then .valueError
  else if d.hasWeights then
    if d.f = .quantile || d.f = .median then .notImplemented
    else if d.wLenMismatch || d.wNdim2 then .valueError
    else if d.wNonPositive then .valueError
    else .ok
  else .ok

/-- `compute_bias`: lengths, weights, `bin_feature` (only with a feature), identification function -/
def biasOut (d : Desc) : Out :=
  seq (if d.lenMismatch then .valueError else .ok)
    (seq (weightsOut d) (seq (binOut d) (identOut {d with lenMismatch := false})))

def outcome (d : Desc) : Out :=
  match d.ep with
  | .ident => identOut d
  | .bias => biasOut d
  | .marginal =>
    seq (if d.lenMismatch then .valueError else .ok) (seq (weightsOut d) (binOut d))
  | .decompose =>
    -- functional / level first, then lengths, then weights
    if d.f = .unknown then .valueError
    else if needsLevel d.f && !d.levelValid then .valueError
    else if d.lenMismatch then .valueError
    else seq (weightsOut d)
      -- the recalibration is an isotonic regression: weighted quantiles are not implemented
      (if d.hasWeights && (d.f = .quantile || d.f = .median) then .notImplemented else .ok)
  | .scoreCtor => if d.levelValid then .ok else .valueError
  | .scoreCall =>
    if d.lenMismatch then .valueError
    else if d.hasWeights && (d.wLenMismatch || d.wNdim2) then .exception   -- np.average
    else .ok
  | .iso => isoOut d
  | .isoModel =>
    if d.lenMismatch then .valueError
    else if d.hasWeights && d.wLenMismatch then .valueError
    else isoOut d
  | .plotReliability =>
    -- mean: scikit-learn validates lengths; otherwise the own model; both give ValueError
    if d.f = .unknown then .valueError
    else if needsLevel d.f && !d.levelValid then .valueError
    else if d.lenMismatch then .valueError
    else if d.hasWeights && d.wLenMismatch then .valueError
    else if d.hasWeights && (d.f = .quantile || d.f = .median) then .notImplemented
    else .ok
  | .plotMurphy =>
    -- ElementaryScore's constructor checks the level for every functional
    if !d.levelValid then .valueError
    else if d.lenMismatch then .valueError
    else if d.f = .unknown then .valueError
    else if d.hasWeights && (d.wLenMismatch || d.wNdim2) then .exception
    else .ok
  | .plotBias => biasOut d

/-- the documented constraints of property C20 that the entry point *uses* -/
def violates (d : Desc) : Bool :=
  match d.ep with
  | .ident => d.lenMismatch || (needsLevel d.f && !d.levelValid) || d.f = .unknown
  | .bias | .plotBias =>
    d.lenMismatch || (d.hasWeights && (d.wLenMismatch || d.wNdim2)) ||
    (d.hasFeature && (!d.binMethodValid || !d.nBinsOk || d.featLenMismatch)) ||
    (needsLevel d.f && !d.levelValid) || d.f = .unknown
  | .marginal =>
    d.lenMismatch || (d.hasWeights && (d.wLenMismatch || d.wNdim2)) ||
    (d.hasFeature && (!d.binMethodValid || !d.nBinsOk || d.featLenMismatch))
  | .decompose =>
    d.lenMismatch || (d.hasWeights && (d.wLenMismatch || d.wNdim2 || d.f = .quantile || d.f = .median)) ||
    (needsLevel d.f && !d.levelValid) || d.f = .unknown
  | .scoreCtor => !d.levelValid
  | .scoreCall => d.lenMismatch || (d.hasWeights && (d.wLenMismatch || d.wNdim2))
  | .iso =>
    d.f = .unknown || (needsLevel d.f && !d.levelValid) ||
    (d.hasWeights && (d.wLenMismatch || d.wNdim2 || d.wNonPositive || d.f = .quantile || d.f = .median))
  | .isoModel =>
    d.lenMismatch || d.f = .unknown || (needsLevel d.f && !d.levelValid) ||
    (d.hasWeights && (d.wLenMismatch || d.wNdim2 || d.wNonPositive || d.f = .quantile || d.f = .median))
  | .plotReliability =>
    d.lenMismatch || d.f = .unknown || (needsLevel d.f && !d.levelValid) ||
    (d.hasWeights && (d.wLenMismatch || d.f = .quantile || d.f = .median))
  | .plotMurphy =>
    !d.levelValid || d.lenMismatch || d.f = .unknown || (d.hasWeights && (d.wLenMismatch || d.wNdim2))

end MD.Val
