import Lean.Data.Json
/-! Number encoding for the driver: rationals travel as strings `"n/d"` (or JSON integers),
floats as their IEEE-754 bit pattern (a JSON integer). -/
namespace MD
open Lean

def parseInt? (s : String) : Option Int := s.toInt?

def ratOfString? (s : String) : Option Rat :=
  match s.splitOn "/" with
  | [n] => (parseInt? n).map (fun i => (i : Rat))
  | [n, d] => do
    let n ← parseInt? n
    let d ← d.toNat?
    if d = 0 then none else some (mkRat n d)
  | _ => none

def ratOfJson? (j : Json) : Option Rat :=
  match j with
  | .str s => ratOfString? s
  | .num n => if n.exponent = 0 then some (n.mantissa : Rat) else
      some (mkRat n.mantissa (10 ^ n.exponent))
  | _ => none

def ratToString (q : Rat) : String :=
  if q.den = 1 then toString q.num else toString q.num ++ "/" ++ toString q.den

def ratToJson (q : Rat) : Json := .str (ratToString q)

def ratsOfJson? (j : Json) : Option (List Rat) :=
  match j with
  | .arr a => a.toList.mapM ratOfJson?
  | _ => none

def floatOfJson? (j : Json) : Option Float :=
  match j with
  | .num n => if n.exponent = 0 ∧ 0 ≤ n.mantissa then some (Float.ofBits n.mantissa.toNat.toUInt64) else none
  | _ => none

def floatToJson (x : Float) : Json := .num ⟨x.toBits.toNat, 0⟩

def floatsOfJson? (j : Json) : Option (List Float) :=
  match j with
  | .arr a => a.toList.mapM floatOfJson?
  | _ => none

def natsToJson (l : List Nat) : Json := .arr (l.map (fun (n : Nat) => Json.num ⟨(n : Int), 0⟩)).toArray
def ratsToJson (l : List Rat) : Json := .arr (l.map ratToJson).toArray
def floatsToJson (l : List Float) : Json := .arr (l.map floatToJson).toArray

end MD
