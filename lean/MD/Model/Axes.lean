import MD.Model.Config
/-! The backend / axes block at the top of every plotting function (`calibration/plots.py`, `scoring/plots.py`):

```
if ax is None:
    plot_backend = get_config()["plot_backend"]
    if plot_backend == "matplotlib": ax = plt.gca()
    else: fig = ax = go.Figure()
elif isinstance(ax, mpl.axes.Axes): plot_backend = "matplotlib"
elif is_plotly_figure(ax):         plot_backend = "plotly"; fig = ax
else: raise ValueError
… argument validation (may raise ValueError) …
… every artist goes onto `ax` …
return ax
```

Objects (matplotlib `Axes`, plotly `Figure`) are modelled by their identity, a natural number.  Core only. -/
namespace MD.Ax
open MD.Cfg

/-- the `ax` argument -/
inductive AxArg
  | none                -- `ax=None`
  | mpl (id : Nat)      -- a matplotlib `Axes`
  | plotly (id : Nat)   -- a plotly `Figure`
  | other               -- anything else
deriving DecidableEq, Repr

/-- the object that is drawn on and returned -/
inductive Target
  | mpl (id : Nat)
  | plotly (id : Nat)
deriving DecidableEq, Repr

/-- what the call can see of the outside: the configuration, the identity of pyplot's current axes
(`plt.gca()`), the identity a newly created plotly figure would get -/
structure World where
  cfg : Backend
  current : Nat
  fresh : Nat
deriving Repr

inductive Outcome | ok | valueError
deriving DecidableEq, Repr

/-- backend and target selected by the block above -/
def select (w : World) : AxArg → Option (Backend × Target)
  | .none => match w.cfg with
    | .mpl => some (.mpl, .mpl w.current)
    | .plotly => some (.plotly, .plotly w.fresh)
  | .mpl a => some (.mpl, .mpl a)
  | .plotly f => some (.plotly, .plotly f)
  | .other => Option.none

/-- one artist (numbered in drawing order) put onto a target -/
structure Draw where
  target : Target
  artist : Nat
deriving DecidableEq, Repr

/-- what a call leaves behind -/
structure Result where
  out : Outcome
  returned : Option Target
  draws : List Draw
  cfgAfter : Backend
deriving Repr

/-- a plotting call: `argsOk` = the remaining arguments pass their validation, `k` = number of artists the
diagram consists of.  Validation comes before the first artist; the configuration is only read. -/
def plot (w : World) (ax : AxArg) (argsOk : Bool) (k : Nat) : Result :=
  match select w ax with
  | Option.none => { out := .valueError, returned := Option.none, draws := [], cfgAfter := w.cfg }
  | some (_, t) =>
    if argsOk then
      { out := .ok, returned := some t, draws := (List.range k).map (fun i => ⟨t, i⟩), cfgAfter := w.cfg }
    else
      { out := .valueError, returned := Option.none, draws := [], cfgAfter := w.cfg }

/-- number of artists that ended up on target `t` -/
def artistsOn (r : Result) (t : Target) : Nat := (r.draws.filter (fun d => d.target = t)).length

end MD.Ax
