import MD.Model.IsoFit
import MD.Model.Ident
/-! `decompose` (scoring/scoring.py 797-940). Run at `Float` by the driver. -/
namespace MD

/-- a scoring function object as `decompose` sees it -/
structure SF (K : Type) where
  kind : ScoreKind
  h : K
  α : K
  /-- only for `ElementaryScore` -/
  elem : Option (Option Functional × K) := none   -- (functional, eta)

section Decompose
variable {K : Type} [LE K] [DecidableLE K] [LT K] [DecidableLT K]
  [Add K] [Sub K] [Mul K] [Div K] [Neg K] [Zero K] [One K] [NatCast K] [Min K] [Max K]
  [ScoreOps K] [Inhabited K]

/-- per-pair value, including the constructor's level check -/
def sfPair (sf : SF K) (y z : K) : Except Err K :=
  match sf.elem with
  | some (f, η) => elemScore f sf.α η y z
  | none => scorePair sf.kind sf.h sf.α y z

/-- attribute `functional` -/
def sfFunctional (sf : SF K) : Option Functional :=
  match sf.elem with
  | some (f, _) => f
  | none => match sf.kind with
    | .hes => if eqK sf.α half then some .mean else some .expectile
    | .hqs | .pinball => some .quantile
    | _ => some .mean

/-- attribute `level` (`LogLoss` has none) -/
def sfLevel (sf : SF K) : Option K :=
  match sf.elem with
  | some _ => some sf.α
  | none => match sf.kind with
    | .logloss => none
    | .squaredError | .poisson | .gamma => some half
    | _ => some sf.α

/-- `scoring_function(y, z, w)` -/
def sfMean (sf : SF K) (ys zs : List K) (w : Option (List K)) : Except Err K := do
  if ys.length ≠ zs.length then throw Err.valueError
  let s ← (List.zip ys zs).mapM (fun p => sfPair sf p.1 p.2)
  average s w

def obsOf (ys : List K) (w : Option (List K)) : List (Obs K) :=
  match w with
  | some w' => List.zip ys w'
  | none => ys.map (fun y => (y, 1))

/-- the functional used for marginal and repair (`quantile`: unweighted mid-quantile) -/
def functionalVal (f : Functional) (α : K) (ys : List K) (w : Option (List K)) : Except Err K :=
  match f with
  | .mean => average ys w
  | .expectile => pure (expectile α (obsOf ys w))
  | _ => pure (half * (qLower α (obsOf ys none) + qUpper α (obsOf ys none)))

/-- lines 897-921: the domain repair. When `min(y)` is not an admissible prediction the two lowest
blocks of the recalibrated values are merged; rows are selected by value (masks), so the result does
not depend on the row order. -/
def repair (f : Functional) (α : K) (recal : List K) (w : Option (List K)) (ymin : K) :
    Except Err (List K) := do
  let greater := recal.filter (fun v => decide (ymin < v))
  let mask : List Bool := match greater with
    | [] => recal.map (fun _ => true)
    | g :: gs =>
      let val1 := gs.foldl min g      -- value of the second block
      recal.map (fun v => decide (v ≤ val1))
  let sel {α : Type} (l : List α) : List α := (List.zip l mask).filterMap (fun p => if p.2 then some p.1 else none)
  let re2 := sel recal
  let w2 := w.map (fun w' => sel w')
  let v ← functionalVal f α re2 w2
  pure (List.zipWith (fun r (m : Bool) => if m then v else r) recal mask)

/-- the repair as it was before the fix: by array position (right only for sorted forecasts) -/
def repairOld (f : Functional) (α : K) (recal : List K) (w : Option (List K)) (ymin : K) :
    Except Err (List K) := do
  let argmaxB (l : List K) (p : K → Bool) : Nat := match l.findIdx? p with
    | some i => i
    | none => 0
  let idx1 := argmaxB recal (fun v => decide (ymin < v))
  let val1 := recal[idx1]!
  let idx2 := argmaxB recal (fun v => decide (val1 < v))
  let idx2 := if idx2 = 0 then recal.length else idx2
  let re2 := recal.take idx2
  let w2 := w.map (fun w' => w'.take idx2)
  let v ← functionalVal f α re2 w2
  pure (List.replicate idx2 v ++ recal.drop idx2)

structure DecompRow (K : Type) where
  mcb : K
  dsc : K
  unc : K
  score : K

/-- `decompose(y, cols, w, scoring_function=sf, functional=fn, level=lv)`; `fnGiven = none` means
`functional=None` (inferred); `some none` an unknown name. -/
def decompose (sf : SF K) (fnGiven : Option (Option Functional)) (lvGiven : Option K)
    (ys : List K) (cols : List (List K)) (w : Option (List K)) : Except Err (List (DecompRow K)) := do
  let fn := match fnGiven with
    | some f => f
    | none => sfFunctional sf
  let lv ← match lvGiven with
    | some l => pure l
    | none =>
      if fn = some .expectile ∨ fn = some .quantile then
        match sfLevel sf with
        | some l => pure l
        | none => throw Err.valueError
      else pure half
  let f ← match fn with
    | some f => pure f
    | none => throw Err.valueError
  if (f = .expectile ∨ f = .quantile) ∧ (lv ≤ 0 ∨ 1 ≤ lv) then throw Err.valueError
  let (f, lv) := if f = .median then (Functional.quantile, (half : K)) else (f, lv)
  if cols.any (fun c => c.length ≠ ys.length) then throw Err.valueError
  match w with
  | some w' => if w'.length ≠ ys.length then throw Err.valueError else pure ()
  | none => pure ()
  if ys = [] then throw Err.other
  let marginal ← functionalVal f lv ys w
  let y0 := ys[0]!
  let yl := ys[ys.length - 1]!
  if eqK y0 marginal ∧ eqK marginal yl then
    match sfMean sf [y0] [marginal] none with
    | .error Err.valueError => throw Err.valueError
    | _ => pure ()
  let ymin := ys.foldl min y0
  let yminAllowed := match sfMean sf [y0] [ymin] (w.map (fun w' => w'.take 1)) with
    | .error Err.valueError => false
    | _ => true
  let margArr := ys.map (fun _ => marginal)
  let scoreMarg ← sfMean sf ys margArr w
  cols.mapM (fun x => do
    let (tx, ty) ← isoFit (some f) lv true x ys w
    let recal := x.map (interp tx ty)
    let recal ← if yminAllowed = false ∧ recal.foldl min recal[0]! ≤ ymin then repair f lv recal w ymin else pure recal
    let score ← sfMean sf ys x w
    let scoreRecal ← sfMean sf ys recal w
    pure ⟨score - scoreRecal, scoreMarg - scoreRecal, scoreMarg, score⟩)

/-- `decompose` for a scoring function that is a plain callable: it has neither a `functional` nor a `level`
attribute, so `functional=None` is rejected ("You set functional=None, but scoring_function has no attribute
functional"), and so is `level=None` for the two functionals that need a level; for the mean and the median the
level defaults to 0.5 without looking at the callable. `sf` says what the callable computes. -/
def decomposePlain (sf : SF K) (fnGiven : Option (Option Functional)) (lvGiven : Option K)
    (ys : List K) (cols : List (List K)) (w : Option (List K)) : Except Err (List (DecompRow K)) :=
  match fnGiven with
  | none => throw Err.valueError
  | some fn =>
    match lvGiven with
    | some l => decompose sf (some fn) (some l) ys cols w
    | none =>
      if fn = some .expectile ∨ fn = some .quantile then throw Err.valueError
      else decompose sf (some fn) (some half) ys cols w

end Decompose

instance : Zero Float := ⟨0.0⟩
instance : One Float := ⟨1.0⟩

end MD
