import MD.Model.Iso
/-! The fitted model `IsotonicRegression.fit / predict` (`_utils/isotonic.py` 477-567). -/
namespace MD

section IsoFit
variable {K : Type} [LE K] [DecidableLE K] [LT K] [DecidableLT K]
  [Add K] [Sub K] [Mul K] [Div K] [Neg K] [Zero K] [One K] [NatCast K] [Min K] [Max K]

/-- a training row `(X, y, w)` -/
structure Row (K : Type) where
  x : K
  y : K
  w : K

/-- `df.sort(by=["_X", "_target_y"], descending=[False, increasing])` as a Boolean order -/
def rowLe (inc : Bool) (a b : Row K) : Bool :=
  if a.x < b.x then true
  else if b.x < a.x then false
  else if inc then decide (b.y ≤ a.y) else decide (a.y ≤ b.y)

/-- lines 525-537: which positions of the sorted sample become interpolation thresholds.
`r` is the block vector, `xs` the sorted X values, `ys` the fitted values. -/
def thresholdIdx (r : List Nat) (xs ys : List K) [Inhabited K] : List Nat :=
  let m := r.length
  let inner := (List.range (m - 2)).flatMap (fun k =>
    let i := k + 1
    -- previous block has more than one element
    (if r[i]! - 1 - r[i - 1]! ≥ 1 then [r[i]! - 1] else []) ++ [r[i]!])
  let last := r[m - 1]! - 1
  let tail :=
    if ¬ (xs[last]! ≤ xs[r[m - 2]!]! ∧ xs[r[m - 2]!]! ≤ xs[last]!) ∧
       ((ys[0]! ≤ ys[ys.length - 1]! ∧ ys[ys.length - 1]! ≤ ys[0]!) ∨ r[m - 1]! - 1 - r[m - 2]! ≥ 1)
    then [last] else []
  [r[0]!] ++ inner ++ tail

/-- `fit`: returns `(X_thresholds_, y_thresholds_)` -/
def isoFit [Inhabited K] (fn : Option Functional) (α : K) (inc : Bool) (X y : List K)
    (w : Option (List K)) : Except Err (List K × List K) := do
  if X.length ≠ y.length then throw Err.valueError      -- `validate_same_first_dimension`
  match w with
  | some w' => if w'.length ≠ y.length then throw Err.valueError else pure ()
  | none => pure ()
  let ws := match w with
    | some w' => w'
    | none => y.map (fun _ => (1 : K))
  let rows := (List.zipWith (fun (p : K × K) w => (⟨p.1, p.2, w⟩ : Row K)) (List.zip X y) ws)
  let sorted := rows.mergeSort (rowLe inc)
  let (yiso, r) ← isoReg fn α inc (sorted.map (·.y)) (w.map (fun _ => sorted.map (·.w)))
  let xs := sorted.map (·.x)
  let idx := thresholdIdx r xs yiso
  pure (idx.map (fun i => xs[i]!), idx.map (fun i => yiso[i]!))

/-- `predict` for one query point: `interp1d(kind="linear", bounds_error=False,
fill_value=(first, last))`, i.e. `np.interp` on the thresholds: clamp outside, the segment starting
at the last threshold `≤ q` inside. -/
def interp [Inhabited K] (tx ty : List K) (q : K) : K :=
  let n := tx.length
  if q < tx[0]! then ty[0]!
  else if tx[n - 1]! < q then ty[n - 1]!
  else
    -- largest j with tx[j] ≤ q
    let j := (List.range n).foldl (fun acc i => if tx[i]! ≤ q then i else acc) 0
    if j + 1 ≥ n then ty[n - 1]!
    else ty[j]! + (ty[j + 1]! - ty[j]!) / (tx[j + 1]! - tx[j]!) * (q - tx[j]!)

end IsoFit
end MD
