import MD.Model.Score
/-! `identification_function` (calibration/identification.py 99-121) and `ElementaryScore`
(scoring/scoring.py 651-696), exact over any ordered field. -/
namespace MD

section Ident
variable {K : Type} [LE K] [DecidableLE K] [LT K] [DecidableLT K]
  [Add K] [Sub K] [Mul K] [Div K] [Neg K] [Zero K] [One K]

/-- `|x|` without `ScoreOps` (exact arithmetic) -/
def absK (x : K) : K := if x < 0 then -x else x

/-- identification function for one (observation, prediction) pair. Order of checks as in the code:
level (only for expectile/quantile), then the functional dispatch with `ValueError` for unknown names. -/
def identFn (f : Option Functional) (α y z : K) : Except Err K :=
  if (f = some .expectile ∨ f = some .quantile) ∧ (α ≤ 0 ∨ 1 ≤ α) then throw Err.valueError
  else match f with
  | some .mean => pure (z - y)
  | some .median => pure (geInd z y - half)
  | some .expectile => pure (two * absK (geInd z y - α) * (z - y))
  | some .quantile => pure (geInd z y - α)
  | none => throw Err.valueError

/-- array version: `validate_2_arrays` (shape) comes first -/
def identArr (f : Option Functional) (α : K) (ys zs : List K) : Except Err (List K) :=
  if ys.length ≠ zs.length then throw Err.valueError
  else (List.zip ys zs).mapM (fun p => identFn f α p.1 p.2)

/-- `1{η ≤ x}` -/
def leInd (η x : K) : K := if η ≤ x then 1 else 0

/-- `ElementaryScore(η, functional, level).score_per_obs` for one pair.
The constructor checks the level for every functional. The threshold indicator is `1{η ≤ ·}`;
for quantile / median the identification function is evaluated with the matching strict
convention `1{y < η}` (see `elemScoreOld` for the behaviour before the fix). -/
def elemScore (f : Option Functional) (α η y z : K) : Except Err K :=
  if α ≤ 0 ∨ 1 ≤ α then throw Err.valueError
  else do
    let term := leInd η z - leInd η y
    match f with
    | some .quantile => pure (term * ((if y < η then 1 else 0) - α))
    | some .median => pure (term * ((if y < η then 1 else 0) - half))
    | _ =>
      let v ← identFn f α y η
      pure (term * v)

/-- the formula as originally coded: identification function with the `≥` convention throughout -/
def elemScoreOld (f : Option Functional) (α η y z : K) : Except Err K :=
  if α ≤ 0 ∨ 1 ≤ α then throw Err.valueError
  else do
    let v ← identFn f α y η
    pure ((leInd η z - leInd η y) * v)

def elemArr (old : Bool) (f : Option Functional) (α η : K) (ys zs : List K) : Except Err (List K) :=
  if ys.length ≠ zs.length then throw Err.valueError
  else (List.zip ys zs).mapM (fun p => (if old then elemScoreOld else elemScore) f α η p.1 p.2)

end Ident
end MD
