import MD.Model.Heap
import MD.Model.PavaArr
/-! Ownership model of `isotonic_regression(y, weights, increasing, functional="mean")` → `pava(x, wx)`
(`_utils/isotonic.py`): *which object the in-place loops write to*.

```
y = np.asarray(y); weights = np.asarray(weights)        # the caller's own objects when they are ndarrays
x = y[order]; wx = weights[order]                       # views (order = [:] or [::-1]), no copy
# pava(x, wx):
y, w = validate_2_arrays(y, w)                          # np.asarray again: still the caller's objects
w = w.astype(float)   # copies w
x = y.astype(float)   # copies y
... loops overwrite x[...] and w[...] in place ...
```

The only thing that stands between the in-place loops and the caller's arrays is that `astype` copies. Objects as in
`MD/Model/Heap.lean`; a 1-d view is a base object plus an orientation. Core only. -/
namespace MD.Own

variable {K : Type}

/-- a view of a 1-d array object: the base object and whether it is reversed (`a[::-1]`) -/
structure View where
  base : Nat
  rev : Bool

def readView (s : Store K) (v : View) : List K :=
  if v.rev then (getVec s v.base).reverse else getVec s v.base

/-- overwrite the whole array a view denotes (what the in-place loops amount to for the object they work on);
writing through a reversed view writes the base object back to front -/
def writeView (s : Store K) (v : View) (vals : List K) : Store K :=
  match s[v.base]? with
  | some (.vec _) => s.set v.base (.vec (if v.rev then vals.reverse else vals))
  | _ => s

/-- `a.astype(float)`: a new object. `copy = false` is the variant `astype(float, copy=False)`, which hands back the same
object when the dtype already is float64. -/
def astype (s : Store K) (v : View) (copy : Bool) : Store K × View :=
  if copy then ((alloc s (.vec (readView s v))).1, ⟨s.length, false⟩) else (s, v)

section
variable [LE K] [DecidableLE K] [Add K] [Mul K] [Div K]

/-- the content of `pava`'s internal `w` array when it returns (block weights in `w[0..b]`, the rest as it was) -/
def pavaArrW (ys : List (Obs K)) : List K :=
  match ys with
  | [] => []
  | p :: _ =>
    let n := ys.length
    let x0 : Nat → K := fun k => (ys.getD k p).1
    let w0 : Nat → K := fun k => (ys.getD k p).2
    let r0 : Nat → Nat := Arr.upd (Arr.upd (fun _ => 0) 0 0) 1 1
    let st := Arr.loop n n { x := x0, w := w0, r := r0, b := 0, i := 1, xbp := p.1, wbp := p.2 }
    (List.range n).map st.w

/-- `isotonic_regression(y, weights, increasing=inc)` for the mean, with the caller's `y` / `weights` at addresses
`ay` / `aw`. Returns the store afterwards and the result `(x, r)`. -/
def isoMeanStore (copy : Bool) (s : Store K) (ay aw : Nat) (inc : Bool) : Store K × List K × List Nat :=
  let yv : View := ⟨ay, !inc⟩
  let wv : View := ⟨aw, !inc⟩
  let a1 := astype s wv copy
  let a2 := astype a1.1 yv copy
  let obs := List.zip (readView a2.1 a2.2) (readView a2.1 a1.2)
  let res := Arr.pavaArr obs
  let s3 := writeView a2.1 a2.2 res.1
  let s4 := writeView s3 a1.2 (pavaArrW obs)
  -- `if not increasing: x = x[::-1]; r = r[-1] - r[::-1]`: new values, nothing is written
  if inc then (s4, res.1, res.2)
  else (s4, res.1.reverse, res.2.reverse.map (fun i => res.2.getLast?.getD 0 - i))

end

end MD.Own
