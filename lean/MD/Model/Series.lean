/-! `series_from_values` (`_utils/array.py`): how a Python list becomes a polars column.

```
try:    return pl.Series(values=values)                       # strict
except TypeError:
        values = [v.item() if isinstance(v, np.generic) else v for v in values]
        return pl.Series(values=values, strict=False)
```

polars' two constructors are parameters of the model (their rule for lists of numbers is written out below and
validated against polars itself by the correspondence check, exhaustively for short lists): the strict one takes the
dtype from the first non-null element and refuses a float after an integer; the non-strict one computes the common
supertype of *Python* numbers, but takes the dtype of a leading **numpy integer scalar** and then truncates floats.
Core only. -/
namespace MD.Ser

/-- an element of the list -/
inductive Elem where
  | none
  | pyInt (n : Int)
  | pyFloat (q : Rat)
  | npInt (n : Int)       -- numpy integer scalar
  | npFloat (q : Rat)     -- numpy floating scalar
deriving DecidableEq, Repr

/-- the column that comes out -/
inductive Col where
  | null (len : Nat)                       -- dtype Null
  | int (vals : List (Option Int))         -- an integer dtype
  | float (vals : List (Option Rat))       -- Float64
  | typeError
deriving DecidableEq, Repr

def Elem.isNone : Elem → Bool
  | .none => true
  | _ => false

def Elem.isFloat : Elem → Bool
  | .pyFloat _ | .npFloat _ => true
  | _ => false

/-- the number an element stands for -/
def Elem.value : Elem → Option Rat
  | .none => Option.none
  | .pyInt n | .npInt n => some (n : Rat)
  | .pyFloat q | .npFloat q => some q

/-- `int(q)`: truncation toward zero -/
def truncRat (q : Rat) : Int := Int.tdiv q.num q.den

def Elem.intValue : Elem → Option Int
  | .none => Option.none
  | .pyInt n | .npInt n => some n
  | .pyFloat q | .npFloat q => some (truncRat q)

def firstNonNull : List Elem → Option Elem
  | [] => Option.none
  | e :: l => if e.isNone then firstNonNull l else some e

/-- `pl.Series(values)`: dtype of the first non-null element; a float after an integer is refused, an integer after a
float is cast -/
def strictSeries (l : List Elem) : Col :=
  match firstNonNull l with
  | Option.none => .null l.length
  | some e =>
    if e.isFloat then .float (l.map Elem.value)
    else if l.any Elem.isFloat then .typeError
    else .int (l.map Elem.intValue)

/-- `pl.Series(values, strict=False)` -/
def nonStrictSeries (l : List Elem) : Col :=
  match firstNonNull l with
  | Option.none => .null l.length
  | some (.npInt _) => .int (l.map Elem.intValue)            -- dtype of the numpy scalar: floats are truncated
  | some _ => if l.any Elem.isFloat then .float (l.map Elem.value) else .int (l.map Elem.intValue)

/-- `v.item() if isinstance(v, np.generic) else v` -/
def unwrap : Elem → Elem
  | .npInt n => .pyInt n
  | .npFloat q => .pyFloat q
  | e => e

/-- `series_from_values(values)` -/
def seriesFromValues (l : List Elem) : Col :=
  match strictSeries l with
  | .typeError => nonStrictSeries (l.map unwrap)
  | c => c

/-- the variant without the conversion of numpy scalars (what `strict=False` alone would do) -/
def seriesFromValuesNoUnwrap (l : List Elem) : Col :=
  match strictSeries l with
  | .typeError => nonStrictSeries l
  | c => c

/-- the numbers a column holds, as rationals -/
def Col.values : Col → Option (List (Option Rat))
  | .null n => some (List.replicate n Option.none)
  | .int v => some (v.map (fun o => o.map (fun (n : Int) => (n : Rat))))
  | .float v => some v
  | .typeError => Option.none

end MD.Ser
