import MD.Model.Iso
/-! Scoring functions of `scoring/scoring.py`, written once over operation classes:
executed at `Float` by the driver, reasoned about at `ℝ` in `MD/Proofs/Score*.lean`. -/
namespace MD

/-- the transcendental / sign operations numpy supplies -/
class ScoreOps (K : Type) where
  rpow : K → K → K          -- `np.power` on floats
  log : K → K               -- `np.log`
  abs : K → K               -- `np.abs`
  /-- `h % 2 == 1` for a degree `h > 1`: `h` is an odd integer -/
  oddInt : K → Prop
  oddIntDec : DecidablePred oddInt

attribute [instance] ScoreOps.oddIntDec

section Score
variable {K : Type} [LE K] [DecidableLE K] [LT K] [DecidableLT K]
  [Add K] [Sub K] [Mul K] [Div K] [Neg K] [Zero K] [One K] [ScoreOps K]

open ScoreOps

def two : K := 1 + 1

/-- `a == b` on numbers -/
def eqK (a b : K) : Prop := a ≤ b ∧ b ≤ a
instance (a b : K) : Decidable (eqK a b) := by unfold eqK; infer_instance

/-- `np.sign` -/
def sgn (x : K) : K := if 0 < x then 1 else if x < 0 then -1 else 0

/-- `scipy.special.xlogy(x, y)`: 0 when `x == 0` -/
def xlogy (x y : K) : K := if eqK x 0 then 0 else x * log y

/-- `np.greater_equal(z, y)` as a number -/
def geInd (z y : K) : K := if y ≤ z then 1 else 0

/-- `HomogeneousExpectileScore(degree=h, level=α).score_per_obs` for one pair, lines 187-246 -/
def hes (h α y z : K) : Except Err K := do
  let score ←
    if eqK h two then
      pure ((z - y) * (z - y))
    else if 1 < h then
      pure (two * ((rpow (abs y) h - rpow (abs z) h) / (h * (h - 1))
        - sgn z / (h - 1) * rpow (abs z) (h - 1) * (y - z)))
    else if eqK h 1 then
      if ¬ (0 ≤ y ∧ 0 < z) then throw Err.valueError
      else pure (two * (xlogy y (y / z) - y + z))
    else if eqK h 0 then
      if ¬ (0 < y ∧ 0 < z) then throw Err.valueError
      else pure (two * (y / z - log (y / z) - 1))
    else
      if 0 < h then
        if ¬ (0 ≤ y ∧ 0 < z) then throw Err.valueError
        else pure (two * ((rpow y h - rpow z h) / (h * (h - 1)) - 1 / (h - 1) * rpow z (h - 1) * (y - z)))
      else
        if ¬ (0 < y ∧ 0 < z) then throw Err.valueError
        else pure (two * ((rpow y h - rpow z h) / (h * (h - 1)) - 1 / (h - 1) * rpow z (h - 1) * (y - z)))
  if eqK α half then pure score
  else pure (two * abs (geInd z y - α) * score)

/-- `HomogeneousQuantileScore(degree=h, level=α).score_per_obs` for one pair, lines 508-536 -/
def hqs (h α y z : K) : Except Err K := do
  let score ←
    if eqK h 1 then pure (z - y)
    else if 1 < h ∧ oddInt h then pure ((rpow z h - rpow y h) / h)
    else if eqK h 0 then
      if ¬ (0 < y ∧ 0 < z) then throw Err.valueError
      else pure (log (z / y))
    else
      if ¬ (0 < y ∧ 0 < z) then throw Err.valueError
      else pure ((rpow z h - rpow y h) / h)
  if eqK α half then pure (half * abs score)
  else pure ((geInd z y - α) * score)

/-- `LogLoss().score_per_obs` for one pair (lines 403-405). The entropy correction is added for the
whole array when any `0 < y < 1`; it is exactly `0` for `y ∈ {0,1}`, so adding it per pair is the same
number. No domain check in the code. -/
def logLoss (y z : K) : K :=
  -(xlogy y z) - xlogy (1 - y) (1 - z) + (xlogy y y + xlogy (1 - y) (1 - y))

inductive ScoreKind where
  | hes | hqs | logloss | squaredError | poisson | gamma | pinball
  deriving Repr, DecidableEq

def ScoreKind.ofString? : String → Option ScoreKind
  | "hes" => some .hes | "hqs" => some .hqs | "logloss" => some .logloss
  | "squared_error" => some .squaredError | "poisson" => some .poisson
  | "gamma" => some .gamma | "pinball" => some .pinball | _ => none

/-- constructor check shared by the two homogeneous families (lines 151-153, 475-477) -/
def levelOk (α : K) : Prop := 0 < α ∧ α < 1
instance (α : K) : Decidable (levelOk α) := by unfold levelOk; infer_instance

/-- per-pair score of a library scoring function; `h`, `α` are ignored where the class fixes them -/
def scorePair (k : ScoreKind) (h α y z : K) : Except Err K :=
  match k with
  | .hes => if levelOk α then hes h α y z else throw Err.valueError
  | .hqs => if levelOk α then hqs h α y z else throw Err.valueError
  | .logloss => pure (logLoss y z)
  | .squaredError => hes two half y z
  | .poisson => hes 1 half y z
  | .gamma => hes 0 half y z
  | .pinball => if levelOk α then hqs 1 α y z else throw Err.valueError

/-- `score_per_obs` on arrays: the domain test is `np.all`, so one bad pair rejects the call -/
def scorePerObs (k : ScoreKind) (h α : K) (ys zs : List K) : Except Err (List K) :=
  if ys.length ≠ zs.length then throw Err.valueError
  else (List.zip ys zs).mapM (fun p => scorePair k h α p.1 p.2)

/-- `np.average(a, weights=w)`; `ZeroDivisionError` when the weights sum to zero -/
def average (a : List K) (w : Option (List K)) [NatCast K] : Except Err K :=
  match w with
  | none => if a = [] then throw Err.zeroDivision else pure (a.sum / (a.length : K))
  | some w =>
    if w.length ≠ a.length then throw Err.typeError
    else
      let sw := w.sum
      if eqK sw 0 then throw Err.zeroDivision
      else pure ((List.zipWith (· * ·) a w).sum / sw)

/-- `__call__`: weighted average of the per-observation scores -/
def scoreMean (k : ScoreKind) (h α : K) (ys zs : List K) (w : Option (List K)) [NatCast K] :
    Except Err K := do
  let s ← scorePerObs k h α ys zs
  average s w

end Score

/-! Float instance (driver) -/
def floatOddInt (h : Float) : Bool := h - 2 * Float.floor (h / 2) == 1

instance : NatCast Float := ⟨Float.ofNat⟩

instance : ScoreOps Float where
  rpow := Float.pow
  log := Float.log
  abs := Float.abs
  oddInt h := floatOddInt h = true
  oddIntDec := fun _ => inferInstance

end MD
