/-! Labels of forecast columns (`_utils/array.py`: `array_name`, `get_sorted_array_names`) and how `decompose`,
`compute_bias`, `compute_marginal` and the plots attach them: the loop runs over `range(len(pred_names))` in column
order and row / curve `i` carries `pred_names[i]`. Core only. -/
namespace MD.Names

/-- what the forecasts look like as far as names go -/
inductive PredShape where
  | vector (name : Option String)      -- 1-d: numpy / list (no name) or a Series (name, possibly "")
  | matrix (m : Nat)                   -- 2-d numpy array / list of rows with `m` columns
  | frame (cols : List String)         -- a data frame with named columns
deriving Repr

/-- `array_name(a, default)`: a missing or empty name becomes the default -/
def arrayName (name : Option String) (default : String) : String :=
  match name with
  | some s => if s = "" then default else s
  | none => default

def framNames : Nat → List String → List String
  | _, [] => []
  | i, c :: cs => arrayName (some c) (toString i) :: framNames (i + 1) cs

/-- `get_sorted_array_names(y_pred)[0]` -/
def predNames : PredShape → List String
  | .vector nm => [arrayName nm ""]
  | .matrix m => (List.range m).map (fun i => toString i)
  | .frame cols => framNames 0 cols

/-- the rows of a result table: row `i` is the statistic of column `i` under the label `pred_names[i]` -/
def labelled {α : Type} (names : List String) (rows : List α) : List (String × α) := List.zip names rows

/-- name of the model column in `compute_bias` / `compute_marginal` (a feature may itself be called "model") -/
def modelColumn (featureName : Option String) : String :=
  if featureName = some "model" then "model_" else "model"

end MD.Names
