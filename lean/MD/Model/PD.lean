import MD.Model.Table
/-! `compute_partial_dependence` (`_utils/partial_dependence.py`). -/
namespace MD

section PD
variable {K : Type} [Add K] [Sub K] [Mul K] [Div K] [Zero K] [One K] [NatCast K]
  [LE K] [DecidableLE K] [Inhabited K]

/-- `safe_index_rows(X, idx)` -/
def takeRows {α : Type} [Inhabited α] (X : List α) (idx : List Nat) : List α := idx.map (fun i => X[i]!)

/-- `np.tile(np.arange(n), n_grid)` -/
def tileIdx (n nGrid : Nat) : List Nat := (List.range (n * nGrid)).map (fun k => k % n)
/-- `np.repeat(np.arange(n_grid), n)` -/
def repeatIdx (n nGrid : Nat) : List Nat := (List.range (n * nGrid)).map (fun k => k / n)

/-- the stacked matrix handed to the predict function: row `k` is sample row `k mod n` with the
feature column overwritten by grid value `k div n` -/
def stacked (X : List (List K)) (j : Nat) (grid : List K) : List (List K) :=
  let n := X.length
  let rows := takeRows X (tileIdx n grid.length)
  let gvals := takeRows grid (repeatIdx n grid.length)
  List.zipWith (fun (row : List K) g => row.set j g) rows gvals

/-- `np.average(y_pred.reshape(n_grid, n), axis=1, weights=w)` -/
def blockAverages (pred : List K) (n nGrid : Nat) (w : Option (List K)) : List K :=
  (List.range nGrid).map (fun g =>
    let blk := (pred.drop (g * n)).take n
    match w with
    | none => blk.sum / (n : K)
    | some w' => (List.zipWith (· * ·) blk w').sum / w'.sum)

/-- partial dependence with an explicit predict function on rows; `sub` = the subsample indices the
seeded generator drew (`none` when `n ≤ n_max`) -/
def partialDependence (f : List K → K) (X : List (List K)) (j : Nat) (grid : List K)
    (w : Option (List K)) (sub : Option (List Nat)) : List K :=
  let X' := match sub with
    | some idx => takeRows X idx
    | none => X
  let w' := match sub with
    | some idx => w.map (fun ws => takeRows ws idx)
    | none => w
  let pred := (stacked X' j grid).map f
  blockAverages pred X'.length grid.length w'

/-- the parametrised family of predict functions used by the correspondence (with an interaction
between the feature column `j` and column `k`) -/
def predFamily (a b c : K) (j k : Nat) (row : List K) : K :=
  a * row[j]! * row[k]! + b * (row[k]! * row[k]!) + c * row[j]!

end PD
end MD
