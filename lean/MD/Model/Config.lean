/-! spike: configuration state machine (core only) -/
namespace MDC

inductive Val | none | mpl | plotly | bad
deriving DecidableEq, Repr

inductive Backend | mpl | plotly
deriving DecidableEq, Repr

inductive Out | ok | valueError | moduleNotFound | userExc
deriving DecidableEq, Repr

/-- `set_config(plot_backend=v)`; `avail` = plotly importable -/
def setCfg (avail : Bool) (s : Backend) : Val → Backend × Out
  | .none => (s, .ok)
  | .mpl => (.mpl, .ok)
  | .plotly => if avail then (.plotly, .ok) else (s, .moduleNotFound)
  | .bad => (s, .valueError)

def toVal : Backend → Val
  | .mpl => .mpl
  | .plotly => .plotly

inductive Prog
  | skip | seq (a b : Prog) | set (v : Val) | getMutate | raise | block (v : Val) (body : Prog)

/-- big-step semantics: state after, and whether an exception propagates -/
def exec (avail : Bool) : Prog → Backend → Backend × Out
  | .skip, s => (s, .ok)
  | .seq a b, s =>
    match exec avail a s with
    | (s', .ok) => exec avail b s'
    | r => r
  | .set v, s => setCfg avail s v
  | .getMutate, s => (s, .ok)          -- the returned dict is a copy: mutation has no effect
  | .raise, s => (s, .userExc)
  | .block v body, s =>
    -- old = get_config(); set_config(v) [may raise before try]; try body finally set_config(**old)
    match setCfg avail s v with
    | (s1, .ok) =>
      let (s2, o) := exec avail body s1
      -- finally: set_config(plot_backend=old); restoring a value that was current is always valid
      let (s3, o3) := setCfg avail s2 (toVal s)
      (s3, if o3 = .ok then o else o3)
    | r => r

/-- restoring a backend that was in force: if it is plotly then plotly was available -/
def Reachable (avail : Bool) (s : Backend) : Prop := s = .plotly → avail = true

theorem setCfg_reach (avail : Bool) (s : Backend) (v : Val) (h : Reachable avail s) :
    Reachable avail (setCfg avail s v).1 := by
  cases v <;> simp [setCfg, Reachable] at * <;> try exact h
  · split <;> simp_all

theorem exec_reach (avail : Bool) (p : Prog) (s : Backend) (h : Reachable avail s) :
    Reachable avail (exec avail p s).1 := by
  induction p generalizing s with
  | skip => simpa [exec]
  | seq a b iha ihb =>
    simp only [exec]
    have := iha s h
    split
    · rename_i s' heq; rw [heq] at this; exact ihb s' this
    · exact this
  | set v => exact setCfg_reach avail s v h
  | getMutate => simpa [exec]
  | raise => simpa [exec]
  | block v body ih =>
    simp only [exec]
    split
    · rename_i s1 heq
      have h1 : Reachable avail s1 := by have := setCfg_reach avail s v h; rw [heq] at this; exact this
      exact setCfg_reach avail _ _ (ih s1 h1)
    · exact setCfg_reach avail s v h

/-- C18_block_restores: whatever the body does and however it is left, a block leaves the state as
it found it (entry failed ⇒ unchanged too). -/
theorem block_restores (avail : Bool) (v : Val) (body : Prog) (s : Backend) (h : Reachable avail s) :
    (exec avail (.block v body) s).1 = s := by
  simp only [exec]
  split
  · rename_i s1 heq
    cases s with
    | mpl => simp [setCfg, toVal]
    | plotly =>
      have : avail = true := h rfl
      simp [setCfg, toVal, this]
  · rename_i r hr
    cases v <;> simp [setCfg] at * <;> try (split <;> simp_all)

#print axioms block_restores
end MDC
