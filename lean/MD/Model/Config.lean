/-! `_config.py`: a one-variable state machine with a restore-on-exit protocol (core only). -/
namespace MD.Cfg

/-- argument of `set_config(plot_backend=…)` / `config_context(plot_backend=…)` -/
inductive Val | none | mpl | plotly | bad
deriving DecidableEq, Repr

inductive Backend | mpl | plotly
deriving DecidableEq, Repr

inductive Out | ok | valueError | moduleNotFound | userExc | baseExc
deriving DecidableEq, Repr

/-- `set_config(plot_backend=v)`; `avail` = `find_spec("plotly")` is truthy.
Validation comes before the assignment, so a rejected call leaves the state alone. -/
def setCfg (avail : Bool) (s : Backend) : Val → Backend × Out
  | .none => (s, .ok)
  | .mpl => (.mpl, .ok)
  | .plotly => if avail then (.plotly, .ok) else (s, .moduleNotFound)
  | .bad => (s, .valueError)

def toVal : Backend → Val
  | .mpl => .mpl
  | .plotly => .plotly

/-- programs: histories of set / read-and-mutate / raise / nested `with` blocks / `try…except` -/
inductive Prog
  | skip
  | seq (a b : Prog)
  | set (v : Val)
  | getMutate                     -- `d = get_config(); d["plot_backend"] = "junk"`
  | raise                         -- `raise UserExc` (an `Exception`)
  | raiseBase                     -- `raise KeyboardInterrupt`-like: a `BaseException` that is not an `Exception`
  | block (v : Val) (body : Prog) -- `with config_context(plot_backend=v): body`
  | catch (body : Prog)           -- `try: body  except Exception: pass`
  | catchAll (body : Prog)        -- `try: body  except BaseException: pass`

/-- what the harness observes: the backend after every primitive step and at block entry/exit -/
abbrev Trace := List Backend

/-- big-step semantics: state after, whether an exception propagates, observation trace -/
def exec (avail : Bool) : Prog → Backend → Backend × Out × Trace
  | .skip, s => (s, .ok, [])
  | .seq a b, s =>
    match exec avail a s with
    | (s', .ok, t) => let (s'', o, t') := exec avail b s'; (s'', o, t ++ t')
    | r => r
  | .set v, s => let (s', o) := setCfg avail s v; (s', o, [s'])
  | .getMutate, s => (s, .ok, [s])       -- the returned dict is a copy: mutating it has no effect
  | .raise, s => (s, .userExc, [s])
  | .raiseBase, s => (s, .baseExc, [s])
  | .block v body, s =>
    -- old = get_config(); set_config(v)  [may raise before the try]; try: body finally: set_config(**old)
    match setCfg avail s v with
    | (s1, .ok) =>
      let (s2, o, t) := exec avail body s1
      let (s3, o3) := setCfg avail s2 (toVal s)
      (s3, if o3 = .ok then o else o3, [s1] ++ t ++ [s3])
    | (s1, o) => (s1, o, [s1])
  | .catch body, s =>
    -- `except Exception` does not catch a `BaseException`
    let (s', o, t) := exec avail body s
    (s', if o = .baseExc then .baseExc else .ok, t ++ [s'])
  | .catchAll body, s =>
    let (s', _, t) := exec avail body s
    (s', .ok, t ++ [s'])

end MD.Cfg
