import MD.Model.PD
/-! Ownership model of `compute_partial_dependence` (`_utils/partial_dependence.py`) together with
`safe_index_rows` / `safe_assign_column` (`_utils/array.py`): *which object is written to*.

The pure model `partialDependence` (`MD/Model/PD.lean`) says which numbers come out. This file models the same
computation as a program over a store of mutable objects with identities, because the second half of C16 - "never
alters the caller's data" - is a statement about aliasing: a Python list of rows is copied shallowly (`X.copy()`,
`[x[i] for i in indices]`), so the stacked list holds the *caller's own row objects*, several times each, until
`safe_assign_column` replaces every one of them by a copy before it writes the grid value. A numpy matrix is one
object; `X.copy()` / fancy indexing allocate a new one and the column assignment goes to that.

Objects: a vector (a row, a 1-d array, a Python list of numbers), a matrix (2-d numpy array), a list of references
(Python list of row objects). Addresses are positions in the store; allocation appends. Core only. -/
namespace MD.Own

inductive Obj (K : Type) where
  | vec (v : List K)
  | mat (m : List (List K))
  | refs (r : List Nat)
deriving Repr

abbrev Store (K : Type) := List (Obj K)

variable {K : Type}

/-- allocate a new object; its address is the old size of the store -/
def alloc (s : Store K) (o : Obj K) : Store K × Nat := (s ++ [o], s.length)

def getVec (s : Store K) (a : Nat) : List K :=
  match s[a]? with
  | some (.vec v) => v
  | _ => []

def getRefs (s : Store K) (a : Nat) : List Nat :=
  match s[a]? with
  | some (.refs r) => r
  | _ => []

def getMat (s : Store K) (a : Nat) : List (List K) :=
  match s[a]? with
  | some (.mat m) => m
  | _ => []

/-- the rows a list-of-rows object denotes -/
def rowsOf (s : Store K) (x : Nat) : List (List K) := (getRefs s x).map (getVec s)

/-- the mutation `obj[i] = v` on a vector / `lst[i] = ref` on a list of references / whole-object replacement is not
needed: the code only ever assigns single elements and single columns -/
def setVecElem (s : Store K) (a j : Nat) (v : K) : Store K :=
  match s[a]? with
  | some (.vec l) => s.set a (.vec (l.set j v))
  | _ => s

def setRef (s : Store K) (a i r : Nat) : Store K :=
  match s[a]? with
  | some (.refs l) => s.set a (.refs (l.set i r))
  | _ => s

/-- `x[:, j] = values` on a matrix object, in place -/
def setMatCol (s : Store K) (a j : Nat) (vals : List K) : Store K :=
  match s[a]? with
  | some (.mat m) => s.set a (.mat (List.zipWith (fun (row : List K) v => row.set j v) m vals))
  | _ => s

/-- `safe_index_rows(·, row_indices)` when a subsample was drawn, the object itself otherwise -/
def applySub {α : Type} [Inhabited α] (sub : Option (List Nat)) (l : List α) : List α :=
  match sub with
  | some idx => takeRows l idx
  | none => l

/-- the same for the optional weights -/
def applySubW {α : Type} [Inhabited α] (sub : Option (List Nat)) (w : Option (List α)) : Option (List α) :=
  match sub with
  | some idx => w.map (fun ws => takeRows ws idx)
  | none => w

section ListOfRows
variable [Inhabited K]

/-- one round of the loop in `safe_assign_column` (list branch):
`row = copy_element(x[i]); row[column_index] = values[i]; x[i] = row` -/
def assignStep (j : Nat) (xs : Nat) (s : Store K) (iv : Nat × K) : Store K :=
  let old := (getRefs s xs)[iv.1]!
  let (s1, fresh) := alloc s (.vec (getVec s old))       -- copy_element
  let s2 := setVecElem s1 fresh j iv.2                     -- row[column_index] = values[i]
  setRef s2 xs iv.1 fresh                                  -- x[i] = row

/-- `safe_assign_column(x, values, j)` for a Python list `x` of rows -/
def assignColumnList (s : Store K) (xs j : Nat) (vals : List K) : Store K :=
  (List.zip (List.range vals.length) vals).foldl (assignStep j xs) s

/-- the faulty variant a refactoring could produce: the row is not copied before it is written to -/
def assignStepNoCopy (j : Nat) (xs : Nat) (s : Store K) (iv : Nat × K) : Store K :=
  setVecElem s ((getRefs s xs)[iv.1]!) j iv.2

def assignColumnListNoCopy (s : Store K) (xs j : Nat) (vals : List K) : Store K :=
  (List.zip (List.range vals.length) vals).foldl (assignStepNoCopy j xs) s

variable [Add K] [Sub K] [Mul K] [Div K] [Zero K] [One K] [NatCast K] [LE K] [DecidableLE K]

/-- `compute_partial_dependence` for `X` a Python list of rows at address `x`.
Returns the store afterwards, the address of the stacked list shown to the predict function, the result. -/
def pdList (f : List K → K) (s : Store K) (x j : Nat) (grid : List K) (w : Option (List K))
    (sub : Option (List Nat)) : Store K × Nat × List K :=
  let rows0 := getRefs s x
  -- `X = safe_index_rows(X, row_indices)` resp. `X = X.copy()`: a new outer list, the same row objects
  let rows1 := applySub sub rows0
  let w' := applySubW sub w
  let (s1, _x1) := alloc s (.refs rows1)
  let n := rows1.length
  -- `X_stacked = safe_index_rows(X, np.tile(np.arange(n), n_grid))`: again the same row objects, n_grid times each
  let (s2, xs) := alloc s1 (.refs (takeRows rows1 (tileIdx n grid.length)))
  let gvals := takeRows grid (repeatIdx n grid.length)
  let s3 := assignColumnList s2 xs j gvals
  let pred := (rowsOf s3 xs).map f
  (s3, xs, blockAverages pred n grid.length w')

end ListOfRows

section Matrix
variable [Inhabited K] [Add K] [Sub K] [Mul K] [Div K] [Zero K] [One K] [NatCast K] [LE K] [DecidableLE K]

/-- `compute_partial_dependence` for `X` a numpy matrix at address `x`: `X.copy()` / `X[row_indices]` allocate a new
matrix, so does `X[np.tile(...)]`; the column assignment is in place on the latter. (`astype` in
`safe_assign_column`, when the grid does not fit the dtype, allocates once more; values are not changed by it in
the exact model.) -/
def pdMatrix (f : List K → K) (s : Store K) (x j : Nat) (grid : List K) (w : Option (List K))
    (sub : Option (List Nat)) : Store K × Nat × List K :=
  let m0 := getMat s x
  let m1 := applySub sub m0
  let w' := applySubW sub w
  let (s1, _x1) := alloc s (.mat m1)
  let n := m1.length
  let (s2, xs) := alloc s1 (.mat (takeRows m1 (tileIdx n grid.length)))
  let gvals := takeRows grid (repeatIdx n grid.length)
  let s3 := setMatCol s2 xs j gvals
  let pred := (getMat s3 xs).map f
  (s3, xs, blockAverages pred n grid.length w')

end Matrix

/-- what the caller can still see of `X` afterwards: every object that existed before the call -/
def unchangedBelow (s s' : Store K) : Prop := ∀ a, a < s.length → s'[a]? = s[a]?

end MD.Own
