/-! numpy's int64 arithmetic for the one kernel where it mattered (`np.square(z - y)` on integer
arrays, before the scores were made to compute in floating point). -/
namespace MD

/-- two's-complement wrap-around of int64 arithmetic -/
def wrap64 (x : Int) : Int := ((x + 2 ^ 63) % 2 ^ 64) - 2 ^ 63

/-- `np.square(z - y)` on int64 arrays -/
def sqInt64 (y z : Int) : Int := wrap64 (wrap64 (z - y) * wrap64 (z - y))

/-- an input cell as a container hands it over: a Python/NumPy integer or a float (here: rational) -/
inductive NumCell where
  | int (n : Int)
  | flt (q : Rat)

/-- the value the (repaired) library computes with: `astype(float)` -/
def NumCell.val : NumCell → Rat
  | .int n => (n : Rat)
  | .flt q => q

end MD

namespace MD

/-- the numpy dtypes a container can hand over -/
inductive DType where
  | bool | u8 | u16 | u32 | u64 | i8 | i16 | i32 | i64 | f32 | f64
  deriving DecidableEq, Repr

def DType.all : List DType := [.bool, .u8, .u16, .u32, .u64, .i8, .i16, .i32, .i64, .f32, .f64]

/-- `dtype.kind` -/
def DType.kind : DType → Char
  | .bool => 'b'
  | .u8 | .u16 | .u32 | .u64 => 'u'
  | .i8 | .i16 | .i32 | .i64 => 'i'
  | .f32 | .f64 => 'f'

/-- `dtype.itemsize` -/
def DType.itemsize : DType → Nat
  | .bool | .u8 | .i8 => 1
  | .u16 | .i16 => 2
  | .u32 | .i32 | .f32 => 4
  | .u64 | .i64 | .f64 => 8

/-- `identification_function`: `kind in "ub" or (kind == "i" and itemsize < 8)` ⇒ `astype(float)` -/
def identCasts (d : DType) : Bool :=
  d.kind = 'u' || d.kind = 'b' || (d.kind = 'i' && d.itemsize < 8)

/-- the scoring functions: `kind in "iub"` ⇒ `astype(float)` -/
def scoreCasts (d : DType) : Bool := d.kind = 'i' || d.kind = 'u' || d.kind = 'b'

/-- the integers an integer dtype holds (`none` for the float dtypes) -/
def DType.range : DType → Option (Int × Int)
  | .bool => some (0, 1)
  | .u8 => some (0, 2 ^ 8 - 1)
  | .u16 => some (0, 2 ^ 16 - 1)
  | .u32 => some (0, 2 ^ 32 - 1)
  | .u64 => some (0, 2 ^ 64 - 1)
  | .i8 => some (-2 ^ 7, 2 ^ 7 - 1)
  | .i16 => some (-2 ^ 15, 2 ^ 15 - 1)
  | .i32 => some (-2 ^ 31, 2 ^ 31 - 1)
  | .i64 => some (-2 ^ 63, 2 ^ 63 - 1)
  | .f32 | .f64 => none

/-- integer arithmetic carried out inside an integer dtype wraps around (two's complement /
modulo); bool subtraction is not defined by numpy (it raises) and is left alone here -/
def DType.wrap (d : DType) (x : Int) : Int :=
  match d.range with
  | some (lo, hi) => (x - lo) % (hi - lo + 1) + lo
  | none => x

/-- the residual `y_pred − y_obs` of whole-numbered data held in dtype `d`, as the library computes
it: exactly (in float64) when the dtype is cast first, inside the dtype otherwise -/
def identResidual (d : DType) (y z : Int) : Int :=
  if identCasts d then z - y else d.wrap (z - y)

/-- … and as it was computed before the repair (never cast) -/
def identResidualOld (d : DType) (y z : Int) : Int := d.wrap (z - y)

end MD
