/-! numpy's int64 arithmetic for the one kernel where it mattered (`np.square(z - y)` on integer
arrays, before the scores were made to compute in floating point). -/
namespace MD

/-- two's-complement wrap-around of int64 arithmetic -/
def wrap64 (x : Int) : Int := ((x + 2 ^ 63) % 2 ^ 64) - 2 ^ 63

/-- `np.square(z - y)` on int64 arrays -/
def sqInt64 (y z : Int) : Int := wrap64 (wrap64 (z - y) * wrap64 (z - y))

/-- an input cell as a container hands it over: a Python/NumPy integer or a float (here: rational) -/
inductive NumCell where
  | int (n : Int)
  | flt (q : Rat)

/-- the value the (repaired) library computes with: `astype(float)` -/
def NumCell.val : NumCell → Rat
  | .int n => (n : Rat)
  | .flt q => q

end MD
