import MD.Model.Score
import Mathlib.Analysis.SpecialFunctions.Pow.Real
import Mathlib.Analysis.SpecialFunctions.Log.Basic
/-! The real-number instance of the score operations: the theorems about the scoring functions are
stated for `hes`, `hqs`, `logLoss` at `K = ℝ` with `np.power ↦ Real.rpow`, `np.log ↦ Real.log`. -/
namespace MD
open Classical in
noncomputable instance : ScoreOps ℝ where
  rpow := fun x y => x ^ y
  log := Real.log
  abs := fun x => |x|
  oddInt h := ∃ k : ℕ, h = 2 * (k : ℝ) + 1
  oddIntDec := fun _ => inferInstance

@[simp] theorem rpow_real (x y : ℝ) : ScoreOps.rpow x y = x ^ y := rfl
@[simp] theorem log_real (x : ℝ) : ScoreOps.log x = Real.log x := rfl
@[simp] theorem abs_real (x : ℝ) : ScoreOps.abs x = |x| := rfl
@[simp] theorem oddInt_real (h : ℝ) : ScoreOps.oddInt h ↔ ∃ k : ℕ, h = 2 * (k : ℝ) + 1 := Iff.rfl

@[simp] theorem two_real : (two : ℝ) = 2 := by norm_num [two]
@[simp] theorem half_real : (half : ℝ) = 1 / 2 := by norm_num [half]
@[simp] theorem eqK_iff (a b : ℝ) : eqK a b ↔ a = b := by
  unfold eqK; constructor
  · rintro ⟨h1, h2⟩; exact le_antisymm h1 h2
  · rintro rfl; exact ⟨le_rfl, le_rfl⟩

end MD
