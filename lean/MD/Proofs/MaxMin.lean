import MD.Proofs.MeanInst
import Mathlib.Tactic.Linarith

/-! # Max-min characterisation of the generalised PAVA fit

For every functional `T` with the Cauchy mean value property (`Internal ok T`) the fitted value at
index `i` is `max_{a ≤ i} min_{b ≥ i} T (y[a..b])`; the maximum is attained at the start of `i`'s
block and the minimum at its end.  Stated without finset `max`/`min`: see `gpava_maxmin`. -/

set_option linter.unusedSectionVars false

namespace MD

section General
variable {K : Type} [LinearOrder K] {ok : Obs K → Prop} {T : List (Obs K) → K}

theorem ok_flatMap {R : List (Blk K)} (hR : ∀ b ∈ R, Good ok T b) :
    ∀ o ∈ R.flatMap (·.data), ok o := by
  intro o ho
  obtain ⟨b, hb, hob⟩ := List.mem_flatMap.mp ho
  exact (hR b hb).allok o hob

/-- a run of good blocks whose values are all `≥ v`: every non-empty prefix of their data has
`T ≥ v` -/
theorem blocks_prefix_lower (hT : Internal ok T) (v : K) (R : List (Blk K))
    (hR : ∀ b ∈ R, Good ok T b) (hv : ∀ b ∈ R, v ≤ b.val)
    (P : List (Obs K)) (hP : P ≠ []) (hpre : P <+: R.flatMap (·.data)) : v ≤ T P := by
  induction R generalizing P with
  | nil =>
    simp only [List.flatMap_nil, List.prefix_nil] at hpre
    exact absurd hpre hP
  | cons b R ih =>
    have hb := hR b (by simp)
    have hvb : v ≤ b.val := hv b (by simp)
    have hR' : ∀ b' ∈ R, Good ok T b' := fun b' hb' => hR b' (by simp [hb'])
    have hv' : ∀ b' ∈ R, v ≤ b'.val := fun b' hb' => hv b' (by simp [hb'])
    obtain ⟨Q, hQ⟩ := hpre
    simp only [List.flatMap_cons] at hQ
    rcases List.append_eq_append_iff.mp hQ with ⟨a', h1, _⟩ | ⟨c', h1, h2⟩
    · exact le_trans hvb (hb.pre P a' hP h1)
    · subst h1
      by_cases hc : c' = []
      · subst hc
        rw [List.append_nil, ← hb.val]
        exact hvb
      · have h3 : v ≤ T c' := ih hR' hv' c' hc ⟨Q, h2.symm⟩
        have okc : ∀ o ∈ c', ok o := fun o ho =>
          ok_flatMap hR' o (by rw [h2]; exact List.mem_append_left _ ho)
        have h4 := hT.lo b.data c' hb.ne hc hb.allok okc
        rw [← hb.val] at h4
        exact le_trans (le_min hvb h3) h4

/-- a run of good blocks whose values are all `≤ v`: every non-empty suffix of their data has
`T ≤ v` -/
theorem blocks_suffix_upper (hT : Internal ok T) (v : K) (L : List (Blk K))
    (hL : ∀ b ∈ L, Good ok T b) (hv : ∀ b ∈ L, b.val ≤ v)
    (Q : List (Obs K)) (hQ : Q ≠ []) (hsuf : Q <:+ L.flatMap (·.data)) : T Q ≤ v := by
  induction L generalizing Q with
  | nil =>
    simp only [List.flatMap_nil, List.suffix_nil] at hsuf
    exact absurd hsuf hQ
  | cons b L ih =>
    have hb := hL b (by simp)
    have hvb : b.val ≤ v := hv b (by simp)
    have hL' : ∀ b' ∈ L, Good ok T b' := fun b' hb' => hL b' (by simp [hb'])
    have hv' : ∀ b' ∈ L, b'.val ≤ v := fun b' hb' => hv b' (by simp [hb'])
    obtain ⟨P, hP⟩ := hsuf
    simp only [List.flatMap_cons] at hP
    rcases List.append_eq_append_iff.mp hP with ⟨a', h1, h2⟩ | ⟨c', _, h2⟩
    · by_cases ha : a' = []
      · subst ha
        rw [List.nil_append] at h2
        exact ih hL' hv' Q hQ ⟨[], by rw [h2, List.nil_append]⟩
      by_cases hr : L.flatMap (·.data) = []
      · rw [hr, List.append_nil] at h2
        subst h2
        exact le_trans (hb.suf P Q ha h1) hvb
      · have h3 : T (L.flatMap (·.data)) ≤ v := ih hL' hv' _ hr (List.suffix_refl _)
        have h4 : T a' ≤ b.val := hb.suf P a' ha h1
        have oka : ∀ o ∈ a', ok o := ok_of_append_right h1 hb.allok
        have h5 := hT.hi a' _ ha hr oka (ok_flatMap hL')
        rw [h2]
        exact le_trans h5 (max_le (le_trans h4 hvb) h3)
    · exact ih hL' hv' Q hQ ⟨c', h2.symm⟩

/-- **(a)** the value of a block is a lower bound for `T` on every non-empty segment that starts at
the block start (and may run into later blocks). -/
theorem block_lower_bound (hT : Internal ok T) (ys : List (Obs K)) (hys : ∀ o ∈ ys, ok o)
    {L R : List (Blk K)} {b : Blk K} (h : gpava T ys = L ++ b :: R)
    (P : List (Obs K)) (hP : P ≠ []) (hpre : P <+: b.data ++ R.flatMap (·.data)) :
    b.val ≤ T P := by
  obtain ⟨hgood, hpw, _⟩ := gpava_spec hT ys hys
  rw [h] at hgood hpw
  have hbR := (List.pairwise_append.mp hpw).2.1
  have hlt := (List.pairwise_cons.mp hbR).1
  refine blocks_prefix_lower hT b.val (b :: R) (fun b' hb' => hgood b' (by simp [hb'])) ?_ P hP
    (by simpa using hpre)
  intro b' hb'
  rcases List.mem_cons.mp hb' with rfl | hb'
  · exact le_rfl
  · exact (hlt b' hb').le

/-- **(b)** the value of a block is an upper bound for `T` on every non-empty segment that ends at
the block end (and may start in earlier blocks). -/
theorem block_upper_bound (hT : Internal ok T) (ys : List (Obs K)) (hys : ∀ o ∈ ys, ok o)
    {L R : List (Blk K)} {b : Blk K} (h : gpava T ys = L ++ b :: R)
    (Q : List (Obs K)) (hQ : Q ≠ []) (hsuf : Q <:+ L.flatMap (·.data) ++ b.data) :
    T Q ≤ b.val := by
  obtain ⟨hgood, hpw, _⟩ := gpava_spec hT ys hys
  rw [h] at hgood hpw
  have hLb := (List.pairwise_append.mp hpw).2.2
  refine blocks_suffix_upper hT b.val (L ++ [b]) ?_ ?_ Q hQ (by simpa using hsuf)
  · intro b' hb'
    rcases List.mem_append.mp hb' with hb' | hb'
    · exact hgood b' (by simp [hb'])
    · simp only [List.mem_singleton] at hb'; subst hb'; exact hgood b' (by simp)
  · intro b' hb'
    rcases List.mem_append.mp hb' with hb' | hb'
    · exact (hLb b' hb' b (by simp)).le
    · simp only [List.mem_singleton] at hb'; subst hb'; exact le_rfl

omit [LinearOrder K] in
theorem expand_length_flat (bs : List (Blk K)) :
    (expand bs).length = (bs.flatMap (·.data)).length := by
  induction bs with
  | nil => simp [expand]
  | cons b bs ih =>
    simp only [expand, List.flatMap_cons, List.length_append, List.length_replicate] at ih ⊢
    rw [ih]

theorem expand_length (hT : Internal ok T) (ys : List (Obs K)) (hys : ∀ o ∈ ys, ok o) :
    (expand (gpava T ys)).length = ys.length := by
  rw [expand_length_flat, (gpava_spec hT ys hys).2.2]

omit [LinearOrder K] in
/-- the block that contains index `i` -/
theorem block_of_index (bs : List (Blk K)) (i : Nat) (hi : i < (bs.flatMap (·.data)).length) :
    ∃ L b R, bs = L ++ b :: R ∧ (L.flatMap (·.data)).length ≤ i ∧
      i < (L.flatMap (·.data)).length + b.data.length ∧ (expand bs)[i]? = some b.val := by
  induction bs generalizing i with
  | nil => simp at hi
  | cons b bs ih =>
    simp only [List.flatMap_cons, List.length_append] at hi
    by_cases hlt : i < b.data.length
    · refine ⟨[], b, bs, rfl, by simp, by simpa using hlt, ?_⟩
      simp only [expand, List.flatMap_cons]
      rw [List.getElem?_append_left (by simpa using hlt)]
      simp [hlt]
    · rw [not_lt] at hlt
      obtain ⟨L, b', R, h1, h2, h3, h4⟩ := ih (i - b.data.length) (by omega)
      refine ⟨b :: L, b', R, by rw [h1]; rfl, ?_, ?_, ?_⟩
      · simp only [List.flatMap_cons, List.length_append]; omega
      · simp only [List.flatMap_cons, List.length_append]; omega
      · simp only [expand, List.flatMap_cons]
        rw [List.getElem?_append_right (by simpa using hlt)]
        simpa [expand] using h4

/-- **(c)** max-min characterisation, `Option` form: the fitted value `v` at index `i` satisfies
`v ≤ T (y[a..b])` for one `a ≤ i` and all `b ≥ i`, and for every `a ≤ i` there is `b ≥ i` with
`T (y[a..b]) ≤ v`; i.e. `v = max_{a ≤ i} min_{b ≥ i} T (y[a..b])`. -/
theorem gpava_maxmin_get? (hT : Internal ok T) (ys : List (Obs K)) (hys : ∀ o ∈ ys, ok o)
    (i : Nat) (hi : i < ys.length) :
    ∃ v, (expand (gpava T ys))[i]? = some v ∧
      (∃ a, a ≤ i ∧ ∀ b, i ≤ b → b < ys.length → v ≤ T ((ys.take (b + 1)).drop a)) ∧
      (∀ a, a ≤ i → ∃ b, i ≤ b ∧ b < ys.length ∧ T ((ys.take (b + 1)).drop a) ≤ v) := by
  have hflat := (gpava_spec hT ys hys).2.2
  obtain ⟨L, b, R, hbs, h1, h2, h3⟩ := block_of_index (gpava T ys) i (by rw [hflat]; exact hi)
  have hys_eq : ys = L.flatMap (·.data) ++ (b.data ++ R.flatMap (·.data)) := by
    rw [← hflat, hbs]; simp
  generalize hA : L.flatMap (·.data) = A at h1 h2 hys_eq
  generalize hC : R.flatMap (·.data) = C at hys_eq
  refine ⟨b.val, h3, ⟨A.length, h1, ?_⟩, ?_⟩
  · intro b' hb1 hb2
    have e : (ys.take (b' + 1)).drop A.length = (b.data ++ C).take (b' + 1 - A.length) := by
      rw [hys_eq, List.drop_take, List.drop_left]
    rw [e]
    refine block_lower_bound hT ys hys hbs _ ?_ (by rw [hC]; exact List.take_prefix _ _)
    apply List.ne_nil_of_length_pos
    rw [List.length_take, List.length_append]
    omega
  · intro a ha
    refine ⟨A.length + b.data.length - 1, by omega, ?_, ?_⟩
    · rw [hys_eq]; simp only [List.length_append]; omega
    · have e : ys.take (A.length + b.data.length - 1 + 1) = A ++ b.data := by
        have : A.length + b.data.length - 1 + 1 = (A ++ b.data).length := by
          rw [List.length_append]; omega
        rw [this, hys_eq, ← List.append_assoc, List.take_left]
      rw [e]
      refine block_upper_bound hT ys hys hbs _ ?_ (by rw [hA]; exact List.drop_suffix _ _)
      apply List.ne_nil_of_length_pos
      rw [List.length_drop, List.length_append]
      omega

/-- **(c)** max-min characterisation in index form: `x_i = max_{a ≤ i} min_{b ≥ i} T (y[a..b])`
(`y[a..b] = (ys.take (b+1)).drop a`, both ends inclusive).  First conjunct: for a suitable `a ≤ i`
(the start of `i`'s block) `x_i` is a lower bound of all `T (y[a..b])`, `b ≥ i`, so
`x_i ≤ max_a min_b`; second conjunct: for every `a ≤ i` some `b ≥ i` (the end of `i`'s block) has
`T (y[a..b]) ≤ x_i`, so `max_a min_b ≤ x_i`. -/
theorem gpava_maxmin (hT : Internal ok T) (ys : List (Obs K)) (hys : ∀ o ∈ ys, ok o)
    (i : Nat) (hi : i < ys.length) :
    let x := expand (gpava T ys)
    ∀ hx : i < x.length,
    (∃ a, a ≤ i ∧ ∀ b, i ≤ b → b < ys.length → x[i] ≤ T ((ys.take (b + 1)).drop a)) ∧
    (∀ a, a ≤ i → ∃ b, i ≤ b ∧ b < ys.length ∧ T ((ys.take (b + 1)).drop a) ≤ x[i]) := by
  intro x hx
  obtain ⟨v, hv, h1, h2⟩ := gpava_maxmin_get? hT ys hys i hi
  obtain ⟨_, hv'⟩ := List.getElem?_eq_some_iff.mp hv
  have : x[i] = v := hv'
  rw [this]
  exact ⟨h1, h2⟩

/-- the same with `x[i]!` (needs a default element only to state it) -/
theorem gpava_maxmin_getElem! [Inhabited K] (hT : Internal ok T) (ys : List (Obs K))
    (hys : ∀ o ∈ ys, ok o) (i : Nat) (hi : i < ys.length) :
    let x := expand (gpava T ys)
    (∃ a, a ≤ i ∧ ∀ b, i ≤ b → b < ys.length → x[i]! ≤ T ((ys.take (b + 1)).drop a)) ∧
    (∀ a, a ≤ i → ∃ b, i ≤ b ∧ b < ys.length ∧ T ((ys.take (b + 1)).drop a) ≤ x[i]!) := by
  intro x
  obtain ⟨v, hv, h1, h2⟩ := gpava_maxmin_get? hT ys hys i hi
  have : x[i]! = v := by
    show (expand (gpava T ys))[i]! = v
    rw [List.getElem!_eq_getElem?_getD, hv]; rfl
  rw [this]
  exact ⟨h1, h2⟩

end General

section Mean
variable {K : Type} [Field K] [LinearOrder K] [IsStrictOrderedRing K]

/-- the weighted mean has the Cauchy mean value property on positive weights -/
theorem wmean_internal : Internal (fun o : Obs K => 0 < o.2) wmean :=
  (meanFun (K := K)).internal

theorem C01_expand_length (ys : List (Obs K)) (hpos : ∀ o ∈ ys, 0 < o.2) :
    (expand (gpava wmean ys)).length = ys.length :=
  expand_length wmean_internal ys hpos

/-- **(d)** C01_maxmin: the isotonic mean fit is the max-min of weighted means of segments. -/
theorem C01_maxmin (ys : List (Obs K)) (hpos : ∀ o ∈ ys, 0 < o.2) (i : Nat) (hi : i < ys.length) :
    let x := expand (gpava wmean ys)
    ∀ hx : i < x.length,
    (∃ a, a ≤ i ∧ ∀ b, i ≤ b → b < ys.length → x[i] ≤ wmean ((ys.take (b + 1)).drop a)) ∧
    (∀ a, a ≤ i → ∃ b, i ≤ b ∧ b < ys.length ∧ wmean ((ys.take (b + 1)).drop a) ≤ x[i]) :=
  gpava_maxmin wmean_internal ys hpos i hi

/-- C01_maxmin with `x[i]!`, literally the index form (`Inhabited K` is only needed to write
`x[i]!`; a field has `⟨0⟩`) -/
theorem C01_maxmin_getElem! [Inhabited K] (ys : List (Obs K)) (hpos : ∀ o ∈ ys, 0 < o.2) (i : Nat)
    (hi : i < ys.length) :
    let x := expand (gpava wmean ys)
    (∃ a, a ≤ i ∧ ∀ b, i ≤ b → b < ys.length → x[i]! ≤ wmean ((ys.take (b + 1)).drop a)) ∧
    (∀ a, a ≤ i → ∃ b, i ≤ b ∧ b < ys.length ∧ wmean ((ys.take (b + 1)).drop a) ≤ x[i]!) :=
  gpava_maxmin_getElem! wmean_internal ys hpos i hi

/-- the hypotheses are satisfiable: a functional with the Cauchy mean value property, a non-trivial
admissible input and a valid index -/
example : Internal (fun o : Obs ℚ => 0 < o.2) wmean ∧
    (∀ o ∈ ([(3, 1), (1, 2), (1, 1), (2, 3)] : List (Obs ℚ)), 0 < o.2) ∧
    2 < ([(3, 1), (1, 2), (1, 1), (2, 3)] : List (Obs ℚ)).length :=
  ⟨wmean_internal, by simp, by simp⟩

end Mean

end MD

/-
`#print axioms` (observed with `lake env lean MD/Proofs/MaxMin.lean`):
'MD.block_lower_bound' depends on axioms: [propext, Classical.choice, Quot.sound]
'MD.block_upper_bound' depends on axioms: [propext, Classical.choice, Quot.sound]
'MD.expand_length' depends on axioms: [propext, Classical.choice, Quot.sound]
'MD.gpava_maxmin_get?' depends on axioms: [propext, Classical.choice, Quot.sound]
'MD.gpava_maxmin' depends on axioms: [propext, Classical.choice, Quot.sound]
'MD.gpava_maxmin_getElem!' depends on axioms: [propext, Classical.choice, Quot.sound]
'MD.C01_maxmin' depends on axioms: [propext, Classical.choice, Quot.sound]
'MD.C01_maxmin_getElem!' depends on axioms: [propext, Classical.choice, Quot.sound]
-/
