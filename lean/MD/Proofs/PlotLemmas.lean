import MD.Model.Plot
import MD.Proofs.IsoFitLemmas
import MD.Proofs.IdentLemmas
import Mathlib.Tactic.Linarith
import Mathlib.Tactic.Ring
import Mathlib.Tactic.FieldSimp
import Mathlib.Order.MinMax
import Mathlib.Algebra.Order.Field.Basic
import Mathlib.Algebra.BigOperators.Group.List.Basic

/-! # Helpers for C19 — the line data of the diagnostic plots (`MD/Model/Plot.lean`)

* `plt_foldl_min_*`, `plt_foldl_max_*`, `plt_predRange` — the range of all predictions;
* `plt_mapM_*` — inversion of `List.mapM` in `Except`;
* `plt_reliabilityCurve_inv` — a reliability curve is the fitted model's thresholds;
* `plt_first`, `plt_last` — the first / last threshold sits at the smallest / largest training `X`;
* `plt_interp_sub` — interpolating `tx - ty` inside the threshold range gives `q - interp tx ty q`;
* `plt_averageK_*`, `plt_elem*` — Murphy curves. -/

set_option linter.unusedSectionVars false

namespace MD

/-! ## `mapM` in `Except` -/

section MapM
variable {ε β γ : Type}

theorem plt_mapM_nil (g : β → Except ε γ) : ([] : List β).mapM g = .ok [] := rfl

theorem plt_mapM_cons_ok (g : β → Except ε γ) (a : β) (t : List β) (c : γ) (h : g a = .ok c) :
    (a :: t).mapM g = (t.mapM g).map (fun cs => c :: cs) := by
  rw [List.mapM_cons, h]
  cases t.mapM g <;> rfl

theorem plt_mapM_cons_error (g : β → Except ε γ) (a : β) (t : List β) (e : ε)
    (h : g a = .error e) : (a :: t).mapM g = .error e := by
  rw [List.mapM_cons, h]
  rfl

/-- a successful `mapM` is elementwise success, in order -/
theorem plt_mapM_forall₂ (g : β → Except ε γ) :
    ∀ (l : List β) (out : List γ), l.mapM g = .ok out ↔ List.Forall₂ (fun b c => g b = .ok c) l out
  | [], out => by
    rw [plt_mapM_nil]
    constructor
    · intro h; rw [← Except.ok.inj h]; exact List.Forall₂.nil
    · intro h; cases h; rfl
  | a :: t, out => by
    cases hga : g a with
    | error e =>
      rw [plt_mapM_cons_error g a t e hga]
      constructor
      · intro h; cases h
      · intro h
        cases h with
        | cons h1 _ => rw [hga] at h1; cases h1
    | ok c =>
      rw [plt_mapM_cons_ok g a t c hga]
      constructor
      · intro h
        cases htm : t.mapM g with
        | error e => rw [htm] at h; cases h
        | ok cs =>
          rw [htm] at h
          have : c :: cs = out := Except.ok.inj h
          rw [← this]
          exact List.Forall₂.cons hga ((plt_mapM_forall₂ g t cs).mp htm)
      · intro h
        cases h with
        | @cons _ c' _ cs h1 h2 =>
          rw [hga] at h1
          have hc : c = c' := Except.ok.inj h1
          rw [(plt_mapM_forall₂ g t cs).mpr h2, hc]
          rfl

theorem plt_mapM_length {g : β → Except ε γ} {l : List β} {out : List γ}
    (h : l.mapM g = .ok out) : out.length = l.length :=
  ((plt_mapM_forall₂ g l out).mp h).length_eq.symm

theorem plt_mapM_get {g : β → Except ε γ} {l : List β} {out : List γ}
    (h : l.mapM g = .ok out) (i : Nat) (hi : i < l.length) (ho : i < out.length) :
    g l[i] = .ok out[i] := by
  have hf := (plt_mapM_forall₂ g l out).mp h
  exact (List.forall₂_iff_get.mp hf).2 i hi ho

theorem plt_mapM_mem {g : β → Except ε γ} {l : List β} {out : List γ}
    (h : l.mapM g = .ok out) {c : γ} (hc : c ∈ out) : ∃ b ∈ l, g b = .ok c := by
  obtain ⟨i, hi, rfl⟩ := List.getElem_of_mem hc
  have hl : i < l.length := by rw [← plt_mapM_length h]; exact hi
  exact ⟨l[i], List.getElem_mem hl, plt_mapM_get h i hl hi⟩

theorem plt_bind_ok {α' β' : Type} {m : Except ε α'} {f : α' → Except ε β'} {b : β'}
    (h : m >>= f = .ok b) : ∃ a, m = .ok a ∧ f a = .ok b := by
  cases m with
  | error e => cases h
  | ok a => exact ⟨a, rfl, h⟩

end MapM

variable {K : Type} [Field K] [LinearOrder K] [IsStrictOrderedRing K] [Inhabited K]

/-! ## The range of the predictions -/

theorem plt_foldl_min_le (t : List K) (a : K) :
    t.foldl min a ≤ a ∧ ∀ v ∈ t, t.foldl min a ≤ v := by
  induction t generalizing a with
  | nil => exact ⟨le_rfl, fun v hv => by cases hv⟩
  | cons b t ih =>
    rw [List.foldl_cons]
    obtain ⟨h1, h2⟩ := ih (min a b)
    refine ⟨le_trans h1 (min_le_left _ _), ?_⟩
    intro v hv
    rcases List.mem_cons.mp hv with rfl | hv
    · exact le_trans h1 (min_le_right _ _)
    · exact h2 v hv

theorem plt_foldl_min_mem (t : List K) (a : K) : t.foldl min a ∈ a :: t := by
  induction t generalizing a with
  | nil => simp
  | cons b t ih =>
    rw [List.foldl_cons]
    have := ih (min a b)
    rcases List.mem_cons.mp this with h | h
    · rw [h]
      rcases min_choice a b with h' | h' <;> rw [h'] <;> simp
    · exact List.mem_cons_of_mem _ (List.mem_cons_of_mem _ h)

theorem plt_le_foldl_max (t : List K) (a : K) :
    a ≤ t.foldl max a ∧ ∀ v ∈ t, v ≤ t.foldl max a := by
  induction t generalizing a with
  | nil => exact ⟨le_rfl, fun v hv => by cases hv⟩
  | cons b t ih =>
    rw [List.foldl_cons]
    obtain ⟨h1, h2⟩ := ih (max a b)
    refine ⟨le_trans (le_max_left _ _) h1, ?_⟩
    intro v hv
    rcases List.mem_cons.mp hv with rfl | hv
    · exact le_trans (le_max_right _ _) h1
    · exact h2 v hv

theorem plt_foldl_max_mem (t : List K) (a : K) : t.foldl max a ∈ a :: t := by
  induction t generalizing a with
  | nil => simp
  | cons b t ih =>
    rw [List.foldl_cons]
    have := ih (max a b)
    rcases List.mem_cons.mp this with h | h
    · rw [h]
      rcases max_choice a b with h' | h' <;> rw [h'] <;> simp
    · exact List.mem_cons_of_mem _ (List.mem_cons_of_mem _ h)

/-- `predRange` returns the least and the greatest entry of the flattened prediction columns -/
theorem plt_predRange (cols : List (List K)) (hne : cols.flatten ≠ []) :
    ∃ lo hi, predRange cols = some (lo, hi) ∧ lo ∈ cols.flatten ∧ hi ∈ cols.flatten ∧
      ∀ v ∈ cols.flatten, lo ≤ v ∧ v ≤ hi := by
  unfold predRange
  cases hf : cols.flatten with
  | nil => exact absurd hf hne
  | cons a t =>
    refine ⟨t.foldl min a, t.foldl max a, rfl, plt_foldl_min_mem t a, plt_foldl_max_mem t a, ?_⟩
    intro v hv
    rcases List.mem_cons.mp hv with rfl | hv
    · exact ⟨(plt_foldl_min_le t v).1, (plt_le_foldl_max t v).1⟩
    · exact ⟨(plt_foldl_min_le t a).2 v hv, (plt_le_foldl_max t a).2 v hv⟩

theorem plt_predRange_none (cols : List (List K)) (h : cols.flatten = []) :
    predRange cols = none := by
  unfold predRange
  rw [h]

/-! ## Reliability curves -/

/-- a reliability curve is the pair of threshold lists of the increasing fit of the observations on
the predictions; the bias variant subtracts the fitted value from the threshold -/
theorem plt_reliabilityCurve_inv {fn : Option Functional} {α : K} {bias : Bool} {ys x : List K}
    {w : Option (List K)} {l : Line K} (h : reliabilityCurve fn α bias ys x w = .ok l) :
    ∃ tx ty, isoFit fn α true x ys w = .ok (tx, ty) ∧ l.xs = tx ∧
      l.ys = if bias then List.zipWith (· - ·) tx ty else ty := by
  unfold reliabilityCurve at h
  obtain ⟨⟨tx, ty⟩, h1, h2⟩ := plt_bind_ok h
  refine ⟨tx, ty, h1, ?_, ?_⟩
  · have := Except.ok.inj h2
    rw [← this]
  · have := Except.ok.inj h2
    rw [← this]

theorem plt_reliabilityCurve_of_fit {fn : Option Functional} {α : K} (bias : Bool) {ys x : List K}
    {w : Option (List K)} {tx ty : List K} (h : isoFit fn α true x ys w = .ok (tx, ty)) :
    reliabilityCurve fn α bias ys x w
      = .ok ⟨tx, if bias then List.zipWith (· - ·) tx ty else ty⟩ := by
  unfold reliabilityCurve
  rw [h]
  rfl

theorem plt_reliabilityCurve_error {fn : Option Functional} {α : K} (bias : Bool) {ys x : List K}
    {w : Option (List K)} {e : Err} (h : isoFit fn α true x ys w = .error e) :
    reliabilityCurve fn α bias ys x w = .error e := by
  unfold reliabilityCurve
  rw [h]
  rfl

/-- `fit` rejects samples of different length and weights of the wrong length -/
theorem plt_isoFit_length_error (fn : Option Functional) (α : K) (inc : Bool) (X y : List K)
    (w : Option (List K))
    (h : X.length ≠ y.length ∨ ∃ w', w = some w' ∧ w'.length ≠ y.length) :
    isoFit fn α inc X y w = .error .valueError := by
  unfold isoFit
  by_cases h1 : X.length ≠ y.length
  · rw [if_pos h1]; rfl
  · rcases h with h | ⟨w', rfl, hw⟩
    · exact absurd h h1
    · rw [if_neg h1]
      simp only [if_pos hw]
      rfl

/-! ### The `X` column of the sorted sample -/

theorem plt_rows_length {X y : List K} {w : Option (List K)} (hX : X.length = y.length)
    (hw : ∀ w', w = some w' → w'.length = y.length) : (fit_rows X y w).length = X.length := by
  unfold fit_rows
  cases w with
  | none => simp [hX]
  | some w' => simp [hX, hw w' rfl]

theorem plt_rows_map_x {X y : List K} {w : Option (List K)} (hX : X.length = y.length)
    (hw : ∀ w', w = some w' → w'.length = y.length) : (fit_rows X y w).map (·.x) = X := by
  have hl := plt_rows_length hX hw
  apply List.ext_getElem
  · rw [List.length_map, hl]
  · intro i h1 h2
    rw [List.getElem_map]
    unfold fit_rows
    simp

/-- the sorted `X` column is a permutation of the predictions -/
theorem plt_sorted_x_perm (inc : Bool) {X y : List K} {w : Option (List K)}
    (hX : X.length = y.length) (hw : ∀ w', w = some w' → w'.length = y.length) :
    ((fit_sorted inc X y w).map (·.x)).Perm X := by
  have := ((List.mergeSort_perm (fit_rows X y w) (rowLe inc)).map (·.x))
  rw [plt_rows_map_x hX hw] at this
  exact this

section Ends
variable {inc : Bool} {xs yiso : List K} {r : List Nat} {tx ty : List K}

/-- the first threshold is the first (smallest) sorted `X`, with the first fitted value -/
theorem plt_first (F : fit_Fitted inc xs yiso r tx ty) : tx[0]! = xs[0]! ∧ ty[0]! = yiso[0]! := by
  constructor
  · rw [F.tx_eq, fit_get!_map _ _ _ fit_thresholdIdx_pos, fit_thresholdIdx_head F.rvec]
  · rw [F.ty_eq, fit_get!_map _ _ _ fit_thresholdIdx_pos, fit_thresholdIdx_head F.rvec]

/-- the last threshold carries the last (largest) sorted `X` and the last fitted value — also when
position `n - 1` itself is not selected (the final block is then one tie group in `X`) -/
theorem plt_last (F : fit_Fitted inc xs yiso r tx ty) :
    tx[tx.length - 1]! = xs[yiso.length - 1]! ∧ ty[tx.length - 1]! = yiso[yiso.length - 1]! := by
  have hn : 0 < yiso.length := List.length_pos_iff.mpr F.ne
  have hp := F.tx_pos
  have hR := F.rvec
  have hlen : tx.length = (thresholdIdx r xs yiso).length := by rw [F.tx_eq, List.length_map]
  have hstrict := fit_thresholdIdx_strict (xs := xs) (ys := yiso) hR
  set c := (thresholdIdx r xs yiso)[tx.length - 1]! with hc
  have hcmem : c ∈ thresholdIdx r xs yiso := fit_get!_mem _ _ (by omega)
  have hcn : c < yiso.length := fit_thresholdIdx_lt hR _ hcmem
  have e1 : tx[tx.length - 1]! = xs[c]! := by
    conv_lhs => rw [F.tx_eq]
    rw [fit_get!_map _ _ _ (by rw [List.length_map]; omega), List.length_map, ← hlen]
  have e2 : ty[tx.length - 1]! = yiso[c]! := by
    conv_lhs => rw [F.ty_eq]
    rw [fit_get!_map _ _ _ (by omega)]
  have hx : xs[c]! = xs[yiso.length - 1]! := by
    by_cases hm : yiso.length - 1 ∈ thresholdIdx r xs yiso
    · have h1 := fit_strict_le_last hstrict hm
      rw [← hlen] at h1
      have : c = yiso.length - 1 := by omega
      rw [this]
    · have h2 := fit_last_not_mem hR hm
      have hmem : r[r.length - 2]! ∈ thresholdIdx r xs yiso := by
        have := fit_start_mem (xs := xs) (ys := yiso) hR (r.length - 2) (by have := hR.len; omega)
        exact this
      have h1 := fit_strict_le_last hstrict hmem
      rw [← hlen] at h1
      have ha : xs[r[r.length - 2]!]! ≤ xs[c]! :=
        fit_sorted_get! F.sorted h1 (by rw [F.len]; exact hcn)
      have hb : xs[c]! ≤ xs[yiso.length - 1]! :=
        fit_sorted_get! F.sorted (by omega) (by rw [F.len]; omega)
      rw [h2] at hb
      rw [h2]
      exact le_antisymm hb ha
  refine ⟨by rw [e1, hx], ?_⟩
  rw [e2]
  exact F.ties c (yiso.length - 1) hcn (by omega) hx

end Ends

/-! ### The bias variant under interpolation -/

theorem plt_get!_zipWith_sub (tx ty : List K) (hlen : ty.length = tx.length) (i : Nat)
    (hi : i < tx.length) : (List.zipWith (· - ·) tx ty)[i]! = tx[i]! - ty[i]! := by
  rw [fit_get! _ i (by simp; omega), fit_get! _ i hi, fit_get! _ i (by omega)]
  simp

/-- inside the range of the thresholds, interpolating `tx - ty` gives `q - interp tx ty q` -/
theorem plt_interp_sub (tx ty : List K) (q : K) (hn : 0 < tx.length) (hlen : ty.length = tx.length)
    (h0 : tx[0]! ≤ q) (h1 : q ≤ tx[tx.length - 1]!) :
    interp tx (List.zipWith (· - ·) tx ty) q = q - interp tx ty q := by
  rw [fit_interp_unfold, fit_interp_unfold tx ty]
  rw [if_neg (not_lt.mpr h0), if_neg (not_lt.mpr h1), if_neg (not_lt.mpr h0),
    if_neg (not_lt.mpr h1)]
  obtain ⟨hpj, _⟩ := fit_lastIdx_spec (fun i => tx[i]! ≤ q) tx.length 0 hn h0
  have hmax := fit_lastIdx_spec (fun i => tx[i]! ≤ q) tx.length
  have hb := fit_lastIdx_bound (fun i => tx[i]! ≤ q) tx.length
  generalize fit_lastIdx (fun i => tx[i]! ≤ q) tx.length = j at *
  have hj : j < tx.length := by omega
  by_cases h3 : j + 1 ≥ tx.length
  · rw [if_pos h3, if_pos h3, plt_get!_zipWith_sub tx ty hlen _ (by omega)]
    have : j = tx.length - 1 := by omega
    subst this
    have : q = tx[tx.length - 1]! := le_antisymm h1 hpj
    rw [← this]
  · rw [if_neg h3, if_neg h3, plt_get!_zipWith_sub tx ty hlen j hj,
      plt_get!_zipWith_sub tx ty hlen (j + 1) (by omega)]
    have hlt : q < tx[j + 1]! := by
      by_contra hcon
      rw [not_lt] at hcon
      have := (hmax (j + 1) (by omega) hcon).2
      omega
    have hd : tx[j + 1]! - tx[j]! ≠ 0 := by
      have : tx[j]! < tx[j + 1]! := lt_of_le_of_lt hpj hlt
      intro h
      linarith
    field_simp
    ring

/-! ## `averageK` -/

theorem plt_averageK_none {a : List K} {v : K} (h : averageK a none = .ok v) :
    a ≠ [] ∧ v = a.sum / (a.length : K) := by
  unfold averageK at h
  by_cases ha : a = []
  · simp only [if_pos ha] at h
    cases h
  · simp only [if_neg ha] at h
    exact ⟨ha, (Except.ok.inj h).symm⟩

theorem plt_averageK_some {a wl : List K} {v : K} (h : averageK a (some wl) = .ok v) :
    wl.length = a.length ∧ wl.sum ≠ 0 ∧ v = (List.zipWith (· * ·) a wl).sum / wl.sum := by
  unfold averageK at h
  by_cases hl : wl.length ≠ a.length
  · simp only [if_pos hl] at h
    cases h
  · simp only [if_neg hl] at h
    by_cases hs : wl.sum ≤ 0 ∧ 0 ≤ wl.sum
    · simp only [if_pos hs] at h
      cases h
    · simp only [if_neg hs] at h
      refine ⟨not_not.mp hl, ?_, (Except.ok.inj h).symm⟩
      intro h0
      exact hs ⟨h0.le, h0.ge⟩

theorem plt_averageK_none_ok {a : List K} (ha : a ≠ []) :
    averageK a none = .ok (a.sum / (a.length : K)) := by
  unfold averageK
  simp only [if_neg ha]
  rfl

theorem plt_averageK_some_ok {a wl : List K} (hl : wl.length = a.length) (hs : wl.sum ≠ 0) :
    averageK a (some wl) = .ok ((List.zipWith (· * ·) a wl).sum / wl.sum) := by
  unfold averageK
  simp only [if_neg (not_not.mpr hl)]
  rw [if_neg (fun h => hs (le_antisymm h.1 h.2))]
  rfl

theorem plt_sum_nonneg {l : List K} (h : ∀ v ∈ l, 0 ≤ v) : 0 ≤ l.sum := by
  induction l with
  | nil => simp
  | cons a t ih =>
    rw [List.sum_cons]
    exact add_nonneg (h a (by simp)) (ih (fun v hv => h v (by simp [hv])))

theorem plt_sum_zero {l : List K} (h : ∀ v ∈ l, v = 0) : l.sum = 0 := by
  induction l with
  | nil => simp
  | cons a t ih =>
    rw [List.sum_cons, h a (by simp), ih (fun v hv => h v (by simp [hv])), add_zero]

theorem plt_zipWith_mul_nonneg {a wl : List K} (ha : ∀ v ∈ a, 0 ≤ v) (hw : ∀ v ∈ wl, 0 ≤ v) :
    ∀ v ∈ List.zipWith (· * ·) a wl, 0 ≤ v := by
  induction a generalizing wl with
  | nil => intro v hv; simp at hv
  | cons b t ih =>
    cases wl with
    | nil => intro v hv; simp at hv
    | cons c u =>
      intro v hv
      rw [List.zipWith_cons_cons] at hv
      rcases List.mem_cons.mp hv with rfl | hv
      · exact mul_nonneg (ha b (by simp)) (hw c (by simp))
      · exact ih (fun v hv => ha v (by simp [hv])) (fun v hv => hw v (by simp [hv])) v hv

theorem plt_zipWith_mul_zero {a wl : List K} (ha : ∀ v ∈ a, v = 0) :
    ∀ v ∈ List.zipWith (· * ·) a wl, v = 0 := by
  induction a generalizing wl with
  | nil => intro v hv; simp at hv
  | cons b t ih =>
    cases wl with
    | nil => intro v hv; simp at hv
    | cons c u =>
      intro v hv
      rw [List.zipWith_cons_cons] at hv
      rcases List.mem_cons.mp hv with rfl | hv
      · show b * c = 0
        rw [ha b (by simp), zero_mul]
      · exact ih (fun v hv => ha v (by simp [hv])) v hv

/-- an average of non-negative numbers with non-negative weights is non-negative -/
theorem plt_averageK_nonneg {a : List K} {w : Option (List K)} {v : K}
    (h : averageK a w = .ok v) (ha : ∀ u ∈ a, 0 ≤ u)
    (hw : ∀ wl, w = some wl → ∀ u ∈ wl, 0 ≤ u) : 0 ≤ v := by
  cases w with
  | none =>
    obtain ⟨_, rfl⟩ := plt_averageK_none h
    exact div_nonneg (plt_sum_nonneg ha) (Nat.cast_nonneg _)
  | some wl =>
    obtain ⟨_, _, rfl⟩ := plt_averageK_some h
    exact div_nonneg (plt_sum_nonneg (plt_zipWith_mul_nonneg ha (hw wl rfl)))
      (plt_sum_nonneg (hw wl rfl))

/-- an average of zeros is zero -/
theorem plt_averageK_zero {a : List K} {w : Option (List K)} {v : K}
    (h : averageK a w = .ok v) (ha : ∀ u ∈ a, u = 0) : v = 0 := by
  cases w with
  | none =>
    obtain ⟨_, rfl⟩ := plt_averageK_none h
    rw [plt_sum_zero ha, zero_div]
  | some wl =>
    obtain ⟨_, _, rfl⟩ := plt_averageK_some h
    rw [plt_sum_zero (plt_zipWith_mul_zero ha), zero_div]

/-- `averageK` never succeeds on an empty array -/
theorem plt_averageK_nil (w : Option (List K)) (v : K) : averageK ([] : List K) w ≠ .ok v := by
  intro h
  cases w with
  | none => exact (plt_averageK_none h).1 rfl
  | some wl =>
    obtain ⟨hl, hs, _⟩ := plt_averageK_some h
    have : wl = [] := List.eq_nil_of_length_eq_zero hl
    rw [this] at hs
    exact hs rfl

/-! ## Elementary scores -/

/-- a successful elementary score has a valid level and a known functional, and is the closed form -/
theorem plt_elemScore_ok {fn : Option Functional} {α η y z v : K}
    (h : elemScore fn α η y z = .ok v) :
    0 < α ∧ α < 1 ∧ ∃ f, fn = some f ∧ v = elemVal f α η y z := by
  by_cases hα : α ≤ 0 ∨ 1 ≤ α
  · rw [elemScore_invalid fn α η y z hα] at h
    cases h
  · rw [not_or, not_le, not_le] at hα
    cases fn with
    | none =>
      rw [elemScore_none] at h
      cases h
    | some f =>
      rw [elemScore_eq_val f α η y z hα.1 hα.2] at h
      exact ⟨hα.1, hα.2, f, rfl, (Except.ok.inj h).symm⟩

theorem plt_elemScore_error {fn : Option Functional} {α : K} (η y z : K)
    (h : α ≤ 0 ∨ 1 ≤ α ∨ fn = none) : elemScore fn α η y z = .error .valueError := by
  rcases h with h | h | rfl
  · exact elemScore_invalid fn α η y z (Or.inl h)
  · exact elemScore_invalid fn α η y z (Or.inr h)
  · exact elemScore_none α η y z

/-- inversion of a successful `elemArr` (current formula) -/
theorem plt_elemArr_inv {fn : Option Functional} {α η : K} {ys zs s : List K}
    (h : elemArr false fn α η ys zs = .ok s) :
    ys.length = zs.length ∧ (ys.zip zs).mapM (fun p => elemScore fn α η p.1 p.2) = .ok s := by
  unfold elemArr at h
  by_cases hl : ys.length ≠ zs.length
  · rw [if_pos hl] at h
    cases h
  · rw [if_neg hl] at h
    exact ⟨not_not.mp hl, h⟩

theorem plt_elemArr_nonneg {fn : Option Functional} {α η : K} {ys zs s : List K}
    (h : elemArr false fn α η ys zs = .ok s) : ∀ v ∈ s, 0 ≤ v := by
  intro v hv
  obtain ⟨p, _, hp⟩ := plt_mapM_mem (plt_elemArr_inv h).2 hv
  obtain ⟨h0, h1, f, _, rfl⟩ := plt_elemScore_ok hp
  exact elemVal_nonneg f α h0 h1 η p.1 p.2

theorem plt_mem_zip_self {β : Type} {l : List β} {p : β × β} (h : p ∈ l.zip l) : p.1 = p.2 := by
  induction l with
  | nil => simp at h
  | cons a t ih =>
    rw [List.zip_cons_cons] at h
    rcases List.mem_cons.mp h with rfl | h
    · rfl
    · exact ih h

theorem plt_elemArr_self_zero{fn : Option Functional} {α η : K} {ys s : List K}
    (h : elemArr false fn α η ys ys = .ok s) : ∀ v ∈ s, v = 0 := by
  intro v hv
  obtain ⟨p, hpm, hp⟩ := plt_mapM_mem (plt_elemArr_inv h).2 hv
  obtain ⟨_, _, f, _, rfl⟩ := plt_elemScore_ok hp
  have : p.1 = p.2 := plt_mem_zip_self hpm
  rw [this]
  exact elemVal_self f α η p.2

/-- a successful `elemArr` on a non-empty sample certifies the level and the functional -/
theorem plt_elemArr_valid {fn : Option Functional} {α η : K} {ys zs s : List K}
    (h : elemArr false fn α η ys zs = .ok s) (hne : ys ≠ []) :
    0 < α ∧ α < 1 ∧ ∃ f, fn = some f := by
  obtain ⟨hl, hm⟩ := plt_elemArr_inv h
  cases ys with
  | nil => exact absurd rfl hne
  | cons a t =>
    cases zs with
    | nil => simp at hl
    | cons b u =>
      have hf := (plt_mapM_forall₂ _ _ _).mp hm
      rw [List.zip_cons_cons] at hf
      cases hf with
      | cons h1 _ =>
        obtain ⟨h0, h1', f, hf, _⟩ := plt_elemScore_ok h1
        exact ⟨h0, h1', f, hf⟩

/-- with an invalid level or an unknown functional `elemArr` raises `ValueError` unless both arrays
are empty -/
theorem plt_elemArr_error {fn : Option Functional} {α : K} (η : K) (ys zs : List K)
    (h : α ≤ 0 ∨ 1 ≤ α ∨ fn = none) (hne : ys ≠ [] ∨ zs ≠ []) :
    elemArr false fn α η ys zs = .error .valueError := by
  by_cases hl : ys.length ≠ zs.length
  · exact elemArr_length_error false fn α η ys zs hl
  · rw [not_not] at hl
    unfold elemArr
    rw [if_neg (not_not.mpr hl)]
    cases ys with
    | nil =>
      cases zs with
      | nil => rcases hne with h | h <;> exact absurd rfl h
      | cons b u => simp at hl
    | cons a t =>
      cases zs with
      | nil => simp at hl
      | cons b u =>
        rw [List.zip_cons_cons]
        exact plt_mapM_cons_error _ _ _ _ (plt_elemScore_error η a b h)

/-! ## Murphy curves -/

theorem plt_murphyCurve_inv {fn : Option Functional} {α : K} {etas ys x : List K}
    {w : Option (List K)} {l : Line K} (h : murphyCurve fn α etas ys x w = .ok l) :
    l.xs = etas ∧
      etas.mapM (fun η => elemArr false fn α η ys x >>= fun s => averageK s w) = .ok l.ys := by
  unfold murphyCurve at h
  obtain ⟨vals, h1, h2⟩ := plt_bind_ok h
  have := Except.ok.inj h2
  rw [← this]
  exact ⟨rfl, h1⟩

theorem plt_murphyCurve_nil (fn : Option Functional) (α : K) (ys x : List K)
    (w : Option (List K)) : murphyCurve fn α [] ys x w = .ok ⟨[], []⟩ := rfl

/-- if the first threshold's score array fails, the curve fails with that error -/
theorem plt_murphyCurve_error {fn : Option Functional} {α : K} {η : K} {etas ys x : List K}
    {w : Option (List K)} {e : Err} (h : elemArr false fn α η ys x = .error e) :
    murphyCurve fn α (η :: etas) ys x w = .error e := by
  unfold murphyCurve
  rw [plt_mapM_cons_error _ _ _ e (by rw [h]; rfl)]
  rfl

end MD
