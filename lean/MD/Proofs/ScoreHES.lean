import MD.Proofs.ScoreReal
import MD.Proofs.Rpow
import Mathlib.Analysis.Convex.SpecificFunctions.Basic
import Mathlib.Tactic.Linarith
import Mathlib.Tactic.Ring
import Mathlib.Tactic.FieldSimp
import Mathlib.Tactic.Positivity
/-! Helper lemmas for `MD/Props/C04_HES.lean`: the homogeneous expectile score `hes` at `K = ℝ`.

Structure: on its domain `hesDom h y z`,
`hes h α y z = .ok (hesAsym α y z * (2 * hesBreg h y z))` (`hes_eq_breg`), where
`hesBreg h y z = φ y - φ z - φ' z * (y - z)` is the Bregman divergence of the convex generator
`φ = hesPhi h` with derivative `φ' = hesPhi' h`, and `hesAsym α y z ∈ {1, 2(1-α), 2α}` is positive.
Everything (non-negativity, strict positivity, order sensitivity) follows from the strict gradient
inequality `hesPhi_grad_lt`, which is Bernoulli's inequality (`h ∉ {0,1}`) or `log x < x - 1`. -/
set_option linter.unusedSectionVars false
namespace MD
open Real

/-! ### scaling Bernoulli's inequality -/

theorem bern_scale_left (h y : ℝ) {z : ℝ} (hz : 0 < z) :
    z ^ h + h * z ^ (h - 1) * (y - z) = (1 + h * (y / z - 1)) * z ^ h := by
  rw [rpow_sub_one hz.ne']
  field_simp

theorem bern_scale_right (h : ℝ) {y z : ℝ} (hy : 0 ≤ y) (hz : 0 < z) :
    (1 + (y / z - 1)) ^ h * z ^ h = y ^ h := by
  have e1 : 1 + (y / z - 1) = y / z := by ring
  rw [e1, div_rpow hy hz.le, div_mul_cancel₀ _ (rpow_pos_of_pos hz h).ne']

theorem div_sub_one_ne_zero {y z : ℝ} (hz : 0 < z) (hne : y ≠ z) : y / z - 1 ≠ 0 := by
  intro h0
  apply hne
  have : y / z = 1 := by linarith
  rw [div_eq_one_iff_eq hz.ne'] at this
  exact this

/-- strict gradient inequality for `x ↦ x^h`, `h > 1` -/
theorem rpow_grad_gt_one_lt {h : ℝ} (hh : 1 < h) {y z : ℝ} (hy : 0 ≤ y) (hz : 0 < z) (hne : y ≠ z) :
    z ^ h + h * z ^ (h - 1) * (y - z) < y ^ h := by
  have hs : -1 ≤ y / z - 1 := by
    have : 0 ≤ y / z := div_nonneg hy hz.le
    linarith
  have hb := one_add_mul_self_lt_rpow_one_add hs (div_sub_one_ne_zero hz hne) hh
  rw [bern_scale_left h y hz, ← bern_scale_right h hy hz]
  exact mul_lt_mul_of_pos_right hb (rpow_pos_of_pos hz h)

/-- strict gradient inequality (concavity) for `x ↦ x^h`, `0 < h < 1` -/
theorem rpow_grad_lt_one_lt {h : ℝ} (h0 : 0 < h) (h1 : h < 1) {y z : ℝ} (hy : 0 ≤ y) (hz : 0 < z)
    (hne : y ≠ z) : y ^ h < z ^ h + h * z ^ (h - 1) * (y - z) := by
  have hs : -1 ≤ y / z - 1 := by
    have : 0 ≤ y / z := div_nonneg hy hz.le
    linarith
  have hb := rpow_one_add_lt_one_add_mul_self hs (div_sub_one_ne_zero hz hne) h0 h1
  rw [bern_scale_left h y hz, ← bern_scale_right h hy hz]
  exact mul_lt_mul_of_pos_right hb (rpow_pos_of_pos hz h)

theorem rpow_grad_lt_one {h : ℝ} (h0 : 0 < h) (h1 : h < 1) {y z : ℝ} (hy : 0 ≤ y) (hz : 0 < z) :
    y ^ h ≤ z ^ h + h * z ^ (h - 1) * (y - z) := by
  by_cases hne : y = z
  · subst hne; simp
  · exact (rpow_grad_lt_one_lt h0 h1 hy hz hne).le

/-- strict Bernoulli for negative exponents -/
theorem one_add_mul_lt_rpow_of_neg {s p : ℝ} (hs : -1 < s) (hs0 : s ≠ 0) (hp : p < 0) :
    1 + p * s < (1 + s) ^ p := by
  have h1 : 0 < 1 + s := by linarith
  rw [rpow_def_of_pos h1]
  have hlog : Real.log (1 + s) < s := by
    have := Real.log_lt_sub_one_of_pos h1 (by intro h; apply hs0; linarith)
    linarith
  have : p * s < Real.log (1 + s) * p := by
    rw [mul_comm (Real.log (1+s)) p]
    exact mul_lt_mul_of_neg_left hlog hp
  calc 1 + p * s < 1 + Real.log (1 + s) * p := by linarith
    _ ≤ Real.exp (Real.log (1 + s) * p) := by
        have := Real.add_one_le_exp (Real.log (1 + s) * p); linarith

/-- strict gradient inequality (convexity) for `x ↦ x^h`, `h < 0`, on the positive reals -/
theorem rpow_grad_neg_lt {h : ℝ} (hh : h < 0) {y z : ℝ} (hy : 0 < y) (hz : 0 < z) (hne : y ≠ z) :
    z ^ h + h * z ^ (h - 1) * (y - z) < y ^ h := by
  have hs : -1 < y / z - 1 := by
    have : 0 < y / z := div_pos hy hz
    linarith
  have hb := one_add_mul_lt_rpow_of_neg hs (div_sub_one_ne_zero hz hne) hh
  rw [bern_scale_left h y hz, ← bern_scale_right h hy.le hz]
  exact mul_lt_mul_of_pos_right hb (rpow_pos_of_pos hz h)

theorem rpow_grad_neg {h : ℝ} (hh : h < 0) {y z : ℝ} (hy : 0 < y) (hz : 0 < z) :
    z ^ h + h * z ^ (h - 1) * (y - z) ≤ y ^ h := by
  by_cases hne : y = z
  · subst hne; simp
  · exact (rpow_grad_neg_lt hh hy hz hne).le

/-! ### `|·|^h`, `h > 1`, on the whole line -/

theorem sgn_of_pos {x : ℝ} (hx : 0 < x) : sgn x = 1 := by simp [sgn, hx]
theorem sgn_of_neg {x : ℝ} (hx : x < 0) : sgn x = -1 := by simp [sgn, hx, not_lt.mpr hx.le]
theorem sgn_zero' : sgn (0 : ℝ) = 0 := by simp [sgn]

/-- half of the gradient inequality for `|·|^h`: tangent at a positive point -/
theorem abs_rpow_grad_pos_lt {h : ℝ} (hh : 1 < h) {y z : ℝ} (hz : 0 < z) (hne : y ≠ z) :
    z ^ h + h * z ^ (h - 1) * (y - z) < |y| ^ h := by
  have hc : 0 < h * z ^ (h - 1) := mul_pos (by linarith) (rpow_pos_of_pos hz _)
  by_cases hy : 0 ≤ y
  · rw [abs_of_nonneg hy]; exact rpow_grad_gt_one_lt hh hy hz hne
  · rw [not_le] at hy
    have h1 := rpow_grad_ge_one hh.le (abs_nonneg y) hz
    have h2 : y - z < |y| - z := by rw [abs_of_neg hy]; linarith
    have := mul_lt_mul_of_pos_left h2 hc
    linarith

/-- strict gradient inequality for `|·|^h`, `h > 1`, all real arguments -/
theorem abs_rpow_grad_lt {h : ℝ} (hh : 1 < h) {y z : ℝ} (hne : y ≠ z) :
    |z| ^ h + h * (sgn z * |z| ^ (h - 1)) * (y - z) < |y| ^ h := by
  rcases lt_trichotomy z 0 with hz | hz | hz
  · have hz' : 0 < -z := by linarith
    have := abs_rpow_grad_pos_lt hh (y := -y) hz' (by intro h; apply hne; linarith)
    rw [sgn_of_neg hz, abs_of_neg hz]
    rw [abs_neg] at this
    linarith
  · subst hz
    rw [sgn_zero', abs_zero, zero_rpow (by linarith)]
    have : 0 < |y| := abs_pos.mpr hne
    have := rpow_pos_of_pos this h
    linarith
  · rw [sgn_of_pos hz, abs_of_pos hz]
    have := abs_rpow_grad_pos_lt hh hz hne
    linarith

theorem abs_rpow_grad {h : ℝ} (hh : 1 < h) (y z : ℝ) :
    |z| ^ h + h * (sgn z * |z| ^ (h - 1)) * (y - z) ≤ |y| ^ h := by
  by_cases hne : y = z
  · subst hne; simp
  · exact (abs_rpow_grad_lt hh hne).le

/-! ### the model at `ℝ`: domain, closed form -/

def hesDom (h y z : ℝ) : Prop :=
  if 1 < h then True else if 0 < h then (0 ≤ y ∧ 0 < z) else (0 < y ∧ 0 < z)

noncomputable def hesBase (h y z : ℝ) : ℝ :=
  if h = 2 then (z - y) * (z - y)
  else if 1 < h then
    2 * ((|y| ^ h - |z| ^ h) / (h * (h - 1)) - sgn z / (h - 1) * |z| ^ (h - 1) * (y - z))
  else if h = 1 then 2 * (xlogy y (y / z) - y + z)
  else if h = 0 then 2 * (y / z - Real.log (y / z) - 1)
  else 2 * ((y ^ h - z ^ h) / (h * (h - 1)) - 1 / (h - 1) * z ^ (h - 1) * (y - z))

theorem sgn_mul_abs (x : ℝ) : sgn x * |x| = x := by
  rcases lt_trichotomy x 0 with hx | hx | hx
  · rw [sgn_of_neg hx, abs_of_neg hx]; ring
  · subst hx; simp
  · rw [sgn_of_pos hx, abs_of_pos hx]; ring

/-- the convex generator `φ_h` of the Bregman representation -/
noncomputable def hesPhi (h x : ℝ) : ℝ :=
  if 1 < h then |x| ^ h / (h * (h - 1))
  else if h = 1 then x * Real.log x - x
  else if h = 0 then - Real.log x
  else x ^ h / (h * (h - 1))

/-- its derivative `φ_h'` -/
noncomputable def hesPhi' (h x : ℝ) : ℝ :=
  if 1 < h then sgn x / (h - 1) * |x| ^ (h - 1)
  else if h = 1 then Real.log x
  else if h = 0 then - (1 / x)
  else 1 / (h - 1) * x ^ (h - 1)

/-- Bregman divergence of `φ_h` -/
noncomputable def hesBreg (h y z : ℝ) : ℝ := hesPhi h y - hesPhi h z - hesPhi' h z * (y - z)

theorem xlogy_div {y z : ℝ} (hy : 0 ≤ y) (hz : 0 < z) :
    xlogy y (y / z) = y * Real.log y - y * Real.log z := by
  unfold xlogy
  simp only [eqK_iff, log_real]
  split_ifs with h0
  · subst h0; simp
  · have : 0 < y := lt_of_le_of_ne hy (Ne.symm h0)
    rw [Real.log_div this.ne' hz.ne']; ring

theorem hesBase_eq_breg {h y z : ℝ} (hd : hesDom h y z) : hesBase h y z = 2 * hesBreg h y z := by
  unfold hesDom at hd
  unfold hesBase hesBreg hesPhi hesPhi'
  by_cases h2 : h = 2
  · subst h2
    have e : (2:ℝ) - 1 = 1 := by norm_num
    simp only [if_true, show (1:ℝ) < 2 by norm_num, e, rpow_one]
    have a1 : ∀ x : ℝ, |x| ^ (2:ℝ) = x ^ 2 := fun x => by
      rw [show (2:ℝ) = ((2:ℕ):ℝ) by norm_num, rpow_natCast, sq_abs]
    rw [a1, a1, div_one, sgn_mul_abs]
    ring
  rw [if_neg h2]
  by_cases h1 : 1 < h
  · simp only [if_pos h1]
    ring
  rw [if_neg h1, if_neg h1, if_neg h1, if_neg h1]
  rw [if_neg h1] at hd
  by_cases e1 : h = 1
  · subst e1
    simp only [if_true, if_pos one_pos] at hd ⊢
    rw [xlogy_div hd.1 hd.2]; ring
  rw [if_neg e1, if_neg e1, if_neg e1, if_neg e1]
  by_cases e0 : h = 0
  · subst e0
    simp only [if_true, lt_irrefl, if_false] at hd ⊢
    rw [Real.log_div hd.1.ne' hd.2.ne']
    have hz := hd.2.ne'
    field_simp
    ring
  rw [if_neg e0, if_neg e0, if_neg e0, if_neg e0]
  ring

noncomputable def hesAsym (α y z : ℝ) : ℝ := if α = 1 / 2 then 1 else 2 * |geInd z y - α|

theorem hes_eq_base {h α y z : ℝ} (hd : hesDom h y z) :
    hes h α y z = .ok (hesAsym α y z * hesBase h y z) := by
  unfold hesDom at hd
  unfold hes hesBase hesAsym
  simp only [eqK_iff, two_real, half_real, rpow_real, log_real, abs_real]
  split_ifs at hd ⊢ <;> simp_all <;> rfl

theorem hes_error {h α y z : ℝ} (hd : ¬ hesDom h y z) :
    hes h α y z = .error .valueError := by
  unfold hesDom at hd
  unfold hes
  simp only [eqK_iff, two_real, half_real, rpow_real, log_real, abs_real]
  split_ifs at hd ⊢ <;> simp_all <;> rfl

theorem hes_ok_dom {h α y z v : ℝ} (hv : hes h α y z = .ok v) : hesDom h y z := by
  by_contra hd
  rw [hes_error hd] at hv
  cases hv

/-! ### gradient inequality for `φ_h`, consequences for the Bregman divergence -/

theorem hesPhi_grad_lt {h y z : ℝ} (hd : hesDom h y z) (hne : y ≠ z) :
    hesPhi h z + hesPhi' h z * (y - z) < hesPhi h y := by
  unfold hesDom at hd
  unfold hesPhi hesPhi'
  by_cases h1 : 1 < h
  · simp only [if_pos h1]
    have hc : 0 < h * (h - 1) := mul_pos (by linarith) (by linarith)
    have hh0 : h ≠ 0 := by intro h0; linarith
    have hh1 : h - 1 ≠ 0 := by intro h0; linarith
    have key := abs_rpow_grad_lt h1 hne
    have e : |z| ^ h / (h * (h - 1)) + sgn z / (h - 1) * |z| ^ (h - 1) * (y - z)
        = (|z| ^ h + h * (sgn z * |z| ^ (h - 1)) * (y - z)) / (h * (h - 1)) := by
      field_simp
    rw [e]
    exact div_lt_div_of_pos_right key hc
  rw [if_neg h1] at hd
  simp only [if_neg h1]
  by_cases e1 : h = 1
  · subst e1
    simp only [if_true, if_pos one_pos] at hd ⊢
    obtain ⟨hy, hz⟩ := hd
    rcases eq_or_lt_of_le hy with hy0 | hy0
    · subst hy0; simp; linarith
    · have hzy : z / y ≠ 1 := by
        intro h; rw [div_eq_one_iff_eq hy0.ne'] at h; exact hne h.symm
      have hl := Real.log_lt_sub_one_of_pos (div_pos hz hy0) hzy
      rw [Real.log_div hz.ne' hy0.ne'] at hl
      have := mul_lt_mul_of_pos_left hl hy0
      have e : y * (z / y - 1) = z - y := by field_simp
      rw [e] at this
      nlinarith
  simp only [if_neg e1]
  by_cases e0 : h = 0
  · subst e0
    simp only [if_true, lt_irrefl, if_false] at hd ⊢
    obtain ⟨hy, hz⟩ := hd
    have hyz : y / z ≠ 1 := by
      intro h; rw [div_eq_one_iff_eq hz.ne'] at h; exact hne h
    have hl := Real.log_lt_sub_one_of_pos (div_pos hy hz) hyz
    rw [Real.log_div hy.ne' hz.ne'] at hl
    have e : -(1 / z) * (y - z) = -(y / z - 1) := by field_simp
    rw [e]
    linarith
  simp only [if_neg e0]
  have hh1 : h - 1 ≠ 0 := by intro h0; apply e1; linarith
  by_cases hp : 0 < h
  · rw [if_pos hp] at hd
    obtain ⟨hy, hz⟩ := hd
    have hlt : h < 1 := lt_of_le_of_ne (not_lt.mp h1) e1
    have hc : h * (h - 1) < 0 := mul_neg_of_pos_of_neg hp (by linarith)
    have key := rpow_grad_lt_one_lt hp hlt hy hz hne
    have e : z ^ h / (h * (h - 1)) + 1 / (h - 1) * z ^ (h - 1) * (y - z)
        = (z ^ h + h * z ^ (h - 1) * (y - z)) / (h * (h - 1)) := by
      field_simp
    rw [e]
    exact div_lt_div_of_neg_of_lt hc key
  · rw [if_neg hp] at hd
    obtain ⟨hy, hz⟩ := hd
    have hlt : h < 0 := lt_of_le_of_ne (not_lt.mp hp) e0
    have hc : 0 < h * (h - 1) := mul_pos_of_neg_of_neg hlt (by linarith)
    have key := rpow_grad_neg_lt hlt hy hz hne
    have e : z ^ h / (h * (h - 1)) + 1 / (h - 1) * z ^ (h - 1) * (y - z)
        = (z ^ h + h * z ^ (h - 1) * (y - z)) / (h * (h - 1)) := by
      field_simp
    rw [e]
    exact div_lt_div_of_pos_right key hc

theorem hesBreg_self (h y : ℝ) : hesBreg h y y = 0 := by unfold hesBreg; ring

theorem hesBreg_pos {h y z : ℝ} (hd : hesDom h y z) (hne : y ≠ z) : 0 < hesBreg h y z := by
  have := hesPhi_grad_lt hd hne
  unfold hesBreg; linarith

theorem hesBreg_nonneg {h y z : ℝ} (hd : hesDom h y z) : 0 ≤ hesBreg h y z := by
  by_cases hne : y = z
  · subst hne; rw [hesBreg_self]
  · exact (hesBreg_pos hd hne).le

/-- the gradient inequality `φ z + φ' z (y - z) ≤ φ y` on the domain -/
theorem hesPhi_grad {h y z : ℝ} (hd : hesDom h y z) : hesPhi h z + hesPhi' h z * (y - z) ≤ hesPhi h y := by
  have := hesBreg_nonneg hd
  unfold hesBreg at this; linarith

theorem hesBreg_three_point (h y z₁ z₂ : ℝ) :
    hesBreg h y z₂ - hesBreg h y z₁ = hesBreg h z₁ z₂ + (hesPhi' h z₁ - hesPhi' h z₂) * (y - z₁) := by
  unfold hesBreg; ring

/-- a valid prediction is a valid observation -/
theorem hesDom_pred {h y y' z₁ z₂ : ℝ} (h1 : hesDom h y z₁) (h2 : hesDom h y' z₂) :
    hesDom h z₁ z₂ := by
  unfold hesDom at *
  split_ifs at * <;> first | trivial | exact ⟨h1.2.le, h2.2⟩ | exact ⟨h1.2, h2.2⟩

theorem hesPhi'_mono {h z₁ z₂ : ℝ} (h12 : hesDom h z₁ z₂) (h21 : hesDom h z₂ z₁) (hle : z₁ ≤ z₂) :
    hesPhi' h z₁ ≤ hesPhi' h z₂ := by
  rcases eq_or_lt_of_le hle with he | hlt
  · rw [he]
  · have a := hesBreg_nonneg h12
    have b := hesBreg_nonneg h21
    have e : hesBreg h z₁ z₂ + hesBreg h z₂ z₁ = (hesPhi' h z₂ - hesPhi' h z₁) * (z₂ - z₁) := by
      unfold hesBreg; ring
    have hp : 0 ≤ (hesPhi' h z₂ - hesPhi' h z₁) * (z₂ - z₁) := by rw [← e]; linarith
    have := nonneg_of_mul_nonneg_left hp (sub_pos.2 hlt)
    linarith

/-- `z ↦ B(y, z)` grows as `z` moves away from `y`, by at least `B(z₁, z₂)` -/
theorem hesBreg_mono_add {h y z₁ z₂ : ℝ} (hd1 : hesDom h y z₁) (hd2 : hesDom h y z₂)
    (hside : (y ≤ z₁ ∧ z₁ ≤ z₂) ∨ (z₂ ≤ z₁ ∧ z₁ ≤ y)) :
    hesBreg h y z₁ + hesBreg h z₁ z₂ ≤ hesBreg h y z₂ := by
  have h12 := hesDom_pred hd1 hd2
  have h21 := hesDom_pred hd2 hd1
  have tp := hesBreg_three_point h y z₁ z₂
  have : 0 ≤ (hesPhi' h z₁ - hesPhi' h z₂) * (y - z₁) := by
    rcases hside with ⟨a, b⟩ | ⟨a, b⟩
    · have := hesPhi'_mono h12 h21 b
      exact mul_nonneg_of_nonpos_of_nonpos (by linarith) (by linarith)
    · have := hesPhi'_mono h21 h12 a
      exact mul_nonneg (by linarith) (by linarith)
  linarith

theorem hesBreg_mono {h y z₁ z₂ : ℝ} (hd1 : hesDom h y z₁) (hd2 : hesDom h y z₂)
    (hside : (y ≤ z₁ ∧ z₁ ≤ z₂) ∨ (z₂ ≤ z₁ ∧ z₁ ≤ y)) : hesBreg h y z₁ ≤ hesBreg h y z₂ := by
  have := hesBreg_mono_add hd1 hd2 hside
  have := hesBreg_nonneg (hesDom_pred hd1 hd2)
  linarith

theorem hesBreg_strict_mono {h y z₁ z₂ : ℝ} (hd1 : hesDom h y z₁) (hd2 : hesDom h y z₂)
    (hside : (y ≤ z₁ ∧ z₁ < z₂) ∨ (z₂ < z₁ ∧ z₁ ≤ y)) : hesBreg h y z₁ < hesBreg h y z₂ := by
  have := hesBreg_mono_add hd1 hd2 (by
    rcases hside with ⟨a, b⟩ | ⟨a, b⟩
    · exact Or.inl ⟨a, b.le⟩
    · exact Or.inr ⟨a.le, b⟩)
  have := hesBreg_pos (hesDom_pred hd1 hd2) (by
    rcases hside with ⟨_, b⟩ | ⟨a, _⟩
    · exact b.ne
    · exact a.ne')
  linarith

/-! ### the hesAsymmetry factor -/

theorem hesAsym_pos {α : ℝ} (hα : 0 < α ∧ α < 1) (y z : ℝ) : 0 < hesAsym α y z := by
  unfold hesAsym geInd
  split_ifs with h1 h2
  · exact one_pos
  · have : (0:ℝ) < |1 - α| := abs_pos.mpr (by linarith [hα.2])
    linarith
  · have : (0:ℝ) < |0 - α| := abs_pos.mpr (by linarith [hα.1])
    linarith

theorem hesAsym_eq_of_ge {α y z₁ z₂ : ℝ} (h1 : y ≤ z₁) (h2 : y ≤ z₂) : hesAsym α y z₁ = hesAsym α y z₂ := by
  simp [hesAsym, geInd, h1, h2]

theorem hesAsym_eq_of_lt {α y z₁ z₂ : ℝ} (h1 : z₁ < y) (h2 : z₂ < y) : hesAsym α y z₁ = hesAsym α y z₂ := by
  simp [hesAsym, geInd, not_le.mpr h1, not_le.mpr h2]

/-- the full closed form: hesAsymmetry factor × 2 × Bregman divergence -/
theorem hes_eq_breg {h α y z : ℝ} (hd : hesDom h y z) :
    hes h α y z = .ok (hesAsym α y z * (2 * hesBreg h y z)) := by
  rw [hes_eq_base hd, hesBase_eq_breg hd]

end MD
