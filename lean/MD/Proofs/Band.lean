import MD.Proofs.IsoRegLemmas
import Mathlib.Tactic.Linarith
import Mathlib.Tactic.Ring
import Mathlib.Data.List.Forall2

/-! # The band of optimal isotonic quantile solutions (helpers for `MD/Props/C02b.lean`)

The lower-quantile PAVA fit `L = expand (gpava (qLower α) ys)` is the pointwise **smallest**
non-decreasing minimiser of the total pinball loss (`band_lower_smallest`), and its mirror image
`band_upper α ys` (negate and reverse the data, fit the lower `(1-α)`-quantile, negate and reverse
back) is the pointwise **largest** one (`band_upper_largest`).

Route for the lower fit:

* lattice step (`band_total_min_max`): for a separable loss, `L(z ∧ x) + L(z ∨ x) = L(z) + L(x)`;
  with `x = L` optimal and `z` optimal, `z ∧ x` is optimal too, and it is `≤ x`;
* strict step (`band_blocks_strict`): a non-decreasing `w ≤ x` with `L(w) ≤ L(x)` *is* `x`.  Block
  by block: on a block with value `v` every non-empty prefix `P` has `v ≤ qLower P`, hence
  `#{y ∈ P : y < v} < α |P|` **strictly** (`band_cntLt_lt`), and a strict form of the Abel summation
  argument of `low_part` (`band_abel_strict`) shows that any entry below `v` costs something.
* hence `z ∧ x = x`, i.e. `x ≤ z`. -/

set_option linter.unusedSectionVars false

namespace MD
variable {K : Type} [Field K] [LinearOrder K] [IsStrictOrderedRing K]

/-! ## 1. Abel summation, strict form -/

theorem band_abel_strict_aux (g u : List K) (c m : K) (hc : c < 0) (hm : m < 0)
    (hlen : g.length = u.length)
    (hp : ∀ k, c + (g.take k).sum < 0)
    (hmono : u.Pairwise (· ≤ ·)) (hlb : ∀ x ∈ u, m ≤ x) (hneg : ∀ x ∈ u, x ≤ 0) :
    0 < c * m + (List.zipWith (· * ·) g u).sum := by
  induction g generalizing u c m with
  | nil =>
    cases u with
    | nil => simpa using mul_pos_of_neg_of_neg hc hm
    | cons => simp at hlen
  | cons g1 gs ih =>
    cases u with
    | nil => simp at hlen
    | cons u1 us =>
      have hu1 : u1 ≤ 0 := hneg u1 (by simp)
      have hmu1 : m ≤ u1 := hlb u1 (by simp)
      have hc1 : c + g1 < 0 := by simpa using hp 1
      have h0 : 0 ≤ c * (m - u1) := mul_nonneg_of_nonpos_of_nonpos hc.le (by linarith)
      have e : c * m + g1 * u1 = c * (m - u1) + (c + g1) * u1 := by ring
      simp only [List.zipWith_cons_cons, List.sum_cons]
      by_cases h : u1 < 0
      · have := ih us (c + g1) u1 hc1 h (by simpa using hlen)
          (by intro k; have := hp (k+1); simpa [add_assoc] using this)
          (List.pairwise_cons.mp hmono).2
          (fun x hx => (List.pairwise_cons.mp hmono).1 x hx)
          (fun x hx => hneg x (by simp [hx]))
        linarith
      · have hu0 : u1 = 0 := le_antisymm hu1 (not_lt.mp h)
        have := abel_prefix_aux gs us (c + g1) u1 hc1.le hu1 (by simpa using hlen)
          (by intro k; have := hp (k+1); simp only [List.take_succ_cons, List.sum_cons] at this
              linarith)
          (List.pairwise_cons.mp hmono).2
          (fun x hx => (List.pairwise_cons.mp hmono).1 x hx)
          (fun x hx => hneg x (by simp [hx]))
        have hcm : 0 < c * m := mul_pos_of_neg_of_neg hc hm
        rw [hu0] at e this
        rw [hu0]
        linarith

/-- all non-empty prefix sums of `g` are negative, `u` is non-decreasing, `≤ 0`, and not
identically `0`: then `Σ gᵢ uᵢ > 0` -/
theorem band_abel_strict (g u : List K) (hlen : g.length = u.length)
    (hp : ∀ k, 1 ≤ k → (g.take k).sum < 0)
    (hmono : u.Pairwise (· ≤ ·)) (hneg : ∀ x ∈ u, x ≤ 0) (hex : ∃ x ∈ u, x < 0) :
    0 < (List.zipWith (· * ·) g u).sum := by
  cases u with
  | nil => obtain ⟨x, hx, _⟩ := hex; simp at hx
  | cons u1 us =>
    cases g with
    | nil => simp at hlen
    | cons g1 gs =>
      have hu1 : u1 < 0 := by
        obtain ⟨x, hx, hx0⟩ := hex
        rcases List.mem_cons.mp hx with rfl | hx
        · exact hx0
        · exact lt_of_le_of_lt ((List.pairwise_cons.mp hmono).1 x hx) hx0
      have hg1 : g1 < 0 := by simpa using hp 1 le_rfl
      have := band_abel_strict_aux gs us g1 u1 hg1 hu1 (by simpa using hlen)
        (by intro k; have := hp (k+1) (by omega); simpa using this)
        (List.pairwise_cons.mp hmono).2
        (fun x hx => (List.pairwise_cons.mp hmono).1 x hx)
        (fun x hx => hneg x (by simp [hx]))
      simpa using this

/-! ## 2. Strictly fewer than `α n` observations lie strictly below the lower quantile -/

theorem band_cntLt_lt (α : K) (hα0 : 0 < α) (hα1 : α < 1) (d : List (Obs K)) (hne : d ≠ [])
    (v : K) (hv : v ≤ qLower α d) : (cntLt d v : K) < α * (d.length : K) := by
  have hn : 0 < (d.length : K) := by
    have : 0 < d.length := List.length_pos_iff.mpr hne
    exact_mod_cast this
  by_cases hpos : 0 < cntLt d v
  · obtain ⟨u, _, huv, hcu⟩ := exists_data_lt d v hpos
    have hlt : u < qLower α d := lt_of_lt_of_le huv hv
    have hs := (quantFun α hα0 hα1).spec d hne (fun _ _ => trivial) u
    have hnot : ¬ (0 ≤ Esum (quantFun α hα0 hα1).Vp d u) := fun h0 =>
      absurd (hs.mpr h0) (not_le.mpr hlt)
    have e := Esum_quant α d u
    simp only [quantFun] at hnot
    rw [e, not_le] at hnot
    rw [← hcu]
    linarith
  · have h0 : cntLt d v = 0 := by omega
    rw [h0]
    simpa using mul_pos hα0 hn

/-! ## 3. The strict lower part of the block lemma for the pinball loss -/

theorem band_low_strict (α : K) (hα0 : 0 < α) (hα1 : α < 1) (v : K) (d : List (Obs K))
    (zs : List K) (hlen : d.length = zs.length) (hle : ∀ z ∈ zs, z ≤ v)
    (hsort : zs.Pairwise (· ≤ ·))
    (hcert : ∀ k, 1 ≤ k → Esum (quantFun α hα0 hα1).Vm (d.take k) v < 0)
    (hex : ∃ z ∈ zs, z < v) :
    (d.map ((pinball α hα0 hα1).S · v)).sum < total (pinball α hα0 hα1).S d zs := by
  have hA := band_abel_strict (d.map ((quantFun α hα0 hα1).Vm v)) (zs.map (fun z => z - v))
    (by simp [hlen])
    (by intro k hk; rw [← List.map_take]; exact hcert k hk)
    (by
      rw [List.pairwise_map]
      exact hsort.imp (fun h => by linarith))
    (by
      intro x hx
      obtain ⟨z, hz, rfl⟩ := List.mem_map.mp hx
      have := hle z hz
      linarith)
    (by
      obtain ⟨z, hz, hzv⟩ := hex
      exact ⟨z - v, List.mem_map.mpr ⟨z, hz, rfl⟩, by linarith⟩)
  have hB := total_sub_ge (pinball α hα0 hα1).S
    (fun o z => (quantFun α hα0 hα1).Vm v o * (z - v)) v d zs hlen
    (fun o _ z hz => (pinball α hα0 hα1).dn o v z trivial trivial trivial (hle z hz))
  have e : (List.zipWith (· * ·) (d.map ((quantFun α hα0 hα1).Vm v))
        (zs.map (fun z => z - v))).sum
      = (List.zipWith (fun o z => (quantFun α hα0 hα1).Vm v o * (z - v)) d zs).sum := by
    rw [List.zipWith_map_left, List.zipWith_map_right]
  rw [e] at hA
  linarith

/-- on a block of the lower-quantile fit, a non-decreasing sequence `≤` the block value that does
not cost more than the block value is constant equal to the block value -/
theorem band_block_strict (α : K) (hα0 : 0 < α) (hα1 : α < 1) (b : Blk K)
    (hb : Good (quantFun α hα0 hα1).ok (quantFun α hα0 hα1).T b) (zs : List K)
    (hlen : b.data.length = zs.length) (hsort : zs.Pairwise (· ≤ ·))
    (hle : ∀ z ∈ zs, z ≤ b.val)
    (hopt : total (pinball α hα0 hα1).S b.data zs
      ≤ (b.data.map ((pinball α hα0 hα1).S · b.val)).sum) :
    zs = List.replicate b.data.length b.val := by
  have hall : ∀ z ∈ zs, z = b.val := by
    by_contra hcon
    have hex : ∃ z ∈ zs, z < b.val := by
      by_contra hno
      apply hcon
      intro z hz
      refine le_antisymm (hle z hz) ?_
      by_contra hlt
      exact hno ⟨z, hz, not_le.mp hlt⟩
    have hcert : ∀ k, 1 ≤ k → Esum (quantFun α hα0 hα1).Vm (b.data.take k) b.val < 0 := by
      intro k hk
      have hP : b.data.take k ≠ [] := by
        intro h
        have hl := congrArg List.length h
        rw [List.length_take, List.length_nil] at hl
        have : 0 < b.data.length := List.length_pos_iff.mpr hb.ne
        omega
      have hv : b.val ≤ qLower α (b.data.take k) :=
        hb.pre (b.data.take k) (b.data.drop k) hP (List.take_append_drop k b.data).symm
      have hc := band_cntLt_lt α hα0 hα1 (b.data.take k) hP b.val hv
      have e := Esum_quant_m α (b.data.take k) b.val
      simp only [quantFun]
      rw [e]
      linarith
    have := band_low_strict α hα0 hα1 b.val b.data zs hlen hle hsort hcert hex
    linarith
  exact List.eq_replicate_iff.mpr ⟨hlen.symm, hall⟩

theorem band_forall₂_replicate {R : K → K → Prop} {l : List K} {n : Nat} {v : K}
    (h : List.Forall₂ R l (List.replicate n v)) : ∀ z ∈ l, R z v := by
  induction l generalizing n with
  | nil => simp
  | cons a l ih =>
    cases n with
    | zero => simp at h
    | succ n =>
      rw [List.replicate_succ, List.forall₂_cons] at h
      intro z hz
      rcases List.mem_cons.mp hz with rfl | hz
      · exact h.1
      · exact ih h.2 z hz

/-- **strict step**: a non-decreasing sequence that is pointwise `≤` the lower-quantile fit and
does not cost more *is* the lower-quantile fit -/
theorem band_blocks_strict (α : K) (hα0 : 0 < α) (hα1 : α < 1) (bs : List (Blk K))
    (hbs : ∀ b ∈ bs, Good (quantFun α hα0 hα1).ok (quantFun α hα0 hα1).T b)
    (zs : List K) (hlen : (bs.flatMap (·.data)).length = zs.length)
    (hsort : zs.Pairwise (· ≤ ·)) (hle : List.Forall₂ (· ≤ ·) zs (expand bs))
    (hopt : total (pinball α hα0 hα1).S (bs.flatMap (·.data)) zs
      ≤ total (pinball α hα0 hα1).S (bs.flatMap (·.data)) (expand bs)) :
    zs = expand bs := by
  induction bs generalizing zs with
  | nil =>
    simp only [List.flatMap_nil, List.length_nil] at hlen
    rw [List.length_eq_zero_iff.mp hlen.symm]
    simp [expand]
  | cons b bs ih =>
    have hb := hbs b (by simp)
    set m := b.data.length with hm
    have hz : zs = zs.take m ++ zs.drop m := (List.take_append_drop m zs).symm
    simp only [List.flatMap_cons, List.length_append] at hlen
    have hl1 : b.data.length = (zs.take m).length := by rw [List.length_take]; omega
    have hl2 : (bs.flatMap (·.data)).length = (zs.drop m).length := by
      rw [List.length_drop]; omega
    rw [expand_cons] at hle
    have hle1 : List.Forall₂ (· ≤ ·) (zs.take m) (List.replicate m b.val) := by
      have := List.forall₂_take_append zs _ _ hle
      rwa [List.length_replicate] at this
    have hle2 : List.Forall₂ (· ≤ ·) (zs.drop m) (expand bs) := by
      have := List.forall₂_drop_append zs _ _ hle
      rwa [List.length_replicate] at this
    have hs1 := hsort.sublist (List.take_sublist m zs)
    have hs2 := hsort.sublist (List.drop_sublist m zs)
    have B := block_optimal (pinball α hα0 hα1) b.val trivial b.data (zs.take m) hl1 hb.allok
      (fun _ _ => trivial) hs1 (good_cert_pre hb) (good_cert_suf hb)
    have R := blocks_optimal (pinball α hα0 hα1) bs (fun b' hb' => hbs b' (by simp [hb']))
      (fun _ _ => trivial) (zs.drop m) hl2 (fun _ _ => trivial) hs2
    have e1 : total (pinball α hα0 hα1).S ((b :: bs).flatMap (·.data)) zs
        = total (pinball α hα0 hα1).S b.data (zs.take m)
          + total (pinball α hα0 hα1).S (bs.flatMap (·.data)) (zs.drop m) := by
      conv_lhs => rw [hz]
      simp only [List.flatMap_cons]
      exact total_append _ _ _ _ _ hl1
    have e2 : total (pinball α hα0 hα1).S ((b :: bs).flatMap (·.data)) (expand (b :: bs))
        = (b.data.map ((pinball α hα0 hα1).S · b.val)).sum
          + total (pinball α hα0 hα1).S (bs.flatMap (·.data)) (expand bs) := by
      simp only [List.flatMap_cons, expand]
      rw [total_append _ _ _ _ _ (by simp), total_replicate]
    rw [e1, e2] at hopt
    have t1 := band_block_strict α hα0 hα1 b hb (zs.take m) hl1 hs1
      (band_forall₂_replicate hle1) (by linarith)
    have t2 := ih (fun b' hb' => hbs b' (by simp [hb'])) (zs.drop m) hl2 hs2 hle2 (by linarith)
    rw [hz, t1, t2, expand_cons]

/-! ## 4. The lattice step -/

theorem band_total_min_max (S : Obs K → K → K) (d : List (Obs K)) (xs zs : List K)
    (hx : d.length = xs.length) (hz : d.length = zs.length) :
    total S d (List.zipWith min zs xs) + total S d (List.zipWith max zs xs)
      = total S d zs + total S d xs := by
  induction d generalizing xs zs with
  | nil => simp [total]
  | cons o d ih =>
    cases xs with
    | nil => simp at hx
    | cons x xs =>
      cases zs with
      | nil => simp at hz
      | cons z zs =>
        have h1 := ih xs zs (by simpa using hx) (by simpa using hz)
        simp only [total, List.zipWith_cons_cons, List.sum_cons] at h1 ⊢
        rcases le_total z x with h | h
        · rw [min_eq_left h, max_eq_right h]; linarith
        · rw [min_eq_right h, max_eq_left h]; linarith

theorem band_zipWith_sorted (f : K → K → K)
    (hf : ∀ a b a' b', a ≤ a' → b ≤ b' → f a b ≤ f a' b') (l₁ l₂ : List K)
    (h₁ : l₁.Pairwise (· ≤ ·)) (h₂ : l₂.Pairwise (· ≤ ·)) :
    (List.zipWith f l₁ l₂).Pairwise (· ≤ ·) := by
  rw [List.pairwise_iff_getElem] at *
  intro i j hi hj hij
  simp only [List.length_zipWith, lt_min_iff] at hi hj
  simp only [List.getElem_zipWith]
  exact hf _ _ _ _ (h₁ i j hi.1 hj.1 hij) (h₂ i j hi.2 hj.2 hij)

theorem band_min_le (zs xs : List K) (h : zs.length = xs.length) :
    List.Forall₂ (· ≤ ·) (List.zipWith min zs xs) xs := by
  induction zs generalizing xs with
  | nil =>
    have : xs = [] := List.length_eq_zero_iff.mp (by simpa using h.symm)
    subst this; simp
  | cons z zs ih =>
    cases xs with
    | nil => simp at h
    | cons x xs =>
      simp only [List.zipWith_cons_cons]
      exact List.Forall₂.cons (min_le_right _ _) (ih xs (by simpa using h))

theorem band_of_min_eq (zs xs : List K) (h : zs.length = xs.length)
    (he : List.zipWith min zs xs = xs) : List.Forall₂ (· ≤ ·) xs zs := by
  induction zs generalizing xs with
  | nil =>
    have : xs = [] := List.length_eq_zero_iff.mp (by simpa using h.symm)
    subst this; simp
  | cons z zs ih =>
    cases xs with
    | nil => simp at h
    | cons x xs =>
      simp only [List.zipWith_cons_cons, List.cons.injEq] at he
      exact List.Forall₂.cons (min_eq_right_iff.mp he.1) (ih xs (by simpa using h) he.2)

/-! ## 5. The lower-quantile fit is the smallest optimal solution -/

/-- **every non-decreasing minimiser of the total pinball loss dominates the lower-quantile fit** -/
theorem band_lower_smallest (α : K) (hα0 : 0 < α) (hα1 : α < 1) (ys : List (Obs K))
    (zs : List K) (hlen : ys.length = zs.length) (hsort : zs.Pairwise (· ≤ ·))
    (hopt : total (pinball α hα0 hα1).S ys zs
      ≤ total (pinball α hα0 hα1).S ys (expand (gpava (qLower α) ys))) :
    List.Forall₂ (· ≤ ·) (expand (gpava (qLower α) ys)) zs := by
  have hok : ∀ o ∈ ys, (quantFun α hα0 hα1).ok o := fun _ _ => trivial
  obtain ⟨h1', _, h3'⟩ := gpava_spec (quantFun α hα0 hα1).internal ys hok
  have h1 : ∀ b ∈ gpava (qLower α) ys,
      Good (quantFun α hα0 hα1).ok (quantFun α hα0 hα1).T b := h1'
  have h3 : (gpava (qLower α) ys).flatMap (·.data) = ys := h3'
  have hxl : (expand (gpava (qLower α) ys)).length = ys.length :=
    expand_length (quantFun α hα0 hα1).internal ys hok
  have hxs : (expand (gpava (qLower α) ys)).Pairwise (· ≤ ·) :=
    expand_gpava_sorted (quantFun α hα0 hα1).internal ys hok
  have hzx : zs.length = (expand (gpava (qLower α) ys)).length := by rw [hxl, hlen]
  have hM := C02_lower_optimal_inc α hα0 hα1 ys
    (List.zipWith max zs (expand (gpava (qLower α) ys)))
    (by rw [List.length_zipWith, ← hzx, Nat.min_self, hlen])
    (band_zipWith_sorted max (fun _ _ _ _ h h' => max_le_max h h') _ _ hsort hxs)
  have hlat := band_total_min_max (pinball α hα0 hα1).S ys (expand (gpava (qLower α) ys)) zs
    hxl.symm hlen
  have hw : List.zipWith min zs (expand (gpava (qLower α) ys)) = expand (gpava (qLower α) ys) := by
    have := band_blocks_strict α hα0 hα1 (gpava (qLower α) ys) h1
      (List.zipWith min zs (expand (gpava (qLower α) ys)))
      (by rw [h3, List.length_zipWith, ← hzx, Nat.min_self, hlen])
      (band_zipWith_sorted min (fun _ _ _ _ h h' => min_le_min h h') _ _ hsort hxs)
      (band_min_le _ _ hzx)
      (by rw [h3]; linarith)
    exact this
  exact band_of_min_eq _ _ hzx hw

/-! ## 6. Mirror image: the largest optimal solution -/

/-- the mirror image of a sequence: negate and reverse -/
def band_mirror (l : List K) : List K := (l.map (fun v => -v)).reverse

theorem band_mirror_mirror (l : List K) : band_mirror (band_mirror l) = l := by
  simp [band_mirror, List.map_reverse]

theorem band_mirror_length (l : List K) : (band_mirror l).length = l.length := by
  simp [band_mirror]

theorem band_mirror_sorted (l : List K) (h : l.Pairwise (· ≤ ·)) :
    (band_mirror l).Pairwise (· ≤ ·) := by
  unfold band_mirror
  rw [List.pairwise_reverse, List.pairwise_map]
  exact h.imp (fun hab => by linarith)

/-- `band_mirror` reverses the pointwise order -/
theorem band_mirror_forall₂ (a b : List K) (h : List.Forall₂ (· ≤ ·) a b) :
    List.Forall₂ (· ≤ ·) (band_mirror b) (band_mirror a) := by
  unfold band_mirror
  rw [List.forall₂_reverse_iff, List.forall₂_map_left_iff, List.forall₂_map_right_iff]
  exact (h.imp (fun x y hxy => by
    show -y ≤ -x
    linarith)).flip

/-- the pinball loss at level `α` of `(y, z)` is the pinball loss at level `1 - α` of `(-y, -z)` -/
theorem band_pinball_neg (α : K) (hα0 : 0 < α) (hα1 : α < 1) (o : Obs K) (z : K) :
    (pinball α hα0 hα1).S o z
      = (pinball (1 - α) (by linarith) (by linarith)).S (-o.1, o.2) (-z) := by
  simp only [pinball]
  by_cases h1 : o.1 ≤ z
  · by_cases h2 : z ≤ o.1
    · have : z = o.1 := le_antisymm h2 h1
      subst this
      simp
    · have h3 : ¬ (-o.1 ≤ -z) := by rw [neg_le_neg_iff]; exact h2
      rw [if_pos h1, if_neg h3]; ring
  · have h2 : z ≤ o.1 := (not_le.mp h1).le
    have h3 : -o.1 ≤ -z := by rw [neg_le_neg_iff]; exact h2
    rw [if_neg h1, if_pos h3]; ring

theorem band_total_mirror (α : K) (hα0 : 0 < α) (hα1 : α < 1) (ys : List (Obs K)) (zs : List K)
    (hlen : ys.length = zs.length) :
    total (pinball α hα0 hα1).S ys zs
      = total (pinball (1 - α) (by linarith) (by linarith)).S (negObs ys).reverse
          (band_mirror zs) := by
  unfold band_mirror
  rw [total_reverse _ _ _ (by simp [negObs, hlen])]
  simp only [total, negObs, List.zipWith_map_left, List.zipWith_map_right]
  congr 1
  apply List.zipWith_congr
  rw [List.forall₂_iff_get]
  refine ⟨hlen, ?_⟩
  intro i h1 h2
  exact band_pinball_neg α hα0 hα1 _ _

/-- the largest optimal solution: mirror image of the lower `(1-α)`-quantile fit of the mirrored
data -/
def band_upper (α : K) (ys : List (Obs K)) : List K :=
  band_mirror (expand (gpava (qLower (1 - α)) (negObs ys).reverse))

theorem band_upper_length (α : K) (hα0 : 0 < α) (hα1 : α < 1) (ys : List (Obs K)) :
    (band_upper α ys).length = ys.length := by
  unfold band_upper
  have h : (expand (gpava (qLower (1 - α)) (negObs ys).reverse)).length
      = ((negObs ys).reverse).length :=
    expand_length (quantFun (1 - α) (by linarith) (by linarith)).internal _ (fun _ _ => trivial)
  rw [band_mirror_length, h]
  simp [negObs]

theorem band_upper_sorted (α : K) (hα0 : 0 < α) (hα1 : α < 1) (ys : List (Obs K)) :
    (band_upper α ys).Pairwise (· ≤ ·) :=
  band_mirror_sorted _
    (expand_gpava_sorted (quantFun (1 - α) (by linarith) (by linarith)).internal _
      (fun _ _ => trivial))

/-- the mirrored fit is optimal … -/
theorem band_upper_optimal (α : K) (hα0 : 0 < α) (hα1 : α < 1) (ys : List (Obs K))
    (zs : List K) (hlen : ys.length = zs.length) (hsort : zs.Pairwise (· ≤ ·)) :
    total (pinball α hα0 hα1).S ys (band_upper α ys) ≤ total (pinball α hα0 hα1).S ys zs := by
  rw [band_total_mirror α hα0 hα1 ys zs hlen,
    band_total_mirror α hα0 hα1 ys _ (band_upper_length α hα0 hα1 ys).symm]
  unfold band_upper
  rw [band_mirror_mirror]
  exact C02_lower_optimal_inc (1 - α) (by linarith) (by linarith) _ _
    (by simp [negObs, band_mirror_length, hlen]) (band_mirror_sorted zs hsort)

/-- … and **every non-decreasing minimiser of the total pinball loss is dominated by it** -/
theorem band_upper_largest (α : K) (hα0 : 0 < α) (hα1 : α < 1) (ys : List (Obs K))
    (zs : List K) (hlen : ys.length = zs.length) (hsort : zs.Pairwise (· ≤ ·))
    (hopt : total (pinball α hα0 hα1).S ys zs
      ≤ total (pinball α hα0 hα1).S ys (band_upper α ys)) :
    List.Forall₂ (· ≤ ·) zs (band_upper α ys) := by
  rw [band_total_mirror α hα0 hα1 ys zs hlen,
    band_total_mirror α hα0 hα1 ys _ (band_upper_length α hα0 hα1 ys).symm] at hopt
  unfold band_upper at hopt ⊢
  rw [band_mirror_mirror] at hopt
  have := band_lower_smallest (1 - α) (by linarith) (by linarith) (negObs ys).reverse
    (band_mirror zs) (by simp [negObs, band_mirror_length, hlen]) (band_mirror_sorted zs hsort)
    hopt
  have h2 := band_mirror_forall₂ _ _ this
  rwa [band_mirror_mirror] at h2

end MD
