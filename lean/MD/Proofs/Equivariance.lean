import MD.Proofs.Unique
import MD.Proofs.ExpectileInst
import MD.Proofs.QuantStage
import MD.Proofs.PavaEq
import MD.Proofs.IsoRegLemmas
import Mathlib.Tactic.Linarith
import Mathlib.Tactic.Ring
import Mathlib.Tactic.FieldSimp
import Mathlib.Tactic.Positivity
import Mathlib.Data.List.Sort

/-! # C12: output contract and equivariances of the isotonic fits

General theorems about `gpava`, `pavaMean`, `quantileFit` and their lift to `isoReg`.

1. `internal_between`, `gpava_range`: range of functionals with the Cauchy mean value property.
2. `bounds_*`, `BlockVec`, `blockVec_bounds`, `gpava_contract`, `runBounds_*`, `blockVec_runBounds`,
   `BlockVec.mirror`, `BlockVec.unique`: the block index vector.
3. `gpava_sorted_fixed`, `gpava_idempotent`, `gpava_idempotent_bounds`,
   `quantileFit_sorted_fixed`, `quantileFit_idempotent`.
4. `gpava_map` (transport along a strictly increasing map of the values), the functionals under
   positive affine maps / weight rescaling, `fit_affine_mean`, `fit_affine_expectile`,
   `fit_affine_quantile`, `fit_weight_scale_mean`, `fit_weight_scale_expectile`.
5. `eq_isoReg` (normal form of `isoReg`: decision table `eqValidate`, fit `eqFit` on the oriented
   data, orientation of the output), `eqValidate_ok`, and the properties for `isoReg`:
   `isoReg_length`, `isoReg_range`, `isoReg_blockVec`, `isoReg_monotone_fixed`,
   `isoReg_idempotent`, `isoReg_reverse`, `isoReg_affine`, `isoReg_weight_scale`. -/

set_option linter.unusedSectionVars false

namespace MD

/-! ## 1. Range -/

section General
variable {K : Type} [LinearOrder K] {ok : Obs K → Prop} {T : List (Obs K) → K}

/-- a functional with the Cauchy mean value property lies between two data values -/
theorem internal_between (hT : Internal ok T) (d : List (Obs K)) (hne : d ≠ [])
    (hok : ∀ o ∈ d, ok o) : (∃ o ∈ d, o.1 ≤ T d) ∧ (∃ o ∈ d, T d ≤ o.1) := by
  induction d with
  | nil => exact absurd rfl hne
  | cons p d ih =>
    have hp := hT.single p (hok p (by simp))
    by_cases hd : d = []
    · subst hd
      rw [hp]
      exact ⟨⟨p, by simp, le_rfl⟩, ⟨p, by simp, le_rfl⟩⟩
    · have hokd : ∀ o ∈ d, ok o := fun o ho => hok o (by simp [ho])
      obtain ⟨⟨a, ha, hal⟩, ⟨b, hb, hbl⟩⟩ := ih hd hokd
      have hokp : ∀ o ∈ [p], ok o := by simpa using hok p (by simp)
      have hlo := hT.lo [p] d (by simp) hd hokp hokd
      have hhi := hT.hi [p] d (by simp) hd hokp hokd
      rw [hp] at hlo hhi
      simp only [List.singleton_append] at hlo hhi
      rcases le_total p.1 (T d) with h | h
      · rw [min_eq_left h] at hlo
        rw [max_eq_right h] at hhi
        exact ⟨⟨p, by simp, hlo⟩, ⟨b, by simp [hb], le_trans hhi hbl⟩⟩
      · rw [min_eq_right h] at hlo
        rw [max_eq_left h] at hhi
        exact ⟨⟨a, by simp [ha], le_trans hal hlo⟩, ⟨p, by simp, hhi⟩⟩

/-- every fitted value lies between two data values -/
theorem gpava_range (hT : Internal ok T) (ys : List (Obs K)) (hys : ∀ o ∈ ys, ok o) :
    ∀ v ∈ expand (gpava T ys), (∃ o ∈ ys, o.1 ≤ v) ∧ (∃ o ∈ ys, v ≤ o.1) := by
  obtain ⟨hg, _, hflat⟩ := gpava_spec hT ys hys
  intro v hv
  obtain ⟨b, hb, rfl⟩ := mem_expand hv
  have hgb := hg b hb
  have hsub : ∀ o ∈ b.data, o ∈ ys := by
    intro o ho
    rw [← hflat]
    exact List.mem_flatMap.mpr ⟨b, hb, ho⟩
  obtain ⟨⟨o1, ho1, h1⟩, ⟨o2, ho2, h2⟩⟩ := internal_between hT b.data hgb.ne hgb.allok
  rw [hgb.val]
  exact ⟨⟨o1, hsub o1 ho1, h1⟩, ⟨o2, hsub o2 ho2, h2⟩⟩

end General

/-! ## 2. Block index vectors -/

section Bounds
variable {K : Type}

/-- the running block ends, starting from offset `n` -/
def boundsFrom (n : Nat) : List (Blk K) → List Nat
  | [] => []
  | b :: bs => (n + b.data.length) :: boundsFrom (n + b.data.length) bs

theorem bounds_foldl (bs : List (Blk K)) (acc : List Nat) (n : Nat) :
    (bs.foldl (fun (acc : List Nat × Nat) b =>
      (acc.1 ++ [acc.2 + b.data.length], acc.2 + b.data.length)) (acc, n)).1
      = acc ++ boundsFrom n bs := by
  induction bs generalizing acc n with
  | nil => simp [boundsFrom]
  | cons b bs ih => simp only [List.foldl_cons, ih, boundsFrom, List.append_assoc, List.singleton_append]

theorem boundsFrom_shift (n k : Nat) (bs : List (Blk K)) :
    boundsFrom (n + k) bs = (boundsFrom n bs).map (· + k) := by
  induction bs generalizing n with
  | nil => simp [boundsFrom]
  | cons b bs ih =>
    simp only [boundsFrom, List.map_cons]
    rw [show n + k + b.data.length = n + b.data.length + k by omega, ih]

theorem bounds_eq (bs : List (Blk K)) : bounds bs = 0 :: boundsFrom 0 bs := by
  unfold bounds
  rw [bounds_foldl]
  rfl

@[simp] theorem bounds_nil : bounds ([] : List (Blk K)) = [0] := rfl

theorem bounds_cons (b : Blk K) (bs : List (Blk K)) :
    bounds (b :: bs) = 0 :: (bounds bs).map (· + b.data.length) := by
  rw [bounds_eq, bounds_eq, boundsFrom]
  have := boundsFrom_shift 0 b.data.length bs
  simp only [Nat.zero_add] at this
  simp [this]

theorem bounds_head (bs : List (Blk K)) : (bounds bs).head? = some 0 := by
  rw [bounds_eq]; rfl

theorem bounds_length (bs : List (Blk K)) : (bounds bs).length = bs.length + 1 := by
  induction bs with
  | nil => rfl
  | cons b bs ih => rw [bounds_cons]; simp [ih]

theorem bounds_last (bs : List (Blk K)) :
    (bounds bs).getLast? = some (bs.flatMap (·.data)).length := by
  induction bs with
  | nil => rfl
  | cons b bs ih =>
    rw [bounds_cons, List.getLast?_cons, List.getLast?_map, ih]
    simp only [Option.map_some, Option.getD_some, List.flatMap_cons, List.length_append]
    rw [Nat.add_comm]

theorem zipWith_sub_shift (k : Nat) (t u : List Nat) :
    List.zipWith (· - ·) (t.map (· + k)) (u.map (· + k)) = List.zipWith (· - ·) t u := by
  induction t generalizing u with
  | nil => simp
  | cons x t iht =>
    cases u with
    | nil => simp
    | cons y u =>
      simp only [List.map_cons, List.zipWith_cons_cons, iht]
      congr 1
      omega

/-- consecutive entries differ by the block lengths -/
theorem bounds_diff (bs : List (Blk K)) :
    List.zipWith (· - ·) (bounds bs).tail (bounds bs) = bs.map (·.data.length) := by
  induction bs with
  | nil => rfl
  | cons b bs ih =>
    obtain ⟨t, ht⟩ : ∃ t, bounds bs = 0 :: t := ⟨_, bounds_eq bs⟩
    rw [bounds_cons]
    rw [ht] at ih ⊢
    simp only [List.tail_cons] at ih
    simp only [List.tail_cons, List.map_cons, List.zipWith_cons_cons, Nat.zero_add, Nat.sub_zero]
    congr 1
    rw [← ih, ← zipWith_sub_shift b.data.length t (0 :: t)]
    simp

theorem bounds_mem_le (bs : List (Blk K)) :
    ∀ i ∈ bounds bs, i ≤ (bs.flatMap (·.data)).length := by
  induction bs with
  | nil => simp
  | cons b bs ih =>
    intro i hi
    rw [bounds_cons] at hi
    simp only [List.flatMap_cons, List.length_append]
    rcases List.mem_cons.mp hi with rfl | hi
    · omega
    · obtain ⟨j, hj, rfl⟩ := List.mem_map.mp hi
      have := ih j hj
      omega

theorem bounds_strict (bs : List (Blk K)) (hne : ∀ b ∈ bs, b.data ≠ []) :
    (bounds bs).Pairwise (· < ·) := by
  induction bs with
  | nil => simp
  | cons b bs ih =>
    rw [bounds_cons, List.pairwise_cons]
    have hb : 0 < b.data.length := List.length_pos_iff.mpr (hne b (by simp))
    constructor
    · intro i hi
      obtain ⟨j, _, rfl⟩ := List.mem_map.mp hi
      omega
    · rw [List.pairwise_map]
      exact (ih (fun b' hb' => hne b' (by simp [hb']))).imp (fun h => by omega)

theorem expand_eq_flatten (bs : List (Blk K)) :
    expand bs = (bs.map fun b => List.replicate b.data.length b.val).flatten := by
  simp [expand, List.flatMap]

/-- `r` is the block index vector of the sequence `x`: it starts at `0`, ends at `x.length`, is
strictly increasing, and its interior entries are exactly the positions where `x` changes its
value (so `x` is constant inside a block and differs between adjacent blocks). -/
structure BlockVec {K : Type} (x : List K) (r : List Nat) : Prop where
  head : r.head? = some 0
  last : r.getLast? = some x.length
  strict : r.Pairwise (· < ·)
  change : ∀ i, i + 1 < x.length → (i + 1 ∈ r ↔ x[i]? ≠ x[i + 1]?)

theorem expand_cons' (b : Blk K) (bs : List (Blk K)) :
    expand (b :: bs) = List.replicate b.data.length b.val ++ expand bs := by simp [expand]

theorem expand_head_of_ne (b : Blk K) (bs : List (Blk K)) (hb : b.data ≠ []) :
    (expand (b :: bs))[0]? = some b.val := by
  have : 0 < b.data.length := List.length_pos_iff.mpr hb
  rw [expand_cons', List.getElem?_append_left (by simpa using this), List.getElem?_replicate,
    if_pos this]

/-- interior entries of `bounds` are exactly the change points of the expanded sequence -/
theorem bounds_change (bs : List (Blk K)) (hne : ∀ b ∈ bs, b.data ≠ [])
    (hpw : bs.Pairwise (fun a b => a.val ≠ b.val)) :
    ∀ i, i + 1 < (expand bs).length → (i + 1 ∈ bounds bs ↔ (expand bs)[i]? ≠ (expand bs)[i + 1]?) := by
  induction bs with
  | nil => intro i hi; simp [expand] at hi
  | cons b bs ih =>
    intro i hi
    have hm : 0 < b.data.length := List.length_pos_iff.mpr (hne b (by simp))
    have hne' : ∀ b' ∈ bs, b'.data ≠ [] := fun b' hb' => hne b' (by simp [hb'])
    obtain ⟨hpw1, hpw2⟩ := List.pairwise_cons.mp hpw
    rw [expand_cons', List.length_append, List.length_replicate] at hi
    rw [expand_cons', bounds_cons]
    have hmem : i + 1 ∈ 0 :: (bounds bs).map (· + b.data.length)
        ↔ ∃ j ∈ bounds bs, j + b.data.length = i + 1 := by
      simp
    rw [hmem]
    rcases Nat.lt_trichotomy (i + 1) b.data.length with hlt | heq | hgt
    · rw [List.getElem?_append_left (by simpa using (by omega : i < b.data.length)),
        List.getElem?_append_left (by simpa using hlt), List.getElem?_replicate,
        List.getElem?_replicate, if_pos (by omega), if_pos hlt]
      constructor
      · rintro ⟨j, _, hj⟩; omega
      · intro h; exact absurd rfl h
    · rw [List.getElem?_append_left (by simpa using (by omega : i < b.data.length)),
        List.getElem?_append_right (by simp; omega), List.getElem?_replicate, if_pos (by omega)]
      simp only [List.length_replicate]
      rw [show i + 1 - b.data.length = 0 by omega]
      cases bs with
      | nil => simp [expand] at hi; omega
      | cons b' bs' =>
        rw [expand_head_of_ne b' bs' (hne' b' (by simp))]
        constructor
        · intro _ h
          exact hpw1 b' (by simp) (Option.some.inj h)
        · intro _
          refine ⟨0, ?_, by omega⟩
          rw [bounds_eq]; simp
    · rw [List.getElem?_append_right (by simp; omega),
        List.getElem?_append_right (by simp; omega)]
      simp only [List.length_replicate]
      have e : i + 1 - b.data.length = (i - b.data.length) + 1 := by omega
      rw [e, ← ih hne' hpw2 (i - b.data.length) (by omega)]
      constructor
      · rintro ⟨j, hj, hj'⟩
        have : j = i - b.data.length + 1 := by omega
        rw [← this]; exact hj
      · intro h
        exact ⟨_, h, by omega⟩

/-- the block vector of a list of non-empty blocks whose neighbours carry different values -/
theorem blockVec_bounds (bs : List (Blk K)) (hne : ∀ b ∈ bs, b.data ≠ [])
    (hpw : bs.Pairwise (fun a b => a.val ≠ b.val)) : BlockVec (expand bs) (bounds bs) :=
  ⟨bounds_head bs, by rw [bounds_last, expand_length_flat], bounds_strict bs hne,
    bounds_change bs hne hpw⟩

end Bounds

/-! ### `runBounds` -/

section RunBounds
variable {K : Type} [LinearOrder K]

theorem go_nil (i : Nat) : runBounds.go i ([] : List K) = [] := by simp [runBounds.go]
theorem go_single (i : Nat) (a : K) : runBounds.go i [a] = [] := by simp [runBounds.go]
theorem go_cons_cons (i : Nat) (a b : K) (t : List K) :
    runBounds.go i (a :: b :: t)
      = if a = b then runBounds.go (i + 1) (b :: t) else (i + 1) :: runBounds.go (i + 1) (b :: t) := by
  rw [runBounds.go]
  by_cases h : a = b
  · subst h; simp
  · have : ¬ (a ≤ b ∧ b ≤ a) := fun h' => h (le_antisymm h'.1 h'.2)
    rw [if_neg h, if_neg this]

theorem go_bound (i : Nat) (x : List K) : ∀ k ∈ runBounds.go i x, i < k ∧ k < i + x.length := by
  induction x generalizing i with
  | nil => simp [go_nil]
  | cons a x ih =>
    cases x with
    | nil => simp [go_single]
    | cons b t =>
      intro k hk
      rw [go_cons_cons] at hk
      have ih' := ih (i + 1)
      simp only [List.length_cons] at ih' ⊢
      split at hk
      · have := ih' k hk; omega
      · rcases List.mem_cons.mp hk with rfl | hk
        · omega
        · have := ih' k hk; omega

theorem go_strict (i : Nat) (x : List K) : (runBounds.go i x).Pairwise (· < ·) := by
  induction x generalizing i with
  | nil => simp [go_nil]
  | cons a x ih =>
    cases x with
    | nil => simp [go_single]
    | cons b t =>
      rw [go_cons_cons]
      split
      · exact ih (i + 1)
      · refine List.pairwise_cons.mpr ⟨?_, ih (i + 1)⟩
        intro k hk
        exact (go_bound (i + 1) _ k hk).1

theorem go_mem (i : Nat) (x : List K) :
    ∀ j, j + 1 < x.length → (i + j + 1 ∈ runBounds.go i x ↔ x[j]? ≠ x[j + 1]?) := by
  induction x generalizing i with
  | nil => intro j hj; simp at hj
  | cons a x ih =>
    cases x with
    | nil => intro j hj; simp at hj
    | cons b t =>
      intro j hj
      rw [go_cons_cons]
      cases j with
      | zero =>
        simp only [List.getElem?_cons_zero, List.getElem?_cons_succ, Nat.add_zero]
        by_cases h : a = b
        · rw [if_pos h]
          constructor
          · intro hk
            have := (go_bound (i + 1) _ _ hk).1
            omega
          · intro h'; exact absurd (by rw [h]) h'
        · rw [if_neg h]
          constructor
          · intro _ h'; exact h (Option.some.inj h')
          · intro _; simp
      | succ j' =>
        have hj' : j' + 1 < (b :: t).length := by simpa using hj
        have ih' := ih (i + 1) j' hj'
        simp only [List.getElem?_cons_succ]
        rw [show i + (j' + 1) + 1 = i + 1 + j' + 1 by omega]
        split
        · exact ih'
        · rw [List.mem_cons]
          constructor
          · rintro (h | h)
            · omega
            · exact ih'.mp h
          · intro h; exact Or.inr (ih'.mpr h)

theorem runBounds_eq (x : List K) : runBounds x = 0 :: (runBounds.go 0 x ++ [x.length]) := rfl

theorem runBounds_head (x : List K) : (runBounds x).head? = some 0 := rfl

theorem runBounds_last (x : List K) : (runBounds x).getLast? = some x.length := by
  rw [runBounds_eq, ← List.cons_append, List.getLast?_append]
  simp

theorem runBounds_strict (x : List K) (hx : x ≠ []) : (runBounds x).Pairwise (· < ·) := by
  have hpos : 0 < x.length := List.length_pos_iff.mpr hx
  rw [runBounds_eq, List.pairwise_cons]
  constructor
  · intro k hk
    rcases List.mem_append.mp hk with hk | hk
    · exact (go_bound 0 x k hk).1
    · simp only [List.mem_singleton] at hk; omega
  · rw [List.pairwise_append]
    refine ⟨go_strict 0 x, by simp, ?_⟩
    intro k hk m hm
    simp only [List.mem_singleton] at hm
    have := (go_bound 0 x k hk).2
    omega

/-- the value-change characterisation of `runBounds` -/
theorem runBounds_change (x : List K) :
    ∀ i, i + 1 < x.length → (i + 1 ∈ runBounds x ↔ x[i]? ≠ x[i + 1]?) := by
  intro i hi
  have hg := go_mem 0 x i hi
  rw [Nat.zero_add] at hg
  rw [← hg, runBounds_eq, List.mem_cons, List.mem_append, List.mem_singleton]
  constructor
  · rintro (h | h | h)
    · omega
    · exact h
    · omega
  · intro h; exact Or.inr (Or.inl h)

theorem blockVec_runBounds (x : List K) (hx : x ≠ []) : BlockVec x (runBounds x) :=
  ⟨runBounds_head x, runBounds_last x, runBounds_strict x hx, runBounds_change x⟩

end RunBounds

/-! ### Mirroring a block vector -/

section Mirror
variable {K : Type}

theorem BlockVec.le {x : List K} {r : List Nat} (h : BlockVec x r) : ∀ b ∈ r, b ≤ x.length := by
  have h1 : r.reverse.head? = some x.length := by rw [List.head?_reverse]; exact h.last
  obtain ⟨t, ht⟩ := List.head?_eq_some_iff.mp h1
  have h2 : r.reverse.Pairwise (· > ·) := List.pairwise_reverse.mpr h.strict
  rw [ht] at h2
  intro b hb
  have : b ∈ r.reverse := List.mem_reverse.mpr hb
  rw [ht] at this
  rcases List.mem_cons.mp this with rfl | hb'
  · exact le_rfl
  · exact ((List.pairwise_cons.mp h2).1 b hb').le

/-- the block vector of the reversed sequence -/
theorem BlockVec.mirror {x : List K} {r : List Nat} (h : BlockVec x r) :
    BlockVec x.reverse (r.reverse.map (fun i => x.length - i)) := by
  have hle := h.le
  refine ⟨?_, ?_, ?_, ?_⟩
  · rw [List.head?_map, List.head?_reverse, h.last]; simp
  · rw [List.getLast?_map, List.getLast?_reverse, h.head]; simp
  · rw [List.pairwise_map, List.pairwise_reverse]
    refine h.strict.imp_of_mem ?_
    intro a b ha hb hab
    have := hle a ha
    have := hle b hb
    omega
  · intro i hi
    rw [List.length_reverse] at hi
    rw [List.getElem?_reverse (by omega), List.getElem?_reverse (by omega)]
    have hc := h.change (x.length - 1 - (i + 1)) (by omega)
    rw [show x.length - 1 - (i + 1) + 1 = x.length - 1 - i by omega] at hc
    rw [ne_comm, ← hc]
    simp only [List.mem_map, List.mem_reverse]
    constructor
    · rintro ⟨b, hb, hb'⟩
      have := hle b hb
      have : b = x.length - 1 - i := by omega
      rw [← this]; exact hb
    · intro hb
      exact ⟨_, hb, by omega⟩

/-- mirroring twice gives the block vector back -/
theorem mirror_mirror (n : Nat) (r : List Nat) (hle : ∀ b ∈ r, b ≤ n) :
    ((r.reverse.map (fun i => n - i)).reverse.map (fun i => n - i)) = r := by
  rw [← List.map_reverse, List.reverse_reverse, List.map_map]
  conv_rhs => rw [← List.map_id r]
  apply List.map_congr_left
  intro b hb
  have := hle b hb
  simp only [Function.comp, id]
  omega

/-- a sequence has only one block vector -/
theorem BlockVec.unique {x : List K} {r r' : List Nat} (h : BlockVec x r) (h' : BlockVec x r') :
    r = r' := by
  have key : ∀ {s s' : List Nat}, BlockVec x s → BlockVec x s' → ∀ b ∈ s, b ∈ s' := by
    intro s s' hs hs' b hb
    have hle := hs.le b hb
    by_cases h0 : b = 0
    · subst h0
      obtain ⟨t, ht⟩ := List.head?_eq_some_iff.mp hs'.head
      rw [ht]; simp
    by_cases hn : b = x.length
    · subst hn
      exact List.mem_of_getLast? hs'.last
    · have hb1 : b - 1 + 1 = b := by omega
      have hlt : b - 1 + 1 < x.length := by omega
      have := (hs.change (b - 1) hlt).mp (by rw [hb1]; exact hb)
      have := (hs'.change (b - 1) hlt).mpr this
      rwa [hb1] at this
  exact h.strict.eq_of_mem_iff h'.strict (fun b => ⟨key h h' b, key h' h b⟩)

/-- the sequence is constant inside a block: no boundary in `(i, j]` means equal values -/
theorem BlockVec.const {x : List K} {r : List Nat} (h : BlockVec x r) (i j : Nat) (hij : i ≤ j)
    (hj : j < x.length) (hno : ∀ b ∈ r, b ≤ i ∨ j < b) : x[i]? = x[j]? := by
  induction j with
  | zero =>
    have : i = 0 := by omega
    rw [this]
  | succ j ih =>
    by_cases he : i = j + 1
    · rw [he]
    · have h1 : x[i]? = x[j]? := ih (by omega) (by omega) (fun b hb => by
        rcases hno b hb with h' | h'
        · exact Or.inl h'
        · exact Or.inr (by omega))
      have h2 : ¬ (j + 1 ∈ r) := by
        intro hb
        rcases hno (j + 1) hb with h' | h' <;> omega
      have h3 : x[j]? = x[j + 1]? := by
        by_contra hcon
        exact h2 ((h.change j hj).mpr hcon)
      rw [h1, h3]

/-- adjacent blocks carry different values: the sequence changes across every interior boundary -/
theorem BlockVec.differ {x : List K} {r : List Nat} (h : BlockVec x r) (b : Nat) (hb : b ∈ r)
    (h0 : 0 < b) (hn : b < x.length) : x[b - 1]? ≠ x[b]? := by
  have := (h.change (b - 1) (by omega)).mp (by rw [show b - 1 + 1 = b by omega]; exact hb)
  rwa [show b - 1 + 1 = b by omega] at this

end Mirror

/-! ## 2c. The output contract of `gpava` -/

section Contract
variable {K : Type} [LinearOrder K] {ok : Obs K → Prop} {T : List (Obs K) → K}

/-- output contract of the generalised PAVA: length, block vector (starts at 0, ends at `n`,
strictly increasing, interior entries = change points of the fit), block lengths, block-wise
constant fit -/
theorem gpava_contract (hT : Internal ok T) (ys : List (Obs K)) (hys : ∀ o ∈ ys, ok o) :
    (expand (gpava T ys)).length = ys.length ∧
    BlockVec (expand (gpava T ys)) (bounds (gpava T ys)) ∧
    (bounds (gpava T ys)).length = (gpava T ys).length + 1 ∧
    List.zipWith (· - ·) (bounds (gpava T ys)).tail (bounds (gpava T ys))
      = (gpava T ys).map (·.data.length) ∧
    expand (gpava T ys)
      = ((gpava T ys).map fun b => List.replicate b.data.length b.val).flatten := by
  obtain ⟨hg, hpw, hflat⟩ := gpava_spec hT ys hys
  refine ⟨expand_length hT ys hys, ?_, bounds_length _, bounds_diff _, expand_eq_flatten _⟩
  exact blockVec_bounds _ (fun b hb => (hg b hb).ne) (hpw.imp (fun h => ne_of_lt h))

/-! ## 3. Monotone input is a fixed point; idempotence -/

/-- on a block whose data are non-decreasing all data values equal the block value -/
theorem good_sorted_const (hT : Internal ok T) {b : Blk K} (hb : Good ok T b)
    (hs : (b.data.map (·.1)).Pairwise (· ≤ ·)) : ∀ o ∈ b.data, o.1 = b.val := by
  rw [List.pairwise_map] at hs
  have hlow : ∀ o ∈ b.data, b.val ≤ o.1 := by
    cases hd : b.data with
    | nil => exact absurd hd hb.ne
    | cons p rest =>
      rw [hd] at hs
      have h1 := hb.pre [p] rest (by simp) (by rw [hd]; rfl)
      rw [hT.single p (hb.allok p (by rw [hd]; simp))] at h1
      intro o ho
      rcases List.mem_cons.mp ho with rfl | ho
      · exact h1
      · exact le_trans h1 ((List.pairwise_cons.mp hs).1 o ho)
  have hupp : ∀ o ∈ b.data, o.1 ≤ b.val := by
    rcases List.eq_nil_or_concat b.data with hd | ⟨init, p, hd⟩
    · exact absurd hd hb.ne
    · rw [List.concat_eq_append] at hd
      rw [hd] at hs
      have h1 := hb.suf init [p] (by simp) hd
      rw [hT.single p (hb.allok p (by rw [hd]; simp))] at h1
      intro o ho
      rw [hd] at ho
      rcases List.mem_append.mp ho with ho | ho
      · exact le_trans ((List.pairwise_append.mp hs).2.2 o ho p (by simp)) h1
      · simp only [List.mem_singleton] at ho; subst ho; exact h1
  intro o ho
  exact le_antisymm (hupp o ho) (hlow o ho)

omit [LinearOrder K] in
theorem expand_of_const (bs : List (Blk K)) (h : ∀ b ∈ bs, ∀ o ∈ b.data, o.1 = b.val) :
    expand bs = (bs.flatMap (·.data)).map (·.1) := by
  induction bs with
  | nil => simp [expand]
  | cons b bs ih =>
    rw [expand_cons', List.flatMap_cons, List.map_append, ih (fun b' hb' => h b' (by simp [hb']))]
    congr 1
    symm
    rw [List.eq_replicate_iff]
    refine ⟨by simp, ?_⟩
    intro v hv
    obtain ⟨o, ho, rfl⟩ := List.mem_map.mp hv
    exact h b (by simp) o ho

theorem sorted_of_flatMap (bs : List (Blk K))
    (hs : ((bs.flatMap (·.data)).map (·.1)).Pairwise (· ≤ ·)) :
    ∀ b ∈ bs, (b.data.map (·.1)).Pairwise (· ≤ ·) := by
  induction bs with
  | nil => simp
  | cons b bs ih =>
    rw [List.flatMap_cons, List.map_append, List.pairwise_append] at hs
    intro b' hb'
    rcases List.mem_cons.mp hb' with rfl | hb'
    · exact hs.1
    · exact ih hs.2.1 b' hb'

/-- on non-decreasing data all blocks are constant -/
theorem gpava_sorted_blocks (hT : Internal ok T) (ys : List (Obs K)) (hys : ∀ o ∈ ys, ok o)
    (hs : (ys.map (·.1)).Pairwise (· ≤ ·)) : ∀ b ∈ gpava T ys, ∀ o ∈ b.data, o.1 = b.val := by
  obtain ⟨hg, _, hflat⟩ := gpava_spec hT ys hys
  rw [← hflat] at hs
  intro b hb
  exact good_sorted_const hT (hg b hb) (sorted_of_flatMap _ hs b hb)

/-- **already monotone input is left unchanged** -/
theorem gpava_sorted_fixed (hT : Internal ok T) (ys : List (Obs K)) (hys : ∀ o ∈ ys, ok o)
    (hs : (ys.map (·.1)).Pairwise (· ≤ ·)) : expand (gpava T ys) = ys.map (·.1) := by
  rw [expand_of_const _ (gpava_sorted_blocks hT ys hys hs), (gpava_spec hT ys hys).2.2]

omit [LinearOrder K] in
theorem map_fst_zip_snd (x : List K) (ys : List (Obs K)) (h : x.length = ys.length) :
    (List.zip x (ys.map (·.2))).map (·.1) = x := by
  rw [List.map_fst_zip]
  simp [h]

omit [LinearOrder K] in
theorem map_snd_zip_snd (x : List K) (ys : List (Obs K)) (h : x.length = ys.length) :
    (List.zip x (ys.map (·.2))).map (·.2) = ys.map (·.2) := by
  rw [List.map_snd_zip]
  simp [h]

omit [LinearOrder K] in
theorem ok_zip_snd (hokw : ∀ o o' : Obs K, o.2 = o'.2 → ok o → ok o') (x : List K)
    (ys : List (Obs K)) (hys : ∀ o ∈ ys, ok o) : ∀ o ∈ List.zip x (ys.map (·.2)), ok o := by
  intro o ho
  have h2 : o.2 ∈ ys.map (·.2) := (List.of_mem_zip ho).2
  obtain ⟨o', ho', he⟩ := List.mem_map.mp h2
  exact hokw o' o he (hys o' ho')

/-- **idempotence**: refitting the fitted values (with the same weights) returns them -/
theorem gpava_idempotent (hT : Internal ok T) (hokw : ∀ o o' : Obs K, o.2 = o'.2 → ok o → ok o')
    (ys : List (Obs K)) (hys : ∀ o ∈ ys, ok o) :
    expand (gpava T (List.zip (expand (gpava T ys)) (ys.map (·.2)))) = expand (gpava T ys) := by
  have hlen := expand_length hT ys hys
  have hfst := map_fst_zip_snd _ ys hlen
  rw [gpava_sorted_fixed hT _ (ok_zip_snd hokw _ ys hys), hfst]
  rw [hfst]
  exact expand_gpava_sorted hT ys hys

/-- idempotence, block vector: the refit has the same blocks -/
theorem gpava_idempotent_bounds (hT : Internal ok T)
    (hokw : ∀ o o' : Obs K, o.2 = o'.2 → ok o → ok o')
    (ys : List (Obs K)) (hys : ∀ o ∈ ys, ok o) :
    bounds (gpava T (List.zip (expand (gpava T ys)) (ys.map (·.2)))) = bounds (gpava T ys) := by
  have h1 := (gpava_contract hT _ (ok_zip_snd hokw (expand (gpava T ys)) ys hys)).2.1
  rw [gpava_idempotent hT hokw ys hys] at h1
  exact h1.unique (gpava_contract hT ys hys).2.1

end Contract

/-! ## 4. Transport of `gpava` along a strictly increasing map of the values -/

section Transport
variable {K : Type} [Field K] [LinearOrder K] [IsStrictOrderedRing K] {ok : Obs K → Prop}

/-- image of a block: data mapped by `g`, value mapped by `φ` -/
def mapBlk (g : Obs K → Obs K) (φ : K → K) (b : Blk K) : Blk K := ⟨b.data.map g, φ b.val⟩

variable {φ : K → K} {g : Obs K → Obs K} {T T' : List (Obs K) → K}

theorem absorb_map (hφ : StrictMono φ) (hg1 : ∀ o, (g o).1 = φ o.1)
    (hTT : ∀ S, S ≠ [] → (∀ o ∈ S, ok o) → T' (S.map g) = φ (T S))
    (cur : Blk K) (l : List (Obs K)) (hc : BlkOK ok cur) (hl : ∀ o ∈ l, ok o) :
    absorb T' (mapBlk g φ cur) (l.map g)
      = (mapBlk g φ (absorb T cur l).1, (absorb T cur l).2.map g) := by
  induction l generalizing cur with
  | nil => simp [absorb]
  | cons p rest ih =>
    have hp : ok p := hl p (by simp)
    have hnew : BlkOK ok ⟨cur.data ++ [p], T (cur.data ++ [p])⟩ :=
      ⟨by simp, ok_append hc.2 (by simpa using hp)⟩
    have hT : T' ((cur.data ++ [p]).map g) = φ (T (cur.data ++ [p])) := hTT _ (by simp) hnew.2
    have hcmp : (g p).1 ≤ (mapBlk g φ cur).val ↔ p.1 ≤ cur.val := by
      rw [hg1]; exact hφ.le_iff_le
    rw [List.map_cons]
    by_cases hle : p.1 ≤ cur.val
    · have hle' := hcmp.mpr hle
      simp only [absorb, if_pos hle, if_pos hle']
      rw [← ih _ hnew (fun o ho => hl o (by simp [ho]))]
      congr 1
      simp only [mapBlk, List.map_append, List.map_cons, List.map_nil] at hT ⊢
      rw [hT]
    · have hle' : ¬ (g p).1 ≤ (mapBlk g φ cur).val := fun h => hle (hcmp.mp h)
      simp only [absorb, if_neg hle, if_neg hle', List.map_cons]

theorem mergeBack_map (hφ : StrictMono φ)
    (hTT : ∀ S, S ≠ [] → (∀ o ∈ S, ok o) → T' (S.map g) = φ (T S))
    (cur : Blk K) (st : List (Blk K)) (hc : BlkOK ok cur) (hs : ∀ b ∈ st, BlkOK ok b) :
    mergeBack T' (mapBlk g φ cur) (st.map (mapBlk g φ))
      = (mapBlk g φ (mergeBack T cur st).1, (mergeBack T cur st).2.map (mapBlk g φ)) := by
  induction st generalizing cur with
  | nil => simp [mergeBack]
  | cons top st ih =>
    have htop : BlkOK ok top := hs top (by simp)
    have hnew : BlkOK ok ⟨top.data ++ cur.data, T (top.data ++ cur.data)⟩ :=
      ⟨by simp [htop.1], ok_append htop.2 hc.2⟩
    have hT : T' ((top.data ++ cur.data).map g) = φ (T (top.data ++ cur.data)) :=
      hTT _ (by simp [htop.1]) hnew.2
    have hcmp : (mapBlk g φ cur).val ≤ (mapBlk g φ top).val ↔ cur.val ≤ top.val := hφ.le_iff_le
    rw [List.map_cons]
    by_cases hle : cur.val ≤ top.val
    · have hle' := hcmp.mpr hle
      simp only [mergeBack, if_pos hle, if_pos hle']
      rw [← ih _ hnew (fun b hb => hs b (by simp [hb]))]
      congr 1
      simp only [mapBlk, List.map_append] at hT ⊢
      rw [hT]
    · have hle' : ¬ (mapBlk g φ cur).val ≤ (mapBlk g φ top).val := fun h => hle (hcmp.mp h)
      simp only [mergeBack, if_neg hle, if_neg hle', List.map_cons]

theorem loop_map (hφ : StrictMono φ) (hg1 : ∀ o, (g o).1 = φ o.1)
    (hTT : ∀ S, S ≠ [] → (∀ o ∈ S, ok o) → T' (S.map g) = φ (T S))
    (st : List (Blk K)) (rest : List (Obs K)) (hs : ∀ b ∈ st, BlkOK ok b)
    (hr : ∀ o ∈ rest, ok o) :
    loop T' (st.map (mapBlk g φ)) (rest.map g) = (loop T st rest).map (mapBlk g φ) := by
  have hsingle : ∀ p : Obs K, (⟨[g p], (g p).1⟩ : Blk K) = mapBlk g φ ⟨[p], p.1⟩ := by
    intro p; simp [mapBlk, hg1]
  have hid : ∀ S, S ≠ [] → (∀ o ∈ S, ok o) → T S = T S := fun _ _ _ => rfl
  fun_induction loop T st rest with
  | case1 st => simp [loop]
  | case2 p rest' ih =>
    have hp : ok p := hr p (by simp)
    have hb1 : ∀ b ∈ [(⟨[p], p.1⟩ : Blk K)], BlkOK ok b := by
      intro b hb
      rw [List.mem_singleton] at hb
      subst hb
      exact blkOK_single hp
    rw [← ih hb1 (fun o ho => hr o (by simp [ho]))]
    simp only [List.map_nil, List.map_cons]
    rw [loop, hsingle]
  | case3 p rest' top st hle r1 r2 hlt ih =>
    have hp : ok p := hr p (by simp)
    have htop : BlkOK ok top := hs top (by simp)
    have hnew : BlkOK ok ⟨top.data ++ [p], T (top.data ++ [p])⟩ :=
      ⟨by simp, ok_append htop.2 (by simpa using hp)⟩
    have hT : T' ((top.data ++ [p]).map g) = φ (T (top.data ++ [p])) := hTT _ (by simp) hnew.2
    have hrest : ∀ o ∈ rest', ok o := fun o ho => hr o (by simp [ho])
    have hst : ∀ b ∈ st, BlkOK ok b := fun b hb => hs b (by simp [hb])
    obtain ⟨_, a2, a3⟩ := absorb_congr hid _ rest' hnew hrest
    obtain ⟨_, m2, m3⟩ := mergeBack_congr hid r1.1 st a2 hst
    have hih := ih (by
      intro b hb
      rcases List.mem_cons.mp hb with rfl | hb
      · exact m2
      · exact m3 b hb) a3
    rw [← hih]
    have hle' : (g p).1 ≤ (mapBlk g φ top).val := by
      rw [hg1]; exact hφ.le_iff_le.mpr hle
    have e0 : (⟨(mapBlk g φ top).data ++ [g p], T' ((mapBlk g φ top).data ++ [g p])⟩ : Blk K)
        = mapBlk g φ ⟨top.data ++ [p], T (top.data ++ [p])⟩ := by
      simp only [mapBlk, List.map_append, List.map_cons, List.map_nil] at hT ⊢
      rw [hT]
    simp only [List.map_cons]
    rw [loop, if_pos hle']
    simp only []
    rw [e0, absorb_map hφ hg1 hTT _ rest' hnew hrest]
    simp only []
    rw [mergeBack_map hφ hTT r1.1 st a2 hst]
  | case4 p rest' top st hnle ih =>
    have hp : ok p := hr p (by simp)
    have hnle' : ¬ (g p).1 ≤ (mapBlk g φ top).val := by
      rw [hg1]; exact fun h => hnle (hφ.le_iff_le.mp h)
    have hnew : ∀ b ∈ (⟨[p], p.1⟩ : Blk K) :: top :: st, BlkOK ok b := by
      intro b hb
      rcases List.mem_cons.mp hb with rfl | hb
      · exact blkOK_single hp
      · exact hs b hb
    rw [← ih hnew (fun o ho => hr o (by simp [ho]))]
    simp only [List.map_cons]
    rw [loop, if_neg hnle', hsingle]

/-- **transport lemma**: if `T'` on the mapped data is `φ ∘ T` for a strictly increasing `φ`, the
generalised PAVA on the mapped data has the same blocks, with values mapped by `φ` -/
theorem gpava_map (φ : K → K) (hφ : StrictMono φ) (g : Obs K → Obs K)
    (hg1 : ∀ o, (g o).1 = φ o.1) (T T' : List (Obs K) → K)
    (hTT : ∀ S, S ≠ [] → (∀ o ∈ S, ok o) → T' (S.map g) = φ (T S))
    (ys : List (Obs K)) (hys : ∀ o ∈ ys, ok o) :
    gpava T' (ys.map g) = (gpava T ys).map (fun b => ⟨b.data.map g, φ b.val⟩) := by
  have h := loop_map hφ hg1 hTT [] ys (by simp) hys
  simp only [List.map_nil] at h
  unfold gpava
  rw [h, List.map_reverse]
  rfl


theorem expand_mapBlk (g : Obs K → Obs K) (φ : K → K) (bs : List (Blk K)) :
    expand (bs.map (fun b => (⟨b.data.map g, φ b.val⟩ : Blk K))) = (expand bs).map φ := by
  induction bs with
  | nil => simp [expand]
  | cons b bs ih =>
    simp only [List.map_cons]
    rw [expand_cons, expand_cons, ih]
    simp


theorem bounds_mapBlk (g : Obs K → Obs K) (φ : K → K) (bs : List (Blk K)) :
    bounds (bs.map (fun b => (⟨b.data.map g, φ b.val⟩ : Blk K))) = bounds bs := by
  unfold bounds
  rw [List.foldl_map]
  simp

end Transport

/-! ## 4b. How the functionals transform -/

section Instances
variable {K : Type} [Field K] [LinearOrder K] [IsStrictOrderedRing K]

theorem affine_strictMono (a b : K) (ha : 0 < a) : StrictMono (fun v : K => a * v + b) := by
  intro u v h
  have := mul_lt_mul_of_pos_left h ha
  simp only
  linarith

theorem affine_le_iff (a b : K) (ha : 0 < a) (u v : K) : a * u + b ≤ a * v + b ↔ u ≤ v :=
  (affine_strictMono a b ha).le_iff_le

/-! ### weighted mean -/

theorem wsum_map_affine (a b : K) (S : List (Obs K)) :
    wsum (S.map fun o => (a * o.1 + b, o.2)) = wsum S := by
  simp [wsum, Function.comp_def]

theorem wysum_map_affine (a b : K) (S : List (Obs K)) :
    wysum (S.map fun o => (a * o.1 + b, o.2)) = a * wysum S + b * wsum S := by
  induction S with
  | nil => simp [wysum, wsum]
  | cons o S ih =>
    simp only [List.map_cons, wysum_cons, wsum_cons, ih]
    ring

theorem wmean_affine (a b : K) (S : List (Obs K)) (hne : S ≠ []) (hpos : ∀ o ∈ S, 0 < o.2) :
    wmean (S.map fun o => (a * o.1 + b, o.2)) = a * wmean S + b := by
  have hW := wsum_pos hne hpos
  unfold wmean
  rw [wsum_map_affine, wysum_map_affine]
  field_simp

theorem wsum_map_scale (c : K) (S : List (Obs K)) :
    wsum (S.map fun o => (o.1, c * o.2)) = c * wsum S := by
  induction S with
  | nil => simp [wsum]
  | cons o S ih => simp only [List.map_cons, wsum_cons, ih]; ring

theorem wysum_map_scale (c : K) (S : List (Obs K)) :
    wysum (S.map fun o => (o.1, c * o.2)) = c * wysum S := by
  induction S with
  | nil => simp [wysum]
  | cons o S ih => simp only [List.map_cons, wysum_cons, ih]; ring

theorem wmean_scale (c : K) (hc : 0 < c) (S : List (Obs K)) :
    wmean (S.map fun o => (o.1, c * o.2)) = wmean S := by
  unfold wmean
  rw [wsum_map_scale, wysum_map_scale, mul_div_mul_left _ _ hc.ne']

/-! ### expectile -/

theorem eSum_map_affine (α a b : K) (ha : 0 < a) (S : List (Obs K)) (u : K) :
    eSum α (S.map fun o => (a * o.1 + b, o.2)) (a * u + b) = a * eSum α S u := by
  induction S with
  | nil => simp [eSum]
  | cons o S ih =>
    rw [List.map_cons, eSum_cons, eSum_cons, ih]
    have hw : eWeight α (a * u + b) (a * o.1 + b, o.2) = eWeight α u o := by
      unfold eWeight
      simp only [affine_le_iff a b ha]
    rw [hw]
    ring

theorem expectile_affine (α : K) (hα0 : 0 < α) (hα1 : α < 1) (a b : K) (ha : 0 < a)
    (S : List (Obs K)) (hne : S ≠ []) (hpos : ∀ o ∈ S, 0 < o.2) :
    expectile α (S.map fun o => (a * o.1 + b, o.2)) = a * expectile α S + b := by
  symm
  apply eSum_root_unique α hα0 hα1 _ (by simpa using hne)
  · intro o ho
    obtain ⟨o', ho', rfl⟩ := List.mem_map.mp ho
    exact hpos o' ho'
  · rw [eSum_map_affine α a b ha, eSum_expectile α hα0 hα1 S hne hpos, mul_zero]

theorem eSum_map_scale (α c : K) (S : List (Obs K)) (u : K) :
    eSum α (S.map fun o => (o.1, c * o.2)) u = c * eSum α S u := by
  induction S with
  | nil => simp [eSum]
  | cons o S ih =>
    rw [List.map_cons, eSum_cons, eSum_cons, ih]
    have hw : eWeight α u (o.1, c * o.2) = eWeight α u o := rfl
    rw [hw]
    ring

theorem expectile_scale (α : K) (hα0 : 0 < α) (hα1 : α < 1) (c : K) (hc : 0 < c)
    (S : List (Obs K)) (hne : S ≠ []) (hpos : ∀ o ∈ S, 0 < o.2) :
    expectile α (S.map fun o => (o.1, c * o.2)) = expectile α S := by
  symm
  apply eSum_root_unique α hα0 hα1 _ (by simpa using hne)
  · intro o ho
    obtain ⟨o', ho', rfl⟩ := List.mem_map.mp ho
    exact mul_pos hc (hpos o' ho')
  · rw [eSum_map_scale, eSum_expectile α hα0 hα1 S hne hpos, mul_zero]

/-! ### quantiles -/

theorem foldl_min_map {φ : K → K} (hφ : Monotone φ) (a : K) (l : List K) :
    (l.map φ).foldl min (φ a) = φ (l.foldl min a) := by
  induction l generalizing a with
  | nil => rfl
  | cons b l ih =>
    simp only [List.map_cons, List.foldl_cons]
    rw [← hφ.map_min, ih]

theorem minD_map {φ : K → K} (hφ : Monotone φ) (d : K) (l : List K) (hl : l ≠ []) :
    minD d (l.map φ) = φ (minD d l) := by
  cases l with
  | nil => exact absurd rfl hl
  | cons a l => simp only [List.map_cons, minD, foldl_min_map hφ]

theorem cntLe_map_affine (a b : K) (ha : 0 < a) (S : List (Obs K)) (u : K) :
    cntLe (S.map fun o => (a * o.1 + b, o.2)) (a * u + b) = cntLe S u := by
  unfold cntLe
  rw [List.countP_map]
  apply List.countP_congr
  intro o _
  simp [affine_le_iff a b ha]

theorem qCands_map_affine (α a b : K) (ha : 0 < a) (S : List (Obs K)) :
    qCands α (S.map fun o => (a * o.1 + b, o.2)) = (qCands α S).map (fun v => a * v + b) := by
  unfold qCands
  have e : (S.map fun o => ((a * o.1 + b, o.2) : Obs K)).map (·.1)
      = (S.map (·.1)).map (fun v => a * v + b) := by
    simp [Function.comp_def]
  rw [e, List.filter_map]
  congr 1
  apply List.filter_congr
  intro v _
  simp only [Function.comp, List.length_map, cntLe_map_affine a b ha]

theorem qLower_affine (α : K) (hα1 : α < 1) (a b : K) (ha : 0 < a) (S : List (Obs K))
    (hne : S ≠ []) :
    qLower α (S.map fun o => (a * o.1 + b, o.2)) = a * qLower α S + b := by
  unfold qLower
  rw [qCands_map_affine α a b ha,
    minD_map (affine_strictMono a b ha).monotone 0 _ (qCands_ne α hα1 S hne)]

theorem negObs_map_affine (a b : K) (S : List (Obs K)) :
    negObs (S.map fun o => (a * o.1 + b, o.2)) = (negObs S).map fun o => (a * o.1 + (-b), o.2) := by
  simp only [negObs, List.map_map]
  apply List.map_congr_left
  intro o _
  simp only [Function.comp]
  congr 1
  ring

theorem qUpper_affine (α : K) (hα0 : 0 < α) (a b : K) (ha : 0 < a) (S : List (Obs K))
    (hne : S ≠ []) :
    qUpper α (S.map fun o => (a * o.1 + b, o.2)) = a * qUpper α S + b := by
  unfold qUpper
  rw [negObs_map_affine, qLower_affine (1 - α) (by linarith) a (-b) ha _ (negObs_ne hne)]
  ring

end Instances

/-! ## 4c. Equivariance of the fits -/

section Fits
variable {K : Type} [Field K] [LinearOrder K] [IsStrictOrderedRing K]

/-- positive affine maps of `y`: the mean fit -/
theorem fit_affine_mean (a b : K) (ha : 0 < a) (ys : List (Obs K)) (hpos : ∀ o ∈ ys, 0 < o.2) :
    expand (gpava wmean (ys.map fun o => (a * o.1 + b, o.2)))
        = (expand (gpava wmean ys)).map (fun v => a * v + b) ∧
      bounds (gpava wmean (ys.map fun o => (a * o.1 + b, o.2))) = bounds (gpava wmean ys) := by
  have h := gpava_map (ok := fun o => 0 < o.2) (fun v => a * v + b) (affine_strictMono a b ha)
    (fun o => (a * o.1 + b, o.2)) (fun _ => rfl) wmean wmean
    (fun S hne hS => wmean_affine a b S hne hS) ys hpos
  rw [h]
  exact ⟨expand_mapBlk _ (fun v => a * v + b) _, bounds_mapBlk _ (fun v => a * v + b) _⟩

/-- positive affine maps of `y`: the expectile fit -/
theorem fit_affine_expectile (α : K) (hα0 : 0 < α) (hα1 : α < 1) (a b : K) (ha : 0 < a)
    (ys : List (Obs K)) (hpos : ∀ o ∈ ys, 0 < o.2) :
    expand (gpava (expectile α) (ys.map fun o => (a * o.1 + b, o.2)))
        = (expand (gpava (expectile α) ys)).map (fun v => a * v + b) ∧
      bounds (gpava (expectile α) (ys.map fun o => (a * o.1 + b, o.2)))
        = bounds (gpava (expectile α) ys) := by
  have h := gpava_map (ok := fun o => 0 < o.2) (fun v => a * v + b) (affine_strictMono a b ha)
    (fun o => (a * o.1 + b, o.2)) (fun _ => rfl) (expectile α) (expectile α)
    (fun S hne hS => expectile_affine α hα0 hα1 a b ha S hne hS) ys hpos
  rw [h]
  exact ⟨expand_mapBlk _ (fun v => a * v + b) _, bounds_mapBlk _ (fun v => a * v + b) _⟩

/-- rescaling all weights: the mean fit -/
theorem fit_weight_scale_mean (c : K) (hc : 0 < c) (ys : List (Obs K))
    (hpos : ∀ o ∈ ys, 0 < o.2) :
    expand (gpava wmean (ys.map fun o => (o.1, c * o.2))) = expand (gpava wmean ys) ∧
      bounds (gpava wmean (ys.map fun o => (o.1, c * o.2))) = bounds (gpava wmean ys) := by
  have h := gpava_map (ok := fun o => 0 < o.2) (fun v : K => v) (fun _ _ h => h)
    (fun o => (o.1, c * o.2)) (fun _ => rfl) wmean wmean
    (fun S _ _ => wmean_scale c hc S) ys hpos
  rw [h]
  refine ⟨?_, bounds_mapBlk _ (fun v : K => v) _⟩
  rw [expand_mapBlk _ (fun v : K => v)]
  simp

/-- rescaling all weights: the expectile fit -/
theorem fit_weight_scale_expectile (α : K) (hα0 : 0 < α) (hα1 : α < 1) (c : K) (hc : 0 < c)
    (ys : List (Obs K)) (hpos : ∀ o ∈ ys, 0 < o.2) :
    expand (gpava (expectile α) (ys.map fun o => (o.1, c * o.2)))
        = expand (gpava (expectile α) ys) ∧
      bounds (gpava (expectile α) (ys.map fun o => (o.1, c * o.2)))
        = bounds (gpava (expectile α) ys) := by
  have h := gpava_map (ok := fun o => 0 < o.2) (fun v : K => v) (fun _ _ h => h)
    (fun o => (o.1, c * o.2)) (fun _ => rfl) (expectile α) (expectile α)
    (fun S hne hS => expectile_scale α hα0 hα1 c hc S hne hS) ys hpos
  rw [h]
  refine ⟨?_, bounds_mapBlk _ (fun v : K => v) _⟩
  rw [expand_mapBlk _ (fun v : K => v)]
  simp

/-! ### the quantile stage -/

theorem quantileFit_snd (α : K) (ys : List (Obs K)) :
    (quantileFit α ys).2 = runBounds (quantileFit α ys).1 := rfl

theorem go_map_inj {φ : K → K} (hφ : Function.Injective φ) (i : Nat) (x : List K) :
    runBounds.go i (x.map φ) = runBounds.go i x := by
  induction x generalizing i with
  | nil => simp [go_nil]
  | cons a x ih =>
    cases x with
    | nil => simp [go_single]
    | cons b t =>
      have ih' := ih (i + 1)
      simp only [List.map_cons] at ih' ⊢
      rw [go_cons_cons, go_cons_cons, ih']
      by_cases h : a = b
      · rw [if_pos h, if_pos (by rw [h])]
      · rw [if_neg h, if_neg (fun h' => h (hφ h'))]

theorem runBounds_map_inj {φ : K → K} (hφ : Function.Injective φ) (x : List K) :
    runBounds (x.map φ) = runBounds x := by
  rw [runBounds_eq, runBounds_eq, go_map_inj hφ, List.length_map]

theorem minAccRight_map {φ : K → K} (hφ : Monotone φ) (q : List K) :
    minAccRight (q.map φ) = (minAccRight q).map φ := by
  induction q with
  | nil => simp [minAccRight]
  | cons a l ih =>
    rw [List.map_cons, minAccRight_cons, minAccRight_cons, ih]
    cases minAccRight l with
    | nil => simp
    | cons m t => simp [hφ.map_min]

theorem bexp_map_blocks (g : Obs K → Obs K) (φ : K → K) (bl : List (Blk K)) (ms : List K) :
    bexp (bl.map (fun b => (⟨b.data.map g, φ b.val⟩ : Blk K))) ms = bexp bl ms := by
  induction bl generalizing ms with
  | nil => simp
  | cons b bl ih =>
    cases ms with
    | nil => simp
    | cons m ms => simp [ih]

theorem bexp_map_vals (φ : K → K) (bl : List (Blk K)) (ms : List K) :
    bexp bl (ms.map φ) = (bexp bl ms).map φ := by
  induction bl generalizing ms with
  | nil => simp
  | cons b bl ih =>
    cases ms with
    | nil => simp
    | cons m ms => simp [ih]

theorem zipWith_mid_affine (a b : K) (A B : List K) :
    List.zipWith (fun u v => half * (u + v)) (A.map fun v => a * v + b) (B.map fun v => a * v + b)
      = (List.zipWith (fun u v => half * (u + v)) A B).map (fun v => a * v + b) := by
  rw [List.zipWith_map, List.map_zipWith]
  congr 1
  funext u v
  rw [half_eq]
  ring

theorem qMids_map_affine (α : K) (hα0 : 0 < α) (a b : K) (ha : 0 < a) (bl : List (Blk K))
    (hne : ∀ b' ∈ bl, b'.data ≠ []) :
    qMids α (bl.map (fun b' => (⟨b'.data.map (fun o => (a * o.1 + b, o.2)), a * b'.val + b⟩ : Blk K)))
      = (qMids α bl).map (fun v => a * v + b) := by
  unfold qMids
  have e1 : (bl.map (fun b' => (⟨b'.data.map (fun o => (a * o.1 + b, o.2)), a * b'.val + b⟩ : Blk K))).map
      (·.val) = (bl.map (·.val)).map (fun v => a * v + b) := by
    simp [Function.comp_def]
  have e2 : (bl.map (fun b' => (⟨b'.data.map (fun o => (a * o.1 + b, o.2)), a * b'.val + b⟩ : Blk K))).map
      (fun b' => qUpper α b'.data) = (bl.map (fun b' => qUpper α b'.data)).map (fun v => a * v + b) := by
    rw [List.map_map, List.map_map]
    apply List.map_congr_left
    intro b' hb'
    simp only [Function.comp]
    exact qUpper_affine α hα0 a b ha b'.data (hne b' hb')
  rw [e1, e2, minAccRight_map (affine_strictMono a b ha).monotone, zipWith_mid_affine]

/-- positive affine maps of `y`: the quantile fit (values transform, block vector unchanged) -/
theorem fit_affine_quantile (α : K) (hα0 : 0 < α) (hα1 : α < 1) (a b : K) (ha : 0 < a)
    (ys : List (Obs K)) :
    quantileFit α (ys.map fun o => (a * o.1 + b, o.2))
      = ((quantileFit α ys).1.map (fun v => a * v + b), (quantileFit α ys).2) := by
  have h := gpava_map (ok := fun _ => True) (fun v => a * v + b) (affine_strictMono a b ha)
    (fun o => (a * o.1 + b, o.2)) (fun _ => rfl) (qLower α) (qLower α)
    (fun S hne _ => qLower_affine α hα1 a b ha S hne) ys (fun _ _ => trivial)
  obtain ⟨hg, _, _⟩ := gpava_quant_spec α hα0 hα1 ys
  have h1 : (quantileFit α (ys.map fun o => (a * o.1 + b, o.2))).1
      = (quantileFit α ys).1.map (fun v => a * v + b) := by
    rw [quantileFit_fst, quantileFit_fst, h, bexp_map_blocks _ (fun v => a * v + b),
      qMids_map_affine α hα0 a b ha _ (fun b' hb' => (hg b' hb').1), bexp_map_vals]
  apply Prod.ext
  · exact h1
  · rw [quantileFit_snd, h1, runBounds_map_inj (affine_strictMono a b ha).injective]
    rfl

/-! ### monotone input and idempotence for the quantile stage -/

theorem minAccRight_of_sorted (q : List K) (h : q.Pairwise (· ≤ ·)) : minAccRight q = q := by
  induction q with
  | nil => simp [minAccRight]
  | cons a l ih =>
    obtain ⟨h1, h2⟩ := List.pairwise_cons.mp h
    rw [minAccRight_cons, ih h2]
    cases l with
    | nil => rfl
    | cons m t => simp [min_eq_left (h1 m (by simp))]

theorem zipWith_mid_self (A : List K) :
    List.zipWith (fun u v => half * (u + v)) A A = A := by
  induction A with
  | nil => rfl
  | cons x A ih =>
    simp only [List.zipWith_cons_cons, ih]
    congr 1
    rw [half_eq]; ring

theorem qUpper_of_const (α : K) (hα0 : 0 < α) (d : List (Obs K)) (hne : d ≠ []) (c : K)
    (h : ∀ o ∈ d, o.1 = c) : qUpper α d = c := by
  obtain ⟨o, ho, he⟩ := List.mem_map.mp (qUpper_mem α hα0 d hne)
  rw [← he]; exact h o ho

/-- **monotone input is left unchanged by the quantile stage** -/
theorem quantileFit_sorted_fixed (α : K) (hα0 : 0 < α) (hα1 : α < 1) (ys : List (Obs K))
    (hs : (ys.map (·.1)).Pairwise (· ≤ ·)) : (quantileFit α ys).1 = ys.map (·.1) := by
  have hT := (quantFun α hα0 hα1).internal
  have hok : ∀ o ∈ ys, (quantFun α hα0 hα1).ok o := fun _ _ => trivial
  obtain ⟨hg, hpw, hflat⟩ := gpava_quant_spec α hα0 hα1 ys
  have hconst : ∀ b ∈ gpava (qLower α) ys, ∀ o ∈ b.data, o.1 = b.val :=
    gpava_sorted_blocks hT ys hok hs
  have hq : (gpava (qLower α) ys).map (fun b => qUpper α b.data)
      = (gpava (qLower α) ys).map (·.val) :=
    List.map_congr_left (fun b hb => qUpper_of_const α hα0 b.data (hg b hb).1 b.val (hconst b hb))
  have hsorted : ((gpava (qLower α) ys).map (·.val)).Pairwise (· ≤ ·) := by
    rw [List.pairwise_map]
    exact hpw.imp (fun h => h.le)
  have hm : qMids α (gpava (qLower α) ys) = (gpava (qLower α) ys).map (·.val) := by
    unfold qMids
    rw [hq, minAccRight_of_sorted _ hsorted, zipWith_mid_self]
  rw [quantileFit_fst, hm, ← expand_eq_bexp]
  exact gpava_sorted_fixed hT ys hok hs

/-- **idempotence of the quantile stage** (fitted values and block vector) -/
theorem quantileFit_idempotent (α : K) (hα0 : 0 < α) (hα1 : α < 1) (ys : List (Obs K)) :
    quantileFit α (List.zip (quantileFit α ys).1 (ys.map (·.2))) = quantileFit α ys := by
  have hlen := quantileFit_length α hα0 hα1 ys
  have hfst := map_fst_zip_snd _ ys hlen
  have h1 : (quantileFit α (List.zip (quantileFit α ys).1 (ys.map (·.2)))).1 = (quantileFit α ys).1 := by
    rw [quantileFit_sorted_fixed α hα0 hα1 _ (by rw [hfst]; exact quantileFit_sorted α hα0 hα1 ys),
      hfst]
  apply Prod.ext
  · exact h1
  · rw [quantileFit_snd, h1]; rfl

end Fits

/-! ## 5. Normal form of `isoReg` -/

section IsoReg
variable {K : Type} [Field K] [LinearOrder K] [IsStrictOrderedRing K]

/-- effective functional and level: `median` is the quantile at level `half` -/
def eqEff (f : Functional) (α : K) : Functional × K :=
  if f = .median then (Functional.quantile, (half : K)) else (f, α)

/-- the validation part of `isoReg`, as a decision table: effective functional, effective level,
effective weights -/
def eqValidate (fn : Option Functional) (α : K) (y : List K) (w : Option (List K)) :
    Except Err (Functional × K × List K) :=
  match fn with
  | none => .error .valueError
  | some f =>
    if (f = .expectile ∨ f = .quantile) ∧ (α ≤ 0 ∨ 1 ≤ α) then .error .valueError
    else
      match w with
      | none =>
        if y = [] then .error .other
        else .ok ((eqEff f α).1, (eqEff f α).2, y.map (fun _ => (1 : K)))
      | some wl =>
        if f = .quantile ∨ f = .median then .error .notImplemented
        else if wl.length ≠ y.length then .error .valueError
        else if wl.any (fun v => v ≤ 0) then .error .valueError
        else if y = [] then .error .other
        else .ok (f, α, wl)

/-- the fitting part of `isoReg` on oriented observations -/
def eqFit (f : Functional) (α : K) (obs : List (Obs K)) : List K × List Nat :=
  match f with
  | .mean => (expand (pavaMean obs), bounds (pavaMean obs))
  | .expectile => (expand (gpava (expectile α) obs), bounds (gpava (expectile α) obs))
  | _ => quantileFit α obs

/-- what `isoReg` returns for validated input -/
def eqOut (inc : Bool) (y : List K) (v : Functional × K × List K) : List K × List Nat :=
  (orient inc (eqFit v.1 v.2.1 (orient inc (y.zip v.2.2))).1,
   mirrorR inc (eqFit v.1 v.2.1 (orient inc (y.zip v.2.2))).2)

open Lean.Parser.Tactic in
local macro "eq_red" "[" hs:simpLemma,* "]" : tactic =>
  `(tactic| simp only [isoReg, eqValidate, eqEff, pure_bind, reduceCtorEq, true_or, or_true,
      true_and, false_and, and_false, and_true, or_self, or_false, false_or, ↓reduceIte, $hs,*])

set_option linter.unusedSimpArgs false in
/-- normal form of `isoReg`: validation, then fit on the oriented data, then orientation of the
output -/
theorem eq_isoReg (fn : Option Functional) (α : K) (inc : Bool) (y : List K) (w : Option (List K)) :
    isoReg fn α inc y w = (eqValidate fn α y w).map (eqOut inc y) := by
  cases fn with
  | none => rfl
  | some f =>
    cases w with
    | none =>
      by_cases hα : (α ≤ 0 ∨ 1 ≤ α) <;> by_cases c4 : y = []
      · cases f <;> eq_red [hα, if_pos c4] <;> rfl
      · cases f <;> cases inc <;> eq_red [hα, if_neg c4] <;> rfl
      · cases f <;> eq_red [hα, if_pos c4] <;> rfl
      · cases f <;> cases inc <;> eq_red [hα, if_neg c4] <;> rfl
    | some wl =>
      by_cases hα : (α ≤ 0 ∨ 1 ≤ α) <;> by_cases c2 : wl.length ≠ y.length
      · cases f <;> eq_red [hα, if_pos c2] <;> rfl
      · by_cases c3 : (wl.any fun v => decide (v ≤ 0)) = true
        · cases f <;> eq_red [hα, if_neg c2, if_pos c3] <;> rfl
        by_cases c4 : y = []
        · cases f <;> eq_red [hα, if_neg c2, if_neg c3, if_pos c4] <;> rfl
        · cases f <;> cases inc <;> eq_red [hα, if_neg c2, if_neg c3, if_neg c4] <;> rfl
      · cases f <;> eq_red [hα, if_pos c2] <;> rfl
      · by_cases c3 : (wl.any fun v => decide (v ≤ 0)) = true
        · cases f <;> eq_red [hα, if_neg c2, if_pos c3] <;> rfl
        by_cases c4 : y = []
        · cases f <;> eq_red [hα, if_neg c2, if_neg c3, if_pos c4] <;> rfl
        · cases f <;> cases inc <;> eq_red [hα, if_neg c2, if_neg c3, if_neg c4] <;> rfl

/-- admissible effective functional and level -/
structure FitOK (f : Functional) (α : K) : Prop where
  notMedian : f ≠ .median
  lvl : f = .expectile ∨ f = .quantile → 0 < α ∧ α < 1

theorem fitOK_eff (f : Functional) (α : K)
    (h : ¬ ((f = .expectile ∨ f = .quantile) ∧ (α ≤ 0 ∨ 1 ≤ α))) :
    FitOK (eqEff f α).1 (eqEff f α).2 := by
  have hα : (f = .expectile ∨ f = .quantile) → 0 < α ∧ α < 1 := by
    intro hf
    constructor
    · by_contra h0; exact h ⟨hf, Or.inl (not_lt.mp h0)⟩
    · by_contra h1; exact h ⟨hf, Or.inr (not_lt.mp h1)⟩
  cases f
  · exact ⟨by simp [eqEff], by simp [eqEff]⟩
  · exact ⟨by simp [eqEff], fun _ => by simpa [eqEff] using ⟨half_pos', half_lt_one⟩⟩
  · exact ⟨by simp [eqEff], fun _ => by simpa [eqEff] using hα (Or.inl rfl)⟩
  · exact ⟨by simp [eqEff], fun _ => by simpa [eqEff] using hα (Or.inr rfl)⟩

/-- what a successful validation guarantees -/
theorem eqValidate_ok {fn : Option Functional} {α : K} {y : List K} {w : Option (List K)}
    {v : Functional × K × List K} (h : eqValidate fn α y w = .ok v) :
    y ≠ [] ∧ v.2.2.length = y.length ∧ (∀ u ∈ v.2.2, 0 < u) ∧ FitOK v.1 v.2.1 ∧
      (w ≠ none → v.1 = .mean ∨ v.1 = .expectile) := by
  cases fn with
  | none => simp [eqValidate] at h
  | some f =>
    cases w with
    | none =>
      simp only [eqValidate] at h
      split_ifs at h with h1 h2
      cases h
      refine ⟨h2, by simp, ?_, fitOK_eff f α h1, fun h => absurd rfl h⟩
      intro u hu
      obtain ⟨_, _, rfl⟩ := List.mem_map.mp hu
      exact one_pos
    | some wl =>
      simp only [eqValidate] at h
      split_ifs at h with h1 h2 h3 h4 h5
      cases h
      have hf := fitOK_eff f α h1
      have hne : f ≠ .median := fun h => h2 (Or.inr h)
      have he : eqEff f α = (f, α) := by simp [eqEff, hne]
      rw [he] at hf
      refine ⟨h5, by simpa using h3, ?_, hf, fun _ => ?_⟩
      · intro u hu
        by_contra hcon
        exact h4 (List.any_eq_true.mpr ⟨u, hu, by simpa using not_lt.mp hcon⟩)
      · cases f
        · exact Or.inl rfl
        · exact absurd rfl hne
        · exact Or.inr rfl
        · exact absurd (Or.inl rfl) h2

theorem eqValidate_congr_length (fn : Option Functional) (α : K) {y y' : List K}
    (w : Option (List K)) (h : y.length = y'.length) :
    eqValidate fn α y w = eqValidate fn α y' w := by
  have e1 : y.map (fun _ => (1 : K)) = y'.map (fun _ => (1 : K)) := by
    rw [List.map_const', List.map_const', h]
  have e2 : (y = []) ↔ (y' = []) := by
    rw [← List.length_eq_zero_iff, ← List.length_eq_zero_iff, h]
  cases fn with
  | none => rfl
  | some f => cases w <;> simp only [eqValidate, e1, e2, h]

theorem eqValidate_reverse (fn : Option Functional) (α : K) (y : List K) (w : Option (List K)) :
    eqValidate fn α y.reverse (w.map List.reverse)
      = (eqValidate fn α y w).map (fun v => (v.1, v.2.1, v.2.2.reverse)) := by
  cases fn with
  | none => rfl
  | some f =>
    cases w with
    | none =>
      simp only [eqValidate, Option.map_none, List.reverse_eq_nil_iff]
      split_ifs <;> simp [Except.map]
    | some wl =>
      simp only [eqValidate, Option.map_some, List.reverse_eq_nil_iff, List.length_reverse,
        List.any_reverse]
      split_ifs <;> simp [Except.map]

theorem eqValidate_scale (fn : Option Functional) (α : K) (y : List K) (wl : List K) (c : K)
    (hc : 0 < c) :
    eqValidate fn α y (some (wl.map (c * ·)))
      = (eqValidate fn α y (some wl)).map (fun v => (v.1, v.2.1, v.2.2.map (c * ·))) := by
  have e : (wl.map (c * ·)).any (fun v => decide (v ≤ 0)) = wl.any (fun v => decide (v ≤ 0)) := by
    rw [List.any_map]
    congr 1
    funext v
    simp only [Function.comp, decide_eq_decide]
    constructor
    · intro h; by_contra h'; rw [not_le] at h'; exact absurd (mul_pos hc h') (not_lt.mpr h)
    · intro h; exact mul_nonpos_of_nonneg_of_nonpos hc.le h
  cases fn with
  | none => rfl
  | some f =>
    simp only [eqValidate, List.length_map, e]
    split_ifs <;> simp [Except.map]

/-! ### the fitting part under the guarantees of the validation -/

theorem eqFit_mean (α : K) (obs : List (Obs K)) (hpos : ∀ o ∈ obs, 0 < o.2) :
    eqFit .mean α obs = (expand (gpava wmean obs), bounds (gpava wmean obs)) := by
  simp only [eqFit]
  rw [pavaMean_eq_gpava obs hpos]

theorem eqFit_length {f : Functional} {α : K} (hf : FitOK f α) (obs : List (Obs K))
    (hpos : ∀ o ∈ obs, 0 < o.2) : (eqFit f α obs).1.length = obs.length := by
  cases f
  · rw [eqFit_mean _ _ hpos]; exact expand_length wmean_internal obs hpos
  · exact absurd rfl hf.notMedian
  · obtain ⟨h0, h1⟩ := hf.lvl (Or.inl rfl)
    exact expand_length (expectileFun α h0 h1).internal obs hpos
  · obtain ⟨h0, h1⟩ := hf.lvl (Or.inr rfl)
    exact quantileFit_length α h0 h1 obs

theorem eqFit_range {f : Functional} {α : K} (hf : FitOK f α) (obs : List (Obs K))
    (hpos : ∀ o ∈ obs, 0 < o.2) :
    ∀ v ∈ (eqFit f α obs).1, (∃ o ∈ obs, o.1 ≤ v) ∧ (∃ o ∈ obs, v ≤ o.1) := by
  cases f
  · rw [eqFit_mean _ _ hpos]; exact gpava_range wmean_internal obs hpos
  · exact absurd rfl hf.notMedian
  · obtain ⟨h0, h1⟩ := hf.lvl (Or.inl rfl)
    exact gpava_range (expectileFun α h0 h1).internal obs hpos
  · obtain ⟨h0, h1⟩ := hf.lvl (Or.inr rfl)
    exact C02_range α h0 h1 obs

theorem eqFit_blockVec {f : Functional} {α : K} (hf : FitOK f α) (obs : List (Obs K))
    (hne : obs ≠ []) (hpos : ∀ o ∈ obs, 0 < o.2) :
    BlockVec (eqFit f α obs).1 (eqFit f α obs).2 := by
  cases f
  · rw [eqFit_mean _ _ hpos]; exact (gpava_contract wmean_internal obs hpos).2.1
  · exact absurd rfl hf.notMedian
  · obtain ⟨h0, h1⟩ := hf.lvl (Or.inl rfl)
    exact (gpava_contract (expectileFun α h0 h1).internal obs hpos).2.1
  · obtain ⟨h0, h1⟩ := hf.lvl (Or.inr rfl)
    refine blockVec_runBounds (quantileFit α obs).1 ?_
    apply List.ne_nil_of_length_pos
    rw [quantileFit_length α h0 h1]
    exact List.length_pos_iff.mpr hne

theorem eqFit_sorted_fixed {f : Functional} {α : K} (hf : FitOK f α) (obs : List (Obs K))
    (hpos : ∀ o ∈ obs, 0 < o.2) (hs : (obs.map (·.1)).Pairwise (· ≤ ·)) :
    (eqFit f α obs).1 = obs.map (·.1) := by
  cases f
  · rw [eqFit_mean _ _ hpos]; exact gpava_sorted_fixed wmean_internal obs hpos hs
  · exact absurd rfl hf.notMedian
  · obtain ⟨h0, h1⟩ := hf.lvl (Or.inl rfl)
    exact gpava_sorted_fixed (expectileFun α h0 h1).internal obs hpos hs
  · obtain ⟨h0, h1⟩ := hf.lvl (Or.inr rfl)
    exact quantileFit_sorted_fixed α h0 h1 obs hs

theorem eqFit_idempotent {f : Functional} {α : K} (hf : FitOK f α) (obs : List (Obs K))
    (hpos : ∀ o ∈ obs, 0 < o.2) :
    eqFit f α (List.zip (eqFit f α obs).1 (obs.map (·.2))) = eqFit f α obs := by
  have hokw : ∀ o o' : Obs K, o.2 = o'.2 → 0 < o.2 → 0 < o'.2 := fun o o' h ho => h ▸ ho
  cases f
  · have hpos' := ok_zip_snd (ok := fun o => 0 < o.2) hokw (eqFit .mean α obs).1 obs hpos
    rw [eqFit_mean _ _ hpos'] 
    rw [eqFit_mean _ _ hpos]
    exact Prod.ext (gpava_idempotent wmean_internal hokw obs hpos)
      (gpava_idempotent_bounds wmean_internal hokw obs hpos)
  · exact absurd rfl hf.notMedian
  · obtain ⟨h0, h1⟩ := hf.lvl (Or.inl rfl)
    exact Prod.ext (gpava_idempotent (expectileFun α h0 h1).internal hokw obs hpos)
      (gpava_idempotent_bounds (expectileFun α h0 h1).internal hokw obs hpos)
  · obtain ⟨h0, h1⟩ := hf.lvl (Or.inr rfl)
    exact quantileFit_idempotent α h0 h1 obs

theorem eqFit_affine {f : Functional} {α : K} (hf : FitOK f α) (a b : K) (ha : 0 < a)
    (obs : List (Obs K)) (hpos : ∀ o ∈ obs, 0 < o.2) :
    eqFit f α (obs.map fun o => (a * o.1 + b, o.2))
      = ((eqFit f α obs).1.map (fun v => a * v + b), (eqFit f α obs).2) := by
  have hpos' : ∀ o ∈ obs.map (fun o => ((a * o.1 + b, o.2) : Obs K)), 0 < o.2 := by
    intro o ho
    obtain ⟨o', ho', rfl⟩ := List.mem_map.mp ho
    exact hpos o' ho'
  cases f
  · rw [eqFit_mean _ _ hpos', eqFit_mean _ _ hpos]
    exact Prod.ext (fit_affine_mean a b ha obs hpos).1 (fit_affine_mean a b ha obs hpos).2
  · exact absurd rfl hf.notMedian
  · obtain ⟨h0, h1⟩ := hf.lvl (Or.inl rfl)
    exact Prod.ext (fit_affine_expectile α h0 h1 a b ha obs hpos).1
      (fit_affine_expectile α h0 h1 a b ha obs hpos).2
  · obtain ⟨h0, h1⟩ := hf.lvl (Or.inr rfl)
    exact fit_affine_quantile α h0 h1 a b ha obs

theorem eqFit_weight_scale {f : Functional} {α : K} (hf : FitOK f α)
    (hme : f = .mean ∨ f = .expectile) (c : K) (hc : 0 < c)
    (obs : List (Obs K)) (hpos : ∀ o ∈ obs, 0 < o.2) :
    eqFit f α (obs.map fun o => (o.1, c * o.2)) = eqFit f α obs := by
  have hpos' : ∀ o ∈ obs.map (fun o => ((o.1, c * o.2) : Obs K)), 0 < o.2 := by
    intro o ho
    obtain ⟨o', ho', rfl⟩ := List.mem_map.mp ho
    exact mul_pos hc (hpos o' ho')
  rcases hme with rfl | rfl
  · rw [eqFit_mean _ _ hpos', eqFit_mean _ _ hpos]
    exact Prod.ext (fit_weight_scale_mean c hc obs hpos).1 (fit_weight_scale_mean c hc obs hpos).2
  · obtain ⟨h0, h1⟩ := hf.lvl (Or.inl rfl)
    exact Prod.ext (fit_weight_scale_expectile α h0 h1 c hc obs hpos).1
      (fit_weight_scale_expectile α h0 h1 c hc obs hpos).2

/-! ### oriented observations -/

theorem obs_map_fst (inc : Bool) (y wl : List K) (hlen : wl.length = y.length) :
    (orient inc (y.zip wl)).map (·.1) = orient inc y := by
  rw [← orient_map, List.map_fst_zip (by omega)]

theorem obs_map_snd (inc : Bool) (y wl : List K) (hlen : wl.length = y.length) :
    (orient inc (y.zip wl)).map (·.2) = orient inc wl := by
  rw [← orient_map, List.map_snd_zip (by omega)]

theorem obs_length (inc : Bool) (y wl : List K) (hlen : wl.length = y.length) :
    (orient inc (y.zip wl)).length = y.length := by
  rw [orient_length, zip_length_of_eq hlen]

theorem obs_ne (inc : Bool) {y wl : List K} (hlen : wl.length = y.length) (hne : y ≠ []) :
    orient inc (y.zip wl) ≠ [] := by
  apply List.ne_nil_of_length_pos
  rw [obs_length inc y wl hlen]
  exact List.length_pos_iff.mpr hne

theorem blockVec_orient (inc : Bool) {X : List K} {R : List Nat} (h : BlockVec X R) :
    BlockVec (orient inc X) (mirrorR inc R) := by
  cases inc
  · have hm := h.mirror
    simp only [orient_false, mirrorR, Bool.false_eq_true, if_false]
    rw [h.last]
    exact hm
  · exact h

/-- inversion: a successful call went through the validation and returns the oriented fit -/
theorem isoReg_inv {fn : Option Functional} {α : K} {inc : Bool} {y : List K}
    {w : Option (List K)} {x : List K} {r : List Nat} (h : isoReg fn α inc y w = .ok (x, r)) :
    ∃ v, eqValidate fn α y w = .ok v ∧ x = (eqOut inc y v).1 ∧ r = (eqOut inc y v).2 := by
  rw [eq_isoReg] at h
  cases hv : eqValidate fn α y w with
  | error e => rw [hv] at h; cases h
  | ok v =>
    rw [hv] at h
    have := Except.ok.inj h
    exact ⟨v, rfl, by rw [this], by rw [this]⟩

/-! ### the properties, for `isoReg` -/

/-- the result has the input's length -/
theorem isoReg_length {fn : Option Functional} {α : K} {inc : Bool} {y : List K}
    {w : Option (List K)} {x : List K} {r : List Nat} (h : isoReg fn α inc y w = .ok (x, r)) :
    x.length = y.length := by
  obtain ⟨v, hv, rfl, _⟩ := isoReg_inv h
  obtain ⟨hne, hlen, hpos, hf, _⟩ := eqValidate_ok hv
  simp only [eqOut, orient_length]
  rw [eqFit_length hf _ (orient_zip_snd_pos inc hpos), obs_length inc y _ hlen]

/-- every fitted value lies between two data values -/
theorem isoReg_range {fn : Option Functional} {α : K} {inc : Bool} {y : List K}
    {w : Option (List K)} {x : List K} {r : List Nat} (h : isoReg fn α inc y w = .ok (x, r)) :
    ∀ v ∈ x, (∃ a ∈ y, a ≤ v) ∧ (∃ b ∈ y, v ≤ b) := by
  obtain ⟨v, hv, rfl, _⟩ := isoReg_inv h
  obtain ⟨hne, hlen, hpos, hf, _⟩ := eqValidate_ok hv
  intro u hu
  simp only [eqOut, mem_orient] at hu
  obtain ⟨⟨o1, ho1, h1⟩, ⟨o2, ho2, h2⟩⟩ := eqFit_range hf _ (orient_zip_snd_pos inc hpos) u hu
  exact ⟨⟨o1.1, zip_fst_mem ((mem_orient inc _ o1).mp ho1), h1⟩,
    ⟨o2.1, zip_fst_mem ((mem_orient inc _ o2).mp ho2), h2⟩⟩

/-- the block index vector is well formed -/
theorem isoReg_blockVec {fn : Option Functional} {α : K} {inc : Bool} {y : List K}
    {w : Option (List K)} {x : List K} {r : List Nat} (h : isoReg fn α inc y w = .ok (x, r)) :
    BlockVec x r := by
  obtain ⟨v, hv, rfl, rfl⟩ := isoReg_inv h
  obtain ⟨hne, hlen, hpos, hf, _⟩ := eqValidate_ok hv
  exact blockVec_orient inc
    (eqFit_blockVec hf _ (obs_ne inc hlen hne) (orient_zip_snd_pos inc hpos))

/-- input that is already monotone in the requested direction is returned unchanged -/
theorem isoReg_monotone_fixed {fn : Option Functional} {α : K} {inc : Bool} {y : List K}
    {w : Option (List K)} {x : List K} {r : List Nat} (h : isoReg fn α inc y w = .ok (x, r))
    (hm : MonoDir inc y) : x = y := by
  obtain ⟨v, hv, rfl, _⟩ := isoReg_inv h
  obtain ⟨hne, hlen, hpos, hf, _⟩ := eqValidate_ok hv
  simp only [eqOut]
  rw [eqFit_sorted_fixed hf _ (orient_zip_snd_pos inc hpos)
    (by rw [obs_map_fst inc y _ hlen]; exact (monoDir_iff_orient inc y).mp hm),
    obs_map_fst inc y _ hlen, orient_orient]

/-- idempotence: refitting the fitted values (same weights, same direction) returns the same
result, block vector included -/
theorem isoReg_idempotent {fn : Option Functional} {α : K} {inc : Bool} {y : List K}
    {w : Option (List K)} {x : List K} {r : List Nat} (h : isoReg fn α inc y w = .ok (x, r)) :
    isoReg fn α inc x w = .ok (x, r) := by
  have hxl := isoReg_length h
  obtain ⟨v, hv, hx, hr⟩ := isoReg_inv h
  obtain ⟨hne, hlen, hpos, hf, _⟩ := eqValidate_ok hv
  rw [eq_isoReg, eqValidate_congr_length fn α w hxl, hv]
  show Except.ok (eqOut inc x v) = Except.ok (x, r)
  congr 1
  have hobs : orient inc (x.zip v.2.2)
      = List.zip (eqFit v.1 v.2.1 (orient inc (y.zip v.2.2))).1
          ((orient inc (y.zip v.2.2)).map (·.2)) := by
    rw [orient_zip inc x _ (by omega), obs_map_snd inc y _ hlen, hx]
    simp only [eqOut, orient_orient]
  have : eqOut inc x v = eqOut inc y v := by
    simp only [eqOut]
    rw [hobs, eqFit_idempotent hf _ (orient_zip_snd_pos inc hpos)]
  rw [this, hx, hr]

/-- reversing the data (and the weights) together with the direction reverses the fit and mirrors
the block vector; holds on every input, error cases included -/
theorem isoReg_reverse (fn : Option Functional) (α : K) (inc : Bool) (y : List K)
    (w : Option (List K)) :
    isoReg fn α (!inc) y.reverse (w.map List.reverse)
      = (isoReg fn α inc y w).map
          (fun p => (p.1.reverse, p.2.reverse.map (fun i => y.length - i))) := by
  rw [eq_isoReg, eq_isoReg, eqValidate_reverse]
  cases hv : eqValidate fn α y w with
  | error e => rfl
  | ok v =>
    obtain ⟨hne, hlen, hpos, hf, _⟩ := eqValidate_ok hv
    show Except.ok (eqOut (!inc) y.reverse (v.1, v.2.1, v.2.2.reverse))
      = Except.ok ((eqOut inc y v).1.reverse, (eqOut inc y v).2.reverse.map (fun i => y.length - i))
    congr 1
    have hobs : orient (!inc) (y.reverse.zip v.2.2.reverse) = orient inc (y.zip v.2.2) := by
      have : y.reverse.zip v.2.2.reverse = (y.zip v.2.2).reverse :=
        (List.reverse_zipWith (by omega)).symm
      rw [this]
      cases inc <;> simp
    have hbv := eqFit_blockVec hf _ (obs_ne inc hlen hne) (orient_zip_snd_pos inc hpos)
    have hl := eqFit_length hf (orient inc (y.zip v.2.2)) (orient_zip_snd_pos inc hpos)
    rw [obs_length inc y _ hlen] at hl
    simp only [eqOut]
    rw [hobs]
    generalize eqFit v.1 v.2.1 (orient inc (y.zip v.2.2)) = p at hbv hl
    have hlast : p.2.getLast?.getD 0 = y.length := by rw [hbv.last, hl]; rfl
    cases inc
    · simp only [Bool.not_false, orient_true, orient_false, List.reverse_reverse, mirrorR,
        if_true, Bool.false_eq_true, if_false, hlast]
      rw [mirror_mirror y.length p.2 (fun b hb => hl ▸ hbv.le b hb)]
    · simp only [Bool.not_true, orient_true, orient_false, mirrorR, if_true, Bool.false_eq_true,
        if_false, hlast]

/-- positive affine maps of `y` commute with the fit; holds on every input, error cases included -/
theorem isoReg_affine (fn : Option Functional) (α : K) (inc : Bool) (y : List K)
    (w : Option (List K)) (a b : K) (ha : 0 < a) :
    isoReg fn α inc (y.map fun v => a * v + b) w
      = (isoReg fn α inc y w).map (fun p => (p.1.map (fun v => a * v + b), p.2)) := by
  rw [eq_isoReg, eq_isoReg, eqValidate_congr_length fn α w (List.length_map _)]
  cases hv : eqValidate fn α y w with
  | error e => rfl
  | ok v =>
    obtain ⟨hne, hlen, hpos, hf, _⟩ := eqValidate_ok hv
    show Except.ok (eqOut inc (y.map fun v => a * v + b) v)
      = Except.ok ((eqOut inc y v).1.map (fun v => a * v + b), (eqOut inc y v).2)
    congr 1
    have hobs : orient inc ((y.map fun v => a * v + b).zip v.2.2)
        = (orient inc (y.zip v.2.2)).map (fun o => (a * o.1 + b, o.2)) := by
      rw [List.zip_map_left, orient_map]
      rfl
    simp only [eqOut]
    rw [hobs, eqFit_affine hf a b ha _ (orient_zip_snd_pos inc hpos), orient_map]

/-- rescaling all weights by a positive constant does not change the result; holds on every input,
error cases included -/
theorem isoReg_weight_scale (fn : Option Functional) (α : K) (inc : Bool) (y : List K)
    (w : Option (List K)) (c : K) (hc : 0 < c) :
    isoReg fn α inc y (w.map (List.map (c * ·))) = isoReg fn α inc y w := by
  cases w with
  | none => rfl
  | some wl =>
    rw [eq_isoReg, eq_isoReg, Option.map_some, eqValidate_scale fn α y wl c hc]
    cases hv : eqValidate fn α y (some wl) with
    | error e => rfl
    | ok v =>
      obtain ⟨hne, hlen, hpos, hf, hme⟩ := eqValidate_ok hv
      show Except.ok (eqOut inc y (v.1, v.2.1, v.2.2.map (c * ·))) = Except.ok (eqOut inc y v)
      congr 1
      have hobs : orient inc (y.zip (v.2.2.map (c * ·)))
          = (orient inc (y.zip v.2.2)).map (fun o => (o.1, c * o.2)) := by
        rw [List.zip_map_right, orient_map]
        rfl
      simp only [eqOut]
      rw [hobs, eqFit_weight_scale hf (hme (by simp)) c hc _ (orient_zip_snd_pos inc hpos)]

end IsoReg

/-! ## Hypotheses are satisfiable -/

/-- `internal_between`, `gpava_range`, `gpava_contract`: an internal functional and a non-empty
admissible input -/
example : Internal (fun o : Obs ℚ => 0 < o.2) wmean ∧
    ([(3, 1), (1, 2), (2, 1)] : List (Obs ℚ)) ≠ [] ∧
    ∀ o ∈ ([(3, 1), (1, 2), (2, 1)] : List (Obs ℚ)), 0 < o.2 :=
  ⟨wmean_internal, by simp, by simp⟩

/-- `gpava_sorted_fixed`: non-decreasing input with a tie -/
example : (([(1, 1), (2, 1), (2, 3), (5, 1)] : List (Obs ℚ)).map (·.1)).Pairwise (· ≤ ·) := by
  norm_num

/-- `gpava_idempotent`: admissibility that depends on the weight only -/
example : ∀ o o' : Obs ℚ, o.2 = o'.2 → 0 < o.2 → 0 < o'.2 := fun _ _ h ho => h ▸ ho

/-- `gpava_map`: a strictly increasing map and a compatible map of the observations -/
example : StrictMono (fun v : ℚ => 2 * v + 3) ∧
    ∀ o : Obs ℚ, ((fun o : Obs ℚ => ((2 * o.1 + 3, o.2) : Obs ℚ)) o).1 = (fun v : ℚ => 2 * v + 3) o.1 :=
  ⟨affine_strictMono 2 3 (by norm_num), fun _ => rfl⟩

/-- a block vector: `[0, 2, 3]` for `[1, 1, 2]` -/
example : BlockVec ([1, 1, 2] : List ℚ) [0, 2, 3] := by
  have h := blockVec_runBounds ([1, 1, 2] : List ℚ) (by simp)
  have e : runBounds ([1, 1, 2] : List ℚ) = [0, 2, 3] := by
    simp [runBounds_eq, go_cons_cons, go_single]
  rwa [e] at h

/-- the `isoReg`-level statements: a successful call, decreasing direction, explicit weights -/
example : ∃ x r, isoReg (some .mean) (0 : ℚ) false [3, 1, 2] (some [1, 2, 1]) = .ok (x, r) :=
  ⟨_, _, isoReg_mean_some _ _ _ _ (by simp) (by simp) (by simp)⟩

/-- a successful unweighted quantile call -/
example : ∃ x r, isoReg (some .quantile) (1 / 3 : ℚ) true [3, 1, 2] none = .ok (x, r) :=
  ⟨_, _, isoReg_quantile_none _ (by norm_num) (by norm_num) _ _ (by simp)⟩

end MD

/-
Sanity checks at `Rat` (`#eval`, not part of the proofs):
  isoReg (some .mean) (0 : Rat) true [3, 1, 2, 5, 4] (some [1, 2, 1, 1, 3])
    = .ok ([5/3, 5/3, 2, 17/4, 17/4], [0, 2, 3, 5])
  isoReg (some .mean) (0 : Rat) false [4, 5, 2, 1, 3] (some [3, 1, 1, 2, 1])
    = .ok ([17/4, 17/4, 2, 5/3, 5/3], [0, 2, 3, 5])     -- reversed data, weights, direction

`#print axioms` (observed with `lake env lean MD/Proofs/Equivariance.lean`):
'MD.internal_between' depends on axioms: [propext, Quot.sound]
'MD.gpava_range' depends on axioms: [propext, Classical.choice, Quot.sound]
'MD.bounds_diff' depends on axioms: [propext, Quot.sound]
'MD.blockVec_bounds' depends on axioms: [propext, Classical.choice, Quot.sound]
'MD.gpava_contract' depends on axioms: [propext, Classical.choice, Quot.sound]
'MD.runBounds_head' depends on axioms: [propext]
'MD.runBounds_last' depends on axioms: [propext]
'MD.runBounds_strict' depends on axioms: [propext, Classical.choice, Quot.sound]
'MD.runBounds_change' depends on axioms: [propext, Classical.choice, Quot.sound]
'MD.BlockVec.mirror' depends on axioms: [propext, Quot.sound]
'MD.BlockVec.unique' depends on axioms: [propext, Classical.choice, Quot.sound]
'MD.mirror_mirror' depends on axioms: [propext, Quot.sound]
'MD.gpava_sorted_fixed' depends on axioms: [propext, Classical.choice, Quot.sound]
'MD.gpava_idempotent' depends on axioms: [propext, Classical.choice, Quot.sound]
'MD.gpava_idempotent_bounds' depends on axioms: [propext, Classical.choice, Quot.sound]
'MD.gpava_map' depends on axioms: [propext, Quot.sound]
'MD.wmean_affine' depends on axioms: [propext, Classical.choice, Quot.sound]
'MD.expectile_affine' depends on axioms: [propext, Classical.choice, Quot.sound]
'MD.qLower_affine' depends on axioms: [propext, Classical.choice, Quot.sound]
'MD.qUpper_affine' depends on axioms: [propext, Classical.choice, Quot.sound]
'MD.wmean_scale' depends on axioms: [propext, Classical.choice, Quot.sound]
'MD.expectile_scale' depends on axioms: [propext, Classical.choice, Quot.sound]
'MD.fit_affine_mean' depends on axioms: [propext, Classical.choice, Quot.sound]
'MD.fit_affine_expectile' depends on axioms: [propext, Classical.choice, Quot.sound]
'MD.fit_affine_quantile' depends on axioms: [propext, Classical.choice, Quot.sound]
'MD.fit_weight_scale_mean' depends on axioms: [propext, Classical.choice, Quot.sound]
'MD.fit_weight_scale_expectile' depends on axioms: [propext, Classical.choice, Quot.sound]
'MD.quantileFit_sorted_fixed' depends on axioms: [propext, Classical.choice, Quot.sound]
'MD.quantileFit_idempotent' depends on axioms: [propext, Classical.choice, Quot.sound]
'MD.eq_isoReg' depends on axioms: [propext, Quot.sound]
'MD.eqValidate_ok' depends on axioms: [propext, Classical.choice, Quot.sound]
'MD.isoReg_length' depends on axioms: [propext, Classical.choice, Quot.sound]
'MD.isoReg_range' depends on axioms: [propext, Classical.choice, Quot.sound]
'MD.isoReg_blockVec' depends on axioms: [propext, Classical.choice, Quot.sound]
'MD.isoReg_monotone_fixed' depends on axioms: [propext, Classical.choice, Quot.sound]
'MD.isoReg_idempotent' depends on axioms: [propext, Classical.choice, Quot.sound]
'MD.isoReg_reverse' depends on axioms: [propext, Classical.choice, Quot.sound]
'MD.isoReg_affine' depends on axioms: [propext, Classical.choice, Quot.sound]
'MD.isoReg_weight_scale' depends on axioms: [propext, Classical.choice, Quot.sound]
-/
