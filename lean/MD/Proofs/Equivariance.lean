import MD.Proofs.Unique
import MD.Proofs.ExpectileInst
import MD.Proofs.QuantStage
import MD.Proofs.PavaEq
import Mathlib.Tactic.Linarith
import Mathlib.Tactic.Ring
import Mathlib.Tactic.FieldSimp
import Mathlib.Tactic.Positivity
import Mathlib.Data.List.Sort

set_option linter.unusedSectionVars false

namespace MD

/-! ## 1. Range -/

section General
variable {K : Type} [LinearOrder K] {ok : Obs K → Prop} {T : List (Obs K) → K}

/-- a functional with the Cauchy mean value property lies between two data values -/
theorem internal_between (hT : Internal ok T) (d : List (Obs K)) (hne : d ≠ [])
    (hok : ∀ o ∈ d, ok o) : (∃ o ∈ d, o.1 ≤ T d) ∧ (∃ o ∈ d, T d ≤ o.1) := by
  induction d with
  | nil => exact absurd rfl hne
  | cons p d ih =>
    have hp := hT.single p (hok p (by simp))
    by_cases hd : d = []
    · subst hd
      rw [hp]
      exact ⟨⟨p, by simp, le_rfl⟩, ⟨p, by simp, le_rfl⟩⟩
    · have hokd : ∀ o ∈ d, ok o := fun o ho => hok o (by simp [ho])
      obtain ⟨⟨a, ha, hal⟩, ⟨b, hb, hbl⟩⟩ := ih hd hokd
      have hokp : ∀ o ∈ [p], ok o := by simpa using hok p (by simp)
      have hlo := hT.lo [p] d (by simp) hd hokp hokd
      have hhi := hT.hi [p] d (by simp) hd hokp hokd
      rw [hp] at hlo hhi
      simp only [List.singleton_append] at hlo hhi
      rcases le_total p.1 (T d) with h | h
      · rw [min_eq_left h] at hlo
        rw [max_eq_right h] at hhi
        exact ⟨⟨p, by simp, hlo⟩, ⟨b, by simp [hb], le_trans hhi hbl⟩⟩
      · rw [min_eq_right h] at hlo
        rw [max_eq_left h] at hhi
        exact ⟨⟨a, by simp [ha], le_trans hal hlo⟩, ⟨p, by simp, hhi⟩⟩

/-- every fitted value lies between two data values -/
theorem gpava_range (hT : Internal ok T) (ys : List (Obs K)) (hys : ∀ o ∈ ys, ok o) :
    ∀ v ∈ expand (gpava T ys), (∃ o ∈ ys, o.1 ≤ v) ∧ (∃ o ∈ ys, v ≤ o.1) := by
  obtain ⟨hg, _, hflat⟩ := gpava_spec hT ys hys
  intro v hv
  obtain ⟨b, hb, rfl⟩ := mem_expand hv
  have hgb := hg b hb
  have hsub : ∀ o ∈ b.data, o ∈ ys := by
    intro o ho
    rw [← hflat]
    exact List.mem_flatMap.mpr ⟨b, hb, ho⟩
  obtain ⟨⟨o1, ho1, h1⟩, ⟨o2, ho2, h2⟩⟩ := internal_between hT b.data hgb.ne hgb.allok
  rw [hgb.val]
  exact ⟨⟨o1, hsub o1 ho1, h1⟩, ⟨o2, hsub o2 ho2, h2⟩⟩

end General

/-! ## 2. Block index vectors -/

section Bounds
variable {K : Type}

/-- the running block ends, starting from offset `n` -/
def boundsFrom (n : Nat) : List (Blk K) → List Nat
  | [] => []
  | b :: bs => (n + b.data.length) :: boundsFrom (n + b.data.length) bs

theorem bounds_foldl (bs : List (Blk K)) (acc : List Nat) (n : Nat) :
    (bs.foldl (fun (acc : List Nat × Nat) b =>
      (acc.1 ++ [acc.2 + b.data.length], acc.2 + b.data.length)) (acc, n)).1
      = acc ++ boundsFrom n bs := by
  induction bs generalizing acc n with
  | nil => simp [boundsFrom]
  | cons b bs ih => simp only [List.foldl_cons, ih, boundsFrom, List.append_assoc, List.singleton_append]

theorem boundsFrom_shift (n k : Nat) (bs : List (Blk K)) :
    boundsFrom (n + k) bs = (boundsFrom n bs).map (· + k) := by
  induction bs generalizing n with
  | nil => simp [boundsFrom]
  | cons b bs ih =>
    simp only [boundsFrom, List.map_cons]
    rw [show n + k + b.data.length = n + b.data.length + k by omega, ih]

theorem bounds_eq (bs : List (Blk K)) : bounds bs = 0 :: boundsFrom 0 bs := by
  unfold bounds
  rw [bounds_foldl]
  rfl

@[simp] theorem bounds_nil : bounds ([] : List (Blk K)) = [0] := rfl

theorem bounds_cons (b : Blk K) (bs : List (Blk K)) :
    bounds (b :: bs) = 0 :: (bounds bs).map (· + b.data.length) := by
  rw [bounds_eq, bounds_eq, boundsFrom]
  have := boundsFrom_shift 0 b.data.length bs
  simp only [Nat.zero_add] at this
  simp [this]

theorem bounds_head (bs : List (Blk K)) : (bounds bs).head? = some 0 := by
  rw [bounds_eq]; rfl

theorem bounds_length (bs : List (Blk K)) : (bounds bs).length = bs.length + 1 := by
  induction bs with
  | nil => rfl
  | cons b bs ih => rw [bounds_cons]; simp [ih]

theorem bounds_last (bs : List (Blk K)) :
    (bounds bs).getLast? = some (bs.flatMap (·.data)).length := by
  induction bs with
  | nil => rfl
  | cons b bs ih =>
    rw [bounds_cons, List.getLast?_cons, List.getLast?_map, ih]
    simp only [Option.map_some, Option.getD_some, List.flatMap_cons, List.length_append]
    rw [Nat.add_comm]

theorem zipWith_sub_shift (k : Nat) (t u : List Nat) :
    List.zipWith (· - ·) (t.map (· + k)) (u.map (· + k)) = List.zipWith (· - ·) t u := by
  induction t generalizing u with
  | nil => simp
  | cons x t iht =>
    cases u with
    | nil => simp
    | cons y u =>
      simp only [List.map_cons, List.zipWith_cons_cons, iht]
      congr 1
      omega

/-- consecutive entries differ by the block lengths -/
theorem bounds_diff (bs : List (Blk K)) :
    List.zipWith (· - ·) (bounds bs).tail (bounds bs) = bs.map (·.data.length) := by
  induction bs with
  | nil => rfl
  | cons b bs ih =>
    obtain ⟨t, ht⟩ : ∃ t, bounds bs = 0 :: t := ⟨_, bounds_eq bs⟩
    rw [bounds_cons]
    rw [ht] at ih ⊢
    simp only [List.tail_cons] at ih
    simp only [List.tail_cons, List.map_cons, List.zipWith_cons_cons, Nat.zero_add, Nat.sub_zero]
    congr 1
    rw [← ih, ← zipWith_sub_shift b.data.length t (0 :: t)]
    simp

theorem bounds_mem_le (bs : List (Blk K)) :
    ∀ i ∈ bounds bs, i ≤ (bs.flatMap (·.data)).length := by
  induction bs with
  | nil => simp
  | cons b bs ih =>
    intro i hi
    rw [bounds_cons] at hi
    simp only [List.flatMap_cons, List.length_append]
    rcases List.mem_cons.mp hi with rfl | hi
    · omega
    · obtain ⟨j, hj, rfl⟩ := List.mem_map.mp hi
      have := ih j hj
      omega

theorem bounds_strict (bs : List (Blk K)) (hne : ∀ b ∈ bs, b.data ≠ []) :
    (bounds bs).Pairwise (· < ·) := by
  induction bs with
  | nil => simp
  | cons b bs ih =>
    rw [bounds_cons, List.pairwise_cons]
    have hb : 0 < b.data.length := List.length_pos_iff.mpr (hne b (by simp))
    constructor
    · intro i hi
      obtain ⟨j, _, rfl⟩ := List.mem_map.mp hi
      omega
    · rw [List.pairwise_map]
      exact (ih (fun b' hb' => hne b' (by simp [hb']))).imp (fun h => by omega)

theorem expand_eq_flatten (bs : List (Blk K)) :
    expand bs = (bs.map fun b => List.replicate b.data.length b.val).flatten := by
  simp [expand, List.flatMap]

/-- `r` is the block index vector of the sequence `x`: it starts at `0`, ends at `x.length`, is
strictly increasing, and its interior entries are exactly the positions where `x` changes its
value (so `x` is constant inside a block and differs between adjacent blocks). -/
structure BlockVec {K : Type} (x : List K) (r : List Nat) : Prop where
  head : r.head? = some 0
  last : r.getLast? = some x.length
  strict : r.Pairwise (· < ·)
  change : ∀ i, i + 1 < x.length → (i + 1 ∈ r ↔ x[i]? ≠ x[i + 1]?)

theorem expand_cons' (b : Blk K) (bs : List (Blk K)) :
    expand (b :: bs) = List.replicate b.data.length b.val ++ expand bs := by simp [expand]

theorem expand_head_of_ne (b : Blk K) (bs : List (Blk K)) (hb : b.data ≠ []) :
    (expand (b :: bs))[0]? = some b.val := by
  have : 0 < b.data.length := List.length_pos_iff.mpr hb
  rw [expand_cons', List.getElem?_append_left (by simpa using this), List.getElem?_replicate,
    if_pos this]

/-- interior entries of `bounds` are exactly the change points of the expanded sequence -/
theorem bounds_change (bs : List (Blk K)) (hne : ∀ b ∈ bs, b.data ≠ [])
    (hpw : bs.Pairwise (fun a b => a.val ≠ b.val)) :
    ∀ i, i + 1 < (expand bs).length → (i + 1 ∈ bounds bs ↔ (expand bs)[i]? ≠ (expand bs)[i + 1]?) := by
  induction bs with
  | nil => intro i hi; simp [expand] at hi
  | cons b bs ih =>
    intro i hi
    have hm : 0 < b.data.length := List.length_pos_iff.mpr (hne b (by simp))
    have hne' : ∀ b' ∈ bs, b'.data ≠ [] := fun b' hb' => hne b' (by simp [hb'])
    obtain ⟨hpw1, hpw2⟩ := List.pairwise_cons.mp hpw
    rw [expand_cons', List.length_append, List.length_replicate] at hi
    rw [expand_cons', bounds_cons]
    have hmem : i + 1 ∈ 0 :: (bounds bs).map (· + b.data.length)
        ↔ ∃ j ∈ bounds bs, j + b.data.length = i + 1 := by
      simp
    rw [hmem]
    rcases Nat.lt_trichotomy (i + 1) b.data.length with hlt | heq | hgt
    · rw [List.getElem?_append_left (by simpa using (by omega : i < b.data.length)),
        List.getElem?_append_left (by simpa using hlt), List.getElem?_replicate,
        List.getElem?_replicate, if_pos (by omega), if_pos hlt]
      constructor
      · rintro ⟨j, _, hj⟩; omega
      · intro h; exact absurd rfl h
    · rw [List.getElem?_append_left (by simpa using (by omega : i < b.data.length)),
        List.getElem?_append_right (by simp; omega), List.getElem?_replicate, if_pos (by omega)]
      simp only [List.length_replicate]
      rw [show i + 1 - b.data.length = 0 by omega]
      cases bs with
      | nil => simp [expand] at hi; omega
      | cons b' bs' =>
        rw [expand_head_of_ne b' bs' (hne' b' (by simp))]
        constructor
        · intro _ h
          exact hpw1 b' (by simp) (Option.some.inj h)
        · intro _
          refine ⟨0, ?_, by omega⟩
          rw [bounds_eq]; simp
    · rw [List.getElem?_append_right (by simp; omega),
        List.getElem?_append_right (by simp; omega)]
      simp only [List.length_replicate]
      have e : i + 1 - b.data.length = (i - b.data.length) + 1 := by omega
      rw [e, ← ih hne' hpw2 (i - b.data.length) (by omega)]
      constructor
      · rintro ⟨j, hj, hj'⟩
        have : j = i - b.data.length + 1 := by omega
        rw [← this]; exact hj
      · intro h
        exact ⟨_, h, by omega⟩

/-- the block vector of a list of non-empty blocks whose neighbours carry different values -/
theorem blockVec_bounds (bs : List (Blk K)) (hne : ∀ b ∈ bs, b.data ≠ [])
    (hpw : bs.Pairwise (fun a b => a.val ≠ b.val)) : BlockVec (expand bs) (bounds bs) :=
  ⟨bounds_head bs, by rw [bounds_last, expand_length_flat], bounds_strict bs hne,
    bounds_change bs hne hpw⟩

end Bounds

/-! ### `runBounds` -/

section RunBounds
variable {K : Type} [LinearOrder K]

theorem go_nil (i : Nat) : runBounds.go i ([] : List K) = [] := by simp [runBounds.go]
theorem go_single (i : Nat) (a : K) : runBounds.go i [a] = [] := by simp [runBounds.go]
theorem go_cons_cons (i : Nat) (a b : K) (t : List K) :
    runBounds.go i (a :: b :: t)
      = if a = b then runBounds.go (i + 1) (b :: t) else (i + 1) :: runBounds.go (i + 1) (b :: t) := by
  rw [runBounds.go]
  by_cases h : a = b
  · subst h; simp
  · have : ¬ (a ≤ b ∧ b ≤ a) := fun h' => h (le_antisymm h'.1 h'.2)
    rw [if_neg h, if_neg this]

theorem go_bound (i : Nat) (x : List K) : ∀ k ∈ runBounds.go i x, i < k ∧ k < i + x.length := by
  induction x generalizing i with
  | nil => simp [go_nil]
  | cons a x ih =>
    cases x with
    | nil => simp [go_single]
    | cons b t =>
      intro k hk
      rw [go_cons_cons] at hk
      have ih' := ih (i + 1)
      simp only [List.length_cons] at ih' ⊢
      split at hk
      · have := ih' k hk; omega
      · rcases List.mem_cons.mp hk with rfl | hk
        · omega
        · have := ih' k hk; omega

theorem go_strict (i : Nat) (x : List K) : (runBounds.go i x).Pairwise (· < ·) := by
  induction x generalizing i with
  | nil => simp [go_nil]
  | cons a x ih =>
    cases x with
    | nil => simp [go_single]
    | cons b t =>
      rw [go_cons_cons]
      split
      · exact ih (i + 1)
      · refine List.pairwise_cons.mpr ⟨?_, ih (i + 1)⟩
        intro k hk
        exact (go_bound (i + 1) _ k hk).1

theorem go_mem (i : Nat) (x : List K) :
    ∀ j, j + 1 < x.length → (i + j + 1 ∈ runBounds.go i x ↔ x[j]? ≠ x[j + 1]?) := by
  induction x generalizing i with
  | nil => intro j hj; simp at hj
  | cons a x ih =>
    cases x with
    | nil => intro j hj; simp at hj
    | cons b t =>
      intro j hj
      rw [go_cons_cons]
      cases j with
      | zero =>
        simp only [List.getElem?_cons_zero, List.getElem?_cons_succ, Nat.add_zero]
        by_cases h : a = b
        · rw [if_pos h]
          constructor
          · intro hk
            have := (go_bound (i + 1) _ _ hk).1
            omega
          · intro h'; exact absurd (by rw [h]) h'
        · rw [if_neg h]
          constructor
          · intro _ h'; exact h (Option.some.inj h')
          · intro _; simp
      | succ j' =>
        have hj' : j' + 1 < (b :: t).length := by simpa using hj
        have ih' := ih (i + 1) j' hj'
        simp only [List.getElem?_cons_succ]
        rw [show i + (j' + 1) + 1 = i + 1 + j' + 1 by omega]
        split
        · exact ih'
        · rw [List.mem_cons]
          constructor
          · rintro (h | h)
            · omega
            · exact ih'.mp h
          · intro h; exact Or.inr (ih'.mpr h)

theorem runBounds_eq (x : List K) : runBounds x = 0 :: (runBounds.go 0 x ++ [x.length]) := rfl

theorem runBounds_head (x : List K) : (runBounds x).head? = some 0 := rfl

theorem runBounds_last (x : List K) : (runBounds x).getLast? = some x.length := by
  rw [runBounds_eq, ← List.cons_append, List.getLast?_append]
  simp

theorem runBounds_strict (x : List K) (hx : x ≠ []) : (runBounds x).Pairwise (· < ·) := by
  have hpos : 0 < x.length := List.length_pos_iff.mpr hx
  rw [runBounds_eq, List.pairwise_cons]
  constructor
  · intro k hk
    rcases List.mem_append.mp hk with hk | hk
    · exact (go_bound 0 x k hk).1
    · simp only [List.mem_singleton] at hk; omega
  · rw [List.pairwise_append]
    refine ⟨go_strict 0 x, by simp, ?_⟩
    intro k hk m hm
    simp only [List.mem_singleton] at hm
    have := (go_bound 0 x k hk).2
    omega

/-- the value-change characterisation of `runBounds` -/
theorem runBounds_change (x : List K) :
    ∀ i, i + 1 < x.length → (i + 1 ∈ runBounds x ↔ x[i]? ≠ x[i + 1]?) := by
  intro i hi
  have hg := go_mem 0 x i hi
  rw [Nat.zero_add] at hg
  rw [← hg, runBounds_eq, List.mem_cons, List.mem_append, List.mem_singleton]
  constructor
  · rintro (h | h | h)
    · omega
    · exact h
    · omega
  · intro h; exact Or.inr (Or.inl h)

theorem blockVec_runBounds (x : List K) (hx : x ≠ []) : BlockVec x (runBounds x) :=
  ⟨runBounds_head x, runBounds_last x, runBounds_strict x hx, runBounds_change x⟩

end RunBounds

/-! ### Mirroring a block vector -/

section Mirror
variable {K : Type}

theorem BlockVec.le {x : List K} {r : List Nat} (h : BlockVec x r) : ∀ b ∈ r, b ≤ x.length := by
  have h1 : r.reverse.head? = some x.length := by rw [List.head?_reverse]; exact h.last
  obtain ⟨t, ht⟩ := List.head?_eq_some_iff.mp h1
  have h2 : r.reverse.Pairwise (· > ·) := List.pairwise_reverse.mpr h.strict
  rw [ht] at h2
  intro b hb
  have : b ∈ r.reverse := List.mem_reverse.mpr hb
  rw [ht] at this
  rcases List.mem_cons.mp this with rfl | hb'
  · exact le_rfl
  · exact ((List.pairwise_cons.mp h2).1 b hb').le

/-- the block vector of the reversed sequence -/
theorem BlockVec.mirror {x : List K} {r : List Nat} (h : BlockVec x r) :
    BlockVec x.reverse (r.reverse.map (fun i => x.length - i)) := by
  have hle := h.le
  refine ⟨?_, ?_, ?_, ?_⟩
  · rw [List.head?_map, List.head?_reverse, h.last]; simp
  · rw [List.getLast?_map, List.getLast?_reverse, h.head]; simp
  · rw [List.pairwise_map, List.pairwise_reverse]
    refine h.strict.imp_of_mem ?_
    intro a b ha hb hab
    have := hle a ha
    have := hle b hb
    omega
  · intro i hi
    rw [List.length_reverse] at hi
    rw [List.getElem?_reverse (by omega), List.getElem?_reverse (by omega)]
    have hc := h.change (x.length - 1 - (i + 1)) (by omega)
    rw [show x.length - 1 - (i + 1) + 1 = x.length - 1 - i by omega] at hc
    rw [ne_comm, ← hc]
    simp only [List.mem_map, List.mem_reverse]
    constructor
    · rintro ⟨b, hb, hb'⟩
      have := hle b hb
      have : b = x.length - 1 - i := by omega
      rw [← this]; exact hb
    · intro hb
      exact ⟨_, hb, by omega⟩

/-- mirroring twice gives the block vector back -/
theorem mirror_mirror (n : Nat) (r : List Nat) (hle : ∀ b ∈ r, b ≤ n) :
    ((r.reverse.map (fun i => n - i)).reverse.map (fun i => n - i)) = r := by
  rw [← List.map_reverse, List.reverse_reverse, List.map_map]
  conv_rhs => rw [← List.map_id r]
  apply List.map_congr_left
  intro b hb
  have := hle b hb
  simp only [Function.comp, id]
  omega

/-- a sequence has only one block vector -/
theorem BlockVec.unique {x : List K} {r r' : List Nat} (h : BlockVec x r) (h' : BlockVec x r') :
    r = r' := by
  have key : ∀ {s s' : List Nat}, BlockVec x s → BlockVec x s' → ∀ b ∈ s, b ∈ s' := by
    intro s s' hs hs' b hb
    have hle := hs.le b hb
    by_cases h0 : b = 0
    · subst h0
      obtain ⟨t, ht⟩ := List.head?_eq_some_iff.mp hs'.head
      rw [ht]; simp
    by_cases hn : b = x.length
    · subst hn
      exact List.mem_of_getLast? hs'.last
    · have hb1 : b - 1 + 1 = b := by omega
      have hlt : b - 1 + 1 < x.length := by omega
      have := (hs.change (b - 1) hlt).mp (by rw [hb1]; exact hb)
      have := (hs'.change (b - 1) hlt).mpr this
      rwa [hb1] at this
  exact h.strict.eq_of_mem_iff h'.strict (fun b => ⟨key h h' b, key h' h b⟩)

end Mirror

/-! ## 2c. The output contract of `gpava` -/

section Contract
variable {K : Type} [LinearOrder K] {ok : Obs K → Prop} {T : List (Obs K) → K}

/-- output contract of the generalised PAVA: length, block vector (starts at 0, ends at `n`,
strictly increasing, interior entries = change points of the fit), block lengths, block-wise
constant fit -/
theorem gpava_contract (hT : Internal ok T) (ys : List (Obs K)) (hys : ∀ o ∈ ys, ok o) :
    (expand (gpava T ys)).length = ys.length ∧
    BlockVec (expand (gpava T ys)) (bounds (gpava T ys)) ∧
    (bounds (gpava T ys)).length = (gpava T ys).length + 1 ∧
    List.zipWith (· - ·) (bounds (gpava T ys)).tail (bounds (gpava T ys))
      = (gpava T ys).map (·.data.length) ∧
    expand (gpava T ys)
      = ((gpava T ys).map fun b => List.replicate b.data.length b.val).flatten := by
  obtain ⟨hg, hpw, hflat⟩ := gpava_spec hT ys hys
  refine ⟨expand_length hT ys hys, ?_, bounds_length _, bounds_diff _, expand_eq_flatten _⟩
  exact blockVec_bounds _ (fun b hb => (hg b hb).ne) (hpw.imp (fun h => ne_of_lt h))

/-! ## 3. Monotone input is a fixed point; idempotence -/

/-- on a block whose data are non-decreasing all data values equal the block value -/
theorem good_sorted_const (hT : Internal ok T) {b : Blk K} (hb : Good ok T b)
    (hs : (b.data.map (·.1)).Pairwise (· ≤ ·)) : ∀ o ∈ b.data, o.1 = b.val := by
  rw [List.pairwise_map] at hs
  have hlow : ∀ o ∈ b.data, b.val ≤ o.1 := by
    cases hd : b.data with
    | nil => exact absurd hd hb.ne
    | cons p rest =>
      rw [hd] at hs
      have h1 := hb.pre [p] rest (by simp) (by rw [hd]; rfl)
      rw [hT.single p (hb.allok p (by rw [hd]; simp))] at h1
      intro o ho
      rcases List.mem_cons.mp ho with rfl | ho
      · exact h1
      · exact le_trans h1 ((List.pairwise_cons.mp hs).1 o ho)
  have hupp : ∀ o ∈ b.data, o.1 ≤ b.val := by
    rcases List.eq_nil_or_concat b.data with hd | ⟨init, p, hd⟩
    · exact absurd hd hb.ne
    · rw [List.concat_eq_append] at hd
      rw [hd] at hs
      have h1 := hb.suf init [p] (by simp) hd
      rw [hT.single p (hb.allok p (by rw [hd]; simp))] at h1
      intro o ho
      rw [hd] at ho
      rcases List.mem_append.mp ho with ho | ho
      · exact le_trans ((List.pairwise_append.mp hs).2.2 o ho p (by simp)) h1
      · simp only [List.mem_singleton] at ho; subst ho; exact h1
  intro o ho
  exact le_antisymm (hupp o ho) (hlow o ho)

omit [LinearOrder K] in
theorem expand_of_const (bs : List (Blk K)) (h : ∀ b ∈ bs, ∀ o ∈ b.data, o.1 = b.val) :
    expand bs = (bs.flatMap (·.data)).map (·.1) := by
  induction bs with
  | nil => simp [expand]
  | cons b bs ih =>
    rw [expand_cons', List.flatMap_cons, List.map_append, ih (fun b' hb' => h b' (by simp [hb']))]
    congr 1
    symm
    rw [List.eq_replicate_iff]
    refine ⟨by simp, ?_⟩
    intro v hv
    obtain ⟨o, ho, rfl⟩ := List.mem_map.mp hv
    exact h b (by simp) o ho

theorem sorted_of_flatMap (bs : List (Blk K))
    (hs : ((bs.flatMap (·.data)).map (·.1)).Pairwise (· ≤ ·)) :
    ∀ b ∈ bs, (b.data.map (·.1)).Pairwise (· ≤ ·) := by
  induction bs with
  | nil => simp
  | cons b bs ih =>
    rw [List.flatMap_cons, List.map_append, List.pairwise_append] at hs
    intro b' hb'
    rcases List.mem_cons.mp hb' with rfl | hb'
    · exact hs.1
    · exact ih hs.2.1 b' hb'

/-- on non-decreasing data all blocks are constant -/
theorem gpava_sorted_blocks (hT : Internal ok T) (ys : List (Obs K)) (hys : ∀ o ∈ ys, ok o)
    (hs : (ys.map (·.1)).Pairwise (· ≤ ·)) : ∀ b ∈ gpava T ys, ∀ o ∈ b.data, o.1 = b.val := by
  obtain ⟨hg, _, hflat⟩ := gpava_spec hT ys hys
  rw [← hflat] at hs
  intro b hb
  exact good_sorted_const hT (hg b hb) (sorted_of_flatMap _ hs b hb)

/-- **already monotone input is left unchanged** -/
theorem gpava_sorted_fixed (hT : Internal ok T) (ys : List (Obs K)) (hys : ∀ o ∈ ys, ok o)
    (hs : (ys.map (·.1)).Pairwise (· ≤ ·)) : expand (gpava T ys) = ys.map (·.1) := by
  rw [expand_of_const _ (gpava_sorted_blocks hT ys hys hs), (gpava_spec hT ys hys).2.2]

omit [LinearOrder K] in
theorem map_fst_zip_snd (x : List K) (ys : List (Obs K)) (h : x.length = ys.length) :
    (List.zip x (ys.map (·.2))).map (·.1) = x := by
  rw [List.map_fst_zip]
  simp [h]

omit [LinearOrder K] in
theorem map_snd_zip_snd (x : List K) (ys : List (Obs K)) (h : x.length = ys.length) :
    (List.zip x (ys.map (·.2))).map (·.2) = ys.map (·.2) := by
  rw [List.map_snd_zip]
  simp [h]

omit [LinearOrder K] in
theorem ok_zip_snd (hokw : ∀ o o' : Obs K, o.2 = o'.2 → ok o → ok o') (x : List K)
    (ys : List (Obs K)) (hys : ∀ o ∈ ys, ok o) : ∀ o ∈ List.zip x (ys.map (·.2)), ok o := by
  intro o ho
  have h2 : o.2 ∈ ys.map (·.2) := (List.of_mem_zip ho).2
  obtain ⟨o', ho', he⟩ := List.mem_map.mp h2
  exact hokw o' o he (hys o' ho')

/-- **idempotence**: refitting the fitted values (with the same weights) returns them -/
theorem gpava_idempotent (hT : Internal ok T) (hokw : ∀ o o' : Obs K, o.2 = o'.2 → ok o → ok o')
    (ys : List (Obs K)) (hys : ∀ o ∈ ys, ok o) :
    expand (gpava T (List.zip (expand (gpava T ys)) (ys.map (·.2)))) = expand (gpava T ys) := by
  have hlen := expand_length hT ys hys
  have hfst := map_fst_zip_snd _ ys hlen
  rw [gpava_sorted_fixed hT _ (ok_zip_snd hokw _ ys hys), hfst]
  rw [hfst]
  exact expand_gpava_sorted hT ys hys

/-- idempotence, block vector: the refit has the same blocks -/
theorem gpava_idempotent_bounds (hT : Internal ok T)
    (hokw : ∀ o o' : Obs K, o.2 = o'.2 → ok o → ok o')
    (ys : List (Obs K)) (hys : ∀ o ∈ ys, ok o) :
    bounds (gpava T (List.zip (expand (gpava T ys)) (ys.map (·.2)))) = bounds (gpava T ys) := by
  have h1 := (gpava_contract hT _ (ok_zip_snd hokw (expand (gpava T ys)) ys hys)).2.1
  rw [gpava_idempotent hT hokw ys hys] at h1
  exact h1.unique (gpava_contract hT ys hys).2.1

end Contract

end MD
