import MD.Proofs.ScoreHES
import MD.Proofs.ScoreHQS
import MD.Proofs.QuantStage
import MD.Proofs.ExpectileInst
import Mathlib.Analysis.SpecialFunctions.Pow.Deriv
import Mathlib.Analysis.Calculus.Deriv.Slope
import Mathlib.Tactic.Linarith
import Mathlib.Tactic.Ring
import Mathlib.Tactic.FieldSimp
import Mathlib.Tactic.Positivity
/-! Helpers for `MD/Props/C05.lean` (consistency of the scoring functions for their target
functional, at the level of a finite weighted sample) and `MD/Props/C14.lean` (homogeneity of the
expectile family).  Everything is at `K = ℝ`.

* `hesVal h α y z` — the real value of `hes h α y z` on its domain (`cons_hes_ok`).
* `cons_total S d z = Σ_{(y,w) ∈ d} w · S y z` — weighted total score of the constant forecast `z`.
* mean / Bregman family: `cons_mean_identity` (exact: total at `c` = total at the mean + `W·2B(m,c)`).
* expectile family: `cons_hes_os` (per observation), `cons_expectile_total_diff` (summed).
* quantile family: `cons_hqs_up`, `cons_hqs_dn`, `cons_quantile_total_up/dn`.
* log loss: `cons_logloss_identity` (mean in `(0,1)`), `cons_logloss_identity_all` (mean in `[0,1]`).
* `scoreMean`: `cons_mapM_ok`, `scoreMean_ok`, `cons_scoreMean_const`, weight rescaling
  (`cons_scoreMean_scale`), `weights=None` (`cons_scoreMean_none`).
* homogeneity of `hesBase`: `cons_hesBase_mul`; limits `h → 1`, `h → 0`: `cons_limit_degree_one`,
  `cons_limit_degree_zero`, `cons_limit_gfun_zero`.
* sample level: `cons_mean_consistent`, `cons_expectile_consistent`, `cons_quantile_consistent`,
  `cons_logloss_consistent(_all)` and the order-sensitivity versions `cons_*_better`.
* all seven `ScoreKind`s at once: `scoreDom`, `scoreVal`, `isTarget`, `cons_scorePair_ok`,
  `cons_consistent_total`, `cons_consistent_scoreMean`, `cons_better_total`, `cons_better_scoreMean`. -/
set_option linter.unusedSectionVars false
namespace MD
open Real

/-! ### values and totals -/

/-- the value of the homogeneous expectile score on its domain -/
noncomputable def hesVal (h α y z : ℝ) : ℝ := hesAsym α y z * (2 * hesBreg h y z)

theorem cons_hes_ok {h α y z : ℝ} (d : hesDom h y z) : hes h α y z = .ok (hesVal h α y z) :=
  hes_eq_breg d

theorem cons_hesVal_half (h y z : ℝ) : hesVal h (1 / 2) y z = 2 * hesBreg h y z := by
  simp [hesVal, hesAsym]

/-- weighted total score `Σ w · S y z` of the constant forecast `z` on the sample `d` -/
noncomputable def cons_total (S : ℝ → ℝ → ℝ) (d : List (Obs ℝ)) (z : ℝ) : ℝ :=
  (d.map (fun o => o.2 * S o.1 z)).sum

theorem cons_total_nil (S : ℝ → ℝ → ℝ) (z : ℝ) : cons_total S [] z = 0 := by simp [cons_total]

theorem cons_total_cons (S : ℝ → ℝ → ℝ) (o : Obs ℝ) (d : List (Obs ℝ)) (z : ℝ) :
    cons_total S (o :: d) z = o.2 * S o.1 z + cons_total S d z := by simp [cons_total]

theorem cons_total_sub (S : ℝ → ℝ → ℝ) (d : List (Obs ℝ)) (c t : ℝ) :
    cons_total S d c - cons_total S d t = (d.map (fun o => o.2 * (S o.1 c - S o.1 t))).sum := by
  induction d with
  | nil => simp [cons_total]
  | cons o d ih =>
    rw [cons_total_cons, cons_total_cons, List.map_cons, List.sum_cons, ← ih]; ring

theorem cons_sum_affine (d : List (Obs ℝ)) (A B m : ℝ) :
    (d.map (fun o => o.2 * (A + B * (o.1 - m)))).sum
      = A * wsum d + B * (wysum d - m * wsum d) := by
  induction d with
  | nil => simp [wsum, wysum]
  | cons o d ih =>
    simp only [List.map_cons, List.sum_cons, wsum, wysum] at *
    rw [ih]; ring

theorem cons_wmean_resid {d : List (Obs ℝ)} (hne : d ≠ []) (hpos : ∀ o ∈ d, 0 < o.2) :
    wysum d - wmean d * wsum d = 0 := by
  have hW := wsum_pos hne hpos
  rw [wmean, div_mul_cancel₀ _ hW.ne']; ring

theorem cons_wsum_nonneg {d : List (Obs ℝ)} (hw : ∀ o ∈ d, 0 ≤ o.2) : 0 ≤ wsum d := by
  induction d with
  | nil => simp [wsum]
  | cons o d ih =>
    have h1 := hw o (by simp)
    have h2 := ih (fun o' ho' => hw o' (by simp [ho']))
    simp only [wsum, List.map_cons, List.sum_cons] at *
    linarith

/-! ### mean / Bregman family -/

/-- exact decomposition of the total level-`1/2` score around the weighted mean; purely algebraic -/
theorem cons_mean_identity (h : ℝ) {d : List (Obs ℝ)} (hne : d ≠ []) (hpos : ∀ o ∈ d, 0 < o.2)
    (c : ℝ) :
    cons_total (hesVal h (1 / 2)) d c
      = cons_total (hesVal h (1 / 2)) d (wmean d) + wsum d * (2 * hesBreg h (wmean d) c) := by
  have e := cons_total_sub (hesVal h (1 / 2)) d c (wmean d)
  have e2 : (d.map (fun o => o.2 * (hesVal h (1 / 2) o.1 c - hesVal h (1 / 2) o.1 (wmean d)))).sum
      = (d.map (fun o => o.2 * (2 * hesBreg h (wmean d) c
          + 2 * (hesPhi' h (wmean d) - hesPhi' h c) * (o.1 - wmean d)))).sum := by
    congr 1
    apply List.map_congr_left
    intro o _
    rw [cons_hesVal_half, cons_hesVal_half]
    have := hesBreg_three_point h o.1 (wmean d) c
    congr 1
    linarith
  rw [e2, cons_sum_affine, cons_wmean_resid hne hpos] at e
  linarith

/-- a domain witness for the pair of constants from the pair-domain hypotheses -/
theorem cons_hesDom_consts {h t c : ℝ} {d : List (Obs ℝ)} (hne : d ≠ [])
    (dt : ∀ o ∈ d, hesDom h o.1 t) (dc : ∀ o ∈ d, hesDom h o.1 c) : hesDom h t c := by
  cases d with
  | nil => exact absurd rfl hne
  | cons o d => exact hesDom_pred (dt o (by simp)) (dc o (by simp))

/-! ### expectile family: order sensitivity with respect to the identification function -/

theorem cons_hesAsym_eq {α : ℝ} (hα0 : 0 < α) (hα1 : α < 1) (z : ℝ) (o : Obs ℝ) :
    hesAsym α o.1 z = 2 * eWeight α z o := by
  unfold hesAsym geInd eWeight
  by_cases ha : α = 1 / 2
  · rw [if_pos ha, ha]; split_ifs <;> norm_num
  · rw [if_neg ha]
    by_cases hy : o.1 ≤ z
    · rw [if_pos hy, if_pos hy, abs_of_pos (by linarith)]
    · rw [if_neg hy, if_neg hy, zero_sub, abs_neg, abs_of_pos hα0]

theorem cons_hesDom_swap {h y z c : ℝ} (d1 : hesDom h y z) (hlt : z < y) (d2 : hesDom h y c) :
    hesDom h c y := by
  unfold hesDom at *
  split_ifs at * with h1 h0
  · exact ⟨d2.2.le, lt_trans d1.2 hlt⟩
  · exact ⟨d2.2, d2.1⟩

/-- `B(y,t) ≤ (φ'c − φ't)(y − t)` when `t < y ≤ c` -/
theorem cons_breg_le_up {h y t c : ℝ} (dt : hesDom h y t) (dc : hesDom h y c) (hty : t < y)
    (hyc : y ≤ c) : hesBreg h y t ≤ (hesPhi' h c - hesPhi' h t) * (y - t) := by
  have dty : hesDom h t y := cons_hesDom_swap dt hty dt
  have dcy : hesDom h c y := cons_hesDom_swap dt hty dc
  have b := hesBreg_nonneg dty
  have m := hesPhi'_mono dc dcy hyc
  have e : hesBreg h y t + hesBreg h t y = (hesPhi' h y - hesPhi' h t) * (y - t) := by
    unfold hesBreg; ring
  have : (hesPhi' h y - hesPhi' h t) * (y - t) ≤ (hesPhi' h c - hesPhi' h t) * (y - t) :=
    mul_le_mul_of_nonneg_right (by linarith) (by linarith)
  linarith

/-- `B(y,t) ≤ (φ't − φ'c)(t − y)` when `c < y ≤ t` -/
theorem cons_breg_le_dn {h y t c : ℝ} (dt : hesDom h y t) (dc : hesDom h y c) (hcy : c < y)
    (hyt : y ≤ t) : hesBreg h y t ≤ (hesPhi' h t - hesPhi' h c) * (t - y) := by
  have dty : hesDom h t y := cons_hesDom_swap dc hcy dt
  have dcy : hesDom h c y := cons_hesDom_swap dc hcy dc
  have b := hesBreg_nonneg dty
  have m := hesPhi'_mono dcy dc hcy.le
  have e : hesBreg h y t + hesBreg h t y = (hesPhi' h t - hesPhi' h y) * (t - y) := by
    unfold hesBreg; ring
  have : (hesPhi' h t - hesPhi' h y) * (t - y) ≤ (hesPhi' h t - hesPhi' h c) * (t - y) :=
    mul_le_mul_of_nonneg_right (by linarith) (by linarith)
  linarith

/-- per observation: the score is order sensitive relative to the expectile identification
function `V(t, y) = 2|1{y ≤ t} − α|(t − y)` with `ψ = 2 φ'` -/
theorem cons_hes_os {h α t c : ℝ} (o : Obs ℝ) (hα0 : 0 < α) (hα1 : α < 1)
    (dt : hesDom h o.1 t) (dc : hesDom h o.1 c) :
    2 * eWeight α t o * (t - o.1) * (2 * (hesPhi' h c - hesPhi' h t))
      ≤ hesVal h α o.1 c - hesVal h α o.1 t := by
  have tp := hesBreg_three_point h o.1 t c
  have btc := hesBreg_nonneg (hesDom_pred dt dc)
  have byc := hesBreg_nonneg dc
  have a1 : 0 < 1 - α := by linarith
  unfold hesVal
  rw [cons_hesAsym_eq hα0 hα1 c o, cons_hesAsym_eq hα0 hα1 t o]
  unfold eWeight
  by_cases h1 : o.1 ≤ t
  · by_cases h2 : o.1 ≤ c
    · rw [if_pos h1, if_pos h2]
      have := mul_nonneg a1.le btc
      nlinarith
    · rw [if_pos h1, if_neg h2]
      rw [not_le] at h2
      have k := cons_breg_le_dn dt dc h2 h1
      have k1 := mul_le_mul_of_nonneg_left k a1.le
      have k2 := mul_nonneg hα0.le byc
      nlinarith
  · rw [not_le] at h1
    by_cases h2 : o.1 ≤ c
    · rw [if_neg (not_le.2 h1), if_pos h2]
      have k := cons_breg_le_up dt dc h1 h2
      have k1 := mul_le_mul_of_nonneg_left k hα0.le
      have k2 := mul_nonneg a1.le byc
      nlinarith
    · rw [if_neg (not_le.2 h1), if_neg h2]
      have := mul_nonneg hα0.le btc
      nlinarith

/-- summed over the sample: the total score changes by at least `eSum(t) · (ψ c − ψ t)` -/
theorem cons_expectile_total_diff {h α t c : ℝ} (d : List (Obs ℝ)) (hα0 : 0 < α) (hα1 : α < 1)
    (hw : ∀ o ∈ d, 0 ≤ o.2) (dt : ∀ o ∈ d, hesDom h o.1 t) (dc : ∀ o ∈ d, hesDom h o.1 c) :
    eSum α d t * (4 * (hesPhi' h c - hesPhi' h t))
      ≤ cons_total (hesVal h α) d c - cons_total (hesVal h α) d t := by
  rw [cons_total_sub]
  have h1 := sum_map_le_sum_map
    (fun o => o.2 * eWeight α t o * (t - o.1) * (4 * (hesPhi' h c - hesPhi' h t)))
    (fun o => o.2 * (hesVal h α o.1 c - hesVal h α o.1 t)) d
    (fun o ho => by
      have k := mul_le_mul_of_nonneg_left (cons_hes_os o hα0 hα1 (dt o ho) (dc o ho)) (hw o ho)
      show o.2 * eWeight α t o * (t - o.1) * (4 * (hesPhi' h c - hesPhi' h t)) ≤ _
      linarith)
  rw [sum_map_mul_const] at h1
  exact h1

/-! ### quantile family: order sensitivity with respect to the two one-sided identification
functions `1{y ≤ t} − α` (moving right) and `1{y < t} − α` (moving left) -/

theorem cons_hqs_up {h α y t c : ℝ} (_dt : hqsDom h y t) (dc : hqsDom h y c) (htc : t ≤ c) :
    ((if y ≤ t then (1 : ℝ) else 0) - α) * (gfun h c - gfun h t)
      ≤ hqsVal h α y c - hqsVal h α y t := by
  unfold hqsVal geInd
  by_cases h1 : y ≤ t
  · have h2 : y ≤ c := h1.trans htc
    rw [if_pos h1, if_pos h2]
    exact le_of_eq (by ring)
  · by_cases h2 : y ≤ c
    · rw [if_neg h1, if_pos h2]
      have := gfun_le dc h2
      linarith
    · rw [if_neg h1, if_neg h2]
      exact le_of_eq (by ring)

theorem cons_hqs_dn {h α y t c : ℝ} (_dt : hqsDom h y t) (dc : hqsDom h y c) (hct : c ≤ t) :
    ((if y < t then (1 : ℝ) else 0) - α) * (gfun h c - gfun h t)
      ≤ hqsVal h α y c - hqsVal h α y t := by
  unfold hqsVal geInd
  by_cases h1 : y < t
  · rw [if_pos h1, if_pos h1.le]
    by_cases h2 : y ≤ c
    · rw [if_pos h2]
      exact le_of_eq (by ring)
    · rw [if_neg h2]
      rw [not_le] at h2
      have := gfun_le (hqsDom_symm dc) h2.le
      linarith
  · rw [if_neg h1]
    rw [not_lt] at h1
    by_cases h3 : y ≤ t
    · have ht : t = y := le_antisymm h1 h3
      subst ht
      by_cases h2 : t ≤ c
      · have hc : c = t := le_antisymm hct h2
        subst hc
        simp
      · rw [if_neg h2]
        simp
    · have h2 : ¬ y ≤ c := fun h => h3 (h.trans hct)
      rw [if_neg h3, if_neg h2]
      exact le_of_eq (by ring)

theorem cons_quantile_total_up {h α t c : ℝ} (d : List (Obs ℝ)) (hw : ∀ o ∈ d, 0 ≤ o.2)
    (dt : ∀ o ∈ d, hqsDom h o.1 t) (dc : ∀ o ∈ d, hqsDom h o.1 c) (htc : t ≤ c) :
    (d.map (fun o => o.2 * ((if o.1 ≤ t then (1 : ℝ) else 0) - α))).sum * (gfun h c - gfun h t)
      ≤ cons_total (hqsVal h α) d c - cons_total (hqsVal h α) d t := by
  rw [cons_total_sub, ← sum_map_mul_const]
  apply sum_map_le_sum_map
  intro o ho
  have k := mul_le_mul_of_nonneg_left (cons_hqs_up (α := α) (dt o ho) (dc o ho) htc) (hw o ho)
  linarith

theorem cons_quantile_total_dn {h α t c : ℝ} (d : List (Obs ℝ)) (hw : ∀ o ∈ d, 0 ≤ o.2)
    (dt : ∀ o ∈ d, hqsDom h o.1 t) (dc : ∀ o ∈ d, hqsDom h o.1 c) (hct : c ≤ t) :
    (d.map (fun o => o.2 * ((if o.1 < t then (1 : ℝ) else 0) - α))).sum * (gfun h c - gfun h t)
      ≤ cons_total (hqsVal h α) d c - cons_total (hqsVal h α) d t := by
  rw [cons_total_sub, ← sum_map_mul_const]
  apply sum_map_le_sum_map
  intro o ho
  have k := mul_le_mul_of_nonneg_left (cons_hqs_dn (α := α) (dt o ho) (dc o ho) hct) (hw o ho)
  linarith

theorem cons_hqsDom_consts {h t c : ℝ} {d : List (Obs ℝ)} (hne : d ≠ [])
    (dt : ∀ o ∈ d, hqsDom h o.1 t) (dc : ∀ o ∈ d, hqsDom h o.1 c) : hqsDom h t c := by
  cases d with
  | nil => exact absurd rfl hne
  | cons o d =>
    exact (hqsDom_iff _ _ _).2 ⟨((hqsDom_iff _ _ _).1 (dt o (by simp))).2,
      ((hqsDom_iff _ _ _).1 (dc o (by simp))).2⟩

/-- the two weighted counting sums are monotone in the threshold -/
theorem cons_qsumLe_mono {α : ℝ} (d : List (Obs ℝ)) (hw : ∀ o ∈ d, 0 ≤ o.2) {u v : ℝ}
    (huv : u ≤ v) :
    (d.map (fun o => o.2 * ((if o.1 ≤ u then (1 : ℝ) else 0) - α))).sum
      ≤ (d.map (fun o => o.2 * ((if o.1 ≤ v then (1 : ℝ) else 0) - α))).sum := by
  apply sum_map_le_sum_map
  intro o ho
  apply mul_le_mul_of_nonneg_left _ (hw o ho)
  by_cases h1 : o.1 ≤ u
  · rw [if_pos h1, if_pos (h1.trans huv)]
  · rw [if_neg h1]
    split_ifs <;> linarith

theorem cons_qsumLt_mono {α : ℝ} (d : List (Obs ℝ)) (hw : ∀ o ∈ d, 0 ≤ o.2) {u v : ℝ}
    (huv : u ≤ v) :
    (d.map (fun o => o.2 * ((if o.1 < u then (1 : ℝ) else 0) - α))).sum
      ≤ (d.map (fun o => o.2 * ((if o.1 < v then (1 : ℝ) else 0) - α))).sum := by
  apply sum_map_le_sum_map
  intro o ho
  apply mul_le_mul_of_nonneg_left _ (hw o ho)
  by_cases h1 : o.1 < u
  · rw [if_pos h1, if_pos (lt_of_lt_of_le h1 huv)]
  · rw [if_neg h1]
    split_ifs <;> linarith

theorem cons_qsumLt_le_qsumLe {α : ℝ} (d : List (Obs ℝ)) (hw : ∀ o ∈ d, 0 ≤ o.2) (u : ℝ) :
    (d.map (fun o => o.2 * ((if o.1 < u then (1 : ℝ) else 0) - α))).sum
      ≤ (d.map (fun o => o.2 * ((if o.1 ≤ u then (1 : ℝ) else 0) - α))).sum := by
  apply sum_map_le_sum_map
  intro o ho
  apply mul_le_mul_of_nonneg_left _ (hw o ho)
  by_cases h1 : o.1 < u
  · rw [if_pos h1, if_pos h1.le]
  · rw [if_neg h1]
    split_ifs <;> linarith

/-- with unit weights the weighted counting sums are the counts of the model -/
theorem cons_qsumLe_unit (α : ℝ) (d : List (Obs ℝ)) (h1 : ∀ o ∈ d, o.2 = 1) (u : ℝ) :
    (d.map (fun o => o.2 * ((if o.1 ≤ u then (1 : ℝ) else 0) - α))).sum
      = (cntLe d u : ℝ) - α * (d.length : ℝ) := by
  rw [← Esum_quant α d u]
  unfold Esum
  congr 1
  apply List.map_congr_left
  intro o ho
  rw [h1 o ho, one_mul]

theorem cons_qsumLt_unit (α : ℝ) (d : List (Obs ℝ)) (h1 : ∀ o ∈ d, o.2 = 1) (u : ℝ) :
    (d.map (fun o => o.2 * ((if o.1 < u then (1 : ℝ) else 0) - α))).sum
      = (cntLt d u : ℝ) - α * (d.length : ℝ) := by
  rw [← Esum_quant_m α d u]
  unfold Esum
  congr 1
  apply List.map_congr_left
  intro o ho
  rw [h1 o ho, one_mul]

/-! ### log loss -/

theorem cons_logLoss_nonneg {y z : ℝ} (hy0 : 0 ≤ y) (hy1 : y ≤ 1) (hz0 : 0 < z) (hz1 : z < 1) :
    0 ≤ logLoss y z := by
  rw [logLoss_closed hy0 hy1 hz0 hz1]
  have a := sub_le_mul_log_div hy0 hz0
  have b := sub_le_mul_log_div (by linarith : (0 : ℝ) ≤ 1 - y) (by linarith : (0 : ℝ) < 1 - z)
  linarith

/-- exact decomposition of the total log loss around the weighted mean `m ∈ (0,1)` -/
theorem cons_logloss_identity {d : List (Obs ℝ)} (hne : d ≠ []) (hpos : ∀ o ∈ d, 0 < o.2)
    (c : ℝ) (hm0 : 0 < wmean d) (hm1 : wmean d < 1) (hc0 : 0 < c) (hc1 : c < 1) :
    cons_total logLoss d c = cons_total logLoss d (wmean d) + wsum d * logLoss (wmean d) c := by
  have e := cons_total_sub logLoss d c (wmean d)
  have e2 : (d.map (fun o => o.2 * (logLoss o.1 c - logLoss o.1 (wmean d)))).sum
      = (d.map (fun o => o.2 * (logLoss (wmean d) c
          + (Real.log (wmean d / c) - Real.log ((1 - wmean d) / (1 - c))) * (o.1 - wmean d)))).sum := by
    congr 1
    apply List.map_congr_left
    intro o _
    rw [logLoss_diff hm0 hm1 hc0 hc1, logLoss_closed hm0.le hm1.le hc0 hc1]
    ring
  rw [e2, cons_sum_affine, cons_wmean_resid hne hpos] at e
  linarith

/-! ### `scorePerObs`, `average`, `scoreMean` -/

theorem cons_mapM_ok {α β : Type} (f : α → Except Err β) (g : α → β) (l : List α)
    (h : ∀ p ∈ l, f p = .ok (g p)) : l.mapM f = .ok (l.map g) := by
  induction l with
  | nil => rfl
  | cons a l ih =>
    rw [List.mapM_cons, h a (by simp), ih (fun p hp => h p (by simp [hp]))]
    rfl

theorem cons_mapM_length {α β : Type} (f : α → Except Err β) (l : List α) (r : List β)
    (h : l.mapM f = .ok r) : r.length = l.length := by
  induction l generalizing r with
  | nil =>
    rw [List.mapM_nil] at h
    cases h; rfl
  | cons a l ih =>
    rw [List.mapM_cons] at h
    cases ha : f a with
    | error e => rw [ha] at h; cases h
    | ok b =>
      cases hl : l.mapM f with
      | error e => rw [ha, hl] at h; cases h
      | ok bs =>
        rw [ha, hl] at h
        cases h
        simp [ih bs hl]

theorem cons_scorePerObs_ok (k : ScoreKind) (h α : ℝ) (ys zs : List ℝ) (S : ℝ → ℝ → ℝ)
    (hlen : ys.length = zs.length)
    (hS : ∀ p ∈ ys.zip zs, scorePair k h α p.1 p.2 = .ok (S p.1 p.2)) :
    scorePerObs k h α ys zs = .ok ((ys.zip zs).map (fun p => S p.1 p.2)) := by
  unfold scorePerObs
  rw [if_neg (not_not.2 hlen)]
  exact cons_mapM_ok _ _ _ hS

theorem cons_scorePerObs_length {k : ScoreKind} {h α : ℝ} {ys zs per : List ℝ}
    (e : scorePerObs k h α ys zs = .ok per) : per.length = ys.length ∧ ys.length = zs.length := by
  unfold scorePerObs at e
  by_cases hlen : ys.length = zs.length
  · rw [if_neg (not_not.2 hlen)] at e
    have := cons_mapM_length _ _ _ e
    rw [List.length_zip, ← hlen, min_self] at this
    exact ⟨this, hlen⟩
  · rw [if_pos hlen] at e
    cases e

theorem cons_average_some (a w : List ℝ) (hl : w.length = a.length) (hs : w.sum ≠ 0) :
    average a (some w) = .ok ((List.zipWith (· * ·) a w).sum / w.sum) := by
  unfold average
  simp only [eqK_iff]
  rw [if_neg (not_not.2 hl), if_neg hs]
  rfl

theorem cons_scoreMean_bind (k : ScoreKind) (h α : ℝ) (ys zs : List ℝ) (w : Option (List ℝ))
    (per : List ℝ) (e : scorePerObs k h α ys zs = .ok per) :
    scoreMean k h α ys zs w = average per w := by
  unfold scoreMean
  rw [e]
  rfl

theorem cons_scoreMean_error (k : ScoreKind) (h α : ℝ) (ys zs : List ℝ) (w : Option (List ℝ))
    (er : Err) (e : scorePerObs k h α ys zs = .error er) :
    scoreMean k h α ys zs w = .error er := by
  unfold scoreMean
  rw [e]
  rfl

/-- the unfolding lemma: weighted average of the per-pair values -/
theorem scoreMean_ok (k : ScoreKind) (h α : ℝ) (ys zs ws : List ℝ) (S : ℝ → ℝ → ℝ)
    (hlen : ys.length = zs.length)
    (hS : ∀ p ∈ ys.zip zs, scorePair k h α p.1 p.2 = .ok (S p.1 p.2))
    (hw : ws.length = ys.length) (hsum : ws.sum ≠ 0) :
    scoreMean k h α ys zs (some ws)
      = .ok ((List.zipWith (· * ·) ((ys.zip zs).map (fun p => S p.1 p.2)) ws).sum / ws.sum) := by
  rw [cons_scoreMean_bind k h α ys zs _ _ (cons_scorePerObs_ok k h α ys zs S hlen hS)]
  apply cons_average_some _ _ _ hsum
  rw [List.length_map, List.length_zip, ← hlen, min_self, hw]


theorem cons_wsum_zip : ∀ (ys ws : List ℝ), ws.length = ys.length → wsum (ys.zip ws) = ws.sum := by
  intro ys
  induction ys with
  | nil => intro ws h; cases ws with
    | nil => simp [wsum]
    | cons w ws => simp at h
  | cons y ys ih => intro ws h; cases ws with
    | nil => simp at h
    | cons w ws =>
      have := ih ws (by simpa using h)
      simp only [wsum, List.zip_cons_cons, List.map_cons, List.sum_cons] at *
      rw [this]

theorem cons_zip_const_total (S : ℝ → ℝ → ℝ) (z : ℝ) : ∀ (ys ws : List ℝ), ws.length = ys.length →
    (List.zipWith (· * ·) ((ys.zip (List.replicate ys.length z)).map (fun p => S p.1 p.2)) ws).sum
      = cons_total S (ys.zip ws) z := by
  intro ys
  induction ys with
  | nil => intro ws h; simp [cons_total]
  | cons y ys ih => intro ws h; cases ws with
    | nil => simp at h
    | cons w ws =>
      have := ih ws (by simpa using h)
      simp only [cons_total, List.length_cons, List.replicate_succ, List.zip_cons_cons,
        List.map_cons, List.zipWith_cons_cons, List.sum_cons] at *
      rw [this]; ring

/-- `__call__` on a constant forecast: weighted total over total weight -/
theorem cons_scoreMean_const (k : ScoreKind) (h α : ℝ) (ys ws : List ℝ) (S : ℝ → ℝ → ℝ) (z : ℝ)
    (hS : ∀ y ∈ ys, scorePair k h α y z = .ok (S y z))
    (hw : ws.length = ys.length) (hsum : ws.sum ≠ 0) :
    scoreMean k h α ys (List.replicate ys.length z) (some ws)
      = .ok (cons_total S (ys.zip ws) z / wsum (ys.zip ws)) := by
  rw [scoreMean_ok k h α ys _ ws S (by simp) _ hw hsum, cons_zip_const_total S z ys ws hw,
    cons_wsum_zip ys ws hw]
  intro p hp
  have h1 := (List.of_mem_zip hp).1
  have h2 := List.eq_of_mem_replicate (List.of_mem_zip hp).2
  rw [h2]
  exact hS _ h1

theorem cons_zip_pos {ys ws : List ℝ} (hpos : ∀ w ∈ ws, 0 < w) : ∀ o ∈ ys.zip ws, 0 < o.2 :=
  fun _ ho => hpos _ (List.of_mem_zip ho).2

theorem cons_zip_ne {ys ws : List ℝ} (hne : ys ≠ []) (hw : ws.length = ys.length) :
    ys.zip ws ≠ [] := by
  cases ys with
  | nil => exact absurd rfl hne
  | cons y ys => cases ws with
    | nil => simp at hw
    | cons w ws => simp

/-- comparison of two constant forecasts through `scoreMean` -/
theorem cons_scoreMean_const_le (k : ScoreKind) (h α : ℝ) (ys ws : List ℝ) (S : ℝ → ℝ → ℝ)
    (t c : ℝ) (hne : ys ≠ []) (hw : ws.length = ys.length) (hpos : ∀ w ∈ ws, 0 < w)
    (hSt : ∀ y ∈ ys, scorePair k h α y t = .ok (S y t))
    (hSc : ∀ y ∈ ys, scorePair k h α y c = .ok (S y c))
    (hle : cons_total S (ys.zip ws) t ≤ cons_total S (ys.zip ws) c) :
    ∃ vt vc, scoreMean k h α ys (List.replicate ys.length t) (some ws) = .ok vt ∧
      scoreMean k h α ys (List.replicate ys.length c) (some ws) = .ok vc ∧ vt ≤ vc := by
  have hW := wsum_pos (cons_zip_ne hne hw) (cons_zip_pos (ys := ys) hpos)
  have hsum : ws.sum ≠ 0 := by rw [← cons_wsum_zip ys ws hw]; exact hW.ne'
  exact ⟨_, _, cons_scoreMean_const k h α ys ws S t hSt hw hsum,
    cons_scoreMean_const k h α ys ws S c hSc hw hsum,
    div_le_div_of_nonneg_right hle hW.le⟩

/-! ### `average` -/

theorem cons_average_some_ok {a w : List ℝ} {v : ℝ} (e : average a (some w) = .ok v) :
    w.length = a.length ∧ w.sum ≠ 0 ∧ v = (List.zipWith (· * ·) a w).sum / w.sum := by
  unfold average at e
  simp only [eqK_iff] at e
  by_cases hl : w.length = a.length
  · rw [if_neg (not_not.2 hl)] at e
    by_cases hs : w.sum = 0
    · rw [if_pos hs] at e; cases e
    · rw [if_neg hs] at e
      cases e
      exact ⟨hl, hs, rfl⟩
  · rw [if_pos hl] at e; cases e

theorem cons_average_none_ok {a : List ℝ} {v : ℝ} (e : average a none = .ok v) :
    a ≠ [] ∧ v = a.sum / (a.length : ℝ) := by
  unfold average at e
  by_cases ha : a = []
  · simp only [ha, if_true] at e; cases e
  · simp only [if_neg ha] at e
    cases e
    exact ⟨ha, rfl⟩

theorem cons_sum_map_mul (c : ℝ) (w : List ℝ) : (w.map (c * ·)).sum = c * w.sum := by
  induction w with
  | nil => simp
  | cons x w ih => simp only [List.map_cons, List.sum_cons, ih]; ring

theorem cons_zipWith_scale (c : ℝ) : ∀ (a w : List ℝ),
    (List.zipWith (· * ·) a (w.map (c * ·))).sum = c * (List.zipWith (· * ·) a w).sum := by
  intro a
  induction a with
  | nil => intro w; simp
  | cons x a ih => intro w; cases w with
    | nil => simp
    | cons y w =>
      simp only [List.map_cons, List.zipWith_cons_cons, List.sum_cons, ih w]; ring

/-- `np.average` is invariant under a common non-zero rescaling of the weights, errors included -/
theorem cons_average_scale (a w : List ℝ) (c : ℝ) (hc : c ≠ 0) :
    average a (some (w.map (c * ·))) = average a (some w) := by
  unfold average
  simp only [eqK_iff, List.length_map, cons_sum_map_mul, cons_zipWith_scale, mul_eq_zero, hc,
    false_or]
  by_cases hl : w.length = a.length
  · rw [if_neg (not_not.2 hl), if_neg (not_not.2 hl)]
    by_cases hs : w.sum = 0
    · rw [if_pos hs, if_pos hs]
    · rw [if_neg hs, if_neg hs, mul_div_mul_left _ _ hc]
  · rw [if_pos hl, if_pos hl]

theorem cons_scoreMean_scale (k : ScoreKind) (h α : ℝ) (ys zs ws : List ℝ) (c : ℝ) (hc : c ≠ 0) :
    scoreMean k h α ys zs (some (ws.map (c * ·))) = scoreMean k h α ys zs (some ws) := by
  cases e : scorePerObs k h α ys zs with
  | error er => rw [cons_scoreMean_error _ _ _ _ _ _ er e, cons_scoreMean_error _ _ _ _ _ _ er e]
  | ok per => rw [cons_scoreMean_bind _ _ _ _ _ _ per e, cons_scoreMean_bind _ _ _ _ _ _ per e,
      cons_average_scale _ _ _ hc]

theorem cons_zipWith_ones : ∀ (a : List ℝ),
    (List.zipWith (· * ·) a (List.replicate a.length (1 : ℝ))).sum = a.sum := by
  intro a
  induction a with
  | nil => simp
  | cons x a ih => simp only [List.length_cons, List.replicate_succ, List.zipWith_cons_cons,
      List.sum_cons, ih]; ring

theorem cons_sum_ones (n : ℕ) : (List.replicate n (1 : ℝ)).sum = (n : ℝ) := by
  induction n with
  | zero => simp
  | succ n ih => simp only [List.replicate_succ, List.sum_cons, ih]; push_cast; ring

/-- the unweighted average is the weighted one with unit weights, errors included -/
theorem cons_average_none (a : List ℝ) :
    average a none = average a (some (List.replicate a.length 1)) := by
  unfold average
  simp only [eqK_iff, List.length_replicate, cons_sum_ones, cons_zipWith_ones, ne_eq,
    not_true_eq_false, if_false]
  by_cases ha : a = []
  · subst ha; simp
  · have : (a.length : ℝ) ≠ 0 := by
      have := List.length_pos_iff.mpr ha
      exact_mod_cast this.ne'
    rw [if_neg ha, if_neg this]

theorem cons_scoreMean_none (k : ScoreKind) (h α : ℝ) (ys zs : List ℝ) :
    scoreMean k h α ys zs none = scoreMean k h α ys zs (some (List.replicate ys.length 1)) := by
  cases e : scorePerObs k h α ys zs with
  | error er => rw [cons_scoreMean_error _ _ _ _ _ _ er e, cons_scoreMean_error _ _ _ _ _ _ er e]
  | ok per =>
    rw [cons_scoreMean_bind _ _ _ _ _ _ per e, cons_scoreMean_bind _ _ _ _ _ _ per e,
      cons_average_none, (cons_scorePerObs_length e).1]

/-! ### homogeneity of the expectile family -/

theorem cons_sgn_mul {c x : ℝ} (hc : 0 < c) : sgn (c * x) = sgn x := by
  rcases lt_trichotomy x 0 with hx | hx | hx
  · rw [sgn_of_neg hx, sgn_of_neg (mul_neg_of_pos_of_neg hc hx)]
  · subst hx; simp [sgn]
  · rw [sgn_of_pos hx, sgn_of_pos (mul_pos hc hx)]

theorem cons_abs_mul_rpow {c : ℝ} (hc : 0 < c) (x p : ℝ) : |c * x| ^ p = c ^ p * |x| ^ p := by
  rw [abs_mul, abs_of_pos hc, Real.mul_rpow hc.le (abs_nonneg x)]

theorem cons_hesDom_mul {h c y z : ℝ} (hc : 0 < c) : hesDom h (c * y) (c * z) ↔ hesDom h y z := by
  unfold hesDom
  split_ifs
  · rfl
  · rw [mul_nonneg_iff_of_pos_left hc, mul_pos_iff_of_pos_left hc]
  · rw [mul_pos_iff_of_pos_left hc, mul_pos_iff_of_pos_left hc]

theorem cons_hesDom_nonneg {h y z : ℝ} (h1 : ¬ 1 < h) (d : hesDom h y z) : 0 ≤ y ∧ 0 < z := by
  unfold hesDom at d
  rw [if_neg h1] at d
  split_ifs at d
  · exact d
  · exact ⟨d.1.le, d.2⟩

theorem cons_hesAsym_mul {α c y z : ℝ} (hc : 0 < c) : hesAsym α (c * y) (c * z) = hesAsym α y z := by
  unfold hesAsym
  rw [geInd_mul hc]

theorem cons_hesBase_mul {h c y z : ℝ} (hc : 0 < c) (d : hesDom h y z) :
    hesBase h (c * y) (c * z) = c ^ h * hesBase h y z := by
  unfold hesBase
  by_cases h2 : h = 2
  · subst h2
    simp only [if_true]
    rw [Real.rpow_two]; ring
  rw [if_neg h2, if_neg h2]
  have e : c ^ h = c ^ (h - 1) * c := by
    rw [Real.rpow_sub_one hc.ne']; field_simp
  by_cases h1 : 1 < h
  · rw [if_pos h1, if_pos h1, cons_sgn_mul hc, cons_abs_mul_rpow hc, cons_abs_mul_rpow hc,
      cons_abs_mul_rpow hc, e]
    ring
  rw [if_neg h1, if_neg h1]
  obtain ⟨hy, hz⟩ := cons_hesDom_nonneg h1 d
  by_cases e1 : h = 1
  · subst e1
    simp only [if_true]
    rw [xlogy_real, xlogy_real, mul_div_mul_left _ _ hc.ne', Real.rpow_one]; ring
  rw [if_neg e1, if_neg e1]
  by_cases e0 : h = 0
  · subst e0
    simp only [if_true]
    rw [mul_div_mul_left _ _ hc.ne', Real.rpow_zero, one_mul]
  rw [if_neg e0, if_neg e0, Real.mul_rpow hc.le hy, Real.mul_rpow hc.le hz.le,
    Real.mul_rpow hc.le hz.le, e]
  ring

/-! ### the degrees `1` and `0` as limits of the general formula -/

section Limits
open Filter Topology

/-- numerator of the general base score: `hesBase h y z = 2 N(h) / (h (h − 1))` -/
noncomputable def cons_N (y z h : ℝ) : ℝ := y ^ h - z ^ h - h * z ^ h * ((y - z) / z)

theorem cons_N_hasDerivAt {y z : ℝ} (hy : 0 < y) (hz : 0 < z) (h₀ : ℝ) :
    HasDerivAt (cons_N y z)
      (y ^ h₀ * Real.log y - z ^ h₀ * Real.log z
        - (1 * z ^ h₀ + h₀ * (z ^ h₀ * Real.log z)) * ((y - z) / z)) h₀ := by
  have dy := (Real.hasStrictDerivAt_const_rpow hy h₀).hasDerivAt
  have dz := (Real.hasStrictDerivAt_const_rpow hz h₀).hasDerivAt
  have := (dy.sub dz).sub (((hasDerivAt_id h₀).mul dz).mul_const ((y - z) / z))
  exact this


theorem cons_hesBase_general {h y z : ℝ} (hy : 0 < y) (hz : 0 < z) (h0 : h ≠ 0) (h1 : h ≠ 1)
    (h2 : h ≠ 2) : hesBase h y z = 2 * cons_N y z h / (h * (h - 1)) := by
  have hh1 : h - 1 ≠ 0 := sub_ne_zero.2 h1
  unfold hesBase cons_N
  rw [if_neg h2]
  by_cases hgt : 1 < h
  · rw [if_pos hgt, abs_of_pos hy, abs_of_pos hz, sgn_of_pos hz, Real.rpow_sub_one hz.ne']
    field_simp
  · rw [if_neg hgt, if_neg h1, if_neg h0, Real.rpow_sub_one hz.ne']
    field_simp

theorem cons_N_one (y : ℝ) {z : ℝ} (hz : 0 < z) : cons_N y z 1 = 0 := by
  unfold cons_N
  rw [Real.rpow_one, Real.rpow_one]
  field_simp
  ring

theorem cons_N_zero (y z : ℝ) : cons_N y z 0 = 0 := by
  unfold cons_N
  simp

/-- degree `h → 1`: the general base score tends to the Poisson deviance -/
theorem cons_limit_degree_one {y z : ℝ} (hy : 0 < y) (hz : 0 < z) :
    Tendsto (fun h => hesBase h y z) (𝓝[≠] 1) (𝓝 (hesBase 1 y z)) := by
  have hd := (cons_N_hasDerivAt hy hz 1).tendsto_slope
  have h2 : Tendsto (fun h : ℝ => 2 / h) (𝓝[≠] 1) (𝓝 (2 / 1)) :=
    ((continuousAt_const.div continuousAt_id one_ne_zero).tendsto).mono_left nhdsWithin_le_nhds
  have hm := h2.mul hd
  have hval : 2 / 1 * (y ^ (1 : ℝ) * Real.log y - z ^ (1 : ℝ) * Real.log z
        - (1 * z ^ (1 : ℝ) + 1 * (z ^ (1 : ℝ) * Real.log z)) * ((y - z) / z)) = hesBase 1 y z := by
    unfold hesBase
    rw [if_neg (by norm_num), if_neg (lt_irrefl _), if_pos rfl, xlogy_real,
      Real.log_div hy.ne' hz.ne', Real.rpow_one, Real.rpow_one]
    field_simp
    ring
  rw [hval] at hm
  refine hm.congr' ?_
  have hI : Set.Ioo (0 : ℝ) 2 ∈ 𝓝 (1 : ℝ) := Ioo_mem_nhds (by norm_num) (by norm_num)
  filter_upwards [nhdsWithin_le_nhds hI, self_mem_nhdsWithin] with h hIoo hne
  have hne1 : h ≠ 1 := hne
  have hne0 : h ≠ 0 := hIoo.1.ne'
  have hne2 : h ≠ 2 := hIoo.2.ne
  rw [cons_hesBase_general hy hz hne0 hne1 hne2, slope_def_field, cons_N_one y hz]
  have : h - 1 ≠ 0 := sub_ne_zero.2 hne1
  field_simp
  ring

/-- degree `h → 0`: the general base score tends to the Gamma deviance -/
theorem cons_limit_degree_zero {y z : ℝ} (hy : 0 < y) (hz : 0 < z) :
    Tendsto (fun h => hesBase h y z) (𝓝[≠] 0) (𝓝 (hesBase 0 y z)) := by
  have hd := (cons_N_hasDerivAt hy hz 0).tendsto_slope
  have h2 : Tendsto (fun h : ℝ => 2 / (h - 1)) (𝓝[≠] 0) (𝓝 (2 / (0 - 1))) :=
    ((continuousAt_const.div (continuousAt_id.sub continuousAt_const)
      (by norm_num)).tendsto).mono_left nhdsWithin_le_nhds
  have hm := h2.mul hd
  have hval : 2 / (0 - 1) * (y ^ (0 : ℝ) * Real.log y - z ^ (0 : ℝ) * Real.log z
        - (1 * z ^ (0 : ℝ) + 0 * (z ^ (0 : ℝ) * Real.log z)) * ((y - z) / z)) = hesBase 0 y z := by
    unfold hesBase
    rw [if_neg (by norm_num), if_neg (by norm_num), if_neg (by norm_num), if_pos rfl,
      Real.log_div hy.ne' hz.ne', Real.rpow_zero, Real.rpow_zero]
    field_simp
    ring
  rw [hval] at hm
  refine hm.congr' ?_
  have hI : Set.Ioo (-1 : ℝ) 1 ∈ 𝓝 (0 : ℝ) := Ioo_mem_nhds (by norm_num) (by norm_num)
  filter_upwards [nhdsWithin_le_nhds hI, self_mem_nhdsWithin] with h hIoo hne
  have hne0 : h ≠ 0 := hne
  have hne1 : h ≠ 1 := hIoo.2.ne
  have hne2 : h ≠ 2 := by have := hIoo.2; intro e; rw [e] at this; norm_num at this
  rw [cons_hesBase_general hy hz hne0 hne1 hne2, slope_def_field, cons_N_zero, sub_zero, sub_zero]
  have : h - 1 ≠ 0 := sub_ne_zero.2 hne1
  field_simp

/-- degree `h → 0` in the quantile family: `(z^h − y^h)/h → log z − log y` -/
theorem cons_limit_gfun_zero {y z : ℝ} (hy : 0 < y) (hz : 0 < z) :
    Tendsto (fun h => gfun h z - gfun h y) (𝓝[≠] 0) (𝓝 (Real.log z - Real.log y)) := by
  have dy := (Real.hasStrictDerivAt_const_rpow hy 0).hasDerivAt
  have dz := (Real.hasStrictDerivAt_const_rpow hz 0).hasDerivAt
  have hd := (dz.sub dy).tendsto_slope
  rw [Real.rpow_zero, Real.rpow_zero, one_mul, one_mul] at hd
  refine hd.congr' ?_
  have hI : Set.Ioo (-1 : ℝ) 1 ∈ 𝓝 (0 : ℝ) := Ioo_mem_nhds (by norm_num) (by norm_num)
  filter_upwards [nhdsWithin_le_nhds hI, self_mem_nhdsWithin] with h hIoo hne
  have hne0 : h ≠ 0 := hne
  have hne1 : h ≠ 1 := hIoo.2.ne
  rw [gfun_of_ne hne1 hne0, gfun_of_ne hne1 hne0, slope_def_field]
  simp only [Pi.sub_apply, Real.rpow_zero, sub_self, sub_zero]
  field_simp

end Limits

/-! ### sample-level consistency and order sensitivity -/

theorem cons_mean_consistent (h : ℝ) {d : List (Obs ℝ)} (hne : d ≠ []) (hpos : ∀ o ∈ d, 0 < o.2)
    (c : ℝ) (dm : ∀ o ∈ d, hesDom h o.1 (wmean d)) (dc : ∀ o ∈ d, hesDom h o.1 c) :
    cons_total (hesVal h (1 / 2)) d (wmean d) ≤ cons_total (hesVal h (1 / 2)) d c := by
  rw [cons_mean_identity h hne hpos c]
  have := mul_nonneg (wsum_pos hne hpos).le (mul_nonneg (by norm_num : (0 : ℝ) ≤ 2)
    (hesBreg_nonneg (cons_hesDom_consts hne dm dc)))
  linarith

theorem cons_expectile_consistent {h α : ℝ} {d : List (Obs ℝ)} (hα0 : 0 < α) (hα1 : α < 1)
    (hne : d ≠ []) (hpos : ∀ o ∈ d, 0 < o.2) (c : ℝ)
    (dt : ∀ o ∈ d, hesDom h o.1 (expectile α d)) (dc : ∀ o ∈ d, hesDom h o.1 c) :
    cons_total (hesVal h α) d (expectile α d) ≤ cons_total (hesVal h α) d c := by
  have := cons_expectile_total_diff d hα0 hα1 (fun o ho => (hpos o ho).le) dt dc
  rw [eSum_expectile α hα0 hα1 d hne hpos, zero_mul] at this
  linarith

/-- a forecast between the expectile and another forecast is never worse than the latter -/
theorem cons_expectile_better {h α c₁ c₂ : ℝ} {d : List (Obs ℝ)} (hα0 : 0 < α) (hα1 : α < 1)
    (hne : d ≠ []) (hpos : ∀ o ∈ d, 0 < o.2)
    (d1 : ∀ o ∈ d, hesDom h o.1 c₁) (d2 : ∀ o ∈ d, hesDom h o.1 c₂)
    (hord : (expectile α d ≤ c₁ ∧ c₁ ≤ c₂) ∨ (c₂ ≤ c₁ ∧ c₁ ≤ expectile α d)) :
    cons_total (hesVal h α) d c₁ ≤ cons_total (hesVal h α) d c₂ := by
  have key := cons_expectile_total_diff d hα0 hα1 (fun o ho => (hpos o ho).le) d1 d2
  have r := eSum_expectile α hα0 hα1 d hne hpos
  have d12 := cons_hesDom_consts hne d1 d2
  have d21 := cons_hesDom_consts hne d2 d1
  rcases hord with ⟨a, b⟩ | ⟨a, b⟩
  · have m := eSum_mono α hα0 hα1 d hpos a
    rw [r] at m
    have p := hesPhi'_mono d12 d21 b
    have := mul_nonneg m (by linarith : (0 : ℝ) ≤ 4 * (hesPhi' h c₂ - hesPhi' h c₁))
    linarith
  · have m := eSum_mono α hα0 hα1 d hpos b
    rw [r] at m
    have p := hesPhi'_mono d21 d12 a
    have := mul_nonneg_of_nonpos_of_nonpos m
      (by linarith : 4 * (hesPhi' h c₂ - hesPhi' h c₁) ≤ (0 : ℝ))
    linarith

theorem cons_half_level : (0 : ℝ) < 1 / 2 ∧ (1 / 2 : ℝ) < 1 := by constructor <;> norm_num

theorem cons_mean_better {h c₁ c₂ : ℝ} {d : List (Obs ℝ)}
    (hne : d ≠ []) (hpos : ∀ o ∈ d, 0 < o.2)
    (d1 : ∀ o ∈ d, hesDom h o.1 c₁) (d2 : ∀ o ∈ d, hesDom h o.1 c₂)
    (hord : (wmean d ≤ c₁ ∧ c₁ ≤ c₂) ∨ (c₂ ≤ c₁ ∧ c₁ ≤ wmean d)) :
    cons_total (hesVal h (1 / 2)) d c₁ ≤ cons_total (hesVal h (1 / 2)) d c₂ := by
  rw [← expectile_half d hne hpos] at hord
  exact cons_expectile_better cons_half_level.1 cons_half_level.2 hne hpos d1 d2 hord

theorem cons_quantile_consistent {h α t c : ℝ} (d : List (Obs ℝ)) (hw : ∀ o ∈ d, 0 ≤ o.2)
    (dt : ∀ o ∈ d, hqsDom h o.1 t) (dc : ∀ o ∈ d, hqsDom h o.1 c)
    (hlo : (d.map (fun o => o.2 * ((if o.1 < t then (1 : ℝ) else 0) - α))).sum ≤ 0)
    (hhi : 0 ≤ (d.map (fun o => o.2 * ((if o.1 ≤ t then (1 : ℝ) else 0) - α))).sum) :
    cons_total (hqsVal h α) d t ≤ cons_total (hqsVal h α) d c := by
  by_cases hne : d = []
  · subst hne; simp [cons_total]
  have dtc := cons_hqsDom_consts hne dt dc
  rcases le_total t c with htc | hct
  · have k := cons_quantile_total_up (α := α) d hw dt dc htc
    have g := gfun_le dtc htc
    have := mul_nonneg hhi (by linarith : (0 : ℝ) ≤ gfun h c - gfun h t)
    linarith
  · have k := cons_quantile_total_dn (α := α) d hw dt dc hct
    have g := gfun_le (hqsDom_symm dtc) hct
    have := mul_nonneg_of_nonpos_of_nonpos hlo (by linarith : gfun h c - gfun h t ≤ (0 : ℝ))
    linarith

theorem cons_quantile_better {h α t c₁ c₂ : ℝ} (d : List (Obs ℝ)) (hw : ∀ o ∈ d, 0 ≤ o.2)
    (d1 : ∀ o ∈ d, hqsDom h o.1 c₁) (d2 : ∀ o ∈ d, hqsDom h o.1 c₂)
    (hlo : (d.map (fun o => o.2 * ((if o.1 < t then (1 : ℝ) else 0) - α))).sum ≤ 0)
    (hhi : 0 ≤ (d.map (fun o => o.2 * ((if o.1 ≤ t then (1 : ℝ) else 0) - α))).sum)
    (hord : (t ≤ c₁ ∧ c₁ ≤ c₂) ∨ (c₂ ≤ c₁ ∧ c₁ ≤ t)) :
    cons_total (hqsVal h α) d c₁ ≤ cons_total (hqsVal h α) d c₂ := by
  by_cases hne : d = []
  · subst hne; simp [cons_total]
  have d12 := cons_hqsDom_consts hne d1 d2
  rcases hord with ⟨a, b⟩ | ⟨a, b⟩
  · have k := cons_quantile_total_up (α := α) d hw d1 d2 b
    have g := gfun_le d12 b
    have m := cons_qsumLe_mono (α := α) d hw a
    have := mul_nonneg (le_trans hhi m) (by linarith : (0 : ℝ) ≤ gfun h c₂ - gfun h c₁)
    linarith
  · have k := cons_quantile_total_dn (α := α) d hw d1 d2 a
    have g := gfun_le (hqsDom_symm d12) a
    have m := cons_qsumLt_mono (α := α) d hw b
    have := mul_nonneg_of_nonpos_of_nonpos (le_trans m hlo)
      (by linarith : gfun h c₂ - gfun h c₁ ≤ (0 : ℝ))
    linarith

/-- unit weights: every point of `[qLower, qUpper]` satisfies the two counting conditions -/
theorem cons_quantile_interval_unit {α t : ℝ} (hα0 : 0 < α) (hα1 : α < 1) {d : List (Obs ℝ)}
    (hne : d ≠ []) (h1 : ∀ o ∈ d, o.2 = 1) (hl : qLower α d ≤ t) (hu : t ≤ qUpper α d) :
    (d.map (fun o => o.2 * ((if o.1 < t then (1 : ℝ) else 0) - α))).sum ≤ 0 ∧
    0 ≤ (d.map (fun o => o.2 * ((if o.1 ≤ t then (1 : ℝ) else 0) - α))).sum := by
  rw [cons_qsumLt_unit α d h1, cons_qsumLe_unit α d h1]
  have a := cntLt_le_of_le_qUpper α hα0 d hne t hu
  have b := cntLe_ge_of_qLower_le α hα1 d hne t hl
  constructor <;> linarith

theorem cons_logloss_consistent {d : List (Obs ℝ)} (hne : d ≠ []) (hpos : ∀ o ∈ d, 0 < o.2)
    (c : ℝ) (hm0 : 0 < wmean d) (hm1 : wmean d < 1) (hc0 : 0 < c) (hc1 : c < 1) :
    cons_total logLoss d (wmean d) ≤ cons_total logLoss d c := by
  rw [cons_logloss_identity hne hpos c hm0 hm1 hc0 hc1]
  have := mul_nonneg (wsum_pos hne hpos).le (cons_logLoss_nonneg hm0.le hm1.le hc0 hc1)
  linarith

theorem cons_logloss_better {d : List (Obs ℝ)} (hne : d ≠ []) (hpos : ∀ o ∈ d, 0 < o.2)
    (c₁ c₂ : ℝ) (hm0 : 0 < wmean d) (hm1 : wmean d < 1) (h10 : 0 < c₁) (h11 : c₁ < 1)
    (h20 : 0 < c₂) (h21 : c₂ < 1)
    (hord : (wmean d ≤ c₁ ∧ c₁ ≤ c₂) ∨ (c₂ ≤ c₁ ∧ c₁ ≤ wmean d)) :
    cons_total logLoss d c₁ ≤ cons_total logLoss d c₂ := by
  rw [cons_logloss_identity hne hpos c₁ hm0 hm1 h10 h11,
    cons_logloss_identity hne hpos c₂ hm0 hm1 h20 h21]
  have m : logLoss (wmean d) c₁ ≤ logLoss (wmean d) c₂ := by
    apply logLoss_mono hm0.le hm1.le h10 h11 h20 h21
    rcases hord with ⟨a, b⟩ | ⟨a, b⟩
    · exact mul_nonneg (by linarith) (by linarith)
    · exact mul_nonneg_of_nonpos_of_nonpos (by linarith) (by linarith)
  have := mul_le_mul_of_nonneg_left m (wsum_pos hne hpos).le
  linarith

theorem cons_wysum_pos {d : List (Obs ℝ)} (hne : d ≠ []) (hpos : ∀ o ∈ d, 0 < o.2)
    (hy : ∀ o ∈ d, 0 < o.1) : 0 < wysum d := by
  induction d with
  | nil => exact absurd rfl hne
  | cons o d ih =>
    have h1 := mul_pos (hy o (by simp)) (hpos o (by simp))
    by_cases hd : d = []
    · subst hd; simpa [wysum] using h1
    · have := ih hd (fun o' ho' => hpos o' (by simp [ho'])) (fun o' ho' => hy o' (by simp [ho']))
      simp only [wysum, List.map_cons, List.sum_cons] at *
      linarith

theorem cons_wmean_pos {d : List (Obs ℝ)} (hne : d ≠ []) (hpos : ∀ o ∈ d, 0 < o.2)
    (hy : ∀ o ∈ d, 0 < o.1) : 0 < wmean d :=
  div_pos (cons_wysum_pos hne hpos hy) (wsum_pos hne hpos)


/-! ### log loss at the boundary means `0`, `1` -/

theorem cons_sum_wf_nonneg (f : Obs ℝ → ℝ) {d : List (Obs ℝ)} (hpos : ∀ o ∈ d, 0 < o.2)
    (hf : ∀ o ∈ d, 0 ≤ f o) : 0 ≤ (d.map (fun o => o.2 * f o)).sum := by
  apply List.sum_nonneg
  intro x hx
  obtain ⟨o, ho, rfl⟩ := List.mem_map.1 hx
  exact mul_nonneg (hpos o ho).le (hf o ho)

theorem cons_all_zero_of_sum_zero (f : Obs ℝ → ℝ) {d : List (Obs ℝ)} (hpos : ∀ o ∈ d, 0 < o.2)
    (hf : ∀ o ∈ d, 0 ≤ f o) (h0 : (d.map (fun o => o.2 * f o)).sum = 0) : ∀ o ∈ d, f o = 0 := by
  induction d with
  | nil => intro o ho; simp at ho
  | cons a d ih =>
    have hpos' : ∀ o ∈ d, 0 < o.2 := fun o ho => hpos o (by simp [ho])
    have hf' : ∀ o ∈ d, 0 ≤ f o := fun o ho => hf o (by simp [ho])
    have r := cons_sum_wf_nonneg f hpos' hf'
    have a0 := mul_nonneg (hpos a (by simp)).le (hf a (by simp))
    rw [List.map_cons, List.sum_cons] at h0
    have e1 : a.2 * f a = 0 := by linarith
    have e2 : (d.map (fun o => o.2 * f o)).sum = 0 := by linarith
    intro o ho
    rcases List.mem_cons.1 ho with rfl | ho
    · rcases mul_eq_zero.1 e1 with h | h
      · exact absurd h (hpos o (by simp)).ne'
      · exact h
    · exact ih hpos' hf' e2 o ho

/-- a weighted mean that bounds all observations from one side equals all of them -/
theorem cons_all_eq_mean_of_sign {d : List (Obs ℝ)} (hne : d ≠ []) (hpos : ∀ o ∈ d, 0 < o.2)
    (hs : (∀ o ∈ d, wmean d ≤ o.1) ∨ (∀ o ∈ d, o.1 ≤ wmean d)) : ∀ o ∈ d, o.1 = wmean d := by
  have R := cons_sum_affine d 0 1 (wmean d)
  rw [cons_wmean_resid hne hpos] at R
  rcases hs with hs | hs
  · have := cons_all_zero_of_sum_zero (fun o => o.1 - wmean d) hpos
      (fun o ho => by have := hs o ho; show 0 ≤ o.1 - wmean d; linarith)
      (by
        rw [← R.trans (by ring : (0 : ℝ) * wsum d + 1 * 0 = 0)]
        congr 1; apply List.map_congr_left; intro o _; ring)
    intro o ho
    have := this o ho
    linarith
  · have := cons_all_zero_of_sum_zero (fun o => wmean d - o.1) hpos
      (fun o ho => by have := hs o ho; show 0 ≤ wmean d - o.1; linarith)
      (by
        have e : (d.map (fun o => o.2 * (wmean d - o.1))).sum
            = - (d.map (fun o => o.2 * (0 + 1 * (o.1 - wmean d)))).sum := by
          rw [← sum_map_neg']
          rw [List.map_map]
          congr 1; apply List.map_congr_left; intro o _; simp only [Function.comp]; ring
        rw [e, R]; ring)
    intro o ho
    have := this o ho
    linarith

theorem cons_wmean_mem_unit {d : List (Obs ℝ)} (hne : d ≠ []) (hpos : ∀ o ∈ d, 0 < o.2)
    (hy : ∀ o ∈ d, 0 ≤ o.1 ∧ o.1 ≤ 1) : 0 ≤ wmean d ∧ wmean d ≤ 1 := by
  have hW := wsum_pos hne hpos
  have R0 := cons_sum_affine d 0 1 0
  have R1 := cons_sum_affine d 0 1 1
  have a := cons_sum_wf_nonneg (fun o => 0 + 1 * (o.1 - 0)) hpos
    (fun o ho => by have := (hy o ho).1; show 0 ≤ 0 + 1 * (o.1 - 0); linarith)
  have b := cons_sum_wf_nonneg (fun o => -(0 + 1 * (o.1 - 1))) hpos
    (fun o ho => by have := (hy o ho).2; show 0 ≤ -(0 + 1 * (o.1 - 1)); linarith)
  have e : (d.map (fun o => o.2 * -(0 + 1 * (o.1 - 1)))).sum
      = - (d.map (fun o => o.2 * (0 + 1 * (o.1 - 1)))).sum := by
    rw [← sum_map_neg', List.map_map]
    congr 1; apply List.map_congr_left; intro o _; simp only [Function.comp]; ring
  rw [e, R1] at b
  rw [R0] at a
  rw [wmean]
  constructor
  · apply div_nonneg _ hW.le; linarith
  · rw [div_le_one hW]; linarith

theorem cons_total_of_all_eq (S : ℝ → ℝ → ℝ) {d : List (Obs ℝ)} {m : ℝ}
    (hall : ∀ o ∈ d, o.1 = m) (c : ℝ) : cons_total S d c = wsum d * S m c := by
  have e : cons_total S d c = (d.map (fun o => o.2 * S m c)).sum := by
    unfold cons_total
    congr 1; apply List.map_congr_left; intro o ho; rw [hall o ho]
  rw [e, sum_map_mul_const (fun o => o.2) (S m c) d]
  rfl

theorem cons_wmean_of_all_eq {d : List (Obs ℝ)} (hne : d ≠ []) (hpos : ∀ o ∈ d, 0 < o.2) {m : ℝ}
    (hall : ∀ o ∈ d, o.1 = m) : wmean d = m := by
  have hW := wsum_pos hne hpos
  have R := cons_sum_affine d 0 1 m
  have z : (d.map (fun o => o.2 * (0 + 1 * (o.1 - m)))).sum = 0 := by
    apply List.sum_eq_zero
    intro x hx
    obtain ⟨o, ho, rfl⟩ := List.mem_map.1 hx
    rw [hall o ho]; ring
  rw [z] at R
  rw [wmean, div_eq_iff hW.ne']
  linarith

/-- the log-loss decomposition for every sample with `y ∈ [0,1]` (the mean may be `0` or `1`) -/
theorem cons_logloss_identity_all {d : List (Obs ℝ)} (hne : d ≠ []) (hpos : ∀ o ∈ d, 0 < o.2)
    (hy : ∀ o ∈ d, 0 ≤ o.1 ∧ o.1 ≤ 1) (c : ℝ) (hc0 : 0 < c) (hc1 : c < 1) :
    cons_total logLoss d c = cons_total logLoss d (wmean d) + wsum d * logLoss (wmean d) c := by
  obtain ⟨m0, m1⟩ := cons_wmean_mem_unit hne hpos hy
  have hzero : (∀ o ∈ d, o.1 = wmean d) →
      cons_total logLoss d c
        = cons_total logLoss d (wmean d) + wsum d * logLoss (wmean d) c := by
    intro hall
    rw [cons_total_of_all_eq logLoss hall c, cons_total_of_all_eq logLoss hall (wmean d)]
    have : logLoss (wmean d) (wmean d) = 0 := by rw [logLoss_real]; ring
    rw [this]; ring
  rcases eq_or_lt_of_le m0 with e0 | l0
  · exact hzero (cons_all_eq_mean_of_sign hne hpos
      (Or.inl (fun o ho => by rw [← e0]; exact (hy o ho).1)))
  rcases eq_or_lt_of_le m1 with e1 | l1
  · exact hzero (cons_all_eq_mean_of_sign hne hpos
      (Or.inr (fun o ho => by rw [e1]; exact (hy o ho).2)))
  exact cons_logloss_identity hne hpos c l0 l1 hc0 hc1

/-- log loss, all samples with `y ∈ [0,1]`: the weighted mean (which may be `0` or `1`) is never
worse than a forecast `c ∈ (0,1)` -/
theorem cons_logloss_consistent_all {d : List (Obs ℝ)} (hne : d ≠ []) (hpos : ∀ o ∈ d, 0 < o.2)
    (hy : ∀ o ∈ d, 0 ≤ o.1 ∧ o.1 ≤ 1) (c : ℝ) (hc0 : 0 < c) (hc1 : c < 1) :
    cons_total logLoss d (wmean d) ≤ cons_total logLoss d c := by
  obtain ⟨m0, m1⟩ := cons_wmean_mem_unit hne hpos hy
  rw [cons_logloss_identity_all hne hpos hy c hc0 hc1]
  have := mul_nonneg (wsum_pos hne hpos).le (cons_logLoss_nonneg m0 m1 hc0 hc1)
  linarith

theorem cons_logloss_better_all {d : List (Obs ℝ)} (hne : d ≠ []) (hpos : ∀ o ∈ d, 0 < o.2)
    (hy : ∀ o ∈ d, 0 ≤ o.1 ∧ o.1 ≤ 1) (c₁ c₂ : ℝ) (h10 : 0 < c₁) (h11 : c₁ < 1)
    (h20 : 0 < c₂) (h21 : c₂ < 1)
    (hord : (wmean d ≤ c₁ ∧ c₁ ≤ c₂) ∨ (c₂ ≤ c₁ ∧ c₁ ≤ wmean d)) :
    cons_total logLoss d c₁ ≤ cons_total logLoss d c₂ := by
  obtain ⟨m0, m1⟩ := cons_wmean_mem_unit hne hpos hy
  rw [cons_logloss_identity_all hne hpos hy c₁ h10 h11,
    cons_logloss_identity_all hne hpos hy c₂ h20 h21]
  have m : logLoss (wmean d) c₁ ≤ logLoss (wmean d) c₂ := by
    apply logLoss_mono m0 m1 h10 h11 h20 h21
    rcases hord with ⟨a, b⟩ | ⟨a, b⟩
    · exact mul_nonneg (by linarith) (by linarith)
    · exact mul_nonneg_of_nonpos_of_nonpos (by linarith) (by linarith)
  have := mul_le_mul_of_nonneg_left m (wsum_pos hne hpos).le
  linarith

/-! ### all scoring functions of the library at once -/

/-- the pairs (and level) a library scoring function accepts; for the log loss (no check in the
code): the range on which the real model agrees with numpy, i.e. `y ∈ [0,1]` and either
`z ∈ (0,1)` or the perfect boundary forecasts `y = z ∈ {0, 1}` -/
def scoreDom (k : ScoreKind) (h α y z : ℝ) : Prop :=
  match k with
  | .hes => (0 < α ∧ α < 1) ∧ hesDom h y z
  | .hqs => (0 < α ∧ α < 1) ∧ hqsDom h y z
  | .logloss => (0 ≤ y ∧ y ≤ 1) ∧ ((0 < z ∧ z < 1) ∨ y = z)
  | .squaredError => True
  | .poisson => 0 ≤ y ∧ 0 < z
  | .gamma => 0 < y ∧ 0 < z
  | .pinball => 0 < α ∧ α < 1

/-- the real value of a library scoring function on its domain -/
noncomputable def scoreVal (k : ScoreKind) (h α y z : ℝ) : ℝ :=
  match k with
  | .hes => hesVal h α y z
  | .hqs => hqsVal h α y z
  | .logloss => logLoss y z
  | .squaredError => hesVal 2 (1 / 2) y z
  | .poisson => hesVal 1 (1 / 2) y z
  | .gamma => hesVal 0 (1 / 2) y z
  | .pinball => hqsVal 1 α y z

/-- `t` is (a version of) the target functional of the scoring function on the sample `d` -/
def isTarget (k : ScoreKind) (α : ℝ) (d : List (Obs ℝ)) (t : ℝ) : Prop :=
  match k with
  | .hes => t = expectile α d
  | .hqs | .pinball =>
    (d.map (fun o => o.2 * ((if o.1 < t then (1 : ℝ) else 0) - α))).sum ≤ 0 ∧
    0 ≤ (d.map (fun o => o.2 * ((if o.1 ≤ t then (1 : ℝ) else 0) - α))).sum
  | .logloss | .squaredError | .poisson | .gamma => t = wmean d

theorem cons_hesDom_two (y z : ℝ) : hesDom 2 y z := by
  unfold hesDom; rw [if_pos (by norm_num)]; trivial

theorem cons_hesDom_one {y z : ℝ} : hesDom 1 y z ↔ 0 ≤ y ∧ 0 < z := by
  unfold hesDom; rw [if_neg (lt_irrefl _), if_pos one_pos]

theorem cons_hesDom_zero {y z : ℝ} : hesDom 0 y z ↔ 0 < y ∧ 0 < z := by
  unfold hesDom; rw [if_neg (by norm_num), if_neg (lt_irrefl _)]

theorem cons_scorePair_ok {k : ScoreKind} {h α y z : ℝ} (d : scoreDom k h α y z) :
    scorePair k h α y z = .ok (scoreVal k h α y z) := by
  cases k with
  | hes =>
    show (if levelOk α then hes h α y z else throw Err.valueError) = _
    rw [if_pos (show levelOk α from d.1)]; exact cons_hes_ok d.2
  | hqs =>
    show (if levelOk α then hqs h α y z else throw Err.valueError) = _
    rw [if_pos (show levelOk α from d.1)]; exact hqs_closed' d.2
  | logloss => rfl
  | squaredError =>
    show hes two half y z = _
    rw [two_real, half_real]; exact cons_hes_ok (cons_hesDom_two y z)
  | poisson =>
    show hes 1 half y z = _
    rw [half_real]; exact cons_hes_ok (cons_hesDom_one.2 d)
  | gamma =>
    show hes 0 half y z = _
    rw [half_real]; exact cons_hes_ok (cons_hesDom_zero.2 d)
  | pinball =>
    show (if levelOk α then hqs 1 α y z else throw Err.valueError) = _
    rw [if_pos (show levelOk α from d)]; exact hqs_closed' (Or.inl rfl)

/-- consistency of every library score for its target functional, weighted totals -/
theorem cons_consistent_total (k : ScoreKind) (h α : ℝ) {d : List (Obs ℝ)} (hne : d ≠ [])
    (hpos : ∀ o ∈ d, 0 < o.2) (t c : ℝ) (ht : isTarget k α d t)
    (dt : ∀ o ∈ d, scoreDom k h α o.1 t) (dc : ∀ o ∈ d, scoreDom k h α o.1 c) :
    cons_total (scoreVal k h α) d t ≤ cons_total (scoreVal k h α) d c := by
  obtain ⟨o₀, ho₀⟩ := List.exists_mem_of_ne_nil d hne
  have hw : ∀ o ∈ d, 0 ≤ o.2 := fun o ho => (hpos o ho).le
  cases k with
  | hes =>
    have hα := (dt o₀ ho₀).1
    have ht' : t = expectile α d := ht
    subst ht'
    exact cons_expectile_consistent hα.1 hα.2 hne hpos c (fun o ho => (dt o ho).2)
      (fun o ho => (dc o ho).2)
  | hqs =>
    exact cons_quantile_consistent d hw (fun o ho => (dt o ho).2) (fun o ho => (dc o ho).2)
      ht.1 ht.2
  | logloss =>
    have ht' : t = wmean d := ht
    subst ht'
    by_cases hc : 0 < c ∧ c < 1
    · exact cons_logloss_consistent_all hne hpos (fun o ho => (dc o ho).1) c hc.1 hc.2
    · have hall : ∀ o ∈ d, o.1 = c := fun o ho => ((dc o ho).2).resolve_left hc
      rw [cons_wmean_of_all_eq hne hpos hall]
  | squaredError =>
    have ht' : t = wmean d := ht
    subst ht'
    exact cons_mean_consistent 2 hne hpos c (fun o _ => cons_hesDom_two _ _)
      (fun o _ => cons_hesDom_two _ _)
  | poisson =>
    have ht' : t = wmean d := ht
    subst ht'
    exact cons_mean_consistent 1 hne hpos c (fun o ho => cons_hesDom_one.2 (dt o ho))
      (fun o ho => cons_hesDom_one.2 (dc o ho))
  | gamma =>
    have ht' : t = wmean d := ht
    subst ht'
    exact cons_mean_consistent 0 hne hpos c (fun o ho => cons_hesDom_zero.2 (dt o ho))
      (fun o ho => cons_hesDom_zero.2 (dc o ho))
  | pinball =>
    exact cons_quantile_consistent d hw (fun o _ => Or.inl rfl) (fun o _ => Or.inl rfl)
      ht.1 ht.2

/-- … and through `scoreMean` (the `__call__` of the scoring classes) -/
theorem cons_consistent_scoreMean (k : ScoreKind) (h α : ℝ) (ys ws : List ℝ) (t c : ℝ)
    (hne : ys ≠ []) (hw : ws.length = ys.length) (hpos : ∀ w ∈ ws, 0 < w)
    (ht : isTarget k α (ys.zip ws) t)
    (dt : ∀ y ∈ ys, scoreDom k h α y t) (dc : ∀ y ∈ ys, scoreDom k h α y c) :
    ∃ vt vc, scoreMean k h α ys (List.replicate ys.length t) (some ws) = .ok vt ∧
      scoreMean k h α ys (List.replicate ys.length c) (some ws) = .ok vc ∧ vt ≤ vc := by
  apply cons_scoreMean_const_le k h α ys ws (scoreVal k h α) t c hne hw hpos
    (fun y hy => cons_scorePair_ok (dt y hy)) (fun y hy => cons_scorePair_ok (dc y hy))
  exact cons_consistent_total k h α (cons_zip_ne hne hw) (cons_zip_pos (ys := ys) hpos) t c ht
    (fun o ho => dt _ (List.of_mem_zip ho).1) (fun o ho => dc _ (List.of_mem_zip ho).1)

/-- unweighted call (`weights=None`) -/
theorem cons_consistent_scoreMean_none (k : ScoreKind) (h α : ℝ) (ys : List ℝ) (t c : ℝ)
    (hne : ys ≠ []) (ht : isTarget k α (ys.zip (List.replicate ys.length 1)) t)
    (dt : ∀ y ∈ ys, scoreDom k h α y t) (dc : ∀ y ∈ ys, scoreDom k h α y c) :
    ∃ vt vc, scoreMean k h α ys (List.replicate ys.length t) none = .ok vt ∧
      scoreMean k h α ys (List.replicate ys.length c) none = .ok vc ∧ vt ≤ vc := by
  rw [cons_scoreMean_none, cons_scoreMean_none]
  exact cons_consistent_scoreMean k h α ys _ t c hne (by simp)
    (fun w hw => by rw [List.eq_of_mem_replicate hw]; exact one_pos) ht dt dc


/-- order sensitivity on the sample level ("a better forecast is never scored worse"): a constant
forecast between the target functional and another constant forecast has a total score not larger
than the latter -/
theorem cons_better_total (k : ScoreKind) (h α : ℝ) {d : List (Obs ℝ)} (hne : d ≠ [])
    (hpos : ∀ o ∈ d, 0 < o.2) (t c₁ c₂ : ℝ) (ht : isTarget k α d t)
    (dt : ∀ o ∈ d, scoreDom k h α o.1 t)
    (d1 : ∀ o ∈ d, scoreDom k h α o.1 c₁) (d2 : ∀ o ∈ d, scoreDom k h α o.1 c₂)
    (hord : (t ≤ c₁ ∧ c₁ ≤ c₂) ∨ (c₂ ≤ c₁ ∧ c₁ ≤ t)) :
    cons_total (scoreVal k h α) d c₁ ≤ cons_total (scoreVal k h α) d c₂ := by
  obtain ⟨o₀, ho₀⟩ := List.exists_mem_of_ne_nil d hne
  have hw : ∀ o ∈ d, 0 ≤ o.2 := fun o ho => (hpos o ho).le
  cases k with
  | hes =>
    have hα := (dt o₀ ho₀).1
    have ht' : t = expectile α d := ht
    subst ht'
    exact cons_expectile_better hα.1 hα.2 hne hpos (fun o ho => (d1 o ho).2)
      (fun o ho => (d2 o ho).2) hord
  | hqs =>
    exact cons_quantile_better d hw (fun o ho => (d1 o ho).2) (fun o ho => (d2 o ho).2)
      ht.1 ht.2 hord
  | logloss =>
    have ht' : t = wmean d := ht
    subst ht'
    have hy : ∀ o ∈ d, 0 ≤ o.1 ∧ o.1 ≤ 1 := fun o ho => (d1 o ho).1
    by_cases h2 : 0 < c₂ ∧ c₂ < 1
    · by_cases h1 : 0 < c₁ ∧ c₁ < 1
      · exact cons_logloss_better_all hne hpos hy c₁ c₂ h1.1 h1.2 h2.1 h2.2 hord
      · have hall : ∀ o ∈ d, o.1 = c₁ := fun o ho => ((d1 o ho).2).resolve_left h1
        rw [← cons_wmean_of_all_eq hne hpos hall]
        exact cons_logloss_consistent_all hne hpos hy c₂ h2.1 h2.2
    · have hall : ∀ o ∈ d, o.1 = c₂ := fun o ho => ((d2 o ho).2).resolve_left h2
      have hm := cons_wmean_of_all_eq hne hpos hall
      have : c₁ = c₂ := by
        rcases hord with ⟨a, b⟩ | ⟨a, b⟩ <;> linarith
      rw [this]
  | squaredError =>
    have ht' : t = wmean d := ht
    subst ht'
    exact cons_mean_better hne hpos (fun o _ => cons_hesDom_two _ _)
      (fun o _ => cons_hesDom_two _ _) hord
  | poisson =>
    have ht' : t = wmean d := ht
    subst ht'
    exact cons_mean_better hne hpos (fun o ho => cons_hesDom_one.2 (d1 o ho))
      (fun o ho => cons_hesDom_one.2 (d2 o ho)) hord
  | gamma =>
    have ht' : t = wmean d := ht
    subst ht'
    exact cons_mean_better hne hpos (fun o ho => cons_hesDom_zero.2 (d1 o ho))
      (fun o ho => cons_hesDom_zero.2 (d2 o ho)) hord
  | pinball =>
    exact cons_quantile_better d hw (fun o _ => Or.inl rfl) (fun o _ => Or.inl rfl)
      ht.1 ht.2 hord

theorem cons_better_scoreMean (k : ScoreKind) (h α : ℝ) (ys ws : List ℝ) (t c₁ c₂ : ℝ)
    (hne : ys ≠ []) (hw : ws.length = ys.length) (hpos : ∀ w ∈ ws, 0 < w)
    (ht : isTarget k α (ys.zip ws) t) (dt : ∀ y ∈ ys, scoreDom k h α y t)
    (d1 : ∀ y ∈ ys, scoreDom k h α y c₁) (d2 : ∀ y ∈ ys, scoreDom k h α y c₂)
    (hord : (t ≤ c₁ ∧ c₁ ≤ c₂) ∨ (c₂ ≤ c₁ ∧ c₁ ≤ t)) :
    ∃ v₁ v₂, scoreMean k h α ys (List.replicate ys.length c₁) (some ws) = .ok v₁ ∧
      scoreMean k h α ys (List.replicate ys.length c₂) (some ws) = .ok v₂ ∧ v₁ ≤ v₂ := by
  apply cons_scoreMean_const_le k h α ys ws (scoreVal k h α) c₁ c₂ hne hw hpos
    (fun y hy => cons_scorePair_ok (d1 y hy)) (fun y hy => cons_scorePair_ok (d2 y hy))
  exact cons_better_total k h α (cons_zip_ne hne hw) (cons_zip_pos (ys := ys) hpos) t c₁ c₂ ht
    (fun o ho => dt _ (List.of_mem_zip ho).1)
    (fun o ho => d1 _ (List.of_mem_zip ho).1) (fun o ho => d2 _ (List.of_mem_zip ho).1) hord

/-! ### explicit values at level `1/2` -/

theorem cons_hesVal_half_base {h y z : ℝ} (d : hesDom h y z) :
    hesVal h (1 / 2) y z = hesBase h y z := by
  rw [cons_hesVal_half, hesBase_eq_breg d]

theorem cons_hesVal_two (y z : ℝ) : hesVal 2 (1 / 2) y z = (z - y) ^ 2 := by
  rw [cons_hesVal_half_base (cons_hesDom_two y z)]
  unfold hesBase; rw [if_pos rfl]; ring

theorem cons_hesVal_one {y z : ℝ} (hy : 0 ≤ y) (hz : 0 < z) :
    hesVal 1 (1 / 2) y z = 2 * (xlogy y (y / z) - y + z) := by
  rw [cons_hesVal_half_base (cons_hesDom_one.2 ⟨hy, hz⟩)]
  unfold hesBase
  rw [if_neg (by norm_num), if_neg (lt_irrefl _), if_pos rfl]

theorem cons_hesVal_zero {y z : ℝ} (hy : 0 < y) (hz : 0 < z) :
    hesVal 0 (1 / 2) y z = 2 * (y / z - Real.log (y / z) - 1) := by
  rw [cons_hesVal_half_base (cons_hesDom_zero.2 ⟨hy, hz⟩)]
  unfold hesBase
  rw [if_neg (by norm_num), if_neg (by norm_num), if_neg (by norm_num), if_pos rfl]

theorem cons_hqsVal_one (α y z : ℝ) : hqsVal 1 α y z = (geInd z y - α) * (z - y) := by
  simp [hqsVal]

/-- rewriting the summands of a total on the sample -/
theorem cons_total_congr {S S' : ℝ → ℝ → ℝ} {d : List (Obs ℝ)} {z : ℝ}
    (e : ∀ o ∈ d, S o.1 z = S' o.1 z) : cons_total S d z = cons_total S' d z := by
  unfold cons_total
  congr 1
  apply List.map_congr_left
  intro o ho
  rw [e o ho]

theorem cons_hesDom_of_pos (h : ℝ) {y z : ℝ} (hy : 0 < y) (hz : 0 < z) : hesDom h y z := by
  unfold hesDom
  split_ifs
  · exact ⟨hy.le, hz⟩
  · exact ⟨hy, hz⟩

theorem cons_hesVal_eq_base {h y z : ℝ} (α : ℝ) (d : hesDom h y z) :
    hesVal h α y z = hesAsym α y z * hesBase h y z := by
  rw [hesVal, hesBase_eq_breg d]

end MD
