import MD.Proofs.ScoreHES
import MD.Proofs.ScoreHQS
import MD.Proofs.QuantStage
import MD.Proofs.ExpectileInst
import Mathlib.Tactic.Linarith
import Mathlib.Tactic.Ring
import Mathlib.Tactic.FieldSimp
import Mathlib.Tactic.Positivity
/-! Helpers for `MD/Props/C05.lean` (consistency of the scoring functions for their target
functional, at the level of a finite weighted sample) and `MD/Props/C14.lean` (homogeneity of the
expectile family).  Everything is at `K = ℝ`.

* `hesVal h α y z` — the real value of `hes h α y z` on its domain (`cons_hes_ok`).
* `cons_total S d z = Σ_{(y,w) ∈ d} w · S y z` — weighted total score of the constant forecast `z`.
* mean / Bregman family: `cons_mean_identity` (exact: total at `c` = total at the mean + `W·2B(m,c)`).
* expectile family: `cons_hes_os` (per observation), `cons_expectile_total_diff` (summed).
* quantile family: `cons_hqs_up`, `cons_hqs_dn`, `cons_quantile_total_up/dn`.
* log loss: `cons_logloss_identity`.
* `scoreMean`: `cons_mapM_ok`, `scoreMean_ok`, `cons_scoreMean_const`, weight rescaling.
* homogeneity of `hesBase`: `cons_hesBase_mul`. -/
set_option linter.unusedSectionVars false
namespace MD
open Real

/-! ### values and totals -/

/-- the value of the homogeneous expectile score on its domain -/
noncomputable def hesVal (h α y z : ℝ) : ℝ := hesAsym α y z * (2 * hesBreg h y z)

theorem cons_hes_ok {h α y z : ℝ} (d : hesDom h y z) : hes h α y z = .ok (hesVal h α y z) :=
  hes_eq_breg d

theorem cons_hesVal_half (h y z : ℝ) : hesVal h (1 / 2) y z = 2 * hesBreg h y z := by
  simp [hesVal, hesAsym]

/-- weighted total score `Σ w · S y z` of the constant forecast `z` on the sample `d` -/
noncomputable def cons_total (S : ℝ → ℝ → ℝ) (d : List (Obs ℝ)) (z : ℝ) : ℝ :=
  (d.map (fun o => o.2 * S o.1 z)).sum

theorem cons_total_nil (S : ℝ → ℝ → ℝ) (z : ℝ) : cons_total S [] z = 0 := by simp [cons_total]

theorem cons_total_cons (S : ℝ → ℝ → ℝ) (o : Obs ℝ) (d : List (Obs ℝ)) (z : ℝ) :
    cons_total S (o :: d) z = o.2 * S o.1 z + cons_total S d z := by simp [cons_total]

theorem cons_total_sub (S : ℝ → ℝ → ℝ) (d : List (Obs ℝ)) (c t : ℝ) :
    cons_total S d c - cons_total S d t = (d.map (fun o => o.2 * (S o.1 c - S o.1 t))).sum := by
  induction d with
  | nil => simp [cons_total]
  | cons o d ih =>
    rw [cons_total_cons, cons_total_cons, List.map_cons, List.sum_cons, ← ih]; ring

theorem cons_sum_affine (d : List (Obs ℝ)) (A B m : ℝ) :
    (d.map (fun o => o.2 * (A + B * (o.1 - m)))).sum
      = A * wsum d + B * (wysum d - m * wsum d) := by
  induction d with
  | nil => simp [wsum, wysum]
  | cons o d ih =>
    simp only [List.map_cons, List.sum_cons, wsum, wysum] at *
    rw [ih]; ring

theorem cons_wmean_resid {d : List (Obs ℝ)} (hne : d ≠ []) (hpos : ∀ o ∈ d, 0 < o.2) :
    wysum d - wmean d * wsum d = 0 := by
  have hW := wsum_pos hne hpos
  rw [wmean, div_mul_cancel₀ _ hW.ne']; ring

theorem cons_wsum_nonneg {d : List (Obs ℝ)} (hw : ∀ o ∈ d, 0 ≤ o.2) : 0 ≤ wsum d := by
  induction d with
  | nil => simp [wsum]
  | cons o d ih =>
    have h1 := hw o (by simp)
    have h2 := ih (fun o' ho' => hw o' (by simp [ho']))
    simp only [wsum, List.map_cons, List.sum_cons] at *
    linarith

/-! ### mean / Bregman family -/

/-- exact decomposition of the total level-`1/2` score around the weighted mean; purely algebraic -/
theorem cons_mean_identity (h : ℝ) {d : List (Obs ℝ)} (hne : d ≠ []) (hpos : ∀ o ∈ d, 0 < o.2)
    (c : ℝ) :
    cons_total (hesVal h (1 / 2)) d c
      = cons_total (hesVal h (1 / 2)) d (wmean d) + wsum d * (2 * hesBreg h (wmean d) c) := by
  have e := cons_total_sub (hesVal h (1 / 2)) d c (wmean d)
  have e2 : (d.map (fun o => o.2 * (hesVal h (1 / 2) o.1 c - hesVal h (1 / 2) o.1 (wmean d)))).sum
      = (d.map (fun o => o.2 * (2 * hesBreg h (wmean d) c
          + 2 * (hesPhi' h (wmean d) - hesPhi' h c) * (o.1 - wmean d)))).sum := by
    congr 1
    apply List.map_congr_left
    intro o _
    rw [cons_hesVal_half, cons_hesVal_half]
    have := hesBreg_three_point h o.1 (wmean d) c
    congr 1
    linarith
  rw [e2, cons_sum_affine, cons_wmean_resid hne hpos] at e
  linarith

/-- a domain witness for the pair of constants from the pair-domain hypotheses -/
theorem cons_hesDom_consts {h t c : ℝ} {d : List (Obs ℝ)} (hne : d ≠ [])
    (dt : ∀ o ∈ d, hesDom h o.1 t) (dc : ∀ o ∈ d, hesDom h o.1 c) : hesDom h t c := by
  cases d with
  | nil => exact absurd rfl hne
  | cons o d => exact hesDom_pred (dt o (by simp)) (dc o (by simp))

/-! ### expectile family: order sensitivity with respect to the identification function -/

theorem cons_hesAsym_eq {α : ℝ} (hα0 : 0 < α) (hα1 : α < 1) (z : ℝ) (o : Obs ℝ) :
    hesAsym α o.1 z = 2 * eWeight α z o := by
  unfold hesAsym geInd eWeight
  by_cases ha : α = 1 / 2
  · rw [if_pos ha, ha]; split_ifs <;> norm_num
  · rw [if_neg ha]
    by_cases hy : o.1 ≤ z
    · rw [if_pos hy, if_pos hy, abs_of_pos (by linarith)]
    · rw [if_neg hy, if_neg hy, zero_sub, abs_neg, abs_of_pos hα0]

theorem cons_hesDom_swap {h y z c : ℝ} (d1 : hesDom h y z) (hlt : z < y) (d2 : hesDom h y c) :
    hesDom h c y := by
  unfold hesDom at *
  split_ifs at * with h1 h0
  · exact ⟨d2.2.le, lt_trans d1.2 hlt⟩
  · exact ⟨d2.2, d2.1⟩

/-- `B(y,t) ≤ (φ'c − φ't)(y − t)` when `t < y ≤ c` -/
theorem cons_breg_le_up {h y t c : ℝ} (dt : hesDom h y t) (dc : hesDom h y c) (hty : t < y)
    (hyc : y ≤ c) : hesBreg h y t ≤ (hesPhi' h c - hesPhi' h t) * (y - t) := by
  have dty : hesDom h t y := cons_hesDom_swap dt hty dt
  have dcy : hesDom h c y := cons_hesDom_swap dt hty dc
  have b := hesBreg_nonneg dty
  have m := hesPhi'_mono dc dcy hyc
  have e : hesBreg h y t + hesBreg h t y = (hesPhi' h y - hesPhi' h t) * (y - t) := by
    unfold hesBreg; ring
  have : (hesPhi' h y - hesPhi' h t) * (y - t) ≤ (hesPhi' h c - hesPhi' h t) * (y - t) :=
    mul_le_mul_of_nonneg_right (by linarith) (by linarith)
  linarith

/-- `B(y,t) ≤ (φ't − φ'c)(t − y)` when `c < y ≤ t` -/
theorem cons_breg_le_dn {h y t c : ℝ} (dt : hesDom h y t) (dc : hesDom h y c) (hcy : c < y)
    (hyt : y ≤ t) : hesBreg h y t ≤ (hesPhi' h t - hesPhi' h c) * (t - y) := by
  have dty : hesDom h t y := cons_hesDom_swap dc hcy dt
  have dcy : hesDom h c y := cons_hesDom_swap dc hcy dc
  have b := hesBreg_nonneg dty
  have m := hesPhi'_mono dcy dc hcy.le
  have e : hesBreg h y t + hesBreg h t y = (hesPhi' h t - hesPhi' h y) * (t - y) := by
    unfold hesBreg; ring
  have : (hesPhi' h t - hesPhi' h y) * (t - y) ≤ (hesPhi' h t - hesPhi' h c) * (t - y) :=
    mul_le_mul_of_nonneg_right (by linarith) (by linarith)
  linarith

/-- per observation: the score is order sensitive relative to the expectile identification
function `V(t, y) = 2|1{y ≤ t} − α|(t − y)` with `ψ = 2 φ'` -/
theorem cons_hes_os {h α t c : ℝ} (o : Obs ℝ) (hα0 : 0 < α) (hα1 : α < 1)
    (dt : hesDom h o.1 t) (dc : hesDom h o.1 c) :
    2 * eWeight α t o * (t - o.1) * (2 * (hesPhi' h c - hesPhi' h t))
      ≤ hesVal h α o.1 c - hesVal h α o.1 t := by
  have tp := hesBreg_three_point h o.1 t c
  have btc := hesBreg_nonneg (hesDom_pred dt dc)
  have byc := hesBreg_nonneg dc
  have a1 : 0 < 1 - α := by linarith
  unfold hesVal
  rw [cons_hesAsym_eq hα0 hα1 c o, cons_hesAsym_eq hα0 hα1 t o]
  unfold eWeight
  by_cases h1 : o.1 ≤ t
  · by_cases h2 : o.1 ≤ c
    · rw [if_pos h1, if_pos h2]
      have := mul_nonneg a1.le btc
      nlinarith
    · rw [if_pos h1, if_neg h2]
      rw [not_le] at h2
      have k := cons_breg_le_dn dt dc h2 h1
      have k1 := mul_le_mul_of_nonneg_left k a1.le
      have k2 := mul_nonneg hα0.le byc
      nlinarith
  · rw [not_le] at h1
    by_cases h2 : o.1 ≤ c
    · rw [if_neg (not_le.2 h1), if_pos h2]
      have k := cons_breg_le_up dt dc h1 h2
      have k1 := mul_le_mul_of_nonneg_left k hα0.le
      have k2 := mul_nonneg a1.le byc
      nlinarith
    · rw [if_neg (not_le.2 h1), if_neg h2]
      have := mul_nonneg hα0.le btc
      nlinarith

/-- summed over the sample: the total score changes by at least `eSum(t) · (ψ c − ψ t)` -/
theorem cons_expectile_total_diff {h α t c : ℝ} (d : List (Obs ℝ)) (hα0 : 0 < α) (hα1 : α < 1)
    (hw : ∀ o ∈ d, 0 ≤ o.2) (dt : ∀ o ∈ d, hesDom h o.1 t) (dc : ∀ o ∈ d, hesDom h o.1 c) :
    eSum α d t * (4 * (hesPhi' h c - hesPhi' h t))
      ≤ cons_total (hesVal h α) d c - cons_total (hesVal h α) d t := by
  rw [cons_total_sub]
  have h1 := sum_map_le_sum_map
    (fun o => o.2 * eWeight α t o * (t - o.1) * (4 * (hesPhi' h c - hesPhi' h t)))
    (fun o => o.2 * (hesVal h α o.1 c - hesVal h α o.1 t)) d
    (fun o ho => by
      have k := mul_le_mul_of_nonneg_left (cons_hes_os o hα0 hα1 (dt o ho) (dc o ho)) (hw o ho)
      show o.2 * eWeight α t o * (t - o.1) * (4 * (hesPhi' h c - hesPhi' h t)) ≤ _
      linarith)
  rw [sum_map_mul_const] at h1
  exact h1

/-! ### quantile family: order sensitivity with respect to the two one-sided identification
functions `1{y ≤ t} − α` (moving right) and `1{y < t} − α` (moving left) -/

theorem cons_hqs_up {h α y t c : ℝ} (_dt : hqsDom h y t) (dc : hqsDom h y c) (htc : t ≤ c) :
    ((if y ≤ t then (1 : ℝ) else 0) - α) * (gfun h c - gfun h t)
      ≤ hqsVal h α y c - hqsVal h α y t := by
  unfold hqsVal geInd
  by_cases h1 : y ≤ t
  · have h2 : y ≤ c := h1.trans htc
    rw [if_pos h1, if_pos h2]
    exact le_of_eq (by ring)
  · by_cases h2 : y ≤ c
    · rw [if_neg h1, if_pos h2]
      have := gfun_le dc h2
      linarith
    · rw [if_neg h1, if_neg h2]
      exact le_of_eq (by ring)

theorem cons_hqs_dn {h α y t c : ℝ} (_dt : hqsDom h y t) (dc : hqsDom h y c) (hct : c ≤ t) :
    ((if y < t then (1 : ℝ) else 0) - α) * (gfun h c - gfun h t)
      ≤ hqsVal h α y c - hqsVal h α y t := by
  unfold hqsVal geInd
  by_cases h1 : y < t
  · rw [if_pos h1, if_pos h1.le]
    by_cases h2 : y ≤ c
    · rw [if_pos h2]
      exact le_of_eq (by ring)
    · rw [if_neg h2]
      rw [not_le] at h2
      have := gfun_le (hqsDom_symm dc) h2.le
      linarith
  · rw [if_neg h1]
    rw [not_lt] at h1
    by_cases h3 : y ≤ t
    · have ht : t = y := le_antisymm h1 h3
      subst ht
      by_cases h2 : t ≤ c
      · have hc : c = t := le_antisymm hct h2
        subst hc
        simp
      · rw [if_neg h2]
        simp
    · have h2 : ¬ y ≤ c := fun h => h3 (h.trans hct)
      rw [if_neg h3, if_neg h2]
      exact le_of_eq (by ring)

theorem cons_quantile_total_up {h α t c : ℝ} (d : List (Obs ℝ)) (hw : ∀ o ∈ d, 0 ≤ o.2)
    (dt : ∀ o ∈ d, hqsDom h o.1 t) (dc : ∀ o ∈ d, hqsDom h o.1 c) (htc : t ≤ c) :
    (d.map (fun o => o.2 * ((if o.1 ≤ t then (1 : ℝ) else 0) - α))).sum * (gfun h c - gfun h t)
      ≤ cons_total (hqsVal h α) d c - cons_total (hqsVal h α) d t := by
  rw [cons_total_sub, ← sum_map_mul_const]
  apply sum_map_le_sum_map
  intro o ho
  have k := mul_le_mul_of_nonneg_left (cons_hqs_up (α := α) (dt o ho) (dc o ho) htc) (hw o ho)
  linarith

theorem cons_quantile_total_dn {h α t c : ℝ} (d : List (Obs ℝ)) (hw : ∀ o ∈ d, 0 ≤ o.2)
    (dt : ∀ o ∈ d, hqsDom h o.1 t) (dc : ∀ o ∈ d, hqsDom h o.1 c) (hct : c ≤ t) :
    (d.map (fun o => o.2 * ((if o.1 < t then (1 : ℝ) else 0) - α))).sum * (gfun h c - gfun h t)
      ≤ cons_total (hqsVal h α) d c - cons_total (hqsVal h α) d t := by
  rw [cons_total_sub, ← sum_map_mul_const]
  apply sum_map_le_sum_map
  intro o ho
  have k := mul_le_mul_of_nonneg_left (cons_hqs_dn (α := α) (dt o ho) (dc o ho) hct) (hw o ho)
  linarith

theorem cons_hqsDom_consts {h t c : ℝ} {d : List (Obs ℝ)} (hne : d ≠ [])
    (dt : ∀ o ∈ d, hqsDom h o.1 t) (dc : ∀ o ∈ d, hqsDom h o.1 c) : hqsDom h t c := by
  cases d with
  | nil => exact absurd rfl hne
  | cons o d =>
    exact (hqsDom_iff _ _ _).2 ⟨((hqsDom_iff _ _ _).1 (dt o (by simp))).2,
      ((hqsDom_iff _ _ _).1 (dc o (by simp))).2⟩

/-- the two weighted counting sums are monotone in the threshold -/
theorem cons_qsumLe_mono {α : ℝ} (d : List (Obs ℝ)) (hw : ∀ o ∈ d, 0 ≤ o.2) {u v : ℝ}
    (huv : u ≤ v) :
    (d.map (fun o => o.2 * ((if o.1 ≤ u then (1 : ℝ) else 0) - α))).sum
      ≤ (d.map (fun o => o.2 * ((if o.1 ≤ v then (1 : ℝ) else 0) - α))).sum := by
  apply sum_map_le_sum_map
  intro o ho
  apply mul_le_mul_of_nonneg_left _ (hw o ho)
  by_cases h1 : o.1 ≤ u
  · rw [if_pos h1, if_pos (h1.trans huv)]
  · rw [if_neg h1]
    split_ifs <;> linarith

theorem cons_qsumLt_mono {α : ℝ} (d : List (Obs ℝ)) (hw : ∀ o ∈ d, 0 ≤ o.2) {u v : ℝ}
    (huv : u ≤ v) :
    (d.map (fun o => o.2 * ((if o.1 < u then (1 : ℝ) else 0) - α))).sum
      ≤ (d.map (fun o => o.2 * ((if o.1 < v then (1 : ℝ) else 0) - α))).sum := by
  apply sum_map_le_sum_map
  intro o ho
  apply mul_le_mul_of_nonneg_left _ (hw o ho)
  by_cases h1 : o.1 < u
  · rw [if_pos h1, if_pos (lt_of_lt_of_le h1 huv)]
  · rw [if_neg h1]
    split_ifs <;> linarith

theorem cons_qsumLt_le_qsumLe {α : ℝ} (d : List (Obs ℝ)) (hw : ∀ o ∈ d, 0 ≤ o.2) (u : ℝ) :
    (d.map (fun o => o.2 * ((if o.1 < u then (1 : ℝ) else 0) - α))).sum
      ≤ (d.map (fun o => o.2 * ((if o.1 ≤ u then (1 : ℝ) else 0) - α))).sum := by
  apply sum_map_le_sum_map
  intro o ho
  apply mul_le_mul_of_nonneg_left _ (hw o ho)
  by_cases h1 : o.1 < u
  · rw [if_pos h1, if_pos h1.le]
  · rw [if_neg h1]
    split_ifs <;> linarith

/-- with unit weights the weighted counting sums are the counts of the model -/
theorem cons_qsumLe_unit (α : ℝ) (d : List (Obs ℝ)) (h1 : ∀ o ∈ d, o.2 = 1) (u : ℝ) :
    (d.map (fun o => o.2 * ((if o.1 ≤ u then (1 : ℝ) else 0) - α))).sum
      = (cntLe d u : ℝ) - α * (d.length : ℝ) := by
  rw [← Esum_quant α d u]
  unfold Esum
  congr 1
  apply List.map_congr_left
  intro o ho
  rw [h1 o ho, one_mul]

theorem cons_qsumLt_unit (α : ℝ) (d : List (Obs ℝ)) (h1 : ∀ o ∈ d, o.2 = 1) (u : ℝ) :
    (d.map (fun o => o.2 * ((if o.1 < u then (1 : ℝ) else 0) - α))).sum
      = (cntLt d u : ℝ) - α * (d.length : ℝ) := by
  rw [← Esum_quant_m α d u]
  unfold Esum
  congr 1
  apply List.map_congr_left
  intro o ho
  rw [h1 o ho, one_mul]

/-! ### log loss -/

theorem cons_logLoss_nonneg {y z : ℝ} (hy0 : 0 ≤ y) (hy1 : y ≤ 1) (hz0 : 0 < z) (hz1 : z < 1) :
    0 ≤ logLoss y z := by
  rw [logLoss_closed hy0 hy1 hz0 hz1]
  have a := sub_le_mul_log_div hy0 hz0
  have b := sub_le_mul_log_div (by linarith : (0 : ℝ) ≤ 1 - y) (by linarith : (0 : ℝ) < 1 - z)
  linarith

/-- exact decomposition of the total log loss around the weighted mean `m ∈ (0,1)` -/
theorem cons_logloss_identity {d : List (Obs ℝ)} (hne : d ≠ []) (hpos : ∀ o ∈ d, 0 < o.2)
    (c : ℝ) (hm0 : 0 < wmean d) (hm1 : wmean d < 1) (hc0 : 0 < c) (hc1 : c < 1) :
    cons_total logLoss d c = cons_total logLoss d (wmean d) + wsum d * logLoss (wmean d) c := by
  have e := cons_total_sub logLoss d c (wmean d)
  have e2 : (d.map (fun o => o.2 * (logLoss o.1 c - logLoss o.1 (wmean d)))).sum
      = (d.map (fun o => o.2 * (logLoss (wmean d) c
          + (Real.log (wmean d / c) - Real.log ((1 - wmean d) / (1 - c))) * (o.1 - wmean d)))).sum := by
    congr 1
    apply List.map_congr_left
    intro o _
    rw [logLoss_diff hm0 hm1 hc0 hc1, logLoss_closed hm0.le hm1.le hc0 hc1]
    ring
  rw [e2, cons_sum_affine, cons_wmean_resid hne hpos] at e
  linarith

/-! ### `scorePerObs`, `average`, `scoreMean` -/

theorem cons_mapM_ok {α β : Type} (f : α → Except Err β) (g : α → β) (l : List α)
    (h : ∀ p ∈ l, f p = .ok (g p)) : l.mapM f = .ok (l.map g) := by
  induction l with
  | nil => rfl
  | cons a l ih =>
    rw [List.mapM_cons, h a (by simp), ih (fun p hp => h p (by simp [hp]))]
    rfl

theorem cons_mapM_length {α β : Type} (f : α → Except Err β) (l : List α) (r : List β)
    (h : l.mapM f = .ok r) : r.length = l.length := by
  induction l generalizing r with
  | nil =>
    rw [List.mapM_nil] at h
    cases h; rfl
  | cons a l ih =>
    rw [List.mapM_cons] at h
    cases ha : f a with
    | error e => rw [ha] at h; cases h
    | ok b =>
      cases hl : l.mapM f with
      | error e => rw [ha, hl] at h; cases h
      | ok bs =>
        rw [ha, hl] at h
        cases h
        simp [ih bs hl]

theorem cons_scorePerObs_ok (k : ScoreKind) (h α : ℝ) (ys zs : List ℝ) (S : ℝ → ℝ → ℝ)
    (hlen : ys.length = zs.length)
    (hS : ∀ p ∈ ys.zip zs, scorePair k h α p.1 p.2 = .ok (S p.1 p.2)) :
    scorePerObs k h α ys zs = .ok ((ys.zip zs).map (fun p => S p.1 p.2)) := by
  unfold scorePerObs
  rw [if_neg (not_not.2 hlen)]
  exact cons_mapM_ok _ _ _ hS

theorem cons_scorePerObs_length {k : ScoreKind} {h α : ℝ} {ys zs per : List ℝ}
    (e : scorePerObs k h α ys zs = .ok per) : per.length = ys.length ∧ ys.length = zs.length := by
  unfold scorePerObs at e
  by_cases hlen : ys.length = zs.length
  · rw [if_neg (not_not.2 hlen)] at e
    have := cons_mapM_length _ _ _ e
    rw [List.length_zip, ← hlen, min_self] at this
    exact ⟨this, hlen⟩
  · rw [if_pos hlen] at e
    cases e

theorem cons_average_some (a w : List ℝ) (hl : w.length = a.length) (hs : w.sum ≠ 0) :
    average a (some w) = .ok ((List.zipWith (· * ·) a w).sum / w.sum) := by
  unfold average
  simp only [eqK_iff]
  rw [if_neg (not_not.2 hl), if_neg hs]
  rfl

theorem cons_scoreMean_bind (k : ScoreKind) (h α : ℝ) (ys zs : List ℝ) (w : Option (List ℝ))
    (per : List ℝ) (e : scorePerObs k h α ys zs = .ok per) :
    scoreMean k h α ys zs w = average per w := by
  unfold scoreMean
  rw [e]
  rfl

theorem cons_scoreMean_error (k : ScoreKind) (h α : ℝ) (ys zs : List ℝ) (w : Option (List ℝ))
    (er : Err) (e : scorePerObs k h α ys zs = .error er) :
    scoreMean k h α ys zs w = .error er := by
  unfold scoreMean
  rw [e]
  rfl

/-- the unfolding lemma: weighted average of the per-pair values -/
theorem scoreMean_ok (k : ScoreKind) (h α : ℝ) (ys zs ws : List ℝ) (S : ℝ → ℝ → ℝ)
    (hlen : ys.length = zs.length)
    (hS : ∀ p ∈ ys.zip zs, scorePair k h α p.1 p.2 = .ok (S p.1 p.2))
    (hw : ws.length = ys.length) (hsum : ws.sum ≠ 0) :
    scoreMean k h α ys zs (some ws)
      = .ok ((List.zipWith (· * ·) ((ys.zip zs).map (fun p => S p.1 p.2)) ws).sum / ws.sum) := by
  rw [cons_scoreMean_bind k h α ys zs _ _ (cons_scorePerObs_ok k h α ys zs S hlen hS)]
  apply cons_average_some _ _ _ hsum
  rw [List.length_map, List.length_zip, ← hlen, min_self, hw]


theorem cons_wsum_zip : ∀ (ys ws : List ℝ), ws.length = ys.length → wsum (ys.zip ws) = ws.sum := by
  intro ys
  induction ys with
  | nil => intro ws h; cases ws with
    | nil => simp [wsum]
    | cons w ws => simp at h
  | cons y ys ih => intro ws h; cases ws with
    | nil => simp at h
    | cons w ws =>
      have := ih ws (by simpa using h)
      simp only [wsum, List.zip_cons_cons, List.map_cons, List.sum_cons] at *
      rw [this]

theorem cons_zip_const_total (S : ℝ → ℝ → ℝ) (z : ℝ) : ∀ (ys ws : List ℝ), ws.length = ys.length →
    (List.zipWith (· * ·) ((ys.zip (List.replicate ys.length z)).map (fun p => S p.1 p.2)) ws).sum
      = cons_total S (ys.zip ws) z := by
  intro ys
  induction ys with
  | nil => intro ws h; simp [cons_total]
  | cons y ys ih => intro ws h; cases ws with
    | nil => simp at h
    | cons w ws =>
      have := ih ws (by simpa using h)
      simp only [cons_total, List.length_cons, List.replicate_succ, List.zip_cons_cons,
        List.map_cons, List.zipWith_cons_cons, List.sum_cons] at *
      rw [this]; ring

/-- `__call__` on a constant forecast: weighted total over total weight -/
theorem cons_scoreMean_const (k : ScoreKind) (h α : ℝ) (ys ws : List ℝ) (S : ℝ → ℝ → ℝ) (z : ℝ)
    (hS : ∀ y ∈ ys, scorePair k h α y z = .ok (S y z))
    (hw : ws.length = ys.length) (hsum : ws.sum ≠ 0) :
    scoreMean k h α ys (List.replicate ys.length z) (some ws)
      = .ok (cons_total S (ys.zip ws) z / wsum (ys.zip ws)) := by
  rw [scoreMean_ok k h α ys _ ws S (by simp) _ hw hsum, cons_zip_const_total S z ys ws hw,
    cons_wsum_zip ys ws hw]
  intro p hp
  have h1 := (List.of_mem_zip hp).1
  have h2 := List.eq_of_mem_replicate (List.of_mem_zip hp).2
  rw [h2]
  exact hS _ h1

theorem cons_zip_pos {ys ws : List ℝ} (hpos : ∀ w ∈ ws, 0 < w) : ∀ o ∈ ys.zip ws, 0 < o.2 :=
  fun _ ho => hpos _ (List.of_mem_zip ho).2

theorem cons_zip_ne {ys ws : List ℝ} (hne : ys ≠ []) (hw : ws.length = ys.length) :
    ys.zip ws ≠ [] := by
  cases ys with
  | nil => exact absurd rfl hne
  | cons y ys => cases ws with
    | nil => simp at hw
    | cons w ws => simp

/-- comparison of two constant forecasts through `scoreMean` -/
theorem cons_scoreMean_const_le (k : ScoreKind) (h α : ℝ) (ys ws : List ℝ) (S : ℝ → ℝ → ℝ)
    (t c : ℝ) (hne : ys ≠ []) (hw : ws.length = ys.length) (hpos : ∀ w ∈ ws, 0 < w)
    (hSt : ∀ y ∈ ys, scorePair k h α y t = .ok (S y t))
    (hSc : ∀ y ∈ ys, scorePair k h α y c = .ok (S y c))
    (hle : cons_total S (ys.zip ws) t ≤ cons_total S (ys.zip ws) c) :
    ∃ vt vc, scoreMean k h α ys (List.replicate ys.length t) (some ws) = .ok vt ∧
      scoreMean k h α ys (List.replicate ys.length c) (some ws) = .ok vc ∧ vt ≤ vc := by
  have hW := wsum_pos (cons_zip_ne hne hw) (cons_zip_pos (ys := ys) hpos)
  have hsum : ws.sum ≠ 0 := by rw [← cons_wsum_zip ys ws hw]; exact hW.ne'
  exact ⟨_, _, cons_scoreMean_const k h α ys ws S t hSt hw hsum,
    cons_scoreMean_const k h α ys ws S c hSc hw hsum,
    div_le_div_of_nonneg_right hle hW.le⟩

/-! ### `average` -/

theorem cons_average_some_ok {a w : List ℝ} {v : ℝ} (e : average a (some w) = .ok v) :
    w.length = a.length ∧ w.sum ≠ 0 ∧ v = (List.zipWith (· * ·) a w).sum / w.sum := by
  unfold average at e
  simp only [eqK_iff] at e
  by_cases hl : w.length = a.length
  · rw [if_neg (not_not.2 hl)] at e
    by_cases hs : w.sum = 0
    · rw [if_pos hs] at e; cases e
    · rw [if_neg hs] at e
      cases e
      exact ⟨hl, hs, rfl⟩
  · rw [if_pos hl] at e; cases e

theorem cons_average_none_ok {a : List ℝ} {v : ℝ} (e : average a none = .ok v) :
    a ≠ [] ∧ v = a.sum / (a.length : ℝ) := by
  unfold average at e
  by_cases ha : a = []
  · simp only [ha, if_true] at e; cases e
  · simp only [if_neg ha] at e
    cases e
    exact ⟨ha, rfl⟩

theorem cons_sum_map_mul (c : ℝ) (w : List ℝ) : (w.map (c * ·)).sum = c * w.sum := by
  induction w with
  | nil => simp
  | cons x w ih => simp only [List.map_cons, List.sum_cons, ih]; ring

theorem cons_zipWith_scale (c : ℝ) : ∀ (a w : List ℝ),
    (List.zipWith (· * ·) a (w.map (c * ·))).sum = c * (List.zipWith (· * ·) a w).sum := by
  intro a
  induction a with
  | nil => intro w; simp
  | cons x a ih => intro w; cases w with
    | nil => simp
    | cons y w =>
      simp only [List.map_cons, List.zipWith_cons_cons, List.sum_cons, ih w]; ring

/-- `np.average` is invariant under a common non-zero rescaling of the weights, errors included -/
theorem cons_average_scale (a w : List ℝ) (c : ℝ) (hc : c ≠ 0) :
    average a (some (w.map (c * ·))) = average a (some w) := by
  unfold average
  simp only [eqK_iff, List.length_map, cons_sum_map_mul, cons_zipWith_scale, mul_eq_zero, hc,
    false_or]
  by_cases hl : w.length = a.length
  · rw [if_neg (not_not.2 hl), if_neg (not_not.2 hl)]
    by_cases hs : w.sum = 0
    · rw [if_pos hs, if_pos hs]
    · rw [if_neg hs, if_neg hs, mul_div_mul_left _ _ hc]
  · rw [if_pos hl, if_pos hl]

theorem cons_scoreMean_scale (k : ScoreKind) (h α : ℝ) (ys zs ws : List ℝ) (c : ℝ) (hc : c ≠ 0) :
    scoreMean k h α ys zs (some (ws.map (c * ·))) = scoreMean k h α ys zs (some ws) := by
  cases e : scorePerObs k h α ys zs with
  | error er => rw [cons_scoreMean_error _ _ _ _ _ _ er e, cons_scoreMean_error _ _ _ _ _ _ er e]
  | ok per => rw [cons_scoreMean_bind _ _ _ _ _ _ per e, cons_scoreMean_bind _ _ _ _ _ _ per e,
      cons_average_scale _ _ _ hc]

theorem cons_zipWith_ones : ∀ (a : List ℝ),
    (List.zipWith (· * ·) a (List.replicate a.length (1 : ℝ))).sum = a.sum := by
  intro a
  induction a with
  | nil => simp
  | cons x a ih => simp only [List.length_cons, List.replicate_succ, List.zipWith_cons_cons,
      List.sum_cons, ih]; ring

theorem cons_sum_ones (n : ℕ) : (List.replicate n (1 : ℝ)).sum = (n : ℝ) := by
  induction n with
  | zero => simp
  | succ n ih => simp only [List.replicate_succ, List.sum_cons, ih]; push_cast; ring

/-- the unweighted average is the weighted one with unit weights, errors included -/
theorem cons_average_none (a : List ℝ) :
    average a none = average a (some (List.replicate a.length 1)) := by
  unfold average
  simp only [eqK_iff, List.length_replicate, cons_sum_ones, cons_zipWith_ones, ne_eq,
    not_true_eq_false, if_false]
  by_cases ha : a = []
  · subst ha; simp
  · have : (a.length : ℝ) ≠ 0 := by
      have := List.length_pos_iff.mpr ha
      exact_mod_cast this.ne'
    rw [if_neg ha, if_neg this]

theorem cons_scoreMean_none (k : ScoreKind) (h α : ℝ) (ys zs : List ℝ) :
    scoreMean k h α ys zs none = scoreMean k h α ys zs (some (List.replicate ys.length 1)) := by
  cases e : scorePerObs k h α ys zs with
  | error er => rw [cons_scoreMean_error _ _ _ _ _ _ er e, cons_scoreMean_error _ _ _ _ _ _ er e]
  | ok per =>
    rw [cons_scoreMean_bind _ _ _ _ _ _ per e, cons_scoreMean_bind _ _ _ _ _ _ per e,
      cons_average_none, (cons_scorePerObs_length e).1]

end MD
