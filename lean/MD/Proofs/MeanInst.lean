import MD.Proofs.Fit
import Mathlib.Tactic.FieldSimp
import Mathlib.Tactic.Positivity

set_option linter.unusedSectionVars false

namespace MD
variable {K : Type} [Field K] [LinearOrder K] [IsStrictOrderedRing K]


theorem wsum_pos {d : List (Obs K)} (hne : d ≠ []) (hpos : ∀ o ∈ d, 0 < o.2) : 0 < wsum d := by
  induction d with
  | nil => exact absurd rfl hne
  | cons o d ih =>
    simp only [wsum, List.map_cons, List.sum_cons]
    by_cases hd : d = []
    · subst hd; simpa using hpos o (by simp)
    · have := ih hd (fun o' ho' => hpos o' (by simp [ho']))
      have := hpos o (by simp)
      simp only [wsum] at *
      linarith

theorem Esum_mean (d : List (Obs K)) (u : K) :
    Esum (fun u o => o.2 * (u - o.1)) d u = u * wsum d - wysum d := by
  induction d with
  | nil => simp [Esum, wsum, wysum]
  | cons o d ih =>
    simp only [Esum, wsum, wysum, List.map_cons, List.sum_cons] at *
    rw [ih]; ring

/-- the weighted mean as an identifiable functional; admissible = strictly positive weight -/
def meanFun : IdFun K where
  ok o := 0 < o.2
  Vm u o := o.2 * (u - o.1)
  Vp u o := o.2 * (u - o.1)
  T := wmean
  single := by
    intro o ho u
    constructor
    · intro h
      have := (mul_nonneg_iff_of_pos_left ho).mp h
      linarith
    · intro h
      exact mul_nonneg ho.le (by linarith)
  spec := by
    intro S hne hok u
    have hW := wsum_pos hne hok
    rw [Esum_mean, wmean, div_le_iff₀ hW]
    constructor <;> intro h <;> linarith
  specm := by
    intro S hne hok u h
    have hW := wsum_pos hne hok
    rw [Esum_mean]
    rw [wmean, le_div_iff₀ hW] at h
    linarith

/-- weighted squared error as an order-sensitive score for the mean -/
def sqErr : OSScore (meanFun (K := K)) where
  S o z := o.2 * ((o.1 - z) * (o.1 - z))
  ψ z := 2 * z
  dom _ := True
  ψ_mono := by intro a b _ _ h; linarith
  up := by
    intro o t c ho _ _ _
    have : 0 ≤ o.2 * ((c - t) * (c - t)) := mul_nonneg (le_of_lt ho) (mul_self_nonneg _)
    simp only [meanFun]
    nlinarith
  dn := by
    intro o t c ho _ _ _
    have : 0 ≤ o.2 * ((c - t) * (c - t)) := mul_nonneg (le_of_lt ho) (mul_self_nonneg _)
    simp only [meanFun]
    nlinarith

/-- C01_optimal (increasing direction): PAVA's output minimises the weighted squared error over all
non-decreasing sequences of the same length. -/
theorem C01_optimal_inc (ys : List (Obs K)) (hpos : ∀ o ∈ ys, 0 < o.2)
    (zs : List K) (hlen : ys.length = zs.length) (hsort : zs.Pairwise (· ≤ ·)) :
    total (fun o z => o.2 * ((o.1 - z) * (o.1 - z))) ys (expand (gpava wmean ys))
      ≤ total (fun o z => o.2 * ((o.1 - z) * (o.1 - z))) ys zs :=
  fit_optimal sqErr ys hpos (fun _ _ => trivial) zs hlen (fun _ _ => trivial) hsort

end MD
