import Mathlib.Analysis.Convex.SpecificFunctions.Basic
import Mathlib.Analysis.SpecialFunctions.Pow.Real
import Mathlib.Analysis.SpecialFunctions.Log.Basic

open Real

namespace MD

/-- gradient inequality for `x ↦ x^h`, `h ≥ 1`, on `y ≥ 0`, `z > 0`. -/
theorem rpow_grad_ge_one {h : ℝ} (hh : 1 ≤ h) {y z : ℝ} (hy : 0 ≤ y) (hz : 0 < z) :
    z ^ h + h * z ^ (h - 1) * (y - z) ≤ y ^ h := by
  have hs : -1 ≤ y / z - 1 := by
    have : 0 ≤ y / z := div_nonneg hy hz.le
    linarith
  have hb := one_add_mul_self_le_rpow_one_add hs hh
  have e1 : 1 + (y / z - 1) = y / z := by ring
  rw [e1, div_rpow hy hz.le] at hb
  have hzh : 0 < z ^ h := rpow_pos_of_pos hz h
  have hzz : z ^ (h - 1) = z ^ h / z := by
    rw [rpow_sub_one hz.ne']
  rw [hzz]
  have := mul_le_mul_of_nonneg_right hb hzh.le
  rw [div_mul_cancel₀ _ hzh.ne'] at this
  calc z ^ h + h * (z ^ h / z) * (y - z) = (1 + h * (y / z - 1)) * z ^ h := by
        field_simp
    _ ≤ y ^ h := this

/-- Bernoulli for nonpositive exponents: `(1+s)^p ≥ 1 + p s`, `s > -1`, `p ≤ 0`. -/
theorem one_add_mul_le_rpow_of_nonpos {s p : ℝ} (hs : -1 < s) (hp : p ≤ 0) :
    1 + p * s ≤ (1 + s) ^ p := by
  have h1 : 0 < 1 + s := by linarith
  rw [rpow_def_of_pos h1]
  have hlog : Real.log (1 + s) ≤ s := by
    have := Real.log_le_sub_one_of_pos h1
    linarith
  have : p * s ≤ Real.log (1 + s) * p := by
    rw [mul_comm (Real.log (1+s)) p]
    exact mul_le_mul_of_nonpos_left hlog hp
  calc 1 + p * s ≤ 1 + Real.log (1 + s) * p := by linarith
    _ ≤ Real.exp (Real.log (1 + s) * p) := by
        have := Real.add_one_le_exp (Real.log (1 + s) * p); linarith

end MD
