import MD.Proofs.IdFun

namespace MD
variable {K : Type} [Field K] [LinearOrder K] [IsStrictOrderedRing K]

/-- a score that is order-sensitive for the identification functions of `F` through `ψ` -/
structure OSScore (F : IdFun K) where
  S : Obs K → K → K
  ψ : K → K
  dom : K → Prop
  ψ_mono : ∀ a b, dom a → dom b → a ≤ b → ψ a ≤ ψ b
  up : ∀ o t c, F.ok o → dom t → dom c → t ≤ c → F.Vp t o * (ψ c - ψ t) ≤ S o c - S o t
  dn : ∀ o t c, F.ok o → dom t → dom c → c ≤ t → F.Vm t o * (ψ c - ψ t) ≤ S o c - S o t

variable {F : IdFun K} (Sc : OSScore F)

/-- total score of predictions `zs` on data `d` -/
def total (S : Obs K → K → K) (d : List (Obs K)) (zs : List K) : K := (List.zipWith S d zs).sum

omit [LinearOrder K] [IsStrictOrderedRing K] in
theorem total_append (S : Obs K → K → K) (d1 d2 : List (Obs K)) (z1 z2 : List K)
    (h : d1.length = z1.length) :
    total S (d1 ++ d2) (z1 ++ z2) = total S d1 z1 + total S d2 z2 := by
  simp [total, List.zipWith_append h]

/-- termwise lower bound summed over a zipped list -/
theorem total_sub_ge (S : Obs K → K → K) (G : Obs K → K → K) (v : K) (d : List (Obs K)) (zs : List K)
    (hlen : d.length = zs.length)
    (h : ∀ o ∈ d, ∀ z ∈ zs, G o z ≤ S o z - S o v) :
    (List.zipWith G d zs).sum ≤ total S d zs - (d.map (S · v)).sum := by
  induction d generalizing zs with
  | nil => simp [total]
  | cons o d ih =>
    cases zs with
    | nil => simp at hlen
    | cons z zs =>
      have h1 := h o (by simp) z (by simp)
      have h2 := ih zs (by simpa using hlen) (fun o' ho' z' hz' => h o' (by simp [ho']) z' (by simp [hz']))
      simp only [total, List.zipWith_cons_cons, List.sum_cons, List.map_cons] at *
      linarith

theorem low_part (v : K) (hv : Sc.dom v) (d : List (Obs K)) (zs : List K)
    (hlen : d.length = zs.length) (hok : ∀ o ∈ d, F.ok o)
    (hdom : ∀ z ∈ zs, Sc.dom z) (hle : ∀ z ∈ zs, z ≤ v) (hsort : zs.Pairwise (· ≤ ·))
    (hcert : ∀ k, Esum F.Vm (d.take k) v ≤ 0) :
    (d.map (Sc.S · v)).sum ≤ total Sc.S d zs := by
  have hA := abel_prefix (d.map (F.Vm v)) (zs.map (fun z => Sc.ψ z - Sc.ψ v)) (by simp [hlen])
    (by intro k; rw [← List.map_take]; exact hcert k)
    (by
      rw [List.pairwise_map]
      refine List.Pairwise.imp_of_mem ?_ hsort
      intro a b ha hb hab
      have := Sc.ψ_mono a b (hdom a ha) (hdom b hb) hab
      linarith)
    (by
      intro x hx
      simp only [List.mem_map] at hx
      obtain ⟨z, hz, rfl⟩ := hx
      have := Sc.ψ_mono z v (hdom z hz) hv (hle z hz)
      linarith)
  have hB := total_sub_ge Sc.S (fun o z => F.Vm v o * (Sc.ψ z - Sc.ψ v)) v d zs hlen
    (fun o ho z hz => Sc.dn o v z (hok o ho) hv (hdom z hz) (hle z hz))
  have e : (List.zipWith (· * ·) (d.map (F.Vm v)) (zs.map (fun z => Sc.ψ z - Sc.ψ v))).sum
      = (List.zipWith (fun o z => F.Vm v o * (Sc.ψ z - Sc.ψ v)) d zs).sum := by
    rw [List.zipWith_map_left, List.zipWith_map_right]
  rw [e] at hA
  linarith

theorem high_part (v : K) (hv : Sc.dom v) (d : List (Obs K)) (zs : List K)
    (hlen : d.length = zs.length) (hok : ∀ o ∈ d, F.ok o)
    (hdom : ∀ z ∈ zs, Sc.dom z) (hge : ∀ z ∈ zs, v ≤ z) (hsort : zs.Pairwise (· ≤ ·))
    (hcert : ∀ k, 0 ≤ Esum F.Vp (d.drop k) v) :
    (d.map (Sc.S · v)).sum ≤ total Sc.S d zs := by
  have hA := abel_suffix (d.map (F.Vp v)) (zs.map (fun z => Sc.ψ z - Sc.ψ v)) (by simp [hlen])
    (by intro k; rw [← List.map_drop]; exact hcert k)
    (by
      rw [List.pairwise_map]
      refine List.Pairwise.imp_of_mem ?_ hsort
      intro a b ha hb hab
      have := Sc.ψ_mono a b (hdom a ha) (hdom b hb) hab
      linarith)
    (by
      intro x hx
      simp only [List.mem_map] at hx
      obtain ⟨z, hz, rfl⟩ := hx
      have := Sc.ψ_mono v z hv (hdom z hz) (hge z hz)
      linarith)
  have hB := total_sub_ge Sc.S (fun o z => F.Vp v o * (Sc.ψ z - Sc.ψ v)) v d zs hlen
    (fun o ho z hz => Sc.up o v z (hok o ho) hv (hdom z hz) (hge z hz))
  have e : (List.zipWith (· * ·) (d.map (F.Vp v)) (zs.map (fun z => Sc.ψ z - Sc.ψ v))).sum
      = (List.zipWith (fun o z => F.Vp v o * (Sc.ψ z - Sc.ψ v)) d zs).sum := by
    rw [List.zipWith_map_left, List.zipWith_map_right]
  rw [e] at hA
  linarith

omit [Field K] [IsStrictOrderedRing K] in
theorem sorted_split (v : K) (zs : List K) (hsort : zs.Pairwise (· ≤ ·)) :
    ∃ j, (∀ z ∈ zs.take j, z ≤ v) ∧ (∀ z ∈ zs.drop j, v ≤ z) := by
  induction zs with
  | nil => exact ⟨0, by simp, by simp⟩
  | cons a l ih =>
    obtain ⟨j, h1, h2⟩ := ih (List.pairwise_cons.mp hsort).2
    by_cases ha : a ≤ v
    · refine ⟨j + 1, ?_, ?_⟩
      · intro z hz
        simp only [List.take_succ_cons, List.mem_cons] at hz
        rcases hz with rfl | hz
        · exact ha
        · exact h1 z hz
      · intro z hz
        simp only [List.drop_succ_cons] at hz
        exact h2 z hz
    · rw [not_le] at ha
      refine ⟨0, by simp, ?_⟩
      intro z hz
      simp only [List.drop_zero, List.mem_cons] at hz
      rcases hz with rfl | hz
      · exact ha.le
      · exact le_trans ha.le ((List.pairwise_cons.mp hsort).1 z hz)

/-- **Block lemma**: with the prefix/suffix certificate, the constant `v` is optimal on the block
among all monotone competitors. -/
theorem block_optimal (v : K) (hv : Sc.dom v) (d : List (Obs K)) (zs : List K)
    (hlen : d.length = zs.length) (hok : ∀ o ∈ d, F.ok o)
    (hdom : ∀ z ∈ zs, Sc.dom z) (hsort : zs.Pairwise (· ≤ ·))
    (hpre : ∀ k, Esum F.Vm (d.take k) v ≤ 0)
    (hsuf : ∀ k, 0 ≤ Esum F.Vp (d.drop k) v) :
    (d.map (Sc.S · v)).sum ≤ total Sc.S d zs := by
  obtain ⟨j, hlow, hhigh⟩ := sorted_split v zs hsort
  have hd : d = d.take j ++ d.drop j := (List.take_append_drop j d).symm
  have hz : zs = zs.take j ++ zs.drop j := (List.take_append_drop j zs).symm
  have hl1 : (d.take j).length = (zs.take j).length := by simp [hlen]
  have hl2 : (d.drop j).length = (zs.drop j).length := by simp [hlen]
  have L := low_part Sc v hv (d.take j) (zs.take j) hl1
    (fun o ho => hok o (List.mem_of_mem_take ho))
    (fun z hz' => hdom z (List.mem_of_mem_take hz')) hlow
    (hsort.sublist (List.take_sublist _ _))
    (by intro k; rw [List.take_take]; exact hpre _)
  have H := high_part Sc v hv (d.drop j) (zs.drop j) hl2
    (fun o ho => hok o (List.mem_of_mem_drop ho))
    (fun z hz' => hdom z (List.mem_of_mem_drop hz')) hhigh
    (hsort.sublist (List.drop_sublist _ _))
    (by intro k; rw [List.drop_drop]; exact hsuf _)
  have e1 : total Sc.S d zs
      = total Sc.S (d.take j) (zs.take j) + total Sc.S (d.drop j) (zs.drop j) := by
    conv_lhs => rw [hd, hz]
    exact total_append _ _ _ _ _ hl1
  have e2 : (d.map (Sc.S · v)).sum
      = ((d.take j).map (Sc.S · v)).sum + ((d.drop j).map (Sc.S · v)).sum := by
    conv_lhs => rw [hd]
    simp
  rw [e1, e2]
  linarith

end MD
