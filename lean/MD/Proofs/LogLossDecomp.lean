import MD.Proofs.DecompLemmas

/-! # The score decomposition for the log loss (C06b)

`logLoss y z` at `ℝ` uses `Real.log 0 = 0`, so it is an order-sensitive score of the mean
(`OSScore meanFun`, `ll_score`) only on the **open** domain `(0,1)`, while the recalibrated values —
weighted block means of observations in `[0,1]` — and the marginal mean can be exactly `0` or `1`.
The existing abstract theorems (`blocks_optimal`, `fit_optimal`, `dec_fitOpt_of_gpava`,
`dec_row_signs`) need every block value in the domain of the score.  Here:

* `blocks_optimal'`, `fit_optimal'`: every block value is in the domain **or** the block is *pure*
  (its value is pointwise at least as good as every admissible prediction on the block's data);
* a block of observations in `[0,1]` with positive weights whose mean is `0` or `1` consists of
  observations all equal to that mean, and `logLoss m m = 0 ≤ logLoss m z` for `z ∈ (0,1)`: pure;
* `ll_fitOpt`: the mean fit minimises the log loss among non-decreasing `(0,1)`-valued sequences
  (`dec_FitOpt`, whose competitor domain is `(0,1)` while the fitted values lie in `[0,1]`);
* `ll_row_signs`, `ll_row_unc_best`: rows of `decompose`; a marginal in `{0,1}` forces all
  observations, hence all recalibrated values, to equal it (`dsc = 0`);
* `dec_recal_fix`: recalibrating recalibrated forecasts returns the same forecasts (mean, expectile:
  by uniqueness of the minimiser of the canonical score), hence `mcb = 0` for every score object;
* `ll_decompose_ok`: `decompose` succeeds for the log loss (non-vacuity). -/

set_option linter.unusedSectionVars false

namespace MD

/-! ## Blocks that are in the domain or pure -/

section Blocks
variable {K : Type} [Field K] [LinearOrder K] [IsStrictOrderedRing K]

/-- a constant that is pointwise at least as good as every competitor value -/
theorem total_ge_of_pointwise (S : Obs K → K → K) (v : K) (d : List (Obs K)) (zs : List K)
    (hlen : d.length = zs.length) (h : ∀ o ∈ d, ∀ z ∈ zs, S o v ≤ S o z) :
    (d.map (S · v)).sum ≤ total S d zs := by
  induction d generalizing zs with
  | nil => simp [total]
  | cons o d ih =>
    cases zs with
    | nil => simp at hlen
    | cons z zs =>
      have h1 := h o (by simp) z (by simp)
      have h2 := ih zs (by simpa using hlen)
        (fun o' ho' z' hz' => h o' (by simp [ho']) z' (by simp [hz']))
      simp only [total, List.zipWith_cons_cons, List.sum_cons, List.map_cons] at *
      linarith

variable {F : IdFun K} (Sc : OSScore F)

/-- `blocks_optimal` with pure blocks allowed: each block value is admissible, or it is pointwise at
least as good as every admissible prediction on the data of its block -/
theorem blocks_optimal' (bs : List (Blk K)) (hbs : ∀ b ∈ bs, Good F.ok F.T b)
    (hdomv : ∀ b ∈ bs, Sc.dom b.val ∨ ∀ o ∈ b.data, ∀ z, Sc.dom z → Sc.S o b.val ≤ Sc.S o z)
    (zs : List K) (hlen : (bs.flatMap (·.data)).length = zs.length)
    (hdom : ∀ z ∈ zs, Sc.dom z) (hsort : zs.Pairwise (· ≤ ·)) :
    total Sc.S (bs.flatMap (·.data)) (expand bs) ≤ total Sc.S (bs.flatMap (·.data)) zs := by
  induction bs generalizing zs with
  | nil => simp [expand, total]
  | cons b bs ih =>
    have hb := hbs b (by simp)
    set m := b.data.length with hm
    have hz : zs = zs.take m ++ zs.drop m := (List.take_append_drop m zs).symm
    simp only [List.flatMap_cons, List.length_append] at hlen
    have hl1 : b.data.length = (zs.take m).length := by rw [List.length_take]; omega
    have hl2 : (bs.flatMap (·.data)).length = (zs.drop m).length := by rw [List.length_drop]; omega
    have B : (b.data.map (Sc.S · b.val)).sum ≤ total Sc.S b.data (zs.take m) := by
      rcases hdomv b (by simp) with hv | hp
      · exact block_optimal Sc b.val hv b.data (zs.take m) hl1 hb.allok
          (fun z hz' => hdom z (List.mem_of_mem_take hz')) (hsort.sublist (List.take_sublist _ _))
          (good_cert_pre hb) (good_cert_suf hb)
      · exact total_ge_of_pointwise Sc.S b.val b.data (zs.take m) hl1
          (fun o ho z hz' => hp o ho z (hdom z (List.mem_of_mem_take hz')))
    have R := ih (fun b' hb' => hbs b' (by simp [hb'])) (fun b' hb' => hdomv b' (by simp [hb']))
      (zs.drop m) hl2 (fun z hz' => hdom z (List.mem_of_mem_drop hz'))
      (hsort.sublist (List.drop_sublist _ _))
    have e1 : total Sc.S ((b :: bs).flatMap (·.data)) zs
        = total Sc.S b.data (zs.take m) + total Sc.S (bs.flatMap (·.data)) (zs.drop m) := by
      conv_lhs => rw [hz]
      simp only [List.flatMap_cons]
      exact total_append _ _ _ _ _ hl1
    have e2 : total Sc.S ((b :: bs).flatMap (·.data)) (expand (b :: bs))
        = (b.data.map (Sc.S · b.val)).sum + total Sc.S (bs.flatMap (·.data)) (expand bs) := by
      simp only [List.flatMap_cons, expand]
      rw [total_append _ _ _ _ _ (by simp), total_replicate]
    rw [e1, e2]
    linarith

/-- `fit_optimal` with pure blocks allowed -/
theorem fit_optimal' (ys : List (Obs K)) (hys : ∀ o ∈ ys, F.ok o)
    (hdomv : ∀ b ∈ gpava F.T ys,
      Sc.dom b.val ∨ ∀ o ∈ b.data, ∀ z, Sc.dom z → Sc.S o b.val ≤ Sc.S o z)
    (zs : List K) (hlen : ys.length = zs.length)
    (hdom : ∀ z ∈ zs, Sc.dom z) (hsort : zs.Pairwise (· ≤ ·)) :
    total Sc.S ys (expand (gpava F.T ys)) ≤ total Sc.S ys zs := by
  obtain ⟨h1, _, h3⟩ := gpava_spec F.internal ys hys
  have := blocks_optimal' Sc (gpava F.T ys) h1 hdomv zs (by rw [h3]; exact hlen) hdom hsort
  rwa [h3] at this

end Blocks

/-! ## Recalibrating twice gives the same forecasts (mean, expectile) -/

section Fix
variable {K : Type} [Field K] [LinearOrder K] [IsStrictOrderedRing K] [ScoreOps K] [Inhabited K]

omit [ScoreOps K] in
/-- **Recalibrated forecasts are a fixed point of recalibration** (mean and expectile): the model
fitted on `recal(X₀)` maps every value of `recal(X₀)` to itself.  The composed prediction function
is a non-decreasing function of `X₀` with the same canonical total score as the fit on `X₀`
(`dec_recal_idem_total`), and that minimiser is unique (`dec_recal_unique`). -/
theorem dec_recal_fix {f : Functional} {lv : K} (hme : f = .mean ∨ f = .expectile)
    {X₀ y : List K} {w : Option (List K)} {tx₀ ty₀ tx ty : List K}
    (h₀ : isoFit (some f) lv true X₀ y w = .ok (tx₀, ty₀))
    (h : isoFit (some f) lv true (X₀.map (interp tx₀ ty₀)) y w = .ok (tx, ty)) :
    (X₀.map (interp tx₀ ty₀)).map (interp tx ty) = X₀.map (interp tx₀ ty₀) := by
  have hm : f ≠ .median := by rcases hme with rfl | rfl <;> decide
  obtain ⟨hF, _⟩ := dec_isoFit_fitOK hm h₀
  have hopt := dec_canon_fitOpt hF hme y
  have idem := dec_recal_idem_total h₀ h hopt (fun _ _ => trivial)
  rw [List.map_map] at idem
  have huniq := dec_recal_unique hme h₀ (interp tx ty ∘ interp tx₀ ty₀)
    ((dec_interp_monotone h).comp (dec_interp_monotone h₀)) (le_of_eq idem)
  rw [List.map_map]
  exact List.map_congr_left huniq

/-- **`mcb = 0` for recalibrated forecasts — every score object, mean or expectile functional**,
provided no domain repair takes place: the recalibration of `recal(X₀)` is `recal(X₀)` itself, so
the two average scores coincide. -/
theorem dec_row_mcb_zero_fix (sf : SF K) {f : Functional} {lv : K}
    (hme : f = .mean ∨ f = .expectile) (ys : List K) (w : Option (List K))
    (hallowed : dec_yminAllowed sf ys w = true) (sm : K)
    (X₀ tx₀ ty₀ : List K) (h₀ : isoFit (some f) lv true X₀ ys w = .ok (tx₀, ty₀))
    (row : DecompRow K)
    (hrow : dec_row sf f lv ys w sm (X₀.map (interp tx₀ ty₀)) = .ok row) : row.mcb = 0 := by
  obtain ⟨recal, score, scoreRecal, hrec, hsc, hsr, rfl⟩ :=
    (dec_row_ok sf f lv ys w sm _ row).mp hrow
  obtain ⟨tx, ty, hfit, rfl⟩ := dec_recal_ok_allowed hallowed hrec
  rw [dec_recal_fix hme h₀ hfit, hsc] at hsr
  show score - scoreRecal = 0
  rw [Except.ok.inj hsr, sub_self]

end Fix

/-! ## The log loss at `ℝ` -/

section LogLoss

/-- the Bregman / Kullback–Leibler inequality behind the order sensitivity of the log loss: for
predictions `t, c ∈ (0,1)` and **every** observation `y`,
`S(y,c) − S(y,t) − (t − y)(ψ(c) − ψ(t)) = t log(t/c) + (1−t) log((1−t)/(1−c)) ≥ 0`
with `ψ(z) = log z − log(1 − z)`. -/
theorem ll_bregman (y t c : ℝ) (ht0 : 0 < t) (ht1 : t < 1) (hc0 : 0 < c) (hc1 : c < 1) :
    (t - y) * ((Real.log c - Real.log (1 - c)) - (Real.log t - Real.log (1 - t)))
      ≤ logLoss y c - logLoss y t := by
  have a1 : (0 : ℝ) < 1 - t := by linarith
  have a2 : (0 : ℝ) < 1 - c := by linarith
  have h1 := sub_le_mul_log_div ht0.le hc0
  have h2 := sub_le_mul_log_div a1.le a2
  rw [logLoss_diff ht0 ht1 hc0 hc1]
  rw [Real.log_div ht0.ne' hc0.ne'] at h1 ⊢
  rw [Real.log_div a1.ne' a2.ne'] at h2 ⊢
  nlinarith [h1, h2]

/-- **the log loss is an order-sensitive score of the mean on the open unit interval** (any
observation, positive weight); `ψ` is the logit -/
noncomputable def ll_score : OSScore (meanFun (K := ℝ)) where
  S o z := o.2 * logLoss o.1 z
  ψ z := Real.log z - Real.log (1 - z)
  dom z := 0 < z ∧ z < 1
  ψ_mono := by
    intro a b ha hb hab
    have h1 := Real.log_le_log ha.1 hab
    have h2 := Real.log_le_log (by linarith [hb.2] : (0 : ℝ) < 1 - b) (by linarith : 1 - b ≤ 1 - a)
    linarith
  up := by
    intro o t c ho ht hc _
    have hw : 0 < o.2 := ho
    have k := mul_le_mul_of_nonneg_left (ll_bregman o.1 t c ht.1 ht.2 hc.1 hc.2) hw.le
    show o.2 * (t - o.1) * ((Real.log c - Real.log (1 - c)) - (Real.log t - Real.log (1 - t))) ≤ _
    linarith
  dn := by
    intro o t c ho ht hc _
    have hw : 0 < o.2 := ho
    have k := mul_le_mul_of_nonneg_left (ll_bregman o.1 t c ht.1 ht.2 hc.1 hc.2) hw.le
    show o.2 * (t - o.1) * ((Real.log c - Real.log (1 - c)) - (Real.log t - Real.log (1 - t))) ≤ _
    linarith

theorem ll_self (m : ℝ) : logLoss m m = 0 := by rw [logLoss_real]; ring

/-- a sample of observations in `[0,1]` with positive weights: its mean is in `(0,1)`, or all
observations are equal to the mean (which is then `0` or `1`) -/
theorem ll_mean_cases {d : List (Obs ℝ)} (hne : d ≠ []) (hpos : ∀ o ∈ d, 0 < o.2)
    (hy : ∀ o ∈ d, 0 ≤ o.1 ∧ o.1 ≤ 1) :
    (0 < wmean d ∧ wmean d < 1) ∨ ∀ o ∈ d, o.1 = wmean d := by
  obtain ⟨m0, m1⟩ := cons_wmean_mem_unit hne hpos hy
  rcases eq_or_lt_of_le m0 with e0 | l0
  · exact Or.inr (cons_all_eq_mean_of_sign hne hpos
      (Or.inl (fun o ho => by rw [← e0]; exact (hy o ho).1)))
  rcases eq_or_lt_of_le m1 with e1 | l1
  · exact Or.inr (cons_all_eq_mean_of_sign hne hpos
      (Or.inr (fun o ho => by rw [e1]; exact (hy o ho).2)))
  exact Or.inl ⟨l0, l1⟩

/-- **The mean fit minimises the log loss**: for observations in `[0,1]` the output of the
isotonic (mean) fit — values in `[0,1]`, possibly `0` or `1` — has a total weighted log loss not
larger than that of any non-decreasing sequence with values in the open interval `(0,1)`. -/
theorem ll_fitOpt (lv : ℝ) (ys : List ℝ) (hy : ∀ y ∈ ys, 0 ≤ y ∧ y ≤ 1) :
    dec_FitOpt .mean lv (fun y z => logLoss y z) (fun z => 0 < z ∧ z < 1) ys := by
  intro y wopt yiso r hr hmem zs hz hs hzd
  have hfit := dec_gpavaFit_mean (K := ℝ) lv
  have hr' : isoReg (some .mean) lv true y (some (dec_wts y wopt)) = .ok (yiso, r) := by
    cases wopt with
    | none => rw [isoReg_weights_none .mean (Or.inl rfl)] at hr; exact hr
    | some wl => exact hr
  obtain ⟨hne, hlen, hpos⟩ := dec_isoReg_some_ok hr'
  have hx := hfit.fit _ _ _ _ hr'
  rw [hx]
  have hys : ∀ o ∈ y.zip (dec_wts y wopt), (meanFun (K := ℝ)).ok o := by
    intro o ho
    exact hpos _ (List.of_mem_zip (a := o.1) (b := o.2) ho).2
  refine fit_optimal' ll_score _ hys ?_ zs (by rw [zip_length_of_eq hlen, hz]) hzd hs
  intro b hb
  obtain ⟨hg, _, hflat⟩ := gpava_spec (meanFun (K := ℝ)).internal _ hys
  have hgb := hg b hb
  have hbd : ∀ o ∈ b.data, 0 ≤ o.1 ∧ o.1 ≤ 1 := by
    intro o ho
    have : o ∈ y.zip (dec_wts y wopt) := by
      rw [← hflat]; exact List.mem_flatMap.mpr ⟨b, hb, ho⟩
    exact hy _ (hmem _ (List.of_mem_zip (a := o.1) (b := o.2) this).1)
  have hv : b.val = wmean b.data := hgb.val
  obtain ⟨m0, m1⟩ := cons_wmean_mem_unit hgb.ne hgb.allok hbd
  rcases ll_mean_cases hgb.ne hgb.allok hbd with hin | hall
  · left
    rw [hv]
    exact hin
  · right
    intro o ho z hzd'
    show o.2 * logLoss o.1 b.val ≤ o.2 * logLoss o.1 z
    have hw : 0 < o.2 := hgb.allok o ho
    rw [hv, hall o ho, ll_self, mul_zero]
    exact mul_nonneg hw.le (cons_logLoss_nonneg m0 m1 hzd'.1 hzd'.2)

/-- the per-pair value of the log loss object (no domain check in the code) -/
theorem ll_sfPair (sf : SF ℝ) (hk : sf.kind = .logloss) (he : sf.elem = none) (y z : ℝ) :
    sfPair sf y z = .ok (logLoss y z) := by
  unfold sfPair
  rw [he, hk]
  rfl

/-- for the log loss `functional` is the mean -/
theorem ll_validate (sf : SF ℝ) (hk : sf.kind = .logloss) (he : sf.elem = none)
    (fn : Option (Option Functional)) (hfn : fn = none ∨ fn = some (some .mean)) (lv : Option ℝ) :
    ∃ l, dec_validate sf fn lv = .ok (Functional.mean, l) := by
  have hf : dec_fn sf fn = some .mean := by
    rcases hfn with rfl | rfl
    · simp [dec_fn, sfFunctional, he, hk]
    · rfl
  unfold dec_validate
  rw [hf]
  cases lv with
  | none => exact ⟨half, rfl⟩
  | some l => exact ⟨l, rfl⟩

/-- the log loss never raises: the flag `yminAllowed` always holds, there is never a repair -/
theorem ll_allowed (sf : SF ℝ) (hk : sf.kind = .logloss) (he : sf.elem = none) (ys : List ℝ)
    (w : Option (List ℝ)) : dec_yminAllowed sf ys w = true :=
  dec_yminAllowed_of_ok sf ys w _ (ll_sfPair sf hk he _ _)

/-- average log loss as a weighted total, for **every** prediction vector of the right length -/
theorem ll_sfMean (sf : SF ℝ) (hk : sf.kind = .logloss) (he : sf.elem = none) (ys zs : List ℝ)
    (w : Option (List ℝ)) (hlen : zs.length = ys.length)
    (hw : ∀ w', w = some w' → w'.length = ys.length) (hne : ys ≠ [])
    (hpos : ∀ v ∈ dec_wts ys w, 0 < v) :
    sfMean sf ys zs w
      = .ok (total (dec_wS fun y z => logLoss y z) (ys.zip (dec_wts ys w)) zs
          / (dec_wts ys w).sum) :=
  dec_sfMean_ok sf (fun y z => logLoss y z) ys zs w hlen
    (fun p _ => ll_sfPair sf hk he p.1 p.2) hw hne hpos

/-- the marginal mean of observations in `[0,1]`: in `(0,1)`, or equal to every observation -/
theorem ll_marginal_cases {lv : ℝ} {ys : List ℝ} {w : Option (List ℝ)} {marg : ℝ}
    (hy : ∀ y ∈ ys, 0 ≤ y ∧ y ≤ 1)
    (hw : ∀ w', w = some w' → w'.length = ys.length) (hne : ys ≠ [])
    (hpos : ∀ v ∈ dec_wts ys w, 0 < v) (h : functionalVal .mean lv ys w = .ok marg) :
    (0 < marg ∧ marg < 1) ∨ ∀ y ∈ ys, y = marg := by
  have hm : marg = wmean (ys.zip (dec_wts ys w)) :=
    dec_functionalVal_eq (fun a _ => absurd rfl a) hw hne hpos h
  have hl := dec_wts_length ys w hw
  have hdne : ys.zip (dec_wts ys w) ≠ [] := by
    intro he
    have hl' := congrArg List.length he
    rw [zip_length_of_eq hl] at hl'
    exact hne (List.length_eq_zero_iff.mp hl')
  have hdpos : ∀ o ∈ ys.zip (dec_wts ys w), 0 < o.2 := fun o ho =>
    hpos _ (List.of_mem_zip (a := o.1) (b := o.2) ho).2
  have hdy : ∀ o ∈ ys.zip (dec_wts ys w), 0 ≤ o.1 ∧ o.1 ≤ 1 := fun o ho =>
    hy _ (List.of_mem_zip (a := o.1) (b := o.2) ho).1
  rcases ll_mean_cases hdne hdpos hdy with hin | hall
  · left
    rw [hm]
    exact hin
  · right
    intro y hyy
    obtain ⟨i, hi, rfl⟩ := List.getElem_of_mem hyy
    have : (ys[i], (dec_wts ys w)[i]'(by omega)) ∈ ys.zip (dec_wts ys w) := by
      rw [List.mem_iff_getElem]
      exact ⟨i, by simp; omega, by simp⟩
    rw [hm]
    exact hall _ this

/-- **Signs of one row for the log loss**: observations in `[0,1]`, forecasts in `(0,1)`. -/
theorem ll_row_signs (sf : SF ℝ) (hk : sf.kind = .logloss) (he : sf.elem = none) (lv : ℝ)
    (ys : List ℝ) (w : Option (List ℝ)) (hy : ∀ y ∈ ys, 0 ≤ y ∧ y ≤ 1) (marg sm : ℝ)
    (hmarg : functionalVal .mean lv ys w = .ok marg)
    (hm : sfMean sf ys (ys.map fun _ => marg) w = .ok sm)
    (x : List ℝ) (hx : ∀ z ∈ x, 0 < z ∧ z < 1) (row : DecompRow ℝ)
    (hrow : dec_row sf .mean lv ys w sm x = .ok row) : 0 ≤ row.mcb ∧ 0 ≤ row.dsc := by
  obtain ⟨recal, score, scoreRecal, hrec, hsc, hsr, rfl⟩ :=
    (dec_row_ok sf .mean lv ys w sm x row).mp hrow
  obtain ⟨tx, ty, hfit, rfl⟩ := dec_recal_ok_allowed (ll_allowed sf hk he ys w) hrec
  obtain ⟨hX, hw, hne, hpos⟩ := dec_isoFit_ok_data hfit
  have hW : 0 < (dec_wts ys w).sum := by
    apply List.sum_pos _ hpos
    intro he'
    have := dec_wts_length ys w hw
    rw [he'] at this
    exact hne (List.length_eq_zero_iff.mp this.symm)
  have hopt := ll_fitOpt lv ys hy
  have e1 := ll_sfMean sf hk he ys x w hX hw hne hpos
  have e2 := ll_sfMean sf hk he ys (x.map (interp tx ty)) w (by simp [hX]) hw hne hpos
  have hconst : ys.map (fun _ => marg) = x.map (fun _ => marg) := by
    rw [List.map_const', List.map_const', hX]
  have e3 := ll_sfMean sf hk he ys (ys.map fun _ => marg) w (by simp) hw hne hpos
  rw [hsc] at e1
  rw [hsr] at e2
  rw [hm, hconst] at e3
  have i1 := dec_recal_le_forecast hfit hopt hx
  have i2 : total (dec_wS fun y z => logLoss y z) (ys.zip (dec_wts ys w)) (x.map (interp tx ty))
      ≤ total (dec_wS fun y z => logLoss y z) (ys.zip (dec_wts ys w)) (x.map fun _ => marg) := by
    rcases ll_marginal_cases hy hw hne hpos hmarg with hin | hall
    · exact dec_recal_le_const hfit hopt marg hin
    · have : x.map (interp tx ty) = x.map fun _ => marg := by
        apply List.map_congr_left
        intro q hq
        obtain ⟨⟨a, ha, hal⟩, ⟨b, hb, hbl⟩⟩ :=
          dec_recal_range hfit (interp tx ty q) (List.mem_map.mpr ⟨q, hq, rfl⟩)
        rw [hall a ha] at hal
        rw [hall b hb] at hbl
        exact le_antisymm hbl hal
      rw [this]
  rw [Except.ok.inj e1, Except.ok.inj e2, Except.ok.inj e3]
  constructor
  · show 0 ≤ _ / _ - _ / _
    rw [← sub_div]
    exact div_nonneg (by linarith) hW.le
  · show 0 ≤ _ / _ - _ / _
    rw [← sub_div]
    exact div_nonneg (by linarith) hW.le

/-- **`unc` is not larger than the average log loss of any constant forecast `c ∈ (0,1)`**
(row form: the row's fit provides the positivity of the weights) -/
theorem ll_row_unc_best (sf : SF ℝ) (hk : sf.kind = .logloss) (he : sf.elem = none) (lv : ℝ)
    (ys : List ℝ) (w : Option (List ℝ)) (hy : ∀ y ∈ ys, 0 ≤ y ∧ y ≤ 1) (marg sm : ℝ)
    (hmarg : functionalVal .mean lv ys w = .ok marg)
    (hsm : sfMean sf ys (ys.map fun _ => marg) w = .ok sm)
    (x : List ℝ) (row : DecompRow ℝ) (hrow : dec_row sf .mean lv ys w sm x = .ok row)
    (c s : ℝ) (hc : 0 < c ∧ c < 1) (hs : sfMean sf ys (ys.map fun _ => c) w = .ok s) :
    sm ≤ s := by
  obtain ⟨recal, _, _, hrec, _, _, _⟩ := (dec_row_ok sf .mean lv ys w sm x row).mp hrow
  obtain ⟨tx, ty, hfit, _⟩ := (dec_recal_ok sf .mean lv ys w x recal).mp hrec
  obtain ⟨hX, hw, hne, hpos⟩ := dec_isoFit_ok_data hfit
  have hW : 0 < (dec_wts ys w).sum := by
    apply List.sum_pos _ hpos
    intro he'
    have := dec_wts_length ys w hw
    rw [he'] at this
    exact hne (List.length_eq_zero_iff.mp this.symm)
  have e1 := ll_sfMean sf hk he ys (ys.map fun _ => marg) w (by simp) hw hne hpos
  have e2 := ll_sfMean sf hk he ys (ys.map fun _ => c) w (by simp) hw hne hpos
  rw [hsm] at e1
  rw [hs] at e2
  rw [Except.ok.inj e1, Except.ok.inj e2]
  exact div_le_div_of_nonneg_right
    (dec_marginal_best_const (by decide) hfit (ll_fitOpt lv ys hy) hmarg c hc) hW.le

/-- **`decompose` succeeds for the log loss** on every non-empty data set with forecast columns of
the right length and positive (or absent) weights of the right length (the model never raises for
the log loss: there is no domain check) -/
theorem ll_decompose_ok (sf : SF ℝ) (hk : sf.kind = .logloss) (he : sf.elem = none)
    (fn : Option (Option Functional)) (hfn : fn = none ∨ fn = some (some .mean)) (lv : Option ℝ)
    (ys : List ℝ) (cols : List (List ℝ)) (w : Option (List ℝ)) (hne : ys ≠ [])
    (hc : ∀ c ∈ cols, c.length = ys.length) (hw : ∀ w', w = some w' → w'.length = ys.length)
    (hpos : ∀ v ∈ dec_wts ys w, 0 < v) : ∃ rows, decompose sf fn lv ys cols w = .ok rows := by
  obtain ⟨l, hv⟩ := ll_validate sf hk he fn hfn lv
  have hmean : ∀ zs : List ℝ, zs.length = ys.length → ∃ s, sfMean sf ys zs w = .ok s :=
    fun zs hz => ⟨_, ll_sfMean sf hk he ys zs w hz hw hne hpos⟩
  obtain ⟨sm, hsm⟩ := hmean (ys.map fun _ =>
    (List.zipWith (· * ·) ys (dec_wts ys w)).sum / (dec_wts ys w).sum) (by simp)
  have hmarg : dec_marginal sf .mean l ys w
      = .ok ((List.zipWith (· * ·) ys (dec_wts ys w)).sum / (dec_wts ys w).sum, sm) := by
    unfold dec_marginal
    have hfv : functionalVal .mean l ys w
        = .ok ((List.zipWith (· * ·) ys (dec_wts ys w)).sum / (dec_wts ys w).sum) :=
      dec_average_ok ys ys w rfl hw hne hpos
    rw [hfv, dec_ok_bind]
    have hprobe : ∀ m : ℝ, sfMean sf [ys[0]!] [m] none ≠ .error .valueError :=
      fun m => dec_sfMean_not_valueError sf _ _ none rfl (fun y z => logLoss y z)
        (fun p _ => ll_sfPair sf hk he p.1 p.2)
    split_ifs with hcnd
    · cases hp : sfMean sf [ys[0]!]
          [(List.zipWith (· * ·) ys (dec_wts ys w)).sum / (dec_wts ys w).sum] none with
      | error e =>
        cases e
        · exact absurd hp (hprobe _)
        all_goals (simp only []; rw [hsm]; rfl)
      | ok v => simp only []; rw [hsm]; rfl
    · simp only []
      rw [hsm]; rfl
  have hallowed := ll_allowed sf hk he ys w
  have hrow : ∀ x ∈ cols, ∃ row, dec_row sf .mean l ys w sm x = .ok row := by
    intro x hx
    obtain ⟨tx, ty, hfit⟩ := dec_isoFit_mean_ok l x ys w (hc x hx) hw hne hpos
    have hrec : dec_recal sf .mean l ys w x = .ok (x.map (interp tx ty)) := by
      refine (dec_recal_ok sf .mean l ys w x _).mpr ⟨tx, ty, hfit, ?_⟩
      rw [if_neg (by rw [hallowed]; simp)]
      rfl
    obtain ⟨s, hs⟩ := hmean x (hc x hx)
    obtain ⟨sR, hsR⟩ := hmean (x.map (interp tx ty)) (by simp [hc x hx])
    exact ⟨_, (dec_row_ok sf .mean l ys w sm x _).mpr ⟨_, s, sR, hrec, hs, hsR, rfl⟩⟩
  have hrows : ∃ rows, cols.mapM (dec_row sf .mean l ys w sm) = .ok rows := by
    cases hm : cols.mapM (dec_row sf .mean l ys w sm) with
    | ok rows => exact ⟨rows, rfl⟩
    | error e =>
      exfalso
      clear hmarg hsm
      induction cols generalizing e with
      | nil => cases hm
      | cons c cols ih =>
        rw [dec_mapM_cons] at hm
        obtain ⟨row, hr⟩ := hrow c (by simp)
        rw [hr, dec_ok_bind] at hm
        cases hm' : cols.mapM (dec_row sf .mean l ys w sm) with
        | ok rows => rw [hm'] at hm; cases hm
        | error e' =>
          exact ih (fun c' hc' => hc c' (by simp [hc'])) (fun x hx => hrow x (by simp [hx])) e' hm'
  obtain ⟨rows, hrows⟩ := hrows
  exact ⟨rows, (dec_ok_iff sf fn lv ys cols w rows).mpr
    ⟨.mean, l, _, sm, hv, (dec_shape_ok ys cols w).mpr ⟨hc, hw, hne⟩, hmarg, hrows⟩⟩

end LogLoss

end MD
