import MD.Model.Table
import Mathlib.Data.List.Basic
import Mathlib.Data.List.Sort
import Mathlib.Data.List.Perm.Subperm
import Mathlib.Data.List.Dedup
import Mathlib.Data.String.Basic
import Mathlib.Algebra.BigOperators.Group.List.Basic
import Mathlib.Algebra.Order.Field.Basic
import Mathlib.Algebra.Order.BigOperators.Group.List
import Mathlib.Tactic.Linarith
import Mathlib.Tactic.Ring
import Mathlib.Tactic.FieldSimp
import Mathlib.Tactic.Positivity

/-! Helper lemmas for the binning / group-by model `MD/Model/Table.lean`
(properties C13, C09, C10).  All helper names are prefixed `tbl_`. -/

set_option linter.unusedSectionVars false
set_option linter.unusedVariables false
set_option linter.deprecated false

namespace MD
variable {K : Type} [Field K] [LinearOrder K] [IsStrictOrderedRing K]

/-! ### 1. the order on cells -/

theorem tbl_lt_irrefl (a : Cell K) : Cell.lt a a = false := by
  cases a <;> simp [Cell.lt]

theorem tbl_lt_trans {a b c : Cell K} (h1 : Cell.lt a b = true) (h2 : Cell.lt b c = true) :
    Cell.lt a c = true := by
  cases a <;> cases b <;> cases c <;> simp_all [Cell.lt]
  exact lt_trans h1 h2

theorem tbl_lt_asymm {a b : Cell K} (h : Cell.lt a b = true) : Cell.lt b a = false := by
  cases a <;> cases b <;> simp_all [Cell.lt]
  exact le_of_lt h

theorem tbl_lt_trichotomy (a b : Cell K) (ha : a.isNull = false) (hb : b.isNull = false) :
    Cell.lt a b = true ∨ a = b ∨ Cell.lt b a = true := by
  cases a <;> cases b <;> simp_all [Cell.lt, Cell.isNull]
  exact lt_trichotomy _ _

theorem tbl_le_def (a b : Cell K) : Cell.le a b = !Cell.lt b a := rfl

theorem tbl_le_refl (a : Cell K) : Cell.le a a = true := by
  simp [Cell.le, tbl_lt_irrefl]

theorem tbl_le_of_lt {a b : Cell K} (h : Cell.lt a b = true) : Cell.le a b = true := by
  simp [Cell.le, tbl_lt_asymm h]

/-- `e < x ≤ x'` gives `e < x'` (only `x'` has to be non-null) -/
theorem tbl_lt_of_lt_of_le {e x x' : Cell K} (hx' : x'.isNull = false)
    (h1 : Cell.lt e x = true) (h2 : Cell.le x x' = true) : Cell.lt e x' = true := by
  cases e <;> cases x <;> cases x' <;> simp_all [Cell.lt, Cell.le, Cell.isNull]
  exact lt_of_lt_of_le h1 h2

/-- `a ≤ b < c` gives `a < c` (only `a` has to be non-null) -/
theorem tbl_lt_of_le_of_lt {a b c : Cell K} (ha : a.isNull = false)
    (h1 : Cell.le a b = true) (h2 : Cell.lt b c = true) : Cell.lt a c = true := by
  cases a <;> cases b <;> cases c <;> simp_all [Cell.lt, Cell.le, Cell.isNull]
  exact lt_of_le_of_lt h1 h2

theorem tbl_le_trans {a b c : Cell K} (hb : b.isNull = false)
    (h1 : Cell.le a b = true) (h2 : Cell.le b c = true) : Cell.le a c = true := by
  cases a <;> cases b <;> cases c <;> simp_all [Cell.lt, Cell.le, Cell.isNull]
  exact le_trans h1 h2

theorem tbl_le_total (a b : Cell K) : (Cell.le a b || Cell.le b a) = true := by
  cases a <;> cases b <;> simp [Cell.lt, Cell.le]
  exact le_total _ _

theorem tbl_le_antisymm {a b : Cell K} (ha : a.isNull = false) (hb : b.isNull = false)
    (h1 : Cell.le a b = true) (h2 : Cell.le b a = true) : a = b := by
  cases a <;> cases b <;> simp_all [Cell.lt, Cell.le, Cell.isNull]
  exact le_antisymm h1 h2

/-! ### 2. `digitize` -/

theorem tbl_digitize_mono (edges : List (Cell K)) {x x' : Cell K} (hx' : x'.isNull = false)
    (h : Cell.le x x' = true) : digitize edges x ≤ digitize edges x' :=
  List.countP_mono_left (fun e _ he => tbl_lt_of_lt_of_le hx' he h)

theorem tbl_digitize_le_length (edges : List (Cell K)) (x : Cell K) :
    digitize edges x ≤ edges.length := List.countP_le_length

/-- for weakly sorted non-null edges the edges strictly below `x` form a prefix -/
theorem tbl_digitize_sorted (inner : List (Cell K)) (x : Cell K)
    (hs : inner.Pairwise (fun a b => Cell.le a b = true))
    (hn : ∀ e ∈ inner, e.isNull = false) :
    (∀ j, j < digitize inner x → ∃ e, inner[j]? = some e ∧ Cell.lt e x = true) ∧
    (∀ j e, digitize inner x ≤ j → inner[j]? = some e → Cell.lt e x = false) := by
  induction inner with
  | nil => simp [digitize]
  | cons e t ih =>
    have hs' := List.pairwise_cons.1 hs
    have ih' := ih hs'.2 (fun e he => hn e (List.mem_cons_of_mem _ he))
    by_cases hex : Cell.lt e x = true
    · have hd : digitize (e :: t) x = digitize t x + 1 := by
        simp [digitize, hex]
      rw [hd]
      constructor
      · intro j hj
        cases j with
        | zero => exact ⟨e, by simp, hex⟩
        | succ j => simpa using ih'.1 j (by omega)
      · intro j e' hj he'
        cases j with
        | zero => omega
        | succ j => exact ih'.2 j e' (by omega) (by simpa using he')
    · have hex' : Cell.lt e x = false := by simpa using hex
      have hall : ∀ e' ∈ t, Cell.lt e' x = false := by
        intro e' he'
        by_contra hc
        have hc' : Cell.lt e' x = true := by simpa using hc
        have := tbl_lt_of_le_of_lt (hn e (by simp)) (hs'.1 e' he') hc'
        rw [hex'] at this
        exact Bool.noConfusion this
      have hd : digitize (e :: t) x = 0 := by
        simp only [digitize, List.countP_cons, hex', Bool.false_eq_true, if_false, Nat.add_zero]
        rw [List.countP_eq_zero]
        intro e' he'
        simp [hall e' he']
      rw [hd]
      constructor
      · intro j hj; omega
      · intro j e' _ he'
        cases j with
        | zero => simp at he'; rw [← he']; exact hex'
        | succ j =>
          simp at he'
          exact hall e' (List.mem_of_getElem? he')

/-- generic "the reported edges contain the value" statement: `full = [lo] ++ inner ++ [hi]`,
bin `i = digitize inner x`; left-open except the first bin -/
theorem tbl_edges_contain (inner : List (Cell K)) (lo hi x : Cell K)
    (hs : inner.Pairwise (fun a b => Cell.le a b = true))
    (hn : ∀ e ∈ inner, e.isNull = false)
    (hlo : Cell.le lo x = true) (hhi : Cell.le x hi = true) :
    let i := digitize inner x
    let full := [lo] ++ inner ++ [hi]
    Cell.le x (full.getD (i + 1) .null) = true ∧
    (i = 0 → Cell.le (full.getD i .null) x = true) ∧
    (0 < i → Cell.lt (full.getD i .null) x = true) := by
  intro i full
  obtain ⟨h1, h2⟩ := tbl_digitize_sorted inner x hs hn
  have hil : i ≤ inner.length := tbl_digitize_le_length inner x
  refine ⟨?_, ?_, ?_⟩
  · show Cell.le x (([lo] ++ inner ++ [hi]).getD (i + 1) .null) = true
    simp only [List.cons_append, List.nil_append, List.getD_cons_succ]
    rw [List.getD_eq_getElem?_getD]
    by_cases hlt : i < inner.length
    · rw [List.getElem?_append_left hlt]
      have hget : inner[i]? = some inner[i] := List.getElem?_eq_getElem hlt
      have := h2 i inner[i] (le_refl _) hget
      rw [hget]
      simp [Cell.le, this]
    · have : i = inner.length := by omega
      rw [this, List.getElem?_append_right (le_refl _)]
      simpa using hhi
  · intro hi0
    show Cell.le (([lo] ++ inner ++ [hi]).getD i .null) x = true
    rw [hi0]
    simpa using hlo
  · intro hpos
    show Cell.lt (([lo] ++ inner ++ [hi]).getD i .null) x = true
    obtain ⟨j, hj⟩ : ∃ j, i = j + 1 := ⟨i - 1, by omega⟩
    obtain ⟨e, he, hex⟩ := h1 j (by omega)
    rw [hj]
    simp only [List.cons_append, List.nil_append, List.getD_cons_succ]
    rw [List.getD_eq_getElem?_getD]
    have hjl : j < inner.length := by omega
    rw [List.getElem?_append_left hjl, he]
    simpa using hex

/-! ### 3. `cellMin` / `cellMax` -/

theorem tbl_foldl_min (t : List (Cell K)) (a : Cell K) (hn : ∀ c ∈ a :: t, c.isNull = false) :
    t.foldl (fun m c => if Cell.lt c m then c else m) a ∈ a :: t ∧
    Cell.le (t.foldl (fun m c => if Cell.lt c m then c else m) a) a = true ∧
    ∀ c ∈ t, Cell.le (t.foldl (fun m c => if Cell.lt c m then c else m) a) c = true := by
  induction t generalizing a with
  | nil => simp [tbl_le_refl]
  | cons c t ih =>
    simp only [List.foldl_cons]
    have ha : a.isNull = false := hn a (by simp)
    have hc : c.isNull = false := hn c (by simp)
    have key : ∃ a', a' = (if Cell.lt c a then c else a) ∧ a'.isNull = false ∧ (a' = a ∨ a' = c) ∧
        Cell.le a' a = true ∧ Cell.le a' c = true := by
      by_cases h : Cell.lt c a = true
      · exact ⟨c, by simp [h], hc, Or.inr rfl, tbl_le_of_lt h, tbl_le_refl c⟩
      · have h' : Cell.lt c a = false := by simpa using h
        exact ⟨a, by simp [h'], ha, Or.inl rfl, tbl_le_refl a, by simp [Cell.le, h']⟩
    obtain ⟨a', ha', hna', hmem, hle1, hle2⟩ := key
    rw [← ha']
    have ih' := ih a' (by
      intro x hx
      rcases List.mem_cons.1 hx with rfl | hx
      · exact hna'
      · exact hn x (by simp [hx]))
    obtain ⟨i1, i2, i3⟩ := ih'
    refine ⟨?_, tbl_le_trans hna' i2 hle1, ?_⟩
    · rcases List.mem_cons.1 i1 with h | h
      · rw [h]; rcases hmem with h' | h' <;> simp [h']
      · simp [h]
    · intro x hx
      rcases List.mem_cons.1 hx with rfl | hx
      · exact tbl_le_trans hna' i2 hle2
      · exact i3 x hx

theorem tbl_foldl_max (t : List (Cell K)) (a : Cell K) (hn : ∀ c ∈ a :: t, c.isNull = false) :
    t.foldl (fun m c => if Cell.lt m c then c else m) a ∈ a :: t ∧
    Cell.le a (t.foldl (fun m c => if Cell.lt m c then c else m) a) = true ∧
    ∀ c ∈ t, Cell.le c (t.foldl (fun m c => if Cell.lt m c then c else m) a) = true := by
  induction t generalizing a with
  | nil => simp [tbl_le_refl]
  | cons c t ih =>
    simp only [List.foldl_cons]
    have ha : a.isNull = false := hn a (by simp)
    have hc : c.isNull = false := hn c (by simp)
    have key : ∃ a', a' = (if Cell.lt a c then c else a) ∧ a'.isNull = false ∧ (a' = a ∨ a' = c) ∧
        Cell.le a a' = true ∧ Cell.le c a' = true := by
      by_cases h : Cell.lt a c = true
      · exact ⟨c, by simp [h], hc, Or.inr rfl, tbl_le_of_lt h, tbl_le_refl c⟩
      · have h' : Cell.lt a c = false := by simpa using h
        exact ⟨a, by simp [h'], ha, Or.inl rfl, tbl_le_refl a, by simp [Cell.le, h']⟩
    obtain ⟨a', ha', hna', hmem, hle1, hle2⟩ := key
    rw [← ha']
    have ih' := ih a' (by
      intro x hx
      rcases List.mem_cons.1 hx with rfl | hx
      · exact hna'
      · exact hn x (by simp [hx]))
    obtain ⟨i1, i2, i3⟩ := ih'
    refine ⟨?_, tbl_le_trans hna' hle1 i2, ?_⟩
    · rcases List.mem_cons.1 i1 with h | h
      · rw [h]; rcases hmem with h' | h' <;> simp [h']
      · simp [h]
    · intro x hx
      rcases List.mem_cons.1 hx with rfl | hx
      · exact tbl_le_trans hna' hle2 i2
      · exact i3 x hx

theorem tbl_cellMin_spec (l : List (Cell K)) (hn : ∀ c ∈ l, c.isNull = false) (hne : l ≠ []) :
    ∃ m, cellMin l = some m ∧ m ∈ l ∧ ∀ c ∈ l, Cell.le m c = true := by
  cases l with
  | nil => exact absurd rfl hne
  | cons a t =>
    obtain ⟨h1, h2, h3⟩ := tbl_foldl_min t a hn
    refine ⟨_, rfl, h1, ?_⟩
    intro c hc
    rcases List.mem_cons.1 hc with rfl | hc
    · exact h2
    · exact h3 c hc

theorem tbl_cellMax_spec (l : List (Cell K)) (hn : ∀ c ∈ l, c.isNull = false) (hne : l ≠ []) :
    ∃ m, cellMax l = some m ∧ m ∈ l ∧ ∀ c ∈ l, Cell.le c m = true := by
  cases l with
  | nil => exact absurd rfl hne
  | cons a t =>
    obtain ⟨h1, h2, h3⟩ := tbl_foldl_max t a hn
    refine ⟨_, rfl, h1, ?_⟩
    intro c hc
    rcases List.mem_cons.1 hc with rfl | hc
    · exact h2
    · exact h3 c hc

theorem tbl_cellMin_mem (l : List (Cell K)) (m : Cell K) (h : cellMin l = some m) : m ∈ l := by
  cases l with
  | nil => simp [cellMin] at h
  | cons a t =>
    simp only [cellMin, Option.some.injEq] at h
    rw [← h]
    clear h
    induction t generalizing a with
    | nil => simp
    | cons c t ih =>
      simp only [List.foldl_cons]
      have := ih (if Cell.lt c a then c else a)
      rcases List.mem_cons.1 this with h | h
      · rw [h]; split <;> simp
      · simp [h]

variable {K : Type} [Field K] [LinearOrder K] [IsStrictOrderedRing K]

/-! ### 4. structure of `binNumeric` -/

/-- the non-null cells -/
def tbl_nonNull (feature : List (Cell K)) : List (Cell K) := feature.filter (fun c => !c.isNull)
/-- `has_nulls` as 0/1 -/
def tbl_hasNulls (feature : List (Cell K)) : Nat := if feature.any (·.isNull) then 1 else 0
/-- `n_bins_ef = max(1, n_bins - has_nulls)` -/
def tbl_nBinsEf (nBins : Nat) (feature : List (Cell K)) : Nat := max 1 (nBins - tbl_hasNulls feature)
/-- the interior edges used by `binNumeric` -/
def tbl_inner (m : BinMethod) (nBins : Nat) (given : List K) (feature : List (Cell K)) :
    List (Cell K) :=
  interiorEdges m (tbl_nonNull feature) (tbl_nBinsEf nBins feature) given
/-- all edges `[min] ++ inner ++ [max]` -/
def tbl_full (m : BinMethod) (nBins : Nat) (given : List K) (feature : List (Cell K)) :
    List (Cell K) :=
  [(cellMin (tbl_nonNull feature)).getD .null] ++ tbl_inner m nBins given feature ++
    [(cellMax (tbl_nonNull feature)).getD .null]

theorem tbl_nonNull_eq_nil (feature : List (Cell K)) (h : tbl_nonNull feature = []) :
    ∀ c ∈ feature, c.isNull = true := by
  intro c hc
  by_contra hn
  have : c ∈ tbl_nonNull feature := by
    simp only [tbl_nonNull, List.mem_filter, hc, true_and]
    simpa using hn
  rw [h] at this
  exact absurd this (by simp)

theorem tbl_mem_nonNull (feature : List (Cell K)) (c : Cell K) :
    c ∈ tbl_nonNull feature ↔ c ∈ feature ∧ c.isNull = false := by
  simp [tbl_nonNull]

theorem tbl_binNumeric_bins (m : BinMethod) (nBins : Nat) (given : List K) (feature : List (Cell K)) :
    (binNumeric m nBins given feature).bins =
      feature.map (fun c => if c.isNull then none else some (digitize (tbl_inner m nBins given feature) c)) := by
  unfold binNumeric
  by_cases h : feature.filter (fun c => !c.isNull) = []
  · simp only [h, if_true]
    apply List.map_congr_left
    intro c hc
    simp [tbl_nonNull_eq_nil feature h c hc]
  · simp only [h, if_false]
    rfl

theorem tbl_binNumeric_edges (m : BinMethod) (nBins : Nat) (given : List K) (feature : List (Cell K)) :
    (binNumeric m nBins given feature).edges =
      (binNumeric m nBins given feature).bins.map (fun b => b.map (fun i =>
        ((tbl_full m nBins given feature).getD i .null, (tbl_full m nBins given feature).getD (i + 1) .null))) := by
  unfold binNumeric
  by_cases h : feature.filter (fun c => !c.isNull) = []
  · simp only [h, if_true]
    simp
  · simp only [h, if_false]
    rfl

theorem tbl_binNumeric_nBins (m : BinMethod) (nBins : Nat) (given : List K) (feature : List (Cell K)) :
    (binNumeric m nBins given feature).nBins =
      if tbl_nonNull feature = [] then 1
      else (if m = .numpy then (tbl_inner m nBins given feature).length + 1 else tbl_nBinsEf nBins feature)
        + tbl_hasNulls feature := by
  unfold binNumeric
  by_cases h : feature.filter (fun c => !c.isNull) = []
  · simp only [h, if_true]
    simp [tbl_nonNull, h]
  · simp only [h, if_false]
    simp only [tbl_nonNull, h, if_false]
    rfl

variable {K : Type} [Field K] [LinearOrder K] [IsStrictOrderedRing K]

/-! ### 5. interior edges -/

/-- `np.unique`: the output is strictly increasing (for any input), its members come from the
input, and it is not longer than the input -/
theorem tbl_dedup_spec (l : List (Cell K)) :
    (cellDedupSorted l).Pairwise (fun a b => Cell.lt a b = true) ∧
    (∀ x ∈ cellDedupSorted l, x ∈ l) ∧ (cellDedupSorted l).length ≤ l.length := by
  unfold cellDedupSorted
  simp only []
  have hmem : ∀ x, x ∈ l.mergeSort (fun a b => Cell.le a b) ↔ x ∈ l := fun x => List.mem_mergeSort
  have hlen : (l.mergeSort (fun a b => Cell.le a b)).length = l.length := List.length_mergeSort l
  generalize l.mergeSort (fun a b => Cell.le a b) = s at hmem hlen
  rw [← hlen]
  suffices h : ∀ s : List (Cell K),
      (s.foldr (fun c acc => match acc with
        | [] => [c]
        | d :: _ => if Cell.lt c d then c :: acc else acc) []).Pairwise (fun a b => Cell.lt a b = true) ∧
      (∀ x ∈ s.foldr (fun c acc => match acc with
        | [] => [c]
        | d :: _ => if Cell.lt c d then c :: acc else acc) [], x ∈ s) ∧
      (s.foldr (fun c acc => match acc with
        | [] => [c]
        | d :: _ => if Cell.lt c d then c :: acc else acc) []).length ≤ s.length by
    obtain ⟨h1, h2, h3⟩ := h s
    exact ⟨h1, fun x hx => (hmem x).1 (h2 x hx), h3⟩
  intro s
  induction s with
  | nil => simp
  | cons c s ih =>
    simp only [List.foldr_cons]
    generalize s.foldr (fun c acc => match acc with
        | [] => [c]
        | d :: _ => if Cell.lt c d then c :: acc else acc) [] = acc at ih
    obtain ⟨i1, i2, i3⟩ := ih
    cases acc with
    | nil => simp
    | cons d acc =>
      simp only []
      by_cases hcd : Cell.lt c d = true
      · simp only [hcd, if_true]
        refine ⟨?_, ?_, ?_⟩
        · rw [List.pairwise_cons]
          refine ⟨?_, i1⟩
          intro x hx
          rcases List.mem_cons.1 hx with rfl | hx
          · exact hcd
          · exact tbl_lt_trans hcd ((List.pairwise_cons.1 i1).1 x hx)
        · intro x hx
          rcases List.mem_cons.1 hx with rfl | hx
          · simp
          · exact List.mem_cons_of_mem _ (i2 x hx)
        · simp only [List.length_cons] at i3 ⊢
          omega
      · have hcd' : Cell.lt c d = false := by simpa using hcd
        simp only [hcd', Bool.false_eq_true, if_false]
        refine ⟨i1, fun x hx => List.mem_cons_of_mem _ (i2 x hx), ?_⟩
        simp only [List.length_cons] at i3 ⊢
        omega

theorem tbl_cellQuantile_mem (l : List (Cell K)) (k m : Nat) (u : Cell K)
    (h : cellQuantile l k m = some u) : u ∈ l := by
  unfold cellQuantile at h
  exact (List.mem_filter.1 (tbl_cellMin_mem _ _ h)).1

theorem tbl_foldl_minK (t : List K) (a : K) :
    t.foldl (fun m v => if v < m then v else m) a ∈ a :: t ∧
    t.foldl (fun m v => if v < m then v else m) a ≤ a ∧
    ∀ v ∈ t, t.foldl (fun m v => if v < m then v else m) a ≤ v := by
  induction t generalizing a with
  | nil => simp
  | cons c t ih =>
    simp only [List.foldl_cons]
    obtain ⟨i1, i2, i3⟩ := ih (if c < a then c else a)
    refine ⟨?_, ?_, ?_⟩
    · rcases List.mem_cons.1 i1 with h | h
      · rw [h]; split <;> simp
      · simp [h]
    · refine le_trans i2 ?_
      split
      · exact le_of_lt ‹_›
      · exact le_refl _
    · intro v hv
      rcases List.mem_cons.1 hv with rfl | hv
      · refine le_trans i2 ?_
        split
        · exact le_refl _
        · exact not_lt.1 ‹_›
      · exact i3 v hv

theorem tbl_foldl_maxK (t : List K) (a : K) :
    t.foldl (fun m v => if m < v then v else m) a ∈ a :: t ∧
    a ≤ t.foldl (fun m v => if m < v then v else m) a ∧
    ∀ v ∈ t, v ≤ t.foldl (fun m v => if m < v then v else m) a := by
  induction t generalizing a with
  | nil => simp
  | cons c t ih =>
    simp only [List.foldl_cons]
    obtain ⟨i1, i2, i3⟩ := ih (if a < c then c else a)
    refine ⟨?_, ?_, ?_⟩
    · rcases List.mem_cons.1 i1 with h | h
      · rw [h]; split <;> simp
      · simp [h]
    · refine le_trans ?_ i2
      split
      · exact le_of_lt ‹_›
      · exact le_refl _
    · intro v hv
      rcases List.mem_cons.1 hv with rfl | hv
      · refine le_trans ?_ i2
        split
        · exact le_refl _
        · exact not_lt.1 ‹_›
      · exact i3 v hv

/-- the uniform grid `fmin + (fmax - fmin)·(i+1)/n`, `i < k` -/
def tbl_uniformGrid (fmin fmax : K) (n k : Nat) : List (Cell K) :=
  (List.range k).map (fun i => Cell.fin (fmin + (fmax - fmin) * ((i + 1 : Nat) : K) / (n : K)))

theorem tbl_uniformGrid_sorted (fmin fmax : K) (n k : Nat) (hn : 0 < n) (h : fmin < fmax) :
    (tbl_uniformGrid fmin fmax n k).Pairwise (fun a b => Cell.lt a b = true) := by
  unfold tbl_uniformGrid
  rw [List.pairwise_map]
  refine List.Pairwise.imp ?_ (List.pairwise_lt_range (n := k))
  intro i j hij
  simp only [Cell.lt, decide_eq_true_eq]
  have hn' : (0 : K) < (n : K) := by exact_mod_cast hn
  have hij' : ((i + 1 : Nat) : K) < ((j + 1 : Nat) : K) := by exact_mod_cast (by omega : i + 1 < j + 1)
  have hd : (0 : K) < fmax - fmin := by linarith
  have : (fmax - fmin) * ((i + 1 : Nat) : K) / (n : K) < (fmax - fmin) * ((j + 1 : Nat) : K) / (n : K) :=
    div_lt_div_of_pos_right (mul_lt_mul_of_pos_left hij' hd) hn'
  linarith

theorem tbl_uniformGrid_sorted_le (fmin fmax : K) (n k : Nat) (h : fmin ≤ fmax) :
    (tbl_uniformGrid fmin fmax n k).Pairwise (fun a b => Cell.le a b = true) := by
  unfold tbl_uniformGrid
  rw [List.pairwise_map]
  refine List.Pairwise.imp ?_ (List.pairwise_lt_range (n := k))
  intro i j hij
  simp only [Cell.le, Cell.lt, Bool.not_eq_true', decide_eq_false_iff_not, not_lt]
  have hn' : (0 : K) ≤ (n : K) := by exact_mod_cast Nat.zero_le n
  have hij' : ((i + 1 : Nat) : K) ≤ ((j + 1 : Nat) : K) := by exact_mod_cast (by omega : i + 1 ≤ j + 1)
  have hd : (0 : K) ≤ fmax - fmin := by linarith
  have : (fmax - fmin) * ((i + 1 : Nat) : K) / (n : K) ≤ (fmax - fmin) * ((j + 1 : Nat) : K) / (n : K) :=
    div_le_div_of_nonneg_right (mul_le_mul_of_nonneg_left hij' hd) hn'
  linarith

/-- `interiorEdges .uniform` is `[]` (no finite value) or the uniform grid between the least and
the greatest finite value -/
theorem tbl_interior_uniform (nonNull : List (Cell K)) (n : Nat) (given : List K) :
    (finiteVals nonNull = [] ∧ interiorEdges .uniform nonNull n given = []) ∨
    ∃ fmin fmax : K, fmin ∈ finiteVals nonNull ∧ fmax ∈ finiteVals nonNull ∧
      (∀ v ∈ finiteVals nonNull, fmin ≤ v ∧ v ≤ fmax) ∧
      interiorEdges .uniform nonNull n given = tbl_uniformGrid fmin fmax n (n - 1) := by
  unfold interiorEdges
  simp only []
  cases hfv : finiteVals nonNull with
  | nil => left; simp
  | cons a t =>
    right
    obtain ⟨m1, m2, m3⟩ := tbl_foldl_minK t a
    obtain ⟨x1, x2, x3⟩ := tbl_foldl_maxK t a
    refine ⟨_, _, m1, x1, ?_, rfl⟩
    intro v hv
    rcases List.mem_cons.1 hv with rfl | hv
    · exact ⟨m2, x2⟩
    · exact ⟨m3 v hv, x3 v hv⟩

theorem tbl_mem_finiteVals (l : List (Cell K)) (v : K) : v ∈ finiteVals l ↔ Cell.fin v ∈ l := by
  unfold finiteVals
  rw [List.mem_filterMap]
  constructor
  · rintro ⟨c, hc, h⟩
    cases c <;> simp at h
    rw [← h]; exact hc
  · intro h
    exact ⟨_, h, rfl⟩

variable {K : Type} [Field K] [LinearOrder K] [IsStrictOrderedRing K]

theorem tbl_lt_imp_le_pairwise {l : List (Cell K)} (h : l.Pairwise (fun a b => Cell.lt a b = true)) :
    l.Pairwise (fun a b => Cell.le a b = true) :=
  h.imp (fun h => tbl_le_of_lt h)

/-- quantile edges: strictly increasing -/
theorem tbl_inner_quantile_sorted (nBins : Nat) (given : List K) (feature : List (Cell K)) :
    (tbl_inner .quantile nBins given feature).Pairwise (fun a b => Cell.lt a b = true) := by
  unfold tbl_inner interiorEdges
  exact (tbl_dedup_spec _).1

/-- uniform edges: strictly increasing as soon as two different finite values occur -/
theorem tbl_inner_uniform_sorted (nBins : Nat) (given : List K) (feature : List (Cell K))
    (a b : K) (ha : Cell.fin a ∈ feature) (hb : Cell.fin b ∈ feature) (hab : a < b) :
    (tbl_inner .uniform nBins given feature).Pairwise (fun a b => Cell.lt a b = true) := by
  unfold tbl_inner
  have ha' : a ∈ finiteVals (tbl_nonNull feature) := by
    rw [tbl_mem_finiteVals, tbl_mem_nonNull]; exact ⟨ha, rfl⟩
  have hb' : b ∈ finiteVals (tbl_nonNull feature) := by
    rw [tbl_mem_finiteVals, tbl_mem_nonNull]; exact ⟨hb, rfl⟩
  rcases tbl_interior_uniform (tbl_nonNull feature) (tbl_nBinsEf nBins feature) given with
    ⟨h, _⟩ | ⟨fmin, fmax, _, _, hall, heq⟩
  · rw [h] at ha'; exact absurd ha' (by simp)
  · rw [heq]
    apply tbl_uniformGrid_sorted
    · unfold tbl_nBinsEf; omega
    · exact lt_of_le_of_lt (hall a ha').1 (lt_of_lt_of_le hab (hall b hb').2)

/-- all methods: weakly increasing interior edges (`numpy`: provided the supplied edges are) -/
theorem tbl_inner_sorted_le (m : BinMethod) (nBins : Nat) (given : List K) (feature : List (Cell K))
    (hg : m = .numpy → given.Pairwise (· ≤ ·)) :
    (tbl_inner m nBins given feature).Pairwise (fun a b => Cell.le a b = true) := by
  cases m with
  | quantile => exact tbl_lt_imp_le_pairwise (tbl_inner_quantile_sorted nBins given feature)
  | uniform =>
    unfold tbl_inner
    rcases tbl_interior_uniform (tbl_nonNull feature) (tbl_nBinsEf nBins feature) given with
      ⟨_, h⟩ | ⟨fmin, fmax, hmin, _, hall, heq⟩
    · rw [h]; exact List.Pairwise.nil
    · rw [heq]
      exact tbl_uniformGrid_sorted_le _ _ _ _ (hall fmin hmin).2
  | numpy =>
    unfold tbl_inner interiorEdges
    simp only []
    rw [List.pairwise_map]
    refine (hg rfl).imp ?_
    intro a b hab
    simp [Cell.le, Cell.lt, hab]

theorem tbl_inner_nonNull (m : BinMethod) (nBins : Nat) (given : List K) (feature : List (Cell K)) :
    ∀ e ∈ tbl_inner m nBins given feature, e.isNull = false := by
  intro e he
  cases m with
  | quantile =>
    unfold tbl_inner interiorEdges at he
    simp only [] at he
    have := (tbl_dedup_spec _).2.1 e he
    rw [List.mem_filterMap] at this
    obtain ⟨i, _, hi⟩ := this
    exact ((tbl_mem_nonNull feature e).1 (tbl_cellQuantile_mem _ _ _ _ hi)).2
  | uniform =>
    unfold tbl_inner at he
    rcases tbl_interior_uniform (tbl_nonNull feature) (tbl_nBinsEf nBins feature) given with
      ⟨_, h⟩ | ⟨fmin, fmax, _, _, _, heq⟩
    · rw [h] at he; exact absurd he (by simp)
    · rw [heq] at he
      unfold tbl_uniformGrid at he
      rw [List.mem_map] at he
      obtain ⟨i, _, rfl⟩ := he
      rfl
  | numpy =>
    unfold tbl_inner interiorEdges at he
    simp only [] at he
    rw [List.mem_map] at he
    obtain ⟨i, _, rfl⟩ := he
    rfl

theorem tbl_inner_length_le (m : BinMethod) (hm : m ≠ .numpy) (nBins : Nat) (given : List K)
    (feature : List (Cell K)) :
    (tbl_inner m nBins given feature).length ≤ tbl_nBinsEf nBins feature - 1 := by
  cases m with
  | quantile =>
    unfold tbl_inner interiorEdges
    simp only []
    refine le_trans (tbl_dedup_spec _).2.2 ?_
    refine le_trans (List.length_filterMap_le _ _) ?_
    simp
  | uniform =>
    unfold tbl_inner
    rcases tbl_interior_uniform (tbl_nonNull feature) (tbl_nBinsEf nBins feature) given with
      ⟨_, h⟩ | ⟨fmin, fmax, _, _, _, heq⟩
    · rw [h]; simp
    · rw [heq]; simp [tbl_uniformGrid]
  | numpy => exact absurd rfl hm

theorem tbl_inner_numpy (nBins : Nat) (given : List K) (feature : List (Cell K)) :
    tbl_inner .numpy nBins given feature = given.map Cell.fin := rfl

/-- `min ≤ x ≤ max` for every non-null cell of the column -/
theorem tbl_lo_hi (feature : List (Cell K)) (x : Cell K) (hx : x ∈ feature) (hxn : x.isNull = false) :
    Cell.le ((cellMin (tbl_nonNull feature)).getD .null) x = true ∧
    Cell.le x ((cellMax (tbl_nonNull feature)).getD .null) = true := by
  have hmem : x ∈ tbl_nonNull feature := (tbl_mem_nonNull feature x).2 ⟨hx, hxn⟩
  have hne : tbl_nonNull feature ≠ [] := List.ne_nil_of_mem hmem
  have hnn : ∀ c ∈ tbl_nonNull feature, c.isNull = false := fun c hc => ((tbl_mem_nonNull feature c).1 hc).2
  obtain ⟨lo, h1, _, h3⟩ := tbl_cellMin_spec _ hnn hne
  obtain ⟨hi, g1, _, g3⟩ := tbl_cellMax_spec _ hnn hne
  rw [h1, g1]
  exact ⟨h3 x hmem, g3 x hmem⟩

variable {K : Type} [Field K] [LinearOrder K] [IsStrictOrderedRing K]

theorem tbl_bins_row (m : BinMethod) (nBins : Nat) (given : List K) (feature : List (Cell K))
    (r : Nat) (x : Cell K) (hx : feature[r]? = some x) :
    (binNumeric m nBins given feature).bins[r]? =
      some (if x.isNull then none else some (digitize (tbl_inner m nBins given feature) x)) := by
  rw [tbl_binNumeric_bins, List.getElem?_map, hx]
  rfl

theorem tbl_edges_row (m : BinMethod) (nBins : Nat) (given : List K) (feature : List (Cell K))
    (r : Nat) (x : Cell K) (hx : feature[r]? = some x) :
    (binNumeric m nBins given feature).edges[r]? =
      some (if x.isNull then none else
        some ((tbl_full m nBins given feature).getD (digitize (tbl_inner m nBins given feature) x) .null,
          (tbl_full m nBins given feature).getD (digitize (tbl_inner m nBins given feature) x + 1) .null)) := by
  rw [tbl_binNumeric_edges, List.getElem?_map, tbl_bins_row m nBins given feature r x hx]
  cases x.isNull <;> rfl

/-- every non-null bin index is at most the number of interior edges -/
theorem tbl_bins_le (m : BinMethod) (nBins : Nat) (given : List K) (feature : List (Cell K))
    (i : Nat) (hi : some i ∈ (binNumeric m nBins given feature).bins) :
    i ≤ (tbl_inner m nBins given feature).length := by
  rw [tbl_binNumeric_bins, List.mem_map] at hi
  obtain ⟨c, _, hc⟩ := hi
  cases hn : c.isNull <;> simp [hn] at hc
  rw [← hc]
  exact tbl_digitize_le_length _ _

theorem tbl_none_mem_bins (m : BinMethod) (nBins : Nat) (given : List K) (feature : List (Cell K)) :
    none ∈ (binNumeric m nBins given feature).bins ↔ tbl_hasNulls feature = 1 := by
  rw [tbl_binNumeric_bins, List.mem_map]
  unfold tbl_hasNulls
  constructor
  · rintro ⟨c, hc, h⟩
    cases hn : c.isNull <;> simp [hn] at h
    have : feature.any (·.isNull) = true := List.any_eq_true.2 ⟨c, hc, hn⟩
    simp [this]
  · intro h
    by_cases ha : feature.any (·.isNull) = true
    · obtain ⟨c, hc, hn⟩ := List.any_eq_true.1 ha
      exact ⟨c, hc, by simp [hn]⟩
    · simp [ha] at h

variable {K : Type} [Field K] [LinearOrder K] [IsStrictOrderedRing K]

theorem tbl_dedup_length_le {α : Type} [DecidableEq α] (l L : List α) (h : l ⊆ L) :
    l.dedup.length ≤ L.length :=
  ((List.nodup_dedup l).subperm (fun x hx => h (List.mem_dedup.1 hx))).length_le

/-- all bin labels that can occur: the null bin (if there are nulls) and `0 … inner.length` -/
def tbl_binUniverse (m : BinMethod) (nBins : Nat) (given : List K) (feature : List (Cell K)) :
    List (Option Nat) :=
  (if tbl_hasNulls feature = 1 then [none] else []) ++
  (if tbl_nonNull feature = [] then []
   else (List.range ((tbl_inner m nBins given feature).length + 1)).map some)

theorem tbl_hasNulls_le_one (feature : List (Cell K)) : tbl_hasNulls feature ≤ 1 := by
  unfold tbl_hasNulls; split <;> omega

theorem tbl_one_le_nBinsEf (nBins : Nat) (feature : List (Cell K)) : 1 ≤ tbl_nBinsEf nBins feature := by
  unfold tbl_nBinsEf; omega

theorem tbl_bins_subset (m : BinMethod) (nBins : Nat) (given : List K) (feature : List (Cell K)) :
    (binNumeric m nBins given feature).bins ⊆ tbl_binUniverse m nBins given feature := by
  intro o ho
  unfold tbl_binUniverse
  cases o with
  | none =>
    have := (tbl_none_mem_bins m nBins given feature).1 ho
    simp [this]
  | some i =>
    have hle := tbl_bins_le m nBins given feature i ho
    rw [tbl_binNumeric_bins, List.mem_map] at ho
    obtain ⟨c, hc, hc'⟩ := ho
    have hn : c.isNull = false := by
      cases hn : c.isNull
      · rfl
      · simp [hn] at hc'
    have hne : tbl_nonNull feature ≠ [] :=
      List.ne_nil_of_mem ((tbl_mem_nonNull feature c).2 ⟨hc, hn⟩)
    rw [List.mem_append]
    right
    simp only [hne, if_false, List.mem_map, List.mem_range]
    exact ⟨i, by omega, rfl⟩

theorem tbl_binUniverse_length (m : BinMethod) (nBins : Nat) (given : List K) (feature : List (Cell K)) :
    (tbl_binUniverse m nBins given feature).length ≤ (binNumeric m nBins given feature).nBins := by
  rw [tbl_binNumeric_nBins]
  unfold tbl_binUniverse
  have h1 := tbl_hasNulls_le_one feature
  have h2 := tbl_one_le_nBinsEf nBins feature
  by_cases hne : tbl_nonNull feature = []
  · simp only [hne, if_true, List.append_nil]
    split <;> simp
  · simp only [hne, if_false, List.length_append, List.length_map, List.length_range]
    have h3 : (if tbl_hasNulls feature = 1 then [(none : Option Nat)] else []).length = tbl_hasNulls feature := by
      split
      · simp [*]
      · simp; omega
    rw [h3]
    by_cases hm : m = .numpy
    · simp only [hm, if_true]; omega
    · have := tbl_inner_length_le m hm nBins given feature
      simp only [hm, if_false]; omega

/-- number of distinct bin labels (null bin included) is at most the returned `n_bins` -/
theorem tbl_bins_distinct_le (m : BinMethod) (nBins : Nat) (given : List K) (feature : List (Cell K)) :
    (binNumeric m nBins given feature).bins.dedup.length ≤ (binNumeric m nBins given feature).nBins :=
  le_trans (tbl_dedup_length_le _ _ (tbl_bins_subset m nBins given feature))
    (tbl_binUniverse_length m nBins given feature)

/-- for `quantile`/`uniform` and `n_bins ≥ 2` the returned `n_bins` is at most the requested one -/
theorem tbl_nBins_le (m : BinMethod) (hm : m ≠ .numpy) (nBins : Nat) (h2 : 2 ≤ nBins) (given : List K)
    (feature : List (Cell K)) : (binNumeric m nBins given feature).nBins ≤ nBins := by
  rw [tbl_binNumeric_nBins]
  have h1 := tbl_hasNulls_le_one feature
  by_cases hne : tbl_nonNull feature = []
  · rw [if_pos hne]; omega
  · rw [if_neg hne, if_neg hm]
    unfold tbl_nBinsEf
    omega

variable {K : Type} [Field K] [LinearOrder K] [IsStrictOrderedRing K]

/-! ### 6. string-like features -/

theorem tbl_mk_eq (l : List Char) : String.mk l = String.ofList l := rfl

theorem tbl_us_length (s : String) : ("_" ++ s).length = s.length + 1 := by
  rw [String.length_append]
  have : ("_" : String).length = 1 := rfl
  omega

theorem tbl_us_append (u : Nat) (s : String) :
    "_" ++ (String.mk (List.replicate u '_') ++ s) = String.mk (List.replicate (u+1) '_') ++ s := by
  rw [← String.append_assoc]
  congr 1
  apply String.toList_inj.1
  rw [String.toList_append, tbl_mk_eq, tbl_mk_eq]
  simp only [String.toList_ofList, List.replicate_succ]
  rfl

theorem tbl_distinctVals_foldl (feature : List (Option String)) (acc : List String) (hacc : acc.Nodup) :
    (feature.foldl (fun acc v => match v with
      | some s => if acc.contains s then acc else acc ++ [s]
      | none => acc) acc).Nodup ∧
    ∀ s, s ∈ feature.foldl (fun acc v => match v with
      | some s => if acc.contains s then acc else acc ++ [s]
      | none => acc) acc ↔ s ∈ acc ∨ some s ∈ feature := by
  induction feature generalizing acc with
  | nil => simp [hacc]
  | cons v t ih =>
    simp only [List.foldl_cons]
    cases v with
    | none =>
      obtain ⟨h1, h2⟩ := ih acc hacc
      refine ⟨h1, fun s => ?_⟩
      rw [h2 s]; simp
    | some x =>
      simp only []
      by_cases hx : acc.contains x = true
      · simp only [hx, if_true]
        obtain ⟨h1, h2⟩ := ih acc hacc
        refine ⟨h1, fun s => ?_⟩
        rw [h2 s]
        have hx' : x ∈ acc := List.contains_iff_mem.1 hx
        constructor
        · rintro (h | h)
          · exact Or.inl h
          · exact Or.inr (List.mem_cons_of_mem _ h)
        · rintro (h | h)
          · exact Or.inl h
          · rcases List.mem_cons.1 h with h | h
            · left; rw [Option.some.inj h]; exact hx'
            · exact Or.inr h
      · have hx' : x ∉ acc := fun h => hx (List.contains_iff_mem.2 h)
        have hxf : acc.contains x = false := by simpa using hx
        simp only [hxf, Bool.false_eq_true, if_false]
        have hnd : (acc ++ [x]).Nodup := by
          rw [List.nodup_append]
          refine ⟨hacc, List.nodup_singleton x, ?_⟩
          intro a ha b hb
          rw [List.mem_singleton] at hb
          rintro rfl
          exact hx' (hb ▸ ha)
        obtain ⟨h1, h2⟩ := ih (acc ++ [x]) hnd
        refine ⟨h1, fun s => ?_⟩
        rw [h2 s]
        simp only [List.mem_append, List.mem_cons, Option.some.injEq]
        tauto

theorem tbl_distinctVals_nodup (feature : List (Option String)) : (distinctVals feature).Nodup :=
  (tbl_distinctVals_foldl feature [] List.nodup_nil).1

theorem tbl_mem_distinctVals (feature : List (Option String)) (s : String) :
    s ∈ distinctVals feature ↔ some s ∈ feature := by
  have h : s ∈ distinctVals feature ↔ s ∈ [] ∨ some s ∈ feature :=
    (tbl_distinctVals_foldl feature [] List.nodup_nil).2 s
  rw [h]
  simp

/-- the renaming loop: the result is the start name with some underscores in front -/
theorem tbl_fresh_form (existing : List String) (name : String) (fuel : Nat) :
    ∃ u, binString.fresh existing name fuel = String.mk (List.replicate u '_') ++ name := by
  induction fuel generalizing name with
  | zero => exact ⟨0, by simp [binString.fresh, tbl_mk_eq]⟩
  | succ fuel ih =>
    unfold binString.fresh
    split
    · obtain ⟨u, hu⟩ := ih ("_" ++ name)
      refine ⟨u + 1, ?_⟩
      rw [hu]
      rw [← tbl_us_append, ← String.append_assoc, ← String.append_assoc]
      congr 1
      apply String.toList_inj.1
      simp only [String.toList_append, tbl_mk_eq, String.toList_ofList]
      have : ("_" : String).toList = List.replicate 1 '_' := rfl
      rw [this, ← List.replicate_add, ← List.replicate_add, Nat.add_comm]
    · exact ⟨0, by simp [tbl_mk_eq]⟩

theorem tbl_countP_lt {α : Type} (p q : α → Bool) (l : List α)
    (hpq : ∀ x ∈ l, p x = true → q x = true) (x : α) (hx : x ∈ l) (hq : q x = true)
    (hp : p x = false) : l.countP p < l.countP q := by
  induction l with
  | nil => simp at hx
  | cons a t ih =>
    have hmono : t.countP p ≤ t.countP q :=
      List.countP_mono_left (fun y hy => hpq y (List.mem_cons_of_mem _ hy))
    rcases List.mem_cons.1 hx with rfl | hx'
    · simp only [List.countP_cons, hq, hp, if_true, Bool.false_eq_true, if_false]
      omega
    · have ih' := ih (fun y hy => hpq y (List.mem_cons_of_mem _ hy)) hx'
      simp only [List.countP_cons]
      have := hpq a (by simp)
      by_cases hpa : p a = true
      · simp only [hpa, this hpa, if_true]; omega
      · have hpa' : p a = false := by simpa using hpa
        simp only [hpa', Bool.false_eq_true, if_false]
        split <;> omega

/-- pigeonhole for the renaming loop: the candidates get longer each round, so if the fuel exceeds
the number of existing values at least as long as `name`, the loop ends with a fresh name -/
theorem tbl_fresh_not_mem (existing : List String) (name : String) (fuel : Nat)
    (h : existing.countP (fun e => decide (name.length ≤ e.length)) < fuel) :
    binString.fresh existing name fuel ∉ existing := by
  induction fuel generalizing name with
  | zero => omega
  | succ fuel ih =>
    unfold binString.fresh
    split
    · rename_i hc
      have hmem : name ∈ existing := List.contains_iff_mem.1 hc
      apply ih
      have := tbl_countP_lt (fun e => decide (("_" ++ name).length ≤ e.length))
        (fun e => decide (name.length ≤ e.length)) existing
        (by intro e _ he
            simp only [decide_eq_true_eq, tbl_us_length] at he ⊢
            omega)
        name hmem (by simp) (by simp)
      omega
    · rename_i hc
      intro hmem
      exact hc (List.contains_iff_mem.2 hmem)

variable {K : Type} [Field K] [LinearOrder K] [IsStrictOrderedRing K]

/-- `has_nulls` as 0/1 (string column) -/
def tbl_sHasNulls (feature : List (Option String)) : Nat := if feature.any (·.isNone) then 1 else 0
/-- `n_bins_ef` (string column) -/
def tbl_sNBinsEf (nBins : Nat) (feature : List (Option String)) : Nat :=
  max 1 (nBins - tbl_sHasNulls feature)
/-- comparator of `value_counts(sort=True)` + natural order for ties -/
def tbl_vcLe (enumOrder : Option (List String)) (feature : List (Option String)) (a b : String) : Bool :=
  if countOcc feature a > countOcc feature b then true
  else if countOcc feature a < countOcc feature b then false
  else !(catLt enumOrder b a)
/-- the sorted value counts -/
def tbl_vc (enumOrder : Option (List String)) (feature : List (Option String)) : List String :=
  (distinctVals feature).mergeSort (tbl_vcLe enumOrder feature)
/-- the values a fresh name must avoid -/
def tbl_existing (enumOrder : Option (List String)) (feature : List (Option String)) : List String :=
  match enumOrder with
  | some cats => cats
  | none => distinctVals feature
/-- the categories kept -/
def tbl_keep (enumOrder : Option (List String)) (nBins : Nat) (feature : List (Option String)) :
    List String :=
  (tbl_vc enumOrder feature).take (tbl_sNBinsEf nBins feature - 1)
/-- number of pooled categories -/
def tbl_nRemaining (enumOrder : Option (List String)) (nBins : Nat) (feature : List (Option String)) : Nat :=
  (tbl_vc enumOrder feature).length - (tbl_sNBinsEf nBins feature - 1)
/-- the pooled name -/
def tbl_name (enumOrder : Option (List String)) (nBins : Nat) (feature : List (Option String)) : String :=
  binString.fresh (tbl_existing enumOrder feature)
    ("other " ++ formatInteger (tbl_nRemaining enumOrder nBins feature))
    ((tbl_existing enumOrder feature).length + 1)

theorem tbl_binString_eq (enumOrder : Option (List String)) (nBins : Nat) (feature : List (Option String)) :
    binString enumOrder nBins feature =
      if tbl_sNBinsEf nBins feature ≥ (tbl_vc enumOrder feature).length then
        ⟨(tbl_vc enumOrder feature).length + tbl_sHasNulls feature, feature, none⟩
      else
        ⟨tbl_sNBinsEf nBins feature + tbl_sHasNulls feature,
         feature.map (fun v => v.map (fun s =>
           if (tbl_keep enumOrder nBins feature).contains s then s else tbl_name enumOrder nBins feature)),
         some (tbl_name enumOrder nBins feature)⟩ := by
  by_cases h : tbl_sNBinsEf nBins feature ≥ (tbl_vc enumOrder feature).length
  · rw [if_pos h]
    unfold binString
    exact if_pos h
  · rw [if_neg h]
    unfold binString
    refine (if_neg h).trans ?_
    show StrBinning.mk _ (List.map _ feature) _ = StrBinning.mk _ (List.map _ feature) _
    congr 1
    apply List.map_congr_left
    intro v _
    cases v with
    | none => rfl
    | some s =>
      show (if (tbl_keep enumOrder nBins feature).contains s = true then some s
        else some (tbl_name enumOrder nBins feature)) =
        some (if (tbl_keep enumOrder nBins feature).contains s = true then s
          else tbl_name enumOrder nBins feature)
      by_cases hk : (tbl_keep enumOrder nBins feature).contains s = true
      · rw [if_pos hk, if_pos hk]
      · rw [if_neg hk, if_neg hk]

variable {K : Type} [Field K] [LinearOrder K] [IsStrictOrderedRing K]

theorem tbl_name_not_mem (enumOrder : Option (List String)) (nBins : Nat) (feature : List (Option String)) :
    tbl_name enumOrder nBins feature ∉ tbl_existing enumOrder feature := by
  unfold tbl_name
  apply tbl_fresh_not_mem
  exact Nat.lt_succ_of_le List.countP_le_length

theorem tbl_name_form (enumOrder : Option (List String)) (nBins : Nat) (feature : List (Option String)) :
    ∃ u, tbl_name enumOrder nBins feature =
      String.mk (List.replicate u '_') ++ "other " ++ formatInteger (tbl_nRemaining enumOrder nBins feature) := by
  obtain ⟨u, hu⟩ := tbl_fresh_form (tbl_existing enumOrder feature)
    ("other " ++ formatInteger (tbl_nRemaining enumOrder nBins feature))
    ((tbl_existing enumOrder feature).length + 1)
  exact ⟨u, by rw [String.append_assoc]; exact hu⟩

theorem tbl_bins_row_str (enumOrder : Option (List String)) (nBins : Nat) (feature : List (Option String))
    (r : Nat) :
    (binString enumOrder nBins feature).bins[r]? =
      if tbl_sNBinsEf nBins feature ≥ (tbl_vc enumOrder feature).length then feature[r]?
      else (feature[r]?).map (fun v => v.map (fun s =>
        if (tbl_keep enumOrder nBins feature).contains s then s else tbl_name enumOrder nBins feature)) := by
  rw [tbl_binString_eq]
  split
  · rfl
  · simp only [List.getElem?_map]

theorem tbl_pooled_str (enumOrder : Option (List String)) (nBins : Nat) (feature : List (Option String)) :
    (binString enumOrder nBins feature).pooled =
      if tbl_sNBinsEf nBins feature ≥ (tbl_vc enumOrder feature).length then none
      else some (tbl_name enumOrder nBins feature) := by
  rw [tbl_binString_eq]
  split <;> rfl

theorem tbl_nBins_str (enumOrder : Option (List String)) (nBins : Nat) (feature : List (Option String)) :
    (binString enumOrder nBins feature).nBins =
      (if tbl_sNBinsEf nBins feature ≥ (tbl_vc enumOrder feature).length then (tbl_vc enumOrder feature).length
      else tbl_sNBinsEf nBins feature) + tbl_sHasNulls feature := by
  rw [tbl_binString_eq]
  split <;> rfl

theorem tbl_mem_vc (enumOrder : Option (List String)) (feature : List (Option String)) (s : String) :
    s ∈ tbl_vc enumOrder feature ↔ some s ∈ feature := by
  unfold tbl_vc
  rw [List.mem_mergeSort, tbl_mem_distinctVals]

theorem tbl_vc_nodup (enumOrder : Option (List String)) (feature : List (Option String)) :
    (tbl_vc enumOrder feature).Nodup :=
  (List.mergeSort_perm _ _).nodup_iff.2 (tbl_distinctVals_nodup feature)

theorem tbl_vc_length (enumOrder : Option (List String)) (feature : List (Option String)) :
    (tbl_vc enumOrder feature).length = (distinctVals feature).length := List.length_mergeSort _

/-! the comparator is a total preorder -/

theorem tbl_vcLe_iff (enumOrder : Option (List String)) (feature : List (Option String)) (a b : String) :
    tbl_vcLe enumOrder feature a b = true ↔
      countOcc feature a > countOcc feature b ∨
      (countOcc feature a = countOcc feature b ∧ catLt enumOrder b a = false) := by
  unfold tbl_vcLe
  by_cases h1 : countOcc feature a > countOcc feature b
  · simp [h1]
  · by_cases h2 : countOcc feature a < countOcc feature b
    · rw [if_neg h1, if_pos h2]
      constructor
      · intro h; exact Bool.noConfusion h
      · rintro (h | ⟨h, _⟩)
        · exact absurd h h1
        · omega
    · rw [if_neg h1, if_neg h2]
      have : countOcc feature a = countOcc feature b := by omega
      simp [this]

theorem tbl_catLt_total (enumOrder : Option (List String)) (a b : String) :
    catLt enumOrder a b = false ∨ catLt enumOrder b a = false := by
  cases enumOrder with
  | none =>
    simp only [catLt, decide_eq_false_iff_not]
    by_cases h : a < b
    · exact Or.inr (String.lt_asymm h)
    · exact Or.inl h
  | some cats =>
    simp only [catLt, decide_eq_false_iff_not]
    omega

theorem tbl_catLt_trans (enumOrder : Option (List String)) (a b c : String)
    (h1 : catLt enumOrder b a = false) (h2 : catLt enumOrder c b = false) :
    catLt enumOrder c a = false := by
  cases enumOrder with
  | none =>
    simp only [catLt, decide_eq_false_iff_not, String.not_lt] at *
    exact String.le_trans h1 h2
  | some cats =>
    simp only [catLt, decide_eq_false_iff_not] at *
    omega

theorem tbl_vcLe_total (enumOrder : Option (List String)) (feature : List (Option String)) (a b : String) :
    (tbl_vcLe enumOrder feature a b || tbl_vcLe enumOrder feature b a) = true := by
  rw [Bool.or_eq_true, tbl_vcLe_iff, tbl_vcLe_iff]
  rcases Nat.lt_trichotomy (countOcc feature a) (countOcc feature b) with h | h | h
  · exact Or.inr (Or.inl h)
  · rcases tbl_catLt_total enumOrder a b with h' | h'
    · exact Or.inr (Or.inr ⟨h.symm, h'⟩)
    · exact Or.inl (Or.inr ⟨h, h'⟩)
  · exact Or.inl (Or.inl h)

theorem tbl_vcLe_trans (enumOrder : Option (List String)) (feature : List (Option String)) (a b c : String)
    (h1 : tbl_vcLe enumOrder feature a b = true) (h2 : tbl_vcLe enumOrder feature b c = true) :
    tbl_vcLe enumOrder feature a c = true := by
  rw [tbl_vcLe_iff] at *
  rcases h1 with h1 | ⟨h1, h1'⟩ <;> rcases h2 with h2 | ⟨h2, h2'⟩
  · left; omega
  · left; omega
  · left; omega
  · right; exact ⟨by omega, tbl_catLt_trans enumOrder a b c h1' h2'⟩

/-- `value_counts` is sorted by (count descending, natural order ascending) -/
theorem tbl_vc_sorted (enumOrder : Option (List String)) (feature : List (Option String)) :
    (tbl_vc enumOrder feature).Pairwise (fun a b => tbl_vcLe enumOrder feature a b = true) :=
  List.pairwise_mergeSort (fun a b c => tbl_vcLe_trans enumOrder feature a b c)
    (fun a b => tbl_vcLe_total enumOrder feature a b) _

/-- a kept category comes before every pooled one in the (count desc, natural order asc) order -/
theorem tbl_keep_before (enumOrder : Option (List String)) (nBins : Nat) (feature : List (Option String))
    (a b : String) (ha : a ∈ tbl_keep enumOrder nBins feature) (hb : some b ∈ feature)
    (hb' : b ∉ tbl_keep enumOrder nBins feature) : tbl_vcLe enumOrder feature a b = true := by
  have hs := tbl_vc_sorted enumOrder feature
  rw [← List.take_append_drop (tbl_sNBinsEf nBins feature - 1) (tbl_vc enumOrder feature)] at hs
  have hbv : b ∈ tbl_vc enumOrder feature := (tbl_mem_vc enumOrder feature b).2 hb
  rw [← List.take_append_drop (tbl_sNBinsEf nBins feature - 1) (tbl_vc enumOrder feature),
    List.mem_append] at hbv
  rcases hbv with hbv | hbv
  · exact absurd hbv hb'
  · exact (List.pairwise_append.1 hs).2.2 a ha b hbv

theorem tbl_keep_sub (enumOrder : Option (List String)) (nBins : Nat) (feature : List (Option String))
    (a : String) (ha : a ∈ tbl_keep enumOrder nBins feature) : some a ∈ feature :=
  (tbl_mem_vc enumOrder feature a).1 (List.mem_of_mem_take ha)

theorem tbl_keep_length (enumOrder : Option (List String)) (nBins : Nat) (feature : List (Option String)) :
    (tbl_keep enumOrder nBins feature).length ≤ tbl_sNBinsEf nBins feature - 1 := by
  unfold tbl_keep
  rw [List.length_take]
  omega

variable {K : Type} [Field K] [LinearOrder K] [IsStrictOrderedRing K]

/-- all labels that can occur in the binned string column -/
def tbl_sUniverse (enumOrder : Option (List String)) (nBins : Nat) (feature : List (Option String)) :
    List (Option String) :=
  (if tbl_sHasNulls feature = 1 then [none] else []) ++
  (if tbl_sNBinsEf nBins feature ≥ (tbl_vc enumOrder feature).length then (tbl_vc enumOrder feature).map some
   else (tbl_keep enumOrder nBins feature).map some ++ [some (tbl_name enumOrder nBins feature)])

theorem tbl_sHasNulls_le_one (feature : List (Option String)) : tbl_sHasNulls feature ≤ 1 := by
  unfold tbl_sHasNulls; split <;> omega

theorem tbl_one_le_sNBinsEf (nBins : Nat) (feature : List (Option String)) :
    1 ≤ tbl_sNBinsEf nBins feature := by
  unfold tbl_sNBinsEf; omega

theorem tbl_sHasNulls_of_mem (feature : List (Option String)) (h : none ∈ feature) :
    tbl_sHasNulls feature = 1 := by
  unfold tbl_sHasNulls
  have : feature.any (·.isNone) = true := List.any_eq_true.2 ⟨none, h, rfl⟩
  simp [this]

theorem tbl_sbins_subset (enumOrder : Option (List String)) (nBins : Nat) (feature : List (Option String)) :
    (binString enumOrder nBins feature).bins ⊆ tbl_sUniverse enumOrder nBins feature := by
  intro o ho
  rw [tbl_binString_eq] at ho
  unfold tbl_sUniverse
  by_cases h : tbl_sNBinsEf nBins feature ≥ (tbl_vc enumOrder feature).length
  · rw [if_pos h] at ho
    rw [if_pos h, List.mem_append]
    cases o with
    | none => left; simp [tbl_sHasNulls_of_mem feature ho]
    | some s =>
      right
      exact List.mem_map.2 ⟨s, (tbl_mem_vc enumOrder feature s).2 ho, rfl⟩
  · rw [if_neg h] at ho
    rw [if_neg h, List.mem_append]
    simp only [List.mem_map] at ho
    obtain ⟨v, hv, rfl⟩ := ho
    cases v with
    | none => left; simp [tbl_sHasNulls_of_mem feature hv]
    | some s =>
      right
      simp only [Option.map_some]
      by_cases hk : (tbl_keep enumOrder nBins feature).contains s = true
      · rw [if_pos hk]
        exact List.mem_append_left _ (List.mem_map.2 ⟨s, List.contains_iff_mem.1 hk, rfl⟩)
      · rw [if_neg hk]
        exact List.mem_append_right _ (by simp)

theorem tbl_sUniverse_length (enumOrder : Option (List String)) (nBins : Nat) (feature : List (Option String)) :
    (tbl_sUniverse enumOrder nBins feature).length ≤ (binString enumOrder nBins feature).nBins := by
  rw [tbl_nBins_str]
  unfold tbl_sUniverse
  have h1 := tbl_sHasNulls_le_one feature
  have h2 := tbl_one_le_sNBinsEf nBins feature
  have h3 : (if tbl_sHasNulls feature = 1 then [(none : Option String)] else []).length = tbl_sHasNulls feature := by
    split
    · simp [*]
    · simp; omega
  rw [List.length_append, h3]
  by_cases h : tbl_sNBinsEf nBins feature ≥ (tbl_vc enumOrder feature).length
  · rw [if_pos h, if_pos h, List.length_map]; omega
  · have := tbl_keep_length enumOrder nBins feature
    rw [if_neg h, if_neg h, List.length_append, List.length_map, List.length_singleton]
    omega

/-- number of distinct labels (null bin included) is at most the returned `n_bins` -/
theorem tbl_sbins_distinct_le (enumOrder : Option (List String)) (nBins : Nat) (feature : List (Option String)) :
    (binString enumOrder nBins feature).bins.dedup.length ≤ (binString enumOrder nBins feature).nBins :=
  le_trans (tbl_dedup_length_le _ _ (tbl_sbins_subset enumOrder nBins feature))
    (tbl_sUniverse_length enumOrder nBins feature)

theorem tbl_sNBins_le (enumOrder : Option (List String)) (nBins : Nat) (h2 : 2 ≤ nBins)
    (feature : List (Option String)) : (binString enumOrder nBins feature).nBins ≤ nBins := by
  rw [tbl_nBins_str]
  have h1 := tbl_sHasNulls_le_one feature
  have h3 : tbl_sNBinsEf nBins feature + tbl_sHasNulls feature ≤ nBins := by
    unfold tbl_sNBinsEf; omega
  split <;> omega

variable {K : Type} [Field K] [LinearOrder K] [IsStrictOrderedRing K]

theorem tbl_formatInteger_small (n : Nat) (h : n < 1000) : formatInteger n = toString n := by
  have hd : (toString n).length ≤ 3 := by
    rw [Nat.toString_eq_repr, Nat.length_repr_le_iff (by omega)]; exact h
  have hmag : formatInteger.mag n 0 4 = 0 := by
    unfold formatInteger.mag
    have : ¬ (n ≥ 1000 * 1000 ^ 0 ∧ 0 < 4) := by omega
    rw [if_neg this]
  unfold formatInteger
  simp only [hd, if_true, hmag]
  have h1 : n / 1000 ^ 0 = n := by simp
  have h2 : n % 1000 ^ 0 * 1000000 / 1000 ^ 0 = 0 := by simp [Nat.mod_one]
  rw [h1, h2]
  have h3 : (String.mk ((String.mk (List.replicate (6 - (toString 0).length) '0') ++ toString 0).toList.reverse.dropWhile (· = '0')).reverse).isEmpty = true := by decide
  rw [if_pos h3]
  show toString n ++ "" = toString n
  simp

/-- the pooled categories: distinct values that are not kept; there are `nRemaining` of them -/
theorem tbl_pooled_count (enumOrder : Option (List String)) (nBins : Nat) (feature : List (Option String)) :
    ((distinctVals feature).filter (fun s => !(tbl_keep enumOrder nBins feature).contains s)).length =
      tbl_nRemaining enumOrder nBins feature := by
  have hperm : (distinctVals feature).Perm (tbl_vc enumOrder feature) := (List.mergeSort_perm _ _).symm
  rw [(hperm.filter _).length_eq]
  unfold tbl_nRemaining tbl_keep
  generalize tbl_sNBinsEf nBins feature - 1 = k
  have hnd := tbl_vc_nodup enumOrder feature
  generalize tbl_vc enumOrder feature = l at hnd
  conv_lhs => rw [← List.take_append_drop k l]
  rw [← List.take_append_drop k l] at hnd
  have hdisj := (List.nodup_append.1 hnd).2.2
  rw [List.filter_append]
  have h1 : (List.take k l).filter (fun s => !(List.take k l).contains s) = [] := by
    rw [List.filter_eq_nil_iff]
    intro a ha
    simp [ha]
  have h2 : (List.drop k l).filter (fun s => !(List.take k l).contains s) = List.drop k l := by
    rw [List.filter_eq_self]
    intro a ha
    have : a ∉ List.take k l := fun h => hdisj a h a ha rfl
    simp [this]
  conv_lhs =>
    rw [List.take_append_drop k l]
  rw [h1, h2, List.nil_append, List.length_drop]

variable {K : Type} [Field K] [LinearOrder K] [IsStrictOrderedRing K]

/-! ### 7. group-by: `distinctKeys`, partition of the rows -/

theorem tbl_distinctKeys_foldl {α : Type} [BEq α] [LawfulBEq α] (keys acc : List α) (hacc : acc.Nodup) :
    (keys.foldl (fun acc k => if acc.contains k then acc else acc ++ [k]) acc).Nodup ∧
    ∀ k, k ∈ keys.foldl (fun acc k => if acc.contains k then acc else acc ++ [k]) acc ↔
      k ∈ acc ∨ k ∈ keys := by
  induction keys generalizing acc with
  | nil => simp [hacc]
  | cons x t ih =>
    simp only [List.foldl_cons]
    by_cases hx : acc.contains x = true
    · rw [if_pos hx]
      obtain ⟨h1, h2⟩ := ih acc hacc
      refine ⟨h1, fun k => ?_⟩
      rw [h2 k]
      have hx' : x ∈ acc := List.contains_iff_mem.1 hx
      constructor
      · rintro (h | h)
        · exact Or.inl h
        · exact Or.inr (List.mem_cons_of_mem _ h)
      · rintro (h | h)
        · exact Or.inl h
        · rcases List.mem_cons.1 h with h | h
          · left; rw [h]; exact hx'
          · exact Or.inr h
    · rw [if_neg hx]
      have hx' : x ∉ acc := fun h => hx (List.contains_iff_mem.2 h)
      have hnd : (acc ++ [x]).Nodup := by
        rw [List.nodup_append]
        refine ⟨hacc, List.nodup_singleton x, ?_⟩
        intro a ha b hb
        rw [List.mem_singleton] at hb
        rintro rfl
        exact hx' (hb ▸ ha)
      obtain ⟨h1, h2⟩ := ih (acc ++ [x]) hnd
      refine ⟨h1, fun k => ?_⟩
      rw [h2 k]
      simp only [List.mem_append, List.mem_cons, List.mem_nil_iff, or_false]
      tauto

theorem tbl_distinctKeys_nodup {α : Type} [BEq α] [LawfulBEq α] (keys : List α) :
    (distinctKeys keys).Nodup :=
  (tbl_distinctKeys_foldl keys [] List.nodup_nil).1

theorem tbl_mem_distinctKeys {α : Type} [BEq α] [LawfulBEq α] (keys : List α) (k : α) :
    k ∈ distinctKeys keys ↔ k ∈ keys := by
  have h : k ∈ distinctKeys keys ↔ k ∈ [] ∨ k ∈ keys :=
    (tbl_distinctKeys_foldl keys [] List.nodup_nil).2 k
  rw [h]; simp

theorem tbl_sum_ite_eq {α M : Type} [BEq α] [LawfulBEq α] [AddCommMonoid M] (ds : List α)
    (hnd : ds.Nodup) (a : α) (ha : a ∈ ds) (x : M) :
    (ds.map (fun k => if a == k then x else 0)).sum = x := by
  induction ds with
  | nil => simp at ha
  | cons d t ih =>
    rw [List.map_cons, List.sum_cons]
    have hnd' := List.nodup_cons.1 hnd
    by_cases had : a = d
    · subst had
      have : (t.map (fun k => if a == k then x else 0)) = t.map (fun _ => (0 : M)) := by
        apply List.map_congr_left
        intro k hk
        have : a ≠ k := fun h => hnd'.1 (h ▸ hk)
        simp [this]
      rw [this]
      simp
    · have hat : a ∈ t := by
        rcases List.mem_cons.1 ha with h | h
        · exact absurd h had
        · exact h
      rw [ih hnd'.2 hat]
      simp [had]

/-- the groups partition the rows: summing a row function group by group gives the total -/
theorem tbl_partition_sum {α ι M : Type} [BEq α] [LawfulBEq α] [AddCommMonoid M]
    (key : ι → α) (g : ι → M) (ds : List α) (hnd : ds.Nodup) (l : List ι)
    (hmem : ∀ i ∈ l, key i ∈ ds) :
    (ds.map (fun k => ((l.filter (fun i => key i == k)).map g).sum)).sum = (l.map g).sum := by
  induction l with
  | nil => simp
  | cons i t ih =>
    have hstep : ∀ k, (((i :: t).filter (fun i => key i == k)).map g).sum =
        (if key i == k then g i else 0) + ((t.filter (fun i => key i == k)).map g).sum := by
      intro k
      rw [List.filter_cons]
      by_cases h : (key i == k) = true
      · simp [h]
      · simp [h]
    simp only [hstep]
    rw [List.sum_map_add, tbl_sum_ite_eq ds hnd (key i) (hmem i (by simp)) (g i),
      ih (fun j hj => hmem j (List.mem_cons_of_mem _ hj))]
    simp

theorem tbl_length_eq_sum {ι : Type} (l : List ι) : l.length = (l.map (fun _ => 1)).sum := by
  induction l with
  | nil => rfl
  | cons a t ih => simp only [List.length_cons, List.map_cons, List.sum_cons]; omega

/-- the member indices of group `k` -/
def tbl_idx {α : Type} [BEq α] (keys : List α) (k : α) : List Nat :=
  (List.range keys.length).filter (fun i => keys[i]? == some k)

/-- partition lemma in the form used by `groupRows` -/
theorem tbl_groups_sum {α M : Type} [BEq α] [LawfulBEq α] [AddCommMonoid M] (keys : List α)
    (g : Nat → M) :
    ((distinctKeys keys).map (fun k => ((tbl_idx keys k).map g).sum)).sum =
      ((List.range keys.length).map g).sum := by
  have := tbl_partition_sum (fun i : Nat => keys[i]?) g ((distinctKeys keys).map some)
    ((tbl_distinctKeys_nodup keys).map (Option.some_injective α)) (List.range keys.length)
    (by
      intro i hi
      rw [List.mem_range] at hi
      rw [List.mem_map]
      exact ⟨keys[i], (tbl_mem_distinctKeys keys _).2 (List.getElem_mem hi),
        (List.getElem?_eq_getElem hi).symm⟩)
  rw [List.map_map] at this
  exact this

theorem tbl_groupRows_eq {α : Type} [BEq α] (keys : List α) (cols : List (List K)) (ws : List K) :
    groupRows keys cols ws = (distinctKeys keys).map (fun k =>
      ⟨k, (tbl_idx keys k).length, ((tbl_idx keys k).filterMap (fun i => ws[i]?)).sum,
       cols.map (fun c => groupStat ((tbl_idx keys k).filterMap (fun i => c[i]?))
         ((tbl_idx keys k).filterMap (fun i => ws[i]?))), tbl_idx keys k⟩) := rfl

variable {K : Type} [Field K] [LinearOrder K] [IsStrictOrderedRing K]

theorem tbl_pick_eq_map (l : List K) (idx : List Nat) (h : ∀ i ∈ idx, i < l.length) :
    idx.filterMap (fun i => l[i]?) = idx.map (fun i => (l[i]?).getD 0) := by
  induction idx with
  | nil => rfl
  | cons i t ih =>
    have hi : i < l.length := h i (by simp)
    rw [List.filterMap_cons, List.map_cons, ih (fun j hj => h j (List.mem_cons_of_mem _ hj))]
    simp [List.getElem?_eq_getElem hi]

theorem tbl_range_getD (l : List K) : (List.range l.length).map (fun i => (l[i]?).getD 0) = l := by
  apply List.ext_getElem
  · simp
  · intro i h1 h2
    simp [List.getElem?_eq_getElem h2]

theorem tbl_zipWith_map {ι : Type} (f : K → K → K) (a b : ι → K) (idx : List ι) :
    List.zipWith f (idx.map a) (idx.map b) = idx.map (fun i => f (a i) (b i)) := by
  induction idx with
  | nil => rfl
  | cons i t ih => simp [ih]

theorem tbl_mem_idx {α : Type} [BEq α] [LawfulBEq α] (keys : List α) (k : α) (i : Nat) :
    i ∈ tbl_idx keys k ↔ keys[i]? = some k := by
  unfold tbl_idx
  rw [List.mem_filter, List.mem_range]
  constructor
  · rintro ⟨_, h⟩; exact eq_of_beq h
  · intro h
    refine ⟨?_, by rw [h]; exact beq_self_eq_true _⟩
    by_contra hn
    rw [List.getElem?_eq_none (by omega)] at h
    cases h

theorem tbl_idx_lt {α : Type} [BEq α] [LawfulBEq α] (keys : List α) (k : α) (i : Nat)
    (h : i ∈ tbl_idx keys k) : i < keys.length := by
  unfold tbl_idx at h
  exact List.mem_range.1 (List.mem_filter.1 h).1

theorem tbl_idx_ne_nil {α : Type} [BEq α] [LawfulBEq α] (keys : List α) (k : α) (h : k ∈ keys) :
    tbl_idx keys k ≠ [] := by
  obtain ⟨i, hi, rfl⟩ := List.getElem_of_mem h
  exact List.ne_nil_of_mem ((tbl_mem_idx keys _ i).2 (List.getElem?_eq_getElem hi))

/-- zip-with of the picked weights and values -/
theorem tbl_pick_zipWith {α : Type} [BEq α] [LawfulBEq α] (keys : List α) (k : α) (f : K → K → K)
    (ws col : List K) (hw : ws.length = keys.length) (hc : col.length = keys.length) :
    List.zipWith f ((tbl_idx keys k).filterMap (fun i => ws[i]?)) ((tbl_idx keys k).filterMap (fun i => col[i]?)) =
      (tbl_idx keys k).map (fun i => f ((ws[i]?).getD 0) ((col[i]?).getD 0)) := by
  rw [tbl_pick_eq_map ws _ (fun i hi => hw ▸ tbl_idx_lt keys k i hi),
    tbl_pick_eq_map col _ (fun i hi => hc ▸ tbl_idx_lt keys k i hi), tbl_zipWith_map]

theorem tbl_zipWith_range (f : K → K → K) (ws col : List K) (n : Nat) (hw : ws.length = n)
    (hc : col.length = n) :
    (List.range n).map (fun i => f ((ws[i]?).getD 0) ((col[i]?).getD 0)) = List.zipWith f ws col := by
  conv_rhs => rw [← tbl_range_getD ws, ← tbl_range_getD col, hw, hc, tbl_zipWith_map]

/-- the group counts add up to the number of rows -/
theorem tbl_counts_total {α : Type} [BEq α] [LawfulBEq α] (keys : List α) (cols : List (List K))
    (ws : List K) : ((groupRows keys cols ws).map (·.count)).sum = keys.length := by
  rw [tbl_groupRows_eq, List.map_map]
  show ((distinctKeys keys).map (fun k => (tbl_idx keys k).length)).sum = keys.length
  simp only [tbl_length_eq_sum (tbl_idx keys _)]
  rw [tbl_groups_sum keys (fun _ => 1), ← tbl_length_eq_sum, List.length_range]

/-- the group weights add up to the total weight -/
theorem tbl_weights_total {α : Type} [BEq α] [LawfulBEq α] (keys : List α) (cols : List (List K))
    (ws : List K) (hw : ws.length = keys.length) :
    ((groupRows keys cols ws).map (·.weights)).sum = ws.sum := by
  rw [tbl_groupRows_eq, List.map_map]
  show ((distinctKeys keys).map (fun k => ((tbl_idx keys k).filterMap (fun i => ws[i]?)).sum)).sum = ws.sum
  have : ∀ k, ((tbl_idx keys k).filterMap (fun i => ws[i]?)) = (tbl_idx keys k).map (fun i => (ws[i]?).getD 0) :=
    fun k => tbl_pick_eq_map ws _ (fun i hi => hw ▸ tbl_idx_lt keys k i hi)
  simp only [this]
  rw [tbl_groups_sum keys (fun i => (ws[i]?).getD 0), ← hw, tbl_range_getD]

theorem tbl_group_weight_pos {α : Type} [BEq α] [LawfulBEq α] (keys : List α) (ws : List K)
    (hw : ws.length = keys.length) (hpos : ∀ w ∈ ws, 0 < w) (k : α) (hk : k ∈ keys) :
    0 < ((tbl_idx keys k).filterMap (fun i => ws[i]?)).sum := by
  apply List.sum_pos
  · intro x hx
    rw [List.mem_filterMap] at hx
    obtain ⟨i, _, hi⟩ := hx
    exact hpos x (List.mem_of_getElem? hi)
  · rw [tbl_pick_eq_map ws _ (fun i hi => hw ▸ tbl_idx_lt keys k i hi)]
    intro h
    exact tbl_idx_ne_nil keys k hk (List.map_eq_nil_iff.1 h)

theorem tbl_groupStat_mean (vals ws : List K) :
    (groupStat vals ws).mean = (List.zipWith (· * ·) ws vals).sum / ws.sum := rfl

/-- `Σ_g W_g · mean_g = Σ_i w_i · v_i` for the value column `j` -/
theorem tbl_recombine {α : Type} [BEq α] [LawfulBEq α] (keys : List α) (cols : List (List K))
    (ws : List K) (j : Nat) (col : List K) (hj : cols[j]? = some col)
    (hw : ws.length = keys.length) (hc : col.length = keys.length)
    (hne : ∀ g ∈ groupRows keys cols ws, g.weights ≠ 0) :
    ((groupRows keys cols ws).map (fun g => g.weights * ((g.stats[j]?).map (·.mean)).getD 0)).sum =
      (List.zipWith (· * ·) ws col).sum := by
  have hne' : ∀ k ∈ distinctKeys keys, ((tbl_idx keys k).filterMap (fun i => ws[i]?)).sum ≠ 0 := by
    intro k hk
    apply hne ⟨k, (tbl_idx keys k).length, ((tbl_idx keys k).filterMap (fun i => ws[i]?)).sum,
       cols.map (fun c => groupStat ((tbl_idx keys k).filterMap (fun i => c[i]?))
         ((tbl_idx keys k).filterMap (fun i => ws[i]?))), tbl_idx keys k⟩
    rw [tbl_groupRows_eq]
    exact List.mem_map.2 ⟨k, hk, rfl⟩
  rw [tbl_groupRows_eq, List.map_map]
  have hterm : ∀ k ∈ distinctKeys keys,
      ((fun g : GroupRow K α => g.weights * ((g.stats[j]?).map (·.mean)).getD 0) ∘ (fun k =>
      (⟨k, (tbl_idx keys k).length, ((tbl_idx keys k).filterMap (fun i => ws[i]?)).sum,
       cols.map (fun c => groupStat ((tbl_idx keys k).filterMap (fun i => c[i]?))
         ((tbl_idx keys k).filterMap (fun i => ws[i]?))), tbl_idx keys k⟩ : GroupRow K α))) k =
      ((tbl_idx keys k).map (fun i => (ws[i]?).getD 0 * (col[i]?).getD 0)).sum := by
    intro k hk
    simp only [Function.comp, List.getElem?_map, hj, Option.map_some, Option.getD_some,
      tbl_groupStat_mean]
    rw [mul_div_cancel₀ _ (hne' k hk), tbl_pick_zipWith keys k (· * ·) ws col hw hc]
  rw [List.map_congr_left hterm, tbl_groups_sum keys (fun i => (ws[i]?).getD 0 * (col[i]?).getD 0),
    tbl_zipWith_range (· * ·) ws col keys.length hw hc]

variable {K : Type} [Field K] [LinearOrder K] [IsStrictOrderedRing K]

instance tbl_lawfulBEqKey : LawfulBEq Key where
  eq_of_beq := by
    intro a b h
    cases a <;> cases b <;> simp [BEq.beq, instBEqKey.beq] at h
    · rfl
    · have : (_ : Nat) = _ := h
      simp_all
    · simp_all
  rfl := by
    intro a
    cases a <;> simp [BEq.beq, instBEqKey.beq]
/-! ### 8. `truncateGroups`, `groupedTable` -/

theorem tbl_truncate_perm {α : Type} (isNull : α → Bool) (nBins : Nat) (gs : List (GroupRow K α))
    (h : gs.length ≤ nBins) : (truncateGroups isNull nBins gs).Perm gs := by
  unfold truncateGroups
  simp only []
  rw [List.take_of_length_le (by rw [List.length_mergeSort]; exact h)]
  exact List.mergeSort_perm _ _

theorem tbl_groupRows_length {α : Type} [BEq α] (keys : List α) (cols : List (List K)) (ws : List K) :
    (groupRows keys cols ws).length = (distinctKeys keys).length := by
  rw [tbl_groupRows_eq, List.length_map]

theorem tbl_groupRows_keys {α : Type} [BEq α] (keys : List α) (cols : List (List K)) (ws : List K) :
    (groupRows keys cols ws).map (·.key) = distinctKeys keys := by
  rw [tbl_groupRows_eq, List.map_map]
  exact List.map_id _

theorem tbl_distinctKeys_length_le {α : Type} [BEq α] [LawfulBEq α] (keys L : List α) (h : keys ⊆ L) :
    (distinctKeys keys).length ≤ L.length :=
  ((tbl_distinctKeys_nodup keys).subperm
    (fun x hx => h ((tbl_mem_distinctKeys keys x).1 hx))).length_le

/-- key of a numeric bin label -/
def tbl_numKey (o : Option Nat) : Key := match o with | none => Key.null | some i => Key.num i
/-- key of a string label -/
def tbl_strKey (o : Option String) : Key := match o with | none => Key.null | some s => Key.str s

/-- numeric binning never yields more groups than the returned `n_bins` -/
theorem tbl_num_groups_le (m : BinMethod) (nBins : Nat) (given : List K) (feature : List (Cell K))
    (cols : List (List K)) (ws : List K) :
    (groupRows ((binNumeric m nBins given feature).bins.map tbl_numKey) cols ws).length ≤
      (binNumeric m nBins given feature).nBins := by
  rw [tbl_groupRows_length]
  refine le_trans (tbl_distinctKeys_length_le _ ((tbl_binUniverse m nBins given feature).map tbl_numKey)
    (List.map_subset _ (tbl_bins_subset m nBins given feature))) ?_
  rw [List.length_map]
  exact tbl_binUniverse_length m nBins given feature

/-- string binning never yields more groups than the returned `n_bins` -/
theorem tbl_str_groups_le (enumOrder : Option (List String)) (nBins : Nat) (feature : List (Option String))
    (cols : List (List K)) (ws : List K) :
    (groupRows ((binString enumOrder nBins feature).bins.map tbl_strKey) cols ws).length ≤
      (binString enumOrder nBins feature).nBins := by
  rw [tbl_groupRows_length]
  refine le_trans (tbl_distinctKeys_length_le _ ((tbl_sUniverse enumOrder nBins feature).map tbl_strKey)
    (List.map_subset _ (tbl_sbins_subset enumOrder nBins feature))) ?_
  rw [List.length_map]
  exact tbl_sUniverse_length enumOrder nBins feature

/-- the output row built from a group -/
def tbl_outRow (feature : List (Cell K)) (rowEdges : List (Option (Cell K × Cell K)))
    (g : GroupRow K Key) : OutRow K :=
  ⟨g.key, cellMean (g.idx.filterMap (fun i => feature[i]?)), g.count, g.weights, g.stats,
    cellVar (g.idx.filterMap (fun i => feature[i]?)),
    (g.idx.head?.bind (fun i => rowEdges[i]?)).join⟩

theorem tbl_groupedTable_eq (keys : List Key) (feature : List (Cell K))
    (rowEdges : List (Option (Cell K × Cell K))) (cols : List (List K)) (ws : List K) (nBins : Nat)
    (enumOrder : Option (List String)) (pooled : Option String) :
    groupedTable keys feature rowEdges cols ws nBins enumOrder pooled =
      ((truncateGroups Key.isNull nBins (groupRows keys cols ws)).map (tbl_outRow feature rowEdges)).mergeSort
        (keyLe enumOrder pooled) := rfl

/-- without truncation the table is a permutation of the groups' rows -/
theorem tbl_groupedTable_perm (keys : List Key) (feature : List (Cell K))
    (rowEdges : List (Option (Cell K × Cell K))) (cols : List (List K)) (ws : List K) (nBins : Nat)
    (enumOrder : Option (List String)) (pooled : Option String)
    (h : (groupRows keys cols ws).length ≤ nBins) :
    (groupedTable keys feature rowEdges cols ws nBins enumOrder pooled).Perm
      ((groupRows keys cols ws).map (tbl_outRow feature rowEdges)) := by
  rw [tbl_groupedTable_eq]
  exact (List.mergeSort_perm _ _).trans ((tbl_truncate_perm _ _ _ h).map _)

/-- every row of the table comes from a group (always, also with truncation) -/
theorem tbl_groupedTable_mem (keys : List Key) (feature : List (Cell K))
    (rowEdges : List (Option (Cell K × Cell K))) (cols : List (List K)) (ws : List K) (nBins : Nat)
    (enumOrder : Option (List String)) (pooled : Option String) (r : OutRow K)
    (hr : r ∈ groupedTable keys feature rowEdges cols ws nBins enumOrder pooled) :
    ∃ g ∈ groupRows keys cols ws, r = tbl_outRow feature rowEdges g := by
  rw [tbl_groupedTable_eq, List.mem_mergeSort, List.mem_map] at hr
  obtain ⟨g, hg, rfl⟩ := hr
  refine ⟨g, ?_, rfl⟩
  unfold truncateGroups at hg
  exact List.mem_mergeSort.1 (List.mem_of_mem_take hg)

variable {K : Type} [Field K] [LinearOrder K] [IsStrictOrderedRing K]

/-! ### 9. invariance under row permutations -/

theorem tbl_zipWith_map' {ι : Type} (f : K → K → K) (a b : ι → K) (idx : List ι) :
    List.zipWith f (idx.map a) (idx.map b) = idx.map (fun i => f (a i) (b i)) := by
  induction idx with
  | nil => rfl
  | cons i t ih => simp [ih]

/-- `groupStat` of a list of (weight, value) records does not depend on the order of the records -/
theorem tbl_groupStat_perm {ι : Type} (a b : ι → K) (l l' : List ι) (h : l.Perm l') :
    groupStat (l.map b) (l.map a) = groupStat (l'.map b) (l'.map a) := by
  have h1 : (l.map a).sum = (l'.map a).sum := (h.map a).sum_eq
  have h2 : (l.map (fun i => a i * b i)).sum = (l'.map (fun i => a i * b i)).sum := (h.map _).sum_eq
  have h3 : ∀ m : K, (l.map (fun i => a i * ((b i - m) * (b i - m)))).sum =
      (l'.map (fun i => a i * ((b i - m) * (b i - m)))).sum := fun m => (h.map _).sum_eq
  have h4 : l.length = l'.length := h.length_eq
  unfold groupStat
  simp only [tbl_zipWith_map', List.length_map, h1, h2, h3, h4]

theorem tbl_filterMap_range {β : Type} (l : List β) :
    (List.range l.length).filterMap (fun i => l[i]?) = l := by
  induction l using List.reverseRecOn with
  | nil => rfl
  | append_singleton t a ih =>
    rw [List.length_append, List.length_singleton, List.range_succ, List.filterMap_append]
    have h1 : (List.range t.length).filterMap (fun i => (t ++ [a])[i]?) =
        (List.range t.length).filterMap (fun i => t[i]?) := by
      apply List.filterMap_congr
      intro i hi
      rw [List.mem_range] at hi
      rw [List.getElem?_append_left hi]
    rw [h1, ih]
    simp

/-- the picked values of group `k`, via the zipped row records -/
theorem tbl_pick_eq_filter {α β : Type} [BEq α] [LawfulBEq α] (keys : List α) (vs : List β)
    (h : vs.length = keys.length) (k : α) :
    (tbl_idx keys k).filterMap (fun i => vs[i]?) =
      ((List.zip keys vs).filter (fun r => r.1 == k)).map (·.2) := by
  have hz : (List.zip keys vs).length = keys.length := by rw [List.length_zip, h, Nat.min_self]
  conv_rhs => rw [← tbl_filterMap_range (List.zip keys vs), hz]
  unfold tbl_idx
  rw [List.filterMap_filter, List.filter_filterMap, List.map_filterMap]
  apply List.filterMap_congr
  intro i hi
  rw [List.mem_range] at hi
  have hi' : i < vs.length := by omega
  simp only [List.getElem?_eq_getElem hi, List.getElem?_eq_getElem hi',
    List.zip_eq_zipWith, List.getElem?_zipWith]
  by_cases hk : keys[i] = k
  · simp [hk]
  · simp [hk]

theorem tbl_zip_getElem? {β γ : Type} (a : List β) (b : List γ) (h : a.length = b.length) (i : Nat) :
    ((List.zip a b)[i]?).map (·.1) = a[i]? ∧ ((List.zip a b)[i]?).map (·.2) = b[i]? := by
  by_cases hi : i < a.length
  · have hi' : i < b.length := by omega
    simp [List.zip_eq_zipWith, List.getElem?_zipWith, List.getElem?_eq_getElem hi,
      List.getElem?_eq_getElem hi']
  · have hi' : ¬ i < b.length := by omega
    simp [List.zip_eq_zipWith, List.getElem?_zipWith, List.getElem?_eq_none (not_lt.1 hi),
      List.getElem?_eq_none (not_lt.1 hi')]

/-- weights and values of group `k` read off the zipped row records `(key, weight, value)` -/
theorem tbl_pick3 {α : Type} [BEq α] [LawfulBEq α] (keys : List α) (ws c : List K)
    (hw : ws.length = keys.length) (hc : c.length = keys.length) (k : α) :
    (tbl_idx keys k).filterMap (fun i => ws[i]?) =
      ((List.zip keys (List.zip ws c)).filter (fun r => r.1 == k)).map (·.2.1) ∧
    (tbl_idx keys k).filterMap (fun i => c[i]?) =
      ((List.zip keys (List.zip ws c)).filter (fun r => r.1 == k)).map (·.2.2) := by
  have hz : (List.zip ws c).length = keys.length := by rw [List.length_zip, hw, hc, Nat.min_self]
  have key := tbl_pick_eq_filter keys (List.zip ws c) hz k
  have hwc : ws.length = c.length := by omega
  constructor
  · have : ((List.zip keys (List.zip ws c)).filter (fun r => r.1 == k)).map (·.2.1) =
        (((List.zip keys (List.zip ws c)).filter (fun r => r.1 == k)).map (·.2)).map (·.1) := by
      rw [List.map_map]; rfl
    rw [this, ← key, List.map_filterMap]
    apply List.filterMap_congr
    intro i _
    exact ((tbl_zip_getElem? ws c hwc i).1).symm
  · have : ((List.zip keys (List.zip ws c)).filter (fun r => r.1 == k)).map (·.2.2) =
        (((List.zip keys (List.zip ws c)).filter (fun r => r.1 == k)).map (·.2)).map (·.2) := by
      rw [List.map_map]; rfl
    rw [this, ← key, List.map_filterMap]
    apply List.filterMap_congr
    intro i _
    exact ((tbl_zip_getElem? ws c hwc i).2).symm

/-- count, weight and column statistics of group `k` are invariant under a permutation of the
row records `(key, weight, value)` -/
theorem tbl_group_perm {α : Type} [BEq α] [LawfulBEq α] (keys keys' : List α) (ws ws' c c' : List K)
    (hw : ws.length = keys.length) (hc : c.length = keys.length)
    (hw' : ws'.length = keys'.length) (hc' : c'.length = keys'.length)
    (hperm : (List.zip keys (List.zip ws c)).Perm (List.zip keys' (List.zip ws' c'))) (k : α) :
    (tbl_idx keys k).length = (tbl_idx keys' k).length ∧
    ((tbl_idx keys k).filterMap (fun i => ws[i]?)).sum = ((tbl_idx keys' k).filterMap (fun i => ws'[i]?)).sum ∧
    groupStat ((tbl_idx keys k).filterMap (fun i => c[i]?)) ((tbl_idx keys k).filterMap (fun i => ws[i]?)) =
      groupStat ((tbl_idx keys' k).filterMap (fun i => c'[i]?)) ((tbl_idx keys' k).filterMap (fun i => ws'[i]?)) := by
  obtain ⟨p1, p2⟩ := tbl_pick3 keys ws c hw hc k
  obtain ⟨q1, q2⟩ := tbl_pick3 keys' ws' c' hw' hc' k
  have hf := hperm.filter (fun r => r.1 == k)
  refine ⟨?_, ?_, ?_⟩
  · have e1 : (tbl_idx keys k).length = ((tbl_idx keys k).filterMap (fun i => ws[i]?)).length := by
      rw [tbl_pick_eq_map ws _ (fun i hi => hw ▸ tbl_idx_lt keys k i hi), List.length_map]
    have e2 : (tbl_idx keys' k).length = ((tbl_idx keys' k).filterMap (fun i => ws'[i]?)).length := by
      rw [tbl_pick_eq_map ws' _ (fun i hi => hw' ▸ tbl_idx_lt keys' k i hi), List.length_map]
    rw [e1, e2, p1, q1, List.length_map, List.length_map]
    exact hf.length_eq
  · rw [p1, q1]
    exact (hf.map _).sum_eq
  · rw [p1, p2, q1, q2]
    exact tbl_groupStat_perm (fun r : α × K × K => r.2.1) (fun r => r.2.2) _ _ hf

variable {K : Type} [Field K] [LinearOrder K] [IsStrictOrderedRing K]

/-- re-ordering a column by an index list -/
def tbl_reorder {β : Type} (p : List Nat) (l : List β) : List β := p.filterMap (fun i => l[i]?)

theorem tbl_reorder_perm {β : Type} (p : List Nat) (l : List β) (hp : p.Perm (List.range l.length)) :
    (tbl_reorder p l).Perm l := by
  unfold tbl_reorder
  have := hp.filterMap (fun i => l[i]?)
  rwa [tbl_filterMap_range] at this

theorem tbl_reorder_zip {β γ : Type} (p : List Nat) (a : List β) (b : List γ) (h : a.length = b.length) :
    List.zip (tbl_reorder p a) (tbl_reorder p b) = tbl_reorder p (List.zip a b) := by
  unfold tbl_reorder
  induction p with
  | nil => rfl
  | cons i t ih =>
    by_cases hi : i < a.length
    · have hi' : i < b.length := by omega
      have hz : i < (List.zip a b).length := by rw [List.length_zip]; omega
      simp only [List.filterMap_cons, List.getElem?_eq_getElem hi, List.getElem?_eq_getElem hi',
        List.getElem?_eq_getElem hz, List.zip_cons_cons, ih, List.getElem_zip]
    · have hi' : ¬ i < b.length := by omega
      have hz : ¬ i < (List.zip a b).length := by rw [List.length_zip]; omega
      simp only [List.filterMap_cons, List.getElem?_eq_none (not_lt.1 hi),
        List.getElem?_eq_none (not_lt.1 hi'), List.getElem?_eq_none (not_lt.1 hz), ih]

/-- the row of group `k` -/
def tbl_groupRow {α : Type} [BEq α] (keys : List α) (cols : List (List K)) (ws : List K) (k : α) :
    GroupRow K α :=
  ⟨k, (tbl_idx keys k).length, ((tbl_idx keys k).filterMap (fun i => ws[i]?)).sum,
    cols.map (fun c => groupStat ((tbl_idx keys k).filterMap (fun i => c[i]?))
      ((tbl_idx keys k).filterMap (fun i => ws[i]?))), tbl_idx keys k⟩

theorem tbl_groupRows_eq' {α : Type} [BEq α] (keys : List α) (cols : List (List K)) (ws : List K) :
    groupRows keys cols ws = (distinctKeys keys).map (tbl_groupRow keys cols ws) := rfl

/-- permuting the rows consistently: every group of the original table has a counterpart in the
permuted table with the same key, count, weight and column statistics -/
theorem tbl_groupRows_perm {α : Type} [BEq α] [LawfulBEq α] (keys : List α) (cols : List (List K))
    (ws : List K) (hw : ws.length = keys.length) (hcols : ∀ c ∈ cols, c.length = keys.length)
    (p : List Nat) (hp : p.Perm (List.range keys.length)) :
    ∀ g ∈ groupRows keys cols ws,
      ∃ g' ∈ groupRows (tbl_reorder p keys) (cols.map (tbl_reorder p)) (tbl_reorder p ws),
        g'.key = g.key ∧ g'.count = g.count ∧ g'.weights = g.weights ∧ g'.stats = g.stats := by
  intro g hg
  rw [tbl_groupRows_eq', List.mem_map] at hg
  obtain ⟨k, hk, rfl⟩ := hg
  have hkeys : (tbl_reorder p keys).Perm keys := tbl_reorder_perm p keys hp
  have hlen : (tbl_reorder p keys).length = keys.length := hkeys.length_eq
  have hws : (tbl_reorder p ws).length = (tbl_reorder p keys).length := by
    rw [hlen, ← hw]; exact (tbl_reorder_perm p ws (hw ▸ hp)).length_eq
  have hk' : k ∈ distinctKeys (tbl_reorder p keys) := by
    rw [tbl_mem_distinctKeys] at hk ⊢
    exact hkeys.mem_iff.2 hk
  have hz : ∀ c : List K, c.length = keys.length →
      (List.zip keys (List.zip ws c)).Perm
        (List.zip (tbl_reorder p keys) (List.zip (tbl_reorder p ws) (tbl_reorder p c))) := by
    intro c hc
    rw [tbl_reorder_zip p ws c (by omega), tbl_reorder_zip p keys _ (by rw [List.length_zip]; omega)]
    refine (tbl_reorder_perm p _ ?_).symm
    rw [List.length_zip, List.length_zip]
    have : min keys.length (min ws.length c.length) = keys.length := by omega
    rw [this]; exact hp
  refine ⟨tbl_groupRow (tbl_reorder p keys) (cols.map (tbl_reorder p)) (tbl_reorder p ws) k,
    by rw [tbl_groupRows_eq']; exact List.mem_map.2 ⟨k, hk', rfl⟩, rfl, ?_, ?_, ?_⟩
  · exact ((tbl_group_perm keys _ ws _ ws _ hw hw hws hws (hz ws hw) k).1).symm
  · exact ((tbl_group_perm keys _ ws _ ws _ hw hw hws hws (hz ws hw) k).2.1).symm
  · show (cols.map (tbl_reorder p)).map _ = cols.map _
    rw [List.map_map]
    apply List.map_congr_left
    intro c hc
    have hc' : (tbl_reorder p c).length = (tbl_reorder p keys).length := by
      rw [hlen, ← hcols c hc]; exact (tbl_reorder_perm p c ((hcols c hc) ▸ hp)).length_eq
    exact ((tbl_group_perm keys _ ws _ c _ hw (hcols c hc) hws hc' (hz c (hcols c hc)) k).2.2).symm

variable {K : Type} [Field K] [LinearOrder K] [IsStrictOrderedRing K]

/-! ### 10. the null group survives `head(n_bins)` -/

theorem tbl_foldl_max_count {α : Type} (gs : List (GroupRow K α)) (m : Nat) :
    m ≤ gs.foldl (fun m g => max m g.count) m ∧
    ∀ g ∈ gs, g.count ≤ gs.foldl (fun m g => max m g.count) m := by
  induction gs generalizing m with
  | nil => simp
  | cons a t ih =>
    simp only [List.foldl_cons]
    obtain ⟨h1, h2⟩ := ih (max m a.count)
    refine ⟨le_trans (le_max_left _ _) h1, ?_⟩
    intro g hg
    rcases List.mem_cons.1 hg with rfl | hg
    · exact le_trans (le_max_right _ _) h1
    · exact h2 g hg

/-- if there is a group with a null key and `n_bins ≥ 1`, a null-key group survives truncation -/
theorem tbl_truncate_null {α : Type} (isNull : α → Bool) (nBins : Nat) (h1 : 1 ≤ nBins)
    (gs : List (GroupRow K α)) (g0 : GroupRow K α) (hg0 : g0 ∈ gs) (hn : isNull g0.key = true) :
    ∃ g ∈ truncateGroups isNull nBins gs, isNull g.key = true := by
  unfold truncateGroups
  simp only []
  generalize hmaxc : gs.foldl (fun m g => max m g.count) 0 = maxc
  have hcount : ∀ g ∈ gs, g.count ≤ maxc := by
    rw [← hmaxc]; exact (tbl_foldl_max_count gs 0).2
  have hsorted := List.pairwise_mergeSort
    (le := fun (a b : GroupRow K α) => decide ((if isNull a.key then maxc + 1 else a.count) ≥
      (if isNull b.key then maxc + 1 else b.count)))
    (by intro a b c hab hbc
        simp only [decide_eq_true_eq] at *
        omega)
    (by intro a b
        simp only [Bool.or_eq_true, decide_eq_true_eq]
        omega) gs
  have hmem : ∀ g, g ∈ gs.mergeSort (fun a b => decide ((if isNull a.key then maxc + 1 else a.count) ≥
      (if isNull b.key then maxc + 1 else b.count))) ↔ g ∈ gs := fun g => List.mem_mergeSort
  generalize gs.mergeSort (fun a b => decide ((if isNull a.key then maxc + 1 else a.count) ≥
      (if isNull b.key then maxc + 1 else b.count))) = s at hsorted hmem
  cases s with
  | nil => exact absurd ((hmem g0).2 hg0) (by simp)
  | cons h t =>
    obtain ⟨n, rfl⟩ : ∃ n, nBins = n + 1 := ⟨nBins - 1, by omega⟩
    refine ⟨h, by simp, ?_⟩
    by_contra hh
    have hh' : isNull h.key = false := by simpa using hh
    have hg0' := (hmem g0).2 hg0
    rcases List.mem_cons.1 hg0' with rfl | hg0t
    · rw [hn] at hh'; cases hh'
    · have := (List.pairwise_cons.1 hsorted).1 g0 hg0t
      simp only [hh', hn, decide_eq_true_eq, if_true, Bool.false_eq_true, if_false] at this
      have := hcount h ((hmem h).1 (by simp))
      omega

variable {K : Type} [Field K] [LinearOrder K] [IsStrictOrderedRing K]

/-! ### 11. `compute_marginal` -/

theorem tbl_zipWith_mul_sub (ws pred y : List K) (h : pred.length = y.length) :
    (List.zipWith (· * ·) ws (List.zipWith (fun p y => p - y) pred y)).sum =
      (List.zipWith (· * ·) ws pred).sum - (List.zipWith (· * ·) ws y).sum := by
  induction ws generalizing pred y with
  | nil => simp
  | cons w t ih =>
    cases pred with
    | nil =>
      cases y with
      | nil => simp
      | cons b y => simp at h
    | cons a pred =>
      cases y with
      | nil => simp at h
      | cons b y =>
        simp only [List.zipWith_cons_cons, List.sum_cons]
        rw [ih pred y (by simpa using h)]
        ring

/-- the weighted mean is linear: mean of `pred − y` = mean of `pred` − mean of `y` -/
theorem tbl_groupStat_mean_sub (ws pred y : List K) (h : pred.length = y.length) :
    (groupStat (List.zipWith (fun p y => p - y) pred y) ws).mean =
      (groupStat pred ws).mean - (groupStat y ws).mean := by
  rw [tbl_groupStat_mean, tbl_groupStat_mean, tbl_groupStat_mean, tbl_zipWith_mul_sub ws pred y h, sub_div]

theorem tbl_pick_sub (idx : List Nat) (pred y : List K) (hp : ∀ i ∈ idx, i < pred.length)
    (hy : ∀ i ∈ idx, i < y.length) :
    idx.filterMap (fun i => (List.zipWith (fun p y => p - y) pred y)[i]?) =
      List.zipWith (fun p y => p - y) (idx.filterMap (fun i => pred[i]?)) (idx.filterMap (fun i => y[i]?)) := by
  induction idx with
  | nil => rfl
  | cons i t ih =>
    have h1 := hp i (by simp)
    have h2 := hy i (by simp)
    have hz : (List.zipWith (fun p y => p - y) pred y)[i]? = some (pred[i] - y[i]) := by
      simp [List.getElem?_zipWith, List.getElem?_eq_getElem h1, List.getElem?_eq_getElem h2]
    rw [List.filterMap_cons_some hz, List.filterMap_cons_some (List.getElem?_eq_getElem h1),
      List.filterMap_cons_some (List.getElem?_eq_getElem h2), List.zipWith_cons_cons,
      ih (fun j hj => hp j (List.mem_cons_of_mem _ hj)) (fun j hj => hy j (List.mem_cons_of_mem _ hj))]

/-- per group: `mean(pred) − mean(y)` is the mean of the column `pred − y` -/
theorem tbl_group_bias {α : Type} [BEq α] [LawfulBEq α] (keys : List α) (y pred ws : List K)
    (hy : y.length = keys.length) (hp : pred.length = keys.length) (k : α) :
    (tbl_groupRow keys [List.zipWith (fun p y => p - y) pred y] ws k).stats.map (·.mean) =
      [(groupStat ((tbl_idx keys k).filterMap (fun i => pred[i]?)) ((tbl_idx keys k).filterMap (fun i => ws[i]?))).mean -
       (groupStat ((tbl_idx keys k).filterMap (fun i => y[i]?)) ((tbl_idx keys k).filterMap (fun i => ws[i]?))).mean] := by
  unfold tbl_groupRow
  simp only [List.map_cons, List.map_nil]
  rw [tbl_pick_sub _ pred y (fun i hi => hp ▸ tbl_idx_lt keys k i hi) (fun i hi => hy ▸ tbl_idx_lt keys k i hi),
    tbl_groupStat_mean_sub]
  rw [tbl_pick_eq_map pred _ (fun i hi => hp ▸ tbl_idx_lt keys k i hi),
    tbl_pick_eq_map y _ (fun i hi => hy ▸ tbl_idx_lt keys k i hi), List.length_map, List.length_map]

/-- the edges reported for a numeric group are those of its bin -/
theorem tbl_group_edges (m : BinMethod) (nBins : Nat) (given : List K) (feature : List (Cell K))
    (cols : List (List K)) (ws : List K) (g : GroupRow K Key)
    (hg : g ∈ groupRows ((binNumeric m nBins given feature).bins.map tbl_numKey) cols ws) :
    (tbl_outRow feature (binNumeric m nBins given feature).edges g).edges =
      match g.key with
      | .num i => some ((tbl_full m nBins given feature).getD i .null,
          (tbl_full m nBins given feature).getD (i + 1) .null)
      | _ => none := by
  rw [tbl_groupRows_eq', List.mem_map] at hg
  obtain ⟨k, hk, rfl⟩ := hg
  have hk' := (tbl_mem_distinctKeys _ k).1 hk
  have hne := tbl_idx_ne_nil _ k hk'
  unfold tbl_outRow tbl_groupRow
  simp only []
  cases hidx : tbl_idx ((binNumeric m nBins given feature).bins.map tbl_numKey) k with
  | nil => exact absurd hidx hne
  | cons j t =>
    have hj : j ∈ tbl_idx ((binNumeric m nBins given feature).bins.map tbl_numKey) k := by
      rw [hidx]; simp
    rw [tbl_mem_idx, List.getElem?_map] at hj
    simp only [List.head?_cons, Option.bind_some]
    rw [tbl_binNumeric_edges, List.getElem?_map]
    cases hb : (binNumeric m nBins given feature).bins[j]? with
    | none => rw [hb] at hj; cases hj
    | some o =>
      rw [hb] at hj
      simp only [Option.map_some, Option.some.injEq] at hj
      cases o with
      | none =>
        simp only [tbl_numKey] at hj
        rw [← hj]; rfl
      | some i =>
        simp only [tbl_numKey] at hj
        rw [← hj]; rfl

/-- labels of the binned string column: a real value of the column or the pooled name -/
theorem tbl_sbins_mem (enumOrder : Option (List String)) (nBins : Nat) (feature : List (Option String))
    (s : String) (h : some s ∈ (binString enumOrder nBins feature).bins) :
    some s ∈ feature ∨ (binString enumOrder nBins feature).pooled = some s := by
  rw [tbl_pooled_str]
  rw [tbl_binString_eq] at h
  by_cases hc : tbl_sNBinsEf nBins feature ≥ (tbl_vc enumOrder feature).length
  · rw [if_pos hc] at h; exact Or.inl h
  · rw [if_neg hc] at h
    rw [if_neg hc]
    simp only [List.mem_map] at h
    obtain ⟨v, hv, hvs⟩ := h
    cases v with
    | none => cases hvs
    | some s0 =>
      simp only [Option.map_some, Option.some.injEq] at hvs
      by_cases hk : (tbl_keep enumOrder nBins feature).contains s0 = true
      · rw [if_pos hk] at hvs; left; rw [← hvs]; exact hv
      · rw [if_neg hk] at hvs; right; rw [hvs]

/-- a label is not a real value iff it is the pooled name -/
theorem tbl_pooled_iff (enumOrder : Option (List String)) (nBins : Nat) (feature : List (Option String))
    (hdecl : ∀ s, some s ∈ feature → s ∈ tbl_existing enumOrder feature)
    (s : String) (h : some s ∈ (binString enumOrder nBins feature).bins) :
    some s ∉ feature ↔ (binString enumOrder nBins feature).pooled = some s := by
  constructor
  · intro hn
    rcases tbl_sbins_mem enumOrder nBins feature s h with h' | h'
    · exact absurd h' hn
    · exact h'
  · intro hp hmem
    rw [tbl_pooled_str] at hp
    split at hp
    · cases hp
    · rw [← Option.some.inj hp] at hmem
      exact tbl_name_not_mem enumOrder nBins feature (hdecl _ hmem)

end MD
