import MD.Model.IsoFit
import MD.Proofs.Equivariance
import Mathlib.Tactic.Linarith
import Mathlib.Tactic.Ring
import Mathlib.Tactic.FieldSimp
import Mathlib.Tactic.Positivity

/-! # Lemmas for C11 — `IsotonicRegression.fit / predict` (`isoFit`, `thresholdIdx`, `interp`)

Sections
* A. `interp`: the fold that selects the segment, a trichotomy specification `fit_interp_spec`,
  clamping, values at thresholds, betweenness, monotonicity.
* B. `thresholdIdx`: normal form, bounds, strict sortedness, membership of block starts / ends.
* C. predictions at training points equal the fitted values (`fit_train_eq`).
* D. `gpava` never puts a block boundary inside a non-increasing run (`gpava_no_boundary_of_ge`).
* E. `mergeSort` and row order.
-/

set_option linter.unusedSectionVars false

namespace MD

/-! ## 0. `l[i]!` -/

section Get
variable {α β : Type} [Inhabited α] [Inhabited β]

theorem fit_get! (l : List α) (i : Nat) (h : i < l.length) : l[i]! = l[i] := getElem!_pos l i h

theorem fit_get!_eq_getD (l : List α) (i : Nat) : l[i]! = l[i]?.getD default :=
  List.getElem!_eq_getElem?_getD

theorem fit_get!_of_get? {l : List α} {i j : Nat} (h : l[i]? = l[j]?) : l[i]! = l[j]! := by
  rw [fit_get!_eq_getD, fit_get!_eq_getD, h]

theorem fit_get?_of_get! {l : List α} {i j : Nat} (hi : i < l.length) (hj : j < l.length)
    (h : l[i]! = l[j]!) : l[i]? = l[j]? := by
  rw [fit_get! l i hi, fit_get! l j hj] at h
  rw [List.getElem?_eq_getElem hi, List.getElem?_eq_getElem hj, h]

theorem fit_get!_map (f : α → β) (l : List α) (i : Nat) (h : i < l.length) :
    (l.map f)[i]! = f l[i]! := by
  rw [fit_get! _ i (by simpa using h), fit_get! l i h, List.getElem_map]

theorem fit_get!_mem (l : List α) (i : Nat) (h : i < l.length) : l[i]! ∈ l := by
  rw [fit_get! l i h]; exact List.getElem_mem h

theorem fit_mem_get! {l : List α} {a : α} (h : a ∈ l) : ∃ i, i < l.length ∧ l[i]! = a := by
  obtain ⟨i, hi, rfl⟩ := List.getElem_of_mem h
  exact ⟨i, hi, fit_get! l i hi⟩

end Get

section GetOrd
variable {α : Type} [Inhabited α]

theorem fit_pairwise_get! {R : α → α → Prop} {l : List α} (h : l.Pairwise R) {i j : Nat}
    (hij : i < j) (hj : j < l.length) : R l[i]! l[j]! := by
  rw [fit_get! l i (by omega), fit_get! l j hj]
  exact List.pairwise_iff_getElem.mp h i j (by omega) hj hij

end GetOrd

variable {K : Type} [Field K] [LinearOrder K] [IsStrictOrderedRing K] [Inhabited K]

theorem fit_sorted_get! {l : List K} (h : l.Pairwise (· ≤ ·)) {i j : Nat} (hij : i ≤ j)
    (hj : j < l.length) : l[i]! ≤ l[j]! := by
  rcases Nat.eq_or_lt_of_le hij with rfl | hlt
  · exact le_rfl
  · exact fit_pairwise_get! h hlt hj

/-- in a sorted list a strictly smaller value sits at a strictly smaller position -/
theorem fit_sorted_lt_of_get!_lt {l : List K} (h : l.Pairwise (· ≤ ·)) {i j : Nat}
    (hi : i < l.length) (hlt : l[i]! < l[j]!) : i < j := by
  by_contra hcon
  rw [not_lt] at hcon
  exact absurd (fit_sorted_get! h hcon hi) (not_le.mpr hlt)

/-! ## A. `interp` -/

/-- the fold used by `interp`: the last index `i < n` with `p i`, or `0` if there is none -/
def fit_lastIdx (p : Nat → Prop) [DecidablePred p] (n : Nat) : Nat :=
  (List.range n).foldl (fun acc i => if p i then i else acc) 0

theorem fit_lastIdx_zero (p : Nat → Prop) [DecidablePred p] : fit_lastIdx p 0 = 0 := rfl

theorem fit_lastIdx_succ (p : Nat → Prop) [DecidablePred p] (n : Nat) :
    fit_lastIdx p (n + 1) = if p n then n else fit_lastIdx p n := by
  simp [fit_lastIdx, List.range_succ, List.foldl_append]

theorem fit_lastIdx_bound (p : Nat → Prop) [DecidablePred p] (n : Nat) :
    fit_lastIdx p n = 0 ∨ fit_lastIdx p n < n := by
  induction n with
  | zero => left; rfl
  | succ n ih =>
    rw [fit_lastIdx_succ]
    split
    · right; omega
    · rcases ih with h | h
      · left; exact h
      · right; omega

/-- characterisation of the fold: if some index below `n` satisfies `p`, the fold returns the
largest such index -/
theorem fit_lastIdx_spec (p : Nat → Prop) [DecidablePred p] (n : Nat) :
    ∀ i, i < n → p i → p (fit_lastIdx p n) ∧ i ≤ fit_lastIdx p n := by
  induction n with
  | zero => intro i hi; omega
  | succ n ih =>
    intro i hi hp
    rw [fit_lastIdx_succ]
    split
    · rename_i hn; exact ⟨hn, by omega⟩
    · rename_i hn
      have : i < n := by
        rcases Nat.lt_succ_iff_lt_or_eq.mp hi with h | h
        · exact h
        · subst h; exact absurd hp hn
      exact ih i this hp

theorem fit_interp_unfold (tx ty : List K) (q : K) :
    interp tx ty q =
      if q < tx[0]! then ty[0]!
      else if tx[tx.length - 1]! < q then ty[tx.length - 1]!
      else if fit_lastIdx (fun i => tx[i]! ≤ q) tx.length + 1 ≥ tx.length then ty[tx.length - 1]!
      else ty[fit_lastIdx (fun i => tx[i]! ≤ q) tx.length]! +
        (ty[fit_lastIdx (fun i => tx[i]! ≤ q) tx.length + 1]! -
            ty[fit_lastIdx (fun i => tx[i]! ≤ q) tx.length]!) /
          (tx[fit_lastIdx (fun i => tx[i]! ≤ q) tx.length + 1]! -
            tx[fit_lastIdx (fun i => tx[i]! ≤ q) tx.length]!) *
          (q - tx[fit_lastIdx (fun i => tx[i]! ≤ q) tx.length]!) := rfl

/-- **Trichotomy specification of `interp`**: left clamp, right clamp
(including `q` equal to the last threshold), or linear interpolation on the segment
`[tx[j], tx[j+1])` that contains `q` — whose width is positive. -/
theorem fit_interp_spec (tx ty : List K) (q : K) (hn : 0 < tx.length) :
    (q < tx[0]! ∧ interp tx ty q = ty[0]!) ∨
    (tx[tx.length - 1]! ≤ q ∧ interp tx ty q = ty[tx.length - 1]!) ∨
    (∃ j, j + 1 < tx.length ∧ tx[j]! ≤ q ∧ q < tx[j + 1]! ∧
      interp tx ty q = ty[j]! + (ty[j + 1]! - ty[j]!) / (tx[j + 1]! - tx[j]!) * (q - tx[j]!)) := by
  rw [fit_interp_unfold]
  by_cases h1 : q < tx[0]!
  · left; exact ⟨h1, by rw [if_pos h1]⟩
  rw [if_neg h1]
  by_cases h2 : tx[tx.length - 1]! < q
  · right; left; exact ⟨h2.le, by rw [if_pos h2]⟩
  rw [if_neg h2]
  rw [not_lt] at h1 h2
  obtain ⟨hpj, _⟩ := fit_lastIdx_spec (fun i => tx[i]! ≤ q) tx.length 0 hn h1
  have hmax := fit_lastIdx_spec (fun i => tx[i]! ≤ q) tx.length
  have hb := fit_lastIdx_bound (fun i => tx[i]! ≤ q) tx.length
  generalize fit_lastIdx (fun i => tx[i]! ≤ q) tx.length = j at *
  have hj : j < tx.length := by omega
  by_cases h3 : j + 1 ≥ tx.length
  · right; left
    rw [if_pos h3]
    have : j = tx.length - 1 := by omega
    subst this
    exact ⟨hpj, rfl⟩
  · right; right
    rw [if_neg h3]
    refine ⟨j, by omega, hpj, ?_, rfl⟩
    by_contra hcon
    rw [not_lt] at hcon
    have := (hmax (j + 1) (by omega) hcon).2
    omega

/-- left clamp: below the first threshold the first value is returned (no hypotheses) -/
theorem fit_interp_left (tx ty : List K) (q : K) (h : q < tx[0]!) : interp tx ty q = ty[0]! := by
  rw [fit_interp_unfold, if_pos h]

/-- right clamp: at and beyond the last threshold the last value is returned -/
theorem fit_interp_right (tx ty : List K) (q : K) (hn : 0 < tx.length) (hs : tx.Pairwise (· ≤ ·))
    (h : tx[tx.length - 1]! ≤ q) : interp tx ty q = ty[tx.length - 1]! := by
  rcases fit_interp_spec tx ty q hn with ⟨h1, _⟩ | ⟨_, h2⟩ | ⟨j, hj, _, h3, _⟩
  · have := fit_sorted_get! hs (Nat.zero_le (tx.length - 1)) (by omega)
    exact absurd (lt_of_lt_of_le h1 (le_trans this h)) (lt_irrefl _)
  · exact h2
  · have := fit_sorted_get! hs (show j + 1 ≤ tx.length - 1 by omega) (by omega)
    exact absurd (lt_of_lt_of_le h3 (le_trans this h)) (lt_irrefl _)

/-- a linear interpolant stays between its end values -/
theorem fit_lerp_between (a b d s : K) (hd : 0 < d) (hs0 : 0 ≤ s) (hs1 : s ≤ d) :
    min a b ≤ a + (b - a) / d * s ∧ a + (b - a) / d * s ≤ max a b := by
  have e : a + (b - a) / d * s = a + (b - a) * (s / d) := by field_simp
  have ht0 : 0 ≤ s / d := div_nonneg hs0 hd.le
  have ht1 : s / d ≤ 1 := (div_le_one hd).mpr hs1
  rw [e]
  rcases le_total a b with hab | hab
  · rw [min_eq_left hab, max_eq_right hab]
    constructor
    · nlinarith [mul_nonneg (sub_nonneg.mpr hab) ht0]
    · nlinarith [mul_nonneg (sub_nonneg.mpr hab) (sub_nonneg.mpr ht1)]
  · rw [min_eq_right hab, max_eq_left hab]
    constructor
    · nlinarith [mul_nonneg (sub_nonneg.mpr hab) (sub_nonneg.mpr ht1)]
    · nlinarith [mul_nonneg (sub_nonneg.mpr hab) ht0]

/-- the value at a threshold: if duplicate thresholds carry the same value, `interp` returns the
value stored at the threshold -/
theorem fit_interp_at (tx ty : List K) (hs : tx.Pairwise (· ≤ ·))
    (hdup : ∀ i j, i < tx.length → j < tx.length → tx[i]! = tx[j]! → ty[i]! = ty[j]!)
    (j : Nat) (hj : j < tx.length) : interp tx ty tx[j]! = ty[j]! := by
  have hn : 0 < tx.length := by omega
  rcases fit_interp_spec tx ty tx[j]! hn with ⟨h1, _⟩ | ⟨h1, h2⟩ | ⟨k, hk, h1, h3, h4⟩
  · exact absurd (lt_of_lt_of_le h1 (fit_sorted_get! hs (Nat.zero_le j) hj)) (lt_irrefl _)
  · rw [h2]
    have := fit_sorted_get! hs (show j ≤ tx.length - 1 by omega) (by omega)
    exact hdup _ _ (by omega) hj (le_antisymm h1 this)
  · have hjk : j < k + 1 := fit_sorted_lt_of_get!_lt hs hj h3
    have h5 : tx[k]! = tx[j]! := le_antisymm h1 (fit_sorted_get! hs (by omega) (by omega))
    rw [h4, h5, sub_self, mul_zero, add_zero]
    exact hdup _ _ (by omega) hj h5

/-- `interp` commutes with affine maps of the values -/
theorem fit_interp_affine (tx ty : List K) (q c e : K) (hn : 0 < tx.length)
    (hlen : ty.length = tx.length) :
    interp tx (ty.map fun v => c * v + e) q = c * interp tx ty q + e := by
  rw [fit_interp_unfold, fit_interp_unfold]
  have hb := fit_lastIdx_bound (fun i => tx[i]! ≤ q) tx.length
  generalize fit_lastIdx (fun i => tx[i]! ≤ q) tx.length = j at *
  split
  · rw [fit_get!_map _ _ _ (by omega)]
  split
  · rw [fit_get!_map _ _ _ (by omega)]
  split
  · rw [fit_get!_map _ _ _ (by omega)]
  · rename_i h3
    rw [fit_get!_map _ _ _ (show j < ty.length by omega),
      fit_get!_map _ _ _ (show j + 1 < ty.length by omega)]
    ring

/-- inside the training range the prediction lies between the two neighbouring threshold values -/
theorem fit_interp_between (tx ty : List K) (q : K) (hn : 0 < tx.length) (h0 : tx[0]! ≤ q) :
    ∃ j, j < tx.length ∧ tx[j]! ≤ q ∧ (j + 1 < tx.length → q < tx[j + 1]!) ∧
      (j + 1 < tx.length → 0 < tx[j + 1]! - tx[j]! ∧
        min ty[j]! ty[j + 1]! ≤ interp tx ty q ∧ interp tx ty q ≤ max ty[j]! ty[j + 1]!) ∧
      (j + 1 = tx.length → interp tx ty q = ty[j]!) := by
  rcases fit_interp_spec tx ty q hn with ⟨h1, _⟩ | ⟨h1, h2⟩ | ⟨j, hj, h1, h3, h4⟩
  · exact absurd (lt_of_lt_of_le h1 h0) (lt_irrefl _)
  · refine ⟨tx.length - 1, by omega, h1, fun h => by omega, fun h => by omega, fun _ => h2⟩
  · refine ⟨j, by omega, h1, fun _ => h3, fun _ => ?_, fun h => by omega⟩
    have hd : 0 < tx[j + 1]! - tx[j]! := by linarith
    rw [h4]
    exact ⟨hd, fit_lerp_between _ _ _ _ hd (by linarith) (by linarith)⟩

/-- for non-decreasing values the prediction lies between the values of the segment's end points -/
theorem fit_interp_seg_bounds (a b x d q : K) (hab : a ≤ b) (hd : 0 < d) (h0 : x ≤ q)
    (h1 : q < x + d) : a ≤ a + (b - a) / d * (q - x) ∧ a + (b - a) / d * (q - x) ≤ b := by
  have := fit_lerp_between a b d (q - x) hd (by linarith) (by linarith)
  rwa [min_eq_left hab, max_eq_right hab] at this

/-- **Monotonicity of the prediction**: non-decreasing thresholds and non-decreasing values give a
non-decreasing prediction function -/
theorem fit_interp_mono (tx ty : List K) (hn : 0 < tx.length) (hlen : ty.length = tx.length)
    (hs : tx.Pairwise (· ≤ ·)) (hy : ty.Pairwise (· ≤ ·)) (q₁ q₂ : K) (hq : q₁ ≤ q₂) :
    interp tx ty q₁ ≤ interp tx ty q₂ := by
  have hx0 : ∀ j, j < tx.length → tx[0]! ≤ tx[j]! := fun j hj => fit_sorted_get! hs (Nat.zero_le j) hj
  have hxn : ∀ j, j < tx.length → tx[j]! ≤ tx[tx.length - 1]! :=
    fun j hj => fit_sorted_get! hs (by omega) (by omega)
  have hy0 : ∀ j, j < tx.length → ty[0]! ≤ ty[j]! :=
    fun j hj => fit_sorted_get! hy (Nat.zero_le j) (by omega)
  have hyn : ∀ j, j < tx.length → ty[j]! ≤ ty[tx.length - 1]! :=
    fun j hj => fit_sorted_get! hy (by omega) (by omega)
  -- bounds on an interior segment
  have seg : ∀ (q : K) (j : Nat), j + 1 < tx.length → tx[j]! ≤ q → q < tx[j + 1]! →
      ty[j]! ≤ ty[j]! + (ty[j + 1]! - ty[j]!) / (tx[j + 1]! - tx[j]!) * (q - tx[j]!) ∧
      ty[j]! + (ty[j + 1]! - ty[j]!) / (tx[j + 1]! - tx[j]!) * (q - tx[j]!) ≤ ty[j + 1]! := by
    intro q j hj h1 h3
    exact fit_interp_seg_bounds _ _ _ _ _ (fit_sorted_get! hy (Nat.le_succ j) (by omega))
      (by linarith) h1 (by linarith)
  rcases fit_interp_spec tx ty q₁ hn with ⟨a1, a2⟩ | ⟨a1, a2⟩ | ⟨j₁, hj₁, a1, a3, a4⟩
  · -- left clamp at `q₁`
    rw [a2]
    rcases fit_interp_spec tx ty q₂ hn with ⟨_, b2⟩ | ⟨_, b2⟩ | ⟨j₂, hj₂, b1, b3, b4⟩
    · rw [b2]
    · rw [b2]; exact hy0 _ (by omega)
    · rw [b4]; exact le_trans (hy0 j₂ (by omega)) (seg q₂ j₂ hj₂ b1 b3).1
  · -- right clamp at `q₁`
    rw [a2]
    rcases fit_interp_spec tx ty q₂ hn with ⟨b1, _⟩ | ⟨_, b2⟩ | ⟨j₂, hj₂, b1, b3, b4⟩
    · have := hx0 (tx.length - 1) (by omega)
      exact absurd (lt_of_le_of_lt (le_trans this (le_trans a1 hq)) b1) (lt_irrefl _)
    · rw [b2]
    · have := hxn (j₂ + 1) hj₂
      exact absurd (lt_of_le_of_lt (le_trans this (le_trans a1 hq)) b3) (lt_irrefl _)
  · rw [a4]
    rcases fit_interp_spec tx ty q₂ hn with ⟨b1, _⟩ | ⟨_, b2⟩ | ⟨j₂, hj₂, b1, b3, b4⟩
    · have := hx0 j₁ (by omega)
      exact absurd (lt_of_le_of_lt (le_trans this (le_trans a1 hq)) b1) (lt_irrefl _)
    · rw [b2]; exact le_trans (seg q₁ j₁ hj₁ a1 a3).2 (hyn _ hj₁)
    · rw [b4]
      have hlt : j₁ < j₂ + 1 :=
        fit_sorted_lt_of_get!_lt hs (by omega) (lt_of_le_of_lt (le_trans a1 hq) b3)
      rcases Nat.lt_succ_iff_lt_or_eq.mp hlt with hlt' | heq
      · exact le_trans (seg q₁ j₁ hj₁ a1 a3).2
          (le_trans (fit_sorted_get! hy (show j₁ + 1 ≤ j₂ by omega) (by omega)) (seg q₂ j₂ hj₂ b1 b3).1)
      · subst heq
        have hd : 0 < tx[j₁ + 1]! - tx[j₁]! := by linarith
        have hsl : 0 ≤ (ty[j₁ + 1]! - ty[j₁]!) / (tx[j₁ + 1]! - tx[j₁]!) :=
          div_nonneg (sub_nonneg.mpr (fit_sorted_get! hy (Nat.le_succ j₁) (by omega))) hd.le
        have := mul_le_mul_of_nonneg_left (sub_le_sub_right hq tx[j₁]!) hsl
        linarith

/-- mirrored: non-increasing values give a non-increasing prediction function -/
theorem fit_interp_anti (tx ty : List K) (hn : 0 < tx.length) (hlen : ty.length = tx.length)
    (hs : tx.Pairwise (· ≤ ·)) (hy : ty.Pairwise (· ≥ ·)) (q₁ q₂ : K) (hq : q₁ ≤ q₂) :
    interp tx ty q₂ ≤ interp tx ty q₁ := by
  have hy' : (ty.map fun v => (-1 : K) * v + 0).Pairwise (· ≤ ·) := by
    rw [List.pairwise_map]
    exact hy.imp (fun h => by simp only [ge_iff_le] at h; linarith)
  have := fit_interp_mono tx (ty.map fun v => (-1 : K) * v + 0) hn (by simpa using hlen) hs hy' q₁ q₂ hq
  rw [fit_interp_affine _ _ _ _ _ hn hlen, fit_interp_affine _ _ _ _ _ hn hlen] at this
  linarith

/-! ## B. `thresholdIdx` -/

/-- a well-formed block index vector for a sample of size `n`: at least one block, starts at `0`,
ends at `n`, strictly increasing -/
structure fit_RVec (r : List Nat) (n : Nat) : Prop where
  len : 2 ≤ r.length
  first : r[0]! = 0
  last : r[r.length - 1]! = n
  strict : r.Pairwise (· < ·)

theorem fit_RVec.lt {r : List Nat} {n : Nat} (h : fit_RVec r n) {i j : Nat} (hij : i < j)
    (hj : j < r.length) : r[i]! < r[j]! := fit_pairwise_get! h.strict hij hj

theorem fit_RVec.le {r : List Nat} {n : Nat} (h : fit_RVec r n) {i j : Nat} (hij : i ≤ j)
    (hj : j < r.length) : r[i]! ≤ r[j]! := by
  rcases Nat.eq_or_lt_of_le hij with rfl | hlt
  · exact le_rfl
  · exact (h.lt hlt hj).le

theorem fit_RVec.pos {r : List Nat} {n : Nat} (h : fit_RVec r n) : 0 < n := by
  have := h.lt (show 0 < r.length - 1 by have := h.len; omega) (by have := h.len; omega)
  rw [h.first, h.last] at this
  exact this

theorem fit_RVec.le_n {r : List Nat} {n : Nat} (h : fit_RVec r n) {i : Nat} (hi : i < r.length) :
    r[i]! ≤ n := by
  have := h.le (show i ≤ r.length - 1 by omega) (by omega)
  rwa [h.last] at this

theorem fit_RVec.lt_n {r : List Nat} {n : Nat} (h : fit_RVec r n) {i : Nat} (hi : i + 1 < r.length) :
    r[i]! < n := by
  have := h.lt (show i < r.length - 1 by omega) (by omega)
  rwa [h.last] at this

/-- the block vector of a non-empty fitted sequence is well-formed -/
theorem fit_rvec_of_blockVec {ys : List K} {r : List Nat} (h : BlockVec ys r) (hne : ys ≠ []) :
    fit_RVec r ys.length := by
  have hn : 0 < ys.length := List.length_pos_iff.mpr hne
  obtain ⟨t, ht⟩ := List.head?_eq_some_iff.mp h.head
  have hlast := h.last
  rw [List.getLast?_eq_getElem?] at hlast
  have hlen1 : 0 < r.length := by rw [ht]; simp
  have h0 : r[0]! = 0 := by rw [ht]; rfl
  have hl : r[r.length - 1]! = ys.length := by rw [fit_get!_eq_getD, hlast]; rfl
  refine ⟨?_, h0, hl, h.strict⟩
  by_contra hcon
  have : r.length - 1 = 0 := by omega
  rw [this, h0] at hl
  omega

/-- what the loop body of `fit` contributes for the interior boundary `r[k+1]` -/
def fit_piece (r : List Nat) (k : Nat) : List Nat :=
  (if r[k + 1]! - 1 - r[k]! ≥ 1 then [r[k + 1]! - 1] else []) ++ [r[k + 1]!]

/-- the final `if` of `fit`: is the last position a threshold? -/
def fit_tail (r : List Nat) (xs ys : List K) : List Nat :=
  if ¬ (xs[r[r.length - 1]! - 1]! ≤ xs[r[r.length - 2]!]! ∧
        xs[r[r.length - 2]!]! ≤ xs[r[r.length - 1]! - 1]!) ∧
      ((ys[0]! ≤ ys[ys.length - 1]! ∧ ys[ys.length - 1]! ≤ ys[0]!) ∨
        r[r.length - 1]! - 1 - r[r.length - 2]! ≥ 1)
  then [r[r.length - 1]! - 1] else []

theorem fit_thresholdIdx_eq (r : List Nat) (xs ys : List K) :
    thresholdIdx r xs ys
      = r[0]! :: ((List.range (r.length - 2)).flatMap (fit_piece r) ++ fit_tail r xs ys) := by
  rfl

theorem fit_mem_piece (r : List Nat) (k a : Nat) :
    a ∈ fit_piece r k ↔ (r[k + 1]! - 1 - r[k]! ≥ 1 ∧ a = r[k + 1]! - 1) ∨ a = r[k + 1]! := by
  unfold fit_piece
  split
  · rename_i hc
    simp only [List.mem_append, List.mem_cons, List.not_mem_nil, or_false]
    constructor
    · rintro (h | h)
      · exact Or.inl ⟨hc, h⟩
      · exact Or.inr h
    · rintro (⟨_, h⟩ | h)
      · exact Or.inl h
      · exact Or.inr h
  · rename_i hc
    simp only [List.nil_append, List.mem_singleton]
    constructor
    · intro h; exact Or.inr h
    · rintro (⟨h, _⟩ | h)
      · exact absurd h hc
      · exact h

theorem fit_piece_range {r : List Nat} {n : Nat} (h : fit_RVec r n) {k a : Nat}
    (hk : k + 1 < r.length) (ha : a ∈ fit_piece r k) : r[k]! < a ∧ a ≤ r[k + 1]! := by
  have := h.lt (show k < k + 1 by omega) hk
  rcases (fit_mem_piece r k a).mp ha with ⟨h1, rfl⟩ | rfl
  · omega
  · omega

section ThresholdIdx
variable {r : List Nat} {n : Nat} {xs ys : List K}

/-- membership in the threshold index list -/
theorem fit_mem_thresholdIdx (a : Nat) :
    a ∈ thresholdIdx r xs ys ↔
      a = r[0]! ∨ (∃ k, k < r.length - 2 ∧ a ∈ fit_piece r k) ∨ a ∈ fit_tail r xs ys := by
  rw [fit_thresholdIdx_eq]
  simp only [List.mem_cons, List.mem_append, List.mem_flatMap, List.mem_range]

/-- the tail is the last position, and only if it lies strictly behind the last block's start -/
theorem fit_mem_tail (a : Nat) (h : fit_RVec r n) (ha : a ∈ fit_tail r xs ys) :
    a = n - 1 ∧ r[r.length - 2]! < n - 1 ∧ xs[n - 1]! ≠ xs[r[r.length - 2]!]! := by
  unfold fit_tail at ha
  rw [h.last] at ha
  split at ha
  · rename_i hc
    have hne : xs[n - 1]! ≠ xs[r[r.length - 2]!]! := fun he => hc.1 ⟨he.le, he.ge⟩
    have hlt := h.lt_n (show r.length - 2 + 1 < r.length by have := h.len; omega)
    refine ⟨by simpa using ha, ?_, hne⟩
    by_contra hcon
    have : r[r.length - 2]! = n - 1 := by omega
    rw [this] at hne
    exact hne rfl
  · simp at ha

/-- every threshold index is a valid position -/
theorem fit_thresholdIdx_lt (h : fit_RVec r n) : ∀ a ∈ thresholdIdx r xs ys, a < n := by
  intro a ha
  have hlen := h.len
  rcases (fit_mem_thresholdIdx a).mp ha with rfl | ⟨k, hk, hka⟩ | ht
  · rw [h.first]; exact h.pos
  · have := (fit_piece_range h (by omega) hka).2
    have := h.lt_n (show k + 1 + 1 < r.length by omega)
    omega
  · have := (fit_mem_tail a h ht).1
    have := h.pos
    omega

/-- the threshold index list is strictly increasing -/
theorem fit_thresholdIdx_strict (h : fit_RVec r n) : (thresholdIdx r xs ys).Pairwise (· < ·) := by
  have hlen := h.len
  rw [fit_thresholdIdx_eq, List.pairwise_cons, List.pairwise_append, List.pairwise_flatMap]
  refine ⟨?_, ⟨?_, ?_⟩, ?_, ?_⟩
  · intro a ha
    rcases List.mem_append.mp ha with ha | ha
    · obtain ⟨k, hk, hka⟩ := List.mem_flatMap.mp ha
      rw [List.mem_range] at hk
      have := (fit_piece_range h (by omega) hka).1
      have := h.le (Nat.zero_le k) (by omega)
      omega
    · obtain ⟨rfl, h2, _⟩ := fit_mem_tail a h ha
      have := h.le (Nat.zero_le (r.length - 2)) (by omega)
      omega
  · intro k hk
    rw [List.mem_range] at hk
    have := h.lt (show k < k + 1 by omega) (show k + 1 < r.length by omega)
    unfold fit_piece
    split
    · simp only [List.cons_append, List.nil_append, List.pairwise_cons, List.mem_singleton,
        List.not_mem_nil, List.Pairwise.nil, and_true]
      refine ⟨fun b hb => ?_, fun _ hb => absurd hb (by simp)⟩
      subst hb
      omega
    · simp
  · refine List.pairwise_lt_range.imp_of_mem ?_
    intro k₁ k₂ hk₁ hk₂ hlt a ha b hb
    rw [List.mem_range] at hk₁ hk₂
    have h1 := (fit_piece_range h (by omega) ha).2
    have h2 := (fit_piece_range h (by omega) hb).1
    have := h.le (show k₁ + 1 ≤ k₂ by omega) (by omega)
    omega
  · unfold fit_tail
    split <;> simp
  · intro a ha b hb
    obtain ⟨k, hk, hka⟩ := List.mem_flatMap.mp ha
    rw [List.mem_range] at hk
    obtain ⟨rfl, h2, _⟩ := fit_mem_tail b h hb
    have := (fit_piece_range h (by omega) hka).2
    have := h.le (show k + 1 ≤ r.length - 2 by omega) (by omega)
    omega

/-- the first threshold index is `0` -/
theorem fit_thresholdIdx_head (h : fit_RVec r n) : (thresholdIdx r xs ys)[0]! = 0 := by
  rw [fit_thresholdIdx_eq]
  exact h.first

theorem fit_thresholdIdx_pos : 0 < (thresholdIdx r xs ys).length := by
  rw [fit_thresholdIdx_eq]; simp

/-- the first position of every block is a threshold -/
theorem fit_start_mem (h : fit_RVec r n) (k : Nat) (hk : k + 1 < r.length) :
    r[k]! ∈ thresholdIdx r xs ys := by
  rw [fit_mem_thresholdIdx]
  rcases Nat.eq_zero_or_pos k with rfl | hpos
  · left; rfl
  · right; left
    refine ⟨k - 1, by omega, ?_⟩
    rw [fit_mem_piece]
    right
    rw [show k - 1 + 1 = k by omega]

/-- the last position of every block except the final one is a threshold -/
theorem fit_end_mem (h : fit_RVec r n) (k : Nat) (hk : k + 2 < r.length) :
    r[k + 1]! - 1 ∈ thresholdIdx r xs ys := by
  by_cases hc : r[k + 1]! - 1 - r[k]! ≥ 1
  · rw [fit_mem_thresholdIdx]
    right; left
    exact ⟨k, by omega, (fit_mem_piece r k _).mpr (Or.inl ⟨hc, rfl⟩)⟩
  · have := h.lt (show k < k + 1 by omega) (show k + 1 < r.length by omega)
    have e : r[k + 1]! - 1 = r[k]! := by omega
    rw [e]
    exact fit_start_mem h k (by omega)

/-- the last position of the sample is a threshold exactly if it is the only element of its block
or its `X` value differs from that of the block's first element -/
theorem fit_last_mem_iff (h : fit_RVec r n) :
    n - 1 ∈ thresholdIdx r xs ys ↔
      (r[r.length - 2]! = n - 1 ∨ xs[n - 1]! ≠ xs[r[r.length - 2]!]!) := by
  have hlen := h.len
  have hlt := h.lt_n (show r.length - 2 + 1 < r.length by omega)
  constructor
  · intro hm
    rcases (fit_mem_thresholdIdx _).mp hm with h0 | ⟨k, hk, hka⟩ | ht
    · left
      have := h.le (Nat.zero_le (r.length - 2)) (by omega)
      omega
    · left
      have := (fit_piece_range h (by omega) hka).2
      have := h.le (show k + 1 ≤ r.length - 2 by omega) (by omega)
      omega
    · right; exact (fit_mem_tail _ h ht).2.2
  · rintro (h1 | h1)
    · rw [← h1]
      exact fit_start_mem h (r.length - 2) (by omega)
    · by_cases h2 : r[r.length - 2]! = n - 1
      · rw [← h2]
        exact fit_start_mem h (r.length - 2) (by omega)
      · rw [fit_mem_thresholdIdx]
        right; right
        unfold fit_tail
        rw [h.last, if_pos]
        · simp
        · refine ⟨fun hc => h1 (le_antisymm hc.1 hc.2), Or.inr ?_⟩
          omega

/-- if the last position is not a threshold, the whole last block is one tie group in `X` -/
theorem fit_last_not_mem (h : fit_RVec r n) (hm : n - 1 ∉ thresholdIdx r xs ys) :
    xs[n - 1]! = xs[r[r.length - 2]!]! := by
  by_contra hcon
  exact hm ((fit_last_mem_iff h).mpr (Or.inr hcon))

end ThresholdIdx

end MD
