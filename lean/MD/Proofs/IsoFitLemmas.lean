import MD.Model.IsoFit
import MD.Proofs.Equivariance
import Mathlib.Tactic.Linarith
import Mathlib.Tactic.Ring
import Mathlib.Tactic.FieldSimp
import Mathlib.Tactic.Positivity

/-! # Lemmas for C11 — `IsotonicRegression.fit / predict` (`isoFit`, `thresholdIdx`, `interp`)

Sections
* A. `interp`: the fold that selects the segment, a trichotomy specification `fit_interp_spec`,
  clamping, values at thresholds, betweenness, monotonicity.
* B. `thresholdIdx`: normal form, bounds, strict sortedness, membership of block starts / ends.
* C. predictions at training points equal the fitted values (`fit_train_eq`).
* D. `gpava` never puts a block boundary inside a non-increasing run (`gpava_no_boundary_of_ge`),
  lifted to `eqFit` / `isoReg` for every functional (`fit_isoReg_run_const`).
* E. the sort key `rowLe`, `mergeSort`, tie groups are runs, inversion of a successful `isoFit`,
  `fit_ties_one_block`.
* F. the record `fit_Fitted` and the prediction theorems for `isoFit`.
* G. row order (sorted sample is permutation invariant when duplicate `(X, y)` rows agree in weight).
* H. training points in the original order; optimality among functions of `X`.
* I. row order in general (conflicting weights on duplicate `(X, y)` rows) via uniqueness of the
  minimiser.
-/

set_option linter.unusedSectionVars false

namespace MD

/-! ## 0. `l[i]!` -/

section Get
variable {α β : Type} [Inhabited α] [Inhabited β]

theorem fit_get! (l : List α) (i : Nat) (h : i < l.length) : l[i]! = l[i] := getElem!_pos l i h

theorem fit_get!_eq_getD (l : List α) (i : Nat) : l[i]! = l[i]?.getD default :=
  List.getElem!_eq_getElem?_getD

theorem fit_get!_of_get? {l : List α} {i j : Nat} (h : l[i]? = l[j]?) : l[i]! = l[j]! := by
  rw [fit_get!_eq_getD, fit_get!_eq_getD, h]

theorem fit_get?_of_get! {l : List α} {i j : Nat} (hi : i < l.length) (hj : j < l.length)
    (h : l[i]! = l[j]!) : l[i]? = l[j]? := by
  rw [fit_get! l i hi, fit_get! l j hj] at h
  rw [List.getElem?_eq_getElem hi, List.getElem?_eq_getElem hj, h]

theorem fit_get!_map (f : α → β) (l : List α) (i : Nat) (h : i < l.length) :
    (l.map f)[i]! = f l[i]! := by
  rw [fit_get! _ i (by simpa using h), fit_get! l i h, List.getElem_map]

theorem fit_get!_mem (l : List α) (i : Nat) (h : i < l.length) : l[i]! ∈ l := by
  rw [fit_get! l i h]; exact List.getElem_mem h

theorem fit_mem_get! {l : List α} {a : α} (h : a ∈ l) : ∃ i, i < l.length ∧ l[i]! = a := by
  obtain ⟨i, hi, rfl⟩ := List.getElem_of_mem h
  exact ⟨i, hi, fit_get! l i hi⟩

end Get

section GetOrd
variable {α : Type} [Inhabited α]

theorem fit_pairwise_get! {R : α → α → Prop} {l : List α} (h : l.Pairwise R) {i j : Nat}
    (hij : i < j) (hj : j < l.length) : R l[i]! l[j]! := by
  rw [fit_get! l i (by omega), fit_get! l j hj]
  exact List.pairwise_iff_getElem.mp h i j (by omega) hj hij

end GetOrd

variable {K : Type} [Field K] [LinearOrder K] [IsStrictOrderedRing K] [Inhabited K]

theorem fit_sorted_get! {l : List K} (h : l.Pairwise (· ≤ ·)) {i j : Nat} (hij : i ≤ j)
    (hj : j < l.length) : l[i]! ≤ l[j]! := by
  rcases Nat.eq_or_lt_of_le hij with rfl | hlt
  · exact le_rfl
  · exact fit_pairwise_get! h hlt hj

/-- in a sorted list a strictly smaller value sits at a strictly smaller position -/
theorem fit_sorted_lt_of_get!_lt {l : List K} (h : l.Pairwise (· ≤ ·)) {i j : Nat}
    (hi : i < l.length) (hlt : l[i]! < l[j]!) : i < j := by
  by_contra hcon
  rw [not_lt] at hcon
  exact absurd (fit_sorted_get! h hcon hi) (not_le.mpr hlt)

/-! ## A. `interp` -/

/-- the fold used by `interp`: the last index `i < n` with `p i`, or `0` if there is none -/
def fit_lastIdx (p : Nat → Prop) [DecidablePred p] (n : Nat) : Nat :=
  (List.range n).foldl (fun acc i => if p i then i else acc) 0

theorem fit_lastIdx_zero (p : Nat → Prop) [DecidablePred p] : fit_lastIdx p 0 = 0 := rfl

theorem fit_lastIdx_succ (p : Nat → Prop) [DecidablePred p] (n : Nat) :
    fit_lastIdx p (n + 1) = if p n then n else fit_lastIdx p n := by
  simp [fit_lastIdx, List.range_succ, List.foldl_append]

theorem fit_lastIdx_bound (p : Nat → Prop) [DecidablePred p] (n : Nat) :
    fit_lastIdx p n = 0 ∨ fit_lastIdx p n < n := by
  induction n with
  | zero => left; rfl
  | succ n ih =>
    rw [fit_lastIdx_succ]
    split
    · right; omega
    · rcases ih with h | h
      · left; exact h
      · right; omega

/-- characterisation of the fold: if some index below `n` satisfies `p`, the fold returns the
largest such index -/
theorem fit_lastIdx_spec (p : Nat → Prop) [DecidablePred p] (n : Nat) :
    ∀ i, i < n → p i → p (fit_lastIdx p n) ∧ i ≤ fit_lastIdx p n := by
  induction n with
  | zero => intro i hi; omega
  | succ n ih =>
    intro i hi hp
    rw [fit_lastIdx_succ]
    split
    · rename_i hn; exact ⟨hn, by omega⟩
    · rename_i hn
      have : i < n := by
        rcases Nat.lt_succ_iff_lt_or_eq.mp hi with h | h
        · exact h
        · subst h; exact absurd hp hn
      exact ih i this hp

theorem fit_interp_unfold (tx ty : List K) (q : K) :
    interp tx ty q =
      if q < tx[0]! then ty[0]!
      else if tx[tx.length - 1]! < q then ty[tx.length - 1]!
      else if fit_lastIdx (fun i => tx[i]! ≤ q) tx.length + 1 ≥ tx.length then ty[tx.length - 1]!
      else ty[fit_lastIdx (fun i => tx[i]! ≤ q) tx.length]! +
        (ty[fit_lastIdx (fun i => tx[i]! ≤ q) tx.length + 1]! -
            ty[fit_lastIdx (fun i => tx[i]! ≤ q) tx.length]!) /
          (tx[fit_lastIdx (fun i => tx[i]! ≤ q) tx.length + 1]! -
            tx[fit_lastIdx (fun i => tx[i]! ≤ q) tx.length]!) *
          (q - tx[fit_lastIdx (fun i => tx[i]! ≤ q) tx.length]!) := rfl

/-- **Trichotomy specification of `interp`**: left clamp, right clamp
(including `q` equal to the last threshold), or linear interpolation on the segment
`[tx[j], tx[j+1])` that contains `q` — whose width is positive. -/
theorem fit_interp_spec (tx ty : List K) (q : K) (hn : 0 < tx.length) :
    (q < tx[0]! ∧ interp tx ty q = ty[0]!) ∨
    (tx[tx.length - 1]! ≤ q ∧ interp tx ty q = ty[tx.length - 1]!) ∨
    (∃ j, j + 1 < tx.length ∧ tx[j]! ≤ q ∧ q < tx[j + 1]! ∧
      interp tx ty q = ty[j]! + (ty[j + 1]! - ty[j]!) / (tx[j + 1]! - tx[j]!) * (q - tx[j]!)) := by
  rw [fit_interp_unfold]
  by_cases h1 : q < tx[0]!
  · left; exact ⟨h1, by rw [if_pos h1]⟩
  rw [if_neg h1]
  by_cases h2 : tx[tx.length - 1]! < q
  · right; left; exact ⟨h2.le, by rw [if_pos h2]⟩
  rw [if_neg h2]
  rw [not_lt] at h1 h2
  obtain ⟨hpj, _⟩ := fit_lastIdx_spec (fun i => tx[i]! ≤ q) tx.length 0 hn h1
  have hmax := fit_lastIdx_spec (fun i => tx[i]! ≤ q) tx.length
  have hb := fit_lastIdx_bound (fun i => tx[i]! ≤ q) tx.length
  generalize fit_lastIdx (fun i => tx[i]! ≤ q) tx.length = j at *
  have hj : j < tx.length := by omega
  by_cases h3 : j + 1 ≥ tx.length
  · right; left
    rw [if_pos h3]
    have : j = tx.length - 1 := by omega
    subst this
    exact ⟨hpj, rfl⟩
  · right; right
    rw [if_neg h3]
    refine ⟨j, by omega, hpj, ?_, rfl⟩
    by_contra hcon
    rw [not_lt] at hcon
    have := (hmax (j + 1) (by omega) hcon).2
    omega

/-- left clamp: below the first threshold the first value is returned (no hypotheses) -/
theorem fit_interp_left (tx ty : List K) (q : K) (h : q < tx[0]!) : interp tx ty q = ty[0]! := by
  rw [fit_interp_unfold, if_pos h]

/-- right clamp: at and beyond the last threshold the last value is returned -/
theorem fit_interp_right (tx ty : List K) (q : K) (hn : 0 < tx.length) (hs : tx.Pairwise (· ≤ ·))
    (h : tx[tx.length - 1]! ≤ q) : interp tx ty q = ty[tx.length - 1]! := by
  rcases fit_interp_spec tx ty q hn with ⟨h1, _⟩ | ⟨_, h2⟩ | ⟨j, hj, _, h3, _⟩
  · have := fit_sorted_get! hs (Nat.zero_le (tx.length - 1)) (by omega)
    exact absurd (lt_of_lt_of_le h1 (le_trans this h)) (lt_irrefl _)
  · exact h2
  · have := fit_sorted_get! hs (show j + 1 ≤ tx.length - 1 by omega) (by omega)
    exact absurd (lt_of_lt_of_le h3 (le_trans this h)) (lt_irrefl _)

/-- a linear interpolant stays between its end values -/
theorem fit_lerp_between (a b d s : K) (hd : 0 < d) (hs0 : 0 ≤ s) (hs1 : s ≤ d) :
    min a b ≤ a + (b - a) / d * s ∧ a + (b - a) / d * s ≤ max a b := by
  have e : a + (b - a) / d * s = a + (b - a) * (s / d) := by field_simp
  have ht0 : 0 ≤ s / d := div_nonneg hs0 hd.le
  have ht1 : s / d ≤ 1 := (div_le_one hd).mpr hs1
  rw [e]
  rcases le_total a b with hab | hab
  · rw [min_eq_left hab, max_eq_right hab]
    constructor
    · nlinarith [mul_nonneg (sub_nonneg.mpr hab) ht0]
    · nlinarith [mul_nonneg (sub_nonneg.mpr hab) (sub_nonneg.mpr ht1)]
  · rw [min_eq_right hab, max_eq_left hab]
    constructor
    · nlinarith [mul_nonneg (sub_nonneg.mpr hab) (sub_nonneg.mpr ht1)]
    · nlinarith [mul_nonneg (sub_nonneg.mpr hab) ht0]

/-- the value at a threshold: if duplicate thresholds carry the same value, `interp` returns the
value stored at the threshold -/
theorem fit_interp_at (tx ty : List K) (hs : tx.Pairwise (· ≤ ·))
    (hdup : ∀ i j, i < tx.length → j < tx.length → tx[i]! = tx[j]! → ty[i]! = ty[j]!)
    (j : Nat) (hj : j < tx.length) : interp tx ty tx[j]! = ty[j]! := by
  have hn : 0 < tx.length := by omega
  rcases fit_interp_spec tx ty tx[j]! hn with ⟨h1, _⟩ | ⟨h1, h2⟩ | ⟨k, hk, h1, h3, h4⟩
  · exact absurd (lt_of_lt_of_le h1 (fit_sorted_get! hs (Nat.zero_le j) hj)) (lt_irrefl _)
  · rw [h2]
    have := fit_sorted_get! hs (show j ≤ tx.length - 1 by omega) (by omega)
    exact hdup _ _ (by omega) hj (le_antisymm h1 this)
  · have hjk : j < k + 1 := fit_sorted_lt_of_get!_lt hs hj h3
    have h5 : tx[k]! = tx[j]! := le_antisymm h1 (fit_sorted_get! hs (by omega) (by omega))
    rw [h4, h5, sub_self, mul_zero, add_zero]
    exact hdup _ _ (by omega) hj h5

/-- `interp` commutes with affine maps of the values -/
theorem fit_interp_affine (tx ty : List K) (q c e : K) (hn : 0 < tx.length)
    (hlen : ty.length = tx.length) :
    interp tx (ty.map fun v => c * v + e) q = c * interp tx ty q + e := by
  rw [fit_interp_unfold, fit_interp_unfold]
  have hb := fit_lastIdx_bound (fun i => tx[i]! ≤ q) tx.length
  generalize fit_lastIdx (fun i => tx[i]! ≤ q) tx.length = j at *
  split
  · rw [fit_get!_map _ _ _ (by omega)]
  split
  · rw [fit_get!_map _ _ _ (by omega)]
  split
  · rw [fit_get!_map _ _ _ (by omega)]
  · rename_i h3
    rw [fit_get!_map _ _ _ (show j < ty.length by omega),
      fit_get!_map _ _ _ (show j + 1 < ty.length by omega)]
    ring

/-- inside the training range the prediction lies between the two neighbouring threshold values -/
theorem fit_interp_between (tx ty : List K) (q : K) (hn : 0 < tx.length) (h0 : tx[0]! ≤ q) :
    ∃ j, j < tx.length ∧ tx[j]! ≤ q ∧ (j + 1 < tx.length → q < tx[j + 1]!) ∧
      (j + 1 < tx.length → 0 < tx[j + 1]! - tx[j]! ∧
        min ty[j]! ty[j + 1]! ≤ interp tx ty q ∧ interp tx ty q ≤ max ty[j]! ty[j + 1]!) ∧
      (j + 1 = tx.length → interp tx ty q = ty[j]!) := by
  rcases fit_interp_spec tx ty q hn with ⟨h1, _⟩ | ⟨h1, h2⟩ | ⟨j, hj, h1, h3, h4⟩
  · exact absurd (lt_of_lt_of_le h1 h0) (lt_irrefl _)
  · refine ⟨tx.length - 1, by omega, h1, fun h => by omega, fun h => by omega, fun _ => h2⟩
  · refine ⟨j, by omega, h1, fun _ => h3, fun _ => ?_, fun h => by omega⟩
    have hd : 0 < tx[j + 1]! - tx[j]! := by linarith
    rw [h4]
    exact ⟨hd, fit_lerp_between _ _ _ _ hd (by linarith) (by linarith)⟩

/-- for non-decreasing values the prediction lies between the values of the segment's end points -/
theorem fit_interp_seg_bounds (a b x d q : K) (hab : a ≤ b) (hd : 0 < d) (h0 : x ≤ q)
    (h1 : q < x + d) : a ≤ a + (b - a) / d * (q - x) ∧ a + (b - a) / d * (q - x) ≤ b := by
  have := fit_lerp_between a b d (q - x) hd (by linarith) (by linarith)
  rwa [min_eq_left hab, max_eq_right hab] at this

/-- **Monotonicity of the prediction**: non-decreasing thresholds and non-decreasing values give a
non-decreasing prediction function -/
theorem fit_interp_mono (tx ty : List K) (hn : 0 < tx.length) (hlen : ty.length = tx.length)
    (hs : tx.Pairwise (· ≤ ·)) (hy : ty.Pairwise (· ≤ ·)) (q₁ q₂ : K) (hq : q₁ ≤ q₂) :
    interp tx ty q₁ ≤ interp tx ty q₂ := by
  have hx0 : ∀ j, j < tx.length → tx[0]! ≤ tx[j]! := fun j hj => fit_sorted_get! hs (Nat.zero_le j) hj
  have hxn : ∀ j, j < tx.length → tx[j]! ≤ tx[tx.length - 1]! :=
    fun j hj => fit_sorted_get! hs (by omega) (by omega)
  have hy0 : ∀ j, j < tx.length → ty[0]! ≤ ty[j]! :=
    fun j hj => fit_sorted_get! hy (Nat.zero_le j) (by omega)
  have hyn : ∀ j, j < tx.length → ty[j]! ≤ ty[tx.length - 1]! :=
    fun j hj => fit_sorted_get! hy (by omega) (by omega)
  -- bounds on an interior segment
  have seg : ∀ (q : K) (j : Nat), j + 1 < tx.length → tx[j]! ≤ q → q < tx[j + 1]! →
      ty[j]! ≤ ty[j]! + (ty[j + 1]! - ty[j]!) / (tx[j + 1]! - tx[j]!) * (q - tx[j]!) ∧
      ty[j]! + (ty[j + 1]! - ty[j]!) / (tx[j + 1]! - tx[j]!) * (q - tx[j]!) ≤ ty[j + 1]! := by
    intro q j hj h1 h3
    exact fit_interp_seg_bounds _ _ _ _ _ (fit_sorted_get! hy (Nat.le_succ j) (by omega))
      (by linarith) h1 (by linarith)
  rcases fit_interp_spec tx ty q₁ hn with ⟨a1, a2⟩ | ⟨a1, a2⟩ | ⟨j₁, hj₁, a1, a3, a4⟩
  · -- left clamp at `q₁`
    rw [a2]
    rcases fit_interp_spec tx ty q₂ hn with ⟨_, b2⟩ | ⟨_, b2⟩ | ⟨j₂, hj₂, b1, b3, b4⟩
    · rw [b2]
    · rw [b2]; exact hy0 _ (by omega)
    · rw [b4]; exact le_trans (hy0 j₂ (by omega)) (seg q₂ j₂ hj₂ b1 b3).1
  · -- right clamp at `q₁`
    rw [a2]
    rcases fit_interp_spec tx ty q₂ hn with ⟨b1, _⟩ | ⟨_, b2⟩ | ⟨j₂, hj₂, b1, b3, b4⟩
    · have := hx0 (tx.length - 1) (by omega)
      exact absurd (lt_of_le_of_lt (le_trans this (le_trans a1 hq)) b1) (lt_irrefl _)
    · rw [b2]
    · have := hxn (j₂ + 1) hj₂
      exact absurd (lt_of_le_of_lt (le_trans this (le_trans a1 hq)) b3) (lt_irrefl _)
  · rw [a4]
    rcases fit_interp_spec tx ty q₂ hn with ⟨b1, _⟩ | ⟨_, b2⟩ | ⟨j₂, hj₂, b1, b3, b4⟩
    · have := hx0 j₁ (by omega)
      exact absurd (lt_of_le_of_lt (le_trans this (le_trans a1 hq)) b1) (lt_irrefl _)
    · rw [b2]; exact le_trans (seg q₁ j₁ hj₁ a1 a3).2 (hyn _ hj₁)
    · rw [b4]
      have hlt : j₁ < j₂ + 1 :=
        fit_sorted_lt_of_get!_lt hs (by omega) (lt_of_le_of_lt (le_trans a1 hq) b3)
      rcases Nat.lt_succ_iff_lt_or_eq.mp hlt with hlt' | heq
      · exact le_trans (seg q₁ j₁ hj₁ a1 a3).2
          (le_trans (fit_sorted_get! hy (show j₁ + 1 ≤ j₂ by omega) (by omega)) (seg q₂ j₂ hj₂ b1 b3).1)
      · subst heq
        have hd : 0 < tx[j₁ + 1]! - tx[j₁]! := by linarith
        have hsl : 0 ≤ (ty[j₁ + 1]! - ty[j₁]!) / (tx[j₁ + 1]! - tx[j₁]!) :=
          div_nonneg (sub_nonneg.mpr (fit_sorted_get! hy (Nat.le_succ j₁) (by omega))) hd.le
        have := mul_le_mul_of_nonneg_left (sub_le_sub_right hq tx[j₁]!) hsl
        linarith

/-- mirrored: non-increasing values give a non-increasing prediction function -/
theorem fit_interp_anti (tx ty : List K) (hn : 0 < tx.length) (hlen : ty.length = tx.length)
    (hs : tx.Pairwise (· ≤ ·)) (hy : ty.Pairwise (· ≥ ·)) (q₁ q₂ : K) (hq : q₁ ≤ q₂) :
    interp tx ty q₂ ≤ interp tx ty q₁ := by
  have hy' : (ty.map fun v => (-1 : K) * v + 0).Pairwise (· ≤ ·) := by
    rw [List.pairwise_map]
    exact hy.imp (fun h => by simp only [ge_iff_le] at h; linarith)
  have := fit_interp_mono tx (ty.map fun v => (-1 : K) * v + 0) hn (by simpa using hlen) hs hy' q₁ q₂ hq
  rw [fit_interp_affine _ _ _ _ _ hn hlen, fit_interp_affine _ _ _ _ _ hn hlen] at this
  linarith

/-! ## B. `thresholdIdx` -/

/-- a well-formed block index vector for a sample of size `n`: at least one block, starts at `0`,
ends at `n`, strictly increasing -/
structure fit_RVec (r : List Nat) (n : Nat) : Prop where
  len : 2 ≤ r.length
  first : r[0]! = 0
  last : r[r.length - 1]! = n
  strict : r.Pairwise (· < ·)

theorem fit_RVec.lt {r : List Nat} {n : Nat} (h : fit_RVec r n) {i j : Nat} (hij : i < j)
    (hj : j < r.length) : r[i]! < r[j]! := fit_pairwise_get! h.strict hij hj

theorem fit_RVec.le {r : List Nat} {n : Nat} (h : fit_RVec r n) {i j : Nat} (hij : i ≤ j)
    (hj : j < r.length) : r[i]! ≤ r[j]! := by
  rcases Nat.eq_or_lt_of_le hij with rfl | hlt
  · exact le_rfl
  · exact (h.lt hlt hj).le

theorem fit_RVec.pos {r : List Nat} {n : Nat} (h : fit_RVec r n) : 0 < n := by
  have := h.lt (show 0 < r.length - 1 by have := h.len; omega) (by have := h.len; omega)
  rw [h.first, h.last] at this
  exact this

theorem fit_RVec.le_n {r : List Nat} {n : Nat} (h : fit_RVec r n) {i : Nat} (hi : i < r.length) :
    r[i]! ≤ n := by
  have := h.le (show i ≤ r.length - 1 by omega) (by omega)
  rwa [h.last] at this

theorem fit_RVec.lt_n {r : List Nat} {n : Nat} (h : fit_RVec r n) {i : Nat} (hi : i + 1 < r.length) :
    r[i]! < n := by
  have := h.lt (show i < r.length - 1 by omega) (by omega)
  rwa [h.last] at this

/-- the block vector of a non-empty fitted sequence is well-formed -/
theorem fit_rvec_of_blockVec {ys : List K} {r : List Nat} (h : BlockVec ys r) (hne : ys ≠ []) :
    fit_RVec r ys.length := by
  have hn : 0 < ys.length := List.length_pos_iff.mpr hne
  obtain ⟨t, ht⟩ := List.head?_eq_some_iff.mp h.head
  have hlast := h.last
  rw [List.getLast?_eq_getElem?] at hlast
  have hlen1 : 0 < r.length := by rw [ht]; simp
  have h0 : r[0]! = 0 := by rw [ht]; rfl
  have hl : r[r.length - 1]! = ys.length := by rw [fit_get!_eq_getD, hlast]; rfl
  refine ⟨?_, h0, hl, h.strict⟩
  by_contra hcon
  have : r.length - 1 = 0 := by omega
  rw [this, h0] at hl
  omega

/-- what the loop body of `fit` contributes for the interior boundary `r[k+1]` -/
def fit_piece (r : List Nat) (k : Nat) : List Nat :=
  (if r[k + 1]! - 1 - r[k]! ≥ 1 then [r[k + 1]! - 1] else []) ++ [r[k + 1]!]

/-- the final `if` of `fit`: is the last position a threshold? -/
def fit_tail (r : List Nat) (xs ys : List K) : List Nat :=
  if ¬ (xs[r[r.length - 1]! - 1]! ≤ xs[r[r.length - 2]!]! ∧
        xs[r[r.length - 2]!]! ≤ xs[r[r.length - 1]! - 1]!) ∧
      ((ys[0]! ≤ ys[ys.length - 1]! ∧ ys[ys.length - 1]! ≤ ys[0]!) ∨
        r[r.length - 1]! - 1 - r[r.length - 2]! ≥ 1)
  then [r[r.length - 1]! - 1] else []

theorem fit_thresholdIdx_eq (r : List Nat) (xs ys : List K) :
    thresholdIdx r xs ys
      = r[0]! :: ((List.range (r.length - 2)).flatMap (fit_piece r) ++ fit_tail r xs ys) := by
  rfl

theorem fit_mem_piece (r : List Nat) (k a : Nat) :
    a ∈ fit_piece r k ↔ (r[k + 1]! - 1 - r[k]! ≥ 1 ∧ a = r[k + 1]! - 1) ∨ a = r[k + 1]! := by
  unfold fit_piece
  split
  · rename_i hc
    simp only [List.mem_append, List.mem_cons, List.not_mem_nil, or_false]
    constructor
    · rintro (h | h)
      · exact Or.inl ⟨hc, h⟩
      · exact Or.inr h
    · rintro (⟨_, h⟩ | h)
      · exact Or.inl h
      · exact Or.inr h
  · rename_i hc
    simp only [List.nil_append, List.mem_singleton]
    constructor
    · intro h; exact Or.inr h
    · rintro (⟨h, _⟩ | h)
      · exact absurd h hc
      · exact h

theorem fit_piece_range {r : List Nat} {n : Nat} (h : fit_RVec r n) {k a : Nat}
    (hk : k + 1 < r.length) (ha : a ∈ fit_piece r k) : r[k]! < a ∧ a ≤ r[k + 1]! := by
  have := h.lt (show k < k + 1 by omega) hk
  rcases (fit_mem_piece r k a).mp ha with ⟨h1, rfl⟩ | rfl
  · omega
  · omega

section ThresholdIdx
variable {r : List Nat} {n : Nat} {xs ys : List K}

/-- membership in the threshold index list -/
theorem fit_mem_thresholdIdx (a : Nat) :
    a ∈ thresholdIdx r xs ys ↔
      a = r[0]! ∨ (∃ k, k < r.length - 2 ∧ a ∈ fit_piece r k) ∨ a ∈ fit_tail r xs ys := by
  rw [fit_thresholdIdx_eq]
  simp only [List.mem_cons, List.mem_append, List.mem_flatMap, List.mem_range]

/-- the tail is the last position, and only if it lies strictly behind the last block's start -/
theorem fit_mem_tail (a : Nat) (h : fit_RVec r n) (ha : a ∈ fit_tail r xs ys) :
    a = n - 1 ∧ r[r.length - 2]! < n - 1 ∧ xs[n - 1]! ≠ xs[r[r.length - 2]!]! := by
  unfold fit_tail at ha
  rw [h.last] at ha
  split at ha
  · rename_i hc
    have hne : xs[n - 1]! ≠ xs[r[r.length - 2]!]! := fun he => hc.1 ⟨he.le, he.ge⟩
    have hlt := h.lt_n (show r.length - 2 + 1 < r.length by have := h.len; omega)
    refine ⟨by simpa using ha, ?_, hne⟩
    by_contra hcon
    have : r[r.length - 2]! = n - 1 := by omega
    rw [this] at hne
    exact hne rfl
  · simp at ha

/-- every threshold index is a valid position -/
theorem fit_thresholdIdx_lt (h : fit_RVec r n) : ∀ a ∈ thresholdIdx r xs ys, a < n := by
  intro a ha
  have hlen := h.len
  rcases (fit_mem_thresholdIdx a).mp ha with rfl | ⟨k, hk, hka⟩ | ht
  · rw [h.first]; exact h.pos
  · have := (fit_piece_range h (by omega) hka).2
    have := h.lt_n (show k + 1 + 1 < r.length by omega)
    omega
  · have := (fit_mem_tail a h ht).1
    have := h.pos
    omega

/-- the threshold index list is strictly increasing -/
theorem fit_thresholdIdx_strict (h : fit_RVec r n) : (thresholdIdx r xs ys).Pairwise (· < ·) := by
  have hlen := h.len
  rw [fit_thresholdIdx_eq, List.pairwise_cons, List.pairwise_append, List.pairwise_flatMap]
  refine ⟨?_, ⟨?_, ?_⟩, ?_, ?_⟩
  · intro a ha
    rcases List.mem_append.mp ha with ha | ha
    · obtain ⟨k, hk, hka⟩ := List.mem_flatMap.mp ha
      rw [List.mem_range] at hk
      have := (fit_piece_range h (by omega) hka).1
      have := h.le (Nat.zero_le k) (by omega)
      omega
    · obtain ⟨rfl, h2, _⟩ := fit_mem_tail a h ha
      have := h.le (Nat.zero_le (r.length - 2)) (by omega)
      omega
  · intro k hk
    rw [List.mem_range] at hk
    have := h.lt (show k < k + 1 by omega) (show k + 1 < r.length by omega)
    unfold fit_piece
    split
    · simp only [List.cons_append, List.nil_append, List.pairwise_cons, List.mem_singleton,
        List.not_mem_nil, List.Pairwise.nil, and_true]
      refine ⟨fun b hb => ?_, fun _ hb => absurd hb (by simp)⟩
      subst hb
      omega
    · simp
  · refine List.pairwise_lt_range.imp_of_mem ?_
    intro k₁ k₂ hk₁ hk₂ hlt a ha b hb
    rw [List.mem_range] at hk₁ hk₂
    have h1 := (fit_piece_range h (by omega) ha).2
    have h2 := (fit_piece_range h (by omega) hb).1
    have := h.le (show k₁ + 1 ≤ k₂ by omega) (by omega)
    omega
  · unfold fit_tail
    split <;> simp
  · intro a ha b hb
    obtain ⟨k, hk, hka⟩ := List.mem_flatMap.mp ha
    rw [List.mem_range] at hk
    obtain ⟨rfl, h2, _⟩ := fit_mem_tail b h hb
    have := (fit_piece_range h (by omega) hka).2
    have := h.le (show k + 1 ≤ r.length - 2 by omega) (by omega)
    omega

/-- the first threshold index is `0` -/
theorem fit_thresholdIdx_head (h : fit_RVec r n) : (thresholdIdx r xs ys)[0]! = 0 := by
  rw [fit_thresholdIdx_eq]
  exact h.first

theorem fit_thresholdIdx_pos : 0 < (thresholdIdx r xs ys).length := by
  rw [fit_thresholdIdx_eq]; simp

/-- the first position of every block is a threshold -/
theorem fit_start_mem (_h : fit_RVec r n) (k : Nat) (hk : k + 1 < r.length) :
    r[k]! ∈ thresholdIdx r xs ys := by
  rw [fit_mem_thresholdIdx]
  rcases Nat.eq_zero_or_pos k with rfl | hpos
  · left; rfl
  · right; left
    refine ⟨k - 1, by omega, ?_⟩
    rw [fit_mem_piece]
    right
    rw [show k - 1 + 1 = k by omega]

/-- the last position of every block except the final one is a threshold -/
theorem fit_end_mem (h : fit_RVec r n) (k : Nat) (hk : k + 2 < r.length) :
    r[k + 1]! - 1 ∈ thresholdIdx r xs ys := by
  by_cases hc : r[k + 1]! - 1 - r[k]! ≥ 1
  · rw [fit_mem_thresholdIdx]
    right; left
    exact ⟨k, by omega, (fit_mem_piece r k _).mpr (Or.inl ⟨hc, rfl⟩)⟩
  · have := h.lt (show k < k + 1 by omega) (show k + 1 < r.length by omega)
    have e : r[k + 1]! - 1 = r[k]! := by omega
    rw [e]
    exact fit_start_mem h k (by omega)

/-- the last position of the sample is a threshold exactly if it is the only element of its block
or its `X` value differs from that of the block's first element -/
theorem fit_last_mem_iff (h : fit_RVec r n) :
    n - 1 ∈ thresholdIdx r xs ys ↔
      (r[r.length - 2]! = n - 1 ∨ xs[n - 1]! ≠ xs[r[r.length - 2]!]!) := by
  have hlen := h.len
  have hlt := h.lt_n (show r.length - 2 + 1 < r.length by omega)
  constructor
  · intro hm
    rcases (fit_mem_thresholdIdx _).mp hm with h0 | ⟨k, hk, hka⟩ | ht
    · left
      have := h.le (Nat.zero_le (r.length - 2)) (by omega)
      omega
    · left
      have := (fit_piece_range h (by omega) hka).2
      have := h.le (show k + 1 ≤ r.length - 2 by omega) (by omega)
      omega
    · right; exact (fit_mem_tail _ h ht).2.2
  · rintro (h1 | h1)
    · rw [← h1]
      exact fit_start_mem h (r.length - 2) (by omega)
    · by_cases h2 : r[r.length - 2]! = n - 1
      · rw [← h2]
        exact fit_start_mem h (r.length - 2) (by omega)
      · rw [fit_mem_thresholdIdx]
        right; right
        unfold fit_tail
        rw [h.last, if_pos]
        · simp
        · refine ⟨fun hc => h1 (le_antisymm hc.1 hc.2), Or.inr ?_⟩
          omega

/-- if the last position is not a threshold, the whole last block is one tie group in `X` -/
theorem fit_last_not_mem (h : fit_RVec r n) (hm : n - 1 ∉ thresholdIdx r xs ys) :
    xs[n - 1]! = xs[r[r.length - 2]!]! := by
  by_contra hcon
  exact hm ((fit_last_mem_iff h).mpr (Or.inr hcon))

end ThresholdIdx

/-! ## C. Predictions at the training points -/

section Train
variable {r : List Nat} {n : Nat} {xs ys : List K}

/-- every position lies in exactly one block `[r[k], r[k+1])` -/
theorem fit_block_of (h : fit_RVec r n) (p : Nat) (hp : p < n) :
    ∃ k, k + 1 < r.length ∧ r[k]! ≤ p ∧ p < r[k + 1]! := by
  have hlen := h.len
  have h0 : r[0]! ≤ p := by rw [h.first]; exact Nat.zero_le p
  obtain ⟨hpk, _⟩ := fit_lastIdx_spec (fun i => r[i]! ≤ p) r.length 0 (by omega) h0
  have hmax := fit_lastIdx_spec (fun i => r[i]! ≤ p) r.length
  have hb := fit_lastIdx_bound (fun i => r[i]! ≤ p) r.length
  generalize fit_lastIdx (fun i => r[i]! ≤ p) r.length = k at *
  have hk : k < r.length := by omega
  have hk1 : k + 1 < r.length := by
    by_contra hcon
    have : k = r.length - 1 := by omega
    subst this
    have hl := h.last
    have hpk' : r[r.length - 1]! ≤ p := hpk
    omega
  refine ⟨k, hk1, hpk, ?_⟩
  by_contra hcon
  rw [not_lt] at hcon
  have := (hmax (k + 1) hk1 hcon).2
  omega

/-- the fitted sequence is constant on a block -/
theorem fit_same_block (hb : BlockVec ys r) (h : fit_RVec r ys.length) {k i j : Nat}
    (hk : k + 1 < r.length) (hki : r[k]! ≤ i) (hij : i ≤ j) (hjk : j < r[k + 1]!) :
    ys[i]! = ys[j]! := by
  have hj : j < ys.length := lt_of_lt_of_le hjk (h.le_n hk)
  apply fit_get!_of_get?
  apply hb.const i j hij hj
  intro b hbm
  obtain ⟨l, hl, rfl⟩ := fit_mem_get! hbm
  by_cases hlk : l ≤ k
  · left; exact le_trans (h.le hlk (by omega)) hki
  · right; exact lt_of_lt_of_le hjk (h.le (show k + 1 ≤ l by omega) hl)

/-- in a strictly increasing list the entries at positions `j, j+1` are neighbours: any member
below the upper one is at most the lower one -/
theorem fit_strict_neighbours {l : List Nat} (hl : l.Pairwise (· < ·)) {j c : Nat}
    (hj : j + 1 < l.length) (hc : c ∈ l) (hlt : c < l[j + 1]!) : c ≤ l[j]! := by
  obtain ⟨i, hi, rfl⟩ := fit_mem_get! hc
  have : i < j + 1 := by
    by_contra hcon
    rw [not_lt] at hcon
    rcases Nat.eq_or_lt_of_le hcon with he | hlt'
    · rw [he] at hlt; exact lt_irrefl _ hlt
    · have := fit_pairwise_get! hl hlt' hi
      omega
  rcases Nat.eq_or_lt_of_le (Nat.lt_succ_iff.mp this) with he | hlt'
  · rw [he]
  · exact (fit_pairwise_get! hl hlt' (by omega)).le

theorem fit_strict_le_last {l : List Nat} (hl : l.Pairwise (· < ·)) {c : Nat} (hc : c ∈ l) :
    c ≤ l[l.length - 1]! := by
  obtain ⟨i, hi, rfl⟩ := fit_mem_get! hc
  rcases Nat.eq_or_lt_of_le (show i ≤ l.length - 1 by omega) with he | hlt'
  · rw [← he]
  · exact (fit_pairwise_get! hl hlt' (by omega)).le

/-- the selected `X` thresholds are non-decreasing -/
theorem fit_thresholds_sorted (h : fit_RVec r n) (hlen : xs.length = n)
    (hxs : xs.Pairwise (· ≤ ·)) :
    ((thresholdIdx r xs ys).map (fun i => xs[i]!)).Pairwise (· ≤ ·) := by
  rw [List.pairwise_map]
  refine (fit_thresholdIdx_strict (xs := xs) (ys := ys) h).imp_of_mem ?_
  intro a b _ hb hab
  exact fit_sorted_get! hxs hab.le (by rw [hlen]; exact fit_thresholdIdx_lt h b hb)

/-- **Predictions at the training points are the fitted values.**  `xs` sorted, `ys` the fitted
sequence with block vector `r`, ties in `xs` carry equal fitted values. -/
theorem fit_train_eq (hlen : xs.length = ys.length) (hxs : xs.Pairwise (· ≤ ·))
    (hb : BlockVec ys r)
    (hties : ∀ i j, i < ys.length → j < ys.length → xs[i]! = xs[j]! → ys[i]! = ys[j]!)
    (p : Nat) (hp : p < ys.length) :
    interp ((thresholdIdx r xs ys).map (fun i => xs[i]!))
      ((thresholdIdx r xs ys).map (fun i => ys[i]!)) xs[p]! = ys[p]! := by
  have hne : ys ≠ [] := by intro h; rw [h] at hp; simp at hp
  have h : fit_RVec r ys.length := fit_rvec_of_blockVec hb hne
  have hstrict := fit_thresholdIdx_strict (xs := xs) (ys := ys) h
  have hlt := fit_thresholdIdx_lt (xs := xs) (ys := ys) h
  have hpos := fit_thresholdIdx_pos (r := r) (xs := xs) (ys := ys)
  have hhead := fit_thresholdIdx_head (xs := xs) (ys := ys) h
  have hstart := fun k hk => fit_start_mem (xs := xs) (ys := ys) h k hk
  have hend := fun k hk => fit_end_mem (xs := xs) (ys := ys) h k hk
  generalize thresholdIdx r xs ys = idx at *
  have hN : 0 < (idx.map (fun i => xs[i]!)).length := by simpa using hpos
  have hidx : ∀ j, j < idx.length → idx[j]! < ys.length := fun j hj => hlt _ (fit_get!_mem idx j hj)
  obtain ⟨k, hk, hks, hke⟩ := fit_block_of h p hp
  rcases fit_interp_spec (idx.map (fun i => xs[i]!)) (idx.map (fun i => ys[i]!)) xs[p]! hN with
    ⟨h1, _⟩ | ⟨h1, h2⟩ | ⟨j, hj, h1, h3, h4⟩
  · -- below the first threshold: impossible
    rw [fit_get!_map _ _ _ hpos, hhead] at h1
    exact absurd (lt_of_lt_of_le h1 (fit_sorted_get! hxs (Nat.zero_le p) (by omega))) (lt_irrefl _)
  · -- at or beyond the last threshold
    rw [List.length_map] at h1 h2
    rw [fit_get!_map _ _ _ (by omega)] at h1
    rw [h2, fit_get!_map _ _ _ (by omega)]
    have ht := hidx (idx.length - 1) (by omega)
    by_cases hpt : p ≤ idx[idx.length - 1]!
    · exact hties _ _ ht hp (le_antisymm h1 (fit_sorted_get! hxs hpt (by omega)))
    · rw [not_le] at hpt
      have hs : r[k]! ≤ idx[idx.length - 1]! := fit_strict_le_last hstrict (hstart k hk)
      exact fit_same_block hb h hk hs hpt.le hke
  · -- on an interior segment
    rw [List.length_map] at hj
    rw [fit_get!_map _ _ _ (by omega)] at h1
    rw [fit_get!_map _ _ _ (by omega)] at h3
    rw [h4, fit_get!_map _ _ _ (by omega), fit_get!_map _ _ _ (by omega),
      fit_get!_map _ _ _ (by omega), fit_get!_map _ _ _ (by omega)]
    have ha := hidx j (by omega)
    have hbn := hidx (j + 1) hj
    have hpb : p < idx[j + 1]! := fit_sorted_lt_of_get!_lt hxs (by omega) h3
    by_cases hpa : p ≤ idx[j]!
    · have e : xs[idx[j]!]! = xs[p]! := le_antisymm h1 (fit_sorted_get! hxs hpa (by omega))
      rw [e, sub_self, mul_zero, add_zero]
      exact hties _ _ ha hp e
    · rw [not_le] at hpa
      have hs : r[k]! ≤ idx[j]! :=
        fit_strict_neighbours hstrict hj (hstart k hk) (lt_of_le_of_lt hks hpb)
      have e1 : ys[idx[j]!]! = ys[p]! := fit_same_block hb h hk hs hpa.le hke
      by_cases hbe : idx[j + 1]! < r[k + 1]!
      · have e2 : ys[idx[j]!]! = ys[idx[j + 1]!]! :=
          fit_same_block hb h hk hs (by omega) hbe
        rw [← e2, sub_self, zero_div, zero_mul, add_zero, e1]
      · rw [not_lt] at hbe
        exfalso
        by_cases hk2 : k + 2 < r.length
        · have := fit_strict_neighbours hstrict hj (hend k hk2) (by omega)
          omega
        · have : k + 1 = r.length - 1 := by omega
          rw [this, h.last] at hbe
          omega

end Train

/-! ## D. No block boundary inside a non-increasing run -/

section NoBoundary
variable {L : Type} [LinearOrder L] {ok : Obs L → Prop} {T : List (Obs L) → L}

/-- Across every interior block boundary of a list of `Good` blocks with strictly increasing values
the raw data strictly increase: `y_k ≤ val(block of k) < val(next block) ≤ y_{k+1}`. -/
theorem fit_boundary_lt (hT : Internal ok T) (bs : List (Blk L)) (hg : ∀ b ∈ bs, Good ok T b)
    (hpw : bs.Pairwise (fun a b => a.val < b.val)) :
    ∀ k u v, k + 1 ∈ bounds bs → (bs.flatMap (·.data))[k]? = some u →
      (bs.flatMap (·.data))[k + 1]? = some v → u.1 < v.1 := by
  induction bs with
  | nil => intro k u v _ hu; simp at hu
  | cons b rest ih =>
    intro k u v hk hu hv
    have hgb : Good ok T b := hg b (by simp)
    have hg' : ∀ b' ∈ rest, Good ok T b' := fun b' hb' => hg b' (by simp [hb'])
    obtain ⟨hpw1, hpw2⟩ := List.pairwise_cons.mp hpw
    rw [bounds_cons] at hk
    rw [List.flatMap_cons] at hu hv
    rcases List.mem_cons.mp hk with hk0 | hk
    · omega
    obtain ⟨j, hj, hjk⟩ := List.mem_map.mp hk
    rcases Nat.eq_zero_or_pos j with rfl | hjpos
    · -- the boundary between `b` and the first block of `rest`
      have hkl : k + 1 = b.data.length := by omega
      rw [List.getElem?_append_left (by omega)] at hu
      rw [List.getElem?_append_right (by omega), show k + 1 - b.data.length = 0 by omega] at hv
      cases rest with
      | nil => simp at hv
      | cons b' rest' =>
        have hgb' : Good ok T b' := hg' b' (by simp)
        have hlen' : 0 < b'.data.length := List.length_pos_iff.mpr hgb'.ne
        rw [List.flatMap_cons, List.getElem?_append_left hlen'] at hv
        -- `u` is the last element of `b`, `v` the first element of `b'`
        have hu' : b.data.getLast? = some u := by
          rw [List.getLast?_eq_getElem?, ← hu]; congr 1; omega
        have hdec : b.data = b.data.dropLast ++ [u] :=
          (List.dropLast_append_getLast? u hu').symm
        have hv' : b'.data.head? = some v := by rw [List.head?_eq_getElem?]; exact hv
        obtain ⟨t, ht⟩ := List.head?_eq_some_iff.mp hv'
        have oku : ok u := hgb.allok u (by rw [hdec]; simp)
        have okv : ok v := hgb'.allok v (by rw [ht]; simp)
        have h1 : u.1 ≤ b.val := by
          have := hgb.suf b.data.dropLast [u] (by simp) hdec
          rwa [hT.single u oku] at this
        have h2 : b'.val ≤ v.1 := by
          have := hgb'.pre [v] t (by simp) (by rw [ht]; rfl)
          rwa [hT.single v okv] at this
        exact lt_of_le_of_lt h1 (lt_of_lt_of_le (hpw1 b' (by simp)) h2)
    · -- a boundary inside `rest`
      have hkl : b.data.length ≤ k := by omega
      rw [List.getElem?_append_right hkl] at hu
      rw [List.getElem?_append_right (by omega),
        show k + 1 - b.data.length = (k - b.data.length) + 1 by omega] at hv
      refine ih hg' hpw2 (k - b.data.length) u v ?_ hu hv
      rw [show k - b.data.length + 1 = j by omega]
      exact hj

/-- **The mathematical heart of tie handling.**  The generalised PAVA never puts a block boundary
between two consecutive observations whose responses do not strictly increase. -/
theorem gpava_no_boundary_of_ge (hT : Internal ok T) (ys : List (Obs L)) (hys : ∀ o ∈ ys, ok o)
    (k : Nat) (u v : Obs L) (hu : ys[k]? = some u) (hv : ys[k + 1]? = some v) (hge : v.1 ≤ u.1) :
    k + 1 ∉ bounds (gpava T ys) := by
  obtain ⟨hg, hpw, hflat⟩ := gpava_spec hT ys hys
  intro hmem
  have := fit_boundary_lt hT (gpava T ys) hg hpw k u v hmem (by rw [hflat]; exact hu)
    (by rw [hflat]; exact hv)
  exact absurd this (not_lt.mpr hge)

/-- a run `i..j` of consecutive observations with non-increasing responses lies in one block -/
theorem gpava_run_one_block (hT : Internal ok T) (ys : List (Obs L)) (hys : ∀ o ∈ ys, ok o)
    (i j : Nat) (hj : j < ys.length)
    (hrun : ∀ k, i ≤ k → k < j → ∀ u v, ys[k]? = some u → ys[k + 1]? = some v → v.1 ≤ u.1) :
    ∀ b ∈ bounds (gpava T ys), b ≤ i ∨ j < b := by
  intro b hb
  by_contra hcon
  rw [not_or, not_le, not_lt] at hcon
  have hk : b - 1 + 1 = b := by omega
  have h1 : b - 1 < ys.length := by omega
  have h2 : b - 1 + 1 < ys.length := by omega
  refine gpava_no_boundary_of_ge hT ys hys (b - 1) ys[b - 1] ys[b - 1 + 1]
    (List.getElem?_eq_getElem h1) (List.getElem?_eq_getElem h2) ?_ (by rw [hk]; exact hb)
  exact hrun (b - 1) (by omega) (by omega) _ _ (List.getElem?_eq_getElem h1)
    (List.getElem?_eq_getElem h2)

/-- … hence the fitted values agree on the run -/
theorem gpava_run_const (hT : Internal ok T) (ys : List (Obs L)) (hys : ∀ o ∈ ys, ok o)
    (i j : Nat) (hij : i ≤ j) (hj : j < ys.length)
    (hrun : ∀ k, i ≤ k → k < j → ∀ u v, ys[k]? = some u → ys[k + 1]? = some v → v.1 ≤ u.1) :
    (expand (gpava T ys))[i]? = (expand (gpava T ys))[j]? := by
  obtain ⟨hlen, hbv, _⟩ := gpava_contract hT ys hys
  exact hbv.const i j hij (by rw [hlen]; exact hj) (gpava_run_one_block hT ys hys i j hj hrun)

end NoBoundary

/-! ### lifting to `eqFit` / `isoReg` -/

section Lift

omit [Inhabited K] in
/-- a block-wise expansion is constant between two consecutive entries of `bounds` -/
theorem fit_bexp_const_inside (bl : List (Blk K)) (ms : List K) (i j : Nat) (hij : i ≤ j)
    (hj : j < (bexp bl ms).length) (hno : ∀ b ∈ bounds bl, b ≤ i ∨ j < b) :
    (bexp bl ms)[i]? = (bexp bl ms)[j]? := by
  induction bl generalizing ms i j with
  | nil => simp at hj
  | cons b bl ih =>
    cases ms with
    | nil => simp at hj
    | cons m ms =>
      rw [bexp_cons_cons] at hj ⊢
      rw [List.length_append, List.length_replicate] at hj
      have hb0 : b.data.length ∈ bounds (b :: bl) := by
        rw [bounds_cons]
        refine List.mem_cons_of_mem _ (List.mem_map.mpr ⟨0, ?_, by simp⟩)
        rw [bounds_eq]; simp
      by_cases h1 : j < b.data.length
      · rw [List.getElem?_append_left (by simpa using (by omega : i < b.data.length)),
          List.getElem?_append_left (by simpa using h1), List.getElem?_replicate,
          List.getElem?_replicate, if_pos (by omega), if_pos h1]
      · by_cases h2 : i < b.data.length
        · rcases hno _ hb0 with h | h <;> omega
        · rw [List.getElem?_append_right (by simp; omega),
            List.getElem?_append_right (by simp; omega)]
          simp only [List.length_replicate]
          refine ih ms _ _ (by omega) (by omega) ?_
          intro c hc
          have : c + b.data.length ∈ bounds (b :: bl) := by
            rw [bounds_cons]
            exact List.mem_cons_of_mem _ (List.mem_map.mpr ⟨c, hc, rfl⟩)
          rcases hno _ this with h | h
          · left; omega
          · right; omega

omit [Inhabited K] in
/-- the fit of every functional is constant along a run of consecutive observations whose
responses do not strictly increase (oriented data) -/
theorem fit_eqFit_run_const {f : Functional} {α : K} (hf : FitOK f α) (obs : List (Obs K))
    (hpos : ∀ o ∈ obs, 0 < o.2) (i j : Nat) (hij : i ≤ j) (hj : j < obs.length)
    (hrun : ∀ k, i ≤ k → k < j → ∀ u v, obs[k]? = some u → obs[k + 1]? = some v → v.1 ≤ u.1) :
    (eqFit f α obs).1[i]? = (eqFit f α obs).1[j]? := by
  cases f
  · rw [eqFit_mean _ _ hpos]
    exact gpava_run_const wmean_internal obs hpos i j hij hj hrun
  · exact absurd rfl hf.notMedian
  · obtain ⟨h0, h1⟩ := hf.lvl (Or.inl rfl)
    exact gpava_run_const (expectileFun α h0 h1).internal obs hpos i j hij hj hrun
  · obtain ⟨h0, h1⟩ := hf.lvl (Or.inr rfl)
    show (quantileFit α obs).1[i]? = (quantileFit α obs).1[j]?
    have hlen := quantileFit_length α h0 h1 obs
    rw [quantileFit_fst] at hlen ⊢
    exact fit_bexp_const_inside _ _ i j hij (by rw [hlen]; exact hj)
      (gpava_run_one_block (quantFun α h0 h1).internal obs (fun _ _ => trivial) i j hj hrun)

/-- the run condition of a tie group after the sort: consecutive responses between positions `i`
and `j` do not increase (increasing fit) resp. do not decrease (decreasing fit) -/
def fit_TieRun (inc : Bool) (y : List K) (i j : Nat) : Prop :=
  ∀ k, i ≤ k → k < j → if inc then y[k + 1]! ≤ y[k]! else y[k]! ≤ y[k + 1]!

theorem fit_get!_reverse {α : Type} [Inhabited α] (l : List α) (i : Nat) (hi : i < l.length) :
    l.reverse[i]! = l[l.length - 1 - i]! := by
  rw [fit_get!_eq_getD, fit_get!_eq_getD, List.getElem?_reverse hi]

theorem fit_obs_fst (inc : Bool) (y wl : List K) (hlen : wl.length = y.length) (k : Nat)
    (u : Obs K) (hu : (orient inc (y.zip wl))[k]? = some u) : (orient inc y)[k]! = u.1 := by
  rw [← obs_map_fst inc y wl hlen, fit_get!_eq_getD, List.getElem?_map, hu]
  rfl

/-- **`C11_ties_one_block` at the level of `isoReg`**: along a run of consecutive responses that do
not strictly increase in the fitted direction, the fit of every functional is constant. -/
theorem fit_isoReg_run_const {fn : Option Functional} {α : K} {inc : Bool} {y : List K}
    {w : Option (List K)} {x : List K} {r : List Nat} (h : isoReg fn α inc y w = .ok (x, r))
    (i j : Nat) (hij : i ≤ j) (hj : j < y.length) (hrun : fit_TieRun inc y i j) :
    x[i]! = x[j]! := by
  obtain ⟨v, hv, rfl, _⟩ := isoReg_inv h
  obtain ⟨hne, hlen, hpos, hf, _⟩ := eqValidate_ok hv
  have hFlen := eqFit_length hf (orient inc (y.zip v.2.2)) (orient_zip_snd_pos inc hpos)
  rw [obs_length inc y _ hlen] at hFlen
  have hobs := obs_length inc y _ hlen
  have hfst := fit_obs_fst inc y _ hlen
  simp only [eqOut]
  cases inc
  · -- decreasing fit: everything is mirrored
    simp only [orient_false] at *
    rw [fit_get!_reverse _ _ (by omega), fit_get!_reverse _ _ (by omega), hFlen]
    symm
    apply fit_get!_of_get?
    refine fit_eqFit_run_const hf _ (orient_zip_snd_pos false hpos) _ _ (by omega)
      (by simp only [orient_false]; omega) ?_
    intro k hk1 hk2 u v' hu hv'
    have hk : k + 1 < y.length := by omega
    rw [← hfst k u hu, ← hfst (k + 1) v' hv', fit_get!_reverse _ _ (by omega),
      fit_get!_reverse _ _ (by omega)]
    have := hrun (y.length - 1 - (k + 1)) (by omega) (by omega)
    simp only [Bool.false_eq_true, if_false] at this
    rwa [show y.length - 1 - (k + 1) + 1 = y.length - 1 - k by omega] at this
  · simp only [orient_true] at *
    apply fit_get!_of_get?
    refine fit_eqFit_run_const hf _ (orient_zip_snd_pos true hpos) _ _ hij
      (by simp only [orient_true]; omega) ?_
    intro k hk1 hk2 u v' hu hv'
    rw [← hfst k u hu, ← hfst (k + 1) v' hv']
    have := hrun k hk1 hk2
    simpa using this

omit [Inhabited K] in
theorem fit_eqFit_sorted {f : Functional} {α : K} (hf : FitOK f α) (obs : List (Obs K))
    (hpos : ∀ o ∈ obs, 0 < o.2) : (eqFit f α obs).1.Pairwise (· ≤ ·) := by
  cases f
  · rw [eqFit_mean _ _ hpos]; exact expand_gpava_sorted wmean_internal obs hpos
  · exact absurd rfl hf.notMedian
  · obtain ⟨h0, h1⟩ := hf.lvl (Or.inl rfl)
    exact expand_gpava_sorted (expectileFun α h0 h1).internal obs hpos
  · obtain ⟨h0, h1⟩ := hf.lvl (Or.inr rfl)
    exact quantileFit_sorted α h0 h1 obs

omit [Inhabited K] in
/-- the fit of every functional is monotone in the requested direction -/
theorem fit_isoReg_monotone {fn : Option Functional} {α : K} {inc : Bool} {y : List K}
    {w : Option (List K)} {x : List K} {r : List Nat} (h : isoReg fn α inc y w = .ok (x, r)) :
    MonoDir inc x := by
  obtain ⟨v, hv, rfl, _⟩ := isoReg_inv h
  obtain ⟨hne, hlen, hpos, hf, _⟩ := eqValidate_ok hv
  simp only [eqOut]
  rw [monoDir_orient]
  exact fit_eqFit_sorted hf _ (orient_zip_snd_pos inc hpos)

end Lift

/-! ## E. The sort -/

section RowSort

omit [Field K] [IsStrictOrderedRing K] [Inhabited K] in
/-- the sort key: `X` ascending, ties by `y` descending (increasing fit) / ascending -/
theorem fit_rowLe_iff (inc : Bool) (a b : Row K) :
    rowLe inc a b = true ↔
      a.x < b.x ∨ (a.x = b.x ∧ if inc then b.y ≤ a.y else a.y ≤ b.y) := by
  unfold rowLe
  rcases lt_trichotomy a.x b.x with h | h | h
  · simp [h]
  · cases inc <;> simp [h]
  · simp [h, not_lt.mpr h.le, h.ne']

omit [Field K] [IsStrictOrderedRing K] [Inhabited K] in
theorem fit_rowLe_total (inc : Bool) (a b : Row K) : (rowLe inc a b || rowLe inc b a) = true := by
  rw [Bool.or_eq_true, fit_rowLe_iff, fit_rowLe_iff]
  rcases lt_trichotomy a.x b.x with h | h | h
  · exact Or.inl (Or.inl h)
  · cases inc
    · rcases le_total a.y b.y with h' | h'
      · exact Or.inl (Or.inr ⟨h, by simpa using h'⟩)
      · exact Or.inr (Or.inr ⟨h.symm, by simpa using h'⟩)
    · rcases le_total a.y b.y with h' | h'
      · exact Or.inr (Or.inr ⟨h.symm, by simpa using h'⟩)
      · exact Or.inl (Or.inr ⟨h, by simpa using h'⟩)
  · exact Or.inr (Or.inl h)

omit [Field K] [IsStrictOrderedRing K] [Inhabited K] in
theorem fit_rowLe_trans (inc : Bool) (a b c : Row K) (h1 : rowLe inc a b = true)
    (h2 : rowLe inc b c = true) : rowLe inc a c = true := by
  rw [fit_rowLe_iff] at *
  rcases h1 with h1 | ⟨h1, h1'⟩ <;> rcases h2 with h2 | ⟨h2, h2'⟩
  · exact Or.inl (lt_trans h1 h2)
  · exact Or.inl (h2 ▸ h1)
  · exact Or.inl (h1 ▸ h2)
  · refine Or.inr ⟨h1.trans h2, ?_⟩
    cases inc
    · simp only [Bool.false_eq_true, if_false] at *; exact le_trans h1' h2'
    · simp only [if_true] at *; exact le_trans h2' h1'

omit [Field K] [IsStrictOrderedRing K] [Inhabited K] in
/-- the sort key identifies rows up to their weight -/
theorem fit_rowLe_antisymm (inc : Bool) (a b : Row K) (h1 : rowLe inc a b = true)
    (h2 : rowLe inc b a = true) : a.x = b.x ∧ a.y = b.y := by
  rw [fit_rowLe_iff] at *
  rcases h1 with h1 | ⟨h1, h1'⟩ <;> rcases h2 with h2 | ⟨h2, h2'⟩
  · exact absurd (lt_trans h1 h2) (lt_irrefl _)
  · exact absurd (h2 ▸ h1) (lt_irrefl _)
  · exact absurd (h1 ▸ h2) (lt_irrefl _)
  · refine ⟨h1, ?_⟩
    cases inc
    · simp only [Bool.false_eq_true, if_false] at *; exact le_antisymm h1' h2'
    · simp only [if_true] at *; exact le_antisymm h2' h1'

omit [Field K] [IsStrictOrderedRing K] [Inhabited K] in
theorem fit_sorted_pairwise (inc : Bool) (rows : List (Row K)) :
    (rows.mergeSort (rowLe inc)).Pairwise (fun a b => rowLe inc a b = true) :=
  List.pairwise_mergeSort (fit_rowLe_trans inc) (fit_rowLe_total inc) rows

omit [Field K] [IsStrictOrderedRing K] [Inhabited K] in
/-- after the sort the `X` column is non-decreasing -/
theorem fit_sorted_x (inc : Bool) (rows : List (Row K)) :
    ((rows.mergeSort (rowLe inc)).map (·.x)).Pairwise (· ≤ ·) := by
  rw [List.pairwise_map]
  refine (fit_sorted_pairwise inc rows).imp ?_
  intro a b h
  rcases (fit_rowLe_iff inc a b).mp h with h | ⟨h, _⟩
  · exact h.le
  · exact h.le

/-- after the sort a tie group in `X` is a run of responses that do not increase (increasing fit)
resp. do not decrease (decreasing fit) -/
theorem fit_tieRun_of_sorted (inc : Bool) (l : List (Row K))
    (hl : l.Pairwise (fun a b => rowLe inc a b = true)) (i j : Nat) (hj : j < l.length)
    (hx : (l.map (·.x))[i]! = (l.map (·.x))[j]!) : fit_TieRun inc (l.map (·.y)) i j := by
  intro k hk1 hk2
  have hxs : (l.map (·.x)).Pairwise (· ≤ ·) := by
    rw [List.pairwise_map]
    refine hl.imp ?_
    intro a b h
    rcases (fit_rowLe_iff inc a b).mp h with h | ⟨h, _⟩
    · exact h.le
    · exact h.le
  have hlen : (l.map (·.x)).length = l.length := List.length_map _
  have h1 : (l.map (·.x))[i]! ≤ (l.map (·.x))[k]! := fit_sorted_get! hxs hk1 (by omega)
  have h2 : (l.map (·.x))[k]! ≤ (l.map (·.x))[k + 1]! := fit_sorted_get! hxs (by omega) (by omega)
  have h3 : (l.map (·.x))[k + 1]! ≤ (l.map (·.x))[j]! := fit_sorted_get! hxs (by omega) (by omega)
  have he : (l.map (·.x))[k]! = (l.map (·.x))[k + 1]! :=
    le_antisymm h2 (by rw [← hx] at h3; exact le_trans h3 h1)
  have hk : k < l.length := by omega
  have hk' : k + 1 < l.length := by omega
  rw [fit_get! _ k (by omega), fit_get! _ (k + 1) (by omega), List.getElem_map,
    List.getElem_map] at he
  rw [fit_get! _ k (by simpa using hk), fit_get! _ (k + 1) (by simpa using hk'), List.getElem_map,
    List.getElem_map]
  have hle := List.pairwise_iff_getElem.mp hl k (k + 1) hk hk' (by omega)
  rcases (fit_rowLe_iff inc _ _).mp hle with h | ⟨_, h⟩
  · exact absurd h (by rw [he]; exact lt_irrefl _)
  · exact h

/-- the rows `fit` builds from its arguments -/
def fit_rows (X y : List K) (w : Option (List K)) : List (Row K) :=
  List.zipWith (fun (p : K × K) w => (⟨p.1, p.2, w⟩ : Row K)) (List.zip X y)
    (match w with
      | some w' => w'
      | none => y.map (fun _ => (1 : K)))

/-- the sorted training sample -/
def fit_sorted (inc : Bool) (X y : List K) (w : Option (List K)) : List (Row K) :=
  (fit_rows X y w).mergeSort (rowLe inc)

theorem fit_bind_ok {ε α β : Type} {m : Except ε α} {f : α → Except ε β} {b : β}
    (h : m >>= f = .ok b) : ∃ a, m = .ok a ∧ f a = .ok b := by
  cases m with
  | error e => cases h
  | ok a => exact ⟨a, rfl, h⟩

/-- inversion of a successful `fit` -/
theorem fit_isoFit_inv {fn : Option Functional} {α : K} {inc : Bool} {X y : List K}
    {w : Option (List K)} {tx ty : List K} (h : isoFit fn α inc X y w = .ok (tx, ty)) :
    X.length = y.length ∧ (∀ w', w = some w' → w'.length = y.length) ∧
    ∃ yiso r, isoReg fn α inc ((fit_sorted inc X y w).map (·.y))
        (w.map (fun _ => (fit_sorted inc X y w).map (·.w))) = .ok (yiso, r) ∧
      tx = (thresholdIdx r ((fit_sorted inc X y w).map (·.x)) yiso).map
        (fun i => ((fit_sorted inc X y w).map (·.x))[i]!) ∧
      ty = (thresholdIdx r ((fit_sorted inc X y w).map (·.x)) yiso).map (fun i => yiso[i]!) := by
  unfold isoFit at h
  by_cases h1 : X.length ≠ y.length
  · rw [if_pos h1] at h
    cases h
  rw [if_neg h1] at h
  rw [not_not] at h1
  cases w with
  | none =>
    obtain ⟨⟨yiso, r⟩, hr, hp⟩ := fit_bind_ok h
    refine ⟨h1, fun w' hw => (by cases hw), yiso, r, hr, ?_⟩
    have := Except.ok.inj hp
    exact ⟨(Prod.mk.inj this).1.symm, (Prod.mk.inj this).2.symm⟩
  | some w' =>
    by_cases h2 : w'.length ≠ y.length
    · simp only [if_pos h2] at h
      cases h
    simp only [if_neg h2] at h
    rw [not_not] at h2
    obtain ⟨⟨yiso, r⟩, hr, hp⟩ := fit_bind_ok h
    refine ⟨h1, fun w'' hw => (by cases hw; exact h2), yiso, r, hr, ?_⟩
    have := Except.ok.inj hp
    exact ⟨(Prod.mk.inj this).1.symm, (Prod.mk.inj this).2.symm⟩

/-- **`C11_ties_one_block` for the model's sort**: on the sorted sample, positions with equal `X`
carry equal fitted values — for every functional and both directions. -/
theorem fit_ties_one_block {fn : Option Functional} {α : K} {inc : Bool} (rows : List (Row K))
    (wopt : Option (List K)) {yiso : List K} {r : List Nat}
    (h : isoReg fn α inc ((rows.mergeSort (rowLe inc)).map (·.y)) wopt = .ok (yiso, r))
    (i j : Nat) (hi : i < yiso.length) (hj : j < yiso.length)
    (hx : ((rows.mergeSort (rowLe inc)).map (·.x))[i]! = ((rows.mergeSort (rowLe inc)).map (·.x))[j]!) :
    yiso[i]! = yiso[j]! := by
  have hlen := isoReg_length h
  rw [List.length_map] at hlen
  have hs := fit_sorted_pairwise inc rows
  rcases le_total i j with hij | hij
  · exact fit_isoReg_run_const h i j hij (by simpa using (by omega : j < (rows.mergeSort (rowLe inc)).length))
      (fit_tieRun_of_sorted inc _ hs i j (by omega) hx)
  · exact (fit_isoReg_run_const h j i hij (by simpa using (by omega : i < (rows.mergeSort (rowLe inc)).length))
      (fit_tieRun_of_sorted inc _ hs j i (by omega) hx.symm)).symm

end RowSort

/-! ## F. The fitted model: `isoFit` followed by `interp` -/

section Main
variable {fn : Option Functional} {α : K} {inc : Bool} {X y : List K} {w : Option (List K)}
  {tx ty yiso : List K} {r : List Nat}

/-- the facts about a successful `fit` that the prediction theorems need: `xs` is the sorted `X`
column, `(yiso, r)` the isotonic fit of the sorted responses -/
structure fit_Fitted (inc : Bool) (xs yiso : List K) (r : List Nat) (tx ty : List K) : Prop where
  len : xs.length = yiso.length
  ne : yiso ≠ []
  sorted : xs.Pairwise (· ≤ ·)
  block : BlockVec yiso r
  mono : MonoDir inc yiso
  ties : ∀ i j, i < yiso.length → j < yiso.length → xs[i]! = xs[j]! → yiso[i]! = yiso[j]!
  tx_eq : tx = (thresholdIdx r xs yiso).map (fun i => xs[i]!)
  ty_eq : ty = (thresholdIdx r xs yiso).map (fun i => yiso[i]!)

/-- a successful `fit` yields a `fit_Fitted` record -/
theorem fit_isoFit_fitted (h : isoFit fn α inc X y w = .ok (tx, ty))
    (hr : isoReg fn α inc ((fit_sorted inc X y w).map (·.y))
      (w.map (fun _ => (fit_sorted inc X y w).map (·.w))) = .ok (yiso, r)) :
    fit_Fitted inc ((fit_sorted inc X y w).map (·.x)) yiso r tx ty := by
  obtain ⟨_, _, yiso', r', hr', htx, hty⟩ := fit_isoFit_inv h
  rw [hr] at hr'
  obtain ⟨rfl, rfl⟩ := Prod.mk.inj (Except.ok.inj hr')
  have hlen := isoReg_length hr
  rw [List.length_map] at hlen
  have hne : yiso ≠ [] := by
    obtain ⟨v, hv, _, _⟩ := isoReg_inv hr
    have := (eqValidate_ok hv).1
    intro he
    rw [he] at hlen
    apply this
    apply List.eq_nil_of_length_eq_zero
    rw [List.length_map]
    exact hlen.symm
  exact ⟨by rw [List.length_map]; exact hlen.symm, hne, fit_sorted_x inc _, isoReg_blockVec hr,
    fit_isoReg_monotone hr, fun i j hi hj hx => fit_ties_one_block _ _ hr i j hi hj hx, htx, hty⟩

/-- a successful `fit` always comes with its isotonic fit -/
theorem fit_isoFit_exists (h : isoFit fn α inc X y w = .ok (tx, ty)) :
    ∃ yiso r, isoReg fn α inc ((fit_sorted inc X y w).map (·.y))
      (w.map (fun _ => (fit_sorted inc X y w).map (·.w))) = .ok (yiso, r) := by
  obtain ⟨_, _, yiso, r, hr, _⟩ := fit_isoFit_inv h
  exact ⟨yiso, r, hr⟩

variable {xs : List K}

theorem fit_Fitted.rvec (F : fit_Fitted inc xs yiso r tx ty) : fit_RVec r yiso.length :=
  fit_rvec_of_blockVec F.block F.ne

theorem fit_Fitted.tx_sorted (F : fit_Fitted inc xs yiso r tx ty) : tx.Pairwise (· ≤ ·) := by
  rw [F.tx_eq]
  exact fit_thresholds_sorted F.rvec F.len F.sorted

theorem fit_Fitted.tx_pos (F : fit_Fitted inc xs yiso r tx ty) : 0 < tx.length := by
  rw [F.tx_eq, List.length_map]; exact fit_thresholdIdx_pos

theorem fit_Fitted.ty_len (F : fit_Fitted inc xs yiso r tx ty) : ty.length = tx.length := by
  rw [F.tx_eq, F.ty_eq, List.length_map, List.length_map]

/-- the threshold values are monotone in the fitted direction -/
theorem fit_Fitted.ty_mono (F : fit_Fitted inc xs yiso r tx ty) : MonoDir inc ty := by
  have hstrict := fit_thresholdIdx_strict (xs := xs) (ys := yiso) F.rvec
  have hlt := fit_thresholdIdx_lt (xs := xs) (ys := yiso) F.rvec
  have hm := F.mono
  rw [F.ty_eq]
  cases inc
  · rw [monoDir_false] at hm ⊢
    rw [List.pairwise_map]
    refine hstrict.imp_of_mem ?_
    intro a b _ hb hab
    exact fit_pairwise_get! hm hab (hlt b hb)
  · rw [monoDir_true] at hm ⊢
    rw [List.pairwise_map]
    refine hstrict.imp_of_mem ?_
    intro a b _ hb hab
    exact fit_pairwise_get! hm hab (hlt b hb)

/-- predictions at the (sorted) training points are the fitted values -/
theorem fit_Fitted.train (F : fit_Fitted inc xs yiso r tx ty) (p : Nat) (hp : p < yiso.length) :
    interp tx ty xs[p]! = yiso[p]! := by
  rw [F.tx_eq, F.ty_eq]
  exact fit_train_eq F.len F.sorted F.block F.ties p hp

/-- the prediction function is monotone in the fitted direction -/
theorem fit_Fitted.predict_mono (F : fit_Fitted inc xs yiso r tx ty) (q₁ q₂ : K) (hq : q₁ ≤ q₂) :
    if inc then interp tx ty q₁ ≤ interp tx ty q₂ else interp tx ty q₂ ≤ interp tx ty q₁ := by
  have hm := F.ty_mono
  cases inc
  · simp only [Bool.false_eq_true, if_false]
    exact fit_interp_anti tx ty F.tx_pos F.ty_len F.tx_sorted hm q₁ q₂ hq
  · simp only [if_true]
    exact fit_interp_mono tx ty F.tx_pos F.ty_len F.tx_sorted hm q₁ q₂ hq

/-- predictions are constant at and below the smallest training `X` … -/
theorem fit_Fitted.predict_below (F : fit_Fitted inc xs yiso r tx ty) (q : K) (hq : q ≤ xs[0]!) :
    interp tx ty q = yiso[0]! := by
  have hn : 0 < yiso.length := List.length_pos_iff.mpr F.ne
  rcases lt_or_eq_of_le hq with hlt | rfl
  · have h0 : tx[0]! = xs[0]! := by
      rw [F.tx_eq, fit_get!_map _ _ _ fit_thresholdIdx_pos, fit_thresholdIdx_head F.rvec]
    rw [fit_interp_left tx ty q (by rw [h0]; exact hlt), F.ty_eq,
      fit_get!_map _ _ _ fit_thresholdIdx_pos, fit_thresholdIdx_head F.rvec]
  · exact F.train 0 hn

/-- … and at and above the largest training `X` -/
theorem fit_Fitted.predict_above (F : fit_Fitted inc xs yiso r tx ty) (q : K)
    (hq : xs[yiso.length - 1]! ≤ q) : interp tx ty q = yiso[yiso.length - 1]! := by
  have hn : 0 < yiso.length := List.length_pos_iff.mpr F.ne
  have hlast : tx[tx.length - 1]! ≤ xs[yiso.length - 1]! := by
    have hp := F.tx_pos
    have hlen : tx.length = (thresholdIdx r xs yiso).length := by rw [F.tx_eq, List.length_map]
    have hb : (thresholdIdx r xs yiso)[tx.length - 1]! < yiso.length :=
      fit_thresholdIdx_lt F.rvec _ (fit_get!_mem _ _ (by omega))
    have e : tx[tx.length - 1]! = xs[(thresholdIdx r xs yiso)[tx.length - 1]!]! := by
      conv_lhs => rw [F.tx_eq]
      rw [fit_get!_map _ _ _ (by rw [List.length_map]; omega), List.length_map, ← hlen]
    rw [e]
    exact fit_sorted_get! F.sorted (by omega) (by rw [F.len]; omega)
  rw [fit_interp_right tx ty q F.tx_pos F.tx_sorted (le_trans hlast hq),
    ← fit_interp_right tx ty _ F.tx_pos F.tx_sorted hlast]
  exact F.train _ (by omega)

end Main

/-! ## G. Row order -/

section RowOrder

omit [Field K] [IsStrictOrderedRing K] [Inhabited K] in
/-- The sorted sample does not depend on the order of the rows, provided rows with the same
`(X, y)` also have the same weight (always true without weights). -/
theorem fit_mergeSort_perm_eq (inc : Bool) {rows₁ rows₂ : List (Row K)} (hp : rows₁.Perm rows₂)
    (hdup : ∀ a ∈ rows₁, ∀ b ∈ rows₁, a.x = b.x → a.y = b.y → a.w = b.w) :
    rows₁.mergeSort (rowLe inc) = rows₂.mergeSort (rowLe inc) := by
  refine List.Perm.eq_of_pairwise (le := fun a b => rowLe inc a b = true) ?_
    (fit_sorted_pairwise inc rows₁) (fit_sorted_pairwise inc rows₂)
    ((List.mergeSort_perm rows₁ _).trans (hp.trans (List.mergeSort_perm rows₂ _).symm))
  intro a b ha hb h1 h2
  have ha' : a ∈ rows₁ := List.mem_mergeSort.mp ha
  have hb' : b ∈ rows₁ := hp.mem_iff.mpr (List.mem_mergeSort.mp hb)
  obtain ⟨hx, hy⟩ := fit_rowLe_antisymm inc a b h1 h2
  have hw := hdup a ha' b hb' hx hy
  cases a; cases b
  simp only at hx hy hw
  rw [hx, hy, hw]

omit [Field K] [IsStrictOrderedRing K] [Inhabited K] in
/-- In general (conflicting weights on duplicate `(X, y)` rows allowed) the sorted `X` and `y`
columns do not depend on the order of the rows. -/
theorem fit_mergeSort_perm_keys (inc : Bool) {rows₁ rows₂ : List (Row K)} (hp : rows₁.Perm rows₂) :
    (rows₁.mergeSort (rowLe inc)).map (fun a => (a.x, a.y))
      = (rows₂.mergeSort (rowLe inc)).map (fun a => (a.x, a.y)) := by
  have hpw : ∀ rows : List (Row K),
      ((rows.mergeSort (rowLe inc)).map (fun a => (a.x, a.y))).Pairwise
        (fun k₁ k₂ : K × K => k₁.1 < k₂.1 ∨ (k₁.1 = k₂.1 ∧ if inc then k₂.2 ≤ k₁.2 else k₁.2 ≤ k₂.2)) := by
    intro rows
    rw [List.pairwise_map]
    exact (fit_sorted_pairwise inc rows).imp (fun h => (fit_rowLe_iff inc _ _).mp h)
  refine List.Perm.eq_of_pairwise ?_ (hpw rows₁) (hpw rows₂)
    (((List.mergeSort_perm rows₁ _).trans (hp.trans (List.mergeSort_perm rows₂ _).symm)).map _)
  rintro ⟨x₁, y₁⟩ ⟨x₂, y₂⟩ _ _ h1 h2
  simp only at h1 h2
  rcases h1 with h1 | ⟨h1, h1'⟩ <;> rcases h2 with h2 | ⟨h2, h2'⟩
  · exact absurd (lt_trans h1 h2) (lt_irrefl _)
  · exact absurd (h2 ▸ h1) (lt_irrefl _)
  · exact absurd (h1 ▸ h2) (lt_irrefl _)
  · subst h1
    cases inc
    · simp only [Bool.false_eq_true, if_false] at *; rw [le_antisymm h1' h2']
    · simp only [if_true] at *; rw [le_antisymm h2' h1']

/-- normal form of `fit` once the length checks pass: it is a function of the sorted sample (and of
whether weights were given) -/
theorem fit_isoFit_eq (fn : Option Functional) (α : K) (inc : Bool) (X y : List K)
    (w : Option (List K)) (hX : X.length = y.length)
    (hw : ∀ w', w = some w' → w'.length = y.length) :
    isoFit fn α inc X y w =
      (isoReg fn α inc ((fit_sorted inc X y w).map (·.y))
        (w.map (fun _ => (fit_sorted inc X y w).map (·.w)))) >>= fun p =>
      pure ((thresholdIdx p.2 ((fit_sorted inc X y w).map (·.x)) p.1).map
              (fun i => ((fit_sorted inc X y w).map (·.x))[i]!),
            (thresholdIdx p.2 ((fit_sorted inc X y w).map (·.x)) p.1).map (fun i => p.1[i]!)) := by
  unfold isoFit
  rw [if_neg (not_not.mpr hX)]
  cases w with
  | none => rfl
  | some w' =>
    simp only [if_neg (not_not.mpr (hw w' rfl))]
    rfl

/-- **Row order does not matter**: two training samples whose rows are permutations of each other
(and on which rows with identical `(X, y)` have identical weights) give the same fitted model. -/
theorem fit_isoFit_row_order_free (fn : Option Functional) (α : K) (inc : Bool)
    (X₁ y₁ X₂ y₂ : List K) (w₁ w₂ : Option (List K))
    (hX₁ : X₁.length = y₁.length) (hX₂ : X₂.length = y₂.length)
    (hw₁ : ∀ w', w₁ = some w' → w'.length = y₁.length)
    (hw₂ : ∀ w', w₂ = some w' → w'.length = y₂.length)
    (hsome : w₁.isSome = w₂.isSome)
    (hperm : (fit_rows X₁ y₁ w₁).Perm (fit_rows X₂ y₂ w₂))
    (hdup : ∀ a ∈ fit_rows X₁ y₁ w₁, ∀ b ∈ fit_rows X₁ y₁ w₁, a.x = b.x → a.y = b.y → a.w = b.w) :
    isoFit fn α inc X₁ y₁ w₁ = isoFit fn α inc X₂ y₂ w₂ := by
  have hs : fit_sorted inc X₁ y₁ w₁ = fit_sorted inc X₂ y₂ w₂ :=
    fit_mergeSort_perm_eq inc hperm hdup
  rw [fit_isoFit_eq fn α inc X₁ y₁ w₁ hX₁ hw₁, fit_isoFit_eq fn α inc X₂ y₂ w₂ hX₂ hw₂, hs]
  cases w₁ <;> cases w₂ <;> simp at hsome <;> rfl

/-- without weights every row has weight `1` -/
theorem fit_rows_none_w (X y : List K) : ∀ a ∈ fit_rows X y none, a.w = 1 := by
  intro a ha
  unfold fit_rows at ha
  obtain ⟨i, hi, rfl⟩ := List.getElem_of_mem ha
  simp

/-- the unweighted case needs no side condition -/
theorem fit_isoFit_row_order_free_unweighted (fn : Option Functional) (α : K) (inc : Bool)
    (X₁ y₁ X₂ y₂ : List K) (hX₁ : X₁.length = y₁.length) (hX₂ : X₂.length = y₂.length)
    (hperm : (List.zip X₁ y₁).Perm (List.zip X₂ y₂)) :
    isoFit fn α inc X₁ y₁ none = isoFit fn α inc X₂ y₂ none := by
  have hrows : ∀ X y : List K, X.length = y.length →
      fit_rows X y none = (List.zip X y).map (fun p => (⟨p.1, p.2, 1⟩ : Row K)) := by
    intro X y hlen
    unfold fit_rows
    apply List.ext_getElem
    · simp
    · intro i h1 h2
      simp
  refine fit_isoFit_row_order_free fn α inc X₁ y₁ X₂ y₂ none none hX₁ hX₂
    (fun _ h => by cases h) (fun _ h => by cases h) rfl ?_ ?_
  · rw [hrows X₁ y₁ hX₁, hrows X₂ y₂ hX₂]
    exact hperm.map _
  · intro a ha b hb _ _
    rw [fit_rows_none_w X₁ y₁ a ha, fit_rows_none_w X₁ y₁ b hb]

end RowOrder

/-! ## H. Training points in the original order; optimality among functions of `X` -/

section Optimal
variable {fn : Option Functional} {α : K} {inc : Bool} {X y : List K} {w : Option (List K)}
  {tx ty yiso xs : List K} {r : List Nat}

/-- the predictions at the sorted training points, as a list, are the fitted sequence -/
theorem fit_Fitted.train_list (F : fit_Fitted inc xs yiso r tx ty) :
    xs.map (interp tx ty) = yiso := by
  apply List.ext_getElem
  · rw [List.length_map]; exact F.len
  · intro p h1 h2
    have := F.train p h2
    rw [fit_get! yiso p h2, fit_get! xs p (by rw [F.len]; exact h2)] at this
    rw [List.getElem_map]
    exact this

omit [Inhabited K] in
theorem fit_monoDir_map (inc : Bool) {xs : List K} (hxs : xs.Pairwise (· ≤ ·)) (g : K → K)
    (hg : if inc then Monotone g else Antitone g) : MonoDir inc (xs.map g) := by
  cases inc
  · simp only [Bool.false_eq_true, if_false] at hg
    rw [monoDir_false, List.pairwise_map]
    exact hxs.imp (fun h => hg h)
  · simp only [if_true] at hg
    rw [monoDir_true, List.pairwise_map]
    exact hxs.imp (fun h => hg h)

/-- If the fitted sequence is optimal for a score among all sequences that are monotone in the
fitted direction, then the prediction function is optimal among all monotone functions of `X`
(a function of `X` gives tied rows the same value; so does the fit — `ties`). -/
theorem fit_Fitted.optimal (F : fit_Fitted inc xs yiso r tx ty) (S : Obs K → K → K)
    (d : List (Obs K))
    (hopt : ∀ zs : List K, zs.length = yiso.length → MonoDir inc zs → total S d yiso ≤ total S d zs)
    (g : K → K) (hg : if inc then Monotone g else Antitone g) :
    total S d (xs.map (interp tx ty)) ≤ total S d (xs.map g) := by
  rw [F.train_list]
  exact hopt _ (by rw [List.length_map]; exact F.len) (fit_monoDir_map inc F.sorted g hg)

omit [Inhabited K] in
/-- a total score over the columns of a list of rows is a sum over the rows -/
theorem fit_total_rows (S : Obs K → K → K) (f : K → K) (l : List (Row K)) :
    total S ((l.map (·.y)).zip (l.map (·.w))) ((l.map (·.x)).map f)
      = (l.map (fun a => S (a.y, a.w) (f a.x))).sum := by
  unfold total
  induction l with
  | nil => simp
  | cons a l ih =>
    simp only [List.map_cons, List.zip_cons_cons, List.zipWith_cons_cons, List.sum_cons]
    rw [ih]

/-- every original training row sits at some position of the sorted sample, and the prediction at
its `X` is the fitted value at that position -/
theorem fit_isoFit_train_orig (h : isoFit fn α inc X y w = .ok (tx, ty))
    (hr : isoReg fn α inc ((fit_sorted inc X y w).map (·.y))
      (w.map (fun _ => (fit_sorted inc X y w).map (·.w))) = .ok (yiso, r))
    (k : Nat) (hk : k < X.length) :
    ∃ p, p < yiso.length ∧ (fit_sorted inc X y w)[p]? = (fit_rows X y w)[k]? ∧
      ((fit_sorted inc X y w).map (·.x))[p]! = X[k]! ∧ interp tx ty X[k]! = yiso[p]! := by
  obtain ⟨hX, hw, _⟩ := fit_isoFit_inv h
  have F := fit_isoFit_fitted h hr
  have hlenr : (fit_rows X y w).length = X.length := by
    unfold fit_rows
    cases w with
    | none => simp [hX]
    | some w' => simp [hX, hw w' rfl]
  have hk' : k < (fit_rows X y w).length := by omega
  have hmem : (fit_rows X y w)[k] ∈ fit_sorted inc X y w :=
    List.mem_mergeSort.mpr (List.getElem_mem hk')
  obtain ⟨p, hp, hpe⟩ := List.getElem_of_mem hmem
  have hxk : ((fit_rows X y w)[k]).x = X[k] := by
    unfold fit_rows
    simp
  have hlen := F.len
  rw [List.length_map] at hlen
  have hxp : ((fit_sorted inc X y w).map (·.x))[p]! = X[k]! := by
    rw [fit_get! _ p (by simpa using hp), List.getElem_map, hpe, hxk, fit_get! X k hk]
  refine ⟨p, by omega, ?_, hxp, ?_⟩
  · rw [List.getElem?_eq_getElem hp, List.getElem?_eq_getElem hk', hpe]
  · rw [← hxp]
    exact F.train p (by omega)

/-- predictions never leave the range of the fitted values -/
theorem fit_Fitted.predict_range (F : fit_Fitted inc xs yiso r tx ty) (q : K) :
    if inc then yiso[0]! ≤ interp tx ty q ∧ interp tx ty q ≤ yiso[yiso.length - 1]!
    else yiso[yiso.length - 1]! ≤ interp tx ty q ∧ interp tx ty q ≤ yiso[0]! := by
  have hlo := F.predict_below (min q xs[0]!) (min_le_right _ _)
  have hhi := F.predict_above (max q xs[yiso.length - 1]!) (le_max_right _ _)
  have h1 := F.predict_mono (min q xs[0]!) q (min_le_left _ _)
  have h2 := F.predict_mono q (max q xs[yiso.length - 1]!) (le_max_left _ _)
  rw [hlo] at h1
  rw [hhi] at h2
  cases inc
  · simp only [Bool.false_eq_true, if_false] at *
    exact ⟨h2, h1⟩
  · simp only [if_true] at *
    exact ⟨h1, h2⟩

/-- sequence optimality of the weighted mean fit (as `C01_optimal`) -/
theorem fit_mean_seq_optimal (α : K) (inc : Bool) (y w : List K) (hlen : w.length = y.length)
    (x : List K) (r : List Nat) (h : isoReg (some .mean) α inc y (some w) = .ok (x, r))
    (zs : List K) (hz : zs.length = y.length) (hm : MonoDir inc zs) :
    total sqErr.S (y.zip w) x ≤ total sqErr.S (y.zip w) zs := by
  have hpos : ∀ v ∈ w, 0 < v := by
    intro v hv
    by_contra hcon
    rw [isoReg_mean_weight_error α inc y w hlen ⟨v, hv, not_lt.mp hcon⟩] at h
    cases h
  have hne : y ≠ [] := by
    obtain ⟨v, hv, _, _⟩ := isoReg_inv h
    exact (eqValidate_ok hv).1
  have hp := orient_zip_snd_pos inc (y := y) hpos
  rw [isoReg_mean_x hne hlen hpos h]
  refine orient_optimal sqErr.S inc (y.zip w) _ ?_ ?_ zs (hz.trans (zip_length_of_eq hlen).symm) hm
  · rw [C01_expand_length _ hp, orient_length]
  · intro zs' hl hs
    exact C01_optimal_inc _ hp zs' hl hs

/-- **Optimality among functions of `X`** (weighted mean): the fitted prediction function minimises
the weighted squared error over the training rows among all functions of `X` that are monotone in
the fitted direction. -/
theorem fit_isoFit_optimal_mean (α : K) (inc : Bool) (X y wl tx ty : List K)
    (h : isoFit (some .mean) α inc X y (some wl) = .ok (tx, ty)) (g : K → K)
    (hg : if inc then Monotone g else Antitone g) :
    ((fit_rows X y (some wl)).map
        (fun a => a.w * ((a.y - interp tx ty a.x) * (a.y - interp tx ty a.x)))).sum
      ≤ ((fit_rows X y (some wl)).map (fun a => a.w * ((a.y - g a.x) * (a.y - g a.x)))).sum := by
  obtain ⟨yiso, r, hr⟩ := fit_isoFit_exists h
  have F := fit_isoFit_fitted h hr
  simp only [Option.map_some] at hr
  have hopt := F.optimal sqErr.S _
    (fun zs hz hm => fit_mean_seq_optimal α inc _ _ (by simp) yiso r hr zs
      (by rw [hz, isoReg_length hr]) hm) g hg
  rw [fit_total_rows, fit_total_rows] at hopt
  have hperm : (fit_sorted inc X y (some wl)).Perm (fit_rows X y (some wl)) :=
    List.mergeSort_perm _ _
  rw [(hperm.map _).sum_eq, (hperm.map _).sum_eq] at hopt
  exact hopt

end Optimal

/-! ## I. Row order with conflicting weights on duplicate `(X, y)` rows -/

section RowOrderGeneral

/-- a total score over the columns of a list of rows, for a sequence that is a function of the
row's `(X, y)`, is a sum over the rows -/
theorem fit_total_rows_key (S : Obs K → K → K) (φ : K × K → K) (l : List (Row K)) :
    total S ((l.map (·.y)).zip (l.map (·.w))) ((l.map (fun a => (a.x, a.y))).map φ)
      = (l.map (fun a => S (a.y, a.w) (φ (a.x, a.y)))).sum := by
  unfold total
  induction l with
  | nil => simp
  | cons a l ih =>
    simp only [List.map_cons, List.zip_cons_cons, List.zipWith_cons_cons, List.sum_cons]
    rw [ih]

/-- a sequence that is constant on rows with equal `(X, y)` is a function of `(X, y)` -/
theorem fit_seq_function_of_key (l : List (Row K)) (z : List K) (hz : z.length = l.length)
    (hc : ∀ i j (hi : i < l.length) (hj : j < l.length),
      l[i].x = l[j].x → l[i].y = l[j].y → z[i]! = z[j]!) :
    ∃ φ : K × K → K, z = (l.map (fun a => (a.x, a.y))).map φ := by
  refine ⟨fun k => z[(l.map (fun a => (a.x, a.y))).idxOf k]!, ?_⟩
  apply List.ext_getElem
  · simp [hz]
  · intro i h1 h2
    have hi : i < l.length := by omega
    rw [List.getElem_map, List.getElem_map]
    have hmem : (l[i].x, l[i].y) ∈ l.map (fun a => (a.x, a.y)) :=
      List.mem_map.mpr ⟨l[i], List.getElem_mem hi, rfl⟩
    have hlt := List.idxOf_lt_length_of_mem hmem
    have hget := List.getElem_idxOf hlt
    rw [List.length_map] at hlt
    rw [List.getElem_map] at hget
    have := hc _ i hlt hi (Prod.mk.inj hget).1 (Prod.mk.inj hget).2
    rw [this, fit_get! z i h1]

/-- the total score of a sequence that is constant on rows with equal `(X, y)` does not change when
the weights are permuted among such rows -/
theorem fit_total_perm (S : Obs K → K → K) (l₁ l₂ : List (Row K)) (hp : l₁.Perm l₂)
    (hkeys : l₁.map (fun a => (a.x, a.y)) = l₂.map (fun a => (a.x, a.y)))
    (z : List K) (hz : z.length = l₁.length)
    (hc : ∀ i j (hi : i < l₁.length) (hj : j < l₁.length),
      l₁[i].x = l₁[j].x → l₁[i].y = l₁[j].y → z[i]! = z[j]!) :
    total S ((l₁.map (·.y)).zip (l₁.map (·.w))) z = total S ((l₂.map (·.y)).zip (l₂.map (·.w))) z := by
  obtain ⟨φ, hφ⟩ := fit_seq_function_of_key l₁ z hz hc
  have h1 := fit_total_rows_key S φ l₁
  have h2 := fit_total_rows_key S φ l₂
  rw [← hφ] at h1
  rw [← hkeys, ← hφ] at h2
  rw [h1, h2]
  exact (hp.map _).sum_eq
/-- the consistent score of the functionals that accept weights -/
def fit_scoreOf (fn : Option Functional) (α : K) : Obs K → K → K :=
  match fn with
  | some .expectile => fun o z => o.2 * eWeight α z o * ((z - o.1) * (z - o.1))
  | _ => fun o z => o.2 * ((o.1 - z) * (o.1 - z))

/-- a successful *weighted* call of `isoReg` (so: mean or expectile) returns the unique minimiser
of the functional's score among the sequences monotone in the requested direction -/
theorem fit_weighted_opt_unique {fn : Option Functional} {α : K} {inc : Bool} {y w x : List K}
    {r : List Nat} (h : isoReg fn α inc y (some w) = .ok (x, r)) :
    (∀ zs : List K, zs.length = y.length → MonoDir inc zs →
      total (fit_scoreOf fn α) (y.zip w) x ≤ total (fit_scoreOf fn α) (y.zip w) zs) ∧
    (∀ zs : List K, zs.length = y.length → MonoDir inc zs →
      total (fit_scoreOf fn α) (y.zip w) zs ≤ total (fit_scoreOf fn α) (y.zip w) x → zs = x) := by
  obtain ⟨v, hv, _, _⟩ := isoReg_inv h
  obtain ⟨hne, _, _, _, _⟩ := eqValidate_ok hv
  cases fn with
  | none => rw [isoReg_none] at h; cases h
  | some f =>
    have hlen : w.length = y.length := by
      by_contra hcon
      cases f
      · rw [isoReg_mean_length_error α inc y w hcon] at h; cases h
      · rw [isoReg_median_weighted] at h; cases h
      · by_cases hα : α ≤ 0 ∨ 1 ≤ α
        · rw [isoReg_level_error _ (Or.inl rfl) α hα] at h; cases h
        · rw [not_or, not_le, not_le] at hα
          rw [isoReg_expectile_length_error α hα.1 hα.2 inc y w hcon] at h; cases h
      · by_cases hα : α ≤ 0 ∨ 1 ≤ α
        · rw [isoReg_level_error _ (Or.inr rfl) α hα] at h; cases h
        · rw [not_or, not_le, not_le] at hα
          rw [isoReg_quantile_weighted α hα.1 hα.2] at h; cases h
    cases f
    · -- mean
      have hpos : ∀ v ∈ w, 0 < v := by
        intro v hv
        by_contra hcon
        rw [isoReg_mean_weight_error α inc y w hlen ⟨v, hv, not_lt.mp hcon⟩] at h
        cases h
      have hp := orient_zip_snd_pos inc (y := y) hpos
      have hx := isoReg_mean_x hne hlen hpos h
      constructor
      · intro zs hz hm
        rw [hx]
        refine orient_optimal sqErr.S inc (y.zip w) _ ?_ ?_ zs
          (hz.trans (zip_length_of_eq hlen).symm) hm
        · rw [C01_expand_length _ hp, orient_length]
        · intro zs' hl hs
          exact C01_optimal_inc _ hp zs' hl hs
      · intro zs hz hm hopt
        rw [hx] at hopt ⊢
        refine orient_unique sqErr.S inc (y.zip w) _ ?_ ?_ zs
          (hz.trans (zip_length_of_eq hlen).symm) hm hopt
        · rw [C01_expand_length _ hp, orient_length]
        · intro zs' hl hs ho
          exact C01_unique_inc _ hp zs' hl hs ho
    · rw [isoReg_median_weighted] at h; cases h
    · -- expectile
      by_cases hα : α ≤ 0 ∨ 1 ≤ α
      · rw [isoReg_level_error _ (Or.inl rfl) α hα] at h; cases h
      rw [not_or, not_le, not_le] at hα
      obtain ⟨hα0, hα1⟩ := hα
      have hpos : ∀ v ∈ w, 0 < v := by
        intro v hv
        by_contra hcon
        rw [isoReg_expectile_weight_error α hα0 hα1 inc y w hlen ⟨v, hv, not_lt.mp hcon⟩] at h
        cases h
      have hp := orient_zip_snd_pos inc (y := y) hpos
      have hx := isoReg_expectile_x hα0 hα1 hne hlen hpos h
      constructor
      · intro zs hz hm
        rw [hx]
        refine orient_optimal (asymSq α hα0 hα1).S inc (y.zip w) _ ?_ ?_ zs
          (hz.trans (zip_length_of_eq hlen).symm) hm
        · rw [C03_expand_length α hα0 hα1 _ hp, orient_length]
        · intro zs' hl hs
          exact C03_optimal_inc α hα0 hα1 _ hp zs' hl hs
      · intro zs hz hm hopt
        rw [hx] at hopt ⊢
        refine orient_unique (asymSq α hα0 hα1).S inc (y.zip w) _ ?_ ?_ zs
          (hz.trans (zip_length_of_eq hlen).symm) hm hopt
        · rw [C03_expand_length α hα0 hα1 _ hp, orient_length]
        · intro zs' hl hs ho
          exact C03_unique_inc α hα0 hα1 _ hp zs' hl hs ho
    · by_cases hα : α ≤ 0 ∨ 1 ≤ α
      · rw [isoReg_level_error _ (Or.inr rfl) α hα] at h; cases h
      · rw [not_or, not_le, not_le] at hα
        rw [isoReg_quantile_weighted α hα.1 hα.2] at h; cases h

theorem fit_any_perm {w₁ w₂ : List K} (hp : w₁.Perm w₂) (p : K → Bool) : w₁.any p = w₂.any p := by
  rw [Bool.eq_iff_iff, List.any_eq_true, List.any_eq_true]
  constructor
  · rintro ⟨v, hv, h⟩; exact ⟨v, hp.mem_iff.mp hv, h⟩
  · rintro ⟨v, hv, h⟩; exact ⟨v, hp.mem_iff.mpr hv, h⟩

/-- validation does not look at the order of the weights -/
theorem fit_eqValidate_perm (fn : Option Functional) (α : K) (y : List K) {w₁ w₂ : List K}
    (hp : w₁.Perm w₂) :
    eqValidate fn α y (some w₂)
      = (eqValidate fn α y (some w₁)).map (fun v => (v.1, v.2.1, w₂)) := by
  have e := fit_any_perm hp (fun v => decide (v ≤ 0))
  have hl := hp.length_eq
  cases fn with
  | none => rfl
  | some f =>
    simp only [eqValidate, ← e, ← hl]
    split_ifs <;> simp [Except.map]

theorem fit_eqValidate_some_ok {f : Functional} {α : K} {y wl : List K}
    {v : Functional × K × List K} (h : eqValidate (some f) α y (some wl) = .ok v) :
    v = (f, α, wl) := by
  simp only [eqValidate] at h
  split_ifs at h
  exact (Except.ok.inj h).symm

/-- ties are pooled, for any list sorted by the sort key -/
theorem fit_ties_of_sorted {fn : Option Functional} {α : K} {inc : Bool} (l : List (Row K))
    (hl : l.Pairwise (fun a b => rowLe inc a b = true))
    (wopt : Option (List K)) {yiso : List K} {r : List Nat}
    (h : isoReg fn α inc (l.map (·.y)) wopt = .ok (yiso, r))
    (i j : Nat) (hi : i < l.length) (hj : j < l.length) (hx : l[i].x = l[j].x) :
    yiso[i]! = yiso[j]! := by
  have hlen := isoReg_length h
  rw [List.length_map] at hlen
  have hx' : (l.map (·.x))[i]! = (l.map (·.x))[j]! := by
    rw [fit_get! _ i (by simpa using hi), fit_get! _ j (by simpa using hj), List.getElem_map,
      List.getElem_map, hx]
  rcases le_total i j with hij | hij
  · exact fit_isoReg_run_const h i j hij (by simpa using hj)
      (fit_tieRun_of_sorted inc _ hl i j hj hx')
  · exact (fit_isoReg_run_const h j i hij (by simpa using hi)
      (fit_tieRun_of_sorted inc _ hl j i hi hx'.symm)).symm

/-- **Weights may be permuted among rows with identical `(X, y)`**: the isotonic fit of a sample
sorted by the sort key does not depend on which of the admissible sorted orders is used, even when
duplicate `(X, y)` rows carry different weights.  Proof: both fits are constant on `X` ties, the
score of such a sequence is a sum over rows, and the minimiser is unique. -/
theorem fit_isoReg_perm_weights (fn : Option Functional) (α : K) (inc : Bool)
    (s₁ s₂ : List (Row K)) (hs : s₁.Perm s₂)
    (hs₁ : s₁.Pairwise (fun a b => rowLe inc a b = true))
    (hs₂ : s₂.Pairwise (fun a b => rowLe inc a b = true))
    (hkeys : s₁.map (fun a => (a.x, a.y)) = s₂.map (fun a => (a.x, a.y))) :
    isoReg fn α inc (s₁.map (·.y)) (some (s₁.map (·.w)))
      = isoReg fn α inc (s₂.map (·.y)) (some (s₂.map (·.w))) := by
  have hy : s₁.map (·.y) = s₂.map (·.y) := by
    have := congrArg (List.map Prod.snd) hkeys
    simpa [List.map_map, Function.comp_def] using this
  have hlen12 : s₁.length = s₂.length := hs.length_eq
  have hxget : ∀ i (h1 : i < s₁.length) (h2 : i < s₂.length), s₂[i].x = s₁[i].x ∧ s₂[i].y = s₁[i].y := by
    intro i h1 h2
    have : (s₁.map (fun a => (a.x, a.y)))[i]'(by simpa using h1)
        = (s₂.map (fun a => (a.x, a.y)))[i]'(by simpa using h2) := by
      simp only [hkeys]
    rw [List.getElem_map, List.getElem_map] at this
    exact ⟨(Prod.mk.inj this).1.symm, (Prod.mk.inj this).2.symm⟩
  rw [← hy]
  rw [eq_isoReg, eq_isoReg, fit_eqValidate_perm fn α _ (hs.map (·.w))]
  cases hv : eqValidate fn α (s₁.map (·.y)) (some (s₁.map (·.w))) with
  | error e => rfl
  | ok v =>
    -- both calls succeed
    have h₁ : isoReg fn α inc (s₁.map (·.y)) (some (s₁.map (·.w)))
        = .ok ((eqOut inc (s₁.map (·.y)) v).1, (eqOut inc (s₁.map (·.y)) v).2) := by
      rw [eq_isoReg, hv]; rfl
    have h₂ : isoReg fn α inc (s₁.map (·.y)) (some (s₂.map (·.w)))
        = .ok ((eqOut inc (s₁.map (·.y)) (v.1, v.2.1, s₂.map (·.w))).1,
               (eqOut inc (s₁.map (·.y)) (v.1, v.2.1, s₂.map (·.w))).2) := by
      rw [eq_isoReg, fit_eqValidate_perm fn α _ (hs.map (·.w)), hv]; rfl
    show Except.ok (eqOut inc (s₁.map (·.y)) v)
      = Except.ok (eqOut inc (s₁.map (·.y)) (v.1, v.2.1, s₂.map (·.w)))
    generalize eqOut inc (s₁.map (·.y)) v = p₁ at h₁ ⊢
    generalize eqOut inc (s₁.map (·.y)) (v.1, v.2.1, s₂.map (·.w)) = p₂ at h₂ ⊢
    obtain ⟨x₁, r₁⟩ := p₁
    obtain ⟨x₂, r₂⟩ := p₂
    simp only at h₁ h₂
    have h₂' := h₂
    rw [hy] at h₂'
    obtain ⟨_, uniq₁⟩ := fit_weighted_opt_unique h₁
    obtain ⟨opt₂, _⟩ := fit_weighted_opt_unique h₂'
    have hl₁ : x₁.length = s₁.length := by rw [isoReg_length h₁, List.length_map]
    have hl₂ : x₂.length = s₁.length := by rw [isoReg_length h₂, List.length_map]
    have hm₁ := fit_isoReg_monotone h₁
    have hm₂ := fit_isoReg_monotone h₂
    have ties₁ : ∀ i j (hi : i < s₁.length) (hj : j < s₁.length),
        s₁[i].x = s₁[j].x → s₁[i].y = s₁[j].y → x₁[i]! = x₁[j]! :=
      fun i j hi hj hx _ => fit_ties_of_sorted s₁ hs₁ _ h₁ i j hi hj hx
    have ties₂ : ∀ i j (hi : i < s₁.length) (hj : j < s₁.length),
        s₁[i].x = s₁[j].x → s₁[i].y = s₁[j].y → x₂[i]! = x₂[j]! := by
      intro i j hi hj hx _
      refine fit_ties_of_sorted s₂ hs₂ _ h₂' i j (by omega) (by omega) ?_
      rw [(hxget i hi (by omega)).1, (hxget j hj (by omega)).1, hx]
    have T1 := fit_total_perm (fit_scoreOf fn α) s₁ s₂ hs hkeys x₂ hl₂ ties₂
    have T2 := fit_total_perm (fit_scoreOf fn α) s₁ s₂ hs hkeys x₁ hl₁ ties₁
    have hx : x₂ = x₁ := by
      refine uniq₁ x₂ (by rw [hl₂, List.length_map]) hm₂ ?_
      rw [T1, T2]
      exact opt₂ x₁ (by rw [hl₁, List.length_map, hlen12]) hm₁
    subst hx
    rw [BlockVec.unique (isoReg_blockVec h₁) (isoReg_blockVec h₂)]

/-- **Row order does not matter — no proviso**: two training samples whose rows are permutations of
each other give the same result of `fit` (thresholds or error), for every functional, direction and
weights; duplicate `(X, y)` rows may carry different weights. -/
theorem fit_isoFit_row_order_free_general (fn : Option Functional) (α : K) (inc : Bool)
    (X₁ y₁ X₂ y₂ : List K) (w₁ w₂ : Option (List K))
    (hX₁ : X₁.length = y₁.length) (hX₂ : X₂.length = y₂.length)
    (hw₁ : ∀ w', w₁ = some w' → w'.length = y₁.length)
    (hw₂ : ∀ w', w₂ = some w' → w'.length = y₂.length)
    (hsome : w₁.isSome = w₂.isSome)
    (hperm : (fit_rows X₁ y₁ w₁).Perm (fit_rows X₂ y₂ w₂)) :
    isoFit fn α inc X₁ y₁ w₁ = isoFit fn α inc X₂ y₂ w₂ := by
  cases w₁ with
  | none =>
    cases w₂ with
    | some b => simp at hsome
    | none =>
      refine fit_isoFit_row_order_free fn α inc X₁ y₁ X₂ y₂ none none hX₁ hX₂ hw₁ hw₂ rfl hperm ?_
      intro a ha b hb _ _
      rw [fit_rows_none_w X₁ y₁ a ha, fit_rows_none_w X₁ y₁ b hb]
  | some a =>
    cases w₂ with
    | none => simp at hsome
    | some b =>
      have hkeys := fit_mergeSort_perm_keys inc hperm
      have hs : (fit_sorted inc X₁ y₁ (some a)).Perm (fit_sorted inc X₂ y₂ (some b)) :=
        (List.mergeSort_perm _ _).trans (hperm.trans (List.mergeSort_perm _ _).symm)
      have hR := fit_isoReg_perm_weights fn α inc _ _ hs (fit_sorted_pairwise inc _)
        (fit_sorted_pairwise inc _) hkeys
      have hx : (fit_sorted inc X₁ y₁ (some a)).map (·.x) = (fit_sorted inc X₂ y₂ (some b)).map (·.x) := by
        have := congrArg (List.map Prod.fst) hkeys
        simpa [List.map_map, Function.comp_def, fit_sorted] using this
      rw [fit_isoFit_eq fn α inc X₁ y₁ _ hX₁ hw₁, fit_isoFit_eq fn α inc X₂ y₂ _ hX₂ hw₂]
      simp only [Option.map_some]
      rw [hR, hx]

end RowOrderGeneral

end MD
