import MD.Proofs.MaxMin
import Mathlib.Tactic.Linarith
import Mathlib.Tactic.Ring
import Mathlib.Tactic.FieldSimp
import Mathlib.Tactic.Positivity

/-! # Uniqueness of the isotonic mean fit, monotonicity, block means, weighted total

* `expand_gpava_sorted` / `C01_monotone_inc`: the fit is non-decreasing.
* `C01_block_mean`: every block value is the weighted mean of its (non-empty) block.
* `C01_total`: `Σ wᵢ xᵢ = Σ wᵢ yᵢ`.
* `C01_unique_inc`: a non-decreasing sequence that is at least as good as the fit *is* the fit
  (strict convexity, midpoint argument). -/

set_option linter.unusedSectionVars false

namespace MD

/-! ## The fit is non-decreasing -/

section Sorted
variable {K : Type} [LinearOrder K] {ok : Obs K → Prop} {T : List (Obs K) → K}

theorem mem_expand {bs : List (Blk K)} {v : K} (h : v ∈ expand bs) : ∃ b ∈ bs, v = b.val := by
  obtain ⟨b, hb, hv⟩ := List.mem_flatMap.mp h
  exact ⟨b, hb, (List.mem_replicate.mp hv).2⟩

/-- strictly increasing block values expand to a non-decreasing sequence -/
theorem expand_sorted (bs : List (Blk K)) (h : bs.Pairwise (fun a b => a.val < b.val)) :
    (expand bs).Pairwise (· ≤ ·) := by
  induction bs with
  | nil => simp [expand]
  | cons b bs ih =>
    obtain ⟨h1, h2⟩ := List.pairwise_cons.mp h
    have e : expand (b :: bs) = List.replicate b.data.length b.val ++ expand bs := by
      simp [expand]
    rw [e, List.pairwise_append]
    refine ⟨?_, ih h2, ?_⟩
    · rw [List.pairwise_replicate]
      exact Or.inr le_rfl
    · intro u hu v hv
      obtain ⟨b', hb', rfl⟩ := mem_expand hv
      rw [(List.mem_replicate.mp hu).2]
      exact (h1 b' hb').le

/-- the generalised PAVA fit is non-decreasing, for every functional with the Cauchy mean value
property -/
theorem expand_gpava_sorted (hT : Internal ok T) (ys : List (Obs K)) (hys : ∀ o ∈ ys, ok o) :
    (expand (gpava T ys)).Pairwise (· ≤ ·) :=
  expand_sorted _ (gpava_spec hT ys hys).2.1

end Sorted

variable {K : Type} [Field K] [LinearOrder K] [IsStrictOrderedRing K]

/-- C01_monotone (increasing direction): the isotonic mean fit is non-decreasing -/
theorem C01_monotone_inc (ys : List (Obs K)) (hpos : ∀ o ∈ ys, 0 < o.2) :
    (expand (gpava wmean ys)).Pairwise (· ≤ ·) :=
  expand_gpava_sorted wmean_internal ys hpos

/-! ## Block values are block means; the weighted total is preserved -/

/-- every block of the mean fit is non-empty, has positive weights and carries the weighted mean of
its data -/
theorem C01_block_mean (ys : List (Obs K)) (hpos : ∀ o ∈ ys, 0 < o.2) :
    ∀ b ∈ gpava wmean ys, b.val = wmean b.data ∧ b.data ≠ [] ∧ ∀ o ∈ b.data, 0 < o.2 := by
  intro b hb
  have hg := (gpava_spec wmean_internal ys hpos).1 b hb
  exact ⟨hg.val, hg.ne, hg.allok⟩

theorem wsum_cons (o : Obs K) (d : List (Obs K)) : wsum (o :: d) = o.2 + wsum d := by
  simp [wsum]

theorem wysum_cons (o : Obs K) (d : List (Obs K)) : wysum (o :: d) = o.1 * o.2 + wysum d := by
  simp [wysum]

theorem wysum_append' (A B : List (Obs K)) : wysum (A ++ B) = wysum A + wysum B := by
  simp [wysum]

/-- `Σ w·v` over a block with the constant value `v` -/
theorem sum_zip_replicate (d : List (Obs K)) (v : K) :
    (List.zipWith (fun o u => o.2 * u) d (List.replicate d.length v)).sum = wsum d * v := by
  induction d with
  | nil => simp [wsum]
  | cons o d ih =>
    simp only [List.length_cons, List.replicate_succ, List.zipWith_cons_cons, List.sum_cons, ih,
      wsum_cons]
    ring

theorem blocks_total (bs : List (Blk K))
    (h : ∀ b ∈ bs, b.val = wmean b.data ∧ b.data ≠ [] ∧ ∀ o ∈ b.data, 0 < o.2) :
    (List.zipWith (fun o v => o.2 * v) (bs.flatMap (·.data)) (expand bs)).sum
      = wysum (bs.flatMap (·.data)) := by
  induction bs with
  | nil => simp [expand, wysum]
  | cons b bs ih =>
    obtain ⟨hv, hne, hp⟩ := h b (by simp)
    have hW := wsum_pos hne hp
    have e : expand (b :: bs) = List.replicate b.data.length b.val ++ expand bs := by
      simp [expand]
    rw [e, List.flatMap_cons, List.zipWith_append (by simp), List.sum_append, sum_zip_replicate,
      ih (fun b' hb' => h b' (by simp [hb'])), wysum_append', hv, wmean]
    congr 1
    field_simp

/-- C01_total: the fit preserves the weighted total, `Σ wᵢ xᵢ = Σ wᵢ yᵢ` -/
theorem C01_total (ys : List (Obs K)) (hpos : ∀ o ∈ ys, 0 < o.2) :
    (List.zipWith (fun o v => o.2 * v) ys (expand (gpava wmean ys))).sum = wysum ys := by
  have h := blocks_total (gpava wmean ys) (C01_block_mean ys hpos)
  rwa [(gpava_spec wmean_internal ys hpos).2.2] at h

/-! ## Uniqueness by the midpoint argument -/

/-- `Σ wᵢ (xᵢ - zᵢ)²` -/
def gap : List (Obs K) → List K → List K → K
  | o :: d, x :: xs, z :: zs => o.2 * ((x - z) * (x - z)) + gap d xs zs
  | _, _, _ => 0

theorem gap_nonneg (d : List (Obs K)) (hpos : ∀ o ∈ d, 0 < o.2) (xs zs : List K) :
    0 ≤ gap d xs zs := by
  induction d generalizing xs zs with
  | nil => simp [gap]
  | cons o d ih =>
    cases xs with
    | nil => simp [gap]
    | cons x xs =>
      cases zs with
      | nil => simp [gap]
      | cons z zs =>
        simp only [gap]
        have h1 : 0 ≤ o.2 * ((x - z) * (x - z)) :=
          mul_nonneg (hpos o (by simp)).le (mul_self_nonneg _)
        have h2 := ih (fun o' ho' => hpos o' (by simp [ho'])) xs zs
        linarith

theorem gap_zero (d : List (Obs K)) (hpos : ∀ o ∈ d, 0 < o.2) (xs zs : List K)
    (hx : d.length = xs.length) (hz : d.length = zs.length) (h : gap d xs zs ≤ 0) : xs = zs := by
  induction d generalizing xs zs with
  | nil =>
    have h1 : xs = [] := List.length_eq_zero_iff.mp (by simpa using hx.symm)
    have h2 : zs = [] := List.length_eq_zero_iff.mp (by simpa using hz.symm)
    rw [h1, h2]
  | cons o d ih =>
    cases xs with
    | nil => simp at hx
    | cons x xs =>
      cases zs with
      | nil => simp at hz
      | cons z zs =>
        simp only [gap] at h
        have hw : 0 < o.2 := hpos o (by simp)
        have hpos' : ∀ o' ∈ d, 0 < o'.2 := fun o' ho' => hpos o' (by simp [ho'])
        have h1 : 0 ≤ o.2 * ((x - z) * (x - z)) := mul_nonneg hw.le (mul_self_nonneg _)
        have h2 := gap_nonneg d hpos' xs zs
        have h3 : o.2 * ((x - z) * (x - z)) = 0 := by linarith
        have h4 : gap d xs zs ≤ 0 := by linarith
        have h5 : (x - z) * (x - z) = 0 := by
          rcases mul_eq_zero.mp h3 with h' | h'
          · exact absurd h' hw.ne'
          · exact h'
        have h6 : x = z := by
          have := mul_self_eq_zero.mp h5
          linarith
        rw [h6, ih hpos' xs zs (by simpa using hx) (by simpa using hz) h4]

/-- termwise identity `w(y−(a+b)/2)² = ½w(y−a)² + ½w(y−b)² − ¼w(a−b)²`, summed -/
theorem total_midpoint (d : List (Obs K)) (xs zs : List K)
    (hx : d.length = xs.length) (hz : d.length = zs.length) :
    total (fun o z => o.2 * ((o.1 - z) * (o.1 - z))) d (List.zipWith (fun a b => (a + b) / 2) xs zs)
      = total (fun o z => o.2 * ((o.1 - z) * (o.1 - z))) d xs / 2
        + total (fun o z => o.2 * ((o.1 - z) * (o.1 - z))) d zs / 2 - gap d xs zs / 4 := by
  induction d generalizing xs zs with
  | nil => simp [total, gap]
  | cons o d ih =>
    cases xs with
    | nil => simp at hx
    | cons x xs =>
      cases zs with
      | nil => simp at hz
      | cons z zs =>
        have := ih xs zs (by simpa using hx) (by simpa using hz)
        simp only [total, List.zipWith_cons_cons, List.sum_cons, gap] at this ⊢
        rw [this]
        ring

omit [Field K] [IsStrictOrderedRing K] in
theorem mem_zipWith_exists {α : Type} (f : α → α → α) (xs zs : List α) (m : α)
    (h : m ∈ List.zipWith f xs zs) : ∃ a ∈ xs, ∃ b ∈ zs, m = f a b := by
  induction xs generalizing zs with
  | nil => simp at h
  | cons x xs ih =>
    cases zs with
    | nil => simp at h
    | cons z zs =>
      simp only [List.zipWith_cons_cons, List.mem_cons] at h
      rcases h with rfl | h
      · exact ⟨x, by simp, z, by simp, rfl⟩
      · obtain ⟨a, ha, b, hb, e⟩ := ih zs h
        exact ⟨a, by simp [ha], b, by simp [hb], e⟩

/-- the termwise midpoint of two non-decreasing sequences is non-decreasing -/
theorem midpoint_sorted (xs zs : List K) (hx : xs.Pairwise (· ≤ ·)) (hz : zs.Pairwise (· ≤ ·)) :
    (List.zipWith (fun a b => (a + b) / 2) xs zs).Pairwise (· ≤ ·) := by
  induction xs generalizing zs with
  | nil => simp
  | cons x xs ih =>
    cases zs with
    | nil => simp
    | cons z zs =>
      obtain ⟨hx1, hx2⟩ := List.pairwise_cons.mp hx
      obtain ⟨hz1, hz2⟩ := List.pairwise_cons.mp hz
      rw [List.zipWith_cons_cons, List.pairwise_cons]
      refine ⟨?_, ih zs hx2 hz2⟩
      intro m hm
      obtain ⟨a, ha, b, hb, rfl⟩ := mem_zipWith_exists _ xs zs m hm
      have h1 := hx1 a ha
      have h2 := hz1 b hb
      have : x + z ≤ a + b := by linarith
      exact div_le_div_of_nonneg_right this (by norm_num)

/-- **C01_unique (increasing direction)**: a non-decreasing sequence whose weighted squared error is
not larger than that of the PAVA fit is equal to the PAVA fit. -/
theorem C01_unique_inc (ys : List (Obs K)) (hpos : ∀ o ∈ ys, 0 < o.2)
    (zs : List K) (hlen : ys.length = zs.length) (hsort : zs.Pairwise (· ≤ ·))
    (hopt : total sqErr.S ys zs ≤ total sqErr.S ys (expand (gpava wmean ys))) :
    zs = expand (gpava wmean ys) := by
  change total (fun o z => o.2 * ((o.1 - z) * (o.1 - z))) ys zs
    ≤ total (fun o z => o.2 * ((o.1 - z) * (o.1 - z))) ys (expand (gpava wmean ys)) at hopt
  have hxlen : ys.length = (expand (gpava wmean ys)).length := (C01_expand_length ys hpos).symm
  have hxsort := C01_monotone_inc ys hpos
  have hmlen : ys.length
      = (List.zipWith (fun a b => (a + b) / 2) (expand (gpava wmean ys)) zs).length := by
    rw [List.length_zipWith, ← hxlen, ← hlen, Nat.min_self]
  have hbest := C01_optimal_inc ys hpos _ hmlen (midpoint_sorted _ zs hxsort hsort)
  rw [total_midpoint ys _ zs hxlen hlen] at hbest
  have hg : gap ys (expand (gpava wmean ys)) zs ≤ 0 := by linarith
  exact (gap_zero ys hpos _ zs hxlen hlen hg).symm

/-- the hypotheses of `C01_unique_inc` are satisfiable for every admissible input (by the fit
itself, and by nothing else: that is the theorem) -/
example (ys : List (Obs K)) (hpos : ∀ o ∈ ys, 0 < o.2) :
    ∃ zs : List K, ys.length = zs.length ∧ zs.Pairwise (· ≤ ·) ∧
      total sqErr.S ys zs ≤ total sqErr.S ys (expand (gpava wmean ys)) :=
  ⟨expand (gpava wmean ys), (C01_expand_length ys hpos).symm, C01_monotone_inc ys hpos, le_rfl⟩

/-- a concrete non-trivial admissible input -/
example : ∀ o ∈ ([(3, 1), (1, 2), (1, 1), (2, 3)] : List (Obs ℚ)), 0 < o.2 := by
  simp

/-- optimal and unique: the fit is *the* minimiser of the weighted squared error over
non-decreasing sequences of the same length -/
theorem C01_argmin_iff (ys : List (Obs K)) (hpos : ∀ o ∈ ys, 0 < o.2)
    (zs : List K) (hlen : ys.length = zs.length) (hsort : zs.Pairwise (· ≤ ·)) :
    (∀ us : List K, ys.length = us.length → us.Pairwise (· ≤ ·) →
        total sqErr.S ys zs ≤ total sqErr.S ys us) ↔ zs = expand (gpava wmean ys) := by
  constructor
  · intro h
    exact C01_unique_inc ys hpos zs hlen hsort
      (h _ (C01_expand_length ys hpos).symm (C01_monotone_inc ys hpos))
  · intro h us hus hs
    rw [h]
    exact C01_optimal_inc ys hpos us hus hs

end MD

/-
`#print axioms` (observed with `lake env lean MD/Proofs/Unique.lean`):
'MD.expand_gpava_sorted' depends on axioms: [propext, Classical.choice, Quot.sound]
'MD.C01_monotone_inc' depends on axioms: [propext, Classical.choice, Quot.sound]
'MD.C01_block_mean' depends on axioms: [propext, Classical.choice, Quot.sound]
'MD.C01_total' depends on axioms: [propext, Classical.choice, Quot.sound]
'MD.C01_unique_inc' depends on axioms: [propext, Classical.choice, Quot.sound]
'MD.C01_argmin_iff' depends on axioms: [propext, Classical.choice, Quot.sound]
-/
