import MD.Proofs.ScoreReal
import Mathlib.Algebra.Order.Ring.Basic
import Mathlib.Algebra.Order.Field.Basic
import Mathlib.Tactic.Linarith
import Mathlib.Tactic.Ring
import Mathlib.Tactic.FieldSimp
import Mathlib.Tactic.Positivity
/-! Helpers for C04 / C14 on the quantile family (`hqs`) and the log loss at `K = ℝ`.

`hqs h α y z = .ok ((1{z ≥ y} − α) * (g z − g y))` on the domain `hqsDom h y z`, with
`g = gfun h` strictly increasing on the domain; outside the domain the model returns
`.error .valueError`. -/
namespace MD
open Real

/-- the elementary function `g` behind the homogeneous quantile score of degree `h` -/
noncomputable def gfun (h x : ℝ) : ℝ :=
  if h = 1 then x else if h = 0 then Real.log x else x ^ h / h

/-- `h` is an odd integer `> 1` (the branch `degree > 1 and degree % 2 == 1`) -/
def oddDeg (h : ℝ) : Prop := 1 < h ∧ ∃ k : ℕ, h = 2 * (k : ℝ) + 1

/-- the pairs accepted by `HomogeneousQuantileScore(degree=h)` -/
def hqsDom (h y z : ℝ) : Prop := h = 1 ∨ oddDeg h ∨ (0 < y ∧ 0 < z)

/-- domain of `gfun h` at one point -/
def gDom (h x : ℝ) : Prop := h = 1 ∨ oddDeg h ∨ 0 < x

theorem hqsDom_iff (h y z : ℝ) : hqsDom h y z ↔ gDom h y ∧ gDom h z := by
  unfold hqsDom gDom; tauto

theorem hqsDom_symm {h y z : ℝ} (d : hqsDom h y z) : hqsDom h z y := by
  unfold hqsDom at *; tauto

theorem hqsDom_self {h y : ℝ} (d : gDom h y) : hqsDom h y y := (hqsDom_iff _ _ _).2 ⟨d, d⟩

/-- the last two lines of `score_per_obs`, applied to the raw `score = s` -/
noncomputable def hqsFin (α s y z : ℝ) : ℝ :=
  if α = 1 / 2 then 1 / 2 * |s| else (geInd z y - α) * s

/-- the value of the score on its domain -/
noncomputable def hqsVal (h α y z : ℝ) : ℝ := (geInd z y - α) * (gfun h z - gfun h y)

@[simp] theorem gfun_one (x : ℝ) : gfun 1 x = x := by simp [gfun]
@[simp] theorem gfun_zero (x : ℝ) : gfun 0 x = Real.log x := by simp [gfun]
theorem gfun_of_ne {h : ℝ} (h1 : h ≠ 1) (h0 : h ≠ 0) (x : ℝ) : gfun h x = x ^ h / h := by
  simp [gfun, h1, h0]

theorem hqs_geInd_of_le {y z : ℝ} (hyz : y ≤ z) : geInd z y = 1 := by simp [geInd, hyz]
theorem hqs_geInd_of_lt {y z : ℝ} (hyz : z < y) : geInd z y = 0 := by simp [geInd, not_le.2 hyz]

theorem oddDeg_ne_one {h : ℝ} (ho : oddDeg h) : h ≠ 1 := ne_of_gt ho.1
theorem oddDeg_ne_zero {h : ℝ} (ho : oddDeg h) : h ≠ 0 := by
  have := ho.1; intro h0; rw [h0] at this; linarith

/-- for an odd-integer degree the real power is a monomial -/
theorem oddDeg_rpow {h : ℝ} (ho : oddDeg h) :
    ∃ n : ℕ, Odd n ∧ h = (n : ℝ) ∧ ∀ x : ℝ, x ^ h = x ^ n := by
  obtain ⟨_, k, hk⟩ := ho
  refine ⟨2 * k + 1, ⟨k, rfl⟩, by push_cast; exact hk, ?_⟩
  intro x
  have : h = ((2 * k + 1 : ℕ) : ℝ) := by push_cast; exact hk
  rw [this, Real.rpow_natCast]

/-! ### Unfolding the model, branch by branch -/

theorem hqs_raw_one (α y z : ℝ) : hqs 1 α y z = .ok (hqsFin α (z - y) y z) := by
  unfold hqs hqsFin
  simp
  split_ifs <;> rfl

theorem hqs_raw_odd {h : ℝ} (α y z : ℝ) (ho : oddDeg h) :
    hqs h α y z = .ok (hqsFin α ((z ^ h - y ^ h) / h) y z) := by
  have hne : h ≠ 1 := oddDeg_ne_one ho
  obtain ⟨h1, hodd⟩ := ho
  unfold hqs hqsFin
  simp [hne, h1, hodd]
  split_ifs <;> rfl

theorem hqs_raw_zero (α : ℝ) {y z : ℝ} (hy : 0 < y) (hz : 0 < z) :
    hqs 0 α y z = .ok (hqsFin α (Real.log (z / y)) y z) := by
  have h10 : ¬ ((1 : ℝ) < 0) := by norm_num
  unfold hqs hqsFin
  simp [hy, hz, h10]
  split_ifs <;> rfl

theorem hqs_raw_zero_err (α : ℝ) {y z : ℝ} (hyz : ¬ (0 < y ∧ 0 < z)) :
    hqs 0 α y z = .error .valueError := by
  have h10 : ¬ ((1 : ℝ) < 0) := by norm_num
  unfold hqs
  simp [hyz, h10]
  rfl

theorem hqs_raw_other {h : ℝ} (α : ℝ) {y z : ℝ} (h1 : h ≠ 1) (h0 : h ≠ 0)
    (hodd : ¬ oddDeg h) (hy : 0 < y) (hz : 0 < z) :
    hqs h α y z = .ok (hqsFin α ((z ^ h - y ^ h) / h) y z) := by
  unfold oddDeg at hodd
  unfold hqs hqsFin
  simp [hy, hz, h1, h0, hodd]
  split_ifs <;> rfl

theorem hqs_raw_other_err {h : ℝ} (α : ℝ) {y z : ℝ} (h1 : h ≠ 1) (h0 : h ≠ 0)
    (hodd : ¬ oddDeg h) (hyz : ¬ (0 < y ∧ 0 < z)) :
    hqs h α y z = .error .valueError := by
  unfold oddDeg at hodd
  unfold hqs
  simp [hyz, h1, h0, hodd]
  rfl

/-- out-of-domain pairs are rejected -/
theorem hqs_err {h α y z : ℝ} (nd : ¬ hqsDom h y z) : hqs h α y z = .error .valueError := by
  unfold hqsDom at nd
  have h1 : h ≠ 1 := fun e => nd (Or.inl e)
  have hodd : ¬ oddDeg h := fun e => nd (Or.inr (Or.inl e))
  have hyz : ¬ (0 < y ∧ 0 < z) := fun e => nd (Or.inr (Or.inr e))
  by_cases h0 : h = 0
  · subst h0; exact hqs_raw_zero_err α hyz
  · exact hqs_raw_other_err α h1 h0 hodd hyz

/-- on the domain the model returns the last two lines applied to `g z − g y` -/
theorem hqs_raw {h α y z : ℝ} (d : hqsDom h y z) :
    hqs h α y z = .ok (hqsFin α (gfun h z - gfun h y) y z) := by
  by_cases h1 : h = 1
  · subst h1; simp [hqs_raw_one]
  by_cases ho : oddDeg h
  · rw [hqs_raw_odd α y z ho, gfun_of_ne h1 (oddDeg_ne_zero ho), gfun_of_ne h1 (oddDeg_ne_zero ho),
      sub_div]
  have hyz : 0 < y ∧ 0 < z := by
    unfold hqsDom at d; tauto
  by_cases h0 : h = 0
  · subst h0
    rw [hqs_raw_zero α hyz.1 hyz.2, gfun_zero, gfun_zero, Real.log_div hyz.2.ne' hyz.1.ne']
  · rw [hqs_raw_other α h1 h0 ho hyz.1 hyz.2, gfun_of_ne h1 h0, gfun_of_ne h1 h0, sub_div]

/-! ### `g` is strictly increasing on the domain -/

theorem gfun_lt {h y z : ℝ} (d : hqsDom h y z) (hyz : y < z) : gfun h y < gfun h z := by
  by_cases h1 : h = 1
  · subst h1; simpa using hyz
  by_cases ho : oddDeg h
  · have h0 := oddDeg_ne_zero ho
    have hpos : 0 < h := lt_trans one_pos ho.1
    obtain ⟨n, hn, -, hp⟩ := oddDeg_rpow ho
    rw [gfun_of_ne h1 h0, gfun_of_ne h1 h0, hp, hp]
    exact div_lt_div_of_pos_right (hn.strictMono_pow hyz) hpos
  have hp : 0 < y ∧ 0 < z := by
    unfold hqsDom at d; tauto
  by_cases h0 : h = 0
  · subst h0; simpa using Real.log_lt_log hp.1 hyz
  rw [gfun_of_ne h1 h0, gfun_of_ne h1 h0]
  rcases lt_or_gt_of_ne h0 with hneg | hpos
  · exact (div_lt_div_right_of_neg hneg).2 (Real.rpow_lt_rpow_of_neg hp.1 hyz hneg)
  · exact div_lt_div_of_pos_right (Real.rpow_lt_rpow hp.1.le hyz hpos) hpos

theorem gfun_le {h y z : ℝ} (d : hqsDom h y z) (hyz : y ≤ z) : gfun h y ≤ gfun h z := by
  rcases eq_or_lt_of_le hyz with e | l
  · rw [e]
  · exact (gfun_lt d l).le

/-! ### Closed form (including the `α = 1/2` shortcut) -/

theorem half_abs_eq {h y z : ℝ} (d : hqsDom h y z) :
    1 / 2 * |gfun h z - gfun h y| = (geInd z y - 1 / 2) * (gfun h z - gfun h y) := by
  rcases le_or_gt y z with hyz | hyz
  · have := gfun_le d hyz
    rw [hqs_geInd_of_le hyz, abs_of_nonneg (by linarith)]; ring
  · have := gfun_lt (hqsDom_symm d) hyz
    rw [hqs_geInd_of_lt hyz, abs_of_neg (by linarith)]; ring

theorem hqsFin_eq {h α y z : ℝ} (d : hqsDom h y z) :
    hqsFin α (gfun h z - gfun h y) y z = hqsVal h α y z := by
  unfold hqsFin hqsVal
  split_ifs with hα
  · rw [hα]; exact half_abs_eq d
  · rfl

theorem hqs_closed' {h α y z : ℝ} (d : hqsDom h y z) : hqs h α y z = .ok (hqsVal h α y z) := by
  rw [hqs_raw d, hqsFin_eq d]

theorem hqs_ok_iff {h α y z v : ℝ} :
    hqs h α y z = .ok v ↔ hqsDom h y z ∧ v = hqsVal h α y z := by
  by_cases d : hqsDom h y z
  · rw [hqs_closed' d]
    constructor
    · intro e; injection e with e; exact ⟨d, e.symm⟩
    · rintro ⟨-, rfl⟩; rfl
  · rw [hqs_err d]
    constructor
    · intro e; cases e
    · rintro ⟨d', -⟩; exact absurd d' d

/-! ### Properties of the value -/

theorem hqsVal_self (h α y : ℝ) : hqsVal h α y y = 0 := by simp [hqsVal]

theorem hqsVal_nonneg {h α y z : ℝ} (h0 : 0 < α) (h1 : α < 1) (d : hqsDom h y z) :
    0 ≤ hqsVal h α y z := by
  unfold hqsVal
  rcases le_or_gt y z with hyz | hyz
  · have := gfun_le d hyz
    rw [hqs_geInd_of_le hyz]
    exact mul_nonneg (by linarith) (by linarith)
  · have := gfun_lt (hqsDom_symm d) hyz
    rw [hqs_geInd_of_lt hyz]
    exact mul_nonneg_of_nonpos_of_nonpos (by linarith) (by linarith)

theorem hqsVal_pos {h α y z : ℝ} (h0 : 0 < α) (h1 : α < 1) (d : hqsDom h y z) (hne : y ≠ z) :
    0 < hqsVal h α y z := by
  unfold hqsVal
  rcases lt_or_gt_of_ne hne with hyz | hyz
  · have := gfun_lt d hyz
    rw [hqs_geInd_of_le hyz.le]
    exact mul_pos (by linarith) (by linarith)
  · have := gfun_lt (hqsDom_symm d) hyz
    rw [hqs_geInd_of_lt hyz]
    exact mul_pos_of_neg_of_neg (by linarith) (by linarith)

theorem hqsVal_mono_right {h α y z₁ z₂ : ℝ} (_h0 : 0 < α) (h1 : α < 1)
    (d₁ : hqsDom h y z₁) (d₂ : hqsDom h y z₂) (h₁ : y ≤ z₁) (h₂ : z₁ ≤ z₂) :
    hqsVal h α y z₁ ≤ hqsVal h α y z₂ := by
  have d : hqsDom h z₁ z₂ := (hqsDom_iff _ _ _).2
    ⟨((hqsDom_iff _ _ _).1 d₁).2, ((hqsDom_iff _ _ _).1 d₂).2⟩
  have := gfun_le d h₂
  unfold hqsVal
  rw [hqs_geInd_of_le h₁, hqs_geInd_of_le (le_trans h₁ h₂)]
  exact mul_le_mul_of_nonneg_left (by linarith) (by linarith)

theorem hqsVal_mono_left {h α y z₁ z₂ : ℝ} (h0 : 0 < α) (_h1 : α < 1)
    (d₁ : hqsDom h y z₁) (d₂ : hqsDom h y z₂) (h₁ : z₂ ≤ z₁) (h₂ : z₁ ≤ y) :
    hqsVal h α y z₁ ≤ hqsVal h α y z₂ := by
  rcases eq_or_lt_of_le h₂ with e | l
  · subst e
    rw [hqsVal_self]; exact hqsVal_nonneg h0 _h1 d₂
  have d : hqsDom h z₂ z₁ := (hqsDom_iff _ _ _).2
    ⟨((hqsDom_iff _ _ _).1 d₂).2, ((hqsDom_iff _ _ _).1 d₁).2⟩
  have := gfun_le d h₁
  unfold hqsVal
  rw [hqs_geInd_of_lt l, hqs_geInd_of_lt (lt_of_le_of_lt h₁ l)]
  have e : ∀ s : ℝ, (0 - α) * s = α * (-s) := fun s => by ring
  rw [e, e]
  exact mul_le_mul_of_nonneg_left (by linarith) h0.le

/-! ### Homogeneity -/

theorem oddDeg_or_pos_mul {h c x : ℝ} (hc : 0 < c) (d : gDom h x) : gDom h (c * x) := by
  unfold gDom at *
  rcases d with d | d | d
  · exact Or.inl d
  · exact Or.inr (Or.inl d)
  · exact Or.inr (Or.inr (mul_pos hc d))

theorem hqsDom_mul {h c y z : ℝ} (hc : 0 < c) (d : hqsDom h y z) : hqsDom h (c * y) (c * z) := by
  rw [hqsDom_iff] at *
  exact ⟨oddDeg_or_pos_mul hc d.1, oddDeg_or_pos_mul hc d.2⟩

theorem hqsDom_mul_iff {h c y z : ℝ} (hc : 0 < c) : hqsDom h (c * y) (c * z) ↔ hqsDom h y z := by
  constructor
  · intro d
    have := hqsDom_mul (inv_pos.2 hc) d
    rwa [inv_mul_cancel_left₀ hc.ne', inv_mul_cancel_left₀ hc.ne'] at this
  · exact hqsDom_mul hc

theorem geInd_mul {c y z : ℝ} (hc : 0 < c) : geInd (c * z) (c * y) = geInd z y := by
  unfold geInd
  by_cases hyz : y ≤ z
  · rw [if_pos hyz, if_pos (mul_le_mul_of_nonneg_left hyz hc.le)]
  · rw [if_neg hyz, if_neg]
    rw [not_le] at *
    exact mul_lt_mul_of_pos_left hyz hc

theorem gfun_mul {h c x : ℝ} (hc : 0 < c) (h0 : h ≠ 0) (d : gDom h x) :
    gfun h (c * x) = c ^ h * gfun h x := by
  by_cases h1 : h = 1
  · subst h1; simp
  rw [gfun_of_ne h1 h0, gfun_of_ne h1 h0]
  by_cases ho : oddDeg h
  · obtain ⟨n, -, -, hp⟩ := oddDeg_rpow ho
    rw [hp, hp, hp, mul_pow]; ring
  · have hx : 0 < x := by
      unfold gDom at d; tauto
    rw [Real.mul_rpow hc.le hx.le]; ring

theorem hqsVal_mul {h α c y z : ℝ} (hc : 0 < c) (h0 : h ≠ 0) (d : hqsDom h y z) :
    hqsVal h α (c * y) (c * z) = c ^ h * hqsVal h α y z := by
  rw [hqsDom_iff] at d
  unfold hqsVal
  rw [geInd_mul hc, gfun_mul hc h0 d.1, gfun_mul hc h0 d.2]; ring

theorem hqsVal_mul_zero {α c y z : ℝ} (hc : 0 < c) (d : hqsDom 0 y z) :
    hqsVal 0 α (c * y) (c * z) = hqsVal 0 α y z := by
  have hyz : 0 < y ∧ 0 < z := by
    unfold hqsDom oddDeg at d
    rcases d with d | d | d
    · norm_num at d
    · have := d.1; norm_num at this
    · exact d
  unfold hqsVal
  rw [geInd_mul hc, gfun_zero, gfun_zero, gfun_zero, gfun_zero,
    Real.log_mul hc.ne' hyz.1.ne', Real.log_mul hc.ne' hyz.2.ne']
  ring

/-! ### Log loss -/

theorem xlogy_real (x t : ℝ) : xlogy x t = x * Real.log t := by
  unfold xlogy
  by_cases hx : x = 0
  · simp [hx]
  · simp [hx]

theorem logLoss_real (y z : ℝ) :
    logLoss y z = -(y * Real.log z) - (1 - y) * Real.log (1 - z)
      + (y * Real.log y + (1 - y) * Real.log (1 - y)) := by
  unfold logLoss
  simp only [xlogy_real]

/-- `a log(a/b) = a log a − a log b` for `a ≥ 0`, `b > 0`, with `0 log 0 = 0` -/
theorem mul_log_div {a b : ℝ} (ha : 0 ≤ a) (hb : 0 < b) :
    a * Real.log (a / b) = a * Real.log a - a * Real.log b := by
  rcases eq_or_lt_of_le ha with e | l
  · rw [← e]; ring
  · rw [Real.log_div l.ne' hb.ne']; ring

/-- one half of the Gibbs inequality -/
theorem sub_le_mul_log_div {a b : ℝ} (ha : 0 ≤ a) (hb : 0 < b) :
    a - b ≤ a * Real.log (a / b) := by
  rcases eq_or_lt_of_le ha with e | l
  · rw [← e]; simp; exact hb.le
  · have hba : 0 < b / a := div_pos hb l
    have h1 := Real.log_le_sub_one_of_pos hba
    have h2 : Real.log (a / b) = -Real.log (b / a) := by
      rw [← Real.log_inv, inv_div]
    rw [h2]
    have h3 : a * Real.log (b / a) ≤ a * (b / a - 1) := mul_le_mul_of_nonneg_left h1 l.le
    have h4 : a * (b / a - 1) = b - a := by field_simp
    linarith

theorem sub_lt_mul_log_div {a b : ℝ} (ha : 0 < a) (hb : 0 < b) (hne : a ≠ b) :
    a - b < a * Real.log (a / b) := by
  have hba : 0 < b / a := div_pos hb ha
  have hne1 : b / a ≠ 1 := by
    intro e; rw [div_eq_one_iff_eq ha.ne'] at e; exact hne e.symm
  have h1 := Real.log_lt_sub_one_of_pos hba hne1
  have h2 : Real.log (a / b) = -Real.log (b / a) := by
    rw [← Real.log_inv, inv_div]
  rw [h2]
  have h3 : a * Real.log (b / a) < a * (b / a - 1) := mul_lt_mul_of_pos_left h1 ha
  have h4 : a * (b / a - 1) = b - a := by field_simp
  linarith

theorem logLoss_closed {y z : ℝ} (hy0 : 0 ≤ y) (hy1 : y ≤ 1) (hz0 : 0 < z) (hz1 : z < 1) :
    logLoss y z = y * Real.log (y / z) + (1 - y) * Real.log ((1 - y) / (1 - z)) := by
  rw [logLoss_real, mul_log_div hy0 hz0, mul_log_div (by linarith) (by linarith)]
  ring

/-- difference of the log loss at two predictions -/
theorem logLoss_diff {y z₁ z₂ : ℝ} (hz₁ : 0 < z₁) (hz₁' : z₁ < 1) (hz₂ : 0 < z₂) (hz₂' : z₂ < 1) :
    logLoss y z₂ - logLoss y z₁ =
      y * Real.log (z₁ / z₂) + (1 - y) * Real.log ((1 - z₁) / (1 - z₂)) := by
  have a1 : (1 : ℝ) - z₁ ≠ 0 := by linarith
  have a2 : (1 : ℝ) - z₂ ≠ 0 := by linarith
  rw [logLoss_real, logLoss_real, Real.log_div hz₁.ne' hz₂.ne', Real.log_div a1 a2]
  ring

theorem logLoss_mono {y z₁ z₂ : ℝ} (hy0 : 0 ≤ y) (hy1 : y ≤ 1)
    (hz₁ : 0 < z₁) (hz₁' : z₁ < 1) (hz₂ : 0 < z₂) (hz₂' : z₂ < 1)
    (hs : 0 ≤ (z₂ - z₁) * (z₁ - y)) : logLoss y z₁ ≤ logLoss y z₂ := by
  have a1 : (0 : ℝ) < 1 - z₁ := by linarith
  have a2 : (0 : ℝ) < 1 - z₂ := by linarith
  have l1 := Real.one_sub_inv_le_log_of_pos (div_pos hz₁ hz₂)
  have l2 := Real.one_sub_inv_le_log_of_pos (div_pos a1 a2)
  rw [inv_div] at l1 l2
  have m1 := mul_le_mul_of_nonneg_left l1 hy0
  have m2 := mul_le_mul_of_nonneg_left l2 (by linarith : (0 : ℝ) ≤ 1 - y)
  have key : y * (1 - z₂ / z₁) + (1 - y) * (1 - (1 - z₂) / (1 - z₁))
      = (z₂ - z₁) * (z₁ - y) / (z₁ * (1 - z₁)) := by
    field_simp
    ring
  have kn : 0 ≤ (z₂ - z₁) * (z₁ - y) / (z₁ * (1 - z₁)) := div_nonneg hs (mul_pos hz₁ a1).le
  have := logLoss_diff (y := y) hz₁ hz₁' hz₂ hz₂'
  linarith

end MD
