import MD.Model.Ident
import MD.Proofs.ExpectileInst
import MD.Proofs.QuantStage
import Mathlib.Tactic.Linarith
import Mathlib.Tactic.Ring
import Mathlib.Tactic.NormNum

/-!
# Helper lemmas for C08 (`identification_function`) and C15 (`ElementaryScore`)

* closed forms of `identFn` (`identVal`) and `elemScore` (`elemVal = (1{η ≤ z} - 1{η ≤ y}) · elemV`);
* sign of the threshold factor `elemV` (`> 0` for `y < η`, `≤ 0` for `η ≤ y`), from which
  non-negativity, order sensitivity and consistency of the elementary score follow generically;
* the identification sums `Σ w·V_η(y)` for mean / expectile / quantile.
-/

set_option linter.unusedSectionVars false

namespace MD
variable {K : Type} [Field K] [LinearOrder K] [IsStrictOrderedRing K]

/-! ## Small facts about the model's constants and indicators -/

theorem two_eq : (two : K) = 2 := by unfold two; norm_num

theorem ident_half_pos' : (0 : K) < 1 / 2 := by norm_num

theorem half_lt_one' : (1 / 2 : K) < 1 := by
  rw [div_lt_one (by norm_num)]; norm_num

theorem absK_eq_abs (x : K) : absK x = |x| := by
  unfold absK
  split
  · rename_i h; rw [abs_of_neg h]
  · rename_i h; rw [abs_of_nonneg (not_lt.mp h)]

theorem geInd_of_le {z y : K} (h : y ≤ z) : geInd z y = 1 := by simp [geInd, h]

theorem geInd_of_lt {z y : K} (h : z < y) : geInd z y = 0 := by simp [geInd, not_le.mpr h]

theorem leInd_of_le {η x : K} (h : η ≤ x) : leInd η x = 1 := by simp [leInd, h]

theorem leInd_of_lt {η x : K} (h : x < η) : leInd η x = 0 := by simp [leInd, not_le.mpr h]

/-- `|1{y ≤ z} - α|` is the asymmetry weight `1 - α` / `α` -/
theorem absK_geInd (α : K) (hα0 : 0 < α) (hα1 : α < 1) (z y : K) :
    absK (geInd z y - α) = if y ≤ z then 1 - α else α := by
  by_cases h : y ≤ z
  · rw [geInd_of_le h, if_pos h, absK_eq_abs, abs_of_pos (by linarith)]
  · rw [geInd_of_lt (not_le.mp h), if_neg h, absK_eq_abs, zero_sub, abs_neg, abs_of_pos hα0]

theorem absK_geInd_eWeight (α : K) (hα0 : 0 < α) (hα1 : α < 1) (u : K) (o : Obs K) :
    absK (geInd u o.1 - α) = eWeight α u o := by
  rw [absK_geInd α hα0 hα1]; rfl

theorem absK_geInd_pos (α : K) (hα0 : 0 < α) (hα1 : α < 1) (z y : K) :
    0 < absK (geInd z y - α) := by
  rw [absK_geInd α hα0 hα1]
  split
  · linarith
  · exact hα0

/-! ## Closed forms of `identFn` -/

/-- the value of the identification function (valid level) -/
def identVal (f : Functional) (α y z : K) : K :=
  match f with
  | .mean => z - y
  | .median => geInd z y - 1 / 2
  | .expectile => 2 * absK (geInd z y - α) * (z - y)
  | .quantile => geInd z y - α

theorem identFn_mean (α y z : K) : identFn (some .mean) α y z = .ok (z - y) := by
  simp [identFn]
  rfl

theorem identFn_median (α y z : K) : identFn (some .median) α y z = .ok (geInd z y - 1 / 2) := by
  simp [identFn, half_eq]
  rfl

theorem identFn_expectile (α y z : K) (h0 : 0 < α) (h1 : α < 1) :
    identFn (some .expectile) α y z = .ok (2 * absK (geInd z y - α) * (z - y)) := by
  simp [identFn, not_le.mpr h0, not_le.mpr h1, two_eq]
  rfl

theorem identFn_quantile (α y z : K) (h0 : 0 < α) (h1 : α < 1) :
    identFn (some .quantile) α y z = .ok (geInd z y - α) := by
  simp [identFn, not_le.mpr h0, not_le.mpr h1]
  rfl

theorem identFn_none (α y z : K) : identFn none α y z = .error .valueError := by
  simp [identFn]
  rfl

theorem identFn_expectile_invalid (α y z : K) (h : α ≤ 0 ∨ 1 ≤ α) :
    identFn (some .expectile) α y z = .error .valueError := by
  simp [identFn, h]
  rfl

theorem identFn_quantile_invalid (α y z : K) (h : α ≤ 0 ∨ 1 ≤ α) :
    identFn (some .quantile) α y z = .error .valueError := by
  simp [identFn, h]
  rfl

theorem identFn_eq_val (f : Functional) (α y z : K) (h0 : 0 < α) (h1 : α < 1) :
    identFn (some f) α y z = .ok (identVal f α y z) := by
  cases f
  · exact identFn_mean α y z
  · exact identFn_median α y z
  · exact identFn_expectile α y z h0 h1
  · exact identFn_quantile α y z h0 h1

/-- closed form of the expectile identification value with the absolute value resolved -/
theorem identVal_expectile (α : K) (hα0 : 0 < α) (hα1 : α < 1) (y z : K) :
    identVal .expectile α y z = 2 * (if y ≤ z then 1 - α else α) * (z - y) := by
  simp only [identVal, absK_geInd α hα0 hα1]

theorem identVal_mono (f : Functional) (α : K) (hα0 : 0 < α) (hα1 : α < 1) (y : K) {z₁ z₂ : K}
    (h : z₁ ≤ z₂) : identVal f α y z₁ ≤ identVal f α y z₂ := by
  cases f
  · simp only [identVal]; linarith
  · simp only [identVal]
    by_cases h1 : y ≤ z₁
    · rw [geInd_of_le h1, geInd_of_le (le_trans h1 h)]
    · rw [geInd_of_lt (not_le.mp h1)]
      by_cases h2 : y ≤ z₂
      · rw [geInd_of_le h2]; linarith
      · rw [geInd_of_lt (not_le.mp h2)]
  · rw [identVal_expectile α hα0 hα1, identVal_expectile α hα0 hα1]
    by_cases h1 : y ≤ z₁
    · rw [if_pos h1, if_pos (le_trans h1 h)]
      have : 0 < 1 - α := by linarith
      nlinarith
    · rw [if_neg h1]
      rw [not_le] at h1
      by_cases h2 : y ≤ z₂
      · rw [if_pos h2]
        have a : α * (z₁ - y) < 0 := mul_neg_of_pos_of_neg hα0 (by linarith)
        have b : 0 ≤ (1 - α) * (z₂ - y) := mul_nonneg (by linarith) (by linarith)
        linarith
      · rw [if_neg h2]
        nlinarith
  · simp only [identVal]
    by_cases h1 : y ≤ z₁
    · rw [geInd_of_le h1, geInd_of_le (le_trans h1 h)]
    · rw [geInd_of_lt (not_le.mp h1)]
      by_cases h2 : y ≤ z₂
      · rw [geInd_of_le h2]; linarith
      · rw [geInd_of_lt (not_le.mp h2)]

theorem identVal_neg (f : Functional) (α : K) (hα0 : 0 < α) (hα1 : α < 1) {y z : K}
    (h : z < y) : identVal f α y z < 0 := by
  cases f
  · simp only [identVal]; linarith
  · simp only [identVal]; rw [geInd_of_lt h]; linarith [ident_half_pos' (K := K)]
  · rw [identVal_expectile α hα0 hα1, if_neg (not_le.mpr h)]
    have : α * (z - y) < 0 := mul_neg_of_pos_of_neg hα0 (by linarith)
    linarith
  · simp only [identVal]; rw [geInd_of_lt h]; linarith

theorem identVal_nonneg (f : Functional) (α : K) (hα0 : 0 < α) (hα1 : α < 1) {y z : K}
    (h : y ≤ z) : 0 ≤ identVal f α y z := by
  cases f
  · simp only [identVal]; linarith
  · simp only [identVal]; rw [geInd_of_le h]; linarith [half_lt_one' (K := K)]
  · rw [identVal_expectile α hα0 hα1, if_pos h]
    have : 0 ≤ (1 - α) * (z - y) := mul_nonneg (by linarith) (by linarith)
    linarith
  · simp only [identVal]; rw [geInd_of_le h]; linarith

theorem identVal_mean_eq_zero_iff (α y z : K) : identVal .mean α y z = 0 ↔ z = y := by
  simp only [identVal]; exact sub_eq_zero

theorem identVal_expectile_eq_zero_iff (α : K) (hα0 : 0 < α) (hα1 : α < 1) (y z : K) :
    identVal .expectile α y z = 0 ↔ z = y := by
  constructor
  · intro h0
    rcases lt_trichotomy z y with h | h | h
    · have := identVal_neg .expectile α hα0 hα1 h; linarith
    · exact h
    · exfalso
      rw [identVal_expectile α hα0 hα1, if_pos h.le] at h0
      have : 0 < (1 - α) * (z - y) := mul_pos (by linarith) (by linarith)
      linarith
  · rintro rfl
    simp [identVal]

/-! ## `mapM` over `Except` and the array versions -/

theorem mapM_except_ok {β γ : Type} (g : β → Except Err γ) (h : β → γ) (l : List β)
    (hg : ∀ p ∈ l, g p = .ok (h p)) : l.mapM g = .ok (l.map h) := by
  induction l with
  | nil => rfl
  | cons a l ih =>
    rw [List.mapM_cons, hg a (by simp), ih (fun p hp => hg p (by simp [hp]))]
    rfl

theorem identArr_length_error (f : Option Functional) (α : K) (ys zs : List K)
    (h : ys.length ≠ zs.length) : identArr f α ys zs = .error .valueError := by
  simp [identArr, h]
  rfl

theorem identArr_ok (f : Functional) (α : K) (h0 : 0 < α) (h1 : α < 1) (ys zs : List K)
    (h : ys.length = zs.length) :
    identArr (some f) α ys zs = .ok ((ys.zip zs).map fun p => identVal f α p.1 p.2) := by
  unfold identArr
  rw [if_neg (by simpa using h)]
  exact mapM_except_ok _ _ _ (fun p _ => identFn_eq_val f α p.1 p.2 h0 h1)

theorem identArr_mean_ok (α : K) (ys zs : List K) (h : ys.length = zs.length) :
    identArr (some .mean) α ys zs = .ok ((ys.zip zs).map fun p => p.2 - p.1) := by
  unfold identArr
  rw [if_neg (by simpa using h)]
  exact mapM_except_ok _ _ _ (fun p _ => identFn_mean α p.1 p.2)

/-! ## Identification sums -/

theorem sum_mean_ident (d : List (Obs K)) (u : K) :
    (d.map fun o => o.2 * (u - o.1)).sum = u * wsum d - wysum d := Esum_mean d u

theorem sum_mean_ident_wmean (d : List (Obs K)) (hne : d ≠ []) (hpos : ∀ o ∈ d, 0 < o.2) :
    (d.map fun o => o.2 * (wmean d - o.1)).sum = 0 := by
  have hW := wsum_pos hne hpos
  rw [sum_mean_ident, wmean, div_mul_cancel₀ _ hW.ne', sub_self]

theorem sum_expectile_ident (α : K) (hα0 : 0 < α) (hα1 : α < 1) (d : List (Obs K)) (u : K) :
    (d.map fun o => o.2 * (2 * absK (geInd u o.1 - α) * (u - o.1))).sum = 2 * eSum α d u := by
  induction d with
  | nil => simp [eSum]
  | cons o d ih =>
    rw [eSum_cons, List.map_cons, List.sum_cons, ih, absK_geInd_eWeight α hα0 hα1]
    ring

theorem sum_quant_ident (α : K) (d : List (Obs K)) (u : K) :
    (d.map fun o => (geInd u o.1 - α)).sum = (cntLe d u : K) - α * (d.length : K) :=
  Esum_quant α d u

theorem sum_quant_ident_lt (α : K) (d : List (Obs K)) (u : K) :
    (d.map fun o => ((if o.1 < u then (1 : K) else 0) - α)).sum
      = (cntLt d u : K) - α * (d.length : K) :=
  Esum_quant_m α d u

theorem cntLe_le_cntLt (d : List (Obs K)) {t u : K} (h : t < u) : cntLe d t ≤ cntLt d u := by
  unfold cntLe cntLt
  apply List.countP_mono_left
  intro o _ ho
  simp only [decide_eq_true_eq] at *
  exact lt_of_le_of_lt ho h

/-! ## Closed forms of `elemScore` -/

/-- the threshold factor `V_η(y)` of the elementary score: the identification function evaluated at
the prediction `η`, with the strict indicator `1{y < η}` for quantile / median -/
def elemV (f : Functional) (α η y : K) : K :=
  match f with
  | .mean => η - y
  | .median => (if y < η then 1 else 0) - 1 / 2
  | .expectile => 2 * absK (geInd η y - α) * (η - y)
  | .quantile => (if y < η then 1 else 0) - α

/-- the value of `elemScore` (valid level): `(1{η ≤ z} - 1{η ≤ y}) · V_η(y)` -/
def elemVal (f : Functional) (α η y z : K) : K := (leInd η z - leInd η y) * elemV f α η y

/-- the threshold factor of the formula before the fix: `1{y ≤ η}` throughout -/
def elemVOld (f : Functional) (α η y : K) : K := identVal f α y η

theorem elemScore_eq_val (f : Functional) (α η y z : K) (h0 : 0 < α) (h1 : α < 1) :
    elemScore (some f) α η y z = .ok (elemVal f α η y z) := by
  have hα : ¬ (α ≤ 0 ∨ 1 ≤ α) := by
    rw [not_or, not_le, not_le]; exact ⟨h0, h1⟩
  unfold elemScore
  rw [if_neg hα]
  cases f
  · simp only [identFn_mean]; rfl
  · simp only [half_eq]; rfl
  · simp only [identFn_expectile α y η h0 h1]; rfl
  · rfl

theorem elemScoreOld_eq_val (f : Functional) (α η y z : K) (h0 : 0 < α) (h1 : α < 1) :
    elemScoreOld (some f) α η y z = .ok ((leInd η z - leInd η y) * identVal f α y η) := by
  have hα : ¬ (α ≤ 0 ∨ 1 ≤ α) := by
    rw [not_or, not_le, not_le]; exact ⟨h0, h1⟩
  unfold elemScoreOld
  rw [if_neg hα, identFn_eq_val f α y η h0 h1]
  rfl

theorem elemScore_invalid (f : Option Functional) (α η y z : K) (h : α ≤ 0 ∨ 1 ≤ α) :
    elemScore f α η y z = .error .valueError := by
  unfold elemScore
  rw [if_pos h]; rfl

theorem elemScoreOld_invalid (f : Option Functional) (α η y z : K) (h : α ≤ 0 ∨ 1 ≤ α) :
    elemScoreOld f α η y z = .error .valueError := by
  unfold elemScoreOld
  rw [if_pos h]; rfl

theorem elemScore_none (α η y z : K) : elemScore none α η y z = .error .valueError := by
  unfold elemScore
  split
  · rfl
  · simp only [identFn_none]; rfl

theorem elemScoreOld_none (α η y z : K) : elemScoreOld none α η y z = .error .valueError := by
  unfold elemScoreOld
  split
  · rfl
  · simp only [identFn_none]; rfl

/-! ## Sign of the threshold factor and its consequences -/

theorem elemV_pos (f : Functional) (α : K) (hα0 : 0 < α) (hα1 : α < 1) {η y : K} (h : y < η) :
    0 < elemV f α η y := by
  cases f
  · simp only [elemV]; linarith
  · simp only [elemV]; rw [if_pos h]; linarith [half_lt_one' (K := K)]
  · simp only [elemV]
    exact mul_pos (mul_pos (by norm_num) (absK_geInd_pos α hα0 hα1 η y)) (by linarith)
  · simp only [elemV]; rw [if_pos h]; linarith

theorem elemV_nonpos (f : Functional) (α : K) (hα0 : 0 < α) (hα1 : α < 1) {η y : K} (h : η ≤ y) :
    elemV f α η y ≤ 0 := by
  cases f
  · simp only [elemV]; linarith
  · simp only [elemV]; rw [if_neg (not_lt.mpr h)]; linarith [ident_half_pos' (K := K)]
  · simp only [elemV]
    exact mul_nonpos_of_nonneg_of_nonpos
      (mul_nonneg (by norm_num) (absK_geInd_pos α hα0 hα1 η y).le) (by linarith)
  · simp only [elemV]; rw [if_neg (not_lt.mpr h)]; linarith

/-- generic: `(1{η ≤ c} - 1{η ≤ t}) · G ≥ 0` when `G ≥ 0` right of `t` and `G ≤ 0` up to `t` -/
theorem leInd_diff_mul_nonneg {η t c G : K} (h1 : t < η → 0 ≤ G) (h2 : η ≤ t → G ≤ 0) :
    0 ≤ (leInd η c - leInd η t) * G := by
  by_cases hc : η ≤ c
  · by_cases ht : η ≤ t
    · rw [leInd_of_le hc, leInd_of_le ht]; simp
    · rw [leInd_of_le hc, leInd_of_lt (not_le.mp ht)]
      have := h1 (not_le.mp ht); linarith
  · by_cases ht : η ≤ t
    · rw [leInd_of_lt (not_le.mp hc), leInd_of_le ht]
      have := h2 ht; linarith
    · rw [leInd_of_lt (not_le.mp hc), leInd_of_lt (not_le.mp ht)]; simp

theorem elemVal_nonneg (f : Functional) (α : K) (hα0 : 0 < α) (hα1 : α < 1) (η y z : K) :
    0 ≤ elemVal f α η y z :=
  leInd_diff_mul_nonneg (fun h => (elemV_pos f α hα0 hα1 h).le) (elemV_nonpos f α hα0 hα1)

theorem elemVal_self (f : Functional) (α η y : K) : elemVal f α η y y = 0 := by
  simp [elemVal]

/-- difference of two elementary scores with the same observation -/
theorem elemVal_sub (f : Functional) (α η y c t : K) :
    elemVal f α η y c - elemVal f α η y t = (leInd η c - leInd η t) * elemV f α η y := by
  simp only [elemVal]; ring

theorem elemVal_mono_up (f : Functional) (α : K) (hα0 : 0 < α) (hα1 : α < 1) (η y : K)
    {z₁ z₂ : K} (h1 : y ≤ z₁) (h2 : z₁ ≤ z₂) : elemVal f α η y z₁ ≤ elemVal f α η y z₂ := by
  have key : 0 ≤ (leInd η z₂ - leInd η z₁) * elemV f α η y := by
    by_cases hc : η ≤ z₁
    · rw [leInd_of_le hc, leInd_of_le (le_trans hc h2)]; simp
    · by_cases hy : y < η
      · have hp := (elemV_pos f α hα0 hα1 hy).le
        rw [leInd_of_lt (not_le.mp hc)]
        by_cases hc2 : η ≤ z₂
        · rw [leInd_of_le hc2]; linarith
        · rw [leInd_of_lt (not_le.mp hc2)]; simp
      · exact absurd (le_trans (not_lt.mp hy) h1) hc
  have := elemVal_sub f α η y z₂ z₁
  linarith

theorem elemVal_mono_dn (f : Functional) (α : K) (hα0 : 0 < α) (hα1 : α < 1) (η y : K)
    {z₁ z₂ : K} (h1 : z₂ ≤ z₁) (h2 : z₁ ≤ y) : elemVal f α η y z₁ ≤ elemVal f α η y z₂ := by
  have key : 0 ≤ (leInd η z₂ - leInd η z₁) * elemV f α η y := by
    by_cases hc : η ≤ z₂
    · rw [leInd_of_le hc, leInd_of_le (le_trans hc h1)]; simp
    · rw [leInd_of_lt (not_le.mp hc)]
      by_cases hc1 : η ≤ z₁
      · have hp := elemV_nonpos f α hα0 hα1 (le_trans hc1 h2)
        rw [leInd_of_le hc1]; linarith
      · rw [leInd_of_lt (not_le.mp hc1)]; simp
  have := elemVal_sub f α η y z₂ z₁
  linarith

/-- old and new threshold factors agree away from `η = y`, and always for mean / expectile -/
theorem elemV_eq_old (f : Functional) (α η y : K)
    (h : η ≠ y ∨ f = .mean ∨ f = .expectile) : elemV f α η y = identVal f α y η := by
  cases f
  · rfl
  · rcases h with h | h | h
    · simp only [elemV, identVal, geInd]
      by_cases h1 : y < η
      · rw [if_pos h1, if_pos h1.le]
      · rw [if_neg h1, if_neg]
        intro h2
        exact h1 (lt_of_le_of_ne h2 (Ne.symm h))
    · cases h
    · cases h
  · rfl
  · rcases h with h | h | h
    · simp only [elemV, identVal, geInd]
      by_cases h1 : y < η
      · rw [if_pos h1, if_pos h1.le]
      · rw [if_neg h1, if_neg]
        intro h2
        exact h1 (lt_of_le_of_ne h2 (Ne.symm h))
    · cases h
    · cases h

/-! ## Consistency: the weighted score difference factorises -/

theorem sum_elemVal_sub (f : Functional) (α η c t : K) (d : List (Obs K)) :
    (d.map fun o => o.2 * elemVal f α η o.1 c).sum - (d.map fun o => o.2 * elemVal f α η o.1 t).sum
      = (leInd η c - leInd η t) * (d.map fun o => o.2 * elemV f α η o.1).sum := by
  induction d with
  | nil => simp
  | cons o d ih =>
    simp only [List.map_cons, List.sum_cons]
    have e := elemVal_sub f α η o.1 c t
    have : o.2 * elemVal f α η o.1 c - o.2 * elemVal f α η o.1 t
        = (leInd η c - leInd η t) * (o.2 * elemV f α η o.1) := by
      rw [← mul_sub, e]; ring
    linarith [mul_add (leInd η c - leInd η t) (o.2 * elemV f α η o.1)
      (d.map fun o => o.2 * elemV f α η o.1).sum]

theorem sum_elemVal_sub_unit (f : Functional) (α η c t : K) (d : List (Obs K)) :
    (d.map fun o => elemVal f α η o.1 c).sum - (d.map fun o => elemVal f α η o.1 t).sum
      = (leInd η c - leInd η t) * (d.map fun o => elemV f α η o.1).sum := by
  induction d with
  | nil => simp
  | cons o d ih =>
    simp only [List.map_cons, List.sum_cons]
    have e := elemVal_sub f α η o.1 c t
    linarith [mul_add (leInd η c - leInd η t) (elemV f α η o.1)
      (d.map fun o => elemV f α η o.1).sum]

/-- generic consistency: if the identification sum at `η` is `≥ 0` right of `t` and `≤ 0` up to `t`
then `t` minimises the weighted elementary score -/
theorem elemVal_consistent (f : Functional) (α η t : K) (d : List (Obs K))
    (h1 : t < η → 0 ≤ (d.map fun o => o.2 * elemV f α η o.1).sum)
    (h2 : η ≤ t → (d.map fun o => o.2 * elemV f α η o.1).sum ≤ 0) (c : K) :
    (d.map fun o => o.2 * elemVal f α η o.1 t).sum ≤ (d.map fun o => o.2 * elemVal f α η o.1 c).sum := by
  have := sum_elemVal_sub f α η c t d
  have := leInd_diff_mul_nonneg (c := c) h1 h2
  linarith

theorem elemVal_consistent_unit (f : Functional) (α η t : K) (d : List (Obs K))
    (h1 : t < η → 0 ≤ (d.map fun o => elemV f α η o.1).sum)
    (h2 : η ≤ t → (d.map fun o => elemV f α η o.1).sum ≤ 0) (c : K) :
    (d.map fun o => elemVal f α η o.1 t).sum ≤ (d.map fun o => elemVal f α η o.1 c).sum := by
  have := sum_elemVal_sub_unit f α η c t d
  have := leInd_diff_mul_nonneg (c := c) h1 h2
  linarith

/-! ## Consistency for the three functionals -/

theorem elemVal_consistent_mean (α η c : K) (d : List (Obs K)) (hne : d ≠ [])
    (hpos : ∀ o ∈ d, 0 < o.2) :
    (d.map fun o => o.2 * elemVal .mean α η o.1 (wmean d)).sum
      ≤ (d.map fun o => o.2 * elemVal .mean α η o.1 c).sum := by
  have hW := wsum_pos hne hpos
  have e : (d.map fun o => o.2 * elemV .mean α η o.1).sum = η * wsum d - wysum d :=
    sum_mean_ident d η
  apply elemVal_consistent
  · intro h
    rw [e]
    rw [wmean, div_lt_iff₀ hW] at h
    linarith
  · intro h
    rw [e]
    rw [wmean, le_div_iff₀ hW] at h
    linarith

theorem elemVal_consistent_expectile (α : K) (hα0 : 0 < α) (hα1 : α < 1) (η c : K)
    (d : List (Obs K)) (hne : d ≠ []) (hpos : ∀ o ∈ d, 0 < o.2) :
    (d.map fun o => o.2 * elemVal .expectile α η o.1 (expectile α d)).sum
      ≤ (d.map fun o => o.2 * elemVal .expectile α η o.1 c).sum := by
  have e : (d.map fun o => o.2 * elemV .expectile α η o.1).sum = 2 * eSum α d η :=
    sum_expectile_ident α hα0 hα1 d η
  have hr := eSum_expectile α hα0 hα1 d hne hpos
  apply elemVal_consistent
  · intro h
    rw [e]
    have := eSum_strictMono α hα0 hα1 d hne hpos h
    linarith
  · intro h
    rw [e]
    have := eSum_mono α hα0 hα1 d hpos h
    linarith

theorem elemVal_consistent_quantile (α : K) (hα0 : 0 < α) (hα1 : α < 1) (η t c : K)
    (d : List (Obs K)) (hne : d ≠ []) (ht1 : qLower α d ≤ t) (ht2 : t ≤ qUpper α d) :
    (d.map fun o => elemVal .quantile α η o.1 t).sum
      ≤ (d.map fun o => elemVal .quantile α η o.1 c).sum := by
  have e : (d.map fun o => elemV .quantile α η o.1).sum = (cntLt d η : K) - α * (d.length : K) :=
    sum_quant_ident_lt α d η
  apply elemVal_consistent_unit
  · intro h
    rw [e]
    have h1 := cntLe_ge_of_qLower_le α hα1 d hne t ht1
    have h2 : (cntLe d t : K) ≤ (cntLt d η : K) := by exact_mod_cast cntLe_le_cntLt d h
    linarith
  · intro h
    rw [e]
    have := cntLt_le_of_le_qUpper α hα0 d hne η (le_trans h ht2)
    linarith

theorem elemVal_median (α η y z : K) : elemVal .median α η y z = elemVal .quantile (1 / 2) η y z :=
  rfl

/-! ## Shape in `η`: zero outside `(min y z, max y z]`, `± elemV` inside -/

theorem elemVal_outside (f : Functional) (α η y z : K) (h : η ≤ min y z ∨ max y z < η) :
    elemVal f α η y z = 0 := by
  rcases h with h | h
  · rw [elemVal, leInd_of_le (le_trans h (min_le_right _ _)),
      leInd_of_le (le_trans h (min_le_left _ _))]
    simp
  · rw [elemVal, leInd_of_lt (lt_of_le_of_lt (le_max_right _ _) h),
      leInd_of_lt (lt_of_le_of_lt (le_max_left _ _) h)]
    simp

theorem inside_cases {η y z : K} (h1 : min y z < η) (h2 : η ≤ max y z) :
    (y < η ∧ η ≤ z) ∨ (z < η ∧ η ≤ y) := by
  rcases le_total y z with h | h
  · rw [min_eq_left h] at h1; rw [max_eq_right h] at h2; exact Or.inl ⟨h1, h2⟩
  · rw [min_eq_right h] at h1; rw [max_eq_left h] at h2; exact Or.inr ⟨h1, h2⟩

theorem elemVal_up (f : Functional) (α : K) {η y z : K} (h1 : y < η) (h2 : η ≤ z) :
    elemVal f α η y z = elemV f α η y := by
  rw [elemVal, leInd_of_le h2, leInd_of_lt h1]; ring

theorem elemVal_dn (f : Functional) (α : K) {η y z : K} (h1 : z < η) (h2 : η ≤ y) :
    elemVal f α η y z = - elemV f α η y := by
  rw [elemVal, leInd_of_le h2, leInd_of_lt h1]; ring

theorem elemVal_mean_inside (α : K) {η y z : K} (h1 : min y z < η) (h2 : η ≤ max y z) :
    elemVal .mean α η y z = |η - y| := by
  rcases inside_cases h1 h2 with ⟨a, b⟩ | ⟨a, b⟩
  · rw [elemVal_up _ _ a b, abs_of_pos (by linarith)]; rfl
  · rw [elemVal_dn _ _ a b, abs_of_nonpos (by linarith)]; rfl

theorem elemVal_expectile_inside (α : K) {η y z : K} (h1 : min y z < η) (h2 : η ≤ max y z) :
    elemVal .expectile α η y z = 2 * |geInd η y - α| * |η - y| := by
  rcases inside_cases h1 h2 with ⟨a, b⟩ | ⟨a, b⟩
  · rw [elemVal_up _ _ a b, abs_of_pos (show 0 < η - y by linarith), ← absK_eq_abs]; rfl
  · rw [elemVal_dn _ _ a b, abs_of_nonpos (show η - y ≤ 0 by linarith), ← absK_eq_abs]
    simp only [elemV]; ring

theorem elemVal_quantile_inside (α : K) {η y z : K} (h1 : min y z < η) (h2 : η ≤ max y z) :
    elemVal .quantile α η y z = if y < z then 1 - α else α := by
  rcases inside_cases h1 h2 with ⟨a, b⟩ | ⟨a, b⟩
  · rw [elemVal_up _ _ a b, if_pos (lt_of_lt_of_le a b)]
    simp only [elemV]; rw [if_pos a]
  · rw [elemVal_dn _ _ a b, if_neg (not_lt.mpr (le_trans a.le b))]
    simp only [elemV]; rw [if_neg (not_lt.mpr b)]; ring

/-- the midpoint of `y`, `z` lies in `(min y z, max y z]` when `y ≠ z` -/
theorem mid_inside {y z : K} (h : y ≠ z) :
    min y z < (min y z + max y z) / 2 ∧ (min y z + max y z) / 2 ≤ max y z := by
  have hlt : min y z < max y z := by
    rcases lt_or_gt_of_ne h with h | h
    · rw [min_eq_left h.le, max_eq_right h.le]; exact h
    · rw [min_eq_right h.le, max_eq_left h.le]; exact h
  constructor
  · rw [lt_div_iff₀ (by norm_num)]; linarith
  · rw [div_le_iff₀ (by norm_num)]; linarith

theorem elemVal_mean_mid (α : K) {y z : K} (h : y ≠ z) :
    (max y z - min y z) * elemVal .mean α ((min y z + max y z) / 2) y z = (z - y) ^ 2 / 2 := by
  obtain ⟨h1, h2⟩ := mid_inside h
  rw [elemVal_mean_inside α h1 h2, min_add_max]
  rcases lt_or_gt_of_ne h with h | h
  · rw [min_eq_left h.le, max_eq_right h.le, abs_of_pos]
    · ring
    · rw [sub_pos, lt_div_iff₀ (by norm_num)]; linarith
  · rw [min_eq_right h.le, max_eq_left h.le, abs_of_neg]
    · ring
    · rw [sub_neg, div_lt_iff₀ (by norm_num)]; linarith

theorem elemVal_expectile_mid (α : K) {y z : K} (h : y ≠ z) :
    (max y z - min y z) * elemVal .expectile α ((min y z + max y z) / 2) y z
      = |geInd z y - α| * (z - y) ^ 2 := by
  obtain ⟨h1, h2⟩ := mid_inside h
  rw [elemVal_expectile_inside α h1 h2, min_add_max]
  rcases lt_or_gt_of_ne h with h | h
  · have hm : y < (y + z) / 2 := by rw [lt_div_iff₀ (by norm_num)]; linarith
    rw [min_eq_left h.le, max_eq_right h.le, abs_of_pos (sub_pos.mpr hm), geInd_of_le hm.le,
      geInd_of_le h.le]
    ring
  · have hm : (y + z) / 2 < y := by rw [div_lt_iff₀ (by norm_num)]; linarith
    rw [min_eq_right h.le, max_eq_left h.le, abs_of_neg (sub_neg.mpr hm), geInd_of_lt hm,
      geInd_of_lt h]
    ring

theorem elemVal_quantile_mid (α : K) {y z : K} (h : y ≠ z) :
    (max y z - min y z) * elemVal .quantile α ((min y z + max y z) / 2) y z
      = (geInd z y - α) * (z - y) := by
  obtain ⟨h1, h2⟩ := mid_inside h
  rw [elemVal_quantile_inside α h1 h2]
  rcases lt_or_gt_of_ne h with h | h
  · rw [min_eq_left h.le, max_eq_right h.le, if_pos h, geInd_of_le h.le]; ring
  · rw [min_eq_right h.le, max_eq_left h.le, if_neg (not_lt.mpr h.le), geInd_of_lt h]; ring

/-! ## Array version -/

theorem elemArr_length_error (old : Bool) (f : Option Functional) (α η : K) (ys zs : List K)
    (h : ys.length ≠ zs.length) : elemArr old f α η ys zs = .error .valueError := by
  simp [elemArr, h]
  rfl

theorem elemArr_ok (f : Functional) (α η : K) (h0 : 0 < α) (h1 : α < 1) (ys zs : List K)
    (h : ys.length = zs.length) :
    elemArr false (some f) α η ys zs = .ok ((ys.zip zs).map fun p => elemVal f α η p.1 p.2) := by
  unfold elemArr
  rw [if_neg (by simpa using h)]
  exact mapM_except_ok _ _ _ (fun p _ => elemScore_eq_val f α η p.1 p.2 h0 h1)

end MD
