import MD.Proofs.PavaEq
import MD.Proofs.Unique
import MD.Proofs.QuantStage
import MD.Proofs.ExpectileInst
import Mathlib.Tactic.Linarith
import Mathlib.Tactic.Ring
import Mathlib.Tactic.NormNum

/-! # Helpers for lifting the theory of `gpava` / `pavaMean` / `quantileFit` to `isoReg`

* `orient`, `mirrorR`, `MonoDir`: the decreasing direction of `isoReg` is "reverse the observations,
  fit, reverse the fit (and mirror `r`)".
* `total_reverse`, `sum_zipWith_reverse`: sums over zipped lists do not see a simultaneous reversal.
* `isoReg_mean_some`, `isoReg_mean_none`, `isoReg_expectile_some`, `isoReg_expectile_none`,
  `isoReg_quantile_none`, `isoReg_median_none`: what `isoReg` returns under exactly the guards the
  code enforces; `isoReg_*_error…`: the error branches.
* `orient_optimal`, `orient_unique`: transport of optimality / uniqueness through `orient`.
* `asymSq_midpoint`, `C03_unique_inc`: strong convexity of the asymmetric squared loss and
  uniqueness of the isotonic expectile fit (increasing orientation). -/

set_option linter.unusedSectionVars false

namespace MD
variable {K : Type} [Field K] [LinearOrder K] [IsStrictOrderedRing K]

/-! ## 1. Orientation -/

/-- `l` for the increasing direction, `l[::-1]` for the decreasing one -/
def orient {β : Type} (inc : Bool) (l : List β) : List β := if inc then l else l.reverse

/-- what `isoReg` does to the block index vector `r` in the decreasing direction:
`r ↦ (n - r)[::-1]` with `n = r[-1]` -/
def mirrorR (inc : Bool) (r : List Nat) : List Nat :=
  if inc then r else r.reverse.map (fun i => r.getLast?.getD 0 - i)

/-- monotone in the requested direction: non-decreasing for `inc = true`, non-increasing otherwise -/
def MonoDir (inc : Bool) (x : List K) : Prop :=
  if inc then x.Pairwise (· ≤ ·) else x.Pairwise (· ≥ ·)

section Orient
variable {β γ : Type}

@[simp] theorem orient_true (l : List β) : orient true l = l := rfl
@[simp] theorem orient_false (l : List β) : orient false l = l.reverse := rfl

@[simp] theorem orient_orient (inc : Bool) (l : List β) : orient inc (orient inc l) = l := by
  cases inc <;> simp

@[simp] theorem orient_length (inc : Bool) (l : List β) : (orient inc l).length = l.length := by
  cases inc <;> simp

@[simp] theorem mem_orient (inc : Bool) (l : List β) (a : β) : a ∈ orient inc l ↔ a ∈ l := by
  cases inc <;> simp

theorem orient_ne_nil (inc : Bool) {l : List β} (h : l ≠ []) : orient inc l ≠ [] := by
  cases inc <;> simpa using h

theorem orient_zip (inc : Bool) (l₁ : List β) (l₂ : List γ) (h : l₁.length = l₂.length) :
    orient inc (l₁.zip l₂) = (orient inc l₁).zip (orient inc l₂) := by
  cases inc
  · simp only [orient_false]
    exact List.reverse_zipWith h
  · rfl

theorem orient_map (inc : Bool) (f : β → γ) (l : List β) :
    orient inc (l.map f) = (orient inc l).map f := by
  cases inc <;> simp

theorem orient_eq_iff (inc : Bool) (a b : List β) : orient inc a = b ↔ a = orient inc b := by
  constructor
  · intro h; rw [← h, orient_orient]
  · intro h; rw [h, orient_orient]

end Orient

@[simp] theorem monoDir_true (x : List K) : MonoDir true x ↔ x.Pairwise (· ≤ ·) := Iff.rfl
@[simp] theorem monoDir_false (x : List K) : MonoDir false x ↔ x.Pairwise (· ≥ ·) := Iff.rfl

/-- non-increasing = the mirror image is non-decreasing -/
theorem monoDir_false_iff (x : List K) : MonoDir false x ↔ MonoDir true x.reverse := by
  simp only [monoDir_true, monoDir_false, List.pairwise_reverse]

theorem monoDir_iff_orient (inc : Bool) (x : List K) :
    MonoDir inc x ↔ (orient inc x).Pairwise (· ≤ ·) := by
  cases inc
  · exact monoDir_false_iff x
  · rfl

theorem monoDir_orient (inc : Bool) (x : List K) :
    MonoDir inc (orient inc x) ↔ x.Pairwise (· ≤ ·) := by
  rw [monoDir_iff_orient, orient_orient]

/-! ## 2. Sums over zipped lists and reversal -/

theorem sum_zipWith_reverse {β γ : Type} (f : β → γ → K) (l₁ : List β) (l₂ : List γ)
    (h : l₁.length = l₂.length) :
    (List.zipWith f l₁.reverse l₂.reverse).sum = (List.zipWith f l₁ l₂).sum := by
  rw [← List.reverse_zipWith h, List.sum_reverse]

theorem sum_zipWith_orient {β γ : Type} (inc : Bool) (f : β → γ → K) (l₁ : List β) (l₂ : List γ)
    (h : l₁.length = l₂.length) :
    (List.zipWith f (orient inc l₁) (orient inc l₂)).sum = (List.zipWith f l₁ l₂).sum := by
  cases inc
  · exact sum_zipWith_reverse f l₁ l₂ h
  · rfl

/-- the total score does not see a simultaneous reversal of data and predictions -/
theorem total_reverse (S : Obs K → K → K) (ys : List (Obs K)) (zs : List K)
    (h : ys.length = zs.length) : total S ys.reverse zs.reverse = total S ys zs :=
  sum_zipWith_reverse S ys zs h

theorem total_orient (inc : Bool) (S : Obs K → K → K) (ys : List (Obs K)) (zs : List K)
    (h : ys.length = zs.length) : total S (orient inc ys) (orient inc zs) = total S ys zs :=
  sum_zipWith_orient inc S ys zs h

/-! ## 3. `half` -/

theorem half_pos' : (0 : K) < half := by rw [half_eq]; norm_num
theorem half_lt_one : (half : K) < 1 := by rw [half_eq]; norm_num
theorem one_half_pos : (0 : K) < 1 / 2 := by norm_num
theorem one_half_lt_one : (1 / 2 : K) < 1 := by norm_num

/-! ## 4. Unfolding `isoReg` -/

theorem not_any_le_zero {w : List K} (hpos : ∀ v ∈ w, 0 < v) : ¬ ∃ x ∈ w, x ≤ 0 := by
  rintro ⟨x, hx, h0⟩
  exact absurd (hpos x hx) (not_lt.mpr h0)

/-- unknown functional: `ValueError` before anything else is looked at -/
theorem isoReg_none (α : K) (inc : Bool) (y : List K) (w : Option (List K)) :
    isoReg none α inc y w = .error .valueError := rfl

/-- `functional ∈ {expectile, quantile}` and `level ∉ (0, 1)`: `ValueError` -/
theorem isoReg_level_error (f : Functional) (hf : f = .expectile ∨ f = .quantile) (α : K)
    (hα : α ≤ 0 ∨ 1 ≤ α) (inc : Bool) (y : List K) (w : Option (List K)) :
    isoReg (some f) α inc y w = .error .valueError := by
  rcases hf with rfl | rfl <;> simp [isoReg, hα] <;> rfl

/-- weighted quantile: `NotImplementedError` (the level check comes first) -/
theorem isoReg_quantile_weighted (α : K) (hα0 : 0 < α) (hα1 : α < 1) (inc : Bool) (y w : List K) :
    isoReg (some .quantile) α inc y (some w) = .error .notImplemented := by
  simp [isoReg, not_le.mpr hα0, not_le.mpr hα1]; rfl

/-- weighted median: `NotImplementedError`, whatever the level -/
theorem isoReg_median_weighted (β : K) (inc : Bool) (y w : List K) :
    isoReg (some .median) β inc y (some w) = .error .notImplemented := by
  simp [isoReg]; rfl

theorem isoReg_mean_length_error (α : K) (inc : Bool) (y w : List K) (h : w.length ≠ y.length) :
    isoReg (some .mean) α inc y (some w) = .error .valueError := by
  simp [isoReg, h]; rfl

theorem isoReg_expectile_length_error (α : K) (hα0 : 0 < α) (hα1 : α < 1) (inc : Bool)
    (y w : List K) (h : w.length ≠ y.length) :
    isoReg (some .expectile) α inc y (some w) = .error .valueError := by
  simp [isoReg, h, not_le.mpr hα0, not_le.mpr hα1]; rfl

theorem isoReg_mean_weight_error (α : K) (inc : Bool) (y w : List K) (hlen : w.length = y.length)
    (h : ∃ v ∈ w, v ≤ 0) : isoReg (some .mean) α inc y (some w) = .error .valueError := by
  simp [isoReg, hlen, h]; rfl

theorem isoReg_expectile_weight_error (α : K) (hα0 : 0 < α) (hα1 : α < 1) (inc : Bool)
    (y w : List K) (hlen : w.length = y.length) (h : ∃ v ∈ w, v ≤ 0) :
    isoReg (some .expectile) α inc y (some w) = .error .valueError := by
  simp [isoReg, hlen, h, not_le.mpr hα0, not_le.mpr hα1]; rfl

/-- empty input (after all other checks passed): `y[0]` raises `IndexError` -/
theorem isoReg_mean_empty (α : K) (inc : Bool) (w : List K) (hlen : w.length = 0) :
    isoReg (some .mean) α inc [] (some w) = .error .other := by
  have : w = [] := List.length_eq_zero_iff.mp hlen
  subst this
  simp [isoReg]; rfl

theorem isoReg_expectile_empty (α : K) (hα0 : 0 < α) (hα1 : α < 1) (inc : Bool) (w : List K)
    (hlen : w.length = 0) : isoReg (some .expectile) α inc [] (some w) = .error .other := by
  have : w = [] := List.length_eq_zero_iff.mp hlen
  subst this
  simp [isoReg, not_le.mpr hα0, not_le.mpr hα1]; rfl

/-- the mean with explicit weights, under the guards the code enforces -/
theorem isoReg_mean_some (α : K) (inc : Bool) (y w : List K) (hne : y ≠ [])
    (hlen : w.length = y.length) (hpos : ∀ v ∈ w, 0 < v) :
    isoReg (some .mean) α inc y (some w) =
      .ok (orient inc (expand (pavaMean (orient inc (y.zip w)))),
           mirrorR inc (bounds (pavaMean (orient inc (y.zip w))))) := by
  have h := not_any_le_zero hpos
  cases inc <;> simp [isoReg, orient, mirrorR, hlen, hne, h] <;> rfl

/-- `weights=None` is `weights = ones` (any functional) -/
theorem isoReg_weights_none (f : Functional) (hf : f = .mean ∨ f = .expectile) (α : K) (inc : Bool)
    (y : List K) :
    isoReg (some f) α inc y none = isoReg (some f) α inc y (some (y.map fun _ => (1 : K))) := by
  have h1 : ¬ ((1 : K) ≤ 0) := not_le.mpr one_pos
  rcases hf with rfl | rfl <;> simp [isoReg, h1]

theorem isoReg_mean_none (α : K) (inc : Bool) (y : List K) (hne : y ≠ []) :
    isoReg (some .mean) α inc y none =
      .ok (orient inc (expand (pavaMean (orient inc (y.zip (y.map fun _ => (1 : K)))))),
           mirrorR inc (bounds (pavaMean (orient inc (y.zip (y.map fun _ => (1 : K))))))) := by
  rw [isoReg_weights_none _ (Or.inl rfl)]
  exact isoReg_mean_some α inc y _ hne (by simp) (by simp)

/-- the expectile with explicit weights, under the guards the code enforces -/
theorem isoReg_expectile_some (α : K) (hα0 : 0 < α) (hα1 : α < 1) (inc : Bool) (y w : List K)
    (hne : y ≠ []) (hlen : w.length = y.length) (hpos : ∀ v ∈ w, 0 < v) :
    isoReg (some .expectile) α inc y (some w) =
      .ok (orient inc (expand (gpava (expectile α) (orient inc (y.zip w)))),
           mirrorR inc (bounds (gpava (expectile α) (orient inc (y.zip w))))) := by
  have h := not_any_le_zero hpos
  cases inc <;>
    simp [isoReg, orient, mirrorR, hlen, hne, h, not_le.mpr hα0, not_le.mpr hα1] <;> rfl

theorem isoReg_expectile_none (α : K) (hα0 : 0 < α) (hα1 : α < 1) (inc : Bool) (y : List K)
    (hne : y ≠ []) :
    isoReg (some .expectile) α inc y none =
      .ok (orient inc (expand (gpava (expectile α) (orient inc (y.zip (y.map fun _ => (1 : K)))))),
           mirrorR inc
             (bounds (gpava (expectile α) (orient inc (y.zip (y.map fun _ => (1 : K))))))) := by
  rw [isoReg_weights_none _ (Or.inr rfl)]
  exact isoReg_expectile_some α hα0 hα1 inc y _ hne (by simp) (by simp)

/-- the quantile (unweighted, the only supported case), under the guards the code enforces -/
theorem isoReg_quantile_none (α : K) (hα0 : 0 < α) (hα1 : α < 1) (inc : Bool) (y : List K)
    (hne : y ≠ []) :
    isoReg (some .quantile) α inc y none =
      .ok (orient inc (quantileFit α (orient inc (y.zip (y.map fun _ => (1 : K))))).1,
           mirrorR inc (quantileFit α (orient inc (y.zip (y.map fun _ => (1 : K))))).2) := by
  cases inc <;> simp [isoReg, orient, mirrorR, hne, not_le.mpr hα0, not_le.mpr hα1] <;> rfl

/-- the median: the level passed is ignored (not even checked), `half` is used -/
theorem isoReg_median_none (β : K) (inc : Bool) (y : List K) (hne : y ≠ []) :
    isoReg (some .median) β inc y none =
      .ok (orient inc (quantileFit half (orient inc (y.zip (y.map fun _ => (1 : K))))).1,
           mirrorR inc (quantileFit half (orient inc (y.zip (y.map fun _ => (1 : K))))).2) := by
  cases inc <;> simp [isoReg, orient, mirrorR, hne] <;> rfl

/-- median = quantile at level 1/2, on every input (errors included) -/
theorem isoReg_median_eq (β : K) (inc : Bool) (y : List K) (w : Option (List K)) :
    isoReg (some .median) β inc y w = isoReg (some .quantile) (1 / 2) inc y w := by
  have h : ¬ ((2 : K) ≤ 0 ∨ 1 ≤ (2 : K)⁻¹) := by
    rw [not_or, not_le, not_le]
    constructor
    · norm_num
    · rw [inv_lt_one₀ (by norm_num)]; norm_num
  cases w <;> simp [isoReg, half_eq, h]

/-! ## 4b. The fitted sequence of a successful call -/

theorem isoReg_mean_x {α : K} {inc : Bool} {y w : List K} (hne : y ≠ [])
    (hlen : w.length = y.length) (hpos : ∀ v ∈ w, 0 < v) {x : List K} {r : List Nat}
    (h : isoReg (some .mean) α inc y (some w) = .ok (x, r)) :
    x = orient inc (expand (gpava wmean (orient inc (y.zip w)))) := by
  rw [isoReg_mean_some α inc y w hne hlen hpos] at h
  have hx := (Prod.mk.inj (Except.ok.inj h)).1
  rw [← hx, pavaMean_eq_gpava]
  intro o ho
  exact hpos o.2 (List.of_mem_zip (a := o.1) (b := o.2) ((mem_orient inc _ o).mp ho)).2

theorem isoReg_expectile_x {α : K} (hα0 : 0 < α) (hα1 : α < 1) {inc : Bool} {y w : List K}
    (hne : y ≠ []) (hlen : w.length = y.length) (hpos : ∀ v ∈ w, 0 < v) {x : List K}
    {r : List Nat} (h : isoReg (some .expectile) α inc y (some w) = .ok (x, r)) :
    x = orient inc (expand (gpava (expectile α) (orient inc (y.zip w)))) := by
  rw [isoReg_expectile_some α hα0 hα1 inc y w hne hlen hpos] at h
  exact (Prod.mk.inj (Except.ok.inj h)).1.symm

theorem isoReg_quantile_x {α : K} (hα0 : 0 < α) (hα1 : α < 1) {inc : Bool} {y : List K}
    (hne : y ≠ []) {x : List K} {r : List Nat}
    (h : isoReg (some .quantile) α inc y none = .ok (x, r)) :
    x = orient inc (quantileFit α (orient inc (y.zip (y.map fun _ => (1 : K))))).1 := by
  rw [isoReg_quantile_none α hα0 hα1 inc y hne] at h
  exact (Prod.mk.inj (Except.ok.inj h)).1.symm

theorem isoReg_median_x {β : K} {inc : Bool} {y : List K} (hne : y ≠ []) {x : List K}
    {r : List Nat} (h : isoReg (some .median) β inc y none = .ok (x, r)) :
    x = orient inc (quantileFit (1 / 2) (orient inc (y.zip (y.map fun _ => (1 : K))))).1 := by
  rw [isoReg_median_none β inc y hne, half_eq] at h
  exact (Prod.mk.inj (Except.ok.inj h)).1.symm

/-! ## 5. Observations built by `zip` -/

theorem zip_length_of_eq {y w : List K} (hlen : w.length = y.length) :
    (y.zip w).length = y.length := by simp [hlen]

theorem zip_snd_pos {y w : List K} (hpos : ∀ v ∈ w, 0 < v) : ∀ o ∈ y.zip w, 0 < o.2 :=
  fun o ho => hpos o.2 (List.of_mem_zip (a := o.1) (b := o.2) ho).2

theorem orient_zip_snd_pos (inc : Bool) {y w : List K} (hpos : ∀ v ∈ w, 0 < v) :
    ∀ o ∈ orient inc (y.zip w), 0 < o.2 :=
  fun o ho => zip_snd_pos hpos o ((mem_orient inc _ o).mp ho)

theorem zip_fst_mem {y w : List K} {o : Obs K} (ho : o ∈ y.zip w) : o.1 ∈ y :=
  (List.of_mem_zip (a := o.1) (b := o.2) ho).1

theorem ones_pos (y : List K) : ∀ v ∈ y.map (fun _ => (1 : K)), 0 < v := by
  intro v hv
  obtain ⟨_, _, rfl⟩ := List.mem_map.mp hv
  exact one_pos

theorem ones_length (y : List K) : (y.map (fun _ => (1 : K))).length = y.length := by simp

/-- `Σ o.2 · v` over zipped observations is `Σ w · v` -/
theorem sum_zip_snd_mul (y w x : List K) (hlen : w.length = y.length) :
    (List.zipWith (fun (o : Obs K) v => o.2 * v) (y.zip w) x).sum
      = (List.zipWith (· * ·) w x).sum := by
  induction y generalizing w x with
  | nil =>
    have : w = [] := List.length_eq_zero_iff.mp (by simpa using hlen)
    subst this; simp
  | cons a y ih =>
    cases w with
    | nil => simp at hlen
    | cons b w =>
      cases x with
      | nil => simp
      | cons c x =>
        simp only [List.zip_cons_cons, List.zipWith_cons_cons, List.sum_cons]
        rw [ih w x (by simpa using hlen)]

theorem wysum_zip (y w : List K) : wysum (y.zip w) = (List.zipWith (· * ·) w y).sum := by
  induction y generalizing w with
  | nil => simp [wysum]
  | cons a y ih =>
    cases w with
    | nil => simp [wysum]
    | cons b w =>
      have := ih w
      simp only [wysum, List.zip_cons_cons, List.map_cons, List.sum_cons,
        List.zipWith_cons_cons] at this ⊢
      rw [this]; ring

/-- weighted totals are preserved by the isotonic mean fit, in list form -/
theorem C01_total_zip (y w : List K) (hlen : w.length = y.length) (hpos : ∀ v ∈ w, 0 < v) :
    (List.zipWith (· * ·) w (expand (gpava wmean (y.zip w)))).sum
      = (List.zipWith (· * ·) w y).sum := by
  rw [← sum_zip_snd_mul y w _ hlen, C01_total (y.zip w) (zip_snd_pos hpos), wysum_zip]

/-! ## 6. Transport of optimality and uniqueness through `orient` -/

/-- if `x'` is optimal for the oriented data among non-decreasing sequences, `orient inc x'` is
optimal for the data among the sequences that are monotone in direction `inc` -/
theorem orient_optimal (S : Obs K → K → K) (inc : Bool) (obs : List (Obs K)) (x' : List K)
    (hx' : x'.length = obs.length)
    (hopt : ∀ zs', (orient inc obs).length = zs'.length → zs'.Pairwise (· ≤ ·) →
      total S (orient inc obs) x' ≤ total S (orient inc obs) zs')
    (zs : List K) (hz : zs.length = obs.length) (hm : MonoDir inc zs) :
    total S obs (orient inc x') ≤ total S obs zs := by
  have h := hopt (orient inc zs) (by simp [hz]) ((monoDir_iff_orient inc zs).mp hm)
  rw [total_orient inc S obs zs hz.symm] at h
  have e := total_orient inc S obs (orient inc x') (by simp [hx'])
  rw [orient_orient] at e
  rwa [e] at h

theorem orient_unique (S : Obs K → K → K) (inc : Bool) (obs : List (Obs K)) (x' : List K)
    (hx' : x'.length = obs.length)
    (huniq : ∀ zs', (orient inc obs).length = zs'.length → zs'.Pairwise (· ≤ ·) →
      total S (orient inc obs) zs' ≤ total S (orient inc obs) x' → zs' = x')
    (zs : List K) (hz : zs.length = obs.length) (hm : MonoDir inc zs)
    (h : total S obs zs ≤ total S obs (orient inc x')) : zs = orient inc x' := by
  have e := total_orient inc S obs (orient inc x') (by simp [hx'])
  rw [orient_orient] at e
  have := huniq (orient inc zs) (by simp [hz]) ((monoDir_iff_orient inc zs).mp hm)
    (by rw [total_orient inc S obs zs hz.symm, e]; exact h)
  exact (orient_eq_iff inc zs x').mp this

/-! ## 7. Strong convexity of the asymmetric squared loss; uniqueness of the expectile fit -/

/-- `g(t) = |1{y ≤ t} − α| (t − y)²` satisfies
`g((a+b)/2) ≤ g(a)/2 + g(b)/2 − α(1−α)(a−b)²/4`
(`g(t) = α(1−α) s² + (1−α)² s₊² + α² s₋²` with `s = t − y`, and `s₊²`, `s₋²` are convex) -/
theorem asym_mid (α : K) (hα0 : 0 < α) (hα1 : α < 1) (y a b : K) :
    (if y ≤ (a + b) / 2 then 1 - α else α) * (((a + b) / 2 - y) * ((a + b) / 2 - y))
      ≤ ((if y ≤ a then 1 - α else α) * ((a - y) * (a - y))) / 2
        + ((if y ≤ b then 1 - α else α) * ((b - y) * (b - y))) / 2
        - α * (1 - α) * ((a - b) * (a - b)) / 4 := by
  have hβ : 0 < 1 - α := by linarith
  have hA := mul_self_nonneg α
  have hB := mul_self_nonneg (1 - α)
  obtain ⟨u, hu⟩ : ∃ u, u = a - y := ⟨_, rfl⟩
  obtain ⟨v, hv⟩ : ∃ v, v = b - y := ⟨_, rfl⟩
  have ea : a = u + y := by rw [hu]; ring
  have eb : b = v + y := by rw [hv]; ring
  subst ea eb
  have em : (u + y + (v + y)) / 2 - y = (u + v) / 2 := by ring
  have e1 : u + y - y = u := by ring
  have e2 : v + y - y = v := by ring
  have e3 : u + y - (v + y) = u - v := by ring
  rw [em, e1, e2, e3]
  by_cases h1 : y ≤ u + y <;> by_cases h2 : y ≤ v + y <;> by_cases h3 : y ≤ (u + y + (v + y)) / 2
  all_goals simp only [h1, h2, h3, if_true, if_false]
  · nlinarith [mul_nonneg hB (mul_self_nonneg (u - v))]
  · exfalso; apply h3; linarith
  · rw [not_le] at h2
    have hu0 : 0 ≤ u := by linarith
    have hv0 : v < 0 := by linarith
    have hm0 : 0 ≤ u + v := by linarith
    have hp : (u + v) / 2 * ((u + v) / 2) ≤ u * u / 2 := by nlinarith
    nlinarith [mul_nonneg hB (sub_nonneg.2 hp), mul_nonneg hA (mul_self_nonneg v)]
  · rw [not_le] at h2 h3
    have hu0 : 0 ≤ u := by linarith
    have hv0 : v < 0 := by linarith
    have hm0 : u + v < 0 := by linarith
    have hp : (u + v) / 2 * ((u + v) / 2) ≤ v * v / 2 := by nlinarith
    nlinarith [mul_nonneg hA (sub_nonneg.2 hp), mul_nonneg hB (mul_self_nonneg u)]
  · rw [not_le] at h1
    have hu0 : u < 0 := by linarith
    have hv0 : 0 ≤ v := by linarith
    have hm0 : 0 ≤ u + v := by linarith
    have hp : (u + v) / 2 * ((u + v) / 2) ≤ v * v / 2 := by nlinarith
    nlinarith [mul_nonneg hB (sub_nonneg.2 hp), mul_nonneg hA (mul_self_nonneg u)]
  · rw [not_le] at h1 h3
    have hu0 : u < 0 := by linarith
    have hv0 : 0 ≤ v := by linarith
    have hm0 : u + v < 0 := by linarith
    have hp : (u + v) / 2 * ((u + v) / 2) ≤ u * u / 2 := by nlinarith
    nlinarith [mul_nonneg hA (sub_nonneg.2 hp), mul_nonneg hB (mul_self_nonneg v)]
  · exfalso; rw [not_le] at h1 h2; linarith
  · nlinarith [mul_nonneg hA (mul_self_nonneg (u - v))]

/-- the per-observation asymmetric squared loss is strongly midpoint convex -/
theorem asymSq_midpoint (α : K) (hα0 : 0 < α) (hα1 : α < 1) (o : Obs K) (ho : 0 < o.2) (a b : K) :
    (asymSq α hα0 hα1).S o ((a + b) / 2)
      ≤ (asymSq α hα0 hα1).S o a / 2 + (asymSq α hα0 hα1).S o b / 2
        - α * (1 - α) * (o.2 * ((a - b) * (a - b))) / 4 := by
  have h := mul_le_mul_of_nonneg_left (asym_mid α hα0 hα1 o.1 a b) ho.le
  simp only [asymSq, eWeight]
  linarith

theorem total_asymSq_midpoint (α : K) (hα0 : 0 < α) (hα1 : α < 1) (d : List (Obs K))
    (hpos : ∀ o ∈ d, 0 < o.2) (xs zs : List K)
    (hx : d.length = xs.length) (hz : d.length = zs.length) :
    total (asymSq α hα0 hα1).S d (List.zipWith (fun a b => (a + b) / 2) xs zs)
      ≤ total (asymSq α hα0 hα1).S d xs / 2 + total (asymSq α hα0 hα1).S d zs / 2
        - α * (1 - α) * gap d xs zs / 4 := by
  induction d generalizing xs zs with
  | nil => simp [total, gap]
  | cons o d ih =>
    cases xs with
    | nil => simp at hx
    | cons x xs =>
      cases zs with
      | nil => simp at hz
      | cons z zs =>
        have h1 := ih (fun o' ho' => hpos o' (by simp [ho'])) xs zs (by simpa using hx)
          (by simpa using hz)
        have h2 := asymSq_midpoint α hα0 hα1 o (hpos o (by simp)) x z
        simp only [total, List.zipWith_cons_cons, List.sum_cons, gap] at h1 ⊢
        linarith

theorem C03_expand_length (α : K) (hα0 : 0 < α) (hα1 : α < 1) (ys : List (Obs K))
    (hpos : ∀ o ∈ ys, 0 < o.2) : (expand (gpava (expectile α) ys)).length = ys.length :=
  expand_length (expectileFun α hα0 hα1).internal ys hpos

/-- C03_monotone (increasing orientation): the isotonic expectile fit is non-decreasing -/
theorem C03_monotone_inc (α : K) (hα0 : 0 < α) (hα1 : α < 1) (ys : List (Obs K))
    (hpos : ∀ o ∈ ys, 0 < o.2) : (expand (gpava (expectile α) ys)).Pairwise (· ≤ ·) :=
  expand_gpava_sorted (expectileFun α hα0 hα1).internal ys hpos

/-- C03_maxmin (increasing orientation): the isotonic expectile fit is the max-min of expectiles
of segments -/
theorem C03_maxmin_inc (α : K) (hα0 : 0 < α) (hα1 : α < 1) (ys : List (Obs K))
    (hpos : ∀ o ∈ ys, 0 < o.2) (i : Nat) (hi : i < ys.length) :
    let x := expand (gpava (expectile α) ys)
    ∀ hx : i < x.length,
    (∃ a, a ≤ i ∧ ∀ b, i ≤ b → b < ys.length → x[i] ≤ expectile α ((ys.take (b + 1)).drop a)) ∧
    (∀ a, a ≤ i → ∃ b, i ≤ b ∧ b < ys.length ∧ expectile α ((ys.take (b + 1)).drop a) ≤ x[i]) :=
  gpava_maxmin (expectileFun α hα0 hα1).internal ys hpos i hi

/-- **C03_unique (increasing orientation)**: a non-decreasing sequence whose asymmetric squared
loss is not larger than that of the isotonic expectile fit is equal to that fit. -/
theorem C03_unique_inc (α : K) (hα0 : 0 < α) (hα1 : α < 1) (ys : List (Obs K))
    (hpos : ∀ o ∈ ys, 0 < o.2) (zs : List K) (hlen : ys.length = zs.length)
    (hsort : zs.Pairwise (· ≤ ·))
    (hopt : total (asymSq α hα0 hα1).S ys zs
      ≤ total (asymSq α hα0 hα1).S ys (expand (gpava (expectile α) ys))) :
    zs = expand (gpava (expectile α) ys) := by
  have hxlen : ys.length = (expand (gpava (expectile α) ys)).length :=
    (C03_expand_length α hα0 hα1 ys hpos).symm
  have hxsort := C03_monotone_inc α hα0 hα1 ys hpos
  have hmlen : ys.length
      = (List.zipWith (fun a b => (a + b) / 2) (expand (gpava (expectile α) ys)) zs).length := by
    rw [List.length_zipWith, ← hxlen, ← hlen, Nat.min_self]
  have hbest := C03_optimal_inc α hα0 hα1 ys hpos _ hmlen (midpoint_sorted _ zs hxsort hsort)
  have hmid := total_asymSq_midpoint α hα0 hα1 ys hpos _ zs hxlen hlen
  have hc : 0 < α * (1 - α) := mul_pos hα0 (by linarith)
  have hg0 := gap_nonneg ys hpos (expand (gpava (expectile α) ys)) zs
  have hg : gap ys (expand (gpava (expectile α) ys)) zs ≤ 0 := by
    by_contra hcon
    rw [not_le] at hcon
    have := mul_pos hc hcon
    linarith
  exact (gap_zero ys hpos _ zs hxlen hlen hg).symm

end MD
