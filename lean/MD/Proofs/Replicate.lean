import MD.Proofs.IsoRegLemmas
import Mathlib.Tactic.Linarith
import Mathlib.Tactic.Ring

/-! # Integer weights = repeated observations (helpers for `MD/Props/C12b.lean`)

* `rep l n`: repeat the `i`-th entry of `l` exactly `n[i]` times.
* `rep_total_eq`: for a score that is linear in the weight, the unweighted total score of the
  replicated fit on the replicated data is the weighted total score of the fit on the data.
* `rep_pick`: from every competitor `z'` on the replicated data one can pick one entry per group of
  repeated rows (a sublist of `z'`, hence monotone if `z'` is) whose weighted total score on the
  original data is not larger than the unweighted total score of `z'` (no convexity is needed: the
  best entry of a group is at least as good as the group on average, and all rows of a group carry
  the same `y`).
* `rep_optimal`: hence the replicated optimal fit is optimal on the replicated data. -/

set_option linter.unusedSectionVars false

namespace MD

/-- repeat the `i`-th entry of `l` exactly `n[i]` times -/
def rep {α : Type} (l : List α) (n : List Nat) : List α :=
  (List.zip l n).flatMap (fun p => List.replicate p.2 p.1)

section RepBasic
variable {α β : Type}

@[simp] theorem rep_nil_left (n : List Nat) : rep ([] : List α) n = [] := by simp [rep]
@[simp] theorem rep_nil_right (l : List α) : rep l [] = [] := by simp [rep]
@[simp] theorem rep_cons (a : α) (l : List α) (k : Nat) (n : List Nat) :
    rep (a :: l) (k :: n) = List.replicate k a ++ rep l n := by simp [rep]

theorem rep_length_eq (l : List α) (l' : List β) (n : List Nat) (h : l.length = l'.length) :
    (rep l n).length = (rep l' n).length := by
  induction l generalizing l' n with
  | nil =>
    have : l' = [] := List.length_eq_zero_iff.mp (by simpa using h.symm)
    subst this; simp
  | cons a l ih =>
    cases l' with
    | nil => simp at h
    | cons b l' =>
      cases n with
      | nil => simp
      | cons k n => simp [ih l' n (by simpa using h)]

theorem mem_of_mem_rep {l : List α} {n : List Nat} {b : α} (h : b ∈ rep l n) : b ∈ l := by
  induction l generalizing n with
  | nil => simp at h
  | cons a l ih =>
    cases n with
    | nil => simp at h
    | cons k n =>
      rw [rep_cons, List.mem_append] at h
      rcases h with h | h
      · simp [(List.mem_replicate.mp h).2]
      · simp [ih h]

theorem rep_pairwise {R : α → α → Prop} (hR : ∀ a, R a a) (l : List α) (n : List Nat)
    (h : l.Pairwise R) : (rep l n).Pairwise R := by
  induction l generalizing n with
  | nil => simp
  | cons a l ih =>
    cases n with
    | nil => simp
    | cons k n =>
      obtain ⟨h1, h2⟩ := List.pairwise_cons.mp h
      rw [rep_cons, List.pairwise_append]
      refine ⟨?_, ih n h2, ?_⟩
      · rw [List.pairwise_replicate]
        exact Or.inr (hR a)
      · intro x hx y hy
        rw [(List.mem_replicate.mp hx).2]
        exact h1 y (mem_of_mem_rep hy)

theorem rep_ne_nil {l : List α} {n : List Nat} (hl : l ≠ []) (hlen : n.length = l.length)
    (hpos : ∀ k ∈ n, 0 < k) : rep l n ≠ [] := by
  cases l with
  | nil => exact absurd rfl hl
  | cons a l =>
    cases n with
    | nil => simp at hlen
    | cons k n =>
      have hk : 0 < k := hpos k (by simp)
      rw [rep_cons]
      intro h
      have := congrArg List.length h
      simp at this
      omega

/-- the flat-map definition agrees with the obvious recursion -/
theorem rep_eq_rec (l : List α) (n : List Nat) :
    rep l n = match l, n with
      | a :: l, k :: n => List.replicate k a ++ rep l n
      | _, _ => [] := by
  cases l with
  | nil => simp
  | cons a l => cases n <;> simp

end RepBasic

variable {K : Type} [Field K] [LinearOrder K] [IsStrictOrderedRing K]

theorem rep_monoDir (inc : Bool) (x : List K) (n : List Nat) (h : MonoDir inc x) :
    MonoDir inc (rep x n) := by
  cases inc
  · exact rep_pairwise (R := (· ≥ ·)) (fun a => le_refl a) x n h
  · exact rep_pairwise (R := (· ≤ ·)) (fun a => le_refl a) x n h

theorem monoDir_sublist (inc : Bool) {z z' : List K} (hs : z.Sublist z') (h : MonoDir inc z') :
    MonoDir inc z := by
  cases inc
  · exact List.Pairwise.sublist hs h
  · exact List.Pairwise.sublist hs h

/-! ## Scores that are linear in the weight -/

/-- the total score of `zs` on `k` unit-weight copies of the observation `a` -/
theorem rep_total_group (S : Obs K → K → K) (a : K) (zs : List K) :
    total S ((List.replicate zs.length a).zip (List.replicate zs.length (1 : K))) zs
      = (zs.map (fun z => S (a, 1) z)).sum := by
  induction zs with
  | nil => simp [total]
  | cons z zs ih =>
    simp only [total, List.length_cons, List.replicate_succ, List.zip_cons_cons,
      List.zipWith_cons_cons, List.sum_cons, List.map_cons] at ih ⊢
    rw [ih]

/-- the best entry of a non-empty list is at least as good as the list on average -/
theorem rep_best (f : K → K) (zs : List K) (hne : zs ≠ []) :
    ∃ m ∈ zs, (zs.length : K) * f m ≤ (zs.map f).sum := by
  induction zs with
  | nil => exact absurd rfl hne
  | cons z zs ih =>
    by_cases hz : zs = []
    · subst hz
      exact ⟨z, by simp, by simp⟩
    · obtain ⟨m, hm, hle⟩ := ih hz
      have hn : (0 : K) ≤ (zs.length : K) := Nat.cast_nonneg _
      simp only [List.length_cons, List.map_cons, List.sum_cons, Nat.cast_add, Nat.cast_one]
      rcases le_total (f z) (f m) with h | h
      · refine ⟨z, by simp, ?_⟩
        nlinarith [mul_le_mul_of_nonneg_left h hn]
      · refine ⟨m, by simp [hm], ?_⟩
        nlinarith

theorem rep_total_eq (S : Obs K → K → K) (hS : ∀ a w z, S (a, w) z = w * S (a, 1) z)
    (y : List K) (n : List Nat) (x : List K) (hn : n.length = y.length)
    (hx : x.length = y.length) :
    total S ((rep y n).zip ((rep y n).map fun _ => (1 : K))) (rep x n)
      = total S (y.zip (n.map fun k : Nat => (k : K))) x := by
  induction y generalizing n x with
  | nil =>
    have : x = [] := List.length_eq_zero_iff.mp (by simpa using hx)
    subst this; simp [total]
  | cons a y ih =>
    cases n with
    | nil => simp at hn
    | cons k n =>
      cases x with
      | nil => simp at hx
      | cons c x =>
        rw [rep_cons, rep_cons, List.map_append, List.map_replicate,
          List.zip_append (by simp), total_append _ _ _ _ _ (by simp),
          ih n x (by simpa using hn) (by simpa using hx)]
        have e := rep_total_group S a (List.replicate k c)
        simp only [List.length_replicate, List.map_replicate, List.sum_replicate,
          nsmul_eq_mul] at e
        rw [e]
        simp only [total, List.map_cons, List.zip_cons_cons, List.zipWith_cons_cons,
          List.sum_cons]
        rw [hS a (k : K) c]

/-- one entry per group of repeated rows, at least as good as the group -/
theorem rep_pick (S : Obs K → K → K) (hS : ∀ a w z, S (a, w) z = w * S (a, 1) z)
    (y : List K) (n : List Nat) (hn : n.length = y.length) (hpos : ∀ k ∈ n, 0 < k)
    (z' : List K) (hz' : z'.length = (rep y n).length) :
    ∃ z : List K, z.length = y.length ∧ z.Sublist z' ∧
      total S (y.zip (n.map fun k : Nat => (k : K))) z
        ≤ total S ((rep y n).zip ((rep y n).map fun _ => (1 : K))) z' := by
  induction y generalizing n z' with
  | nil =>
    refine ⟨[], rfl, List.nil_sublist _, ?_⟩
    simp [total]
  | cons a y ih =>
    cases n with
    | nil => simp at hn
    | cons k n =>
      have hk : 0 < k := hpos k (by simp)
      rw [rep_cons, List.length_append, List.length_replicate] at hz'
      have hl1 : (z'.take k).length = k := by rw [List.length_take]; omega
      have hl2 : (z'.drop k).length = (rep y n).length := by rw [List.length_drop]; omega
      have hne : z'.take k ≠ [] := by
        intro h
        rw [h] at hl1
        simp at hl1
        omega
      obtain ⟨m, hm, hle⟩ := rep_best (fun z => S (a, 1) z) (z'.take k) hne
      obtain ⟨z, hzl, hzs, hzle⟩ := ih n (by simpa using hn)
        (fun k' hk' => hpos k' (by simp [hk'])) (z'.drop k) hl2
      refine ⟨m :: z, by simp [hzl], ?_, ?_⟩
      · have h1 : [m].Sublist (z'.take k) := List.singleton_sublist.mpr hm
        have := List.Sublist.append h1 hzs
        rwa [List.take_append_drop] at this
      · have e := rep_total_group S a (z'.take k)
        rw [hl1] at e hle
        rw [rep_cons, List.map_append, List.map_replicate, List.zip_append (by simp)]
        conv_rhs => rw [← List.take_append_drop k z']
        rw [total_append _ _ _ _ _ (by simp [hl1]), e]
        simp only [total, List.map_cons, List.zip_cons_cons, List.zipWith_cons_cons,
          List.sum_cons] at hzle ⊢
        rw [hS a (k : K) m]
        linarith

/-- **the replicated optimal fit is optimal on the replicated data** (any score that is linear in
the weight, either direction) -/
theorem rep_optimal (S : Obs K → K → K) (hS : ∀ a w z, S (a, w) z = w * S (a, 1) z)
    (inc : Bool) (y : List K) (n : List Nat) (hn : n.length = y.length) (hpos : ∀ k ∈ n, 0 < k)
    (x : List K) (hx : x.length = y.length)
    (hopt : ∀ zs : List K, zs.length = y.length → MonoDir inc zs →
      total S (y.zip (n.map fun k : Nat => (k : K))) x
        ≤ total S (y.zip (n.map fun k : Nat => (k : K))) zs)
    (z' : List K) (hz' : z'.length = (rep y n).length) (hm : MonoDir inc z') :
    total S ((rep y n).zip ((rep y n).map fun _ => (1 : K))) (rep x n)
      ≤ total S ((rep y n).zip ((rep y n).map fun _ => (1 : K))) z' := by
  obtain ⟨z, hzl, hzs, hzle⟩ := rep_pick S hS y n hn hpos z' hz'
  rw [rep_total_eq S hS y n x hn hx]
  exact le_trans (hopt z hzl (monoDir_sublist inc hzs hm)) hzle

theorem rep_sqErr_linear (a w z : K) : (sqErr (K := K)).S (a, w) z = w * sqErr.S (a, 1) z := by
  simp only [sqErr]; ring

theorem rep_asymSq_linear (α : K) (hα0 : 0 < α) (hα1 : α < 1) (a w z : K) :
    (asymSq α hα0 hα1).S (a, w) z = w * (asymSq α hα0 hα1).S (a, 1) z := by
  simp only [asymSq, eWeight]; ring

end MD
