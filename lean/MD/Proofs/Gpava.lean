import MD.Model.Iso
import Mathlib.Order.Basic
import Mathlib.Order.Lattice
import Mathlib.Order.MinMax
import Mathlib.Data.List.Basic
import Mathlib.Tactic.Basic
import Mathlib.Tactic.ByContra

set_option linter.unusedSectionVars false

namespace MD
variable {K : Type} [LinearOrder K]

/-- Cauchy mean value property on admissible observations -/
structure Internal (ok : Obs K → Prop) (T : List (Obs K) → K) : Prop where
  single : ∀ o, ok o → T [o] = o.1
  lo : ∀ A B, A ≠ [] → B ≠ [] → (∀ o ∈ A, ok o) → (∀ o ∈ B, ok o) → min (T A) (T B) ≤ T (A ++ B)
  hi : ∀ A B, A ≠ [] → B ≠ [] → (∀ o ∈ A, ok o) → (∀ o ∈ B, ok o) → T (A ++ B) ≤ max (T A) (T B)

structure Good (ok : Obs K → Prop) (T : List (Obs K) → K) (b : Blk K) : Prop where
  ne : b.data ≠ []
  allok : ∀ o ∈ b.data, ok o
  val : b.val = T b.data
  pre : ∀ P Q, P ≠ [] → b.data = P ++ Q → b.val ≤ T P
  suf : ∀ P Q, Q ≠ [] → b.data = P ++ Q → T Q ≤ b.val

variable {ok : Obs K → Prop} {T : List (Obs K) → K}

theorem good_single (hT : Internal ok T) (p : Obs K) (hp : ok p) : Good ok T ⟨[p], p.1⟩ := by
  refine ⟨by simp, by simpa using hp, by simp [hT.single p hp], ?_, ?_⟩
  · intro P Q hP h
    rcases List.append_eq_singleton_iff.mp h.symm with ⟨h1, _⟩ | ⟨h1, _⟩
    · exact absurd h1 hP
    · subst h1; simp [hT.single p hp]
  · intro P Q hQ h
    rcases List.append_eq_singleton_iff.mp h.symm with ⟨_, h1⟩ | ⟨_, h1⟩
    · subst h1; simp [hT.single p hp]
    · exact absurd h1 hQ

theorem ok_of_append_left {A P Q : List (Obs K)} (h : A = P ++ Q) (hA : ∀ o ∈ A, ok o) :
    ∀ o ∈ P, ok o := fun o ho => hA o (by rw [h]; exact List.mem_append_left _ ho)
theorem ok_of_append_right {A P Q : List (Obs K)} (h : A = P ++ Q) (hA : ∀ o ∈ A, ok o) :
    ∀ o ∈ Q, ok o := fun o ho => hA o (by rw [h]; exact List.mem_append_right _ ho)
theorem ok_append {A B : List (Obs K)} (hA : ∀ o ∈ A, ok o) (hB : ∀ o ∈ B, ok o) :
    ∀ o ∈ A ++ B, ok o := by
  intro o ho; rcases List.mem_append.mp ho with h | h
  · exact hA o h
  · exact hB o h

theorem merge_good (hT : Internal ok T) {A B : Blk K}
    (hA : Good ok T A) (hB : Good ok T B) (h : B.val ≤ A.val) :
    Good ok T ⟨A.data ++ B.data, T (A.data ++ B.data)⟩ := by
  have hlo := hT.lo A.data B.data hA.ne hB.ne hA.allok hB.allok
  have hhi := hT.hi A.data B.data hA.ne hB.ne hA.allok hB.allok
  rw [← hA.val, ← hB.val] at hlo hhi
  have hv_le : T (A.data ++ B.data) ≤ A.val := by rwa [max_eq_left h] at hhi
  have hv_ge : B.val ≤ T (A.data ++ B.data) := by rwa [min_eq_right h] at hlo
  refine ⟨by simp [hA.ne], ok_append hA.allok hB.allok, rfl, ?_, ?_⟩
  · intro P Q hP hPQ
    simp only at hPQ ⊢
    rcases List.append_eq_append_iff.mp hPQ with ⟨a', rfl, hB'⟩ | ⟨c', hA', rfl⟩
    · by_cases ha' : a' = []
      · subst ha'; simp; rw [← hA.val]; exact hv_le
      by_cases hQ : Q = []
      · subst hQ; simp at hB'; rw [hB']
      have okA' := ok_of_append_left hB' hB.allok
      have okQ := ok_of_append_right hB' hB.allok
      have hQle : T Q ≤ B.val := hB.suf a' Q hQ hB'
      have hPge : B.val ≤ T a' := hB.pre a' Q ha' hB'
      have hAP_lo := hT.lo A.data a' hA.ne ha' hA.allok okA'
      rw [← hA.val] at hAP_lo
      have hAPne : A.data ++ a' ≠ [] := by simp [hA.ne]
      have hC := hT.hi (A.data ++ a') Q hAPne hQ (ok_append hA.allok okA') okQ
      have hassoc : A.data ++ a' ++ Q = A.data ++ B.data := by rw [hB', List.append_assoc]
      rw [hassoc] at hC
      by_contra hcon
      rw [not_le] at hcon
      have h1 : T (A.data ++ B.data) ≤ T Q := by
        rcases le_max_iff.mp hC with h' | h'
        · exact absurd h' (not_le.mpr hcon)
        · exact h'
      have h2 : B.val ≤ T (A.data ++ a') := le_trans (le_min h hPge) hAP_lo
      have h3 : T (A.data ++ B.data) ≤ B.val := le_trans h1 hQle
      exact absurd (le_trans h3 h2) (not_le.mpr hcon)
    · exact le_trans hv_le (hA.pre P c' hP hA')
  · intro P Q hQ hPQ
    simp only at hPQ ⊢
    rcases List.append_eq_append_iff.mp hPQ with ⟨a', rfl, hB'⟩ | ⟨c', hA', rfl⟩
    · exact le_trans (hB.suf a' Q hQ hB') hv_ge
    · by_cases hc' : c' = []
      · subst hc'; simp; rw [← hB.val]; exact hv_ge
      by_cases hP : P = []
      · subst hP; simp at hA'; rw [hA']
      have okP := ok_of_append_left hA' hA.allok
      have okc := ok_of_append_right hA' hA.allok
      have hPge : A.val ≤ T P := hA.pre P c' hP hA'
      have hcle : T c' ≤ A.val := hA.suf P c' hc' hA'
      have hcB_hi := hT.hi c' B.data hc' hB.ne okc hB.allok
      rw [← hB.val] at hcB_hi
      have hcBne : c' ++ B.data ≠ [] := by simp [hB.ne]
      have hC := hT.lo P (c' ++ B.data) hP hcBne okP (ok_append okc hB.allok)
      have hassoc : P ++ (c' ++ B.data) = A.data ++ B.data := by rw [hA', List.append_assoc]
      rw [hassoc] at hC
      by_contra hcon
      rw [not_le] at hcon
      have h1 : T P ≤ T (A.data ++ B.data) := by
        rcases min_le_iff.mp hC with h' | h'
        · exact h'
        · exact absurd h' (not_le.mpr hcon)
      have h2 : T (c' ++ B.data) ≤ A.val := le_trans hcB_hi (max_le hcle h)
      have h3 : A.val ≤ T (A.data ++ B.data) := le_trans hPge h1
      exact absurd (le_trans h2 h3) (not_le.mpr hcon)

def StackOK (ok : Obs K → Prop) (T : List (Obs K) → K) (st : List (Blk K)) : Prop :=
  (∀ b ∈ st, Good ok T b) ∧ st.Pairwise (fun a b => b.val < a.val)

def flat (st : List (Blk K)) : List (Obs K) := st.reverse.flatMap (·.data)

@[simp] theorem flat_nil : flat ([] : List (Blk K)) = [] := rfl
@[simp] theorem flat_cons (b : Blk K) (st : List (Blk K)) : flat (b :: st) = flat st ++ b.data := by
  simp [flat]

theorem absorb_spec (hT : Internal ok T) (cur : Blk K) (l : List (Obs K))
    (hc : Good ok T cur) (hl : ∀ o ∈ l, ok o) :
    Good ok T (absorb T cur l).1 ∧ (absorb T cur l).1.data ++ (absorb T cur l).2 = cur.data ++ l := by
  induction l generalizing cur with
  | nil => simp [absorb, hc]
  | cons p rest ih =>
    unfold absorb
    split
    · rename_i hle
      have hg : Good ok T ⟨cur.data ++ [p], T (cur.data ++ [p])⟩ :=
        merge_good hT hc (good_single hT p (hl p (by simp))) hle
      obtain ⟨h1, h2⟩ := ih _ hg (fun o ho => hl o (by simp [ho]))
      exact ⟨h1, by simpa using h2⟩
    · exact ⟨hc, rfl⟩

theorem mergeBack_spec (hT : Internal ok T) (cur : Blk K) (st : List (Blk K))
    (hc : Good ok T cur) (hs : StackOK ok T st) :
    StackOK ok T ((mergeBack T cur st).1 :: (mergeBack T cur st).2) ∧
      flat ((mergeBack T cur st).1 :: (mergeBack T cur st).2) = flat (cur :: st) := by
  induction st generalizing cur with
  | nil =>
    simp only [mergeBack]
    exact ⟨⟨by simpa using hc, by simp⟩, trivial⟩
  | cons top st ih =>
    unfold mergeBack
    have htop : Good ok T top := hs.1 top (by simp)
    have hst : StackOK ok T st := ⟨fun b hb => hs.1 b (by simp [hb]), (List.pairwise_cons.mp hs.2).2⟩
    split
    · rename_i hle
      have hg : Good ok T ⟨top.data ++ cur.data, T (top.data ++ cur.data)⟩ := merge_good hT htop hc hle
      obtain ⟨h1, h2⟩ := ih _ hg hst
      refine ⟨h1, ?_⟩
      rw [h2]; simp
    · rename_i hnle
      rw [not_le] at hnle
      refine ⟨⟨?_, ?_⟩, rfl⟩
      · intro b hb
        rcases List.mem_cons.mp hb with rfl | hb
        · exact hc
        · exact hs.1 b hb
      · refine List.pairwise_cons.mpr ⟨?_, hs.2⟩
        intro b hb
        rcases List.mem_cons.mp hb with rfl | hb
        · exact hnle
        · exact lt_trans ((List.pairwise_cons.mp hs.2).1 b hb) hnle

theorem loop_spec (hT : Internal ok T) (st : List (Blk K)) (rest : List (Obs K))
    (hs : StackOK ok T st) (hr : ∀ o ∈ rest, ok o) :
    StackOK ok T (loop T st rest) ∧ flat (loop T st rest) = flat st ++ rest := by
  fun_induction loop T st rest with
  | case1 st => simp [hs]
  | case2 p rest' ih =>
    have : StackOK ok T [⟨[p], p.1⟩] := ⟨by simpa using good_single hT p (hr p (by simp)), by simp⟩
    obtain ⟨h1, h2⟩ := ih this (fun o ho => hr o (by simp [ho]))
    exact ⟨h1, by simpa using h2⟩
  | case3 p rest' top st hle r1 r2 hlt ih =>
    have htop : Good ok T top := hs.1 top (by simp)
    have hst : StackOK ok T st := ⟨fun b hb => hs.1 b (by simp [hb]), (List.pairwise_cons.mp hs.2).2⟩
    have hg : Good ok T ⟨top.data ++ [p], T (top.data ++ [p])⟩ :=
      merge_good hT htop (good_single hT p (hr p (by simp))) hle
    have hr' : ∀ o ∈ rest', ok o := fun o ho => hr o (by simp [ho])
    obtain ⟨ha1, ha2⟩ := absorb_spec hT _ rest' hg hr'
    obtain ⟨hm1, hm2⟩ := mergeBack_spec hT r1.1 st ha1 hst
    have hr1 : ∀ o ∈ r1.2, ok o := by
      intro o ho
      have : o ∈ r1.1.data ++ r1.2 := List.mem_append_right _ ho
      rw [ha2] at this
      rcases List.mem_append.mp this with h | h
      · simp only [List.mem_append, List.mem_singleton] at h
        rcases h with h | rfl
        · exact htop.allok o h
        · exact hr o (by simp)
      · exact hr' o h
    obtain ⟨h1, h2⟩ := ih hm1 hr1
    refine ⟨h1, ?_⟩
    rw [h2, hm2]
    simp only [flat_cons, List.append_assoc]
    congr 1
    simpa using ha2
  | case4 p rest' top st hnle ih =>
    rw [not_le] at hnle
    have hnew : StackOK ok T (⟨[p], p.1⟩ :: top :: st) := by
      refine ⟨?_, List.pairwise_cons.mpr ⟨?_, hs.2⟩⟩
      · intro b hb
        rcases List.mem_cons.mp hb with rfl | hb
        · exact good_single hT p (hr p (by simp))
        · exact hs.1 b hb
      · intro b hb
        rcases List.mem_cons.mp hb with rfl | hb
        · exact hnle
        · exact lt_trans ((List.pairwise_cons.mp hs.2).1 b hb) hnle
    obtain ⟨h1, h2⟩ := ih hnew (fun o ho => hr o (by simp [ho]))
    exact ⟨h1, by simpa using h2⟩

theorem gpava_spec (hT : Internal ok T) (ys : List (Obs K)) (hys : ∀ o ∈ ys, ok o) :
    (∀ b ∈ gpava T ys, Good ok T b) ∧ (gpava T ys).Pairwise (fun a b => a.val < b.val) ∧
      (gpava T ys).flatMap (·.data) = ys := by
  obtain ⟨⟨h1, h2⟩, h3⟩ := loop_spec hT [] ys ⟨by simp, by simp⟩ hys
  refine ⟨?_, ?_, ?_⟩
  · intro b hb; exact h1 b (by simpa [gpava] using hb)
  · simpa [gpava, List.pairwise_reverse] using h2
  · simpa [gpava, flat] using h3

end MD
