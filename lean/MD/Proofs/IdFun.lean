import MD.Model.Iso
import MD.Proofs.Abel
import Mathlib.Order.MinMax
import Mathlib.Tactic.Basic
import Mathlib.Tactic.ByContra

namespace MD
variable {K : Type} [Field K] [LinearOrder K] [IsStrictOrderedRing K]

def Esum (V : K → Obs K → K) (S : List (Obs K)) (u : K) : K := (S.map (V u)).sum

omit [LinearOrder K] [IsStrictOrderedRing K] in
@[simp] theorem Esum_append (V : K → Obs K → K) (A B : List (Obs K)) (u : K) :
    Esum V (A ++ B) u = Esum V A u + Esum V B u := by simp [Esum]

omit [LinearOrder K] [IsStrictOrderedRing K] in
@[simp] theorem Esum_nil (V : K → Obs K → K) (u : K) : Esum V [] u = 0 := by simp [Esum]

/-- identifiable functional on admissible observations -/
structure IdFun (K : Type) [Field K] [LinearOrder K] where
  ok : Obs K → Prop
  Vm : K → Obs K → K
  Vp : K → Obs K → K
  T  : List (Obs K) → K
  single : ∀ o, ok o → ∀ u, 0 ≤ Vp u o ↔ o.1 ≤ u
  spec  : ∀ S, S ≠ [] → (∀ o ∈ S, ok o) → ∀ u, T S ≤ u ↔ 0 ≤ Esum Vp S u
  specm : ∀ S, S ≠ [] → (∀ o ∈ S, ok o) → ∀ u, u ≤ T S → Esum Vm S u ≤ 0

variable (F : IdFun K)

theorem IdFun.T_single (o : Obs K) (ho : F.ok o) : F.T [o] = o.1 := by
  apply le_antisymm
  · rw [F.spec [o] (by simp) (by simpa using ho)]
    simpa [Esum] using (F.single o ho o.1).mpr le_rfl
  · have := (F.spec [o] (by simp) (by simpa using ho) (F.T [o])).mp le_rfl
    simpa [Esum] using (F.single o ho _).mp (by simpa [Esum] using this)

theorem IdFun.hi (A B : List (Obs K)) (hA : A ≠ []) (hB : B ≠ [])
    (okA : ∀ o ∈ A, F.ok o) (okB : ∀ o ∈ B, F.ok o) :
    F.T (A ++ B) ≤ max (F.T A) (F.T B) := by
  have okAB : ∀ o ∈ A ++ B, F.ok o := by
    intro o ho; rcases List.mem_append.mp ho with h | h
    · exact okA o h
    · exact okB o h
  rw [F.spec (A ++ B) (by simp [hA]) okAB, Esum_append]
  have h1 := (F.spec A hA okA (max (F.T A) (F.T B))).mp (le_max_left _ _)
  have h2 := (F.spec B hB okB (max (F.T A) (F.T B))).mp (le_max_right _ _)
  linarith

theorem IdFun.lo (A B : List (Obs K)) (hA : A ≠ []) (hB : B ≠ [])
    (okA : ∀ o ∈ A, F.ok o) (okB : ∀ o ∈ B, F.ok o) :
    min (F.T A) (F.T B) ≤ F.T (A ++ B) := by
  have okAB : ∀ o ∈ A ++ B, F.ok o := by
    intro o ho; rcases List.mem_append.mp ho with h | h
    · exact okA o h
    · exact okB o h
  by_contra hcon
  rw [not_le] at hcon
  have h0 := (F.spec (A ++ B) (by simp [hA]) okAB (F.T (A ++ B))).mp le_rfl
  rw [Esum_append] at h0
  have hA' : ¬ (0 ≤ Esum F.Vp A (F.T (A ++ B))) := by
    rw [← F.spec A hA okA]; rw [not_le]; exact lt_of_lt_of_le hcon (min_le_left _ _)
  have hB' : ¬ (0 ≤ Esum F.Vp B (F.T (A ++ B))) := by
    rw [← F.spec B hB okB]; rw [not_le]; exact lt_of_lt_of_le hcon (min_le_right _ _)
  rw [not_le] at hA' hB'
  linarith

end MD
