import MD.Model.Decompose
import MD.Proofs.IsoFitLemmas
import MD.Proofs.Consistency
import Mathlib.Tactic.Linarith
import Mathlib.Tactic.Ring
import Mathlib.Tactic.FieldSimp
import Mathlib.Tactic.Positivity

/-! # Lemmas about `decompose` (C06, C07)

* **A** (over the bare operation classes of the model, so also valid at `Float`): a normal form of
  `decompose` as four stages (`dec_eq`)

    `dec_validate` (functional / level)  →  `dec_shape` (length checks)  →
    `dec_marginal` (marginal functional and its score)  →  `List.mapM dec_row` (one row per column),

  `mapM` lemmas (`dec_mapM_ok`), inversion of each stage (`dec_ok_iff`, `dec_row_ok`,
  `dec_recal_ok`), the errors of the first two stages, aliases, column independence.
* **B** (ordered fields): `dec_FitOpt f lv S dom ys` — "the isotonic fit for `(f, lv)` minimises the
  per-pair score `S`" — with instances for every `OSScore` (`dec_fitOpt_of_gpava`), the squared
  error, the asymmetric squared error and the pinball loss; `dec_recal_le`: the recalibrated
  forecasts are optimal among monotone functions of the forecast; `dec_sfMean_ok`: average scores as
  weighted totals; `dec_row_signs` (`mcb, dsc ≥ 0`), `dec_row_mcb_zero`, `dec_row_dsc_zero`
  (constant forecasts are recalibrated to the marginal: `dec_recal_const_marginal`),
  `dec_unc_best_const`.
* **C** row order: `dec_decompose_perm'` (domain repair included: `dec_repair_eq`,
  `dec_recal_perm`; the domain of a score object is a rectangle: `dec_sfOK_rect`, `dec_flags_eq`).
* **D** strictly increasing relabelling: `dec_recal_relabel`, `dec_decompose_relabel`.
* **E** the library scores at `ℝ`: homogeneous expectile family (`dec_hes_signs`), homogeneous
  quantile family (`dec_quantileFit_optimal`, `dec_hqs_all`), pinball loss; `ElementaryScore` over
  any ordered field (`dec_elem_fitOpt`).
* **F** case weights: `dec_WEquiv` (same weighted information), `dec_fit_wequiv`,
  `dec_decompose_wequiv_full`, `dec_WEquiv_rep` (integer weights = repeated rows).
* **G** `dec_decompose_sq_ok`: `decompose` succeeds for the squared error (non-vacuity). -/

set_option linter.unusedSectionVars false

namespace MD

/-! ## A. Normal form -/

section Struct
variable {K : Type} [LE K] [DecidableLE K] [LT K] [DecidableLT K]
  [Add K] [Sub K] [Mul K] [Div K] [Neg K] [Zero K] [One K] [NatCast K] [Min K] [Max K]
  [ScoreOps K] [Inhabited K]

/-- the functional `decompose` works with: the one given, or the score's own -/
def dec_fn (sf : SF K) (fnGiven : Option (Option Functional)) : Option Functional :=
  match fnGiven with
  | some f => f
  | none => sfFunctional sf

/-- the level `decompose` works with -/
def dec_lv (sf : SF K) (fn : Option Functional) (lvGiven : Option K) : Except Err K :=
  match lvGiven with
  | some l => pure l
  | none =>
    if fn = some .expectile ∨ fn = some .quantile then
      match sfLevel sf with
      | some l => pure l
      | none => throw Err.valueError
    else pure half

/-- `yminAllowed` -/
def dec_yminAllowed (sf : SF K) (ys : List K) (w : Option (List K)) : Bool :=
  match sfMean sf [ys[0]!] [ys.foldl min ys[0]!] (w.map (fun w' => w'.take 1)) with
  | .error Err.valueError => false
  | _ => true

/-- recalibrated forecasts of one column -/
def dec_recal (sf : SF K) (f : Functional) (lv : K) (ys : List K) (w : Option (List K))
    (x : List K) : Except Err (List K) := do
  let (tx, ty) ← isoFit (some f) lv true x ys w
  let recal := x.map (interp tx ty)
  if dec_yminAllowed sf ys w = false ∧ recal.foldl min recal[0]! ≤ ys.foldl min ys[0]! then
    repair f lv recal w (ys.foldl min ys[0]!) else pure recal

/-- the row of one column -/
def dec_row (sf : SF K) (f : Functional) (lv : K) (ys : List K) (w : Option (List K))
    (scoreMarg : K) (x : List K) : Except Err (DecompRow K) := do
  let recal ← dec_recal sf f lv ys w x
  let score ← sfMean sf ys x w
  let scoreRecal ← sfMean sf ys recal w
  pure ⟨score - scoreRecal, scoreMarg - scoreRecal, scoreMarg, score⟩

/-- the shape checks -/
def dec_shape (ys : List K) (cols : List (List K)) (w : Option (List K)) : Except Err Unit := do
  if cols.any (fun c => c.length ≠ ys.length) then throw Err.valueError
  match w with
  | some w' => if w'.length ≠ ys.length then throw Err.valueError else pure ()
  | none => pure ()
  if ys = [] then throw Err.other

/-- marginal stage: `(marginal, scoreMarg)` -/
def dec_marginal (sf : SF K) (f : Functional) (lv : K) (ys : List K) (w : Option (List K)) :
    Except Err (K × K) := do
  let marginal ← functionalVal f lv ys w
  if eqK ys[0]! marginal ∧ eqK marginal ys[ys.length - 1]! then
    match sfMean sf [ys[0]!] [marginal] none with
    | .error Err.valueError => throw Err.valueError
    | _ => pure ()
  let scoreMarg ← sfMean sf ys (ys.map (fun _ => marginal)) w
  pure (marginal, scoreMarg)

/-- the part of `decompose` after the shape checks, verbatim -/
def dec_tail (sf : SF K) (f : Functional) (lv : K) (ys : List K) (cols : List (List K))
    (w : Option (List K)) : Except Err (List (DecompRow K)) := do
  let marginal ← functionalVal f lv ys w
  let y0 := ys[0]!
  let yl := ys[ys.length - 1]!
  if eqK y0 marginal ∧ eqK marginal yl then
    match sfMean sf [y0] [marginal] none with
    | .error Err.valueError => throw Err.valueError
    | _ => pure ()
  let ymin := ys.foldl min y0
  let yminAllowed := match sfMean sf [y0] [ymin] (w.map (fun w' => w'.take 1)) with
    | .error Err.valueError => false
    | _ => true
  let margArr := ys.map (fun _ => marginal)
  let scoreMarg ← sfMean sf ys margArr w
  cols.mapM (fun x => do
    let (tx, ty) ← isoFit (some f) lv true x ys w
    let recal := x.map (interp tx ty)
    let recal ← if yminAllowed = false ∧ recal.foldl min recal[0]! ≤ ymin then repair f lv recal w ymin else pure recal
    let score ← sfMean sf ys x w
    let scoreRecal ← sfMean sf ys recal w
    pure ⟨score - scoreRecal, scoreMarg - scoreRecal, scoreMarg, score⟩)

/-- everything after the functional and the level are fixed, verbatim -/
def dec_core (sf : SF K) (p : Functional × K) (ys : List K) (cols : List (List K))
    (w : Option (List K)) : Except Err (List (DecompRow K)) := do
  let (f, lv) := p
  if cols.any (fun c => c.length ≠ ys.length) then throw Err.valueError
  match w with
  | some w' => if w'.length ≠ ys.length then throw Err.valueError else pure ()
  | none => pure ()
  if ys = [] then throw Err.other
  dec_tail sf f lv ys cols w

theorem dec_eq_core (sf : SF K) (fnGiven : Option (Option Functional)) (lvGiven : Option K)
    (ys : List K) (cols : List (List K)) (w : Option (List K)) :
    decompose sf fnGiven lvGiven ys cols w = (do
      let lv ← dec_lv sf (dec_fn sf fnGiven) lvGiven
      let f ← match dec_fn sf fnGiven with
        | some f => pure f
        | none => throw Err.valueError
      if (f = .expectile ∨ f = .quantile) ∧ (lv ≤ 0 ∨ 1 ≤ lv) then throw Err.valueError
      dec_core sf (if f = .median then (Functional.quantile, (half : K)) else (f, lv)) ys cols w) := by
  unfold decompose dec_core dec_lv
  cases lvGiven with
  | some l => rfl
  | none =>
    show (if dec_fn sf fnGiven = some .expectile ∨ dec_fn sf fnGiven = some .quantile then _ else _) = _
    by_cases h : dec_fn sf fnGiven = some .expectile ∨ dec_fn sf fnGiven = some .quantile
    · rw [if_pos h]
      simp only [if_pos h]
      cases sfLevel sf <;> rfl
    · rw [if_neg h]
      simp only [if_neg h]
      rfl


theorem dec_row_fun (sf : SF K) (f : Functional) (lv : K) (ys : List K) (w : Option (List K))
    (scoreMarg : K) :
    (fun x => do
      let (tx, ty) ← isoFit (some f) lv true x ys w
      let recal := x.map (interp tx ty)
      let recal ← if dec_yminAllowed sf ys w = false ∧ recal.foldl min recal[0]! ≤ ys.foldl min ys[0]! then repair f lv recal w (ys.foldl min ys[0]!) else pure recal
      let score ← sfMean sf ys x w
      let scoreRecal ← sfMean sf ys recal w
      pure (⟨score - scoreRecal, scoreMarg - scoreRecal, scoreMarg, score⟩ : DecompRow K))
    = dec_row sf f lv ys w scoreMarg := by
  funext x
  unfold dec_row dec_recal
  cases isoFit (some f) lv true x ys w with
  | error e => rfl
  | ok a =>
    obtain ⟨tx, ty⟩ := a
    by_cases hc : dec_yminAllowed sf ys w = false ∧
        List.foldl min (x.map (interp tx ty))[0]! (x.map (interp tx ty)) ≤ List.foldl min ys[0]! ys
    · show (if _ then _ else _) = Except.bind (if _ then _ else _) _
      rw [if_pos hc, if_pos hc]; rfl
    · show (if _ then _ else _) = Except.bind (if _ then _ else _) _
      rw [if_neg hc, if_neg hc]; rfl

theorem dec_core_eq (sf : SF K) (p : Functional × K) (ys : List K) (cols : List (List K))
    (w : Option (List K)) :
    dec_core sf p ys cols w = (do
      dec_shape ys cols w
      dec_tail sf p.1 p.2 ys cols w) := by
  obtain ⟨f, lv⟩ := p
  unfold dec_core dec_shape
  by_cases h1 : cols.any (fun c => decide (c.length ≠ ys.length)) = true
  · simp only [if_pos h1]; rfl
  by_cases h3 : ys = []
  · cases w with
    | some w' =>
      by_cases h2 : w'.length ≠ ys.length
      · simp only [if_neg h1, if_pos h2]; rfl
      · simp only [if_neg h1, if_neg h2, if_pos h3]
    | none => simp only [if_neg h1, if_pos h3]
  · cases w with
    | some w' =>
      by_cases h2 : w'.length ≠ ys.length
      · simp only [if_neg h1, if_pos h2]; rfl
      · simp only [if_neg h1, if_neg h2, if_neg h3]; rfl
    | none => simp only [if_neg h1, if_neg h3]; rfl

theorem dec_ok_bind {ε α β : Type} (a : α) (k : α → Except ε β) : (Except.ok a >>= k) = k a := rfl
theorem dec_error_bind {ε α β : Type} (e : ε) (k : α → Except ε β) :
    ((Except.error e : Except ε α) >>= k) = Except.error e := rfl

theorem dec_tail_eq (sf : SF K) (f : Functional) (lv : K) (ys : List K) (cols : List (List K))
    (w : Option (List K)) :
    dec_tail sf f lv ys cols w = (do
      let q ← dec_marginal sf f lv ys w
      cols.mapM (dec_row sf f lv ys w q.2)) := by
  unfold dec_tail dec_marginal
  cases functionalVal f lv ys w with
  | error e => rfl
  | ok m =>
    have key : ∀ sm : K, (List.mapM (fun x => do
          let (tx, ty) ← isoFit (some f) lv true x ys w
          let recal := x.map (interp tx ty)
          let recal ← if (match sfMean sf [ys[0]!] [ys.foldl min ys[0]!] (w.map (fun w' => w'.take 1)) with
              | .error Err.valueError => false
              | _ => true) = false ∧ recal.foldl min recal[0]! ≤ ys.foldl min ys[0]! then repair f lv recal w (ys.foldl min ys[0]!) else pure recal
          let score ← sfMean sf ys x w
          let scoreRecal ← sfMean sf ys recal w
          pure (⟨score - scoreRecal, sm - scoreRecal, sm, score⟩ : DecompRow K)) cols)
        = List.mapM (dec_row sf f lv ys w sm) cols := fun sm =>
      congrArg (fun g => List.mapM g cols) (dec_row_fun sf f lv ys w sm)
    have fin : (do
          let scoreMarg ← sfMean sf ys (ys.map (fun _ => m)) w
          List.mapM (fun x => do
            let (tx, ty) ← isoFit (some f) lv true x ys w
            let recal := x.map (interp tx ty)
            let recal ← if (match sfMean sf [ys[0]!] [ys.foldl min ys[0]!] (w.map (fun w' => w'.take 1)) with
                | .error Err.valueError => false
                | _ => true) = false ∧ recal.foldl min recal[0]! ≤ ys.foldl min ys[0]! then repair f lv recal w (ys.foldl min ys[0]!) else pure recal
            let score ← sfMean sf ys x w
            let scoreRecal ← sfMean sf ys recal w
            pure (⟨score - scoreRecal, scoreMarg - scoreRecal, scoreMarg, score⟩ : DecompRow K)) cols)
        = (do
          let q ← (do
            let scoreMarg ← sfMean sf ys (ys.map (fun _ => m)) w
            pure (m, scoreMarg))
          cols.mapM (dec_row sf f lv ys w q.2)) := by
      cases sfMean sf ys (ys.map (fun _ => m)) w with
      | error e => rfl
      | ok sm => exact key sm
    rw [dec_ok_bind, dec_ok_bind]
    by_cases hc : eqK ys[0]! m ∧ eqK m ys[ys.length - 1]!
    · rw [if_pos hc, if_pos hc]
      cases sfMean sf [ys[0]!] [m] none with
      | error e => cases e <;> first | rfl | exact fin
      | ok v => exact fin
    · rw [if_neg hc, if_neg hc]
      exact fin

/-- validation of functional and level: the effective pair -/
def dec_validate (sf : SF K) (fnGiven : Option (Option Functional)) (lvGiven : Option K) :
    Except Err (Functional × K) := do
  let lv ← dec_lv sf (dec_fn sf fnGiven) lvGiven
  let f ← match dec_fn sf fnGiven with
    | some f => pure f
    | none => throw Err.valueError
  if (f = .expectile ∨ f = .quantile) ∧ (lv ≤ 0 ∨ 1 ≤ lv) then throw Err.valueError
  pure (if f = .median then (Functional.quantile, (half : K)) else (f, lv))

/-- **normal form of `decompose`** -/
theorem dec_eq (sf : SF K) (fnGiven : Option (Option Functional)) (lvGiven : Option K)
    (ys : List K) (cols : List (List K)) (w : Option (List K)) :
    decompose sf fnGiven lvGiven ys cols w = (do
      let p ← dec_validate sf fnGiven lvGiven
      dec_shape ys cols w
      let q ← dec_marginal sf p.1 p.2 ys w
      cols.mapM (dec_row sf p.1 p.2 ys w q.2)) := by
  rw [dec_eq_core]
  unfold dec_validate
  cases dec_lv sf (dec_fn sf fnGiven) lvGiven with
  | error e => rfl
  | ok lv =>
    cases dec_fn sf fnGiven with
    | none => rfl
    | some f =>
      rw [dec_ok_bind, dec_ok_bind]
      by_cases h : (f = .expectile ∨ f = .quantile) ∧ (lv ≤ 0 ∨ 1 ≤ lv)
      · simp only [pure_bind, if_pos h]; rfl
      · simp only [pure_bind, if_neg h]
        rw [dec_core_eq, dec_tail_eq]

end Struct


/-! ## A2. `List.mapM` in `Except` -/

section MapM
variable {ε α β : Type}

theorem dec_mapM_nil (f : α → Except ε β) : ([] : List α).mapM f = .ok [] := rfl

theorem dec_mapM_cons (f : α → Except ε β) (a : α) (l : List α) :
    (a :: l).mapM f = (do let b ← f a; let bs ← l.mapM f; pure (b :: bs)) := by
  simp [List.mapM_cons]

/-- **`mapM` inversion**: a `mapM` in `Except` succeeds with `r` iff every element succeeds with the
corresponding entry of `r` -/
theorem dec_mapM_ok (f : α → Except ε β) (l : List α) (r : List β) :
    l.mapM f = .ok r ↔ List.Forall₂ (fun a b => f a = .ok b) l r := by
  induction l generalizing r with
  | nil =>
    rw [dec_mapM_nil]
    constructor
    · intro h; cases h; exact List.Forall₂.nil
    · intro h; cases h; rfl
  | cons a l ih =>
    rw [dec_mapM_cons]
    cases hfa : f a with
    | error e =>
      constructor
      · intro h; cases h
      · intro h
        cases h with
        | cons h1 _ => rw [hfa] at h1; cases h1
    | ok b =>
      rw [dec_ok_bind]
      cases hl : l.mapM f with
      | error e =>
        constructor
        · intro h; cases h
        · intro h
          cases h with
          | cons h1 h2 =>
            rw [(ih _).mpr h2] at hl; cases hl
      | ok bs =>
        rw [dec_ok_bind]
        constructor
        · intro h
          cases h
          exact List.Forall₂.cons hfa ((ih bs).mp hl)
        · intro h
          cases h with
          | cons h1 h2 =>
            have := (ih _).mpr h2
            rw [hl] at this
            cases this
            rw [hfa] at h1
            cases h1
            rfl

theorem dec_mapM_length {f : α → Except ε β} {l : List α} {r : List β} (h : l.mapM f = .ok r) :
    r.length = l.length := ((dec_mapM_ok f l r).mp h).length_eq.symm

theorem dec_mapM_get {f : α → Except ε β} {l : List α} {r : List β} (h : l.mapM f = .ok r)
    (i : Nat) (hi : i < l.length) (hr : i < r.length) : f l[i] = .ok r[i] := by
  have := (dec_mapM_ok f l r).mp h
  exact (List.forall₂_iff_get.mp this).2 i hi hr

theorem dec_mapM_mem {f : α → Except ε β} {l : List α} {r : List β} (h : l.mapM f = .ok r)
    {b : β} (hb : b ∈ r) : ∃ a ∈ l, f a = .ok b := by
  obtain ⟨i, hi, rfl⟩ := List.getElem_of_mem hb
  have hl := dec_mapM_length h
  exact ⟨l[i], List.getElem_mem (by omega), dec_mapM_get h i (by omega) hi⟩

/-- a `mapM` fails as soon as one element fails -/
theorem dec_mapM_error {f : α → Except ε β} {l : List α} {a : α} (ha : a ∈ l) {e : ε}
    (h : f a = .error e) : ∃ e', l.mapM f = .error e' := by
  cases hl : l.mapM f with
  | error e' => exact ⟨e', rfl⟩
  | ok r =>
    obtain ⟨i, hi, rfl⟩ := List.getElem_of_mem ha
    have := dec_mapM_get hl i hi (by rw [dec_mapM_length hl]; exact hi)
    rw [h] at this; cases this

/-- `mapM` over a single column -/
theorem dec_mapM_single (f : α → Except ε β) (a : α) : [a].mapM f = (f a).map (fun b => [b]) := by
  rw [dec_mapM_cons, dec_mapM_nil]
  cases f a <;> rfl

end MapM

/-! ## A3. Inversion of the stages -/
section Struct2
variable {K : Type} [LE K] [DecidableLE K] [LT K] [DecidableLT K]
  [Add K] [Sub K] [Mul K] [Div K] [Neg K] [Zero K] [One K] [NatCast K] [Min K] [Max K]
  [ScoreOps K] [Inhabited K]

/-- what the shape checks check -/
theorem dec_shape_ok (ys : List K) (cols : List (List K)) (w : Option (List K)) :
    dec_shape ys cols w = .ok () ↔
      (∀ c ∈ cols, c.length = ys.length) ∧ (∀ w', w = some w' → w'.length = ys.length) ∧ ys ≠ [] := by
  unfold dec_shape
  have hany : (cols.any (fun c => decide (c.length ≠ ys.length)) = true) ↔
      ¬ ∀ c ∈ cols, c.length = ys.length := by
    rw [List.any_eq_true]
    constructor
    · rintro ⟨c, hc, h⟩ hall
      exact (of_decide_eq_true h) (hall c hc)
    · intro h
      by_contra hcon
      apply h
      intro c hc
      by_contra hne
      exact hcon ⟨c, hc, decide_eq_true hne⟩
  by_cases h1 : cols.any (fun c => decide (c.length ≠ ys.length)) = true
  · simp only [if_pos h1]
    constructor
    · intro h; cases h
    · intro h; exact absurd h.1 (hany.mp h1)
  have h1' : ∀ c ∈ cols, c.length = ys.length := by
    by_contra hcon; exact h1 (hany.mpr hcon)
  cases w with
  | some w' =>
    by_cases h2 : w'.length ≠ ys.length
    · simp only [if_neg h1, if_pos h2]
      constructor
      · intro h; cases h
      · intro h; exact absurd (h.2.1 w' rfl) h2
    · by_cases h3 : ys = []
      · simp only [if_neg h1, if_neg h2, if_pos h3]
        constructor
        · intro h; cases h
        · intro h; exact absurd h3 h.2.2
      · simp only [if_neg h1, if_neg h2, if_neg h3]
        constructor
        · intro _
          exact ⟨h1', fun w'' hw => (by cases hw; exact not_not.mp h2), h3⟩
        · intro _; rfl
  | none =>
    by_cases h3 : ys = []
    · simp only [if_neg h1, if_pos h3]
      constructor
      · intro h; cases h
      · intro h; exact absurd h3 h.2.2
    · simp only [if_neg h1, if_neg h3]
      constructor
      · intro _
        exact ⟨h1', fun w'' hw => (by cases hw), h3⟩
      · intro _; rfl

/-- **inversion of `decompose`**: a call succeeds with `rows` iff the four stages succeed -/
theorem dec_ok_iff (sf : SF K) (fnGiven : Option (Option Functional)) (lvGiven : Option K)
    (ys : List K) (cols : List (List K)) (w : Option (List K)) (rows : List (DecompRow K)) :
    decompose sf fnGiven lvGiven ys cols w = .ok rows ↔
      ∃ f lv marg sm, dec_validate sf fnGiven lvGiven = .ok (f, lv) ∧ dec_shape ys cols w = .ok () ∧
        dec_marginal sf f lv ys w = .ok (marg, sm) ∧
        cols.mapM (dec_row sf f lv ys w sm) = .ok rows := by
  rw [dec_eq]
  cases hv : dec_validate sf fnGiven lvGiven with
  | error e =>
    constructor
    · intro h; cases h
    · rintro ⟨_, _, _, _, h, _⟩; cases h
  | ok p =>
    obtain ⟨f, lv⟩ := p
    rw [dec_ok_bind]
    cases hs : dec_shape ys cols w with
    | error e =>
      constructor
      · intro h; cases h
      · rintro ⟨_, _, _, _, _, h, _⟩; cases h
    | ok u =>
      rw [dec_ok_bind]
      cases hm : dec_marginal sf f lv ys w with
      | error e =>
        constructor
        · intro h; cases h
        · rintro ⟨_, _, _, _, h1, _, h, _⟩
          cases h1; rw [hm] at h; cases h
      | ok q =>
        obtain ⟨marg, sm⟩ := q
        rw [dec_ok_bind]
        constructor
        · intro h; exact ⟨f, lv, marg, sm, rfl, rfl, hm, h⟩
        · rintro ⟨_, _, _, _, h1, _, h, h2⟩
          cases h1; rw [hm] at h; cases h; exact h2

/-- inversion of the marginal stage -/
theorem dec_marginal_ok {sf : SF K} {f : Functional} {lv : K} {ys : List K} {w : Option (List K)}
    {marg sm : K} (h : dec_marginal sf f lv ys w = .ok (marg, sm)) :
    functionalVal f lv ys w = .ok marg ∧ sfMean sf ys (ys.map (fun _ => marg)) w = .ok sm := by
  unfold dec_marginal at h
  cases hm : functionalVal f lv ys w with
  | error e => rw [hm] at h; cases h
  | ok m =>
    rw [hm, dec_ok_bind] at h
    have fin : ∀ {X : Except Err PUnit}, (X >>= fun _ => (do
        let scoreMarg ← sfMean sf ys (ys.map (fun _ => m)) w
        pure (m, scoreMarg))) = Except.ok (marg, sm) →
        m = marg ∧ sfMean sf ys (ys.map (fun _ => marg)) w = .ok sm := by
      intro X hX
      cases X with
      | error e => cases hX
      | ok u =>
        rw [dec_ok_bind] at hX
        cases hsm : sfMean sf ys (ys.map (fun _ => m)) w with
        | error e => rw [hsm] at hX; cases hX
        | ok v =>
          rw [hsm] at hX
          cases hX
          exact ⟨rfl, hsm⟩
    by_cases hc : eqK ys[0]! m ∧ eqK m ys[ys.length - 1]!
    · simp only [if_pos hc] at h
      cases hp : sfMean sf [ys[0]!] [m] none with
      | error e =>
        rw [hp] at h
        cases e
        · cases h
        all_goals (obtain ⟨rfl, h2⟩ := fin (X := pure PUnit.unit) h; exact ⟨rfl, h2⟩)
      | ok v =>
        rw [hp] at h
        obtain ⟨rfl, h2⟩ := fin (X := pure PUnit.unit) h
        exact ⟨rfl, h2⟩
    · simp only [if_neg hc] at h
      obtain ⟨rfl, h2⟩ := fin (X := pure PUnit.unit) h
      exact ⟨rfl, h2⟩

/-- inversion of one row -/
theorem dec_row_ok (sf : SF K) (f : Functional) (lv : K) (ys : List K) (w : Option (List K))
    (sm : K) (x : List K) (row : DecompRow K) :
    dec_row sf f lv ys w sm x = .ok row ↔
      ∃ recal score scoreRecal, dec_recal sf f lv ys w x = .ok recal ∧
        sfMean sf ys x w = .ok score ∧ sfMean sf ys recal w = .ok scoreRecal ∧
        row = ⟨score - scoreRecal, sm - scoreRecal, sm, score⟩ := by
  unfold dec_row
  cases h1 : dec_recal sf f lv ys w x with
  | error e =>
    constructor
    · intro h; cases h
    · rintro ⟨_, _, _, h, _⟩; cases h
  | ok recal =>
    rw [dec_ok_bind]
    cases h2 : sfMean sf ys x w with
    | error e =>
      constructor
      · intro h; cases h
      · rintro ⟨_, _, _, _, h, _⟩; cases h
    | ok score =>
      rw [dec_ok_bind]
      cases h3 : sfMean sf ys recal w with
      | error e =>
        constructor
        · intro h; cases h
        · rintro ⟨_, _, _, h, _, h', _⟩
          cases h; rw [h3] at h'; cases h'
      | ok scoreRecal =>
        rw [dec_ok_bind]
        constructor
        · intro h
          cases h
          exact ⟨recal, score, scoreRecal, rfl, rfl, h3, rfl⟩
        · rintro ⟨_, _, _, h, h', h'', rfl⟩
          cases h; cases h'; rw [h3] at h''; cases h''
          rfl

/-- inversion of the recalibration of one column: the fit succeeded and `recal` is the fitted model
evaluated at the forecasts, possibly repaired -/
theorem dec_recal_ok (sf : SF K) (f : Functional) (lv : K) (ys : List K) (w : Option (List K))
    (x recal : List K) :
    dec_recal sf f lv ys w x = .ok recal ↔
      ∃ tx ty, isoFit (some f) lv true x ys w = .ok (tx, ty) ∧
        (if dec_yminAllowed sf ys w = false ∧
            (x.map (interp tx ty)).foldl min (x.map (interp tx ty))[0]! ≤ ys.foldl min ys[0]! then
          repair f lv (x.map (interp tx ty)) w (ys.foldl min ys[0]!) else pure (x.map (interp tx ty)))
          = .ok recal := by
  unfold dec_recal
  cases h1 : isoFit (some f) lv true x ys w with
  | error e =>
    constructor
    · intro h; cases h
    · rintro ⟨_, _, h, _⟩; cases h
  | ok p =>
    obtain ⟨tx, ty⟩ := p
    rw [dec_ok_bind]
    constructor
    · intro h; exact ⟨tx, ty, rfl, h⟩
    · rintro ⟨_, _, h, h'⟩
      cases h; exact h'

/-- when the smallest observation is an admissible prediction there is no repair -/
theorem dec_recal_ok_allowed {sf : SF K} {f : Functional} {lv : K} {ys : List K}
    {w : Option (List K)} {x recal : List K} (ha : dec_yminAllowed sf ys w = true)
    (h : dec_recal sf f lv ys w x = .ok recal) :
    ∃ tx ty, isoFit (some f) lv true x ys w = .ok (tx, ty) ∧ recal = x.map (interp tx ty) := by
  obtain ⟨tx, ty, h1, h2⟩ := (dec_recal_ok sf f lv ys w x recal).mp h
  refine ⟨tx, ty, h1, ?_⟩
  rw [if_neg (by rw [ha]; simp)] at h2
  cases h2; rfl

end Struct2


/-! ## A4. Errors of the first two stages -/
section Struct3
variable {K : Type} [LE K] [DecidableLE K] [LT K] [DecidableLT K]
  [Add K] [Sub K] [Mul K] [Div K] [Neg K] [Zero K] [One K] [NatCast K] [Min K] [Max K]
  [ScoreOps K] [Inhabited K]

/-- the level stage can only fail with `ValueError` -/
theorem dec_lv_error {sf : SF K} {fn : Option Functional} {lvGiven : Option K} {e : Err}
    (h : dec_lv sf fn lvGiven = .error e) : e = .valueError := by
  unfold dec_lv at h
  cases lvGiven with
  | some l => cases h
  | none =>
    simp only at h
    split at h
    · cases hl : sfLevel sf with
      | none => rw [hl] at h; cases h; rfl
      | some l => rw [hl] at h; cases h
    · cases h

/-- the validation of functional and level can only fail with `ValueError` -/
theorem dec_validate_error {sf : SF K} {fnGiven : Option (Option Functional)} {lvGiven : Option K}
    {e : Err} (h : dec_validate sf fnGiven lvGiven = .error e) : e = .valueError := by
  unfold dec_validate at h
  cases hl : dec_lv sf (dec_fn sf fnGiven) lvGiven with
  | error e' =>
    rw [hl] at h
    cases h
    exact dec_lv_error hl
  | ok l =>
    rw [hl, dec_ok_bind] at h
    cases hf : dec_fn sf fnGiven with
    | none => rw [hf] at h; cases h; rfl
    | some f =>
      rw [hf] at h
      simp only [pure_bind] at h
      split at h
      · cases h; rfl
      · cases h

/-- a successful validation: the functional is known, the level is in `(0,1)` when it matters, and
`median` has become the quantile at level `half` -/
theorem dec_validate_ok {sf : SF K} {fnGiven : Option (Option Functional)} {lvGiven : Option K}
    {f : Functional} {lv : K} (h : dec_validate sf fnGiven lvGiven = .ok (f, lv)) :
    ∃ f₀ lv₀, dec_fn sf fnGiven = some f₀ ∧ dec_lv sf (some f₀) lvGiven = .ok lv₀ ∧
      ¬ ((f₀ = .expectile ∨ f₀ = .quantile) ∧ (lv₀ ≤ 0 ∨ 1 ≤ lv₀)) ∧
      (f, lv) = (if f₀ = .median then (Functional.quantile, (half : K)) else (f₀, lv₀)) := by
  unfold dec_validate at h
  cases hl : dec_lv sf (dec_fn sf fnGiven) lvGiven with
  | error e' => rw [hl] at h; cases h
  | ok l =>
    rw [hl, dec_ok_bind] at h
    cases hf : dec_fn sf fnGiven with
    | none => rw [hf] at h; cases h
    | some f₀ =>
      rw [hf] at h hl
      simp only [pure_bind] at h
      split at h
      · cases h
      · rename_i hc
        exact ⟨f₀, l, rfl, hl, hc, (Except.ok.inj h).symm⟩

/-- the effective functional is never `median` -/
theorem dec_validate_ne_median {sf : SF K} {fnGiven : Option (Option Functional)}
    {lvGiven : Option K} {f : Functional} {lv : K}
    (h : dec_validate sf fnGiven lvGiven = .ok (f, lv)) : f ≠ .median := by
  obtain ⟨f₀, lv₀, _, _, _, he⟩ := dec_validate_ok h
  by_cases hm : f₀ = .median
  · rw [if_pos hm] at he
    rw [(Prod.mk.inj he).1]; decide
  · rw [if_neg hm] at he
    rw [(Prod.mk.inj he).1]; exact hm

/-- unknown functional name: `ValueError` -/
theorem dec_validate_unknown (sf : SF K) (lvGiven : Option K) :
    dec_validate sf (some none) lvGiven = .error .valueError := by
  cases h : dec_validate sf (some none) lvGiven with
  | error e => rw [dec_validate_error h]
  | ok p =>
    obtain ⟨f₀, _, hf, _⟩ := dec_validate_ok (f := p.1) (lv := p.2) h
    cases hf

/-- level outside `(0,1)` for an expectile / quantile: `ValueError` -/
theorem dec_validate_level (sf : SF K) (fnGiven : Option (Option Functional)) (lvGiven : Option K)
    (f : Functional) (l : K) (hfn : dec_fn sf fnGiven = some f)
    (hlv : dec_lv sf (some f) lvGiven = .ok l) (hf : f = .expectile ∨ f = .quantile)
    (hl : l ≤ 0 ∨ 1 ≤ l) : dec_validate sf fnGiven lvGiven = .error .valueError := by
  cases h : dec_validate sf fnGiven lvGiven with
  | error e => rw [dec_validate_error h]
  | ok p =>
    obtain ⟨f₀, lv₀, hf₀, hl₀, hc, _⟩ := dec_validate_ok (f := p.1) (lv := p.2) h
    rw [hfn] at hf₀
    cases hf₀
    rw [hlv] at hl₀
    cases hl₀
    exact absurd ⟨hf, hl⟩ hc

/-- the shape checks can only fail with `ValueError` (lengths) or `Other` (empty `y`) -/
theorem dec_shape_error_of_col {ys : List K} {cols : List (List K)} (w : Option (List K))
    (h : ∃ c ∈ cols, c.length ≠ ys.length) : dec_shape ys cols w = .error .valueError := by
  unfold dec_shape
  have h1 : cols.any (fun c => decide (c.length ≠ ys.length)) = true := by
    obtain ⟨c, hc, hne⟩ := h
    exact List.any_eq_true.mpr ⟨c, hc, decide_eq_true hne⟩
  simp only [if_pos h1]
  rfl

theorem dec_shape_error_of_weights {ys : List K} (cols : List (List K)) {w' : List K}
    (h : w'.length ≠ ys.length) : dec_shape ys cols (some w') = .error .valueError := by
  by_cases hc : ∃ c ∈ cols, c.length ≠ ys.length
  · exact dec_shape_error_of_col _ hc
  unfold dec_shape
  have h1 : ¬ cols.any (fun c => decide (c.length ≠ ys.length)) = true := by
    intro h1
    obtain ⟨c, hc', hne⟩ := List.any_eq_true.mp h1
    exact hc ⟨c, hc', of_decide_eq_true hne⟩
  simp only [if_neg h1, if_pos h]
  rfl

/-- `decompose` fails with `ValueError` as soon as a stage up to the shape checks does -/
theorem dec_error_of_validate {sf : SF K} {fnGiven : Option (Option Functional)}
    {lvGiven : Option K} (ys : List K) (cols : List (List K)) (w : Option (List K)) {e : Err}
    (h : dec_validate sf fnGiven lvGiven = .error e) :
    decompose sf fnGiven lvGiven ys cols w = .error e := by
  rw [dec_eq, h]; rfl

theorem dec_error_of_shape {sf : SF K} {fnGiven : Option (Option Functional)}
    {lvGiven : Option K} {ys : List K} {cols : List (List K)} {w : Option (List K)}
    (h : dec_shape ys cols w = .error .valueError) :
    decompose sf fnGiven lvGiven ys cols w = .error .valueError := by
  rw [dec_eq]
  cases hv : dec_validate sf fnGiven lvGiven with
  | error e => rw [dec_validate_error hv]; rfl
  | ok p => rw [dec_ok_bind, h]; rfl

end Struct3

/-! ## A5. Aliases: the mean ignores the level; explicit = inferred -/
section Struct4
variable {K : Type} [LE K] [DecidableLE K] [LT K] [DecidableLT K]
  [Add K] [Sub K] [Mul K] [Div K] [Neg K] [Zero K] [One K] [NatCast K] [Min K] [Max K]
  [ScoreOps K] [Inhabited K]

/-- the mean fit ignores the level -/
theorem dec_isoReg_mean_level (α α' : K) (inc : Bool) (y : List K) (w : Option (List K)) :
    isoReg (some .mean) α inc y w = isoReg (some .mean) α' inc y w := by
  unfold isoReg
  simp

theorem dec_isoFit_mean_level (α α' : K) (inc : Bool) (X y : List K) (w : Option (List K)) :
    isoFit (some .mean) α inc X y w = isoFit (some .mean) α' inc X y w := by
  unfold isoFit
  simp only [dec_isoReg_mean_level α α']

theorem dec_repair_mean_level (α α' : K) (recal : List K) (w : Option (List K)) (ymin : K) :
    repair .mean α recal w ymin = repair .mean α' recal w ymin := rfl

theorem dec_recal_mean_level (sf : SF K) (α α' : K) (ys : List K) (w : Option (List K))
    (x : List K) : dec_recal sf .mean α ys w x = dec_recal sf .mean α' ys w x := by
  unfold dec_recal
  rw [dec_isoFit_mean_level α α']
  rfl

theorem dec_row_mean_level (sf : SF K) (α α' : K) (ys : List K) (w : Option (List K)) (sm : K)
    (x : List K) : dec_row sf .mean α ys w sm x = dec_row sf .mean α' ys w sm x := by
  unfold dec_row
  rw [dec_recal_mean_level sf α α']

theorem dec_marginal_mean_level (sf : SF K) (α α' : K) (ys : List K) (w : Option (List K)) :
    dec_marginal sf .mean α ys w = dec_marginal sf .mean α' ys w := rfl

/-- from the shape checks on: the mean ignores the level -/
theorem dec_stages_mean_level (sf : SF K) (α α' : K) (ys : List K) (cols : List (List K))
    (w : Option (List K)) :
    (do let q ← dec_marginal sf .mean α ys w; cols.mapM (dec_row sf .mean α ys w q.2))
      = (do let q ← dec_marginal sf .mean α' ys w; cols.mapM (dec_row sf .mean α' ys w q.2)) := by
  rw [dec_marginal_mean_level sf α α']
  have : ∀ sm, dec_row sf .mean α ys w sm = dec_row sf .mean α' ys w sm :=
    fun sm => funext (dec_row_mean_level sf α α' ys w sm)
  simp only [this]

/-- `decompose` in terms of the validated pair -/
theorem dec_eq_of_validate {sf : SF K} {fnGiven : Option (Option Functional)} {lvGiven : Option K}
    {p : Functional × K} (h : dec_validate sf fnGiven lvGiven = .ok p) (ys : List K)
    (cols : List (List K)) (w : Option (List K)) :
    decompose sf fnGiven lvGiven ys cols w = (do
      dec_shape ys cols w
      let q ← dec_marginal sf p.1 p.2 ys w
      cols.mapM (dec_row sf p.1 p.2 ys w q.2)) := by
  rw [dec_eq, h]; rfl

/-- **explicit = inferred**: passing the score's own functional and level explicitly changes
nothing (results and errors alike).  `sfLevel sf = none` (log loss) means `level=None`. -/
theorem dec_alias_explicit (sf : SF K) (ys : List K) (cols : List (List K)) (w : Option (List K)) :
    decompose sf none none ys cols w
      = decompose sf (some (sfFunctional sf)) (sfLevel sf) ys cols w := by
  rw [dec_eq sf none none, dec_eq sf (some (sfFunctional sf)) (sfLevel sf)]
  unfold dec_validate
  have hfn : dec_fn sf (some (sfFunctional sf)) = dec_fn sf none := rfl
  rw [hfn]
  cases hf : dec_fn sf none with
  | none =>
    have e1 : dec_lv sf none none = .ok half := rfl
    have e2 : dec_lv sf none (sfLevel sf) = .ok (match sfLevel sf with | some l => l | none => half) := by
      unfold dec_lv
      cases sfLevel sf <;> rfl
    rw [e1, e2]
    rfl
  | some f =>
    cases hl : sfLevel sf with
    | none => rfl
    | some l =>
      cases f with
      | mean =>
        have e1 : dec_lv sf (some .mean) none = .ok half := rfl
        have e2 : dec_lv sf (some .mean) (some l) = .ok l := rfl
        rw [e1, e2]
        exact congrArg (fun t => dec_shape ys cols w >>= fun _ => t)
          (dec_stages_mean_level sf half l ys cols w)
      | median =>
        have e1 : dec_lv sf (some .median) none = .ok half := rfl
        have e2 : dec_lv sf (some .median) (some l) = .ok l := rfl
        rw [e1, e2]
        rfl
      | expectile =>
        have e1 : dec_lv sf (some .expectile) none = .ok l := by
          unfold dec_lv; rw [hl]; rfl
        have e2 : dec_lv sf (some .expectile) (some l) = .ok l := rfl
        rw [e1, e2]
      | quantile =>
        have e1 : dec_lv sf (some .quantile) none = .ok l := by
          unfold dec_lv; rw [hl]; rfl
        have e2 : dec_lv sf (some .quantile) (some l) = .ok l := rfl
        rw [e1, e2]

end Struct4

/-! ## A6. Columns are treated independently; `median` -/
section Struct5
variable {K : Type} [LE K] [DecidableLE K] [LT K] [DecidableLT K]
  [Add K] [Sub K] [Mul K] [Div K] [Neg K] [Zero K] [One K] [NatCast K] [Min K] [Max K]
  [ScoreOps K] [Inhabited K]

/-- **each column gets the row it would get alone** -/
theorem dec_column_independent {sf : SF K} {fn : Option (Option Functional)} {lv : Option K}
    {ys : List K} {cols : List (List K)} {w : Option (List K)} {rows : List (DecompRow K)}
    (h : decompose sf fn lv ys cols w = .ok rows) (i : Nat) (hi : i < cols.length)
    (hr : i < rows.length) : decompose sf fn lv ys [cols[i]] w = .ok [rows[i]] := by
  obtain ⟨f, lv', marg, sm, hv, hs, hm, hrows⟩ := (dec_ok_iff sf fn lv ys cols w rows).mp h
  refine (dec_ok_iff sf fn lv ys [cols[i]] w [rows[i]]).mpr ⟨f, lv', marg, sm, hv, ?_, hm, ?_⟩
  · obtain ⟨h1, h2, h3⟩ := (dec_shape_ok ys cols w).mp hs
    refine (dec_shape_ok ys [cols[i]] w).mpr ⟨?_, h2, h3⟩
    intro c hc
    rw [List.mem_singleton] at hc
    rw [hc]
    exact h1 _ (List.getElem_mem hi)
  · rw [dec_mapM_single, dec_mapM_get hrows i hi hr]
    rfl

/-- … and conversely: if every single-column call succeeds, the matrix call succeeds with the
collected rows -/
theorem dec_columns_collect {sf : SF K} {fn : Option (Option Functional)} {lv : Option K}
    {ys : List K} {cols : List (List K)} {w : Option (List K)} {rows : List (DecompRow K)}
    (hne : cols ≠ []) (hlen : rows.length = cols.length)
    (h : ∀ i (hi : i < cols.length) (hr : i < rows.length),
      decompose sf fn lv ys [cols[i]] w = .ok [rows[i]]) :
    decompose sf fn lv ys cols w = .ok rows := by
  have h0len : 0 < cols.length := List.length_pos_iff.mpr hne
  obtain ⟨f, lv', marg, sm, hv, hs, hm, _⟩ :=
    (dec_ok_iff sf fn lv ys [cols[0]] w [rows[0]]).mp (h 0 h0len (by omega))
  refine (dec_ok_iff sf fn lv ys cols w rows).mpr ⟨f, lv', marg, sm, hv, ?_, hm, ?_⟩
  · obtain ⟨_, h2, h3⟩ := (dec_shape_ok ys [cols[0]] w).mp hs
    refine (dec_shape_ok ys cols w).mpr ⟨?_, h2, h3⟩
    intro c hc
    obtain ⟨i, hi, rfl⟩ := List.getElem_of_mem hc
    obtain ⟨_, _, _, _, _, hs', _, _⟩ :=
      (dec_ok_iff sf fn lv ys [cols[i]] w [rows[i]]).mp (h i hi (by omega))
    exact ((dec_shape_ok ys [cols[i]] w).mp hs').1 _ (by simp)
  · rw [dec_mapM_ok]
    refine List.forall₂_iff_get.mpr ⟨hlen.symm, ?_⟩
    intro i hi hr
    obtain ⟨f', lv'', marg', sm', hv', _, hm', hrow⟩ :=
      (dec_ok_iff sf fn lv ys [cols[i]] w [rows[i]]).mp (h i hi hr)
    rw [hv] at hv'
    cases hv'
    rw [hm] at hm'
    cases hm'
    rw [dec_mapM_single] at hrow
    show dec_row sf f lv' ys w sm cols[i] = .ok rows[i]
    cases hd : dec_row sf f lv' ys w sm cols[i] with
    | error e => rw [hd] at hrow; cases hrow
    | ok r =>
      rw [hd] at hrow
      have := Except.ok.inj hrow
      simp only [List.cons.injEq, and_true] at this
      rw [this]

end Struct5

section Ordered
variable {K : Type} [Field K] [LinearOrder K] [IsStrictOrderedRing K] [ScoreOps K] [Inhabited K]

/-- **`median` = quantile at level `half`**: whatever level is passed along with `median` -/
theorem dec_alias_median (sf : SF K) (lv : Option K) (ys : List K) (cols : List (List K))
    (w : Option (List K)) :
    decompose sf (some (some .median)) lv ys cols w
      = decompose sf (some (some .quantile)) (some half) ys cols w := by
  have h1 : dec_validate sf (some (some .median)) lv = .ok (Functional.quantile, (half : K)) := by
    unfold dec_validate
    cases lv <;> rfl
  have h2 : dec_validate sf (some (some .quantile)) (some half)
      = .ok (Functional.quantile, (half : K)) := by
    unfold dec_validate
    have hc : ¬ ((Functional.quantile = .expectile ∨ Functional.quantile = .quantile) ∧
        ((half : K) ≤ 0 ∨ 1 ≤ (half : K))) := by
      rintro ⟨_, h | h⟩
      · exact absurd half_pos' (not_lt.mpr h)
      · exact absurd half_lt_one (not_lt.mpr h)
    show (if _ then _ else _) = _
    rw [if_neg hc]
    rfl
  rw [dec_eq_of_validate h1, dec_eq_of_validate h2]

end Ordered


/-! ## B. Analytic part (ordered fields) -/

section Totals
variable {K : Type} [Field K] [LinearOrder K] [IsStrictOrderedRing K] [Inhabited K]

/-- the weights `decompose` / `fit` effectively use: the given ones, or all `1` -/
def dec_wts (y : List K) (w : Option (List K)) : List K :=
  match w with
  | some w' => w'
  | none => y.map (fun _ => (1 : K))

omit [Inhabited K] in
theorem dec_wts_length (y : List K) (w : Option (List K))
    (hw : ∀ w', w = some w' → w'.length = y.length) : (dec_wts y w).length = y.length := by
  cases w with
  | none => simp [dec_wts]
  | some w' => exact hw w' rfl

omit [Inhabited K] in
theorem dec_wts_congr {y y' : List K} (w : Option (List K)) (h : y.length = y'.length) :
    dec_wts y w = dec_wts y' w := by
  cases w with
  | none => simp only [dec_wts]; rw [List.map_const', List.map_const', h]
  | some w' => rfl

omit [Inhabited K] in
theorem dec_zipRows_cols (X y ws : List K) (hX : X.length = y.length) (hl : ws.length = y.length) :
    (List.zipWith (fun (p : K × K) v => (⟨p.1, p.2, v⟩ : Row K)) (List.zip X y) ws).map (·.x) = X ∧
    (List.zipWith (fun (p : K × K) v => (⟨p.1, p.2, v⟩ : Row K)) (List.zip X y) ws).map (·.y) = y ∧
    (List.zipWith (fun (p : K × K) v => (⟨p.1, p.2, v⟩ : Row K)) (List.zip X y) ws).map (·.w) = ws := by
  induction X generalizing y ws with
  | nil =>
    have : y = [] := List.length_eq_zero_iff.mp (by simpa using hX.symm)
    subst this
    have : ws = [] := List.length_eq_zero_iff.mp (by simpa using hl)
    subst this
    simp
  | cons a X ih =>
    cases y with
    | nil => simp at hX
    | cons b y =>
      cases ws with
      | nil => simp at hl
      | cons c ws =>
        obtain ⟨h1, h2, h3⟩ := ih y ws (by simpa using hX) (by simpa using hl)
        simp only [List.zip_cons_cons, List.zipWith_cons_cons, List.map_cons, h1, h2, h3]
        simp

omit [Inhabited K] in
/-- the columns of the rows `fit` builds -/
theorem dec_fit_rows_cols (X y : List K) (w : Option (List K)) (hX : X.length = y.length)
    (hw : ∀ w', w = some w' → w'.length = y.length) :
    (fit_rows X y w).map (·.x) = X ∧ (fit_rows X y w).map (·.y) = y ∧
      (fit_rows X y w).map (·.w) = dec_wts y w := by
  have hl := dec_wts_length y w hw
  have e : fit_rows X y w
      = List.zipWith (fun (p : K × K) v => (⟨p.1, p.2, v⟩ : Row K)) (List.zip X y) (dec_wts y w) := by
    unfold fit_rows dec_wts
    cases w <;> rfl
  rw [e]
  exact dec_zipRows_cols X y _ hX hl

omit [Inhabited K] in
/-- the total score of a function of `X` in the original row order is a sum over the rows … -/
theorem dec_total_rows (S : Obs K → K → K) (g : K → K) (X y : List K) (w : Option (List K))
    (hX : X.length = y.length) (hw : ∀ w', w = some w' → w'.length = y.length) :
    total S (y.zip (dec_wts y w)) (X.map g)
      = ((fit_rows X y w).map (fun a => S (a.y, a.w) (g a.x))).sum := by
  obtain ⟨h1, h2, h3⟩ := dec_fit_rows_cols X y w hX hw
  have := fit_total_rows S g (fit_rows X y w)
  rw [h1, h2, h3] at this
  exact this

omit [Inhabited K] in
/-- … hence the same in the sorted order -/
theorem dec_total_sorted (S : Obs K → K → K) (g : K → K) (inc : Bool) (X y : List K)
    (w : Option (List K)) (hX : X.length = y.length)
    (hw : ∀ w', w = some w' → w'.length = y.length) :
    total S (y.zip (dec_wts y w)) (X.map g)
      = total S (((fit_sorted inc X y w).map (·.y)).zip ((fit_sorted inc X y w).map (·.w)))
          (((fit_sorted inc X y w).map (·.x)).map g) := by
  rw [dec_total_rows S g X y w hX hw, fit_total_rows]
  have hperm : (fit_sorted inc X y w).Perm (fit_rows X y w) := List.mergeSort_perm _ _
  exact ((hperm.map _).sum_eq).symm

/-- the weights of the sorted sample are the effective weights of its responses -/
theorem dec_sorted_wts (inc : Bool) (X y : List K) (w : Option (List K)) :
    dec_wts ((fit_sorted inc X y w).map (·.y)) (w.map (fun _ => (fit_sorted inc X y w).map (·.w)))
      = (fit_sorted inc X y w).map (·.w) := by
  cases w with
  | some w' => rfl
  | none =>
    simp only [dec_wts, Option.map_none, List.map_map]
    apply List.map_congr_left
    intro a ha
    have : a ∈ fit_rows X y none := List.mem_mergeSort.mp ha
    exact (fit_rows_none_w X y a this).symm

/-! ### the recalibrated forecasts are optimal among the monotone functions of the forecast -/

/-- the weighted per-observation score built from a per-pair score -/
def dec_wS (S : K → K → K) : Obs K → K → K := fun o z => o.2 * S o.1 z

/-- "`S` is minimised by the isotonic fit of functional `f` at level `lv`": whenever
`isotonic_regression` succeeds on responses taken from `ys`, its output has a total weighted score
not larger than that of any non-decreasing sequence with values in `dom` -/
def dec_FitOpt (f : Functional) (lv : K) (S : K → K → K) (dom : K → Prop) (ys : List K) : Prop :=
  ∀ (y : List K) (wopt : Option (List K)) (yiso : List K) (r : List Nat),
    isoReg (some f) lv true y wopt = .ok (yiso, r) → (∀ v ∈ y, v ∈ ys) →
    ∀ zs : List K, zs.length = y.length → zs.Pairwise (· ≤ ·) → (∀ z ∈ zs, dom z) →
      total (dec_wS S) (y.zip (dec_wts y wopt)) yiso ≤ total (dec_wS S) (y.zip (dec_wts y wopt)) zs

/-- **Recalibration is optimal among monotone functions of the forecast** (abstract form): if the
isotonic fit minimises `S` (`dec_FitOpt`), then on the training rows `(X, y, w)` the fitted model
evaluated at `X` has a total score not larger than `g ∘ X` for every non-decreasing `g` that maps
the forecasts into `dom`. -/
theorem dec_recal_le {f : Functional} {lv : K} {S : K → K → K} {dom : K → Prop} {X y : List K}
    {w : Option (List K)} {tx ty : List K} (h : isoFit (some f) lv true X y w = .ok (tx, ty))
    (hopt : dec_FitOpt f lv S dom y) (g : K → K) (hg : Monotone g) (hgdom : ∀ x ∈ X, dom (g x)) :
    total (dec_wS S) (y.zip (dec_wts y w)) (X.map (interp tx ty))
      ≤ total (dec_wS S) (y.zip (dec_wts y w)) (X.map g) := by
  obtain ⟨hX, hw, _⟩ := fit_isoFit_inv h
  obtain ⟨yiso, r, hr⟩ := fit_isoFit_exists h
  have F := fit_isoFit_fitted h hr
  rw [dec_total_sorted _ _ true X y w hX hw, dec_total_sorted _ _ true X y w hX hw, F.train_list]
  have hmemy : ∀ v ∈ (fit_sorted true X y w).map (·.y), v ∈ y := by
    intro v hv
    obtain ⟨a, ha, rfl⟩ := List.mem_map.mp hv
    have ha' : a ∈ fit_rows X y w := List.mem_mergeSort.mp ha
    rw [← (dec_fit_rows_cols X y w hX hw).2.1]
    exact List.mem_map.mpr ⟨a, ha', rfl⟩
  have hmemx : ∀ v ∈ (fit_sorted true X y w).map (·.x), v ∈ X := by
    intro v hv
    obtain ⟨a, ha, rfl⟩ := List.mem_map.mp hv
    have ha' : a ∈ fit_rows X y w := List.mem_mergeSort.mp ha
    rw [← (dec_fit_rows_cols X y w hX hw).1]
    exact List.mem_map.mpr ⟨a, ha', rfl⟩
  have := hopt _ _ yiso r hr hmemy (((fit_sorted true X y w).map (·.x)).map g)
    (by simp) (by
      rw [List.pairwise_map]
      exact (fit_sorted_x true _).imp (fun hab => hg hab))
    (by
      intro z hz
      obtain ⟨x, hx, rfl⟩ := List.mem_map.mp hz
      exact hgdom x (hmemx x hx))
  rw [dec_sorted_wts] at this
  exact this

/-- in particular the recalibrated forecasts score at least as well as the forecasts themselves … -/
theorem dec_recal_le_forecast {f : Functional} {lv : K} {S : K → K → K} {dom : K → Prop}
    {X y : List K} {w : Option (List K)} {tx ty : List K}
    (h : isoFit (some f) lv true X y w = .ok (tx, ty)) (hopt : dec_FitOpt f lv S dom y)
    (hdom : ∀ x ∈ X, dom x) :
    total (dec_wS S) (y.zip (dec_wts y w)) (X.map (interp tx ty))
      ≤ total (dec_wS S) (y.zip (dec_wts y w)) X := by
  have := dec_recal_le h hopt id monotone_id hdom
  rwa [List.map_id] at this

/-- … and at least as well as any admissible constant forecast -/
theorem dec_recal_le_const {f : Functional} {lv : K} {S : K → K → K} {dom : K → Prop}
    {X y : List K} {w : Option (List K)} {tx ty : List K}
    (h : isoFit (some f) lv true X y w = .ok (tx, ty)) (hopt : dec_FitOpt f lv S dom y)
    (c : K) (hc : dom c) :
    total (dec_wS S) (y.zip (dec_wts y w)) (X.map (interp tx ty))
      ≤ total (dec_wS S) (y.zip (dec_wts y w)) (X.map fun _ => c) :=
  dec_recal_le h hopt (fun _ => c) monotone_const (fun _ _ => hc)

/-! ### instances of `dec_FitOpt` -/

omit [Inhabited K] in
/-- a successful weighted call of `isoReg` has non-empty data and positive weights of the right
length -/
theorem dec_isoReg_some_ok {f : Functional} {lv : K} {inc : Bool} {y wl x : List K} {r : List Nat}
    (h : isoReg (some f) lv inc y (some wl) = .ok (x, r)) :
    y ≠ [] ∧ wl.length = y.length ∧ ∀ v ∈ wl, 0 < v := by
  obtain ⟨v, hv, _, _⟩ := isoReg_inv h
  obtain ⟨hne, hlen, hpos, _, _⟩ := eqValidate_ok hv
  have hv2 : v.2.2 = wl := by
    simp only [eqValidate] at hv
    split_ifs at hv
    cases hv
    rfl
  rw [hv2] at hlen hpos
  exact ⟨hne, hlen, hpos⟩

/-- "the fit of functional `f` at level `lv` is the generalised PAVA of `T`" -/
structure dec_GpavaFit (f : Functional) (lv : K) (T : List (Obs K) → K) : Prop where
  weighted : f = .mean ∨ f = .expectile
  fit : ∀ (y wl x : List K) (r : List Nat),
    isoReg (some f) lv true y (some wl) = .ok (x, r) → x = expand (gpava T (y.zip wl))

omit [Inhabited K] in
theorem dec_gpavaFit_mean (lv : K) : dec_GpavaFit .mean lv (wmean (K := K)) := by
  refine ⟨Or.inl rfl, ?_⟩
  intro y wl x r h
  obtain ⟨hne, hlen, hpos⟩ := dec_isoReg_some_ok h
  have := isoReg_mean_x hne hlen hpos h
  simpa using this

omit [Inhabited K] in
theorem dec_gpavaFit_expectile (α : K) (hα0 : 0 < α) (hα1 : α < 1) :
    dec_GpavaFit .expectile α (expectile α) := by
  refine ⟨Or.inr rfl, ?_⟩
  intro y wl x r h
  obtain ⟨hne, hlen, hpos⟩ := dec_isoReg_some_ok h
  have := isoReg_expectile_x hα0 hα1 hne hlen hpos h
  simpa using this

omit [Inhabited K] in
/-- **generic instance**: an order-sensitive score for the functional whose generalised PAVA is the
fit.  `hok`: observations from `ys` with positive weight are admissible for the functional;
`hdom`: every value not below all of `ys` is an admissible prediction. -/
theorem dec_fitOpt_of_gpava {F : IdFun K} (Sc : OSScore F) {f : Functional} {lv : K}
    (hfit : dec_GpavaFit f lv F.T) (S : K → K → K) (hS : ∀ o z, Sc.S o z = dec_wS S o z)
    (ys : List K) (hok : ∀ y ∈ ys, ∀ v, 0 < v → F.ok (y, v))
    (hdom : ∀ v, (∃ a ∈ ys, a ≤ v) → Sc.dom v) : dec_FitOpt f lv S Sc.dom ys := by
  intro y wopt yiso r hr hmem zs hz hs hzd
  have hr' : isoReg (some f) lv true y (some (dec_wts y wopt)) = .ok (yiso, r) := by
    cases wopt with
    | none => rw [isoReg_weights_none f hfit.weighted] at hr; exact hr
    | some wl => exact hr
  obtain ⟨hne, hlen, hpos⟩ := dec_isoReg_some_ok hr'
  have hx := hfit.fit _ _ _ _ hr'
  have hSS : Sc.S = dec_wS S := by funext o z; exact hS o z
  rw [← hSS, hx]
  have hys : ∀ o ∈ y.zip (dec_wts y wopt), F.ok o := by
    intro o ho
    have := List.of_mem_zip (a := o.1) (b := o.2) ho
    exact hok o.1 (hmem _ this.1) o.2 (hpos _ this.2)
  refine fit_optimal Sc _ hys ?_ zs (by rw [zip_length_of_eq hlen, hz]) hzd hs
  intro b hb
  obtain ⟨hg, _, hflat⟩ := gpava_spec F.internal _ hys
  have hgb := hg b hb
  obtain ⟨⟨o, ho, hle⟩, _⟩ := internal_between F.internal b.data hgb.ne hgb.allok
  rw [hgb.val]
  apply hdom
  refine ⟨o.1, hmem _ ?_, hle⟩
  have : o ∈ y.zip (dec_wts y wopt) := by
    rw [← hflat]; exact List.mem_flatMap.mpr ⟨b, hb, ho⟩
  exact (List.of_mem_zip (a := o.1) (b := o.2) this).1

omit [Inhabited K] in
/-- **squared error** is minimised by the mean fit -/
theorem dec_fitOpt_sq (lv : K) (ys : List K) :
    dec_FitOpt .mean lv (fun y z => (z - y) * (z - y)) (fun _ => True) ys :=
  dec_fitOpt_of_gpava sqErr (dec_gpavaFit_mean lv) _
    (by intro o z; simp only [sqErr, dec_wS]; ring) ys (fun _ _ _ hv => hv) (fun _ _ => trivial)

omit [Inhabited K] in
/-- the **asymmetric squared error** is minimised by the expectile fit -/
theorem dec_fitOpt_asymSq (α : K) (hα0 : 0 < α) (hα1 : α < 1) (ys : List K) :
    dec_FitOpt .expectile α (fun y z => (if y ≤ z then 1 - α else α) * ((z - y) * (z - y)))
      (fun _ => True) ys :=
  dec_fitOpt_of_gpava (asymSq α hα0 hα1) (dec_gpavaFit_expectile α hα0 hα1) _
    (by intro o z; simp only [asymSq, dec_wS, eWeight]; ring) ys (fun _ _ _ hv => hv)
    (fun _ _ => trivial)

omit [Inhabited K] in
theorem dec_total_congr (S S' : Obs K → K → K) (d : List (Obs K)) (zs : List K)
    (h : ∀ o ∈ d, ∀ z, S o z = S' o z) : total S d zs = total S' d zs := by
  unfold total
  induction d generalizing zs with
  | nil => simp
  | cons o d ih =>
    cases zs with
    | nil => simp
    | cons z zs =>
      simp only [List.zipWith_cons_cons, List.sum_cons]
      rw [h o (by simp) z, ih zs (fun o' ho' => h o' (by simp [ho']))]

omit [Inhabited K] in
/-- the **pinball loss** is minimised by the quantile fit (unweighted: the only supported case) -/
theorem dec_fitOpt_pinball (α : K) (hα0 : 0 < α) (hα1 : α < 1) (ys : List K) :
    dec_FitOpt .quantile α (fun y z => ((if y ≤ z then (1 : K) else 0) - α) * (z - y))
      (fun _ => True) ys := by
  intro y wopt yiso r hr _ zs hz hs _
  cases wopt with
  | some wl =>
    rw [isoReg_quantile_weighted α hα0 hα1] at hr
    cases hr
  | none =>
    have hne : y ≠ [] := by
      obtain ⟨v, hv, _, _⟩ := isoReg_inv hr
      exact (eqValidate_ok hv).1
    have hx := isoReg_quantile_x hα0 hα1 hne hr
    simp only [orient_true] at hx
    have hone : ∀ zs' : List K,
        total (dec_wS (fun y z => ((if y ≤ z then (1 : K) else 0) - α) * (z - y)))
          (y.zip (dec_wts y none)) zs'
        = total (pinball α hα0 hα1).S (y.zip (dec_wts y none)) zs' := by
      intro zs'
      apply dec_total_congr
      intro o ho z
      have h2 : o.2 ∈ dec_wts y none := (List.of_mem_zip (a := o.1) (b := o.2) ho).2
      obtain ⟨_, _, h1⟩ := List.mem_map.mp h2
      show o.2 * _ = _
      rw [← h1, one_mul]
      rfl
    rw [hone, hone, hx]
    exact C02_optimal_inc α hα0 hα1 _ zs (by rw [zip_length_of_eq (by simp [dec_wts]), hz]) hs

end Totals

section Mean
variable {K : Type} [Field K] [LinearOrder K] [IsStrictOrderedRing K] [ScoreOps K] [Inhabited K]

omit [Field K] [IsStrictOrderedRing K] [ScoreOps K] [Inhabited K] in
theorem dec_eqK_iff (a b : K) : eqK a b ↔ a = b :=
  ⟨fun h => le_antisymm h.1 h.2, fun h => h ▸ ⟨le_rfl, le_rfl⟩⟩

omit [ScoreOps K] [Inhabited K] in
theorem dec_total_eq_zip (S : K → K → K) (ys ws zs : List K) :
    total (dec_wS S) (ys.zip ws) zs
      = (List.zipWith (· * ·) ((ys.zip zs).map fun p => S p.1 p.2) ws).sum := by
  unfold total dec_wS
  induction ys generalizing ws zs with
  | nil => simp
  | cons y ys ih =>
    cases ws with
    | nil => simp
    | cons v ws =>
      cases zs with
      | nil => simp
      | cons z zs =>
        simp only [List.zip_cons_cons, List.zipWith_cons_cons, List.map_cons, List.sum_cons]
        rw [ih ws zs]
        ring

omit [ScoreOps K] [Inhabited K] in
theorem dec_sum_ones (n : Nat) : (List.replicate n (1 : K)).sum = (n : K) := by
  induction n with
  | zero => simp
  | succ n ih => rw [List.replicate_succ, List.sum_cons, ih]; push_cast; ring

omit [ScoreOps K] [Inhabited K] in
theorem dec_zipWith_ones (a : List K) (n : Nat) (h : a.length = n) :
    (List.zipWith (· * ·) a (List.replicate n (1 : K))).sum = a.sum := by
  induction a generalizing n with
  | nil => simp
  | cons x a ih =>
    cases n with
    | zero => simp at h
    | succ n =>
      rw [List.replicate_succ, List.zipWith_cons_cons, List.sum_cons, List.sum_cons,
        ih n (by simpa using h), mul_one]

omit [ScoreOps K] [Inhabited K] in
/-- `np.average` with the effective weights -/
theorem dec_average_ok (a ys : List K) (w : Option (List K)) (hl : a.length = ys.length)
    (hw : ∀ w', w = some w' → w'.length = ys.length) (hne : ys ≠ [])
    (hpos : ∀ v ∈ dec_wts ys w, 0 < v) :
    average a w
      = .ok ((List.zipWith (· * ·) a (dec_wts ys w)).sum / (dec_wts ys w).sum) := by
  have hane : a ≠ [] := by
    intro h; rw [h] at hl; exact hne (List.length_eq_zero_iff.mp hl.symm)
  cases w with
  | none =>
    unfold average
    simp only [dec_wts]
    rw [if_neg hane, List.map_const', dec_sum_ones, dec_zipWith_ones a _ hl, hl]
    rfl
  | some w' =>
    have hwl := hw w' rfl
    have hwne : w' ≠ [] := by
      intro h; rw [h] at hwl; exact hne (List.length_eq_zero_iff.mp hwl.symm)
    have hsum : 0 < w'.sum := List.sum_pos _ hpos hwne
    unfold average
    simp only [dec_wts]
    rw [if_neg (by rw [not_not, hwl, hl]), if_neg (by rw [dec_eqK_iff]; exact hsum.ne')]
    rfl

omit [Field K] [LinearOrder K] [IsStrictOrderedRing K] [ScoreOps K] [Inhabited K] in
theorem dec_mapM_map {ε α β : Type} (f : α → Except ε β) (g : α → β) (l : List α)
    (h : ∀ a ∈ l, f a = .ok (g a)) : l.mapM f = .ok (l.map g) := by
  induction l with
  | nil => rfl
  | cons a l ih =>
    rw [dec_mapM_cons, h a (by simp), ih (fun p hp => h p (by simp [hp]))]
    rfl

/-- **`scoring_function(y, z, w)` as a weighted total**: if every pair has the per-pair value
`S y z`, the call returns the weighted total divided by the sum of the weights -/
theorem dec_sfMean_ok (sf : SF K) (S : K → K → K) (ys zs : List K) (w : Option (List K))
    (hlen : zs.length = ys.length)
    (hS : ∀ p ∈ ys.zip zs, sfPair sf p.1 p.2 = .ok (S p.1 p.2))
    (hw : ∀ w', w = some w' → w'.length = ys.length) (hne : ys ≠ [])
    (hpos : ∀ v ∈ dec_wts ys w, 0 < v) :
    sfMean sf ys zs w
      = .ok (total (dec_wS S) (ys.zip (dec_wts ys w)) zs / (dec_wts ys w).sum) := by
  unfold sfMean
  rw [if_neg (by rw [not_not, hlen])]
  have hm := dec_mapM_map (fun p : K × K => sfPair sf p.1 p.2) (fun p => S p.1 p.2) (ys.zip zs) hS
  show (List.mapM (fun p : K × K => sfPair sf p.1 p.2) (ys.zip zs) >>= fun s => average s w) = _
  rw [hm, dec_total_eq_zip, dec_ok_bind]
  exact dec_average_ok _ ys w (by simp [hlen]) hw hne hpos

omit [ScoreOps K] in
/-- a successful `fit` on `(X, y, w)`: matching lengths, non-empty data, positive effective
weights (so a successful `decompose` with at least one column has positive weights) -/
theorem dec_isoFit_ok_data {f : Functional} {lv : K} {X y : List K} {w : Option (List K)}
    {tx ty : List K} (h : isoFit (some f) lv true X y w = .ok (tx, ty)) :
    X.length = y.length ∧ (∀ w', w = some w' → w'.length = y.length) ∧ y ≠ [] ∧
      ∀ v ∈ dec_wts y w, 0 < v := by
  obtain ⟨hX, hw, yiso, r, hr, _, _⟩ := fit_isoFit_inv h
  obtain ⟨v, hv, _, _⟩ := isoReg_inv hr
  obtain ⟨hne, _, _, _, _⟩ := eqValidate_ok hv
  obtain ⟨_, h2, h3⟩ := dec_fit_rows_cols X y w hX hw
  have hsne : fit_sorted true X y w ≠ [] := by
    intro he; rw [he] at hne; exact hne rfl
  have hyne : y ≠ [] := by
    intro he
    apply hsne
    have : (fit_rows X y w).length = 0 := by
      have := congrArg List.length h2
      rw [List.length_map] at this
      rw [this, he]
      rfl
    have hperm : (fit_sorted true X y w).Perm (fit_rows X y w) := List.mergeSort_perm _ _
    exact List.length_eq_zero_iff.mp (by rw [hperm.length_eq, this])
  refine ⟨hX, hw, hyne, ?_⟩
  cases w with
  | none =>
    intro u hu
    obtain ⟨_, _, rfl⟩ := List.mem_map.mp hu
    exact one_pos
  | some w' =>
    simp only [Option.map_some] at hr
    obtain ⟨_, _, hpos⟩ := dec_isoReg_some_ok hr
    intro u hu
    rw [← h3] at hu
    obtain ⟨a, ha, rfl⟩ := List.mem_map.mp hu
    exact hpos _ (List.mem_map.mpr ⟨a, List.mem_mergeSort.mpr ha, rfl⟩)

omit [ScoreOps K] in
/-- the recalibrated forecasts are fitted values, hence lie between two observations -/
theorem dec_recal_range {f : Functional} {lv : K} {X y : List K} {w : Option (List K)}
    {tx ty : List K} (h : isoFit (some f) lv true X y w = .ok (tx, ty)) :
    ∀ v ∈ X.map (interp tx ty), (∃ a ∈ y, a ≤ v) ∧ (∃ b ∈ y, v ≤ b) := by
  obtain ⟨hX, hw, _⟩ := fit_isoFit_inv h
  obtain ⟨yiso, r, hr⟩ := fit_isoFit_exists h
  intro v hv
  obtain ⟨q, hq, rfl⟩ := List.mem_map.mp hv
  obtain ⟨k, hk, rfl⟩ := List.getElem_of_mem hq
  obtain ⟨p, hp, _, _, he⟩ := fit_isoFit_train_orig h hr k hk
  rw [fit_get! X k hk] at he
  rw [he]
  have hmem : yiso[p]! ∈ yiso := fit_get!_mem yiso p hp
  obtain ⟨⟨a, ha, hal⟩, ⟨b, hb, hbl⟩⟩ := isoReg_range hr _ hmem
  have hsub : ∀ c ∈ (fit_sorted true X y w).map (·.y), c ∈ y := by
    intro c hc
    obtain ⟨a, ha, rfl⟩ := List.mem_map.mp hc
    rw [← (dec_fit_rows_cols X y w hX hw).2.1]
    exact List.mem_map.mpr ⟨a, List.mem_mergeSort.mp ha, rfl⟩
  exact ⟨⟨a, hsub a ha, hal⟩, ⟨b, hsub b hb, hbl⟩⟩

/-- **Signs of one row** (generic form).  `S` is the per-pair value of the score on `dom`
(`hS`), the isotonic fit for the effective functional minimises `S` (`hopt`), every value not below
all observations is an admissible prediction (`hup`), the marginal and the forecasts are admissible
and there is no domain repair.  Then miscalibration and discrimination are non-negative. -/
theorem dec_row_signs (sf : SF K) (f : Functional) (lv : K) (S : K → K → K) (dom : K → Prop)
    (ys : List K) (w : Option (List K))
    (hS : ∀ y ∈ ys, ∀ z, dom z → sfPair sf y z = .ok (S y z))
    (hopt : dec_FitOpt f lv S dom ys) (hup : ∀ v, (∃ a ∈ ys, a ≤ v) → dom v)
    (hallowed : dec_yminAllowed sf ys w = true) (marg sm : K)
    (hm : sfMean sf ys (ys.map fun _ => marg) w = .ok sm) (hmd : dom marg)
    (x : List K) (hx : ∀ z ∈ x, dom z) (row : DecompRow K)
    (hrow : dec_row sf f lv ys w sm x = .ok row) : 0 ≤ row.mcb ∧ 0 ≤ row.dsc := by
  obtain ⟨recal, score, scoreRecal, hrec, hsc, hsr, rfl⟩ := (dec_row_ok sf f lv ys w sm x row).mp hrow
  obtain ⟨tx, ty, hfit, rfl⟩ := dec_recal_ok_allowed hallowed hrec
  obtain ⟨hX, hw, hne, hpos⟩ := dec_isoFit_ok_data hfit
  have hW : 0 < (dec_wts ys w).sum := by
    apply List.sum_pos _ hpos
    intro he
    have := dec_wts_length ys w hw
    rw [he] at this
    exact hne (List.length_eq_zero_iff.mp this.symm)
  have hrd : ∀ z ∈ x.map (interp tx ty), dom z := fun z hz => hup z (dec_recal_range hfit z hz).1
  have pair : ∀ zs : List K, (∀ z ∈ zs, dom z) →
      ∀ p ∈ ys.zip zs, sfPair sf p.1 p.2 = .ok (S p.1 p.2) := by
    intro zs hzs p hp
    have := List.of_mem_zip (a := p.1) (b := p.2) hp
    exact hS p.1 this.1 p.2 (hzs _ this.2)
  have e1 := dec_sfMean_ok sf S ys x w hX (pair x hx) hw hne hpos
  have e2 := dec_sfMean_ok sf S ys (x.map (interp tx ty)) w (by simp [hX]) (pair _ hrd) hw hne hpos
  have hconst : ys.map (fun _ => marg) = x.map (fun _ => marg) := by
    rw [List.map_const', List.map_const', hX]
  have e3 := dec_sfMean_ok sf S ys (ys.map fun _ => marg) w (by simp)
    (pair _ (by intro z hz; obtain ⟨_, _, rfl⟩ := List.mem_map.mp hz; exact hmd)) hw hne hpos
  rw [hsc] at e1
  rw [hsr] at e2
  rw [hm, hconst] at e3
  have i1 := dec_recal_le_forecast hfit hopt hx
  have i2 := dec_recal_le_const hfit hopt marg hmd
  rw [Except.ok.inj e1, Except.ok.inj e2, Except.ok.inj e3]
  constructor
  · show 0 ≤ _ / _ - _ / _
    rw [← sub_div]
    exact div_nonneg (by linarith) hW.le
  · show 0 ≤ _ / _ - _ / _
    rw [← sub_div]
    exact div_nonneg (by linarith) hW.le

end Mean


/-! ### squared error -/

section SqErr
variable {K : Type} [Field K] [LinearOrder K] [IsStrictOrderedRing K] [ScoreOps K] [Inhabited K]

/-- `np.average` never raises a `ValueError` -/
theorem dec_average_not_valueError (a : List K) (w : Option (List K)) :
    average a w ≠ .error .valueError := by
  unfold average
  cases w with
  | none =>
    simp only
    split_ifs <;> intro h <;> cases h
  | some w' =>
    simp only
    split_ifs <;> intro h <;> cases h

/-- if every pair is admissible, `scoring_function(y, z, w)` does not raise a `ValueError` (given
equal lengths) -/
theorem dec_sfMean_not_valueError (sf : SF K) (ys zs : List K) (w : Option (List K))
    (hlen : ys.length = zs.length) (S : K → K → K)
    (hS : ∀ p ∈ ys.zip zs, sfPair sf p.1 p.2 = .ok (S p.1 p.2)) :
    sfMean sf ys zs w ≠ .error .valueError := by
  unfold sfMean
  rw [if_neg (by rw [not_not]; exact hlen)]
  have hm := dec_mapM_map (fun p : K × K => sfPair sf p.1 p.2) (fun p => S p.1 p.2) (ys.zip zs) hS
  show (List.mapM (fun p : K × K => sfPair sf p.1 p.2) (ys.zip zs) >>= fun s => average s w) ≠ _
  rw [hm, dec_ok_bind]
  exact dec_average_not_valueError _ _

/-- … so `yminAllowed` holds when `(y[0], min y)` is an admissible pair -/
theorem dec_yminAllowed_of_ok (sf : SF K) (ys : List K) (w : Option (List K)) (v : K)
    (h : sfPair sf ys[0]! (ys.foldl min ys[0]!) = .ok v) : dec_yminAllowed sf ys w = true := by
  unfold dec_yminAllowed
  have := dec_sfMean_not_valueError sf [ys[0]!] [ys.foldl min ys[0]!]
    (w.map (fun w' => w'.take 1)) rfl (fun _ _ => v) (by
      intro p hp
      simp only [List.zip_cons_cons, List.zip_nil_right, List.mem_singleton] at hp
      rw [hp]; exact h)
  split
  · rename_i heq; exact absurd heq this
  · rfl

/-- the squared error per pair (any ordered field: no `ScoreOps` operation is called) -/
theorem dec_hes_two (y z : K) : hes two half y z = .ok ((z - y) * (z - y)) := by
  unfold hes
  have h1 : eqK (two : K) two := (dec_eqK_iff _ _).mpr rfl
  have h2 : eqK (half : K) half := (dec_eqK_iff _ _).mpr rfl
  simp only [if_pos h1, if_pos h2, pure_bind]
  rfl

theorem dec_sfPair_sq (sf : SF K) (hk : sf.kind = .squaredError) (he : sf.elem = none) (y z : K) :
    sfPair sf y z = .ok ((z - y) * (z - y)) := by
  unfold sfPair
  rw [he, hk]
  exact dec_hes_two y z

/-- for the squared error `functional` is the mean -/
theorem dec_validate_sq (sf : SF K) (hk : sf.kind = .squaredError) (he : sf.elem = none)
    (fn : Option (Option Functional)) (hfn : fn = none ∨ fn = some (some .mean)) (lv : Option K) :
    ∃ l, dec_validate sf fn lv = .ok (Functional.mean, l) := by
  have hf : dec_fn sf fn = some .mean := by
    rcases hfn with rfl | rfl
    · simp [dec_fn, sfFunctional, he, hk]
    · rfl
  unfold dec_validate
  rw [hf]
  cases lv with
  | none => exact ⟨half, rfl⟩
  | some l => exact ⟨l, rfl⟩

end SqErr


/-! ### recalibrating twice; `mcb = 0` -/
section Idem
variable {K : Type} [Field K] [LinearOrder K] [IsStrictOrderedRing K] [ScoreOps K] [Inhabited K]

omit [ScoreOps K] in
/-- the prediction function of a fitted increasing model is non-decreasing -/
theorem dec_interp_monotone {f : Functional} {lv : K} {X y : List K} {w : Option (List K)}
    {tx ty : List K} (h : isoFit (some f) lv true X y w = .ok (tx, ty)) :
    Monotone (interp tx ty) := by
  obtain ⟨yiso, r, hr⟩ := fit_isoFit_exists h
  intro a b hab
  have := (fit_isoFit_fitted h hr).predict_mono a b hab
  simpa using this

omit [ScoreOps K] in
/-- **Recalibrating recalibrated forecasts does not change the total score**: let `x' = recal(X₀)`
and `x'' = recal(x')` (same responses, weights, functional).  Then `x''` and `x'` have the same
total score, for every score that the isotonic fit minimises. -/
theorem dec_recal_idem_total {f : Functional} {lv : K} {S : K → K → K} {dom : K → Prop}
    {X₀ y : List K} {w : Option (List K)} {tx₀ ty₀ tx ty : List K}
    (h₀ : isoFit (some f) lv true X₀ y w = .ok (tx₀, ty₀))
    (h : isoFit (some f) lv true (X₀.map (interp tx₀ ty₀)) y w = .ok (tx, ty))
    (hopt : dec_FitOpt f lv S dom y) (hup : ∀ v, (∃ a ∈ y, a ≤ v) → dom v) :
    total (dec_wS S) (y.zip (dec_wts y w)) ((X₀.map (interp tx₀ ty₀)).map (interp tx ty))
      = total (dec_wS S) (y.zip (dec_wts y w)) (X₀.map (interp tx₀ ty₀)) := by
  apply le_antisymm
  · exact dec_recal_le_forecast h hopt (fun z hz => hup z (dec_recal_range h₀ z hz).1)
  · have := dec_recal_le h₀ hopt (fun q => interp tx ty (interp tx₀ ty₀ q))
      ((dec_interp_monotone h).comp (dec_interp_monotone h₀))
      (by
        intro q hq
        apply hup
        refine (dec_recal_range h _ ?_).1
        exact List.mem_map.mpr ⟨_, List.mem_map.mpr ⟨q, hq, rfl⟩, rfl⟩)
    rw [List.map_map]
    exact this

/-- **`mcb = 0` for recalibrated forecasts** (generic form): in the setting of `dec_row_signs`, if
the forecast column is itself the recalibration `recal(X₀)` of some forecast `X₀` (same data,
weights, functional), its miscalibration is `0`. -/
theorem dec_row_mcb_zero (sf : SF K) (f : Functional) (lv : K) (S : K → K → K) (dom : K → Prop)
    (ys : List K) (w : Option (List K))
    (hS : ∀ y ∈ ys, ∀ z, dom z → sfPair sf y z = .ok (S y z))
    (hopt : dec_FitOpt f lv S dom ys) (hup : ∀ v, (∃ a ∈ ys, a ≤ v) → dom v)
    (hallowed : dec_yminAllowed sf ys w = true) (sm : K)
    (X₀ tx₀ ty₀ : List K) (h₀ : isoFit (some f) lv true X₀ ys w = .ok (tx₀, ty₀))
    (row : DecompRow K)
    (hrow : dec_row sf f lv ys w sm (X₀.map (interp tx₀ ty₀)) = .ok row) : row.mcb = 0 := by
  obtain ⟨recal, score, scoreRecal, hrec, hsc, hsr, rfl⟩ :=
    (dec_row_ok sf f lv ys w sm _ row).mp hrow
  obtain ⟨tx, ty, hfit, rfl⟩ := dec_recal_ok_allowed hallowed hrec
  obtain ⟨hX, hw, hne, hpos⟩ := dec_isoFit_ok_data hfit
  have hxd : ∀ z ∈ X₀.map (interp tx₀ ty₀), dom z := fun z hz => hup z (dec_recal_range h₀ z hz).1
  have hrd : ∀ z ∈ (X₀.map (interp tx₀ ty₀)).map (interp tx ty), dom z :=
    fun z hz => hup z (dec_recal_range hfit z hz).1
  have pair : ∀ zs : List K, (∀ z ∈ zs, dom z) →
      ∀ p ∈ ys.zip zs, sfPair sf p.1 p.2 = .ok (S p.1 p.2) := by
    intro zs hzs p hp
    have := List.of_mem_zip (a := p.1) (b := p.2) hp
    exact hS p.1 this.1 p.2 (hzs _ this.2)
  have e1 := dec_sfMean_ok sf S ys _ w hX (pair _ hxd) hw hne hpos
  have e2 := dec_sfMean_ok sf S ys _ w (by simpa using hX) (pair _ hrd) hw hne hpos
  rw [hsc] at e1
  rw [hsr] at e2
  show score - scoreRecal = 0
  rw [Except.ok.inj e1, Except.ok.inj e2, dec_recal_idem_total h₀ hfit hopt hup, sub_self]

end Idem

/-! ### constant forecasts; `dsc = 0` -/

section OneBlock
variable {L : Type} [LinearOrder L] {ok : Obs L → Prop} {T : List (Obs L) → L}

/-- **Non-increasing responses are pooled into a single block** by the generalised PAVA -/
theorem dec_gpava_one_block (hT : Internal ok T) (ys : List (Obs L)) (hys : ∀ o ∈ ys, ok o)
    (hne : ys ≠ [])
    (hrun : ∀ k u v, ys[k]? = some u → ys[k + 1]? = some v → v.1 ≤ u.1) :
    gpava T ys = [⟨ys, T ys⟩] := by
  obtain ⟨hg, _, hflat⟩ := gpava_spec hT ys hys
  have hn : 0 < ys.length := List.length_pos_iff.mpr hne
  have hb := gpava_run_one_block hT ys hys 0 (ys.length - 1) (by omega)
    (fun k _ _ u v hu hv => hrun k u v hu hv)
  cases hbs : gpava T ys with
  | nil => rw [hbs] at hflat; exact absurd hflat.symm hne
  | cons b rest =>
    rw [hbs] at hg hflat hb
    cases rest with
    | nil =>
      simp only [List.flatMap_cons, List.flatMap_nil, List.append_nil] at hflat
      have hv := (hg b (by simp)).val
      rw [hflat] at hv
      cases b
      simp only at hflat hv
      rw [hflat, hv]
    | cons b2 rest' =>
      exfalso
      have hlen := congrArg List.length hflat
      simp only [List.flatMap_cons, List.length_append] at hlen
      have h1 : 0 < b.data.length := List.length_pos_iff.mpr (hg b (by simp)).ne
      have h2 : 0 < b2.data.length := List.length_pos_iff.mpr (hg b2 (by simp)).ne
      have hmem : b.data.length ∈ bounds (b :: b2 :: rest') := by
        rw [bounds_cons, bounds_cons]
        simp
      rcases hb _ hmem with h | h <;> omega

end OneBlock

section Const
variable {K : Type} [Field K] [LinearOrder K] [IsStrictOrderedRing K] [Inhabited K]

/-- the functional of `functional`/`level` on a list of observations: weighted mean, weighted
expectile, mid-quantile (unweighted) -/
def dec_T (f : Functional) (α : K) (d : List (Obs K)) : K :=
  match f with
  | .mean => wmean d
  | .expectile => expectile α d
  | _ => half * (qLower α d + qUpper α d)

omit [Inhabited K] in
/-- on non-increasing responses the fit of every functional is the constant `dec_T` -/
theorem dec_eqFit_const {f : Functional} {α : K} (hf : FitOK f α) (obs : List (Obs K))
    (hne : obs ≠ []) (hpos : ∀ o ∈ obs, 0 < o.2)
    (hrun : ∀ k u v, obs[k]? = some u → obs[k + 1]? = some v → v.1 ≤ u.1) :
    (eqFit f α obs).1 = List.replicate obs.length (dec_T f α obs) := by
  cases f
  · rw [eqFit_mean _ _ hpos, dec_gpava_one_block wmean_internal obs hpos hne hrun]
    simp [expand, dec_T]
  · exact absurd rfl hf.notMedian
  · obtain ⟨h0, h1⟩ := hf.lvl (Or.inl rfl)
    show expand (gpava (expectile α) obs) = _
    have hg := dec_gpava_one_block (expectileFun α h0 h1).internal obs hpos hne hrun
    have hT : (expectileFun α h0 h1).T = expectile α := rfl
    rw [hT] at hg
    rw [hg]
    simp [expand, dec_T]
  · obtain ⟨h0, h1⟩ := hf.lvl (Or.inr rfl)
    show (quantileFit α obs).1 = _
    have hg := dec_gpava_one_block (quantFun α h0 h1).internal obs (fun _ _ => trivial) hne hrun
    have hT : (quantFun α h0 h1).T = qLower α := rfl
    rw [hT] at hg
    simp only [quantileFit, hg, expand, List.flatMap_cons, List.flatMap_nil, List.append_nil,
      List.map_cons, List.map_nil, minAccRight, List.zipWith_cons_cons, List.zipWith_nil_right,
      List.flatten_cons, List.flatten_nil, dec_T]
    rw [List.zipWith_replicate]
    simp

omit [Inhabited K] in
/-- validated triple for a functional that is not `median` -/
theorem dec_eqValidate_eq {f : Functional} {α : K} {y : List K} {wopt : Option (List K)}
    {v : Functional × K × List K} (hm : f ≠ .median)
    (hv : eqValidate (some f) α y wopt = .ok v) : v = (f, α, dec_wts y wopt) := by
  cases wopt with
  | none =>
    simp only [eqValidate] at hv
    split_ifs at hv
    cases hv
    simp [eqEff, hm, dec_wts]
  | some wl =>
    simp only [eqValidate] at hv
    split_ifs at hv
    cases hv
    rfl

/-- **`isotonic_regression` of non-increasing responses (increasing fit) is constant**, equal to
the functional of the whole sample -/
theorem dec_isoReg_const {f : Functional} {α : K} {y : List K} {wopt : Option (List K)}
    {x : List K} {r : List Nat} (hm : f ≠ .median)
    (h : isoReg (some f) α true y wopt = .ok (x, r))
    (hrun : ∀ k, k + 1 < y.length → y[k + 1]! ≤ y[k]!) :
    x = List.replicate y.length (dec_T f α (y.zip (dec_wts y wopt))) := by
  obtain ⟨v, hv, rfl, _⟩ := isoReg_inv h
  obtain ⟨hne, hlen, hpos, hf, _⟩ := eqValidate_ok hv
  have hv' := dec_eqValidate_eq hm hv
  subst hv'
  simp only [eqOut, orient_true]
  simp only at hlen hpos hf
  have hzl := zip_length_of_eq hlen
  rw [dec_eqFit_const hf _ (by
      intro he; rw [he] at hzl; exact hne (List.length_eq_zero_iff.mp hzl.symm))
    (zip_snd_pos hpos) ?_, hzl]
  intro k u v hu hv
  have hk : k + 1 < y.length := by
    rw [← hzl]
    by_contra hcon
    rw [List.getElem?_eq_none (by omega)] at hv
    cases hv
  have e1 := fit_obs_fst true y _ hlen k u hu
  have e2 := fit_obs_fst true y _ hlen (k + 1) v hv
  simp only [orient_true] at e1 e2
  rw [← e1, ← e2]
  exact hrun k hk

/-- **the fitted model of constant forecasts is the constant functional of the sample** (in the
sorted order of the rows) -/
theorem dec_recal_const {f : Functional} {lv : K} {X y : List K} {w : Option (List K)}
    {tx ty : List K} (hm : f ≠ .median) (h : isoFit (some f) lv true X y w = .ok (tx, ty))
    (hc : ∀ a ∈ X, ∀ b ∈ X, a = b) :
    X.map (interp tx ty) = X.map (fun _ => dec_T f lv
      (((fit_sorted true X y w).map (·.y)).zip ((fit_sorted true X y w).map (·.w)))) := by
  obtain ⟨hX, hw, _⟩ := fit_isoFit_inv h
  obtain ⟨yiso, r, hr⟩ := fit_isoFit_exists h
  have hxs : ∀ v ∈ (fit_sorted true X y w).map (·.x), v ∈ X := by
    intro v hv
    obtain ⟨a, ha, rfl⟩ := List.mem_map.mp hv
    rw [← (dec_fit_rows_cols X y w hX hw).1]
    exact List.mem_map.mpr ⟨a, List.mem_mergeSort.mp ha, rfl⟩
  have hconst := dec_isoReg_const hm hr (by
    intro k hk
    rw [List.length_map] at hk
    have := fit_tieRun_of_sorted true _ (fit_sorted_pairwise true (fit_rows X y w)) k (k + 1)
      hk (hc _ (hxs _ (fit_get!_mem _ _ (by simp; omega))) _
        (hxs _ (fit_get!_mem _ _ (by simpa using hk)))) k le_rfl (by omega)
    simpa [fit_sorted] using this)
  rw [dec_sorted_wts] at hconst
  apply List.map_congr_left
  intro q hq
  obtain ⟨k, hk, rfl⟩ := List.getElem_of_mem hq
  obtain ⟨p, hp, _, _, he⟩ := fit_isoFit_train_orig h hr k hk
  rw [fit_get! X k hk] at he
  rw [he, fit_get! yiso p hp]
  simp only [hconst, List.getElem_replicate]

/-! ### the functionals do not depend on the order of the observations -/

omit [Inhabited K] in
/-- an identifiable functional does not depend on the order of the (admissible) observations -/
theorem dec_IdFun_T_perm (F : IdFun K) {d d' : List (Obs K)} (hp : d.Perm d') (hne : d ≠ [])
    (hok : ∀ o ∈ d, F.ok o) : F.T d = F.T d' := by
  have hne' : d' ≠ [] := by
    intro he; rw [he] at hp; exact hne hp.eq_nil
  have hok' : ∀ o ∈ d', F.ok o := fun o ho => hok o (hp.mem_iff.mpr ho)
  have hE : ∀ u, Esum F.Vp d u = Esum F.Vp d' u := fun u => (hp.map _).sum_eq
  apply le_antisymm
  · rw [F.spec d hne hok, hE, ← F.spec d' hne' hok']
  · rw [F.spec d' hne' hok', ← hE, ← F.spec d hne hok]

omit [Inhabited K] in
theorem dec_T_perm {f : Functional} {α : K} (hf : FitOK f α) {d d' : List (Obs K)}
    (hp : d.Perm d') (hne : d ≠ []) (hpos : ∀ o ∈ d, 0 < o.2) : dec_T f α d = dec_T f α d' := by
  cases f
  · show wysum d / wsum d = wysum d' / wsum d'
    unfold wysum wsum
    rw [(hp.map _).sum_eq, (hp.map _).sum_eq]
  · exact absurd rfl hf.notMedian
  · obtain ⟨h0, h1⟩ := hf.lvl (Or.inl rfl)
    exact dec_IdFun_T_perm (expectileFun α h0 h1) hp hne hpos
  · obtain ⟨h0, h1⟩ := hf.lvl (Or.inr rfl)
    show half * (qLower α d + qUpper α d) = half * (qLower α d' + qUpper α d')
    have e1 : qLower α d = qLower α d' :=
      dec_IdFun_T_perm (quantFun α h0 h1) hp hne (fun _ _ => trivial)
    have e2 : qLower (1 - α) (negObs d) = qLower (1 - α) (negObs d') :=
      dec_IdFun_T_perm (quantFun (1 - α) (by linarith) (by linarith)) (hp.map _)
        (by simpa [negObs] using hne) (fun _ _ => trivial)
    unfold qUpper
    rw [e1, e2]

omit [Inhabited K] in
theorem dec_wysum_zip (ys ws : List K) : wysum (ys.zip ws) = (List.zipWith (· * ·) ys ws).sum := by
  unfold wysum
  induction ys generalizing ws with
  | nil => simp
  | cons y ys ih =>
    cases ws with
    | nil => simp
    | cons v ws => simp only [List.zip_cons_cons, List.map_cons, List.sum_cons,
        List.zipWith_cons_cons]; rw [ih ws]

omit [Inhabited K] in
theorem dec_wsum_zip (ys ws : List K) (h : ws.length = ys.length) : wsum (ys.zip ws) = ws.sum := by
  unfold wsum
  rw [List.map_snd_zip (by omega)]

omit [Inhabited K] in
theorem dec_obsOf_eq (ys : List K) (w : Option (List K)) : obsOf ys w = ys.zip (dec_wts ys w) := by
  cases w with
  | some w' => rfl
  | none =>
    simp only [obsOf, dec_wts]
    induction ys with
    | nil => rfl
    | cons y ys ih => simp only [List.map_cons, List.zip_cons_cons, ih]

end Const

section Marg
variable {K : Type} [Field K] [LinearOrder K] [IsStrictOrderedRing K] [ScoreOps K] [Inhabited K]

omit [ScoreOps K] [Inhabited K] in
/-- the marginal of `decompose` is `dec_T` of the observations (positive weights; for the quantile
the weights are absent, as the fit requires) -/
theorem dec_functionalVal_eq {f : Functional} {lv : K} {ys : List K} {w : Option (List K)}
    {marg : K} (hq : f ≠ .mean → f ≠ .expectile → w = none)
    (hw : ∀ w', w = some w' → w'.length = ys.length) (hne : ys ≠ [])
    (hpos : ∀ v ∈ dec_wts ys w, 0 < v) (h : functionalVal f lv ys w = .ok marg) :
    marg = dec_T f lv (ys.zip (dec_wts ys w)) := by
  cases f with
  | mean =>
    have := dec_average_ok ys ys w rfl hw hne hpos
    simp only [functionalVal] at h
    rw [this] at h
    rw [← Except.ok.inj h]
    show _ = wysum _ / wsum _
    rw [dec_wysum_zip, dec_wsum_zip _ _ (dec_wts_length ys w hw)]
  | expectile =>
    simp only [functionalVal] at h
    rw [← Except.ok.inj h, dec_obsOf_eq]
    rfl
  | median =>
    have := hq (by decide) (by decide)
    subst this
    simp only [functionalVal] at h
    rw [← Except.ok.inj h, dec_obsOf_eq]
    rfl
  | quantile =>
    have := hq (by decide) (by decide)
    subst this
    simp only [functionalVal] at h
    rw [← Except.ok.inj h, dec_obsOf_eq]
    rfl

omit [ScoreOps K] in
/-- what a successful `fit` says about functional, level and weights: the effective pair is
admissible, and weights are only present for mean and expectile -/
theorem dec_isoFit_fitOK {f : Functional} {lv : K} {X y : List K} {w : Option (List K)}
    {tx ty : List K} (hm : f ≠ .median) (h : isoFit (some f) lv true X y w = .ok (tx, ty)) :
    FitOK f lv ∧ (f ≠ .mean → f ≠ .expectile → w = none) := by
  obtain ⟨yiso, r, hr⟩ := fit_isoFit_exists h
  obtain ⟨v, hv, _, _⟩ := isoReg_inv hr
  obtain ⟨_, _, _, hf, hwn⟩ := eqValidate_ok hv
  have hv' := dec_eqValidate_eq hm hv
  subst hv'
  refine ⟨hf, ?_⟩
  intro h1 h2
  cases w with
  | none => rfl
  | some w' =>
    rcases hwn (by simp) with h' | h'
    · exact absurd h' h1
    · exact absurd h' h2

omit [ScoreOps K] in
/-- the observations of the sorted sample are a permutation of the observations -/
theorem dec_sorted_obs_perm (inc : Bool) (X y : List K) (w : Option (List K))
    (hX : X.length = y.length) (hw : ∀ w', w = some w' → w'.length = y.length) :
    (((fit_sorted inc X y w).map (·.y)).zip ((fit_sorted inc X y w).map (·.w))).Perm
      (y.zip (dec_wts y w)) := by
  obtain ⟨_, h2, h3⟩ := dec_fit_rows_cols X y w hX hw
  have e : y.zip (dec_wts y w) = (fit_rows X y w).map (fun a => (a.y, a.w)) := by
    rw [← List.zip_map', h2, h3]
  rw [e, List.zip_map']
  exact (List.mergeSort_perm _ _).map _

omit [ScoreOps K] in
/-- **Constant forecasts are recalibrated to the marginal**: if all forecasts of a column are equal,
the fitted model evaluated at the forecasts is the constant marginal functional of `y` — the very
number `decompose` uses for `uncertainty`. -/
theorem dec_recal_const_marginal {f : Functional} {lv : K} {X y : List K} {w : Option (List K)}
    {tx ty : List K} {marg : K} (hm : f ≠ .median)
    (h : isoFit (some f) lv true X y w = .ok (tx, ty)) (hc : ∀ a ∈ X, ∀ b ∈ X, a = b)
    (hmarg : functionalVal f lv y w = .ok marg) :
    X.map (interp tx ty) = y.map (fun _ => marg) := by
  obtain ⟨hX, hw, hne, hpos⟩ := dec_isoFit_ok_data h
  obtain ⟨hf, hq⟩ := dec_isoFit_fitOK hm h
  have hperm := dec_sorted_obs_perm true X y w hX hw
  have hne' : ((fit_sorted true X y w).map (·.y)).zip ((fit_sorted true X y w).map (·.w)) ≠ [] := by
    intro he
    rw [he] at hperm
    have := hperm.symm.eq_nil
    have hl := congrArg List.length this
    rw [zip_length_of_eq (dec_wts_length y w hw)] at hl
    exact hne (List.length_eq_zero_iff.mp hl)
  have hpos' : ∀ o ∈ ((fit_sorted true X y w).map (·.y)).zip ((fit_sorted true X y w).map (·.w)),
      0 < o.2 := by
    intro o ho
    have := hperm.mem_iff.mp ho
    exact hpos _ (List.of_mem_zip (a := o.1) (b := o.2) this).2
  rw [dec_recal_const hm h hc, dec_T_perm hf hperm hne' hpos',
    ← dec_functionalVal_eq hq hw hne hpos hmarg, List.map_const', List.map_const', hX]

/-- **`dsc = 0` for constant forecasts** (any score object): when there is no domain repair, a
column of equal forecasts gets discrimination exactly `0` -/
theorem dec_row_dsc_zero (sf : SF K) (f : Functional) (lv : K) (hm : f ≠ .median) (ys : List K)
    (w : Option (List K)) (hallowed : dec_yminAllowed sf ys w = true) (marg sm : K)
    (hmarg : functionalVal f lv ys w = .ok marg)
    (hsm : sfMean sf ys (ys.map fun _ => marg) w = .ok sm)
    (x : List K) (hc : ∀ a ∈ x, ∀ b ∈ x, a = b) (row : DecompRow K)
    (hrow : dec_row sf f lv ys w sm x = .ok row) : row.dsc = 0 := by
  obtain ⟨recal, score, scoreRecal, hrec, _, hsr, rfl⟩ := (dec_row_ok sf f lv ys w sm x row).mp hrow
  obtain ⟨tx, ty, hfit, rfl⟩ := dec_recal_ok_allowed hallowed hrec
  rw [dec_recal_const_marginal hm hfit hc hmarg, hsm] at hsr
  show sm - scoreRecal = 0
  rw [Except.ok.inj hsr, sub_self]

end Marg


/-! ## C. Row order -/

section PermMin
variable {K : Type} [Field K] [LinearOrder K] [IsStrictOrderedRing K] [Inhabited K]

/-- `l.foldl min l[0]` is the least element of a non-empty list -/
theorem dec_lmin_spec (l : List K) (hne : l ≠ []) :
    l.foldl min l[0]! ∈ l ∧ ∀ x ∈ l, l.foldl min l[0]! ≤ x := by
  cases l with
  | nil => exact absurd rfl hne
  | cons a t =>
    have e : (a :: t).foldl min (a :: t)[0]! = t.foldl min a := by
      simp [List.foldl_cons]
    rw [e]
    constructor
    · rcases foldl_min_mem a t with h | h
      · rw [h]; simp
      · simp [h]
    · intro x hx
      rcases List.mem_cons.mp hx with rfl | hx
      · exact (foldl_min_le _ t).1
      · exact (foldl_min_le a t).2 x hx

/-- … so it does not depend on the order -/
theorem dec_lmin_perm {l l' : List K} (hp : l.Perm l') (hne : l ≠ []) :
    l.foldl min l[0]! = l'.foldl min l'[0]! := by
  have hne' : l' ≠ [] := by
    intro he; rw [he] at hp; exact hne hp.eq_nil
  obtain ⟨h1, h2⟩ := dec_lmin_spec l hne
  obtain ⟨h1', h2'⟩ := dec_lmin_spec l' hne'
  exact le_antisymm (h2 _ (hp.mem_iff.mpr h1')) (h2' _ (hp.mem_iff.mp h1))

end PermMin

section PermMean
variable {K : Type} [Field K] [LinearOrder K] [IsStrictOrderedRing K] [ScoreOps K] [Inhabited K]

/-- the per-pair value of the score as a total function (`0` outside the domain) -/
def dec_pairVal (sf : SF K) (y z : K) : K :=
  match sfPair sf y z with
  | .ok v => v
  | .error _ => 0

omit [ScoreOps K] [Inhabited K] in
/-- the value of a successful `np.average`, with the effective weights (no sign condition) -/
theorem dec_average_val {a ys : List K} {w : Option (List K)} {v : K} (hl : a.length = ys.length)
    (h : average a w = .ok v) :
    (∀ w', w = some w' → w'.length = ys.length) ∧
      v = (List.zipWith (· * ·) a (dec_wts ys w)).sum / (dec_wts ys w).sum := by
  cases w with
  | none =>
    unfold average at h
    simp only at h
    split_ifs at h
    have := Except.ok.inj h
    refine ⟨fun w' hw => (by cases hw), ?_⟩
    simp only [dec_wts]
    rw [List.map_const', dec_sum_ones, dec_zipWith_ones a _ hl, ← hl]
    exact this.symm
  | some w' =>
    unfold average at h
    simp only at h
    split_ifs at h with h1 h2
    have := Except.ok.inj h
    refine ⟨fun w'' hw => (by cases hw; rw [← hl]; exact not_not.mp h1), ?_⟩
    exact this.symm

/-- the value of a successful `scoring_function(y, z, w)` -/
theorem dec_sfMean_val {sf : SF K} {ys zs : List K} {w : Option (List K)} {s : K}
    (h : sfMean sf ys zs w = .ok s) :
    zs.length = ys.length ∧ (∀ w', w = some w' → w'.length = ys.length) ∧
    (∀ p ∈ ys.zip zs, ∃ v, sfPair sf p.1 p.2 = .ok v) ∧
      s = total (dec_wS (dec_pairVal sf)) (ys.zip (dec_wts ys w)) zs / (dec_wts ys w).sum := by
  unfold sfMean at h
  by_cases hlen : ys.length ≠ zs.length
  · rw [if_pos hlen] at h; cases h
  rw [if_neg hlen] at h
  rw [not_not] at hlen
  have h' : ((List.zip ys zs).mapM (fun p => sfPair sf p.1 p.2) >>= fun s => average s w)
      = .ok s := h
  clear h
  cases hper : (List.zip ys zs).mapM (fun p => sfPair sf p.1 p.2) with
  | error e => rw [hper] at h'; cases h'
  | ok per =>
  rw [hper, dec_ok_bind] at h'
  have hav : average per w = .ok s := h'
  have hall := (dec_mapM_ok _ _ _).mp hper
  have hpl : per.length = ys.length := by
    rw [dec_mapM_length hper, List.length_zip, ← hlen, min_self]
  have hpairs : ∀ p ∈ ys.zip zs, ∃ v, sfPair sf p.1 p.2 = .ok v := by
    intro p hp
    obtain ⟨i, hi, rfl⟩ := List.getElem_of_mem hp
    exact ⟨per[i]'(by rw [dec_mapM_length hper]; exact hi), dec_mapM_get hper i hi _⟩
  have hper' : per = (ys.zip zs).map (fun p => dec_pairVal sf p.1 p.2) := by
    apply List.ext_getElem
    · rw [List.length_map, dec_mapM_length hper]
    · intro i h1 h2
      have := dec_mapM_get hper i (by rw [← dec_mapM_length hper]; exact h1) h1
      rw [List.getElem_map]
      unfold dec_pairVal
      rw [this]
  obtain ⟨hw, hv⟩ := dec_average_val hpl hav
  refine ⟨hlen.symm, hw, hpairs, ?_⟩
  rw [hv, hper', dec_total_eq_zip]

/-- **the average score of a function of the forecast does not depend on the row order** (both
calls succeeding) -/
theorem dec_sfMean_perm (sf : SF K) (g : K → K) {X₁ y₁ X₂ y₂ : List K} {w₁ w₂ : Option (List K)}
    (hX₁ : X₁.length = y₁.length) (hX₂ : X₂.length = y₂.length)
    (hperm : (fit_rows X₁ y₁ w₁).Perm (fit_rows X₂ y₂ w₂)) {s₁ s₂ : K}
    (h₁ : sfMean sf y₁ (X₁.map g) w₁ = .ok s₁) (h₂ : sfMean sf y₂ (X₂.map g) w₂ = .ok s₂) :
    s₁ = s₂ := by
  obtain ⟨_, hw₁, _, e₁⟩ := dec_sfMean_val h₁
  obtain ⟨_, hw₂, _, e₂⟩ := dec_sfMean_val h₂
  rw [e₁, e₂, dec_total_rows _ g X₁ y₁ w₁ hX₁ hw₁, dec_total_rows _ g X₂ y₂ w₂ hX₂ hw₂,
    ← (dec_fit_rows_cols X₁ y₁ w₁ hX₁ hw₁).2.2, ← (dec_fit_rows_cols X₂ y₂ w₂ hX₂ hw₂).2.2,
    (hperm.map _).sum_eq, (hperm.map _).sum_eq]

omit [ScoreOps K] in
/-- the observations `(y, w)` of permuted rows are permuted -/
theorem dec_obs_perm {X₁ y₁ X₂ y₂ : List K} {w₁ w₂ : Option (List K)}
    (hX₁ : X₁.length = y₁.length) (hX₂ : X₂.length = y₂.length)
    (hw₁ : ∀ w', w₁ = some w' → w'.length = y₁.length)
    (hw₂ : ∀ w', w₂ = some w' → w'.length = y₂.length)
    (hperm : (fit_rows X₁ y₁ w₁).Perm (fit_rows X₂ y₂ w₂)) :
    (y₁.zip (dec_wts y₁ w₁)).Perm (y₂.zip (dec_wts y₂ w₂)) ∧ y₁.Perm y₂ ∧ X₁.Perm X₂ := by
  obtain ⟨a1, a2, a3⟩ := dec_fit_rows_cols X₁ y₁ w₁ hX₁ hw₁
  obtain ⟨b1, b2, b3⟩ := dec_fit_rows_cols X₂ y₂ w₂ hX₂ hw₂
  refine ⟨?_, ?_, ?_⟩
  · have e1 : y₁.zip (dec_wts y₁ w₁) = (fit_rows X₁ y₁ w₁).map (fun a => (a.y, a.w)) := by
      rw [← List.zip_map', a2, a3]
    have e2 : y₂.zip (dec_wts y₂ w₂) = (fit_rows X₂ y₂ w₂).map (fun a => (a.y, a.w)) := by
      rw [← List.zip_map', b2, b3]
    rw [e1, e2]
    exact hperm.map _
  · rw [← a2, ← b2]; exact hperm.map _
  · rw [← a1, ← b1]; exact hperm.map _

omit [ScoreOps K] in
/-- **the marginal does not depend on the row order** (for samples on which a fit succeeds) -/
theorem dec_functionalVal_perm {f : Functional} {lv : K} {X₁ y₁ X₂ y₂ : List K}
    {w₁ w₂ : Option (List K)} {tx ty tx' ty' : List K} (hm : f ≠ .median)
    (hf₁ : isoFit (some f) lv true X₁ y₁ w₁ = .ok (tx, ty))
    (hf₂ : isoFit (some f) lv true X₂ y₂ w₂ = .ok (tx', ty'))
    (hperm : (fit_rows X₁ y₁ w₁).Perm (fit_rows X₂ y₂ w₂)) {m₁ m₂ : K}
    (h₁ : functionalVal f lv y₁ w₁ = .ok m₁) (h₂ : functionalVal f lv y₂ w₂ = .ok m₂) :
    m₁ = m₂ := by
  obtain ⟨hX₁, hw₁, hne₁, hpos₁⟩ := dec_isoFit_ok_data hf₁
  obtain ⟨hX₂, hw₂, hne₂, hpos₂⟩ := dec_isoFit_ok_data hf₂
  obtain ⟨hF, hq₁⟩ := dec_isoFit_fitOK hm hf₁
  obtain ⟨_, hq₂⟩ := dec_isoFit_fitOK hm hf₂
  rw [dec_functionalVal_eq hq₁ hw₁ hne₁ hpos₁ h₁, dec_functionalVal_eq hq₂ hw₂ hne₂ hpos₂ h₂]
  apply dec_T_perm hF (dec_obs_perm hX₁ hX₂ hw₁ hw₂ hperm).1
  · intro he
    have hl := congrArg List.length he
    rw [zip_length_of_eq (dec_wts_length y₁ w₁ hw₁)] at hl
    exact hne₁ (List.length_eq_zero_iff.mp hl)
  · intro o ho
    exact hpos₁ _ (List.of_mem_zip (a := o.1) (b := o.2) ho).2

end PermMean


section Repair
variable {K : Type} [Field K] [LinearOrder K] [IsStrictOrderedRing K] [ScoreOps K] [Inhabited K]

/-- the mask of `repair` as a predicate on the recalibrated value: everything when no value exceeds
`ymin`, else the values up to the smallest value above `ymin` (the two lowest blocks) -/
def dec_repairP (recal : List K) (ymin : K) : K → Bool :=
  match recal.filter (fun v => decide (ymin < v)) with
  | [] => fun _ => true
  | g :: gs => fun v => decide (v ≤ gs.foldl min g)

omit [ScoreOps K] [Inhabited K] in
theorem dec_sel_self (P : K → Bool) (l : List K) :
    (List.zip l (l.map P)).filterMap (fun p => if p.2 then some p.1 else none) = l.filter P := by
  induction l with
  | nil => rfl
  | cons a l ih =>
    simp only [List.map_cons, List.zip_cons_cons, List.filterMap_cons, List.filter_cons]
    cases hP : P a <;> simp [ih]

omit [ScoreOps K] [Inhabited K] in
theorem dec_sel_other (P : K → Bool) (l w : List K) (h : w.length = l.length) :
    (List.zip w (l.map P)).filterMap (fun p => if p.2 then some p.1 else none)
      = ((l.zip w).filter (fun p => P p.1)).map (·.2) := by
  induction l generalizing w with
  | nil => simp
  | cons a l ih =>
    cases w with
    | nil => simp at h
    | cons b w =>
      simp only [List.map_cons, List.zip_cons_cons, List.filterMap_cons, List.filter_cons]
      cases hP : P a <;> simp [ih w (by simpa using h)]

omit [ScoreOps K] [Inhabited K] in
theorem dec_zipWith_mask (P : K → Bool) (v : K) (l : List K) :
    List.zipWith (fun r (m : Bool) => if m then v else r) l (l.map P)
      = l.map (fun r => if P r then v else r) := by
  induction l with
  | nil => rfl
  | cons a l ih => simp only [List.map_cons, List.zipWith_cons_cons, ih]

omit [ScoreOps K] [Inhabited K] in
/-- **`repair` in closed form**: the rows whose recalibrated value satisfies `dec_repairP` are
selected, the functional `v` of the selected rows is computed and written into exactly these rows -/
theorem dec_repair_eq (f : Functional) (α : K) (recal : List K) (w : Option (List K)) (ymin : K)
    (hw : ∀ w', w = some w' → w'.length = recal.length) :
    repair f α recal w ymin
      = (functionalVal f α (recal.filter (dec_repairP recal ymin))
          (w.map (fun w' => ((recal.zip w').filter (fun p => dec_repairP recal ymin p.1)).map (·.2)))).map
        (fun v => recal.map (fun r => if dec_repairP recal ymin r then v else r)) := by
  have hmask : (match recal.filter (fun v => decide (ymin < v)) with
      | [] => recal.map (fun _ => true)
      | g :: gs => recal.map (fun v => decide (v ≤ gs.foldl min g)))
      = recal.map (dec_repairP recal ymin) := by
    unfold dec_repairP
    cases recal.filter (fun v => decide (ymin < v)) <;> rfl
  have hrep : ∀ mask : List Bool, mask = (match recal.filter (fun v => decide (ymin < v)) with
      | [] => recal.map (fun _ => true)
      | g :: gs => recal.map (fun v => decide (v ≤ gs.foldl min g))) →
      repair f α recal w ymin
        = (functionalVal f α
            ((List.zip recal mask).filterMap (fun p => if p.2 then some p.1 else none))
            (w.map (fun w' => (List.zip w' mask).filterMap (fun p => if p.2 then some p.1 else none)))
          >>= fun v => pure (List.zipWith (fun r (m : Bool) => if m then v else r) recal mask)) := by
    intro mask hm
    subst hm
    rfl
  rw [hrep _ hmask.symm, dec_sel_self]
  simp only [dec_zipWith_mask]
  cases w with
  | none =>
    simp only [Option.map_none]
    cases functionalVal f α (recal.filter (dec_repairP recal ymin)) none <;> rfl
  | some w' =>
    simp only [Option.map_some, dec_sel_other _ recal w' (hw w' rfl)]
    cases functionalVal f α (recal.filter (dec_repairP recal ymin)) _ <;> rfl

omit [ScoreOps K] in
/-- the mask predicate does not depend on the order of the recalibrated values -/
theorem dec_repairP_perm {r₁ r₂ : List K} (hp : r₁.Perm r₂) (ymin : K) :
    dec_repairP r₁ ymin = dec_repairP r₂ ymin := by
  have hf := hp.filter (fun v => decide (ymin < v))
  unfold dec_repairP
  cases h1 : r₁.filter (fun v => decide (ymin < v)) with
  | nil =>
    rw [h1] at hf
    rw [hf.symm.eq_nil]
  | cons g gs =>
    rw [h1] at hf
    cases h2 : r₂.filter (fun v => decide (ymin < v)) with
    | nil => rw [h2] at hf; exact absurd hf.eq_nil (by simp)
    | cons g' gs' =>
      rw [h2] at hf
      have := dec_lmin_perm hf (by simp)
      simp only [List.getElem!_cons_zero, List.foldl_cons, min_self] at this
      simp only [this]

omit [ScoreOps K] [Inhabited K] in
/-- the value of a successful `functionalVal` -/
theorem dec_functionalVal_val {f : Functional} {lv : K} {ys : List K} {w : Option (List K)}
    {marg : K} (hq : f ≠ .mean → f ≠ .expectile → w = none)
    (h : functionalVal f lv ys w = .ok marg) : marg = dec_T f lv (ys.zip (dec_wts ys w)) := by
  cases f with
  | mean =>
    simp only [functionalVal] at h
    obtain ⟨hw, hv⟩ := dec_average_val (ys := ys) rfl h
    rw [hv]
    show _ = wysum _ / wsum _
    rw [dec_wysum_zip, dec_wsum_zip _ _ (dec_wts_length ys w hw)]
  | expectile =>
    simp only [functionalVal] at h
    rw [← Except.ok.inj h, dec_obsOf_eq]
    rfl
  | median =>
    have := hq (by decide) (by decide)
    subst this
    simp only [functionalVal] at h
    rw [← Except.ok.inj h, dec_obsOf_eq]
    rfl
  | quantile =>
    have := hq (by decide) (by decide)
    subst this
    simp only [functionalVal] at h
    rw [← Except.ok.inj h, dec_obsOf_eq]
    rfl

omit [ScoreOps K] [Inhabited K] in
theorem dec_T_perm' {f : Functional} {α : K} (hf : FitOK f α) {d d' : List (Obs K)}
    (hp : d.Perm d') (hpos : ∀ o ∈ d, 0 < o.2) : dec_T f α d = dec_T f α d' := by
  by_cases hne : d = []
  · subst hne; rw [hp.symm.eq_nil]
  · exact dec_T_perm hf hp hne hpos

omit [ScoreOps K] [Inhabited K] in
/-- the selected observations of `repair`, as a filter of the zipped rows -/
theorem dec_sel_obs (P : K → Bool) (recal : List K) (w : Option (List K))
    (hw : ∀ w', w = some w' → w'.length = recal.length) :
    (recal.filter P).zip (dec_wts (recal.filter P)
        (w.map (fun w' => ((recal.zip w').filter (fun p => P p.1)).map (·.2))))
      = (recal.zip (dec_wts recal w)).filter (fun p => P p.1) := by
  cases w with
  | none =>
    simp only [Option.map_none, dec_wts]
    induction recal with
    | nil => rfl
    | cons a l ih =>
      have ih' := ih (fun w' hw' => by cases hw')
      simp only [List.filter_cons, List.map_cons, List.zip_cons_cons]
      cases hP : P a
      · simpa using ih'
      · simp only [if_true, List.map_cons, List.zip_cons_cons, ih']
  | some w' =>
    have hl := hw w' rfl
    simp only [Option.map_some, dec_wts]
    clear hw
    induction recal generalizing w' with
    | nil => simp
    | cons a l ih =>
      cases w' with
      | nil => simp at hl
      | cons b w' =>
        have ih' := ih w' (by simpa using hl)
        simp only [List.filter_cons, List.zip_cons_cons]
        cases hP : P a
        · simpa using ih'
        · simp only [if_true, List.map_cons, List.zip_cons_cons, ih']

omit [ScoreOps K] [Inhabited K] in
theorem dec_map_ok {α β : Type} {m : Except Err α} {g : α → β} {b : β} (h : m.map g = .ok b) :
    ∃ a, m = .ok a ∧ b = g a := by
  cases m with
  | error e => cases h
  | ok a => exact ⟨a, rfl, (Except.ok.inj h).symm⟩

omit [ScoreOps K] [Inhabited K] in
theorem dec_zip_map_rows (g : K → K) (X y : List K) (w : Option (List K))
    (hX : X.length = y.length) (hw : ∀ w', w = some w' → w'.length = y.length) :
    (X.map g).zip (dec_wts (X.map g) w) = (fit_rows X y w).map (fun a => (g a.x, a.w)) := by
  obtain ⟨a1, _, a3⟩ := dec_fit_rows_cols X y w hX hw
  rw [dec_wts_congr w (show (X.map g).length = y.length by simpa using hX)]
  have : (X.map g).zip (dec_wts y w)
      = (((fit_rows X y w).map (·.x)).map g).zip ((fit_rows X y w).map (·.w)) := by rw [a1, a3]
  rw [this, List.map_map, List.zip_map']
  rfl

/-- **Row order and recalibration** (domain repair included): for two samples whose rows are
permutations of each other and whose `yminAllowed` flags agree, the recalibrated forecasts are the
same function `G` of the forecast in both samples. -/
theorem dec_recal_perm (sf : SF K) {f : Functional} {lv : K} (hm : f ≠ .median)
    {X₁ y₁ X₂ y₂ : List K} {w₁ w₂ : Option (List K)} (hsome : w₁.isSome = w₂.isSome)
    (hperm : (fit_rows X₁ y₁ w₁).Perm (fit_rows X₂ y₂ w₂))
    (hflag : dec_yminAllowed sf y₁ w₁ = dec_yminAllowed sf y₂ w₂) {r₁ r₂ : List K}
    (h₁ : dec_recal sf f lv y₁ w₁ X₁ = .ok r₁) (h₂ : dec_recal sf f lv y₂ w₂ X₂ = .ok r₂) :
    ∃ G : K → K, r₁ = X₁.map G ∧ r₂ = X₂.map G := by
  obtain ⟨tx, ty, hf₁, hc₁⟩ := (dec_recal_ok sf f lv y₁ w₁ X₁ r₁).mp h₁
  obtain ⟨tx', ty', hf₂, hc₂⟩ := (dec_recal_ok sf f lv y₂ w₂ X₂ r₂).mp h₂
  obtain ⟨hX₁, hw₁, hne₁, hpos₁⟩ := dec_isoFit_ok_data hf₁
  obtain ⟨hX₂, hw₂, hne₂, hpos₂⟩ := dec_isoFit_ok_data hf₂
  have hfe := fit_isoFit_row_order_free_general (some f) lv true X₁ y₁ X₂ y₂ w₁ w₂ hX₁ hX₂ hw₁ hw₂
    hsome hperm
  rw [hf₁, hf₂] at hfe
  obtain ⟨rfl, rfl⟩ := Prod.mk.inj (Except.ok.inj hfe)
  obtain ⟨hF, hq₁⟩ := dec_isoFit_fitOK hm hf₁
  obtain ⟨_, hq₂⟩ := dec_isoFit_fitOK hm hf₂
  obtain ⟨_, hyp, hXp⟩ := dec_obs_perm hX₁ hX₂ hw₁ hw₂ hperm
  have hrp : (X₁.map (interp tx ty)).Perm (X₂.map (interp tx ty)) := hXp.map _
  have hXne : X₁ ≠ [] := by
    intro he; rw [he] at hX₁; exact hne₁ (List.length_eq_zero_iff.mp hX₁.symm)
  have hymin : y₁.foldl min y₁[0]! = y₂.foldl min y₂[0]! := dec_lmin_perm hyp hne₁
  have hrmin := dec_lmin_perm hrp (by simpa using hXne)
  rw [← hflag, ← hymin, ← hrmin] at hc₂
  by_cases hc : dec_yminAllowed sf y₁ w₁ = false ∧
      (X₁.map (interp tx ty)).foldl min (X₁.map (interp tx ty))[0]! ≤ y₁.foldl min y₁[0]!
  · rw [if_pos hc] at hc₁ hc₂
    rw [dec_repair_eq _ _ _ _ _ (by intro w' hw'; rw [List.length_map, hX₁]; exact hw₁ w' hw')] at hc₁
    rw [dec_repair_eq _ _ _ _ _ (by intro w' hw'; rw [List.length_map, hX₂]; exact hw₂ w' hw')] at hc₂
    rw [← dec_repairP_perm hrp] at hc₂
    obtain ⟨v₁, hv₁, e₁⟩ := dec_map_ok hc₁
    obtain ⟨v₂, hv₂, e₂⟩ := dec_map_ok hc₂
    have hq₁' : f ≠ .mean → f ≠ .expectile →
        w₁.map (fun w' => (((X₁.map (interp tx ty)).zip w').filter
          (fun p => dec_repairP (X₁.map (interp tx ty)) (y₁.foldl min y₁[0]!) p.1)).map (·.2)) = none := by
      intro a b; rw [hq₁ a b]; rfl
    have hq₂' : f ≠ .mean → f ≠ .expectile →
        w₂.map (fun w' => (((X₂.map (interp tx ty)).zip w').filter
          (fun p => dec_repairP (X₁.map (interp tx ty)) (y₁.foldl min y₁[0]!) p.1)).map (·.2)) = none := by
      intro a b; rw [hq₂ a b]; rfl
    have d₁ := dec_functionalVal_val hq₁' hv₁
    have d₂ := dec_functionalVal_val hq₂' hv₂
    rw [dec_sel_obs _ _ _ (by intro w' hw'; rw [List.length_map, hX₁]; exact hw₁ w' hw')] at d₁
    rw [dec_sel_obs _ _ _ (by intro w' hw'; rw [List.length_map, hX₂]; exact hw₂ w' hw')] at d₂
    have z₁ := dec_zip_map_rows (interp tx ty) X₁ y₁ w₁ hX₁ hw₁
    have z₂ := dec_zip_map_rows (interp tx ty) X₂ y₂ w₂ hX₂ hw₂
    have hvv : v₁ = v₂ := by
      rw [d₁, d₂, z₁, z₂]
      apply dec_T_perm' hF ((hperm.map _).filter _)
      intro o ho
      obtain ⟨a, ha, rfl⟩ := List.mem_map.mp (List.mem_filter.mp ho).1
      have : a.w ∈ (fit_rows X₁ y₁ w₁).map (·.w) := List.mem_map.mpr ⟨a, ha, rfl⟩
      rw [(dec_fit_rows_cols X₁ y₁ w₁ hX₁ hw₁).2.2] at this
      exact hpos₁ _ this
    refine ⟨fun q => if dec_repairP (X₁.map (interp tx ty)) (y₁.foldl min y₁[0]!) (interp tx ty q)
      then v₁ else interp tx ty q, ?_, ?_⟩
    · rw [e₁, List.map_map]; rfl
    · rw [e₂, ← hvv, List.map_map]; rfl
  · rw [if_neg hc] at hc₁ hc₂
    exact ⟨interp tx ty, (Except.ok.inj hc₁).symm, (Except.ok.inj hc₂).symm⟩

end Repair


/-! ### the domain of a score object is a rectangle; `yminAllowed` -/
section Rect
variable {K : Type} [Field K] [LinearOrder K] [IsStrictOrderedRing K] [ScoreOps K] [Inhabited K]

/-- an `Except` value is a success or a `ValueError` -/
def dec_okOrValue {α : Type} (m : Except Err α) : Prop :=
  (∃ v, m = .ok v) ∨ m = .error .valueError

/-- the pairs `hes` accepts -/
def dec_hesOK (h y z : K) : Prop :=
  if eqK h two then True else if 1 < h then True
  else if eqK h 1 then (0 ≤ y ∧ 0 < z) else if eqK h 0 then (0 < y ∧ 0 < z)
  else if 0 < h then (0 ≤ y ∧ 0 < z) else (0 < y ∧ 0 < z)

omit [Inhabited K] in
theorem dec_hes_spec (h α y z : K) :
    (dec_hesOK h y z → ∃ v, hes h α y z = .ok v) ∧
    (¬ dec_hesOK h y z → hes h α y z = .error .valueError) := by
  unfold dec_hesOK hes
  by_cases c1 : eqK h two
  · simp only [if_pos c1]
    refine ⟨fun _ => ?_, fun hn => absurd trivial hn⟩
    by_cases ca : eqK α half <;> simp only [ca, if_true, if_false, pure_bind] <;> exact ⟨_, rfl⟩
  simp only [if_neg c1]
  by_cases c2 : 1 < h
  · simp only [if_pos c2]
    refine ⟨fun _ => ?_, fun hn => absurd trivial hn⟩
    by_cases ca : eqK α half <;> simp only [ca, if_true, if_false, pure_bind] <;> exact ⟨_, rfl⟩
  simp only [if_neg c2]
  have fin : ∀ (D : Prop) [Decidable D] (val : K),
      (D → ∃ v, (if ¬ D then (do
          let score ← (throw Err.valueError : Except Err K)
          if eqK α half then pure score else pure (two * ScoreOps.abs (geInd z y - α) * score))
        else (do
          let score ← (pure val : Except Err K)
          if eqK α half then pure score else pure (two * ScoreOps.abs (geInd z y - α) * score)))
          = Except.ok v) ∧
      (¬ D → (if ¬ D then (do
          let score ← (throw Err.valueError : Except Err K)
          if eqK α half then pure score else pure (two * ScoreOps.abs (geInd z y - α) * score))
        else (do
          let score ← (pure val : Except Err K)
          if eqK α half then pure score else pure (two * ScoreOps.abs (geInd z y - α) * score)))
          = Except.error Err.valueError) := by
    intro D _ val
    constructor
    · intro hD
      rw [if_neg (not_not.mpr hD)]
      by_cases ca : eqK α half <;> simp only [ca, if_true, if_false, pure_bind] <;> exact ⟨_, rfl⟩
    · intro hD
      rw [if_pos hD]
      rfl
  by_cases c3 : eqK h 1
  · simp only [if_pos c3]
    exact fin (0 ≤ y ∧ 0 < z) _
  simp only [if_neg c3]
  by_cases c4 : eqK h 0
  · simp only [if_pos c4]
    exact fin (0 < y ∧ 0 < z) _
  simp only [if_neg c4]
  by_cases c5 : 0 < h
  · simp only [if_pos c5]
    exact fin (0 ≤ y ∧ 0 < z) _
  · simp only [if_neg c5]
    exact fin (0 < y ∧ 0 < z) _

/-- the pairs `hqs` accepts -/
def dec_hqsOK (h y z : K) : Prop :=
  if eqK h 1 then True else if 1 < h ∧ ScoreOps.oddInt h then True else (0 < y ∧ 0 < z)

omit [Inhabited K] in
theorem dec_hqs_spec (h α y z : K) :
    (dec_hqsOK h y z → ∃ v, hqs h α y z = .ok v) ∧
    (¬ dec_hqsOK h y z → hqs h α y z = .error .valueError) := by
  unfold dec_hqsOK hqs
  by_cases c1 : eqK h 1
  · simp only [if_pos c1]
    refine ⟨fun _ => ?_, fun hn => absurd trivial hn⟩
    by_cases ca : eqK α half <;> simp only [ca, if_true, if_false, pure_bind] <;> exact ⟨_, rfl⟩
  simp only [if_neg c1]
  by_cases c2 : 1 < h ∧ ScoreOps.oddInt h
  · simp only [if_pos c2]
    refine ⟨fun _ => ?_, fun hn => absurd trivial hn⟩
    by_cases ca : eqK α half <;> simp only [ca, if_true, if_false, pure_bind] <;> exact ⟨_, rfl⟩
  simp only [if_neg c2]
  have fin : ∀ (D : Prop) [Decidable D] (val : K),
      (D → ∃ v, (if ¬ D then (do
          let score ← (throw Err.valueError : Except Err K)
          if eqK α half then pure (half * ScoreOps.abs score) else pure ((geInd z y - α) * score))
        else (do
          let score ← (pure val : Except Err K)
          if eqK α half then pure (half * ScoreOps.abs score) else pure ((geInd z y - α) * score)))
          = Except.ok v) ∧
      (¬ D → (if ¬ D then (do
          let score ← (throw Err.valueError : Except Err K)
          if eqK α half then pure (half * ScoreOps.abs score) else pure ((geInd z y - α) * score))
        else (do
          let score ← (pure val : Except Err K)
          if eqK α half then pure (half * ScoreOps.abs score) else pure ((geInd z y - α) * score)))
          = Except.error Err.valueError) := by
    intro D _ val
    constructor
    · intro hD
      rw [if_neg (not_not.mpr hD)]
      by_cases ca : eqK α half <;> simp only [ca, if_true, if_false, pure_bind] <;> exact ⟨_, rfl⟩
    · intro hD
      rw [if_pos hD]
      rfl
  by_cases c3 : eqK h 0
  · simp only [if_pos c3]
    exact fin (0 < y ∧ 0 < z) _
  · simp only [if_neg c3]
    exact fin (0 < y ∧ 0 < z) _

omit [Inhabited K] in
theorem dec_hesOK_rect (h : K) {y z y' z' : K} (a : dec_hesOK h y z) (b : dec_hesOK h y' z') :
    dec_hesOK h y z' := by
  unfold dec_hesOK at *
  split_ifs at * <;> first | trivial | exact ⟨a.1, b.2⟩

omit [Inhabited K] in
theorem dec_hqsOK_rect (h : K) {y z y' z' : K} (a : dec_hqsOK h y z) (b : dec_hqsOK h y' z') :
    dec_hqsOK h y z' := by
  unfold dec_hqsOK at *
  split_ifs at *
  all_goals first | trivial | exact ⟨a.1, b.2⟩

/-- the pairs a score object accepts -/
def dec_sfOK (sf : SF K) (y z : K) : Prop :=
  match sf.elem with
  | some (f, _) => ¬ (sf.α ≤ 0 ∨ 1 ≤ sf.α) ∧ f ≠ none
  | none => match sf.kind with
    | .hes => levelOk sf.α ∧ dec_hesOK sf.h y z
    | .hqs => levelOk sf.α ∧ dec_hqsOK sf.h y z
    | .logloss => True
    | .squaredError => dec_hesOK two y z
    | .poisson => dec_hesOK 1 y z
    | .gamma => dec_hesOK 0 y z
    | .pinball => levelOk sf.α ∧ dec_hqsOK 1 y z

omit [Inhabited K] in
theorem dec_elemScore_spec (f : Option Functional) (α η y z : K) :
    ((¬ (α ≤ 0 ∨ 1 ≤ α) ∧ f ≠ none) → ∃ v, elemScore f α η y z = .ok v) ∧
    (¬ (¬ (α ≤ 0 ∨ 1 ≤ α) ∧ f ≠ none) → elemScore f α η y z = .error .valueError) := by
  unfold elemScore
  by_cases c : α ≤ 0 ∨ 1 ≤ α
  · rw [if_pos c]
    exact ⟨fun h => absurd c h.1, fun _ => rfl⟩
  rw [if_neg c]
  cases f with
  | none =>
    refine ⟨fun h => absurd rfl h.2, fun _ => ?_⟩
    simp [identFn]
    rfl
  | some f =>
    refine ⟨fun _ => ?_, fun h => absurd ⟨c, by simp⟩ h⟩
    cases f <;> simp [identFn, c] <;> exact ⟨_, rfl⟩

omit [Inhabited K] in
/-- **every score object accepts exactly the pairs in `dec_sfOK` and otherwise raises `ValueError`** -/
theorem dec_sfPair_spec (sf : SF K) (y z : K) :
    (dec_sfOK sf y z → ∃ v, sfPair sf y z = .ok v) ∧
    (¬ dec_sfOK sf y z → sfPair sf y z = .error .valueError) := by
  unfold dec_sfOK sfPair
  cases he : sf.elem with
  | some p =>
    obtain ⟨f, η⟩ := p
    exact dec_elemScore_spec f sf.α η y z
  | none =>
    simp only
    unfold scorePair
    cases sf.kind with
    | hes =>
      simp only
      by_cases hl : levelOk sf.α
      · rw [if_pos hl]
        obtain ⟨h1, h2⟩ := dec_hes_spec sf.h sf.α y z
        exact ⟨fun h => h1 h.2, fun h => h2 (fun h' => h ⟨hl, h'⟩)⟩
      · rw [if_neg hl]
        exact ⟨fun h => absurd h.1 hl, fun _ => rfl⟩
    | hqs =>
      simp only
      by_cases hl : levelOk sf.α
      · rw [if_pos hl]
        obtain ⟨h1, h2⟩ := dec_hqs_spec sf.h sf.α y z
        exact ⟨fun h => h1 h.2, fun h => h2 (fun h' => h ⟨hl, h'⟩)⟩
      · rw [if_neg hl]
        exact ⟨fun h => absurd h.1 hl, fun _ => rfl⟩
    | logloss => exact ⟨fun _ => ⟨_, rfl⟩, fun h => absurd trivial h⟩
    | squaredError => exact dec_hes_spec two half y z
    | poisson => exact dec_hes_spec 1 half y z
    | gamma => exact dec_hes_spec 0 half y z
    | pinball =>
      simp only
      by_cases hl : levelOk sf.α
      · rw [if_pos hl]
        obtain ⟨h1, h2⟩ := dec_hqs_spec 1 sf.α y z
        exact ⟨fun h => h1 h.2, fun h => h2 (fun h' => h ⟨hl, h'⟩)⟩
      · rw [if_neg hl]
        exact ⟨fun h => absurd h.1 hl, fun _ => rfl⟩

omit [Inhabited K] in
/-- the accepted pairs form a rectangle: admissibility of `y` and of `z` are separate conditions -/
theorem dec_sfOK_rect (sf : SF K) {y z y' z' : K} (a : dec_sfOK sf y z) (b : dec_sfOK sf y' z') :
    dec_sfOK sf y z' := by
  unfold dec_sfOK at *
  cases he : sf.elem with
  | some p => rw [he] at a; exact a
  | none =>
    rw [he] at a b
    simp only at a b ⊢
    cases hk : sf.kind with
    | hes => rw [hk] at a b; exact ⟨a.1, dec_hesOK_rect _ a.2 b.2⟩
    | hqs => rw [hk] at a b; exact ⟨a.1, dec_hqsOK_rect _ a.2 b.2⟩
    | logloss => trivial
    | squaredError => rw [hk] at a b; exact dec_hesOK_rect _ a b
    | poisson => rw [hk] at a b; exact dec_hesOK_rect _ a b
    | gamma => rw [hk] at a b; exact dec_hesOK_rect _ a b
    | pinball => rw [hk] at a b; exact ⟨a.1, dec_hqsOK_rect _ a.2 b.2⟩

/-- **`yminAllowed`** says exactly that `(y[0], min y)` is an accepted pair -/
theorem dec_yminAllowed_iff (sf : SF K) (ys : List K) (w : Option (List K)) :
    dec_yminAllowed sf ys w = true ↔ dec_sfOK sf ys[0]! (ys.foldl min ys[0]!) := by
  obtain ⟨h1, h2⟩ := dec_sfPair_spec sf ys[0]! (ys.foldl min ys[0]!)
  constructor
  · intro hf
    by_contra hn
    have he := h2 hn
    have : sfMean sf [ys[0]!] [ys.foldl min ys[0]!] (w.map (fun w' => w'.take 1))
        = .error .valueError := by
      unfold sfMean
      rw [if_neg (by simp)]
      show (List.mapM (fun p : K × K => sfPair sf p.1 p.2) [(ys[0]!, ys.foldl min ys[0]!)]
        >>= fun s => average s _) = _
      rw [dec_mapM_single, he]
      rfl
    unfold dec_yminAllowed at hf
    rw [this] at hf
    cases hf
  · intro hok
    obtain ⟨v, hv⟩ := h1 hok
    exact dec_yminAllowed_of_ok sf ys w v hv

/-- a successful average score means every pair is accepted -/
theorem dec_sfMean_pairs_ok {sf : SF K} {ys zs : List K} {w : Option (List K)} {s : K}
    (h : sfMean sf ys zs w = .ok s) : ∀ p ∈ ys.zip zs, dec_sfOK sf p.1 p.2 := by
  obtain ⟨_, _, hp, _⟩ := dec_sfMean_val h
  intro p hpm
  obtain ⟨v, hv⟩ := hp p hpm
  by_contra hn
  rw [(dec_sfPair_spec sf p.1 p.2).2 hn] at hv
  cases hv

/-- **the `yminAllowed` flag does not depend on the row order** when the forecasts can be scored
at all in both arrangements -/
theorem dec_flags_eq (sf : SF K) {X₁ y₁ X₂ y₂ : List K} {w₁ w₂ : Option (List K)}
    (hyp : y₁.Perm y₂) (hne : y₁ ≠ []) {s₁ s₂ : K} (h₁ : sfMean sf y₁ X₁ w₁ = .ok s₁)
    (h₂ : sfMean sf y₂ X₂ w₂ = .ok s₂) :
    dec_yminAllowed sf y₁ w₁ = dec_yminAllowed sf y₂ w₂ := by
  have hne₂ : y₂ ≠ [] := by
    intro he; rw [he] at hyp; exact hne hyp.eq_nil
  have hymin := dec_lmin_perm hyp hne
  have key : ∀ {X y : List K} {w : Option (List K)} {s : K}, y ≠ [] → sfMean sf y X w = .ok s →
      ∃ z, dec_sfOK sf y[0]! z := by
    intro X y w s hy hs
    obtain ⟨hl, _, _, _⟩ := dec_sfMean_val hs
    have hp := dec_sfMean_pairs_ok hs
    cases y with
    | nil => exact absurd rfl hy
    | cons a t =>
      cases X with
      | nil => simp at hl
      | cons b u => exact ⟨b, by simpa using hp (a, b) (by simp)⟩
  obtain ⟨z₁, hz₁⟩ := key hne h₁
  obtain ⟨z₂, hz₂⟩ := key hne₂ h₂
  rw [Bool.eq_iff_iff, dec_yminAllowed_iff, dec_yminAllowed_iff, ← hymin]
  exact ⟨fun h => dec_sfOK_rect sf hz₂ h, fun h => dec_sfOK_rect sf hz₁ h⟩

end Rect

/-! ### the decomposition and the row order -/
section PermMain
variable {K : Type} [Field K] [LinearOrder K] [IsStrictOrderedRing K] [ScoreOps K] [Inhabited K]

/-- **the decomposition does not depend on the row order** (one column; both calls succeed; equal
`yminAllowed` flags) -/
theorem dec_decompose_perm (sf : SF K) (fn : Option (Option Functional)) (lv : Option K)
    {X₁ y₁ X₂ y₂ : List K} {w₁ w₂ : Option (List K)} (hsome : w₁.isSome = w₂.isSome)
    (hperm : (fit_rows X₁ y₁ w₁).Perm (fit_rows X₂ y₂ w₂))
    (hflag : dec_yminAllowed sf y₁ w₁ = dec_yminAllowed sf y₂ w₂) {r₁ r₂ : DecompRow K}
    (h₁ : decompose sf fn lv y₁ [X₁] w₁ = .ok [r₁]) (h₂ : decompose sf fn lv y₂ [X₂] w₂ = .ok [r₂]) :
    r₁ = r₂ := by
  obtain ⟨f, lv', marg₁, sm₁, hv, _, hm₁, hrows₁⟩ := (dec_ok_iff sf fn lv y₁ [X₁] w₁ [r₁]).mp h₁
  obtain ⟨f', lv'', marg₂, sm₂, hv', _, hm₂, hrows₂⟩ := (dec_ok_iff sf fn lv y₂ [X₂] w₂ [r₂]).mp h₂
  rw [hv] at hv'
  cases hv'
  have hmed := dec_validate_ne_median hv
  have hrow₁ : dec_row sf f lv' y₁ w₁ sm₁ X₁ = .ok r₁ :=
    dec_mapM_get hrows₁ 0 (by simp) (by simp)
  have hrow₂ : dec_row sf f lv' y₂ w₂ sm₂ X₂ = .ok r₂ :=
    dec_mapM_get hrows₂ 0 (by simp) (by simp)
  obtain ⟨rc₁, s₁, sR₁, hrec₁, hs₁, hsR₁, rfl⟩ := (dec_row_ok sf f lv' y₁ w₁ sm₁ X₁ r₁).mp hrow₁
  obtain ⟨rc₂, s₂, sR₂, hrec₂, hs₂, hsR₂, rfl⟩ := (dec_row_ok sf f lv' y₂ w₂ sm₂ X₂ r₂).mp hrow₂
  obtain ⟨tx, ty, hf₁, _⟩ := (dec_recal_ok sf f lv' y₁ w₁ X₁ rc₁).mp hrec₁
  obtain ⟨tx', ty', hf₂, _⟩ := (dec_recal_ok sf f lv' y₂ w₂ X₂ rc₂).mp hrec₂
  obtain ⟨hX₁, _, _, _⟩ := dec_isoFit_ok_data hf₁
  obtain ⟨hX₂, _, _, _⟩ := dec_isoFit_ok_data hf₂
  obtain ⟨G, rfl, rfl⟩ := dec_recal_perm sf hmed hsome hperm hflag hrec₁ hrec₂
  obtain ⟨hma₁, hsm₁⟩ := dec_marginal_ok hm₁
  obtain ⟨hma₂, hsm₂⟩ := dec_marginal_ok hm₂
  have emarg : marg₁ = marg₂ := dec_functionalVal_perm hmed hf₁ hf₂ hperm hma₁ hma₂
  subst emarg
  have es : s₁ = s₂ := by
    have a₁ : sfMean sf y₁ (X₁.map id) w₁ = .ok s₁ := by rw [List.map_id]; exact hs₁
    have a₂ : sfMean sf y₂ (X₂.map id) w₂ = .ok s₂ := by rw [List.map_id]; exact hs₂
    exact dec_sfMean_perm sf id hX₁ hX₂ hperm a₁ a₂
  have esR : sR₁ = sR₂ := dec_sfMean_perm sf G hX₁ hX₂ hperm hsR₁ hsR₂
  have esm : sm₁ = sm₂ := by
    have a₁ : sfMean sf y₁ (X₁.map fun _ => marg₁) w₁ = .ok sm₁ := by
      rw [List.map_const', hX₁, ← List.map_const']; exact hsm₁
    have a₂ : sfMean sf y₂ (X₂.map fun _ => marg₁) w₂ = .ok sm₂ := by
      rw [List.map_const', hX₂, ← List.map_const']; exact hsm₂
    exact dec_sfMean_perm sf (fun _ => marg₁) hX₁ hX₂ hperm a₁ a₂
  rw [es, esR, esm]

/-- … and the flags agree automatically: **the decomposition does not depend on the row order**,
domain repair included (one column; both calls succeed) -/
theorem dec_decompose_perm' (sf : SF K) (fn : Option (Option Functional)) (lv : Option K)
    {X₁ y₁ X₂ y₂ : List K} {w₁ w₂ : Option (List K)} (hsome : w₁.isSome = w₂.isSome)
    (hperm : (fit_rows X₁ y₁ w₁).Perm (fit_rows X₂ y₂ w₂)) {r₁ r₂ : DecompRow K}
    (h₁ : decompose sf fn lv y₁ [X₁] w₁ = .ok [r₁]) (h₂ : decompose sf fn lv y₂ [X₂] w₂ = .ok [r₂]) :
    r₁ = r₂ := by
  obtain ⟨f, lv', marg₁, sm₁, _, hs₁, _, hrows₁⟩ := (dec_ok_iff sf fn lv y₁ [X₁] w₁ [r₁]).mp h₁
  obtain ⟨f', lv'', marg₂, sm₂, _, hs₂, _, hrows₂⟩ := (dec_ok_iff sf fn lv y₂ [X₂] w₂ [r₂]).mp h₂
  obtain ⟨_, sc₁, _, _, hsc₁, _, _⟩ := (dec_row_ok sf f lv' y₁ w₁ sm₁ X₁ r₁).mp
    (dec_mapM_get hrows₁ 0 (by simp) (by simp))
  obtain ⟨_, sc₂, _, _, hsc₂, _, _⟩ := (dec_row_ok sf f' lv'' y₂ w₂ sm₂ X₂ r₂).mp
    (dec_mapM_get hrows₂ 0 (by simp) (by simp))
  obtain ⟨hc₁, hw₁, hne₁⟩ := (dec_shape_ok y₁ [X₁] w₁).mp hs₁
  obtain ⟨hc₂, hw₂, _⟩ := (dec_shape_ok y₂ [X₂] w₂).mp hs₂
  have hyp := (dec_obs_perm (hc₁ X₁ (by simp)) (hc₂ X₂ (by simp)) hw₁ hw₂ hperm).2.1
  exact dec_decompose_perm sf fn lv hsome hperm (dec_flags_eq sf hyp hne₁ hsc₁ hsc₂) h₁ h₂

end PermMain


/-! ## D. Strictly increasing relabelling of the forecasts -/
section Relabel
variable {K : Type} [Field K] [LinearOrder K] [IsStrictOrderedRing K] [ScoreOps K] [Inhabited K]

/-- relabel the forecast of a row -/
def dec_relabel (φ : K → K) (a : Row K) : Row K := ⟨φ a.x, a.y, a.w⟩

omit [ScoreOps K] [Inhabited K] in
theorem dec_zipRows_relabel (φ : K → K) (X y ws : List K) :
    List.zipWith (fun (p : K × K) v => (⟨p.1, p.2, v⟩ : Row K)) (List.zip (X.map φ) y) ws
      = (List.zipWith (fun (p : K × K) v => (⟨p.1, p.2, v⟩ : Row K)) (List.zip X y) ws).map
          (dec_relabel φ) := by
  induction X generalizing y ws with
  | nil => simp
  | cons a X ih =>
    cases y with
    | nil => simp
    | cons b y =>
      cases ws with
      | nil => simp
      | cons c ws =>
        simp only [List.map_cons, List.zip_cons_cons, List.zipWith_cons_cons, ih y ws]
        rfl

omit [ScoreOps K] [Inhabited K] in
theorem dec_fit_rows_relabel (φ : K → K) (X y : List K) (w : Option (List K)) :
    fit_rows (X.map φ) y w = (fit_rows X y w).map (dec_relabel φ) := by
  unfold fit_rows
  exact dec_zipRows_relabel φ X y _

omit [ScoreOps K] [Inhabited K] in
theorem dec_fit_sorted_relabel {φ : K → K} (hφ : StrictMono φ) (inc : Bool) (X y : List K)
    (w : Option (List K)) :
    fit_sorted inc (X.map φ) y w = (fit_sorted inc X y w).map (dec_relabel φ) := by
  unfold fit_sorted
  rw [dec_fit_rows_relabel]
  symm
  apply List.map_mergeSort
  intro a _ b _
  simp only [rowLe, dec_relabel, hφ.lt_iff_lt]
  rfl

omit [ScoreOps K] in
/-- **Strictly increasing relabelling of the forecasts does not change the recalibrated forecasts**:
the model fitted on `(φ∘X, y, w)` and evaluated at `φ∘X` gives the same values as the model fitted
on `(X, y, w)` and evaluated at `X`.  (At the training points only: between them the two prediction
functions interpolate on different scales.) -/
theorem dec_recal_relabel {f : Functional} {lv : K} {φ : K → K} (hφ : StrictMono φ)
    {X y : List K} {w : Option (List K)} {tx ty tx' ty' : List K}
    (h : isoFit (some f) lv true X y w = .ok (tx, ty))
    (h' : isoFit (some f) lv true (X.map φ) y w = .ok (tx', ty')) :
    (X.map φ).map (interp tx' ty') = X.map (interp tx ty) := by
  obtain ⟨yiso, r, hr⟩ := fit_isoFit_exists h
  obtain ⟨yiso', r', hr'⟩ := fit_isoFit_exists h'
  have hs := dec_fit_sorted_relabel hφ true X y w
  have e1 : (fit_sorted true (X.map φ) y w).map (·.y) = (fit_sorted true X y w).map (·.y) := by
    rw [hs, List.map_map]; rfl
  have e2 : (fit_sorted true (X.map φ) y w).map (·.w) = (fit_sorted true X y w).map (·.w) := by
    rw [hs, List.map_map]; rfl
  have hr'' := hr'
  rw [e1, e2, hr] at hr''
  obtain ⟨rfl, rfl⟩ := Prod.mk.inj (Except.ok.inj hr'')
  have F' := fit_isoFit_fitted h' hr'
  rw [List.map_map]
  apply List.map_congr_left
  intro q hq
  obtain ⟨k, hk, rfl⟩ := List.getElem_of_mem hq
  obtain ⟨p, hp, _, hx, he⟩ := fit_isoFit_train_orig h hr k hk
  rw [fit_get! X k hk] at he hx
  have hpl : p < (fit_sorted true X y w).length := by
    have := (fit_isoFit_fitted h hr).len
    rw [List.length_map] at this
    omega
  have hx' : ((fit_sorted true (X.map φ) y w).map (·.x))[p]! = φ X[k] := by
    rw [hs, List.map_map, fit_get! _ p (by simpa using hpl), List.getElem_map]
    rw [fit_get! _ p (by simpa using hpl), List.getElem_map] at hx
    show φ ((fit_sorted true X y w)[p]).x = _
    rw [hx]
  show interp tx' ty' (φ X[k]) = _
  rw [he, ← hx']
  exact F'.train p hp

/-- the recalibration stage of `decompose` (repair included) does not see a strictly increasing
relabelling of the forecasts -/
theorem dec_dec_recal_relabel (sf : SF K) {f : Functional} {lv : K} {φ : K → K} (hφ : StrictMono φ)
    {X y : List K} {w : Option (List K)} {rc rc' : List K}
    (h : dec_recal sf f lv y w X = .ok rc) (h' : dec_recal sf f lv y w (X.map φ) = .ok rc') :
    rc = rc' := by
  obtain ⟨tx, ty, hf, hc⟩ := (dec_recal_ok sf f lv y w X rc).mp h
  obtain ⟨tx', ty', hf', hc'⟩ := (dec_recal_ok sf f lv y w (X.map φ) rc').mp h'
  rw [dec_recal_relabel hφ hf hf', hc] at hc'
  exact Except.ok.inj hc'

/-- **`dsc` and `unc` are invariant under strictly increasing transformations of the forecasts**
(one column; both calls succeed) -/
theorem dec_decompose_relabel (sf : SF K) (fn : Option (Option Functional)) (lv : Option K)
    {φ : K → K} (hφ : StrictMono φ) {X y : List K} {w : Option (List K)} {r r' : DecompRow K}
    (h : decompose sf fn lv y [X] w = .ok [r])
    (h' : decompose sf fn lv y [X.map φ] w = .ok [r']) : r.dsc = r'.dsc ∧ r.unc = r'.unc := by
  obtain ⟨f, lv', marg, sm, hv, _, hm, hrows⟩ := (dec_ok_iff sf fn lv y [X] w [r]).mp h
  obtain ⟨f', lv'', marg', sm', hv', _, hm', hrows'⟩ :=
    (dec_ok_iff sf fn lv y [X.map φ] w [r']).mp h'
  rw [hv] at hv'
  cases hv'
  rw [hm] at hm'
  cases hm'
  obtain ⟨rc, s, sR, hrec, _, hsR, rfl⟩ := (dec_row_ok sf f lv' y w sm X r).mp
    (dec_mapM_get hrows 0 (by simp) (by simp))
  obtain ⟨rc', s', sR', hrec', _, hsR', rfl⟩ := (dec_row_ok sf f lv' y w sm (X.map φ) r').mp
    (dec_mapM_get hrows' 0 (by simp) (by simp))
  have := dec_dec_recal_relabel sf hφ hrec hrec'
  subst this
  rw [hsR] at hsR'
  cases hsR'
  exact ⟨rfl, rfl⟩

omit [ScoreOps K] in
/-- the fit succeeds on the relabelled forecasts as well -/
theorem dec_isoFit_relabel_ok {f : Functional} {lv : K} {φ : K → K} (hφ : StrictMono φ)
    {X y : List K} {w : Option (List K)} {tx ty : List K}
    (h : isoFit (some f) lv true X y w = .ok (tx, ty)) :
    ∃ tx' ty', isoFit (some f) lv true (X.map φ) y w = .ok (tx', ty') := by
  obtain ⟨hX, hw, _⟩ := fit_isoFit_inv h
  obtain ⟨yiso, r, hr⟩ := fit_isoFit_exists h
  have hs := dec_fit_sorted_relabel hφ true X y w
  have e1 : (fit_sorted true (X.map φ) y w).map (·.y) = (fit_sorted true X y w).map (·.y) := by
    rw [hs, List.map_map]; rfl
  have e2 : (fit_sorted true (X.map φ) y w).map (·.w) = (fit_sorted true X y w).map (·.w) := by
    rw [hs, List.map_map]; rfl
  rw [fit_isoFit_eq (some f) lv true (X.map φ) y w (by simpa using hX) hw, e1, e2, hr]
  exact ⟨_, _, rfl⟩

/-- … and so does `decompose`, provided the relabelled forecasts can be scored -/
theorem dec_decompose_relabel_ok (sf : SF K) (fn : Option (Option Functional)) (lv : Option K)
    {φ : K → K} (hφ : StrictMono φ) {X y : List K} {w : Option (List K)} {r : DecompRow K}
    (h : decompose sf fn lv y [X] w = .ok [r]) {s' : K}
    (hs' : sfMean sf y (X.map φ) w = .ok s') :
    ∃ r', decompose sf fn lv y [X.map φ] w = .ok [r'] := by
  obtain ⟨f, lv', marg, sm, hv, hsh, hm, hrows⟩ := (dec_ok_iff sf fn lv y [X] w [r]).mp h
  obtain ⟨rc, s, sR, hrec, _, hsR, rfl⟩ := (dec_row_ok sf f lv' y w sm X r).mp
    (dec_mapM_get hrows 0 (by simp) (by simp))
  obtain ⟨tx, ty, hf, hc⟩ := (dec_recal_ok sf f lv' y w X rc).mp hrec
  obtain ⟨tx', ty', hf'⟩ := dec_isoFit_relabel_ok hφ hf
  have hrec' : dec_recal sf f lv' y w (X.map φ) = .ok rc := by
    refine (dec_recal_ok sf f lv' y w (X.map φ) rc).mpr ⟨tx', ty', hf', ?_⟩
    rw [dec_recal_relabel hφ hf hf']
    exact hc
  refine ⟨⟨s' - sR, sm - sR, sm, s'⟩, (dec_ok_iff sf fn lv y [X.map φ] w _).mpr
    ⟨f, lv', marg, sm, hv, ?_, hm, ?_⟩⟩
  · obtain ⟨h1, h2, h3⟩ := (dec_shape_ok y [X] w).mp hsh
    refine (dec_shape_ok y [X.map φ] w).mpr ⟨?_, h2, h3⟩
    intro c hc'
    rw [List.mem_singleton] at hc'
    rw [hc', List.length_map]
    exact h1 X (by simp)
  · rw [dec_mapM_single, (dec_row_ok sf f lv' y w sm (X.map φ) _).mpr
      ⟨rc, s', sR, hrec', hs', hsR, rfl⟩]
    rfl

end Relabel


/-! ### the marginal is the best constant -/
section BestConst
variable {K : Type} [Field K] [LinearOrder K] [IsStrictOrderedRing K] [ScoreOps K] [Inhabited K]

omit [ScoreOps K] in
/-- whether `fit` succeeds does not depend on the forecasts (only on functional, level, weights and
the number of rows) -/
theorem dec_isoFit_ok_transfer {f : Functional} {lv : K} {X y : List K} {w : Option (List K)}
    {tx ty : List K} (h : isoFit (some f) lv true X y w = .ok (tx, ty)) (X' : List K)
    (hX' : X'.length = y.length) : ∃ tx' ty', isoFit (some f) lv true X' y w = .ok (tx', ty') := by
  obtain ⟨hX, hw, _⟩ := fit_isoFit_inv h
  obtain ⟨yiso, r, hr⟩ := fit_isoFit_exists h
  obtain ⟨v, hv, _, _⟩ := isoReg_inv hr
  have hlen : ∀ X₀ : List K, X₀.length = y.length → (fit_sorted true X₀ y w).length = y.length := by
    intro X₀ h₀
    have hperm : (fit_sorted true X₀ y w).Perm (fit_rows X₀ y w) := List.mergeSort_perm _ _
    have := congrArg List.length (dec_fit_rows_cols X₀ y w h₀ hw).2.1
    rw [List.length_map] at this
    rw [hperm.length_eq, this]
  have hyl : ((fit_sorted true X' y w).map (·.y)).length = ((fit_sorted true X y w).map (·.y)).length := by
    rw [List.length_map, List.length_map, hlen X' hX', hlen X hX]
  have hval : ∃ v', eqValidate (some f) lv ((fit_sorted true X' y w).map (·.y))
      (w.map (fun _ => (fit_sorted true X' y w).map (·.w))) = .ok v' := by
    rw [eqValidate_congr_length (some f) lv _ hyl]
    cases w with
    | none => exact ⟨v, hv⟩
    | some w' =>
      simp only [Option.map_some] at hv ⊢
      have hp : ((fit_sorted true X y (some w')).map (·.w)).Perm
          ((fit_sorted true X' y (some w')).map (·.w)) := by
        have p1 : ((fit_sorted true X y (some w')).map (·.w)).Perm (dec_wts y (some w')) := by
          rw [← (dec_fit_rows_cols X y (some w') hX hw).2.2]
          exact (List.mergeSort_perm _ _).map _
        have p2 : ((fit_sorted true X' y (some w')).map (·.w)).Perm (dec_wts y (some w')) := by
          rw [← (dec_fit_rows_cols X' y (some w') hX' hw).2.2]
          exact (List.mergeSort_perm _ _).map _
        exact p1.trans p2.symm
      rw [fit_eqValidate_perm (some f) lv _ hp, hv]
      exact ⟨_, rfl⟩
  obtain ⟨v', hv'⟩ := hval
  rw [fit_isoFit_eq (some f) lv true X' y w hX' hw, eq_isoReg, hv']
  exact ⟨_, _, rfl⟩

omit [ScoreOps K] in
/-- **the marginal is the best admissible constant** for every score the isotonic fit minimises:
recalibrating a constant forecast gives the marginal, and recalibration beats every constant -/
theorem dec_marginal_best_const {f : Functional} {lv : K} {S : K → K → K} {dom : K → Prop}
    {X y : List K} {w : Option (List K)} {tx ty : List K} (hm : f ≠ .median)
    (h : isoFit (some f) lv true X y w = .ok (tx, ty)) (hopt : dec_FitOpt f lv S dom y)
    {marg : K} (hmarg : functionalVal f lv y w = .ok marg) (c : K) (hc : dom c) :
    total (dec_wS S) (y.zip (dec_wts y w)) (y.map fun _ => marg)
      ≤ total (dec_wS S) (y.zip (dec_wts y w)) (y.map fun _ => c) := by
  obtain ⟨tx', ty', h'⟩ := dec_isoFit_ok_transfer h (y.map fun _ => (0 : K)) (by simp)
  have hconst : ∀ a ∈ y.map (fun _ => (0 : K)), ∀ b ∈ y.map (fun _ => (0 : K)), a = b := by
    intro a ha b hb
    obtain ⟨_, _, rfl⟩ := List.mem_map.mp ha
    obtain ⟨_, _, rfl⟩ := List.mem_map.mp hb
    rfl
  have e := dec_recal_const_marginal hm h' hconst hmarg
  have i := dec_recal_le_const h' hopt c hc
  rw [e, List.map_map] at i
  exact i

/-- **`unc` is the smallest average score of an admissible constant forecast** (generic form; the
call must have at least one column, whose fit provides the positivity of the weights) -/
theorem dec_unc_best_const (sf : SF K) (f : Functional) (lv : K) (hm : f ≠ .median)
    (S : K → K → K) (dom : K → Prop) (ys : List K) (w : Option (List K))
    (hS : ∀ y ∈ ys, ∀ z, dom z → sfPair sf y z = .ok (S y z))
    (hopt : dec_FitOpt f lv S dom ys) (marg sm : K)
    (hmarg : functionalVal f lv ys w = .ok marg)
    (hsm : sfMean sf ys (ys.map fun _ => marg) w = .ok sm) (hmd : dom marg)
    (x : List K) (row : DecompRow K) (hrow : dec_row sf f lv ys w sm x = .ok row)
    (c s : K) (hc : dom c) (hs : sfMean sf ys (ys.map fun _ => c) w = .ok s) : sm ≤ s := by
  obtain ⟨recal, _, _, hrec, _, _, _⟩ := (dec_row_ok sf f lv ys w sm x row).mp hrow
  obtain ⟨tx, ty, hfit, _⟩ := (dec_recal_ok sf f lv ys w x recal).mp hrec
  obtain ⟨hX, hw, hne, hpos⟩ := dec_isoFit_ok_data hfit
  have hW : 0 < (dec_wts ys w).sum := by
    apply List.sum_pos _ hpos
    intro he
    have := dec_wts_length ys w hw
    rw [he] at this
    exact hne (List.length_eq_zero_iff.mp this.symm)
  have pair : ∀ d : K, dom d → ∀ p ∈ ys.zip (ys.map fun _ => d),
      sfPair sf p.1 p.2 = .ok (S p.1 p.2) := by
    intro d hd p hp
    have := List.of_mem_zip (a := p.1) (b := p.2) hp
    obtain ⟨_, _, e⟩ := List.mem_map.mp this.2
    rw [← e]
    exact hS p.1 this.1 d hd
  have e1 := dec_sfMean_ok sf S ys (ys.map fun _ => marg) w (by simp) (pair marg hmd) hw hne hpos
  have e2 := dec_sfMean_ok sf S ys (ys.map fun _ => c) w (by simp) (pair c hc) hw hne hpos
  rw [hsm] at e1
  rw [hs] at e2
  rw [Except.ok.inj e1, Except.ok.inj e2]
  exact div_le_div_of_nonneg_right (dec_marginal_best_const hm hfit hopt hmarg c hc) hW.le

end BestConst

/-! ## E. The library scores at `ℝ` -/
section RealScores

/-- pinball loss at `ℝ`: the per-pair value -/
theorem dec_sfPair_pinball (sf : SF ℝ) (hk : sf.kind = .pinball) (he : sf.elem = none)
    (hα : 0 < sf.α ∧ sf.α < 1) (y z : ℝ) :
    sfPair sf y z = .ok (((if y ≤ z then (1 : ℝ) else 0) - sf.α) * (z - y)) := by
  unfold sfPair
  rw [he, hk]
  have := cons_scorePair_ok (k := .pinball) (h := sf.h) (α := sf.α) (y := y) (z := z) hα
  rw [this]
  show Except.ok (hqsVal 1 sf.α y z) = _
  rw [cons_hqsVal_one]
  rfl

theorem dec_validate_pinball (sf : SF ℝ) (hk : sf.kind = .pinball) (he : sf.elem = none)
    (hα : 0 < sf.α ∧ sf.α < 1) :
    dec_validate sf none none = .ok (Functional.quantile, sf.α) := by
  have hf : dec_fn sf none = some .quantile := by simp [dec_fn, sfFunctional, he, hk]
  have hl : dec_lv sf (some .quantile) none = .ok sf.α := by
    simp [dec_lv, sfLevel, he, hk]
    rfl
  unfold dec_validate
  rw [hf, hl]
  have hc : ¬ ((Functional.quantile = .expectile ∨ Functional.quantile = .quantile) ∧
      (sf.α ≤ 0 ∨ 1 ≤ sf.α)) := by
    rintro ⟨_, h | h⟩
    · exact absurd hα.1 (not_lt.mpr h)
    · exact absurd hα.2 (not_lt.mpr h)
  show (if _ then _ else _) = _
  rw [if_neg hc]
  rfl

/-! ### the homogeneous expectile scores (squared error, Poisson, Gamma deviance included) -/

/-- an identifiable functional with a smaller set of admissible observations -/
def dec_restrict {K : Type} [Field K] [LinearOrder K] (F : IdFun K) (P : Obs K → Prop) : IdFun K where
  ok o := F.ok o ∧ P o
  Vm := F.Vm
  Vp := F.Vp
  T := F.T
  single o ho u := F.single o ho.1 u
  spec S hne hok u := F.spec S hne (fun o ho => (hok o ho).1) u
  specm S hne hok u h := F.specm S hne (fun o ho => (hok o ho).1) u h

/-- the admissible observations / predictions of `HomogeneousExpectileScore(degree=h)` -/
def dec_hesY (h y : ℝ) : Prop := 1 < h ∨ (0 < h ∧ 0 ≤ y) ∨ (h ≤ 0 ∧ 0 < y)
def dec_hesZ (h z : ℝ) : Prop := 1 < h ∨ 0 < z

theorem dec_hesDom_iff (h y z : ℝ) : hesDom h y z ↔ dec_hesY h y ∧ dec_hesZ h z := by
  unfold hesDom dec_hesY dec_hesZ
  split_ifs with h1 h0
  · simp [h1]
  · constructor
    · rintro ⟨a, b⟩; exact ⟨Or.inr (Or.inl ⟨h0, a⟩), Or.inr b⟩
    · rintro ⟨a | ⟨_, a⟩ | ⟨a, _⟩, b | b⟩
      all_goals first | exact absurd ‹1 < h› h1 | exact ⟨a, b⟩ | exact absurd h0 (not_lt.mpr a)
  · constructor
    · rintro ⟨a, b⟩; exact ⟨Or.inr (Or.inr ⟨not_lt.mp h0, a⟩), Or.inr b⟩
    · rintro ⟨a | ⟨a, _⟩ | ⟨_, a⟩, b | b⟩
      all_goals first | exact absurd ‹1 < h› h1 | exact ⟨a, b⟩ | exact absurd a h0

theorem dec_hesZ_up {h a v : ℝ} (ha : dec_hesZ h a) (hav : a ≤ v) : dec_hesZ h v := by
  rcases ha with h1 | h1
  · exact Or.inl h1
  · exact Or.inr (lt_of_lt_of_le h1 hav)

theorem dec_hesZ_dom {h z₁ z₂ : ℝ} (h1 : dec_hesZ h z₁) (h2 : dec_hesZ h z₂) : hesDom h z₁ z₂ := by
  unfold hesDom
  split_ifs with a b
  · rcases h1 with h1 | h1
    · exact absurd h1 a
    rcases h2 with h2 | h2
    · exact absurd h2 a
    exact ⟨h1.le, h2⟩
  · rcases h1 with h1 | h1
    · exact absurd h1 a
    rcases h2 with h2 | h2
    · exact absurd h2 a
    exact ⟨h1, h2⟩

/-- the homogeneous expectile score of degree `h`, level `α`, as an order-sensitive score for the
`α`-expectile (observations restricted to the score's domain) -/
noncomputable def dec_hesScore (h α : ℝ) (hα0 : 0 < α) (hα1 : α < 1) :
    OSScore (dec_restrict (expectileFun α hα0 hα1) (fun o => dec_hesY h o.1)) where
  S o z := o.2 * hesVal h α o.1 z
  ψ z := 4 * hesPhi' h z
  dom z := dec_hesZ h z
  ψ_mono := by
    intro a b ha hb hab
    have := hesPhi'_mono (dec_hesZ_dom ha hb) (dec_hesZ_dom hb ha) hab
    linarith
  up := by
    intro o t c ho ht hc _
    have hw : 0 < o.2 := ho.1
    have := cons_hes_os (h := h) o hα0 hα1 ((dec_hesDom_iff h o.1 t).mpr ⟨ho.2, ht⟩)
      ((dec_hesDom_iff h o.1 c).mpr ⟨ho.2, hc⟩)
    have k := mul_le_mul_of_nonneg_left this hw.le
    show o.2 * eWeight α t o * (t - o.1) * (4 * hesPhi' h c - 4 * hesPhi' h t) ≤ _
    linarith
  dn := by
    intro o t c ho ht hc _
    have hw : 0 < o.2 := ho.1
    have := cons_hes_os (h := h) o hα0 hα1 ((dec_hesDom_iff h o.1 t).mpr ⟨ho.2, ht⟩)
      ((dec_hesDom_iff h o.1 c).mpr ⟨ho.2, hc⟩)
    have k := mul_le_mul_of_nonneg_left this hw.le
    show o.2 * eWeight α t o * (t - o.1) * (4 * hesPhi' h c - 4 * hesPhi' h t) ≤ _
    linarith

/-- the same at level `1/2`, for the mean -/
noncomputable def dec_hesScoreMean (h : ℝ) :
    OSScore (dec_restrict (meanFun (K := ℝ)) (fun o => dec_hesY h o.1)) where
  S o z := o.2 * hesVal h (1 / 2) o.1 z
  ψ z := 2 * hesPhi' h z
  dom z := dec_hesZ h z
  ψ_mono := by
    intro a b ha hb hab
    have := hesPhi'_mono (dec_hesZ_dom ha hb) (dec_hesZ_dom hb ha) hab
    linarith
  up := by
    intro o t c ho ht hc _
    have hw : 0 < o.2 := ho.1
    have := cons_hes_os (h := h) (α := 1 / 2) o (by norm_num) (by norm_num)
      ((dec_hesDom_iff h o.1 t).mpr ⟨ho.2, ht⟩) ((dec_hesDom_iff h o.1 c).mpr ⟨ho.2, hc⟩)
    have e : eWeight (1 / 2 : ℝ) t o = 1 / 2 := by unfold eWeight; split_ifs <;> norm_num
    rw [e] at this
    have k := mul_le_mul_of_nonneg_left this hw.le
    show o.2 * (t - o.1) * (2 * hesPhi' h c - 2 * hesPhi' h t) ≤ _
    linarith
  dn := by
    intro o t c ho ht hc _
    have hw : 0 < o.2 := ho.1
    have := cons_hes_os (h := h) (α := 1 / 2) o (by norm_num) (by norm_num)
      ((dec_hesDom_iff h o.1 t).mpr ⟨ho.2, ht⟩) ((dec_hesDom_iff h o.1 c).mpr ⟨ho.2, hc⟩)
    have e : eWeight (1 / 2 : ℝ) t o = 1 / 2 := by unfold eWeight; split_ifs <;> norm_num
    rw [e] at this
    have k := mul_le_mul_of_nonneg_left this hw.le
    show o.2 * (t - o.1) * (2 * hesPhi' h c - 2 * hesPhi' h t) ≤ _
    linarith

/-- **every homogeneous expectile score is minimised by the expectile fit** … -/
theorem dec_fitOpt_hes (h α : ℝ) (hα0 : 0 < α) (hα1 : α < 1) (ys : List ℝ)
    (hY : ∀ y ∈ ys, dec_hesY h y) (hZ : ∀ v, (∃ a ∈ ys, a ≤ v) → dec_hesZ h v) :
    dec_FitOpt .expectile α (hesVal h α) (dec_hesZ h) ys :=
  dec_fitOpt_of_gpava (dec_hesScore h α hα0 hα1) (dec_gpavaFit_expectile α hα0 hα1) _
    (fun _ _ => rfl) ys (fun y hy _ hv => ⟨hv, hY y hy⟩) hZ

/-- … and at level `1/2` by the mean fit -/
theorem dec_fitOpt_hes_mean (h lv : ℝ) (ys : List ℝ)
    (hY : ∀ y ∈ ys, dec_hesY h y) (hZ : ∀ v, (∃ a ∈ ys, a ≤ v) → dec_hesZ h v) :
    dec_FitOpt .mean lv (hesVal h (1 / 2)) (dec_hesZ h) ys :=
  dec_fitOpt_of_gpava (dec_hesScoreMean h) (dec_gpavaFit_mean lv) _
    (fun _ _ => rfl) ys (fun y hy _ hv => ⟨hv, hY y hy⟩) hZ

/-- `sf` is one of the four expectile-type score classes, with effective degree `h`, level `α` -/
def dec_IsHES (sf : SF ℝ) (h α : ℝ) : Prop :=
  sf.elem = none ∧
    ((sf.kind = .hes ∧ h = sf.h ∧ α = sf.α ∧ 0 < sf.α ∧ sf.α < 1) ∨
     (sf.kind = .squaredError ∧ h = 2 ∧ α = 1 / 2) ∨
     (sf.kind = .poisson ∧ h = 1 ∧ α = 1 / 2) ∨ (sf.kind = .gamma ∧ h = 0 ∧ α = 1 / 2))

theorem dec_IsHES_level {sf : SF ℝ} {h α : ℝ} (hs : dec_IsHES sf h α) : 0 < α ∧ α < 1 := by
  rcases hs.2 with ⟨_, _, rfl, h0, h1⟩ | ⟨_, _, rfl⟩ | ⟨_, _, rfl⟩ | ⟨_, _, rfl⟩
  · exact ⟨h0, h1⟩
  all_goals norm_num

/-- the per-pair value of an expectile-type score: `hesVal` on `hesDom`, `ValueError` outside -/
theorem dec_sfPair_hes {sf : SF ℝ} {h α : ℝ} (hs : dec_IsHES sf h α) (y z : ℝ) :
    (hesDom h y z → sfPair sf y z = .ok (hesVal h α y z)) ∧
    (¬ hesDom h y z → sfPair sf y z = .error .valueError) := by
  obtain ⟨he, hk⟩ := hs
  unfold sfPair
  rw [he]
  simp only
  rcases hk with ⟨hk, rfl, rfl, h0, h1⟩ | ⟨hk, rfl, rfl⟩ | ⟨hk, rfl, rfl⟩ | ⟨hk, rfl, rfl⟩
  · rw [hk]
    show (hesDom _ y z → (if levelOk sf.α then hes sf.h sf.α y z else throw Err.valueError) = _) ∧
      (¬ hesDom _ y z → (if levelOk sf.α then hes sf.h sf.α y z else throw Err.valueError) = _)
    rw [if_pos (show levelOk sf.α from ⟨h0, h1⟩)]
    exact ⟨fun d => cons_hes_ok d, fun d => hes_error d⟩
  · rw [hk]
    show (hesDom _ y z → hes two half y z = _) ∧ (¬ hesDom _ y z → hes two half y z = _)
    rw [two_real, half_real]
    exact ⟨fun d => cons_hes_ok d, fun d => hes_error d⟩
  · rw [hk]
    show (hesDom _ y z → hes 1 half y z = _) ∧ (¬ hesDom _ y z → hes 1 half y z = _)
    rw [half_real]
    exact ⟨fun d => cons_hes_ok d, fun d => hes_error d⟩
  · rw [hk]
    show (hesDom _ y z → hes 0 half y z = _) ∧ (¬ hesDom _ y z → hes 0 half y z = _)
    rw [half_real]
    exact ⟨fun d => cons_hes_ok d, fun d => hes_error d⟩

/-- the inferred functional and level of an expectile-type score -/
theorem dec_validate_hes {sf : SF ℝ} {h α : ℝ} (hs : dec_IsHES sf h α) :
    dec_validate sf none none
      = .ok (if α = 1 / 2 then (Functional.mean, (1 / 2 : ℝ)) else (Functional.expectile, α)) := by
  obtain ⟨he, hk⟩ := hs
  have hmean : ∀ (hf : dec_fn sf none = some .mean),
      dec_validate sf none none = .ok (Functional.mean, (1 / 2 : ℝ)) := by
    intro hf
    unfold dec_validate
    rw [hf]
    have : dec_lv sf (some .mean) none = .ok (1 / 2 : ℝ) := by
      simp [dec_lv]
      rfl
    rw [this]
    rfl
  rcases hk with ⟨hk, rfl, rfl, h0, h1⟩ | ⟨hk, rfl, rfl⟩ | ⟨hk, rfl, rfl⟩ | ⟨hk, rfl, rfl⟩
  · by_cases ha : sf.α = 1 / 2
    · rw [if_pos ha]
      apply hmean
      simp [dec_fn, sfFunctional, he, hk, ha]
    · rw [if_neg ha]
      have hf : dec_fn sf none = some .expectile := by
        have ha' : ¬ sf.α = 2⁻¹ := by rw [← one_div]; exact ha
        simp [dec_fn, sfFunctional, he, hk, ha']
      have hl : dec_lv sf (some .expectile) none = .ok sf.α := by
        simp [dec_lv, sfLevel, he, hk]
        rfl
      unfold dec_validate
      rw [hf, hl]
      have hc : ¬ ((Functional.expectile = .expectile ∨ Functional.expectile = .quantile) ∧
          (sf.α ≤ 0 ∨ 1 ≤ sf.α)) := by
        rintro ⟨_, h | h⟩
        · exact absurd h0 (not_lt.mpr h)
        · exact absurd h1 (not_lt.mpr h)
      show (if _ then _ else _) = _
      rw [if_neg hc]
      rfl
  · rw [if_pos rfl]; apply hmean; simp [dec_fn, sfFunctional, he, hk]
  · rw [if_pos rfl]; apply hmean; simp [dec_fn, sfFunctional, he, hk]
  · rw [if_pos rfl]; apply hmean; simp [dec_fn, sfFunctional, he, hk]

/-- the marginal mean / expectile is not below the smallest observation -/
theorem dec_marginal_ge {f : Functional} {lv : ℝ} (hf : f = .mean ∨ (f = .expectile ∧ 0 < lv ∧ lv < 1))
    {ys : List ℝ} {w : Option (List ℝ)} {marg : ℝ}
    (hw : ∀ w', w = some w' → w'.length = ys.length) (hne : ys ≠ [])
    (hpos : ∀ v ∈ dec_wts ys w, 0 < v) (h : functionalVal f lv ys w = .ok marg) :
    ∃ a ∈ ys, a ≤ marg := by
  have hq : f ≠ .mean → f ≠ .expectile → w = none := by
    intro a b
    rcases hf with rfl | ⟨rfl, _⟩
    · exact absurd rfl a
    · exact absurd rfl b
  have hm := dec_functionalVal_eq hq hw hne hpos h
  have hdne : ys.zip (dec_wts ys w) ≠ [] := by
    intro he
    have hl := congrArg List.length he
    rw [zip_length_of_eq (dec_wts_length ys w hw)] at hl
    exact hne (List.length_eq_zero_iff.mp hl)
  have hdpos : ∀ o ∈ ys.zip (dec_wts ys w), 0 < o.2 := fun o ho =>
    hpos _ (List.of_mem_zip (a := o.1) (b := o.2) ho).2
  rcases hf with rfl | ⟨rfl, h0, h1⟩
  · obtain ⟨⟨o, ho, hle⟩, _⟩ := internal_between (meanFun (K := ℝ)).internal _ hdne hdpos
    exact ⟨o.1, (List.of_mem_zip (a := o.1) (b := o.2) ho).1, by rw [hm]; exact hle⟩
  · obtain ⟨⟨o, ho, hle⟩, _⟩ := internal_between (expectileFun lv h0 h1).internal _ hdne hdpos
    exact ⟨o.1, (List.of_mem_zip (a := o.1) (b := o.2) ho).1, by rw [hm]; exact hle⟩

/-- **Expectile-type scores at `ℝ`: `mcb ≥ 0` and `dsc ≥ 0`** whenever `min y` is an admissible
prediction (the model's `yminAllowed` flag) -/
theorem dec_hes_signs {sf : SF ℝ} {h α : ℝ} (hs : dec_IsHES sf h α) (ys : List ℝ)
    (cols : List (List ℝ)) (w : Option (List ℝ)) (rows : List (DecompRow ℝ))
    (hd : decompose sf none none ys cols w = .ok rows)
    (hallowed : dec_yminAllowed sf ys w = true) : ∀ r ∈ rows, 0 ≤ r.mcb ∧ 0 ≤ r.dsc := by
  obtain ⟨hα0, hα1⟩ := dec_IsHES_level hs
  obtain ⟨f, lv', marg, sm, hv, hsh, hm, hrows⟩ := (dec_ok_iff sf none none ys cols w rows).mp hd
  obtain ⟨hm1, hm2⟩ := dec_marginal_ok hm
  obtain ⟨_, _, hne⟩ := (dec_shape_ok ys cols w).mp hsh
  rw [dec_validate_hes hs] at hv
  intro r hr
  obtain ⟨x, hx, hrow⟩ := dec_mapM_mem hrows hr
  obtain ⟨recal, score, sR, hrec, hsc, _, _⟩ := (dec_row_ok sf f lv' ys w sm x r).mp hrow
  obtain ⟨tx, ty, hfit, _⟩ := dec_recal_ok_allowed hallowed hrec
  obtain ⟨hX, hw, _, hpos⟩ := dec_isoFit_ok_data hfit
  -- all pairs `(y_i, x_i)` are in the domain
  obtain ⟨_, _, hpairs, _⟩ := dec_sfMean_val hsc
  have hdom : ∀ p ∈ ys.zip x, hesDom h p.1 p.2 := by
    intro p hp
    obtain ⟨v, hv'⟩ := hpairs p hp
    by_contra hn
    rw [(dec_sfPair_hes hs p.1 p.2).2 hn] at hv'
    cases hv'
  have hY : ∀ y ∈ ys, dec_hesY h y := by
    intro y hy
    obtain ⟨i, hi, rfl⟩ := List.getElem_of_mem hy
    have : (ys[i], x[i]'(by omega)) ∈ ys.zip x := by
      rw [List.mem_iff_getElem]
      exact ⟨i, by simp; omega, by simp⟩
    exact ((dec_hesDom_iff h _ _).mp (hdom _ this)).1
  have hxz : ∀ z ∈ x, dec_hesZ h z := by
    intro z hz
    obtain ⟨i, hi, rfl⟩ := List.getElem_of_mem hz
    have : (ys[i]'(by omega), x[i]) ∈ ys.zip x := by
      rw [List.mem_iff_getElem]
      exact ⟨i, by simp; omega, by simp⟩
    exact ((dec_hesDom_iff h _ _).mp (hdom _ this)).2
  -- `min y` is an admissible prediction
  have hymin : dec_hesZ h (ys.foldl min ys[0]!) := by
    obtain ⟨v, hv'⟩ := (dec_sfPair_spec sf _ _).1 ((dec_yminAllowed_iff sf ys w).mp hallowed)
    have : hesDom h ys[0]! (ys.foldl min ys[0]!) := by
      by_contra hn
      rw [(dec_sfPair_hes hs _ _).2 hn] at hv'
      cases hv'
    exact ((dec_hesDom_iff h _ _).mp this).2
  have hZ : ∀ v, (∃ a ∈ ys, a ≤ v) → dec_hesZ h v := by
    rintro v ⟨a, ha, hav⟩
    exact dec_hesZ_up hymin (le_trans ((dec_lmin_spec ys hne).2 a ha) hav)
  have hS : ∀ y ∈ ys, ∀ z, dec_hesZ h z → sfPair sf y z = .ok (hesVal h α y z) :=
    fun y hy z hz => (dec_sfPair_hes hs y z).1 ((dec_hesDom_iff h y z).mpr ⟨hY y hy, hz⟩)
  by_cases ha : α = 1 / 2
  · rw [if_pos ha] at hv
    obtain ⟨rfl, rfl⟩ := Prod.mk.inj (Except.ok.inj hv)
    subst ha
    exact dec_row_signs sf .mean _ (hesVal h (1 / 2)) (dec_hesZ h) ys w hS
      (dec_fitOpt_hes_mean h _ ys hY hZ) hZ hallowed marg sm hm2
      (hZ _ (dec_marginal_ge (Or.inl rfl) hw hne hpos hm1)) x hxz r hrow
  · rw [if_neg ha] at hv
    obtain ⟨rfl, rfl⟩ := Prod.mk.inj (Except.ok.inj hv)
    exact dec_row_signs sf .expectile _ (hesVal h α) (dec_hesZ h) ys w hS
      (dec_fitOpt_hes h α hα0 hα1 ys hY hZ) hZ hallowed marg sm hm2
      (hZ _ (dec_marginal_ge (Or.inr ⟨rfl, hα0, hα1⟩) hw hne hpos hm1)) x hxz r hrow

end RealScores

section RealHES2

/-- the effective functional and level of an expectile-type score -/
noncomputable def dec_hesFn (α : ℝ) : Functional × ℝ :=
  if α = 1 / 2 then (Functional.mean, (1 / 2 : ℝ)) else (Functional.expectile, α)

/-- what a scored forecast column and the flag `yminAllowed` say about the data -/
theorem dec_hes_setting {sf : SF ℝ} {h α : ℝ} (hs : dec_IsHES sf h α) {ys : List ℝ}
    {w : Option (List ℝ)} (hallowed : dec_yminAllowed sf ys w = true) (hne : ys ≠ [])
    {x : List ℝ} {s : ℝ} (hsc : sfMean sf ys x w = .ok s) :
    (∀ y ∈ ys, dec_hesY h y) ∧ (∀ z ∈ x, dec_hesZ h z) ∧
    (∀ v, (∃ a ∈ ys, a ≤ v) → dec_hesZ h v) ∧
    (∀ y ∈ ys, ∀ z, dec_hesZ h z → sfPair sf y z = .ok (hesVal h α y z)) := by
  obtain ⟨hX, _, hpairs, _⟩ := dec_sfMean_val hsc
  have hdom : ∀ p ∈ ys.zip x, hesDom h p.1 p.2 := by
    intro p hp
    obtain ⟨v, hv'⟩ := hpairs p hp
    by_contra hn
    rw [(dec_sfPair_hes hs p.1 p.2).2 hn] at hv'
    cases hv'
  have hY : ∀ y ∈ ys, dec_hesY h y := by
    intro y hy
    obtain ⟨i, hi, rfl⟩ := List.getElem_of_mem hy
    have : (ys[i], x[i]'(by omega)) ∈ ys.zip x := by
      rw [List.mem_iff_getElem]
      exact ⟨i, by simp; omega, by simp⟩
    exact ((dec_hesDom_iff h _ _).mp (hdom _ this)).1
  have hxz : ∀ z ∈ x, dec_hesZ h z := by
    intro z hz
    obtain ⟨i, hi, rfl⟩ := List.getElem_of_mem hz
    have : (ys[i]'(by omega), x[i]) ∈ ys.zip x := by
      rw [List.mem_iff_getElem]
      exact ⟨i, by simp; omega, by simp⟩
    exact ((dec_hesDom_iff h _ _).mp (hdom _ this)).2
  have hymin : dec_hesZ h (ys.foldl min ys[0]!) := by
    obtain ⟨v, hv'⟩ := (dec_sfPair_spec sf _ _).1 ((dec_yminAllowed_iff sf ys w).mp hallowed)
    have : hesDom h ys[0]! (ys.foldl min ys[0]!) := by
      by_contra hn
      rw [(dec_sfPair_hes hs _ _).2 hn] at hv'
      cases hv'
    exact ((dec_hesDom_iff h _ _).mp this).2
  refine ⟨hY, hxz, ?_, ?_⟩
  · rintro v ⟨a, ha, hav⟩
    exact dec_hesZ_up hymin (le_trans ((dec_lmin_spec ys hne).2 a ha) hav)
  · exact fun y hy z hz => (dec_sfPair_hes hs y z).1 ((dec_hesDom_iff h y z).mpr ⟨hY y hy, hz⟩)

/-- the isotonic fit of the effective functional minimises the score -/
theorem dec_fitOpt_hes_eff (h α : ℝ) (hα0 : 0 < α) (hα1 : α < 1) (ys : List ℝ)
    (hY : ∀ y ∈ ys, dec_hesY h y) (hZ : ∀ v, (∃ a ∈ ys, a ≤ v) → dec_hesZ h v) :
    dec_FitOpt (dec_hesFn α).1 (dec_hesFn α).2 (hesVal h α) (dec_hesZ h) ys := by
  unfold dec_hesFn
  by_cases ha : α = 1 / 2
  · rw [if_pos ha]
    subst ha
    exact dec_fitOpt_hes_mean h _ ys hY hZ
  · rw [if_neg ha]
    exact dec_fitOpt_hes h α hα0 hα1 ys hY hZ

theorem dec_hesFn_cases (α : ℝ) (hα0 : 0 < α) (hα1 : α < 1) :
    (dec_hesFn α).1 ≠ .median ∧
    ((dec_hesFn α).1 = .mean ∨
      ((dec_hesFn α).1 = .expectile ∧ 0 < (dec_hesFn α).2 ∧ (dec_hesFn α).2 < 1)) := by
  unfold dec_hesFn
  by_cases ha : α = 1 / 2
  · rw [if_pos ha]; exact ⟨by decide, Or.inl rfl⟩
  · rw [if_neg ha]; exact ⟨by simp, Or.inr ⟨rfl, hα0, hα1⟩⟩

/-- **Expectile-type scores at `ℝ`: `mcb = 0` for recalibrated forecasts and `unc` is the best
admissible constant score** -/
theorem dec_hes_zero_and_best {sf : SF ℝ} {h α : ℝ} (hs : dec_IsHES sf h α) (ys : List ℝ)
    (cols : List (List ℝ)) (w : Option (List ℝ)) (rows : List (DecompRow ℝ))
    (hd : decompose sf none none ys cols w = .ok rows)
    (hallowed : dec_yminAllowed sf ys w = true) :
    (∀ i (hi : i < cols.length) (hr : i < rows.length) (X₀ tx₀ ty₀ : List ℝ),
      isoFit (some (dec_hesFn α).1) (dec_hesFn α).2 true X₀ ys w = .ok (tx₀, ty₀) →
      cols[i] = X₀.map (interp tx₀ ty₀) → rows[i].mcb = 0) ∧
    (∀ c s, dec_hesZ h c → sfMean sf ys (ys.map fun _ => c) w = .ok s → ∀ r ∈ rows, r.unc ≤ s) := by
  obtain ⟨hα0, hα1⟩ := dec_IsHES_level hs
  obtain ⟨f, lv', marg, sm, hv, hsh, hm, hrows⟩ := (dec_ok_iff sf none none ys cols w rows).mp hd
  obtain ⟨hm1, hm2⟩ := dec_marginal_ok hm
  obtain ⟨_, _, hne⟩ := (dec_shape_ok ys cols w).mp hsh
  rw [dec_validate_hes hs] at hv
  have hfl : (f, lv') = dec_hesFn α := (Except.ok.inj hv).symm
  obtain ⟨rfl, rfl⟩ := Prod.mk.inj hfl
  obtain ⟨hmed, hcase⟩ := dec_hesFn_cases α hα0 hα1
  constructor
  · intro i hi hr X₀ tx₀ ty₀ h₀ hx
    have hrow := dec_mapM_get hrows i hi hr
    obtain ⟨_, score, _, _, hsc, _, _⟩ := (dec_row_ok sf _ _ ys w sm cols[i] rows[i]).mp hrow
    obtain ⟨hY, _, hZ, hS⟩ := dec_hes_setting hs hallowed hne hsc
    rw [hx] at hrow
    exact dec_row_mcb_zero sf _ _ (hesVal h α) (dec_hesZ h) ys w hS
      (dec_fitOpt_hes_eff h α hα0 hα1 ys hY hZ) hZ hallowed sm X₀ tx₀ ty₀ h₀ rows[i] hrow
  · intro c s hc hs' r hr
    obtain ⟨x, hx, hrow⟩ := dec_mapM_mem hrows hr
    obtain ⟨recal, score, _, hrec, hsc, _, he⟩ := (dec_row_ok sf _ _ ys w sm x r).mp hrow
    obtain ⟨hY, _, hZ, hS⟩ := dec_hes_setting hs hallowed hne hsc
    obtain ⟨tx, ty, hfit, _⟩ := (dec_recal_ok sf _ _ ys w x recal).mp hrec
    obtain ⟨_, hw, _, hpos⟩ := dec_isoFit_ok_data hfit
    have hmd : dec_hesZ h marg := hZ _ (dec_marginal_ge hcase hw hne hpos hm1)
    rw [he]
    exact dec_unc_best_const sf _ _ hmed (hesVal h α) (dec_hesZ h) ys w hS
      (dec_fitOpt_hes_eff h α hα0 hα1 ys hY hZ) marg sm hm1 hm2 hmd x r hrow c s hc hs'

end RealHES2

/-! ### the quantile fit minimises every order-sensitive score of the quantile -/

section QuantGeneral
variable {K : Type} [Field K] [LinearOrder K] [IsStrictOrderedRing K]

/-- an order-sensitive score of the (restricted) lower quantile is constant on the quantile
interval `[qLower, qUpper]` of a block -/
theorem dec_quant_flat (α : K) (hα0 : 0 < α) (hα1 : α < 1) (P : Obs K → Prop)
    (Sc : OSScore (dec_restrict (quantFun α hα0 hα1) P)) (d : List (Obs K)) (hne : d ≠ [])
    (hP : ∀ o ∈ d, P o) (c : K) (h1 : qLower α d ≤ c) (h2 : c ≤ qUpper α d)
    (hdq : Sc.dom (qLower α d)) (hdc : Sc.dom c) :
    (d.map (Sc.S · c)).sum = (d.map (Sc.S · (qLower α d))).sum := by
  have hok : ∀ o ∈ d, (dec_restrict (quantFun α hα0 hα1) P).ok o := fun o ho => ⟨trivial, hP o ho⟩
  have hψ := Sc.ψ_mono _ _ hdq hdc h1
  -- moving right from `qLower` to `c`
  have hu := sum_map_le_sum_map
    (fun o => ((if o.1 ≤ qLower α d then (1:K) else 0) - α) * (Sc.ψ c - Sc.ψ (qLower α d)))
    (fun o => Sc.S o c - Sc.S o (qLower α d)) d
    (fun o ho => Sc.up o (qLower α d) c (hok o ho) hdq hdc h1)
  rw [sum_map_mul_const, sum_map_sub' (fun o => Sc.S o c) (fun o => Sc.S o (qLower α d))] at hu
  have eu := Esum_quant α d (qLower α d)
  simp only [Esum] at eu
  rw [eu] at hu
  -- moving left from `c` to `qLower`
  have hd := sum_map_le_sum_map
    (fun o => ((if o.1 < c then (1:K) else 0) - α) * (Sc.ψ (qLower α d) - Sc.ψ c))
    (fun o => Sc.S o (qLower α d) - Sc.S o c) d
    (fun o ho => Sc.dn o c (qLower α d) (hok o ho) hdc hdq h1)
  rw [sum_map_mul_const, sum_map_sub' (fun o => Sc.S o (qLower α d)) (fun o => Sc.S o c)] at hd
  have ed := Esum_quant_m α d c
  simp only [Esum] at ed
  rw [ed] at hd
  have ha := qLower_cnt α hα1 d hne
  have hc := cntLt_le_of_le_qUpper α hα0 d hne c h2
  have p1 : 0 ≤ ((cntLe d (qLower α d) : K) - α * (d.length : K)) * (Sc.ψ c - Sc.ψ (qLower α d)) :=
    mul_nonneg (by linarith) (by linarith)
  have p2 : 0 ≤ ((cntLt d c : K) - α * (d.length : K)) * (Sc.ψ (qLower α d) - Sc.ψ c) :=
    mul_nonneg_of_nonpos_of_nonpos (by linarith) (by linarith)
  apply le_antisymm <;> linarith

/-- **the quantile fit (mid-quantiles of the lower-quantile PAVA blocks) minimises every
order-sensitive score of the quantile** over the non-decreasing admissible sequences -/
theorem dec_quantileFit_optimal (α : K) (hα0 : 0 < α) (hα1 : α < 1) (P : Obs K → Prop)
    (Sc : OSScore (dec_restrict (quantFun α hα0 hα1) P)) (ys : List (Obs K))
    (hP : ∀ o ∈ ys, P o) (hdom : ∀ v, (∃ o ∈ ys, o.1 ≤ v) → Sc.dom v)
    (zs : List K) (hlen : ys.length = zs.length) (hzd : ∀ z ∈ zs, Sc.dom z)
    (hsort : zs.Pairwise (· ≤ ·)) :
    total Sc.S ys (quantileFit α ys).1 ≤ total Sc.S ys zs := by
  obtain ⟨hg, hs, hflat⟩ := gpava_quant_spec α hα0 hα1 ys
  obtain ⟨_, hf⟩ := qMids_spec α hα0 hα1 _ hg hs
  have hsub : ∀ b ∈ gpava (qLower α) ys, ∀ o ∈ b.data, o ∈ ys := by
    intro b hb o ho
    rw [← hflat]
    exact List.mem_flatMap.mpr ⟨b, hb, ho⟩
  have hdl : ∀ b ∈ gpava (qLower α) ys, Sc.dom (qLower α b.data) := by
    intro b hb
    obtain ⟨o, ho, he⟩ := List.mem_map.mp (qLower_mem α hα1 b.data (hg b hb).1)
    exact hdom _ ⟨o, hsub b hb o ho, by rw [he]⟩
  have hfl : List.Forall₂ (fun b m => (b.data.map (Sc.S · m)).sum
      = (b.data.map (Sc.S · b.val)).sum)
      (gpava (qLower α) ys) (qMids α (gpava (qLower α) ys)) :=
    forall₂_imp_mem hf (fun b hb m h => by
      rw [(hg b hb).2]
      refine dec_quant_flat α hα0 hα1 P Sc b.data (hg b hb).1
        (fun o ho => hP o (hsub b hb o ho)) m h.1 h.2 (hdl b hb) ?_
      obtain ⟨o, ho, he⟩ := List.mem_map.mp (qLower_mem α hα1 b.data (hg b hb).1)
      exact hdom _ ⟨o, hsub b hb o ho, by rw [he]; exact h.1⟩)
  have key := total_bexp_eq Sc.S hfl
  rw [hflat] at key
  rw [quantileFit_fst, key]
  refine fit_optimal Sc ys (fun o ho => ⟨trivial, hP o ho⟩) ?_ zs hlen hzd hsort
  intro b hb
  have hb' : b ∈ gpava (qLower α) ys := hb
  rw [(hg b hb').2]
  exact hdl b hb'

end QuantGeneral

section QuantOpt
variable {K : Type} [Field K] [LinearOrder K] [IsStrictOrderedRing K]

/-- **generic instance of `dec_FitOpt` for the quantile** -/
theorem dec_fitOpt_of_quantile (α : K) (hα0 : 0 < α) (hα1 : α < 1) (P : Obs K → Prop)
    (Sc : OSScore (dec_restrict (quantFun α hα0 hα1) P)) (S : K → K → K)
    (hS : ∀ o z, Sc.S o z = S o.1 z) (ys : List K) (hP : ∀ y ∈ ys, ∀ v, P (y, v))
    (hdom : ∀ v, (∃ a ∈ ys, a ≤ v) → Sc.dom v) : dec_FitOpt .quantile α S Sc.dom ys := by
  intro y wopt yiso r hr hmem zs hz hs hzd
  cases wopt with
  | some wl =>
    rw [isoReg_quantile_weighted α hα0 hα1] at hr
    cases hr
  | none =>
    have hne : y ≠ [] := by
      obtain ⟨v, hv, _, _⟩ := isoReg_inv hr
      exact (eqValidate_ok hv).1
    have hx := isoReg_quantile_x hα0 hα1 hne hr
    simp only [orient_true] at hx
    have hone : ∀ zs' : List K,
        total (dec_wS S) (y.zip (dec_wts y none)) zs' = total Sc.S (y.zip (dec_wts y none)) zs' := by
      intro zs'
      apply dec_total_congr
      intro o ho z
      have h2 : o.2 ∈ dec_wts y none := (List.of_mem_zip (a := o.1) (b := o.2) ho).2
      obtain ⟨_, _, h1⟩ := List.mem_map.mp h2
      show o.2 * _ = _
      rw [← h1, one_mul, hS]
    rw [hone, hone, hx]
    refine dec_quantileFit_optimal α hα0 hα1 P Sc _ ?_ ?_ zs
      (by rw [zip_length_of_eq (by simp [dec_wts]), hz]) hzd hs
    · intro o ho
      have := hP o.1 (hmem _ (List.of_mem_zip (a := o.1) (b := o.2) ho).1) o.2
      exact this
    · rintro v ⟨o, ho, hle⟩
      exact hdom v ⟨o.1, hmem _ (List.of_mem_zip (a := o.1) (b := o.2) ho).1, hle⟩

end QuantOpt
section RealHQS

/-- the homogeneous quantile score of degree `h`, level `α`, as an order-sensitive score for the
`α`-quantile (observations restricted to the score's domain) -/
noncomputable def dec_hqsScore (h α : ℝ) (hα0 : 0 < α) (hα1 : α < 1) :
    OSScore (dec_restrict (quantFun α hα0 hα1) (fun o => gDom h o.1)) where
  S o z := hqsVal h α o.1 z
  ψ z := gfun h z
  dom z := gDom h z
  ψ_mono := by
    intro a b ha hb hab
    exact gfun_le ((hqsDom_iff h a b).mpr ⟨ha, hb⟩) hab
  up := by
    intro o t c ho ht hc htc
    exact cons_hqs_up ((hqsDom_iff h o.1 t).mpr ⟨ho.2, ht⟩) ((hqsDom_iff h o.1 c).mpr ⟨ho.2, hc⟩) htc
  dn := by
    intro o t c ho ht hc hct
    exact cons_hqs_dn ((hqsDom_iff h o.1 t).mpr ⟨ho.2, ht⟩) ((hqsDom_iff h o.1 c).mpr ⟨ho.2, hc⟩) hct

theorem dec_gDom_up {h a v : ℝ} (ha : gDom h a) (hav : a ≤ v) : gDom h v := by
  rcases ha with h1 | h1 | h1
  · exact Or.inl h1
  · exact Or.inr (Or.inl h1)
  · exact Or.inr (Or.inr (lt_of_lt_of_le h1 hav))

/-- **every homogeneous quantile score is minimised by the quantile fit** -/
theorem dec_fitOpt_hqs (h α : ℝ) (hα0 : 0 < α) (hα1 : α < 1) (ys : List ℝ)
    (hY : ∀ y ∈ ys, gDom h y) (hZ : ∀ v, (∃ a ∈ ys, a ≤ v) → gDom h v) :
    dec_FitOpt .quantile α (hqsVal h α) (gDom h) ys :=
  dec_fitOpt_of_quantile α hα0 hα1 _ (dec_hqsScore h α hα0 hα1) _ (fun _ _ => rfl) ys
    (fun y hy _ => hY y hy) hZ

/-- `sf` is `HomogeneousQuantileScore(degree=h, level=α)` or `PinballLoss(level=α)` (`h = 1`) -/
def dec_IsHQS (sf : SF ℝ) (h α : ℝ) : Prop :=
  sf.elem = none ∧ α = sf.α ∧ 0 < sf.α ∧ sf.α < 1 ∧
    ((sf.kind = .hqs ∧ h = sf.h) ∨ (sf.kind = .pinball ∧ h = 1))

theorem dec_sfPair_hqs {sf : SF ℝ} {h α : ℝ} (hs : dec_IsHQS sf h α) (y z : ℝ) :
    (hqsDom h y z → sfPair sf y z = .ok (hqsVal h α y z)) ∧
    (¬ hqsDom h y z → sfPair sf y z = .error .valueError) := by
  obtain ⟨he, rfl, h0, h1, hk⟩ := hs
  unfold sfPair
  rw [he]
  simp only
  rcases hk with ⟨hk, rfl⟩ | ⟨hk, rfl⟩
  · rw [hk]
    show (hqsDom _ y z → (if levelOk sf.α then hqs sf.h sf.α y z else throw Err.valueError) = _) ∧
      (¬ hqsDom _ y z → (if levelOk sf.α then hqs sf.h sf.α y z else throw Err.valueError) = _)
    rw [if_pos (show levelOk sf.α from ⟨h0, h1⟩)]
    exact ⟨fun d => hqs_closed' d, fun d => hqs_err d⟩
  · rw [hk]
    show (hqsDom _ y z → (if levelOk sf.α then hqs 1 sf.α y z else throw Err.valueError) = _) ∧
      (¬ hqsDom _ y z → (if levelOk sf.α then hqs 1 sf.α y z else throw Err.valueError) = _)
    rw [if_pos (show levelOk sf.α from ⟨h0, h1⟩)]
    exact ⟨fun d => hqs_closed' d, fun d => hqs_err d⟩

theorem dec_validate_hqs {sf : SF ℝ} {h α : ℝ} (hs : dec_IsHQS sf h α) :
    dec_validate sf none none = .ok (Functional.quantile, α) := by
  obtain ⟨he, rfl, h0, h1, hk⟩ := hs
  have hf : dec_fn sf none = some .quantile := by
    rcases hk with ⟨hk, _⟩ | ⟨hk, _⟩ <;> simp [dec_fn, sfFunctional, he, hk]
  have hl : dec_lv sf (some .quantile) none = .ok sf.α := by
    rcases hk with ⟨hk, _⟩ | ⟨hk, _⟩ <;> simp [dec_lv, sfLevel, he, hk] <;> rfl
  unfold dec_validate
  rw [hf, hl]
  have hc : ¬ ((Functional.quantile = .expectile ∨ Functional.quantile = .quantile) ∧
      (sf.α ≤ 0 ∨ 1 ≤ sf.α)) := by
    rintro ⟨_, h | h⟩
    · exact absurd h0 (not_lt.mpr h)
    · exact absurd h1 (not_lt.mpr h)
  show (if _ then _ else _) = _
  rw [if_neg hc]
  rfl

/-- what a scored forecast column and the flag `yminAllowed` say about the data -/
theorem dec_hqs_setting {sf : SF ℝ} {h α : ℝ} (hs : dec_IsHQS sf h α) {ys : List ℝ}
    {w : Option (List ℝ)} (hallowed : dec_yminAllowed sf ys w = true) (hne : ys ≠ [])
    {x : List ℝ} {s : ℝ} (hsc : sfMean sf ys x w = .ok s) :
    (∀ y ∈ ys, gDom h y) ∧ (∀ z ∈ x, gDom h z) ∧
    (∀ v, (∃ a ∈ ys, a ≤ v) → gDom h v) ∧
    (∀ y ∈ ys, ∀ z, gDom h z → sfPair sf y z = .ok (hqsVal h α y z)) := by
  obtain ⟨hX, _, hpairs, _⟩ := dec_sfMean_val hsc
  have hdom : ∀ p ∈ ys.zip x, hqsDom h p.1 p.2 := by
    intro p hp
    obtain ⟨v, hv'⟩ := hpairs p hp
    by_contra hn
    rw [(dec_sfPair_hqs hs p.1 p.2).2 hn] at hv'
    cases hv'
  have hY : ∀ y ∈ ys, gDom h y := by
    intro y hy
    obtain ⟨i, hi, rfl⟩ := List.getElem_of_mem hy
    have : (ys[i], x[i]'(by omega)) ∈ ys.zip x := by
      rw [List.mem_iff_getElem]
      exact ⟨i, by simp; omega, by simp⟩
    exact ((hqsDom_iff h _ _).mp (hdom _ this)).1
  have hxz : ∀ z ∈ x, gDom h z := by
    intro z hz
    obtain ⟨i, hi, rfl⟩ := List.getElem_of_mem hz
    have : (ys[i]'(by omega), x[i]) ∈ ys.zip x := by
      rw [List.mem_iff_getElem]
      exact ⟨i, by simp; omega, by simp⟩
    exact ((hqsDom_iff h _ _).mp (hdom _ this)).2
  have hymin : gDom h (ys.foldl min ys[0]!) := by
    obtain ⟨v, hv'⟩ := (dec_sfPair_spec sf _ _).1 ((dec_yminAllowed_iff sf ys w).mp hallowed)
    have : hqsDom h ys[0]! (ys.foldl min ys[0]!) := by
      by_contra hn
      rw [(dec_sfPair_hqs hs _ _).2 hn] at hv'
      cases hv'
    exact ((hqsDom_iff h _ _).mp this).2
  refine ⟨hY, hxz, ?_, ?_⟩
  · rintro v ⟨a, ha, hav⟩
    exact dec_gDom_up hymin (le_trans ((dec_lmin_spec ys hne).2 a ha) hav)
  · exact fun y hy z hz => (dec_sfPair_hqs hs y z).1 ((hqsDom_iff h y z).mpr ⟨hY y hy, hz⟩)

/-- the marginal mid-quantile is not below the smallest observation -/
theorem dec_marginal_quantile_ge {lv : ℝ} (h0 : 0 < lv) (h1 : lv < 1) {ys : List ℝ}
    {w : Option (List ℝ)} {marg : ℝ} (hne : ys ≠ [])
    (h : functionalVal .quantile lv ys w = .ok marg) : ∃ a ∈ ys, a ≤ marg := by
  simp only [functionalVal] at h
  have hm := (Except.ok.inj h).symm
  have hdne : obsOf ys none ≠ [] := by
    simp only [obsOf]
    intro he
    exact hne (List.map_eq_nil_iff.mp he)
  obtain ⟨o, ho, he⟩ := List.mem_map.mp (qLower_mem lv h1 (obsOf ys none) hdne)
  have hle := (mid_between (qLower_le_qUpper lv h0 h1 (obsOf ys none) hdne)).1
  refine ⟨o.1, ?_, by rw [hm, he]; exact hle⟩
  simp only [obsOf] at ho
  obtain ⟨y, hy, rfl⟩ := List.mem_map.mp ho
  exact hy

/-- **The homogeneous quantile scores (pinball loss included) at `ℝ`**: `mcb ≥ 0`, `dsc ≥ 0`,
`mcb = 0` for recalibrated forecasts, `unc` is the best admissible constant score — whenever
`min y` is an admissible prediction -/
theorem dec_hqs_all {sf : SF ℝ} {h α : ℝ} (hs : dec_IsHQS sf h α) (ys : List ℝ)
    (cols : List (List ℝ)) (w : Option (List ℝ)) (rows : List (DecompRow ℝ))
    (hd : decompose sf none none ys cols w = .ok rows)
    (hallowed : dec_yminAllowed sf ys w = true) :
    (∀ r ∈ rows, 0 ≤ r.mcb ∧ 0 ≤ r.dsc) ∧
    (∀ i (hi : i < cols.length) (hr : i < rows.length) (X₀ tx₀ ty₀ : List ℝ),
      isoFit (some .quantile) α true X₀ ys w = .ok (tx₀, ty₀) →
      cols[i] = X₀.map (interp tx₀ ty₀) → rows[i].mcb = 0) ∧
    (∀ c s, gDom h c → sfMean sf ys (ys.map fun _ => c) w = .ok s → ∀ r ∈ rows, r.unc ≤ s) := by
  have hα0 : 0 < α := by rw [hs.2.1]; exact hs.2.2.1
  have hα1 : α < 1 := by rw [hs.2.1]; exact hs.2.2.2.1
  obtain ⟨f, lv', marg, sm, hv, hsh, hm, hrows⟩ := (dec_ok_iff sf none none ys cols w rows).mp hd
  obtain ⟨hm1, hm2⟩ := dec_marginal_ok hm
  obtain ⟨_, _, hne⟩ := (dec_shape_ok ys cols w).mp hsh
  rw [dec_validate_hqs hs] at hv
  obtain ⟨rfl, rfl⟩ := Prod.mk.inj (Except.ok.inj hv)
  have hmge := dec_marginal_quantile_ge hα0 hα1 hne hm1
  refine ⟨?_, ?_, ?_⟩
  · intro r hr
    obtain ⟨x, hx, hrow⟩ := dec_mapM_mem hrows hr
    obtain ⟨_, _, _, _, hsc, _, _⟩ := (dec_row_ok sf _ _ ys w sm x r).mp hrow
    obtain ⟨hY, hxz, hZ, hS⟩ := dec_hqs_setting hs hallowed hne hsc
    exact dec_row_signs sf .quantile α (hqsVal h α) (gDom h) ys w hS
      (dec_fitOpt_hqs h α hα0 hα1 ys hY hZ) hZ hallowed marg sm hm2 (hZ _ hmge) x hxz r hrow
  · intro i hi hr X₀ tx₀ ty₀ h₀ hx
    have hrow := dec_mapM_get hrows i hi hr
    obtain ⟨_, _, _, _, hsc, _, _⟩ := (dec_row_ok sf _ _ ys w sm cols[i] rows[i]).mp hrow
    obtain ⟨hY, _, hZ, hS⟩ := dec_hqs_setting hs hallowed hne hsc
    rw [hx] at hrow
    exact dec_row_mcb_zero sf _ _ (hqsVal h α) (gDom h) ys w hS
      (dec_fitOpt_hqs h α hα0 hα1 ys hY hZ) hZ hallowed sm X₀ tx₀ ty₀ h₀ rows[i] hrow
  · intro c s hc hs' r hr
    obtain ⟨x, hx, hrow⟩ := dec_mapM_mem hrows hr
    obtain ⟨_, _, _, _, hsc, _, he⟩ := (dec_row_ok sf _ _ ys w sm x r).mp hrow
    obtain ⟨hY, _, hZ, hS⟩ := dec_hqs_setting hs hallowed hne hsc
    rw [he]
    exact dec_unc_best_const sf _ _ (by decide) (hqsVal h α) (gDom h) ys w hS
      (dec_fitOpt_hqs h α hα0 hα1 ys hY hZ) marg sm hm1 hm2 (hZ _ hmge) x r hrow c s hc hs'

end RealHQS

/-! ### `ElementaryScore` (any ordered field: no `ScoreOps` operation is called) -/

section Elem
variable {K : Type} [Field K] [LinearOrder K] [IsStrictOrderedRing K]

/-- the per-pair value of `ElementaryScore(eta=η, functional=f, level=α)` -/
def dec_elemVal (f : Functional) (α η y z : K) : K :=
  (leInd η z - leInd η y) *
    (match f with
      | .mean => η - y
      | .median => (if y < η then 1 else 0) - half
      | .expectile => two * absK (geInd η y - α) * (η - y)
      | .quantile => (if y < η then 1 else 0) - α)

theorem dec_elemScore_ok (f : Functional) (α η y z : K) (hα0 : 0 < α) (hα1 : α < 1) :
    elemScore (some f) α η y z = .ok (dec_elemVal f α η y z) := by
  have hc : ¬ (α ≤ 0 ∨ 1 ≤ α) := by
    rintro (h | h)
    · exact absurd hα0 (not_lt.mpr h)
    · exact absurd hα1 (not_lt.mpr h)
  unfold elemScore dec_elemVal
  rw [if_neg hc]
  cases f <;> simp [identFn, hc] <;> rfl

theorem dec_leInd_step (η t c : K) (htc : t ≤ c) :
    (leInd η c - leInd η t = 0) ∨ (t < η ∧ η ≤ c ∧ leInd η c - leInd η t = 1) := by
  unfold leInd
  by_cases h1 : η ≤ t
  · rw [if_pos h1, if_pos (le_trans h1 htc)]; left; ring
  · by_cases h2 : η ≤ c
    · rw [if_neg h1, if_pos h2]; right; exact ⟨not_le.mp h1, h2, by ring⟩
    · rw [if_neg h1, if_neg h2]; left; ring

theorem dec_leInd_mono (η : K) {a b : K} (h : a ≤ b) : leInd η a ≤ leInd η b := by
  rcases dec_leInd_step η a b h with h0 | ⟨_, _, h1⟩ <;> linarith

/-- elementary score of the mean -/
def dec_elemMean (α η : K) : OSScore (meanFun (K := K)) where
  S o z := o.2 * dec_elemVal .mean α η o.1 z
  ψ z := leInd η z
  dom _ := True
  ψ_mono := fun _ _ _ _ h => dec_leInd_mono η h
  up := by
    intro o t c ho _ _ htc
    have hw : 0 < o.2 := ho
    simp only [meanFun, dec_elemVal]
    rcases dec_leInd_step η t c htc with h0 | ⟨h1, _, h2⟩
    · have : leInd η c = leInd η t := by linarith
      rw [this]; simp
    · have e : o.2 * ((leInd η c - leInd η o.1) * (η - o.1)) - o.2 * ((leInd η t - leInd η o.1) * (η - o.1))
          = o.2 * (η - o.1) * (leInd η c - leInd η t) := by ring
      rw [e, h2]
      nlinarith
  dn := by
    intro o t c ho _ _ hct
    have hw : 0 < o.2 := ho
    simp only [meanFun, dec_elemVal]
    rcases dec_leInd_step η c t hct with h0 | ⟨h1, h3, h2⟩
    · have : leInd η c = leInd η t := by linarith
      rw [this]; simp
    · have e : o.2 * ((leInd η c - leInd η o.1) * (η - o.1)) - o.2 * ((leInd η t - leInd η o.1) * (η - o.1))
          = - (o.2 * (η - o.1) * (leInd η t - leInd η c)) := by ring
      have e' : leInd η c - leInd η t = -1 := by linarith
      rw [e, h2, e']
      nlinarith

theorem dec_absK_eWeight (α : K) (hα0 : 0 < α) (hα1 : α < 1) (η : K) (o : Obs K) :
    absK (geInd η o.1 - α) = eWeight α η o := by
  unfold absK geInd eWeight
  by_cases h : o.1 ≤ η
  · rw [if_pos h, if_pos h, if_neg (by linarith)]
  · rw [if_neg h, if_neg h, if_pos (by linarith)]; ring

/-- elementary score of the expectile -/
def dec_elemExpectile (α : K) (hα0 : 0 < α) (hα1 : α < 1) (η : K) :
    OSScore (expectileFun α hα0 hα1) where
  S o z := o.2 * dec_elemVal .expectile α η o.1 z
  ψ z := two * leInd η z
  dom _ := True
  ψ_mono := fun _ _ _ _ h => by
    have := dec_leInd_mono η h
    have h2 : (0 : K) ≤ two := by unfold two; linarith
    exact mul_le_mul_of_nonneg_left this h2
  up := by
    intro o t c ho _ _ htc
    have hw : 0 < o.2 := ho
    simp only [expectileFun, dec_elemVal, dec_absK_eWeight α hα0 hα1]
    have h2 : (two : K) = 2 := by unfold two; norm_num
    rw [h2]
    rcases dec_leInd_step η t c htc with h0 | ⟨h1, _, h3⟩
    · have : leInd η c = leInd η t := by linarith
      rw [this]; simp
    · have m := (eTerm_lt α hα0 hα1 o hw h1).le
      have e : o.2 * ((leInd η c - leInd η o.1) * (2 * eWeight α η o * (η - o.1)))
          - o.2 * ((leInd η t - leInd η o.1) * (2 * eWeight α η o * (η - o.1)))
          = 2 * (o.2 * eWeight α η o * (η - o.1)) * (leInd η c - leInd η t) := by ring
      have e' : 2 * leInd η c - 2 * leInd η t = 2 * (leInd η c - leInd η t) := by ring
      rw [e, e', h3]
      linarith
  dn := by
    intro o t c ho _ _ hct
    have hw : 0 < o.2 := ho
    simp only [expectileFun, dec_elemVal, dec_absK_eWeight α hα0 hα1]
    have h2 : (two : K) = 2 := by unfold two; norm_num
    rw [h2]
    rcases dec_leInd_step η c t hct with h0 | ⟨h1, h4, h3⟩
    · have : leInd η c = leInd η t := by linarith
      rw [this]; simp
    · have m : o.2 * eWeight α η o * (η - o.1) ≤ o.2 * eWeight α t o * (t - o.1) := by
        rcases eq_or_lt_of_le h4 with he | hl
        · rw [he]
        · exact (eTerm_lt α hα0 hα1 o hw hl).le
      have e : o.2 * ((leInd η c - leInd η o.1) * (2 * eWeight α η o * (η - o.1)))
          - o.2 * ((leInd η t - leInd η o.1) * (2 * eWeight α η o * (η - o.1)))
          = - (2 * (o.2 * eWeight α η o * (η - o.1)) * (leInd η t - leInd η c)) := by ring
      have e' : 2 * leInd η c - 2 * leInd η t = -(2 * (leInd η t - leInd η c)) := by ring
      rw [e, e', h3]
      linarith

/-- elementary score of the quantile (with the strict convention `1{y < η}` of the code) -/
def dec_elemQuantile (α : K) (hα0 : 0 < α) (hα1 : α < 1) (η : K) :
    OSScore (dec_restrict (quantFun α hα0 hα1) (fun _ => True)) where
  S o z := dec_elemVal .quantile α η o.1 z
  ψ z := leInd η z
  dom _ := True
  ψ_mono := fun _ _ _ _ h => dec_leInd_mono η h
  up := by
    intro o t c _ _ _ htc
    simp only [dec_restrict, quantFun, dec_elemVal]
    rcases dec_leInd_step η t c htc with h0 | ⟨h1, _, h3⟩
    · have : leInd η c = leInd η t := by linarith
      rw [this]; simp
    · have e : (leInd η c - leInd η o.1) * ((if o.1 < η then 1 else 0) - α)
          - (leInd η t - leInd η o.1) * ((if o.1 < η then 1 else 0) - α)
          = ((if o.1 < η then (1 : K) else 0) - α) * (leInd η c - leInd η t) := by ring
      rw [e, h3, mul_one, mul_one]
      by_cases hy : o.1 ≤ t
      · rw [if_pos hy, if_pos (lt_of_le_of_lt hy h1)]
      · rw [if_neg hy]
        split_ifs <;> linarith
  dn := by
    intro o t c _ _ _ hct
    simp only [dec_restrict, quantFun, dec_elemVal]
    rcases dec_leInd_step η c t hct with h0 | ⟨h1, h4, h3⟩
    · have : leInd η c = leInd η t := by linarith
      rw [this]; simp
    · have e : (leInd η c - leInd η o.1) * ((if o.1 < η then 1 else 0) - α)
          - (leInd η t - leInd η o.1) * ((if o.1 < η then 1 else 0) - α)
          = - (((if o.1 < η then (1 : K) else 0) - α) * (leInd η t - leInd η c)) := by ring
      have e' : leInd η c - leInd η t = -1 := by linarith
      rw [e, e', h3, mul_one]
      by_cases hy : o.1 < η
      · rw [if_pos hy, if_pos (lt_of_lt_of_le hy h4)]; linarith
      · rw [if_neg hy]
        split_ifs <;> linarith

/-- the effective functional and level `decompose` infers for an elementary score -/
def dec_elemEff (f₀ : Functional) (α : K) : Functional × K :=
  match f₀ with
  | .mean => (.mean, half)
  | .median => (.quantile, half)
  | .expectile => (.expectile, α)
  | .quantile => (.quantile, α)

/-- **every elementary score is minimised by the isotonic fit of its functional** -/
theorem dec_elem_fitOpt (f₀ : Functional) (α η : K) (hα0 : 0 < α) (hα1 : α < 1) (ys : List K) :
    dec_FitOpt (dec_elemEff f₀ α).1 (dec_elemEff f₀ α).2 (dec_elemVal f₀ α η) (fun _ => True) ys := by
  cases f₀ with
  | mean =>
    exact dec_fitOpt_of_gpava (dec_elemMean α η) (dec_gpavaFit_mean half) _ (fun _ _ => rfl) ys
      (fun _ _ _ hv => hv) (fun _ _ => trivial)
  | median =>
    exact dec_fitOpt_of_quantile half half_pos' half_lt_one (fun _ => True)
      (dec_elemQuantile half half_pos' half_lt_one η) _ (fun _ _ => rfl) ys (fun _ _ _ => trivial)
      (fun _ _ => trivial)
  | expectile =>
    exact dec_fitOpt_of_gpava (dec_elemExpectile α hα0 hα1 η) (dec_gpavaFit_expectile α hα0 hα1) _
      (fun _ _ => rfl) ys (fun _ _ _ hv => hv) (fun _ _ => trivial)
  | quantile =>
    exact dec_fitOpt_of_quantile α hα0 hα1 (fun _ => True) (dec_elemQuantile α hα0 hα1 η) _
      (fun _ _ => rfl) ys (fun _ _ _ => trivial) (fun _ _ => trivial)

end Elem

section ElemSF
variable {K : Type} [Field K] [LinearOrder K] [IsStrictOrderedRing K] [ScoreOps K] [Inhabited K]

omit [Inhabited K] in
theorem dec_sfPair_elem (sf : SF K) (f₀ : Functional) (η : K) (he : sf.elem = some (some f₀, η))
    (hα0 : 0 < sf.α) (hα1 : sf.α < 1) (y z : K) :
    sfPair sf y z = .ok (dec_elemVal f₀ sf.α η y z) := by
  unfold sfPair
  rw [he]
  exact dec_elemScore_ok f₀ sf.α η y z hα0 hα1

omit [Inhabited K] in
theorem dec_validate_elem (sf : SF K) (f₀ : Functional) (η : K) (he : sf.elem = some (some f₀, η))
    (hα0 : 0 < sf.α) (hα1 : sf.α < 1) :
    dec_validate sf none none = .ok (dec_elemEff f₀ sf.α) := by
  have hf : dec_fn sf none = some f₀ := by simp [dec_fn, sfFunctional, he]
  have hc : ∀ f : Functional, ¬ ((f = .expectile ∨ f = .quantile) ∧ (sf.α ≤ 0 ∨ 1 ≤ sf.α)) := by
    rintro f ⟨_, h | h⟩
    · exact absurd hα0 (not_lt.mpr h)
    · exact absurd hα1 (not_lt.mpr h)
  unfold dec_validate
  rw [hf]
  cases f₀ with
  | mean =>
    have hl : dec_lv sf (some .mean) none = .ok half := rfl
    rw [hl]; rfl
  | median =>
    have hl : dec_lv sf (some .median) none = .ok half := rfl
    rw [hl]; rfl
  | expectile =>
    have hl : dec_lv sf (some .expectile) none = .ok sf.α := by
      simp [dec_lv, sfLevel, he]; rfl
    rw [hl]
    show (if _ then _ else _) = _
    rw [if_neg (hc .expectile)]
    rfl
  | quantile =>
    have hl : dec_lv sf (some .quantile) none = .ok sf.α := by
      simp [dec_lv, sfLevel, he]; rfl
    rw [hl]
    show (if _ then _ else _) = _
    rw [if_neg (hc .quantile)]
    rfl

end ElemSF


/-! ## F. Case weights: aggregation and replication (mean and expectile) -/

section WEquiv
variable {K : Type} [Field K] [LinearOrder K] [IsStrictOrderedRing K] [ScoreOps K] [Inhabited K]

/-- two samples carry the same *weighted* information: every weighted row sum agrees.  Row
permutations, splitting a row's weight over several copies of the row, and (hence) integer weights
versus repeated rows are all instances. -/
def dec_WEquiv (A B : List (Row K)) : Prop :=
  ∀ Φ : K → K → K, (A.map (fun a => a.w * Φ a.x a.y)).sum = (B.map (fun a => a.w * Φ a.x a.y)).sum

omit [ScoreOps K] [Inhabited K] in
theorem dec_WEquiv.symm {A B : List (Row K)} (h : dec_WEquiv A B) : dec_WEquiv B A :=
  fun Φ => (h Φ).symm

omit [ScoreOps K] [Inhabited K] in
theorem dec_WEquiv_of_perm {A B : List (Row K)} (h : A.Perm B) : dec_WEquiv A B :=
  fun _ => (h.map _).sum_eq

omit [ScoreOps K] [Inhabited K] in
/-- with positive weights the two samples have the same forecast values … -/
theorem dec_WEquiv.mem_x {A B : List (Row K)} (h : dec_WEquiv A B)
    (hB : ∀ a ∈ B, 0 < a.w) {b : Row K} (hb : b ∈ B) : ∃ a ∈ A, a.x = b.x := by
  by_contra hcon
  have h0 : (A.map (fun a => a.w * (if a.x = b.x then (1 : K) else 0))).sum = 0 := by
    apply List.sum_eq_zero
    intro t ht
    obtain ⟨a, ha, rfl⟩ := List.mem_map.mp ht
    rw [if_neg (fun he => hcon ⟨a, ha, he⟩), mul_zero]
  have h1 := h (fun x _ => if x = b.x then (1 : K) else 0)
  rw [h0] at h1
  have hnn : ∀ t ∈ B.map (fun a => a.w * (if a.x = b.x then (1 : K) else 0)), 0 ≤ t := by
    intro t ht
    obtain ⟨a, ha, rfl⟩ := List.mem_map.mp ht
    exact mul_nonneg (hB a ha).le (by split_ifs <;> norm_num)
  have := List.single_le_sum hnn _ (List.mem_map.mpr ⟨b, hb, rfl⟩)
  rw [if_pos rfl, mul_one, ← h1] at this
  exact absurd (hB b hb) (not_lt.mpr this)

omit [ScoreOps K] [Inhabited K] in
/-- … and the same response values -/
theorem dec_WEquiv.mem_y {A B : List (Row K)} (h : dec_WEquiv A B)
    (hB : ∀ a ∈ B, 0 < a.w) {b : Row K} (hb : b ∈ B) : ∃ a ∈ A, a.y = b.y := by
  by_contra hcon
  have h0 : (A.map (fun a => a.w * (if a.y = b.y then (1 : K) else 0))).sum = 0 := by
    apply List.sum_eq_zero
    intro t ht
    obtain ⟨a, ha, rfl⟩ := List.mem_map.mp ht
    rw [if_neg (fun he => hcon ⟨a, ha, he⟩), mul_zero]
  have h1 := h (fun _ y => if y = b.y then (1 : K) else 0)
  rw [h0] at h1
  have hnn : ∀ t ∈ B.map (fun a => a.w * (if a.y = b.y then (1 : K) else 0)), 0 ≤ t := by
    intro t ht
    obtain ⟨a, ha, rfl⟩ := List.mem_map.mp ht
    exact mul_nonneg (hB a ha).le (by split_ifs <;> norm_num)
  have := List.single_le_sum hnn _ (List.mem_map.mpr ⟨b, hb, rfl⟩)
  rw [if_pos rfl, mul_one, ← h1] at this
  exact absurd (hB b hb) (not_lt.mpr this)

omit [ScoreOps K] [Inhabited K] in
/-- the rows of a sample on which a fit succeeds have positive weights -/
theorem dec_rows_pos {X y : List K} {w : Option (List K)} (hX : X.length = y.length)
    (hw : ∀ w', w = some w' → w'.length = y.length) (hpos : ∀ v ∈ dec_wts y w, 0 < v) :
    ∀ a ∈ fit_rows X y w, 0 < a.w := by
  intro a ha
  apply hpos
  rw [← (dec_fit_rows_cols X y w hX hw).2.2]
  exact List.mem_map.mpr ⟨a, ha, rfl⟩

/-- **the average score of a function of the forecast only depends on the weighted information** -/
theorem dec_sfMean_wequiv (sf : SF K) (g : K → K) {X₁ y₁ X₂ y₂ : List K} {w₁ w₂ : Option (List K)}
    (hX₁ : X₁.length = y₁.length) (hX₂ : X₂.length = y₂.length)
    (heq : dec_WEquiv (fit_rows X₁ y₁ w₁) (fit_rows X₂ y₂ w₂)) {s₁ s₂ : K}
    (h₁ : sfMean sf y₁ (X₁.map g) w₁ = .ok s₁) (h₂ : sfMean sf y₂ (X₂.map g) w₂ = .ok s₂) :
    s₁ = s₂ := by
  obtain ⟨_, hw₁, _, e₁⟩ := dec_sfMean_val h₁
  obtain ⟨_, hw₂, _, e₂⟩ := dec_sfMean_val h₂
  rw [e₁, e₂, dec_total_rows _ g X₁ y₁ w₁ hX₁ hw₁, dec_total_rows _ g X₂ y₂ w₂ hX₂ hw₂,
    ← (dec_fit_rows_cols X₁ y₁ w₁ hX₁ hw₁).2.2, ← (dec_fit_rows_cols X₂ y₂ w₂ hX₂ hw₂).2.2]
  have a := heq (fun x y => dec_pairVal sf y (g x))
  have b := heq (fun _ _ => 1)
  simp only [mul_one] at b
  exact congrArg₂ (· / ·) a b

omit [ScoreOps K] [Inhabited K] in
/-- an identifiable functional only depends on the identification sums -/
theorem dec_IdFun_T_esum (F : IdFun K) {d d' : List (Obs K)} (hne : d ≠ []) (hne' : d' ≠ [])
    (hok : ∀ o ∈ d, F.ok o) (hok' : ∀ o ∈ d', F.ok o)
    (hE : ∀ u, Esum F.Vp d u = Esum F.Vp d' u) : F.T d = F.T d' := by
  apply le_antisymm
  · rw [F.spec d hne hok, hE, ← F.spec d' hne' hok']
  · rw [F.spec d' hne' hok', ← hE, ← F.spec d hne hok]

omit [ScoreOps K] [Inhabited K] in
/-- sums over the observations `(y, w)` of a sample are weighted row sums -/
theorem dec_obs_sum (ψ : K → K) (X y : List K) (w : Option (List K)) (hX : X.length = y.length)
    (hw : ∀ w', w = some w' → w'.length = y.length) :
    ((y.zip (dec_wts y w)).map (fun o => o.2 * ψ o.1)).sum
      = ((fit_rows X y w).map (fun a => a.w * ψ a.y)).sum := by
  obtain ⟨_, h2, h3⟩ := dec_fit_rows_cols X y w hX hw
  have e : y.zip (dec_wts y w) = (fit_rows X y w).map (fun a => (a.y, a.w)) := by
    rw [← List.zip_map', h2, h3]
  rw [e, List.map_map]
  rfl

omit [ScoreOps K] in
/-- **the marginal mean / expectile only depends on the weighted information** -/
theorem dec_functionalVal_wequiv {f : Functional} {lv : K} (hf : f = .mean ∨ f = .expectile)
    {X₁ y₁ X₂ y₂ : List K} {w₁ w₂ : Option (List K)} {tx ty tx' ty' : List K}
    (hf₁ : isoFit (some f) lv true X₁ y₁ w₁ = .ok (tx, ty))
    (hf₂ : isoFit (some f) lv true X₂ y₂ w₂ = .ok (tx', ty'))
    (heq : dec_WEquiv (fit_rows X₁ y₁ w₁) (fit_rows X₂ y₂ w₂)) {m₁ m₂ : K}
    (h₁ : functionalVal f lv y₁ w₁ = .ok m₁) (h₂ : functionalVal f lv y₂ w₂ = .ok m₂) :
    m₁ = m₂ := by
  obtain ⟨hX₁, hw₁, hne₁, hpos₁⟩ := dec_isoFit_ok_data hf₁
  obtain ⟨hX₂, hw₂, hne₂, hpos₂⟩ := dec_isoFit_ok_data hf₂
  have hm : f ≠ .median := by rcases hf with rfl | rfl <;> decide
  obtain ⟨hF, hq₁⟩ := dec_isoFit_fitOK hm hf₁
  obtain ⟨_, hq₂⟩ := dec_isoFit_fitOK hm hf₂
  rw [dec_functionalVal_eq hq₁ hw₁ hne₁ hpos₁ h₁, dec_functionalVal_eq hq₂ hw₂ hne₂ hpos₂ h₂]
  have hdne : ∀ {y : List K} {w : Option (List K)}, (∀ w', w = some w' → w'.length = y.length) →
      y ≠ [] → y.zip (dec_wts y w) ≠ [] := by
    intro y w hw hne he
    have hl := congrArg List.length he
    rw [zip_length_of_eq (dec_wts_length y w hw)] at hl
    exact hne (List.length_eq_zero_iff.mp hl)
  have hdpos : ∀ {y : List K} {w : Option (List K)}, (∀ v ∈ dec_wts y w, 0 < v) →
      ∀ o ∈ y.zip (dec_wts y w), 0 < o.2 :=
    fun hpos o ho => hpos _ (List.of_mem_zip (a := o.1) (b := o.2) ho).2
  rcases hf with rfl | rfl
  · show wysum _ / wsum _ = wysum _ / wsum _
    have e1 : ∀ (X y : List K) (w : Option (List K)), X.length = y.length →
        (∀ w', w = some w' → w'.length = y.length) →
        wysum (y.zip (dec_wts y w)) = ((fit_rows X y w).map (fun a => a.w * a.y)).sum := by
      intro X y w hX hw
      rw [← dec_obs_sum (fun v => v) X y w hX hw]
      unfold wysum
      congr 1
      apply List.map_congr_left
      intro o _
      ring
    have e2 : ∀ (X y : List K) (w : Option (List K)), X.length = y.length →
        (∀ w', w = some w' → w'.length = y.length) →
        wsum (y.zip (dec_wts y w)) = ((fit_rows X y w).map (fun a => a.w * 1)).sum := by
      intro X y w hX hw
      rw [← dec_obs_sum (fun _ => 1) X y w hX hw]
      unfold wsum
      congr 1
      apply List.map_congr_left
      intro o _
      ring
    rw [e1 X₁ y₁ w₁ hX₁ hw₁, e1 X₂ y₂ w₂ hX₂ hw₂, e2 X₁ y₁ w₁ hX₁ hw₁, e2 X₂ y₂ w₂ hX₂ hw₂,
      heq (fun _ y => y), heq (fun _ _ => 1)]
  · obtain ⟨h0, h1⟩ := hF.lvl (Or.inl rfl)
    refine dec_IdFun_T_esum (expectileFun lv h0 h1) (hdne hw₁ hne₁) (hdne hw₂ hne₂)
      (hdpos hpos₁) (hdpos hpos₂) ?_
    intro u
    have e : ∀ (X y : List K) (w : Option (List K)), X.length = y.length →
        (∀ w', w = some w' → w'.length = y.length) →
        Esum (expectileFun lv h0 h1).Vp (y.zip (dec_wts y w)) u
          = ((fit_rows X y w).map
              (fun a => a.w * ((if a.y ≤ u then 1 - lv else lv) * (u - a.y)))).sum := by
      intro X y w hX hw
      rw [← dec_obs_sum (fun v => (if v ≤ u then 1 - lv else lv) * (u - v)) X y w hX hw]
      unfold Esum
      congr 1
      apply List.map_congr_left
      intro o _
      simp only [expectileFun, eWeight]
      ring
    rw [e X₁ y₁ w₁ hX₁ hw₁, e X₂ y₂ w₂ hX₂ hw₂]
    exact heq (fun _ y => (if y ≤ u then 1 - lv else lv) * (u - y))

/-- the canonical strictly consistent per-pair score of the mean / an expectile -/
def dec_canon (f : Functional) (α : K) : K → K → K :=
  match f with
  | .expectile => fun y z => (if y ≤ z then 1 - α else α) * ((z - y) * (z - y))
  | _ => fun y z => (z - y) * (z - y)

omit [ScoreOps K] [Inhabited K] in
theorem dec_canon_eq {f : Functional} (α : K) (hf : f = .mean ∨ f = .expectile) (o : Obs K) (z : K) :
    fit_scoreOf (some f) α o z = dec_wS (dec_canon f α) o z := by
  rcases hf with rfl | rfl
  · simp only [fit_scoreOf, dec_wS, dec_canon]; ring
  · simp only [fit_scoreOf, dec_wS, dec_canon, eWeight]; ring

omit [ScoreOps K] [Inhabited K] in
theorem dec_canon_fitOpt {f : Functional} {α : K} (hf : FitOK f α) (hme : f = .mean ∨ f = .expectile)
    (ys : List K) : dec_FitOpt f α (dec_canon f α) (fun _ => True) ys := by
  rcases hme with rfl | rfl
  · exact dec_fitOpt_sq α ys
  · obtain ⟨h0, h1⟩ := hf.lvl (Or.inl rfl)
    exact dec_fitOpt_asymSq α h0 h1 ys

omit [ScoreOps K] in
/-- **uniqueness among functions of the forecast**: a non-decreasing `g` whose canonical total score
on the training rows is not larger than that of the fitted model agrees with the fitted model at
every training forecast -/
theorem dec_recal_unique {f : Functional} {lv : K} (hme : f = .mean ∨ f = .expectile)
    {X y : List K} {w : Option (List K)} {tx ty : List K}
    (h : isoFit (some f) lv true X y w = .ok (tx, ty)) (g : K → K) (hg : Monotone g)
    (hle : total (dec_wS (dec_canon f lv)) (y.zip (dec_wts y w)) (X.map g)
      ≤ total (dec_wS (dec_canon f lv)) (y.zip (dec_wts y w)) (X.map (interp tx ty))) :
    ∀ x ∈ X, g x = interp tx ty x := by
  obtain ⟨hX, hw, _⟩ := fit_isoFit_inv h
  obtain ⟨yiso, r, hr⟩ := fit_isoFit_exists h
  have F := fit_isoFit_fitted h hr
  rw [dec_total_sorted _ _ true X y w hX hw, dec_total_sorted _ _ true X y w hX hw,
    F.train_list] at hle
  have hr' : isoReg (some f) lv true ((fit_sorted true X y w).map (·.y))
      (some ((fit_sorted true X y w).map (·.w))) = .ok (yiso, r) := by
    cases w with
    | some w' => exact hr
    | none =>
      have := dec_sorted_wts true X y none
      simp only [Option.map_none, dec_wts] at this
      simp only [Option.map_none] at hr
      rw [isoReg_weights_none f hme, this] at hr
      exact hr
  have hcong : ∀ zs : List K,
      total (fit_scoreOf (some f) lv)
          (((fit_sorted true X y w).map (·.y)).zip ((fit_sorted true X y w).map (·.w))) zs
        = total (dec_wS (dec_canon f lv))
          (((fit_sorted true X y w).map (·.y)).zip ((fit_sorted true X y w).map (·.w))) zs :=
    fun zs => dec_total_congr _ _ _ zs (fun o _ z => dec_canon_eq lv hme o z)
  have huniq := (fit_weighted_opt_unique hr').2 (((fit_sorted true X y w).map (·.x)).map g)
    (by simp) (by
      rw [monoDir_true, List.pairwise_map]
      exact (fit_sorted_x true _).imp (fun hab => hg hab))
    (by rw [hcong, hcong]; exact hle)
  rw [← F.train_list] at huniq
  intro x hx
  have hxs : x ∈ (fit_sorted true X y w).map (·.x) := by
    have hperm : (fit_sorted true X y w).Perm (fit_rows X y w) := List.mergeSort_perm _ _
    have := (hperm.map (·.x)).mem_iff (a := x)
    rw [(dec_fit_rows_cols X y w hX hw).1] at this
    exact this.mpr hx
  exact List.map_inj_left.mp huniq x hxs

omit [ScoreOps K] in
/-- **the recalibrated forecasts only depend on the weighted information** (mean, expectile): two
weighted-equivalent samples have fitted models that agree on all training forecasts -/
theorem dec_fit_wequiv {f : Functional} {lv : K} (hme : f = .mean ∨ f = .expectile)
    {X₁ y₁ X₂ y₂ : List K} {w₁ w₂ : Option (List K)} {tx₁ ty₁ tx₂ ty₂ : List K}
    (hf₁ : isoFit (some f) lv true X₁ y₁ w₁ = .ok (tx₁, ty₁))
    (hf₂ : isoFit (some f) lv true X₂ y₂ w₂ = .ok (tx₂, ty₂))
    (heq : dec_WEquiv (fit_rows X₁ y₁ w₁) (fit_rows X₂ y₂ w₂)) :
    (∀ x ∈ X₁, interp tx₂ ty₂ x = interp tx₁ ty₁ x) ∧
      (∀ x ∈ X₂, interp tx₂ ty₂ x = interp tx₁ ty₁ x) := by
  obtain ⟨hX₁, hw₁, _, hpos₁⟩ := dec_isoFit_ok_data hf₁
  obtain ⟨hX₂, hw₂, _, hpos₂⟩ := dec_isoFit_ok_data hf₂
  have hm : f ≠ .median := by rcases hme with rfl | rfl <;> decide
  obtain ⟨hF, _⟩ := dec_isoFit_fitOK hm hf₁
  have hopt₁ := dec_canon_fitOpt hF hme y₁
  have hopt₂ := dec_canon_fitOpt hF hme y₂
  have key : ∀ g : K → K,
      total (dec_wS (dec_canon f lv)) (y₁.zip (dec_wts y₁ w₁)) (X₁.map g)
        = total (dec_wS (dec_canon f lv)) (y₂.zip (dec_wts y₂ w₂)) (X₂.map g) := by
    intro g
    rw [dec_total_rows _ g X₁ y₁ w₁ hX₁ hw₁, dec_total_rows _ g X₂ y₂ w₂ hX₂ hw₂]
    exact heq (fun x y => dec_canon f lv y (g x))
  have i2 := dec_recal_le hf₂ hopt₂ (interp tx₁ ty₁) (dec_interp_monotone hf₁) (fun _ _ => trivial)
  have h1 := dec_recal_unique hme hf₁ (interp tx₂ ty₂) (dec_interp_monotone hf₂) (by
    rw [key (interp tx₂ ty₂), key (interp tx₁ ty₁)]; exact i2)
  refine ⟨h1, ?_⟩
  intro x hx
  obtain ⟨k, hk, rfl⟩ := List.getElem_of_mem hx
  have hb : (fit_rows X₂ y₂ w₂)[k]'(by
      have := congrArg List.length (dec_fit_rows_cols X₂ y₂ w₂ hX₂ hw₂).1
      rw [List.length_map] at this; omega) ∈ fit_rows X₂ y₂ w₂ := List.getElem_mem _
  obtain ⟨a, ha, hax⟩ := heq.mem_x (dec_rows_pos hX₂ hw₂ hpos₂) hb
  have hxk : ((fit_rows X₂ y₂ w₂)[k]'(by
      have := congrArg List.length (dec_fit_rows_cols X₂ y₂ w₂ hX₂ hw₂).1
      rw [List.length_map] at this; omega)).x = X₂[k] := by
    have := (dec_fit_rows_cols X₂ y₂ w₂ hX₂ hw₂).1
    have h' := congrArg (fun l => l[k]?) this
    simp only [List.getElem?_map] at h'
    rw [List.getElem?_eq_getElem (by
      have := congrArg List.length (dec_fit_rows_cols X₂ y₂ w₂ hX₂ hw₂).1
      rw [List.length_map] at this; omega), List.getElem?_eq_getElem hk] at h'
    exact Option.some.inj h'
  rw [← hxk, ← hax]
  apply h1
  rw [← (dec_fit_rows_cols X₁ y₁ w₁ hX₁ hw₁).1]
  exact List.mem_map.mpr ⟨a, ha, rfl⟩

/-- **the decomposition only depends on the weighted information** (mean and expectile; one
column; both calls succeed; `min y` admissible, so that no domain repair takes place) -/
theorem dec_decompose_wequiv (sf : SF K) (fn : Option (Option Functional)) (lv : Option K)
    {X₁ y₁ X₂ y₂ : List K} {w₁ w₂ : Option (List K)}
    (heq : dec_WEquiv (fit_rows X₁ y₁ w₁) (fit_rows X₂ y₂ w₂))
    (hfl₁ : dec_yminAllowed sf y₁ w₁ = true) (hfl₂ : dec_yminAllowed sf y₂ w₂ = true)
    {f : Functional} {lv' : K} (hv : dec_validate sf fn lv = .ok (f, lv'))
    (hme : f = .mean ∨ f = .expectile) {r₁ r₂ : DecompRow K}
    (h₁ : decompose sf fn lv y₁ [X₁] w₁ = .ok [r₁]) (h₂ : decompose sf fn lv y₂ [X₂] w₂ = .ok [r₂]) :
    r₁ = r₂ := by
  obtain ⟨f₁, l₁, marg₁, sm₁, hv₁, _, hm₁, hrows₁⟩ := (dec_ok_iff sf fn lv y₁ [X₁] w₁ [r₁]).mp h₁
  obtain ⟨f₂, l₂, marg₂, sm₂, hv₂, _, hm₂, hrows₂⟩ := (dec_ok_iff sf fn lv y₂ [X₂] w₂ [r₂]).mp h₂
  rw [hv] at hv₁ hv₂
  cases hv₁
  cases hv₂
  obtain ⟨rc₁, s₁, sR₁, hrec₁, hs₁, hsR₁, rfl⟩ := (dec_row_ok sf f lv' y₁ w₁ sm₁ X₁ r₁).mp
    (dec_mapM_get hrows₁ 0 (by simp) (by simp))
  obtain ⟨rc₂, s₂, sR₂, hrec₂, hs₂, hsR₂, rfl⟩ := (dec_row_ok sf f lv' y₂ w₂ sm₂ X₂ r₂).mp
    (dec_mapM_get hrows₂ 0 (by simp) (by simp))
  obtain ⟨tx₁, ty₁, hf₁, rfl⟩ := dec_recal_ok_allowed hfl₁ hrec₁
  obtain ⟨tx₂, ty₂, hf₂, rfl⟩ := dec_recal_ok_allowed hfl₂ hrec₂
  obtain ⟨hX₁, _, _, _⟩ := dec_isoFit_ok_data hf₁
  obtain ⟨hX₂, _, _, _⟩ := dec_isoFit_ok_data hf₂
  obtain ⟨_, hg₂⟩ := dec_fit_wequiv hme hf₁ hf₂ heq
  have hrc₂ : X₂.map (interp tx₂ ty₂) = X₂.map (interp tx₁ ty₁) := List.map_congr_left hg₂
  rw [hrc₂] at hsR₂
  obtain ⟨hma₁, hsm₁⟩ := dec_marginal_ok hm₁
  obtain ⟨hma₂, hsm₂⟩ := dec_marginal_ok hm₂
  have emarg : marg₁ = marg₂ := dec_functionalVal_wequiv hme hf₁ hf₂ heq hma₁ hma₂
  subst emarg
  have es : s₁ = s₂ := by
    have a₁ : sfMean sf y₁ (X₁.map id) w₁ = .ok s₁ := by rw [List.map_id]; exact hs₁
    have a₂ : sfMean sf y₂ (X₂.map id) w₂ = .ok s₂ := by rw [List.map_id]; exact hs₂
    exact dec_sfMean_wequiv sf id hX₁ hX₂ heq a₁ a₂
  have esR : sR₁ = sR₂ := dec_sfMean_wequiv sf (interp tx₁ ty₁) hX₁ hX₂ heq hsR₁ hsR₂
  have esm : sm₁ = sm₂ := by
    have a₁ : sfMean sf y₁ (X₁.map fun _ => marg₁) w₁ = .ok sm₁ := by
      rw [List.map_const', hX₁, ← List.map_const']; exact hsm₁
    have a₂ : sfMean sf y₂ (X₂.map fun _ => marg₁) w₂ = .ok sm₂ := by
      rw [List.map_const', hX₂, ← List.map_const']; exact hsm₂
    exact dec_sfMean_wequiv sf (fun _ => marg₁) hX₁ hX₂ heq a₁ a₂
  rw [es, esR, esm]

omit [ScoreOps K] in
/-- lists with the same elements have the same least element -/
theorem dec_lmin_of_mem_iff {l l' : List K} (hne : l ≠ []) (hne' : l' ≠ [])
    (h : ∀ x, x ∈ l ↔ x ∈ l') : l.foldl min l[0]! = l'.foldl min l'[0]! := by
  obtain ⟨h1, h2⟩ := dec_lmin_spec l hne
  obtain ⟨h1', h2'⟩ := dec_lmin_spec l' hne'
  exact le_antisymm (h2 _ ((h _).mpr h1')) (h2' _ ((h _).mp h1))

/-- the `yminAllowed` flags of two samples with the same smallest observation agree when the
forecasts can be scored at all -/
theorem dec_flags_eq' (sf : SF K) {X₁ y₁ X₂ y₂ : List K} {w₁ w₂ : Option (List K)}
    (hne₁ : y₁ ≠ []) (hne₂ : y₂ ≠ [])
    (hymin : y₁.foldl min y₁[0]! = y₂.foldl min y₂[0]!) {s₁ s₂ : K}
    (h₁ : sfMean sf y₁ X₁ w₁ = .ok s₁) (h₂ : sfMean sf y₂ X₂ w₂ = .ok s₂) :
    dec_yminAllowed sf y₁ w₁ = dec_yminAllowed sf y₂ w₂ := by
  have key : ∀ {X y : List K} {w : Option (List K)} {s : K}, y ≠ [] → sfMean sf y X w = .ok s →
      ∃ z, dec_sfOK sf y[0]! z := by
    intro X y w s hy hs
    obtain ⟨hl, _, _, _⟩ := dec_sfMean_val hs
    have hp := dec_sfMean_pairs_ok hs
    cases y with
    | nil => exact absurd rfl hy
    | cons a t =>
      cases X with
      | nil => simp at hl
      | cons b u => exact ⟨b, by simpa using hp (a, b) (by simp)⟩
  obtain ⟨z₁, hz₁⟩ := key hne₁ h₁
  obtain ⟨z₂, hz₂⟩ := key hne₂ h₂
  rw [Bool.eq_iff_iff, dec_yminAllowed_iff, dec_yminAllowed_iff, ← hymin]
  exact ⟨fun h => dec_sfOK_rect sf hz₂ h, fun h => dec_sfOK_rect sf hz₁ h⟩

/-- `dec_decompose_wequiv` with the flag assumed for one of the two samples only -/
theorem dec_decompose_wequiv' (sf : SF K) (fn : Option (Option Functional)) (lv : Option K)
    {X₁ y₁ X₂ y₂ : List K} {w₁ w₂ : Option (List K)}
    (heq : dec_WEquiv (fit_rows X₁ y₁ w₁) (fit_rows X₂ y₂ w₂))
    (hfl₁ : dec_yminAllowed sf y₁ w₁ = true)
    {f : Functional} {lv' : K} (hv : dec_validate sf fn lv = .ok (f, lv'))
    (hme : f = .mean ∨ f = .expectile) {r₁ r₂ : DecompRow K}
    (h₁ : decompose sf fn lv y₁ [X₁] w₁ = .ok [r₁]) (h₂ : decompose sf fn lv y₂ [X₂] w₂ = .ok [r₂]) :
    r₁ = r₂ := by
  obtain ⟨f₁, l₁, _, sm₁, hv₁, _, _, hrows₁⟩ := (dec_ok_iff sf fn lv y₁ [X₁] w₁ [r₁]).mp h₁
  obtain ⟨f₂, l₂, _, sm₂, hv₂, _, _, hrows₂⟩ := (dec_ok_iff sf fn lv y₂ [X₂] w₂ [r₂]).mp h₂
  obtain ⟨rc₁, s₁, _, hrec₁, hs₁, _, _⟩ := (dec_row_ok sf f₁ l₁ y₁ w₁ sm₁ X₁ r₁).mp
    (dec_mapM_get hrows₁ 0 (by simp) (by simp))
  obtain ⟨rc₂, s₂, _, hrec₂, hs₂, _, _⟩ := (dec_row_ok sf f₂ l₂ y₂ w₂ sm₂ X₂ r₂).mp
    (dec_mapM_get hrows₂ 0 (by simp) (by simp))
  obtain ⟨_, _, hf₁, _⟩ := (dec_recal_ok sf f₁ l₁ y₁ w₁ X₁ rc₁).mp hrec₁
  obtain ⟨_, _, hf₂, _⟩ := (dec_recal_ok sf f₂ l₂ y₂ w₂ X₂ rc₂).mp hrec₂
  obtain ⟨hX₁, hw₁, hne₁, hpos₁⟩ := dec_isoFit_ok_data hf₁
  obtain ⟨hX₂, hw₂, hne₂, hpos₂⟩ := dec_isoFit_ok_data hf₂
  have hmem : ∀ v, v ∈ y₁ ↔ v ∈ y₂ := by
    have c₁ := (dec_fit_rows_cols X₁ y₁ w₁ hX₁ hw₁).2.1
    have c₂ := (dec_fit_rows_cols X₂ y₂ w₂ hX₂ hw₂).2.1
    intro v
    constructor
    · intro hv'
      rw [← c₁] at hv'
      obtain ⟨b, hb, rfl⟩ := List.mem_map.mp hv'
      obtain ⟨a, ha, hay⟩ := heq.symm.mem_y (dec_rows_pos hX₁ hw₁ hpos₁) hb
      rw [← c₂, ← hay]
      exact List.mem_map.mpr ⟨a, ha, rfl⟩
    · intro hv'
      rw [← c₂] at hv'
      obtain ⟨b, hb, rfl⟩ := List.mem_map.mp hv'
      obtain ⟨a, ha, hay⟩ := heq.mem_y (dec_rows_pos hX₂ hw₂ hpos₂) hb
      rw [← c₁, ← hay]
      exact List.mem_map.mpr ⟨a, ha, rfl⟩
  have hfl := dec_flags_eq' sf hne₁ hne₂ (dec_lmin_of_mem_iff hne₁ hne₂ hmem) hs₁ hs₂
  exact dec_decompose_wequiv sf fn lv heq hfl₁ (hfl ▸ hfl₁) hv hme h₁ h₂

/-! ### integer weights = repeated rows -/

/-- repeat the `i`-th entry `n[i]` times -/
def dec_rep {α : Type} : List α → List Nat → List α
  | a :: l, k :: n => List.replicate k a ++ dec_rep l n
  | _, _ => []

omit [ScoreOps K] [Inhabited K] in
theorem dec_fit_rows_rep (X y : List K) (n : List Nat) :
    fit_rows (dec_rep X n) (dec_rep y n) none
      = dec_rep (List.zipWith (fun (p : K × K) (_ : Nat) => (⟨p.1, p.2, 1⟩ : Row K)) (List.zip X y) n) n := by
  unfold fit_rows
  induction X generalizing y n with
  | nil => simp [dec_rep]
  | cons a X ih =>
    cases y with
    | nil => cases n <;> simp [dec_rep]
    | cons b y =>
      cases n with
      | nil => simp [dec_rep]
      | cons k n =>
        simp only [dec_rep, List.zip_cons_cons, List.zipWith_cons_cons, List.map_append,
          List.map_replicate]
        rw [List.zip_append (by simp), List.zipWith_append (by simp), ih y n]
        congr 1
        simp

omit [ScoreOps K] [Inhabited K] in
/-- **integer case weights carry the same weighted information as physically repeated rows** -/
theorem dec_WEquiv_rep (X y : List K) (n : List Nat) (hX : X.length = y.length)
    (hn : n.length = y.length) :
    dec_WEquiv (fit_rows X y (some (n.map (fun k : Nat => (k : K)))))
      (fit_rows (dec_rep X n) (dec_rep y n) none) := by
  intro Φ
  rw [dec_fit_rows_rep]
  unfold fit_rows
  simp only
  induction X generalizing y n with
  | nil => simp [dec_rep]
  | cons a X ih =>
    cases y with
    | nil => simp at hX
    | cons b y =>
      cases n with
      | nil => simp at hn
      | cons k n =>
        simp only [List.map_cons, List.zip_cons_cons, List.zipWith_cons_cons, List.sum_cons,
          dec_rep, List.map_append, List.sum_append, List.map_replicate, List.sum_replicate,
          nsmul_eq_mul]
        rw [ih y n (by simpa using hX) (by simpa using hn)]
        ring

end WEquiv


/-! ### … with the domain repair -/
section WEquivRepair
variable {K : Type} [Field K] [LinearOrder K] [IsStrictOrderedRing K] [ScoreOps K] [Inhabited K]

omit [ScoreOps K] in
/-- the mask predicate of `repair` only depends on the set of recalibrated values -/
theorem dec_repairP_of_mem_iff {r₁ r₂ : List K} (h : ∀ v, v ∈ r₁ ↔ v ∈ r₂) (ymin : K) :
    dec_repairP r₁ ymin = dec_repairP r₂ ymin := by
  have hf : ∀ v, v ∈ r₁.filter (fun v => decide (ymin < v)) ↔
      v ∈ r₂.filter (fun v => decide (ymin < v)) := by
    intro v
    simp only [List.mem_filter, h v]
  unfold dec_repairP
  cases h1 : r₁.filter (fun v => decide (ymin < v)) with
  | nil =>
    cases h2 : r₂.filter (fun v => decide (ymin < v)) with
    | nil => rfl
    | cons g' gs' =>
      rw [h1, h2] at hf
      exact absurd ((hf g').mpr (by simp)) (by simp)
  | cons g gs =>
    cases h2 : r₂.filter (fun v => decide (ymin < v)) with
    | nil =>
      rw [h1, h2] at hf
      exact absurd ((hf g).mp (by simp)) (by simp)
    | cons g' gs' =>
      rw [h1, h2] at hf
      have := dec_lmin_of_mem_iff (l := g :: gs) (l' := g' :: gs') (by simp) (by simp) hf
      simp only [List.getElem!_cons_zero, List.foldl_cons, min_self] at this
      simp only [this]

omit [ScoreOps K] [Inhabited K] in
/-- a sum over the selected rows is a weighted row sum with an indicator -/
theorem dec_sum_filter_map {α : Type} (F : α → Obs K) (Q : Obs K → Bool) (H : Obs K → K)
    (l : List α) :
    (((l.map F).filter Q).map H).sum = (l.map (fun a => if Q (F a) then H (F a) else 0)).sum := by
  induction l with
  | nil => simp
  | cons a l ih =>
    simp only [List.map_cons, List.filter_cons, List.sum_cons]
    cases hQ : Q (F a)
    · simp [ih]
    · simp [ih]

omit [ScoreOps K] [Inhabited K] in
/-- the functional of the selected rows only depends on the weighted information -/
theorem dec_T_sel_wequiv {f : Functional} {lv : K} (hF : FitOK f lv)
    (hme : f = .mean ∨ f = .expectile) {A B : List (Row K)} (heq : dec_WEquiv A B)
    (hA : ∀ a ∈ A, 0 < a.w) (hB : ∀ a ∈ B, 0 < a.w) (g : K → K) (P : K → Bool)
    (hneA : (A.map (fun a => ((g a.x, a.w) : Obs K))).filter (fun p => P p.1) ≠ [])
    (hneB : (B.map (fun a => ((g a.x, a.w) : Obs K))).filter (fun p => P p.1) ≠ []) :
    dec_T f lv ((A.map (fun a => ((g a.x, a.w) : Obs K))).filter (fun p => P p.1))
      = dec_T f lv ((B.map (fun a => ((g a.x, a.w) : Obs K))).filter (fun p => P p.1)) := by
  have hsum : ∀ (H : Obs K → K) (Ψ : K → K), (∀ o : Obs K, H o = o.2 * Ψ o.1) →
      ∀ l : List (Row K),
      (((l.map (fun a => ((g a.x, a.w) : Obs K))).filter (fun p => P p.1)).map H).sum
        = (l.map (fun a => a.w * (if P (g a.x) then Ψ (g a.x) else 0))).sum := by
    intro H Ψ hH l
    rw [dec_sum_filter_map]
    congr 1
    apply List.map_congr_left
    intro a _
    simp only [hH]
    split_ifs
    · rfl
    · rw [mul_zero]
  have hposA : ∀ o ∈ (A.map (fun a => ((g a.x, a.w) : Obs K))).filter (fun p => P p.1), 0 < o.2 := by
    intro o ho
    obtain ⟨a, ha, rfl⟩ := List.mem_map.mp (List.mem_filter.mp ho).1
    exact hA a ha
  have hposB : ∀ o ∈ (B.map (fun a => ((g a.x, a.w) : Obs K))).filter (fun p => P p.1), 0 < o.2 := by
    intro o ho
    obtain ⟨a, ha, rfl⟩ := List.mem_map.mp (List.mem_filter.mp ho).1
    exact hB a ha
  rcases hme with rfl | rfl
  · show wysum _ / wsum _ = wysum _ / wsum _
    unfold wysum wsum
    rw [hsum (fun o => o.1 * o.2) (fun v => v) (fun o => by ring) A,
      hsum (fun o => o.1 * o.2) (fun v => v) (fun o => by ring) B,
      hsum (fun o => o.2) (fun _ => 1) (fun o => by ring) A,
      hsum (fun o => o.2) (fun _ => 1) (fun o => by ring) B,
      heq (fun x _ => if P (g x) then g x else 0), heq (fun x _ => if P (g x) then 1 else 0)]
  · obtain ⟨h0, h1⟩ := hF.lvl (Or.inl rfl)
    refine dec_IdFun_T_esum (expectileFun lv h0 h1) hneA hneB hposA hposB ?_
    intro u
    unfold Esum
    rw [hsum ((expectileFun lv h0 h1).Vp u) (fun v => (if v ≤ u then 1 - lv else lv) * (u - v))
        (fun o => by simp only [expectileFun, eWeight]; ring) A,
      hsum ((expectileFun lv h0 h1).Vp u) (fun v => (if v ≤ u then 1 - lv else lv) * (u - v))
        (fun o => by simp only [expectileFun, eWeight]; ring) B]
    exact heq (fun x _ => if P (g x) then (if g x ≤ u then 1 - lv else lv) * (u - g x) else 0)

/-- **the recalibration stage, repair included, only depends on the weighted information** (mean,
expectile; equal `yminAllowed` flags) -/
theorem dec_recal_wequiv (sf : SF K) {f : Functional} {lv : K} (hme : f = .mean ∨ f = .expectile)
    {X₁ y₁ X₂ y₂ : List K} {w₁ w₂ : Option (List K)}
    (heq : dec_WEquiv (fit_rows X₁ y₁ w₁) (fit_rows X₂ y₂ w₂))
    (hflag : dec_yminAllowed sf y₁ w₁ = dec_yminAllowed sf y₂ w₂) {r₁ r₂ : List K}
    (h₁ : dec_recal sf f lv y₁ w₁ X₁ = .ok r₁) (h₂ : dec_recal sf f lv y₂ w₂ X₂ = .ok r₂) :
    ∃ G : K → K, r₁ = X₁.map G ∧ r₂ = X₂.map G := by
  obtain ⟨tx, ty, hf₁, hc₁⟩ := (dec_recal_ok sf f lv y₁ w₁ X₁ r₁).mp h₁
  obtain ⟨tx', ty', hf₂, hc₂⟩ := (dec_recal_ok sf f lv y₂ w₂ X₂ r₂).mp h₂
  obtain ⟨hX₁, hw₁, hne₁, hpos₁⟩ := dec_isoFit_ok_data hf₁
  obtain ⟨hX₂, hw₂, hne₂, hpos₂⟩ := dec_isoFit_ok_data hf₂
  have hm : f ≠ .median := by rcases hme with rfl | rfl <;> decide
  obtain ⟨hF, hq₁⟩ := dec_isoFit_fitOK hm hf₁
  obtain ⟨_, hq₂⟩ := dec_isoFit_fitOK hm hf₂
  have hrp₁ := dec_rows_pos hX₁ hw₁ hpos₁
  have hrp₂ := dec_rows_pos hX₂ hw₂ hpos₂
  obtain ⟨_, hg₂⟩ := dec_fit_wequiv hme hf₁ hf₂ heq
  have hrc₂ : X₂.map (interp tx' ty') = X₂.map (interp tx ty) := List.map_congr_left hg₂
  rw [hrc₂] at hc₂
  obtain ⟨c1x, c1y, _⟩ := dec_fit_rows_cols X₁ y₁ w₁ hX₁ hw₁
  obtain ⟨c2x, c2y, _⟩ := dec_fit_rows_cols X₂ y₂ w₂ hX₂ hw₂
  -- same sets of forecasts and of observations
  have hmemX : ∀ v, v ∈ X₁ ↔ v ∈ X₂ := by
    intro v
    constructor
    · intro hv
      rw [← c1x] at hv
      obtain ⟨b, hb, rfl⟩ := List.mem_map.mp hv
      obtain ⟨a, ha, hax⟩ := heq.symm.mem_x hrp₁ hb
      rw [← c2x, ← hax]; exact List.mem_map.mpr ⟨a, ha, rfl⟩
    · intro hv
      rw [← c2x] at hv
      obtain ⟨b, hb, rfl⟩ := List.mem_map.mp hv
      obtain ⟨a, ha, hax⟩ := heq.mem_x hrp₂ hb
      rw [← c1x, ← hax]; exact List.mem_map.mpr ⟨a, ha, rfl⟩
  have hmemY : ∀ v, v ∈ y₁ ↔ v ∈ y₂ := by
    intro v
    constructor
    · intro hv
      rw [← c1y] at hv
      obtain ⟨b, hb, rfl⟩ := List.mem_map.mp hv
      obtain ⟨a, ha, hay⟩ := heq.symm.mem_y hrp₁ hb
      rw [← c2y, ← hay]; exact List.mem_map.mpr ⟨a, ha, rfl⟩
    · intro hv
      rw [← c2y] at hv
      obtain ⟨b, hb, rfl⟩ := List.mem_map.mp hv
      obtain ⟨a, ha, hay⟩ := heq.mem_y hrp₂ hb
      rw [← c1y, ← hay]; exact List.mem_map.mpr ⟨a, ha, rfl⟩
  have hmemR : ∀ v, v ∈ X₁.map (interp tx ty) ↔ v ∈ X₂.map (interp tx ty) := by
    intro v
    simp only [List.mem_map]
    constructor
    · rintro ⟨q, hq, rfl⟩; exact ⟨q, (hmemX q).mp hq, rfl⟩
    · rintro ⟨q, hq, rfl⟩; exact ⟨q, (hmemX q).mpr hq, rfl⟩
  have hXne₁ : X₁ ≠ [] := by
    intro he; rw [he] at hX₁; exact hne₁ (List.length_eq_zero_iff.mp hX₁.symm)
  have hXne₂ : X₂ ≠ [] := by
    intro he; rw [he] at hX₂; exact hne₂ (List.length_eq_zero_iff.mp hX₂.symm)
  have hymin := dec_lmin_of_mem_iff hne₁ hne₂ hmemY
  have hrmin := dec_lmin_of_mem_iff (l := X₁.map (interp tx ty)) (l' := X₂.map (interp tx ty))
    (by simpa using hXne₁) (by simpa using hXne₂) hmemR
  rw [← hflag, ← hymin, ← hrmin] at hc₂
  by_cases hc : dec_yminAllowed sf y₁ w₁ = false ∧
      (X₁.map (interp tx ty)).foldl min (X₁.map (interp tx ty))[0]! ≤ y₁.foldl min y₁[0]!
  · rw [if_pos hc] at hc₁ hc₂
    rw [dec_repair_eq _ _ _ _ _ (by intro w' hw'; rw [List.length_map, hX₁]; exact hw₁ w' hw')] at hc₁
    rw [dec_repair_eq _ _ _ _ _ (by intro w' hw'; rw [List.length_map, hX₂]; exact hw₂ w' hw')] at hc₂
    rw [← dec_repairP_of_mem_iff hmemR] at hc₂
    obtain ⟨v₁, hv₁, e₁⟩ := dec_map_ok hc₁
    obtain ⟨v₂, hv₂, e₂⟩ := dec_map_ok hc₂
    have hq₁' : f ≠ .mean → f ≠ .expectile →
        w₁.map (fun w' => (((X₁.map (interp tx ty)).zip w').filter
          (fun p => dec_repairP (X₁.map (interp tx ty)) (y₁.foldl min y₁[0]!) p.1)).map (·.2)) = none := by
      intro a b; rw [hq₁ a b]; rfl
    have hq₂' : f ≠ .mean → f ≠ .expectile →
        w₂.map (fun w' => (((X₂.map (interp tx ty)).zip w').filter
          (fun p => dec_repairP (X₁.map (interp tx ty)) (y₁.foldl min y₁[0]!) p.1)).map (·.2)) = none := by
      intro a b; rw [hq₂ a b]; rfl
    have d₁ := dec_functionalVal_val hq₁' hv₁
    have d₂ := dec_functionalVal_val hq₂' hv₂
    rw [dec_sel_obs _ _ _ (by intro w' hw'; rw [List.length_map, hX₁]; exact hw₁ w' hw'),
      dec_zip_map_rows (interp tx ty) X₁ y₁ w₁ hX₁ hw₁] at d₁
    rw [dec_sel_obs _ _ _ (by intro w' hw'; rw [List.length_map, hX₂]; exact hw₂ w' hw'),
      dec_zip_map_rows (interp tx ty) X₂ y₂ w₂ hX₂ hw₂] at d₂
    -- the selection is not empty
    have hsel : ∀ {X y : List K} {w : Option (List K)}, X.length = y.length →
        (∀ w', w = some w' → w'.length = y.length) → X ≠ [] →
        (∀ v, v ∈ X.map (interp tx ty) ↔ v ∈ X₁.map (interp tx ty)) →
        ((fit_rows X y w).map (fun a => ((interp tx ty a.x, a.w) : Obs K))).filter
          (fun p => dec_repairP (X₁.map (interp tx ty)) (y₁.foldl min y₁[0]!) p.1) ≠ [] := by
      intro X y w hX hw hXne hmem
      have cx := (dec_fit_rows_cols X y w hX hw).1
      -- a selected value
      have : ∃ v ∈ X₁.map (interp tx ty),
          dec_repairP (X₁.map (interp tx ty)) (y₁.foldl min y₁[0]!) v = true := by
        unfold dec_repairP
        cases hgr : (X₁.map (interp tx ty)).filter
            (fun v => decide (y₁.foldl min y₁[0]! < v)) with
        | nil =>
          obtain ⟨q, hq⟩ := List.exists_mem_of_ne_nil _ hXne₁
          exact ⟨interp tx ty q, List.mem_map.mpr ⟨q, hq, rfl⟩, rfl⟩
        | cons g gs =>
          have hmemg : gs.foldl min g ∈ (g :: gs) := by
            rcases foldl_min_mem g gs with h | h
            · rw [h]; simp
            · simp [h]
          rw [← hgr] at hmemg
          exact ⟨_, (List.mem_filter.mp hmemg).1, by simp⟩
      obtain ⟨v, hv, hPv⟩ := this
      obtain ⟨q, hq, rfl⟩ := List.mem_map.mp ((hmem _).mpr hv)
      rw [← cx] at hq
      obtain ⟨a, ha, rfl⟩ := List.mem_map.mp hq
      apply List.ne_nil_of_mem (a := ((interp tx ty a.x, a.w) : Obs K))
      exact List.mem_filter.mpr ⟨List.mem_map.mpr ⟨a, ha, rfl⟩, hPv⟩
    have hvv : v₁ = v₂ := by
      rw [d₁, d₂]
      exact dec_T_sel_wequiv hF hme heq hrp₁ hrp₂ (interp tx ty) _
        (hsel hX₁ hw₁ hXne₁ (fun _ => Iff.rfl)) (hsel hX₂ hw₂ hXne₂ (fun v => (hmemR v).symm))
    refine ⟨fun q => if dec_repairP (X₁.map (interp tx ty)) (y₁.foldl min y₁[0]!) (interp tx ty q)
      then v₁ else interp tx ty q, ?_, ?_⟩
    · rw [e₁, List.map_map]; rfl
    · rw [e₂, ← hvv, List.map_map]; rfl
  · rw [if_neg hc] at hc₁ hc₂
    exact ⟨interp tx ty, (Except.ok.inj hc₁).symm, (Except.ok.inj hc₂).symm⟩

/-- **the decomposition only depends on the weighted information** — mean and expectile, domain
repair included (one column; both calls succeed) -/
theorem dec_decompose_wequiv_full (sf : SF K) (fn : Option (Option Functional)) (lv : Option K)
    {X₁ y₁ X₂ y₂ : List K} {w₁ w₂ : Option (List K)}
    (heq : dec_WEquiv (fit_rows X₁ y₁ w₁) (fit_rows X₂ y₂ w₂))
    {f : Functional} {lv' : K} (hv : dec_validate sf fn lv = .ok (f, lv'))
    (hme : f = .mean ∨ f = .expectile) {r₁ r₂ : DecompRow K}
    (h₁ : decompose sf fn lv y₁ [X₁] w₁ = .ok [r₁]) (h₂ : decompose sf fn lv y₂ [X₂] w₂ = .ok [r₂]) :
    r₁ = r₂ := by
  obtain ⟨f₁, l₁, marg₁, sm₁, hv₁, _, hm₁, hrows₁⟩ := (dec_ok_iff sf fn lv y₁ [X₁] w₁ [r₁]).mp h₁
  obtain ⟨f₂, l₂, marg₂, sm₂, hv₂, _, hm₂, hrows₂⟩ := (dec_ok_iff sf fn lv y₂ [X₂] w₂ [r₂]).mp h₂
  rw [hv] at hv₁ hv₂
  cases hv₁
  cases hv₂
  obtain ⟨rc₁, s₁, sR₁, hrec₁, hs₁, hsR₁, rfl⟩ := (dec_row_ok sf f lv' y₁ w₁ sm₁ X₁ r₁).mp
    (dec_mapM_get hrows₁ 0 (by simp) (by simp))
  obtain ⟨rc₂, s₂, sR₂, hrec₂, hs₂, hsR₂, rfl⟩ := (dec_row_ok sf f lv' y₂ w₂ sm₂ X₂ r₂).mp
    (dec_mapM_get hrows₂ 0 (by simp) (by simp))
  obtain ⟨tx₁, ty₁, hf₁, _⟩ := (dec_recal_ok sf f lv' y₁ w₁ X₁ rc₁).mp hrec₁
  obtain ⟨tx₂, ty₂, hf₂, _⟩ := (dec_recal_ok sf f lv' y₂ w₂ X₂ rc₂).mp hrec₂
  obtain ⟨hX₁, hw₁, hne₁, hpos₁⟩ := dec_isoFit_ok_data hf₁
  obtain ⟨hX₂, hw₂, hne₂, hpos₂⟩ := dec_isoFit_ok_data hf₂
  have hmemY : ∀ v, v ∈ y₁ ↔ v ∈ y₂ := by
    have c₁ := (dec_fit_rows_cols X₁ y₁ w₁ hX₁ hw₁).2.1
    have c₂ := (dec_fit_rows_cols X₂ y₂ w₂ hX₂ hw₂).2.1
    intro v
    constructor
    · intro hv'
      rw [← c₁] at hv'
      obtain ⟨b, hb, rfl⟩ := List.mem_map.mp hv'
      obtain ⟨a, ha, hay⟩ := heq.symm.mem_y (dec_rows_pos hX₁ hw₁ hpos₁) hb
      rw [← c₂, ← hay]
      exact List.mem_map.mpr ⟨a, ha, rfl⟩
    · intro hv'
      rw [← c₂] at hv'
      obtain ⟨b, hb, rfl⟩ := List.mem_map.mp hv'
      obtain ⟨a, ha, hay⟩ := heq.mem_y (dec_rows_pos hX₂ hw₂ hpos₂) hb
      rw [← c₁, ← hay]
      exact List.mem_map.mpr ⟨a, ha, rfl⟩
  have hflag := dec_flags_eq' sf hne₁ hne₂ (dec_lmin_of_mem_iff hne₁ hne₂ hmemY) hs₁ hs₂
  obtain ⟨G, rfl, rfl⟩ := dec_recal_wequiv sf hme heq hflag hrec₁ hrec₂
  obtain ⟨hma₁, hsm₁⟩ := dec_marginal_ok hm₁
  obtain ⟨hma₂, hsm₂⟩ := dec_marginal_ok hm₂
  have emarg : marg₁ = marg₂ := dec_functionalVal_wequiv hme hf₁ hf₂ heq hma₁ hma₂
  subst emarg
  have es : s₁ = s₂ := by
    have a₁ : sfMean sf y₁ (X₁.map id) w₁ = .ok s₁ := by rw [List.map_id]; exact hs₁
    have a₂ : sfMean sf y₂ (X₂.map id) w₂ = .ok s₂ := by rw [List.map_id]; exact hs₂
    exact dec_sfMean_wequiv sf id hX₁ hX₂ heq a₁ a₂
  have esR : sR₁ = sR₂ := dec_sfMean_wequiv sf G hX₁ hX₂ heq hsR₁ hsR₂
  have esm : sm₁ = sm₂ := by
    have a₁ : sfMean sf y₁ (X₁.map fun _ => marg₁) w₁ = .ok sm₁ := by
      rw [List.map_const', hX₁, ← List.map_const']; exact hsm₁
    have a₂ : sfMean sf y₂ (X₂.map fun _ => marg₁) w₂ = .ok sm₂ := by
      rw [List.map_const', hX₂, ← List.map_const']; exact hsm₂
    exact dec_sfMean_wequiv sf (fun _ => marg₁) hX₁ hX₂ heq a₁ a₂
  rw [es, esR, esm]

end WEquivRepair

/-! ## G. Totality for the squared error (used for the non-vacuity examples) -/
section SqOK
variable {K : Type} [Field K] [LinearOrder K] [IsStrictOrderedRing K] [ScoreOps K] [Inhabited K]

omit [ScoreOps K] in
/-- the mean fit succeeds on every non-empty sample with positive (or absent) weights -/
theorem dec_isoFit_mean_ok (lv : K) (X y : List K) (w : Option (List K)) (hX : X.length = y.length)
    (hw : ∀ w', w = some w' → w'.length = y.length) (hne : y ≠ [])
    (hpos : ∀ v ∈ dec_wts y w, 0 < v) : ∃ tx ty, isoFit (some .mean) lv true X y w = .ok (tx, ty) := by
  rw [fit_isoFit_eq (some .mean) lv true X y w hX hw]
  have hperm : (fit_sorted true X y w).Perm (fit_rows X y w) := List.mergeSort_perm _ _
  obtain ⟨_, c2, c3⟩ := dec_fit_rows_cols X y w hX hw
  have hsne : (fit_sorted true X y w).map (·.y) ≠ [] := by
    intro he
    have h1 := congrArg List.length he
    rw [List.length_map, hperm.length_eq] at h1
    have h2 := congrArg List.length c2
    rw [List.length_map] at h2
    exact hne (List.length_eq_zero_iff.mp (by rw [← h2]; exact h1))
  cases w with
  | none =>
    simp only [Option.map_none]
    rw [isoReg_mean_none lv true _ hsne]
    exact ⟨_, _, rfl⟩
  | some w' =>
    simp only [Option.map_some]
    rw [isoReg_mean_some lv true _ _ hsne (by simp) (by
      intro v hv
      obtain ⟨a, ha, rfl⟩ := List.mem_map.mp hv
      apply hpos
      rw [← c3]
      exact List.mem_map.mpr ⟨a, hperm.mem_iff.mp ha, rfl⟩)]
    exact ⟨_, _, rfl⟩

/-- **Squared error: `decompose` succeeds** on every non-empty data set with forecast columns of the
right length and positive (or absent) weights of the right length -/
theorem dec_decompose_sq_ok (sf : SF K) (hk : sf.kind = .squaredError) (he : sf.elem = none)
    (fn : Option (Option Functional)) (hfn : fn = none ∨ fn = some (some .mean)) (lv : Option K)
    (ys : List K) (cols : List (List K)) (w : Option (List K)) (hne : ys ≠ [])
    (hc : ∀ c ∈ cols, c.length = ys.length) (hw : ∀ w', w = some w' → w'.length = ys.length)
    (hpos : ∀ v ∈ dec_wts ys w, 0 < v) : ∃ rows, decompose sf fn lv ys cols w = .ok rows := by
  obtain ⟨l, hv⟩ := dec_validate_sq sf hk he fn hfn lv
  have hS : ∀ zs : List K, ∀ p ∈ ys.zip zs,
      sfPair sf p.1 p.2 = .ok ((fun y z => (z - y) * (z - y)) p.1 p.2) :=
    fun zs p _ => dec_sfPair_sq sf hk he p.1 p.2
  have hmean : ∀ zs : List K, zs.length = ys.length → ∃ s, sfMean sf ys zs w = .ok s :=
    fun zs hz => ⟨_, dec_sfMean_ok sf (fun y z => (z - y) * (z - y)) ys zs w hz (hS zs) hw hne hpos⟩
  -- marginal stage
  have hW : 0 < (dec_wts ys w).sum := by
    apply List.sum_pos _ hpos
    intro he'
    have := dec_wts_length ys w hw
    rw [he'] at this
    exact hne (List.length_eq_zero_iff.mp this.symm)
  obtain ⟨sm, hsm⟩ := hmean (ys.map fun _ =>
    (List.zipWith (· * ·) ys (dec_wts ys w)).sum / (dec_wts ys w).sum) (by simp)
  have hmarg : dec_marginal sf .mean l ys w
      = .ok ((List.zipWith (· * ·) ys (dec_wts ys w)).sum / (dec_wts ys w).sum, sm) := by
    unfold dec_marginal
    have hfv : functionalVal .mean l ys w
        = .ok ((List.zipWith (· * ·) ys (dec_wts ys w)).sum / (dec_wts ys w).sum) :=
      dec_average_ok ys ys w rfl hw hne hpos
    rw [hfv, dec_ok_bind]
    have hprobe : ∀ m : K, sfMean sf [ys[0]!] [m] none ≠ .error .valueError :=
      fun m => dec_sfMean_not_valueError sf _ _ none rfl (fun y z => (z - y) * (z - y))
        (fun p _ => dec_sfPair_sq sf hk he p.1 p.2)
    split_ifs with hcnd
    · cases hp : sfMean sf [ys[0]!] [(List.zipWith (· * ·) ys (dec_wts ys w)).sum / (dec_wts ys w).sum] none with
      | error e =>
        cases e
        · exact absurd hp (hprobe _)
        all_goals (simp only []; rw [hsm]; rfl)
      | ok v => simp only []; rw [hsm]; rfl
    · simp only []
      rw [hsm]; rfl
  -- rows
  have hallowed := dec_yminAllowed_of_ok sf ys w _ (dec_sfPair_sq sf hk he ys[0]! (ys.foldl min ys[0]!))
  have hrow : ∀ x ∈ cols, ∃ row, dec_row sf .mean l ys w sm x = .ok row := by
    intro x hx
    obtain ⟨tx, ty, hfit⟩ := dec_isoFit_mean_ok l x ys w (hc x hx) hw hne hpos
    have hrec : dec_recal sf .mean l ys w x = .ok (x.map (interp tx ty)) := by
      refine (dec_recal_ok sf .mean l ys w x _).mpr ⟨tx, ty, hfit, ?_⟩
      rw [if_neg (by rw [hallowed]; simp)]
      rfl
    obtain ⟨s, hs⟩ := hmean x (hc x hx)
    obtain ⟨sR, hsR⟩ := hmean (x.map (interp tx ty)) (by simp [hc x hx])
    exact ⟨_, (dec_row_ok sf .mean l ys w sm x _).mpr ⟨_, s, sR, hrec, hs, hsR, rfl⟩⟩
  have hrows : ∃ rows, cols.mapM (dec_row sf .mean l ys w sm) = .ok rows := by
    cases hm : cols.mapM (dec_row sf .mean l ys w sm) with
    | ok rows => exact ⟨rows, rfl⟩
    | error e =>
      exfalso
      clear hmarg hsm
      induction cols generalizing e with
      | nil => cases hm
      | cons c cols ih =>
        rw [dec_mapM_cons] at hm
        obtain ⟨row, hr⟩ := hrow c (by simp)
        rw [hr, dec_ok_bind] at hm
        cases hm' : cols.mapM (dec_row sf .mean l ys w sm) with
        | ok rows => rw [hm'] at hm; cases hm
        | error e' =>
          exact ih (fun c' hc' => hc c' (by simp [hc'])) (fun x hx => hrow x (by simp [hx])) e' hm'
  obtain ⟨rows, hrows⟩ := hrows
  exact ⟨rows, (dec_ok_iff sf fn lv ys cols w rows).mpr
    ⟨.mean, l, _, sm, hv, (dec_shape_ok ys cols w).mpr ⟨hc, hw, hne⟩, hmarg, hrows⟩⟩

end SqOK

end MD
