import MD.Model.Decompose
import MD.Proofs.IsoFitLemmas
import Mathlib.Tactic.Linarith
import Mathlib.Tactic.Ring
import Mathlib.Tactic.FieldSimp
import Mathlib.Tactic.Positivity

/-! # Lemmas about `decompose` (C06, C07)

Part A (over the bare operation classes of the model, so also valid at `Float`): a normal form of
`decompose` as four stages

  `dec_validate` (functional / level)  →  `dec_shape` (length checks)  →
  `dec_marginal` (marginal functional and its score)  →  `List.mapM dec_row` (one row per column),

and inversion lemmas for a successful call.  Part B (ordered fields): the analytic facts. -/

set_option linter.unusedSectionVars false

namespace MD

/-! ## A. Normal form -/

section Struct
variable {K : Type} [LE K] [DecidableLE K] [LT K] [DecidableLT K]
  [Add K] [Sub K] [Mul K] [Div K] [Neg K] [Zero K] [One K] [NatCast K] [Min K] [Max K]
  [ScoreOps K] [Inhabited K]

/-- the functional `decompose` works with: the one given, or the score's own -/
def dec_fn (sf : SF K) (fnGiven : Option (Option Functional)) : Option Functional :=
  match fnGiven with
  | some f => f
  | none => sfFunctional sf

/-- the level `decompose` works with -/
def dec_lv (sf : SF K) (fn : Option Functional) (lvGiven : Option K) : Except Err K :=
  match lvGiven with
  | some l => pure l
  | none =>
    if fn = some .expectile ∨ fn = some .quantile then
      match sfLevel sf with
      | some l => pure l
      | none => throw Err.valueError
    else pure half

/-- `yminAllowed` -/
def dec_yminAllowed (sf : SF K) (ys : List K) (w : Option (List K)) : Bool :=
  match sfMean sf [ys[0]!] [ys.foldl min ys[0]!] (w.map (fun w' => w'.take 1)) with
  | .error Err.valueError => false
  | _ => true

/-- recalibrated forecasts of one column -/
def dec_recal (sf : SF K) (f : Functional) (lv : K) (ys : List K) (w : Option (List K))
    (x : List K) : Except Err (List K) := do
  let (tx, ty) ← isoFit (some f) lv true x ys w
  let recal := x.map (interp tx ty)
  if dec_yminAllowed sf ys w = false ∧ recal.foldl min recal[0]! ≤ ys.foldl min ys[0]! then
    repair f lv recal w (ys.foldl min ys[0]!) else pure recal

/-- the row of one column -/
def dec_row (sf : SF K) (f : Functional) (lv : K) (ys : List K) (w : Option (List K))
    (scoreMarg : K) (x : List K) : Except Err (DecompRow K) := do
  let recal ← dec_recal sf f lv ys w x
  let score ← sfMean sf ys x w
  let scoreRecal ← sfMean sf ys recal w
  pure ⟨score - scoreRecal, scoreMarg - scoreRecal, scoreMarg, score⟩

/-- the shape checks -/
def dec_shape (ys : List K) (cols : List (List K)) (w : Option (List K)) : Except Err Unit := do
  if cols.any (fun c => c.length ≠ ys.length) then throw Err.valueError
  match w with
  | some w' => if w'.length ≠ ys.length then throw Err.valueError else pure ()
  | none => pure ()
  if ys = [] then throw Err.other

/-- marginal stage: `(marginal, scoreMarg)` -/
def dec_marginal (sf : SF K) (f : Functional) (lv : K) (ys : List K) (w : Option (List K)) :
    Except Err (K × K) := do
  let marginal ← functionalVal f lv ys w
  if eqK ys[0]! marginal ∧ eqK marginal ys[ys.length - 1]! then
    match sfMean sf [ys[0]!] [marginal] none with
    | .error Err.valueError => throw Err.valueError
    | _ => pure ()
  let scoreMarg ← sfMean sf ys (ys.map (fun _ => marginal)) w
  pure (marginal, scoreMarg)

/-- the part of `decompose` after the shape checks, verbatim -/
def dec_tail (sf : SF K) (f : Functional) (lv : K) (ys : List K) (cols : List (List K))
    (w : Option (List K)) : Except Err (List (DecompRow K)) := do
  let marginal ← functionalVal f lv ys w
  let y0 := ys[0]!
  let yl := ys[ys.length - 1]!
  if eqK y0 marginal ∧ eqK marginal yl then
    match sfMean sf [y0] [marginal] none with
    | .error Err.valueError => throw Err.valueError
    | _ => pure ()
  let ymin := ys.foldl min y0
  let yminAllowed := match sfMean sf [y0] [ymin] (w.map (fun w' => w'.take 1)) with
    | .error Err.valueError => false
    | _ => true
  let margArr := ys.map (fun _ => marginal)
  let scoreMarg ← sfMean sf ys margArr w
  cols.mapM (fun x => do
    let (tx, ty) ← isoFit (some f) lv true x ys w
    let recal := x.map (interp tx ty)
    let recal ← if yminAllowed = false ∧ recal.foldl min recal[0]! ≤ ymin then repair f lv recal w ymin else pure recal
    let score ← sfMean sf ys x w
    let scoreRecal ← sfMean sf ys recal w
    pure ⟨score - scoreRecal, scoreMarg - scoreRecal, scoreMarg, score⟩)

/-- everything after the functional and the level are fixed, verbatim -/
def dec_core (sf : SF K) (p : Functional × K) (ys : List K) (cols : List (List K))
    (w : Option (List K)) : Except Err (List (DecompRow K)) := do
  let (f, lv) := p
  if cols.any (fun c => c.length ≠ ys.length) then throw Err.valueError
  match w with
  | some w' => if w'.length ≠ ys.length then throw Err.valueError else pure ()
  | none => pure ()
  if ys = [] then throw Err.other
  dec_tail sf f lv ys cols w

theorem dec_eq_core (sf : SF K) (fnGiven : Option (Option Functional)) (lvGiven : Option K)
    (ys : List K) (cols : List (List K)) (w : Option (List K)) :
    decompose sf fnGiven lvGiven ys cols w = (do
      let lv ← dec_lv sf (dec_fn sf fnGiven) lvGiven
      let f ← match dec_fn sf fnGiven with
        | some f => pure f
        | none => throw Err.valueError
      if (f = .expectile ∨ f = .quantile) ∧ (lv ≤ 0 ∨ 1 ≤ lv) then throw Err.valueError
      dec_core sf (if f = .median then (Functional.quantile, (half : K)) else (f, lv)) ys cols w) := by
  unfold decompose dec_core dec_lv
  cases lvGiven with
  | some l => rfl
  | none =>
    show (if dec_fn sf fnGiven = some .expectile ∨ dec_fn sf fnGiven = some .quantile then _ else _) = _
    by_cases h : dec_fn sf fnGiven = some .expectile ∨ dec_fn sf fnGiven = some .quantile
    · rw [if_pos h]
      simp only [if_pos h]
      cases sfLevel sf <;> rfl
    · rw [if_neg h]
      simp only [if_neg h]
      rfl


theorem dec_row_fun (sf : SF K) (f : Functional) (lv : K) (ys : List K) (w : Option (List K))
    (scoreMarg : K) :
    (fun x => do
      let (tx, ty) ← isoFit (some f) lv true x ys w
      let recal := x.map (interp tx ty)
      let recal ← if dec_yminAllowed sf ys w = false ∧ recal.foldl min recal[0]! ≤ ys.foldl min ys[0]! then repair f lv recal w (ys.foldl min ys[0]!) else pure recal
      let score ← sfMean sf ys x w
      let scoreRecal ← sfMean sf ys recal w
      pure (⟨score - scoreRecal, scoreMarg - scoreRecal, scoreMarg, score⟩ : DecompRow K))
    = dec_row sf f lv ys w scoreMarg := by
  funext x
  unfold dec_row dec_recal
  cases isoFit (some f) lv true x ys w with
  | error e => rfl
  | ok a =>
    obtain ⟨tx, ty⟩ := a
    by_cases hc : dec_yminAllowed sf ys w = false ∧
        List.foldl min (x.map (interp tx ty))[0]! (x.map (interp tx ty)) ≤ List.foldl min ys[0]! ys
    · show (if _ then _ else _) = Except.bind (if _ then _ else _) _
      rw [if_pos hc, if_pos hc]; rfl
    · show (if _ then _ else _) = Except.bind (if _ then _ else _) _
      rw [if_neg hc, if_neg hc]; rfl

theorem dec_core_eq (sf : SF K) (p : Functional × K) (ys : List K) (cols : List (List K))
    (w : Option (List K)) :
    dec_core sf p ys cols w = (do
      dec_shape ys cols w
      dec_tail sf p.1 p.2 ys cols w) := by
  obtain ⟨f, lv⟩ := p
  unfold dec_core dec_shape
  by_cases h1 : cols.any (fun c => decide (c.length ≠ ys.length)) = true
  · simp only [if_pos h1]; rfl
  by_cases h3 : ys = []
  · cases w with
    | some w' =>
      by_cases h2 : w'.length ≠ ys.length
      · simp only [if_neg h1, if_pos h2]; rfl
      · simp only [if_neg h1, if_neg h2, if_pos h3]
    | none => simp only [if_neg h1, if_pos h3]
  · cases w with
    | some w' =>
      by_cases h2 : w'.length ≠ ys.length
      · simp only [if_neg h1, if_pos h2]; rfl
      · simp only [if_neg h1, if_neg h2, if_neg h3]; rfl
    | none => simp only [if_neg h1, if_neg h3]; rfl

theorem dec_ok_bind {ε α β : Type} (a : α) (k : α → Except ε β) : (Except.ok a >>= k) = k a := rfl
theorem dec_error_bind {ε α β : Type} (e : ε) (k : α → Except ε β) :
    ((Except.error e : Except ε α) >>= k) = Except.error e := rfl

theorem dec_tail_eq (sf : SF K) (f : Functional) (lv : K) (ys : List K) (cols : List (List K))
    (w : Option (List K)) :
    dec_tail sf f lv ys cols w = (do
      let q ← dec_marginal sf f lv ys w
      cols.mapM (dec_row sf f lv ys w q.2)) := by
  unfold dec_tail dec_marginal
  cases functionalVal f lv ys w with
  | error e => rfl
  | ok m =>
    have key : ∀ sm : K, (List.mapM (fun x => do
          let (tx, ty) ← isoFit (some f) lv true x ys w
          let recal := x.map (interp tx ty)
          let recal ← if (match sfMean sf [ys[0]!] [ys.foldl min ys[0]!] (w.map (fun w' => w'.take 1)) with
              | .error Err.valueError => false
              | _ => true) = false ∧ recal.foldl min recal[0]! ≤ ys.foldl min ys[0]! then repair f lv recal w (ys.foldl min ys[0]!) else pure recal
          let score ← sfMean sf ys x w
          let scoreRecal ← sfMean sf ys recal w
          pure (⟨score - scoreRecal, sm - scoreRecal, sm, score⟩ : DecompRow K)) cols)
        = List.mapM (dec_row sf f lv ys w sm) cols := fun sm =>
      congrArg (fun g => List.mapM g cols) (dec_row_fun sf f lv ys w sm)
    have fin : (do
          let scoreMarg ← sfMean sf ys (ys.map (fun _ => m)) w
          List.mapM (fun x => do
            let (tx, ty) ← isoFit (some f) lv true x ys w
            let recal := x.map (interp tx ty)
            let recal ← if (match sfMean sf [ys[0]!] [ys.foldl min ys[0]!] (w.map (fun w' => w'.take 1)) with
                | .error Err.valueError => false
                | _ => true) = false ∧ recal.foldl min recal[0]! ≤ ys.foldl min ys[0]! then repair f lv recal w (ys.foldl min ys[0]!) else pure recal
            let score ← sfMean sf ys x w
            let scoreRecal ← sfMean sf ys recal w
            pure (⟨score - scoreRecal, scoreMarg - scoreRecal, scoreMarg, score⟩ : DecompRow K)) cols)
        = (do
          let q ← (do
            let scoreMarg ← sfMean sf ys (ys.map (fun _ => m)) w
            pure (m, scoreMarg))
          cols.mapM (dec_row sf f lv ys w q.2)) := by
      cases sfMean sf ys (ys.map (fun _ => m)) w with
      | error e => rfl
      | ok sm => exact key sm
    rw [dec_ok_bind, dec_ok_bind]
    by_cases hc : eqK ys[0]! m ∧ eqK m ys[ys.length - 1]!
    · rw [if_pos hc, if_pos hc]
      cases sfMean sf [ys[0]!] [m] none with
      | error e => cases e <;> first | rfl | exact fin
      | ok v => exact fin
    · rw [if_neg hc, if_neg hc]
      exact fin

/-- validation of functional and level: the effective pair -/
def dec_validate (sf : SF K) (fnGiven : Option (Option Functional)) (lvGiven : Option K) :
    Except Err (Functional × K) := do
  let lv ← dec_lv sf (dec_fn sf fnGiven) lvGiven
  let f ← match dec_fn sf fnGiven with
    | some f => pure f
    | none => throw Err.valueError
  if (f = .expectile ∨ f = .quantile) ∧ (lv ≤ 0 ∨ 1 ≤ lv) then throw Err.valueError
  pure (if f = .median then (Functional.quantile, (half : K)) else (f, lv))

/-- **normal form of `decompose`** -/
theorem dec_eq (sf : SF K) (fnGiven : Option (Option Functional)) (lvGiven : Option K)
    (ys : List K) (cols : List (List K)) (w : Option (List K)) :
    decompose sf fnGiven lvGiven ys cols w = (do
      let p ← dec_validate sf fnGiven lvGiven
      dec_shape ys cols w
      let q ← dec_marginal sf p.1 p.2 ys w
      cols.mapM (dec_row sf p.1 p.2 ys w q.2)) := by
  rw [dec_eq_core]
  unfold dec_validate
  cases dec_lv sf (dec_fn sf fnGiven) lvGiven with
  | error e => rfl
  | ok lv =>
    cases dec_fn sf fnGiven with
    | none => rfl
    | some f =>
      rw [dec_ok_bind, dec_ok_bind]
      by_cases h : (f = .expectile ∨ f = .quantile) ∧ (lv ≤ 0 ∨ 1 ≤ lv)
      · simp only [pure_bind, if_pos h]; rfl
      · simp only [pure_bind, if_neg h]
        rw [dec_core_eq, dec_tail_eq]

end Struct


/-! ## A2. `List.mapM` in `Except` -/

section MapM
variable {ε α β : Type}

theorem dec_mapM_nil (f : α → Except ε β) : ([] : List α).mapM f = .ok [] := rfl

theorem dec_mapM_cons (f : α → Except ε β) (a : α) (l : List α) :
    (a :: l).mapM f = (do let b ← f a; let bs ← l.mapM f; pure (b :: bs)) := by
  simp [List.mapM_cons]

/-- **`mapM` inversion**: a `mapM` in `Except` succeeds with `r` iff every element succeeds with the
corresponding entry of `r` -/
theorem dec_mapM_ok (f : α → Except ε β) (l : List α) (r : List β) :
    l.mapM f = .ok r ↔ List.Forall₂ (fun a b => f a = .ok b) l r := by
  induction l generalizing r with
  | nil =>
    rw [dec_mapM_nil]
    constructor
    · intro h; cases h; exact List.Forall₂.nil
    · intro h; cases h; rfl
  | cons a l ih =>
    rw [dec_mapM_cons]
    cases hfa : f a with
    | error e =>
      constructor
      · intro h; cases h
      · intro h
        cases h with
        | cons h1 _ => rw [hfa] at h1; cases h1
    | ok b =>
      rw [dec_ok_bind]
      cases hl : l.mapM f with
      | error e =>
        constructor
        · intro h; cases h
        · intro h
          cases h with
          | cons h1 h2 =>
            rw [(ih _).mpr h2] at hl; cases hl
      | ok bs =>
        rw [dec_ok_bind]
        constructor
        · intro h
          cases h
          exact List.Forall₂.cons hfa ((ih bs).mp hl)
        · intro h
          cases h with
          | cons h1 h2 =>
            have := (ih _).mpr h2
            rw [hl] at this
            cases this
            rw [hfa] at h1
            cases h1
            rfl

theorem dec_mapM_length {f : α → Except ε β} {l : List α} {r : List β} (h : l.mapM f = .ok r) :
    r.length = l.length := ((dec_mapM_ok f l r).mp h).length_eq.symm

theorem dec_mapM_get {f : α → Except ε β} {l : List α} {r : List β} (h : l.mapM f = .ok r)
    (i : Nat) (hi : i < l.length) (hr : i < r.length) : f l[i] = .ok r[i] := by
  have := (dec_mapM_ok f l r).mp h
  exact (List.forall₂_iff_get.mp this).2 i hi hr

theorem dec_mapM_mem {f : α → Except ε β} {l : List α} {r : List β} (h : l.mapM f = .ok r)
    {b : β} (hb : b ∈ r) : ∃ a ∈ l, f a = .ok b := by
  obtain ⟨i, hi, rfl⟩ := List.getElem_of_mem hb
  have hl := dec_mapM_length h
  exact ⟨l[i], List.getElem_mem (by omega), dec_mapM_get h i (by omega) hi⟩

/-- a `mapM` fails as soon as one element fails -/
theorem dec_mapM_error {f : α → Except ε β} {l : List α} {a : α} (ha : a ∈ l) {e : ε}
    (h : f a = .error e) : ∃ e', l.mapM f = .error e' := by
  cases hl : l.mapM f with
  | error e' => exact ⟨e', rfl⟩
  | ok r =>
    obtain ⟨i, hi, rfl⟩ := List.getElem_of_mem ha
    have := dec_mapM_get hl i hi (by rw [dec_mapM_length hl]; exact hi)
    rw [h] at this; cases this

/-- `mapM` over a single column -/
theorem dec_mapM_single (f : α → Except ε β) (a : α) : [a].mapM f = (f a).map (fun b => [b]) := by
  rw [dec_mapM_cons, dec_mapM_nil]
  cases f a <;> rfl

end MapM

/-! ## A3. Inversion of the stages -/
section Struct2
variable {K : Type} [LE K] [DecidableLE K] [LT K] [DecidableLT K]
  [Add K] [Sub K] [Mul K] [Div K] [Neg K] [Zero K] [One K] [NatCast K] [Min K] [Max K]
  [ScoreOps K] [Inhabited K]

/-- what the shape checks check -/
theorem dec_shape_ok (ys : List K) (cols : List (List K)) (w : Option (List K)) :
    dec_shape ys cols w = .ok () ↔
      (∀ c ∈ cols, c.length = ys.length) ∧ (∀ w', w = some w' → w'.length = ys.length) ∧ ys ≠ [] := by
  unfold dec_shape
  have hany : (cols.any (fun c => decide (c.length ≠ ys.length)) = true) ↔
      ¬ ∀ c ∈ cols, c.length = ys.length := by
    rw [List.any_eq_true]
    constructor
    · rintro ⟨c, hc, h⟩ hall
      exact (of_decide_eq_true h) (hall c hc)
    · intro h
      by_contra hcon
      apply h
      intro c hc
      by_contra hne
      exact hcon ⟨c, hc, decide_eq_true hne⟩
  by_cases h1 : cols.any (fun c => decide (c.length ≠ ys.length)) = true
  · simp only [if_pos h1]
    constructor
    · intro h; cases h
    · intro h; exact absurd h.1 (hany.mp h1)
  have h1' : ∀ c ∈ cols, c.length = ys.length := by
    by_contra hcon; exact h1 (hany.mpr hcon)
  cases w with
  | some w' =>
    by_cases h2 : w'.length ≠ ys.length
    · simp only [if_neg h1, if_pos h2]
      constructor
      · intro h; cases h
      · intro h; exact absurd (h.2.1 w' rfl) h2
    · by_cases h3 : ys = []
      · simp only [if_neg h1, if_neg h2, if_pos h3]
        constructor
        · intro h; cases h
        · intro h; exact absurd h3 h.2.2
      · simp only [if_neg h1, if_neg h2, if_neg h3]
        constructor
        · intro _
          exact ⟨h1', fun w'' hw => (by cases hw; exact not_not.mp h2), h3⟩
        · intro _; rfl
  | none =>
    by_cases h3 : ys = []
    · simp only [if_neg h1, if_pos h3]
      constructor
      · intro h; cases h
      · intro h; exact absurd h3 h.2.2
    · simp only [if_neg h1, if_neg h3]
      constructor
      · intro _
        exact ⟨h1', fun w'' hw => (by cases hw), h3⟩
      · intro _; rfl

/-- **inversion of `decompose`**: a call succeeds with `rows` iff the four stages succeed -/
theorem dec_ok_iff (sf : SF K) (fnGiven : Option (Option Functional)) (lvGiven : Option K)
    (ys : List K) (cols : List (List K)) (w : Option (List K)) (rows : List (DecompRow K)) :
    decompose sf fnGiven lvGiven ys cols w = .ok rows ↔
      ∃ f lv marg sm, dec_validate sf fnGiven lvGiven = .ok (f, lv) ∧ dec_shape ys cols w = .ok () ∧
        dec_marginal sf f lv ys w = .ok (marg, sm) ∧
        cols.mapM (dec_row sf f lv ys w sm) = .ok rows := by
  rw [dec_eq]
  cases hv : dec_validate sf fnGiven lvGiven with
  | error e =>
    constructor
    · intro h; cases h
    · rintro ⟨_, _, _, _, h, _⟩; cases h
  | ok p =>
    obtain ⟨f, lv⟩ := p
    rw [dec_ok_bind]
    cases hs : dec_shape ys cols w with
    | error e =>
      constructor
      · intro h; cases h
      · rintro ⟨_, _, _, _, _, h, _⟩; cases h
    | ok u =>
      rw [dec_ok_bind]
      cases hm : dec_marginal sf f lv ys w with
      | error e =>
        constructor
        · intro h; cases h
        · rintro ⟨_, _, _, _, h1, _, h, _⟩
          cases h1; rw [hm] at h; cases h
      | ok q =>
        obtain ⟨marg, sm⟩ := q
        rw [dec_ok_bind]
        constructor
        · intro h; exact ⟨f, lv, marg, sm, rfl, rfl, hm, h⟩
        · rintro ⟨_, _, _, _, h1, _, h, h2⟩
          cases h1; rw [hm] at h; cases h; exact h2

/-- inversion of the marginal stage -/
theorem dec_marginal_ok {sf : SF K} {f : Functional} {lv : K} {ys : List K} {w : Option (List K)}
    {marg sm : K} (h : dec_marginal sf f lv ys w = .ok (marg, sm)) :
    functionalVal f lv ys w = .ok marg ∧ sfMean sf ys (ys.map (fun _ => marg)) w = .ok sm := by
  unfold dec_marginal at h
  cases hm : functionalVal f lv ys w with
  | error e => rw [hm] at h; cases h
  | ok m =>
    rw [hm, dec_ok_bind] at h
    have fin : ∀ {X : Except Err PUnit}, (X >>= fun _ => (do
        let scoreMarg ← sfMean sf ys (ys.map (fun _ => m)) w
        pure (m, scoreMarg))) = Except.ok (marg, sm) →
        m = marg ∧ sfMean sf ys (ys.map (fun _ => marg)) w = .ok sm := by
      intro X hX
      cases X with
      | error e => cases hX
      | ok u =>
        rw [dec_ok_bind] at hX
        cases hsm : sfMean sf ys (ys.map (fun _ => m)) w with
        | error e => rw [hsm] at hX; cases hX
        | ok v =>
          rw [hsm] at hX
          cases hX
          exact ⟨rfl, hsm⟩
    by_cases hc : eqK ys[0]! m ∧ eqK m ys[ys.length - 1]!
    · simp only [if_pos hc] at h
      cases hp : sfMean sf [ys[0]!] [m] none with
      | error e =>
        rw [hp] at h
        cases e
        · cases h
        all_goals (obtain ⟨rfl, h2⟩ := fin (X := pure PUnit.unit) h; exact ⟨rfl, h2⟩)
      | ok v =>
        rw [hp] at h
        obtain ⟨rfl, h2⟩ := fin (X := pure PUnit.unit) h
        exact ⟨rfl, h2⟩
    · simp only [if_neg hc] at h
      obtain ⟨rfl, h2⟩ := fin (X := pure PUnit.unit) h
      exact ⟨rfl, h2⟩

/-- inversion of one row -/
theorem dec_row_ok (sf : SF K) (f : Functional) (lv : K) (ys : List K) (w : Option (List K))
    (sm : K) (x : List K) (row : DecompRow K) :
    dec_row sf f lv ys w sm x = .ok row ↔
      ∃ recal score scoreRecal, dec_recal sf f lv ys w x = .ok recal ∧
        sfMean sf ys x w = .ok score ∧ sfMean sf ys recal w = .ok scoreRecal ∧
        row = ⟨score - scoreRecal, sm - scoreRecal, sm, score⟩ := by
  unfold dec_row
  cases h1 : dec_recal sf f lv ys w x with
  | error e =>
    constructor
    · intro h; cases h
    · rintro ⟨_, _, _, h, _⟩; cases h
  | ok recal =>
    rw [dec_ok_bind]
    cases h2 : sfMean sf ys x w with
    | error e =>
      constructor
      · intro h; cases h
      · rintro ⟨_, _, _, _, h, _⟩; cases h
    | ok score =>
      rw [dec_ok_bind]
      cases h3 : sfMean sf ys recal w with
      | error e =>
        constructor
        · intro h; cases h
        · rintro ⟨_, _, _, h, _, h', _⟩
          cases h; rw [h3] at h'; cases h'
      | ok scoreRecal =>
        rw [dec_ok_bind]
        constructor
        · intro h
          cases h
          exact ⟨recal, score, scoreRecal, rfl, rfl, h3, rfl⟩
        · rintro ⟨_, _, _, h, h', h'', rfl⟩
          cases h; cases h'; rw [h3] at h''; cases h''
          rfl

/-- inversion of the recalibration of one column: the fit succeeded and `recal` is the fitted model
evaluated at the forecasts, possibly repaired -/
theorem dec_recal_ok (sf : SF K) (f : Functional) (lv : K) (ys : List K) (w : Option (List K))
    (x recal : List K) :
    dec_recal sf f lv ys w x = .ok recal ↔
      ∃ tx ty, isoFit (some f) lv true x ys w = .ok (tx, ty) ∧
        (if dec_yminAllowed sf ys w = false ∧
            (x.map (interp tx ty)).foldl min (x.map (interp tx ty))[0]! ≤ ys.foldl min ys[0]! then
          repair f lv (x.map (interp tx ty)) w (ys.foldl min ys[0]!) else pure (x.map (interp tx ty)))
          = .ok recal := by
  unfold dec_recal
  cases h1 : isoFit (some f) lv true x ys w with
  | error e =>
    constructor
    · intro h; cases h
    · rintro ⟨_, _, h, _⟩; cases h
  | ok p =>
    obtain ⟨tx, ty⟩ := p
    rw [dec_ok_bind]
    constructor
    · intro h; exact ⟨tx, ty, rfl, h⟩
    · rintro ⟨_, _, h, h'⟩
      cases h; exact h'

/-- when the smallest observation is an admissible prediction there is no repair -/
theorem dec_recal_ok_allowed {sf : SF K} {f : Functional} {lv : K} {ys : List K}
    {w : Option (List K)} {x recal : List K} (ha : dec_yminAllowed sf ys w = true)
    (h : dec_recal sf f lv ys w x = .ok recal) :
    ∃ tx ty, isoFit (some f) lv true x ys w = .ok (tx, ty) ∧ recal = x.map (interp tx ty) := by
  obtain ⟨tx, ty, h1, h2⟩ := (dec_recal_ok sf f lv ys w x recal).mp h
  refine ⟨tx, ty, h1, ?_⟩
  rw [if_neg (by rw [ha]; simp)] at h2
  cases h2; rfl

end Struct2


/-! ## A4. Errors of the first two stages -/
section Struct3
variable {K : Type} [LE K] [DecidableLE K] [LT K] [DecidableLT K]
  [Add K] [Sub K] [Mul K] [Div K] [Neg K] [Zero K] [One K] [NatCast K] [Min K] [Max K]
  [ScoreOps K] [Inhabited K]

/-- the level stage can only fail with `ValueError` -/
theorem dec_lv_error {sf : SF K} {fn : Option Functional} {lvGiven : Option K} {e : Err}
    (h : dec_lv sf fn lvGiven = .error e) : e = .valueError := by
  unfold dec_lv at h
  cases lvGiven with
  | some l => cases h
  | none =>
    simp only at h
    split at h
    · cases hl : sfLevel sf with
      | none => rw [hl] at h; cases h; rfl
      | some l => rw [hl] at h; cases h
    · cases h

/-- the validation of functional and level can only fail with `ValueError` -/
theorem dec_validate_error {sf : SF K} {fnGiven : Option (Option Functional)} {lvGiven : Option K}
    {e : Err} (h : dec_validate sf fnGiven lvGiven = .error e) : e = .valueError := by
  unfold dec_validate at h
  cases hl : dec_lv sf (dec_fn sf fnGiven) lvGiven with
  | error e' =>
    rw [hl] at h
    cases h
    exact dec_lv_error hl
  | ok l =>
    rw [hl, dec_ok_bind] at h
    cases hf : dec_fn sf fnGiven with
    | none => rw [hf] at h; cases h; rfl
    | some f =>
      rw [hf] at h
      simp only [pure_bind] at h
      split at h
      · cases h; rfl
      · cases h

/-- a successful validation: the functional is known, the level is in `(0,1)` when it matters, and
`median` has become the quantile at level `half` -/
theorem dec_validate_ok {sf : SF K} {fnGiven : Option (Option Functional)} {lvGiven : Option K}
    {f : Functional} {lv : K} (h : dec_validate sf fnGiven lvGiven = .ok (f, lv)) :
    ∃ f₀ lv₀, dec_fn sf fnGiven = some f₀ ∧ dec_lv sf (some f₀) lvGiven = .ok lv₀ ∧
      ¬ ((f₀ = .expectile ∨ f₀ = .quantile) ∧ (lv₀ ≤ 0 ∨ 1 ≤ lv₀)) ∧
      (f, lv) = (if f₀ = .median then (Functional.quantile, (half : K)) else (f₀, lv₀)) := by
  unfold dec_validate at h
  cases hl : dec_lv sf (dec_fn sf fnGiven) lvGiven with
  | error e' => rw [hl] at h; cases h
  | ok l =>
    rw [hl, dec_ok_bind] at h
    cases hf : dec_fn sf fnGiven with
    | none => rw [hf] at h; cases h
    | some f₀ =>
      rw [hf] at h hl
      simp only [pure_bind] at h
      split at h
      · cases h
      · rename_i hc
        exact ⟨f₀, l, rfl, hl, hc, (Except.ok.inj h).symm⟩

/-- the effective functional is never `median` -/
theorem dec_validate_ne_median {sf : SF K} {fnGiven : Option (Option Functional)}
    {lvGiven : Option K} {f : Functional} {lv : K}
    (h : dec_validate sf fnGiven lvGiven = .ok (f, lv)) : f ≠ .median := by
  obtain ⟨f₀, lv₀, _, _, _, he⟩ := dec_validate_ok h
  by_cases hm : f₀ = .median
  · rw [if_pos hm] at he
    rw [(Prod.mk.inj he).1]; decide
  · rw [if_neg hm] at he
    rw [(Prod.mk.inj he).1]; exact hm

/-- unknown functional name: `ValueError` -/
theorem dec_validate_unknown (sf : SF K) (lvGiven : Option K) :
    dec_validate sf (some none) lvGiven = .error .valueError := by
  cases h : dec_validate sf (some none) lvGiven with
  | error e => rw [dec_validate_error h]
  | ok p =>
    obtain ⟨f₀, _, hf, _⟩ := dec_validate_ok (f := p.1) (lv := p.2) h
    cases hf

/-- level outside `(0,1)` for an expectile / quantile: `ValueError` -/
theorem dec_validate_level (sf : SF K) (fnGiven : Option (Option Functional)) (lvGiven : Option K)
    (f : Functional) (l : K) (hfn : dec_fn sf fnGiven = some f)
    (hlv : dec_lv sf (some f) lvGiven = .ok l) (hf : f = .expectile ∨ f = .quantile)
    (hl : l ≤ 0 ∨ 1 ≤ l) : dec_validate sf fnGiven lvGiven = .error .valueError := by
  cases h : dec_validate sf fnGiven lvGiven with
  | error e => rw [dec_validate_error h]
  | ok p =>
    obtain ⟨f₀, lv₀, hf₀, hl₀, hc, _⟩ := dec_validate_ok (f := p.1) (lv := p.2) h
    rw [hfn] at hf₀
    cases hf₀
    rw [hlv] at hl₀
    cases hl₀
    exact absurd ⟨hf, hl⟩ hc

/-- the shape checks can only fail with `ValueError` (lengths) or `Other` (empty `y`) -/
theorem dec_shape_error_of_col {ys : List K} {cols : List (List K)} (w : Option (List K))
    (h : ∃ c ∈ cols, c.length ≠ ys.length) : dec_shape ys cols w = .error .valueError := by
  unfold dec_shape
  have h1 : cols.any (fun c => decide (c.length ≠ ys.length)) = true := by
    obtain ⟨c, hc, hne⟩ := h
    exact List.any_eq_true.mpr ⟨c, hc, decide_eq_true hne⟩
  simp only [if_pos h1]
  rfl

theorem dec_shape_error_of_weights {ys : List K} (cols : List (List K)) {w' : List K}
    (h : w'.length ≠ ys.length) : dec_shape ys cols (some w') = .error .valueError := by
  by_cases hc : ∃ c ∈ cols, c.length ≠ ys.length
  · exact dec_shape_error_of_col _ hc
  unfold dec_shape
  have h1 : ¬ cols.any (fun c => decide (c.length ≠ ys.length)) = true := by
    intro h1
    obtain ⟨c, hc', hne⟩ := List.any_eq_true.mp h1
    exact hc ⟨c, hc', of_decide_eq_true hne⟩
  simp only [if_neg h1, if_pos h]
  rfl

/-- `decompose` fails with `ValueError` as soon as a stage up to the shape checks does -/
theorem dec_error_of_validate {sf : SF K} {fnGiven : Option (Option Functional)}
    {lvGiven : Option K} (ys : List K) (cols : List (List K)) (w : Option (List K)) {e : Err}
    (h : dec_validate sf fnGiven lvGiven = .error e) :
    decompose sf fnGiven lvGiven ys cols w = .error e := by
  rw [dec_eq, h]; rfl

theorem dec_error_of_shape {sf : SF K} {fnGiven : Option (Option Functional)}
    {lvGiven : Option K} {ys : List K} {cols : List (List K)} {w : Option (List K)}
    (h : dec_shape ys cols w = .error .valueError) :
    decompose sf fnGiven lvGiven ys cols w = .error .valueError := by
  rw [dec_eq]
  cases hv : dec_validate sf fnGiven lvGiven with
  | error e => rw [dec_validate_error hv]; rfl
  | ok p => rw [dec_ok_bind, h]; rfl

end Struct3

/-! ## A5. Aliases: the mean ignores the level; explicit = inferred -/
section Struct4
variable {K : Type} [LE K] [DecidableLE K] [LT K] [DecidableLT K]
  [Add K] [Sub K] [Mul K] [Div K] [Neg K] [Zero K] [One K] [NatCast K] [Min K] [Max K]
  [ScoreOps K] [Inhabited K]

/-- the mean fit ignores the level -/
theorem dec_isoReg_mean_level (α α' : K) (inc : Bool) (y : List K) (w : Option (List K)) :
    isoReg (some .mean) α inc y w = isoReg (some .mean) α' inc y w := by
  unfold isoReg
  simp

theorem dec_isoFit_mean_level (α α' : K) (inc : Bool) (X y : List K) (w : Option (List K)) :
    isoFit (some .mean) α inc X y w = isoFit (some .mean) α' inc X y w := by
  unfold isoFit
  simp only [dec_isoReg_mean_level α α']

theorem dec_repair_mean_level (α α' : K) (recal : List K) (w : Option (List K)) (ymin : K) :
    repair .mean α recal w ymin = repair .mean α' recal w ymin := rfl

theorem dec_recal_mean_level (sf : SF K) (α α' : K) (ys : List K) (w : Option (List K))
    (x : List K) : dec_recal sf .mean α ys w x = dec_recal sf .mean α' ys w x := by
  unfold dec_recal
  rw [dec_isoFit_mean_level α α']
  rfl

theorem dec_row_mean_level (sf : SF K) (α α' : K) (ys : List K) (w : Option (List K)) (sm : K)
    (x : List K) : dec_row sf .mean α ys w sm x = dec_row sf .mean α' ys w sm x := by
  unfold dec_row
  rw [dec_recal_mean_level sf α α']

theorem dec_marginal_mean_level (sf : SF K) (α α' : K) (ys : List K) (w : Option (List K)) :
    dec_marginal sf .mean α ys w = dec_marginal sf .mean α' ys w := rfl

/-- from the shape checks on: the mean ignores the level -/
theorem dec_stages_mean_level (sf : SF K) (α α' : K) (ys : List K) (cols : List (List K))
    (w : Option (List K)) :
    (do let q ← dec_marginal sf .mean α ys w; cols.mapM (dec_row sf .mean α ys w q.2))
      = (do let q ← dec_marginal sf .mean α' ys w; cols.mapM (dec_row sf .mean α' ys w q.2)) := by
  rw [dec_marginal_mean_level sf α α']
  have : ∀ sm, dec_row sf .mean α ys w sm = dec_row sf .mean α' ys w sm :=
    fun sm => funext (dec_row_mean_level sf α α' ys w sm)
  simp only [this]

/-- `decompose` in terms of the validated pair -/
theorem dec_eq_of_validate {sf : SF K} {fnGiven : Option (Option Functional)} {lvGiven : Option K}
    {p : Functional × K} (h : dec_validate sf fnGiven lvGiven = .ok p) (ys : List K)
    (cols : List (List K)) (w : Option (List K)) :
    decompose sf fnGiven lvGiven ys cols w = (do
      dec_shape ys cols w
      let q ← dec_marginal sf p.1 p.2 ys w
      cols.mapM (dec_row sf p.1 p.2 ys w q.2)) := by
  rw [dec_eq, h]; rfl

/-- **explicit = inferred**: passing the score's own functional and level explicitly changes
nothing (results and errors alike).  `sfLevel sf = none` (log loss) means `level=None`. -/
theorem dec_alias_explicit (sf : SF K) (ys : List K) (cols : List (List K)) (w : Option (List K)) :
    decompose sf none none ys cols w
      = decompose sf (some (sfFunctional sf)) (sfLevel sf) ys cols w := by
  rw [dec_eq sf none none, dec_eq sf (some (sfFunctional sf)) (sfLevel sf)]
  unfold dec_validate
  have hfn : dec_fn sf (some (sfFunctional sf)) = dec_fn sf none := rfl
  rw [hfn]
  cases hf : dec_fn sf none with
  | none =>
    have e1 : dec_lv sf none none = .ok half := rfl
    have e2 : dec_lv sf none (sfLevel sf) = .ok (match sfLevel sf with | some l => l | none => half) := by
      unfold dec_lv
      cases sfLevel sf <;> rfl
    rw [e1, e2]
    rfl
  | some f =>
    cases hl : sfLevel sf with
    | none => rfl
    | some l =>
      cases f with
      | mean =>
        have e1 : dec_lv sf (some .mean) none = .ok half := rfl
        have e2 : dec_lv sf (some .mean) (some l) = .ok l := rfl
        rw [e1, e2]
        exact congrArg (fun t => dec_shape ys cols w >>= fun _ => t)
          (dec_stages_mean_level sf half l ys cols w)
      | median =>
        have e1 : dec_lv sf (some .median) none = .ok half := rfl
        have e2 : dec_lv sf (some .median) (some l) = .ok l := rfl
        rw [e1, e2]
        rfl
      | expectile =>
        have e1 : dec_lv sf (some .expectile) none = .ok l := by
          unfold dec_lv; rw [hl]; rfl
        have e2 : dec_lv sf (some .expectile) (some l) = .ok l := rfl
        rw [e1, e2]
      | quantile =>
        have e1 : dec_lv sf (some .quantile) none = .ok l := by
          unfold dec_lv; rw [hl]; rfl
        have e2 : dec_lv sf (some .quantile) (some l) = .ok l := rfl
        rw [e1, e2]

end Struct4

/-! ## A6. Columns are treated independently; `median` -/
section Struct5
variable {K : Type} [LE K] [DecidableLE K] [LT K] [DecidableLT K]
  [Add K] [Sub K] [Mul K] [Div K] [Neg K] [Zero K] [One K] [NatCast K] [Min K] [Max K]
  [ScoreOps K] [Inhabited K]

/-- **each column gets the row it would get alone** -/
theorem dec_column_independent {sf : SF K} {fn : Option (Option Functional)} {lv : Option K}
    {ys : List K} {cols : List (List K)} {w : Option (List K)} {rows : List (DecompRow K)}
    (h : decompose sf fn lv ys cols w = .ok rows) (i : Nat) (hi : i < cols.length)
    (hr : i < rows.length) : decompose sf fn lv ys [cols[i]] w = .ok [rows[i]] := by
  obtain ⟨f, lv', marg, sm, hv, hs, hm, hrows⟩ := (dec_ok_iff sf fn lv ys cols w rows).mp h
  refine (dec_ok_iff sf fn lv ys [cols[i]] w [rows[i]]).mpr ⟨f, lv', marg, sm, hv, ?_, hm, ?_⟩
  · obtain ⟨h1, h2, h3⟩ := (dec_shape_ok ys cols w).mp hs
    refine (dec_shape_ok ys [cols[i]] w).mpr ⟨?_, h2, h3⟩
    intro c hc
    rw [List.mem_singleton] at hc
    rw [hc]
    exact h1 _ (List.getElem_mem hi)
  · rw [dec_mapM_single, dec_mapM_get hrows i hi hr]
    rfl

/-- … and conversely: if every single-column call succeeds, the matrix call succeeds with the
collected rows -/
theorem dec_columns_collect {sf : SF K} {fn : Option (Option Functional)} {lv : Option K}
    {ys : List K} {cols : List (List K)} {w : Option (List K)} {rows : List (DecompRow K)}
    (hne : cols ≠ []) (hlen : rows.length = cols.length)
    (h : ∀ i (hi : i < cols.length) (hr : i < rows.length),
      decompose sf fn lv ys [cols[i]] w = .ok [rows[i]]) :
    decompose sf fn lv ys cols w = .ok rows := by
  have h0len : 0 < cols.length := List.length_pos_iff.mpr hne
  obtain ⟨f, lv', marg, sm, hv, hs, hm, _⟩ :=
    (dec_ok_iff sf fn lv ys [cols[0]] w [rows[0]]).mp (h 0 h0len (by omega))
  refine (dec_ok_iff sf fn lv ys cols w rows).mpr ⟨f, lv', marg, sm, hv, ?_, hm, ?_⟩
  · obtain ⟨_, h2, h3⟩ := (dec_shape_ok ys [cols[0]] w).mp hs
    refine (dec_shape_ok ys cols w).mpr ⟨?_, h2, h3⟩
    intro c hc
    obtain ⟨i, hi, rfl⟩ := List.getElem_of_mem hc
    obtain ⟨_, _, _, _, _, hs', _, _⟩ :=
      (dec_ok_iff sf fn lv ys [cols[i]] w [rows[i]]).mp (h i hi (by omega))
    exact ((dec_shape_ok ys [cols[i]] w).mp hs').1 _ (by simp)
  · rw [dec_mapM_ok]
    refine List.forall₂_iff_get.mpr ⟨hlen.symm, ?_⟩
    intro i hi hr
    obtain ⟨f', lv'', marg', sm', hv', _, hm', hrow⟩ :=
      (dec_ok_iff sf fn lv ys [cols[i]] w [rows[i]]).mp (h i hi hr)
    rw [hv] at hv'
    cases hv'
    rw [hm] at hm'
    cases hm'
    rw [dec_mapM_single] at hrow
    show dec_row sf f lv' ys w sm cols[i] = .ok rows[i]
    cases hd : dec_row sf f lv' ys w sm cols[i] with
    | error e => rw [hd] at hrow; cases hrow
    | ok r =>
      rw [hd] at hrow
      have := Except.ok.inj hrow
      simp only [List.cons.injEq, and_true] at this
      rw [this]

end Struct5

section Ordered
variable {K : Type} [Field K] [LinearOrder K] [IsStrictOrderedRing K] [ScoreOps K] [Inhabited K]

/-- **`median` = quantile at level `half`**: whatever level is passed along with `median` -/
theorem dec_alias_median (sf : SF K) (lv : Option K) (ys : List K) (cols : List (List K))
    (w : Option (List K)) :
    decompose sf (some (some .median)) lv ys cols w
      = decompose sf (some (some .quantile)) (some half) ys cols w := by
  have h1 : dec_validate sf (some (some .median)) lv = .ok (Functional.quantile, (half : K)) := by
    unfold dec_validate
    cases lv <;> rfl
  have h2 : dec_validate sf (some (some .quantile)) (some half)
      = .ok (Functional.quantile, (half : K)) := by
    unfold dec_validate
    have hc : ¬ ((Functional.quantile = .expectile ∨ Functional.quantile = .quantile) ∧
        ((half : K) ≤ 0 ∨ 1 ≤ (half : K))) := by
      rintro ⟨_, h | h⟩
      · exact absurd half_pos' (not_lt.mpr h)
      · exact absurd half_lt_one (not_lt.mpr h)
    show (if _ then _ else _) = _
    rw [if_neg hc]
    rfl
  rw [dec_eq_of_validate h1, dec_eq_of_validate h2]

end Ordered

end MD
