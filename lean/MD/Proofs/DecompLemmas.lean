import MD.Model.Decompose
import MD.Proofs.IsoFitLemmas
import Mathlib.Tactic.Linarith
import Mathlib.Tactic.Ring
import Mathlib.Tactic.FieldSimp
import Mathlib.Tactic.Positivity

/-! # Lemmas about `decompose` (C06, C07)

Part A (over the bare operation classes of the model, so also valid at `Float`): a normal form of
`decompose` as four stages

  `dec_validate` (functional / level)  →  `dec_shape` (length checks)  →
  `dec_marginal` (marginal functional and its score)  →  `List.mapM dec_row` (one row per column),

and inversion lemmas for a successful call.  Part B (ordered fields): the analytic facts. -/

set_option linter.unusedSectionVars false

namespace MD

/-! ## A. Normal form -/

section Struct
variable {K : Type} [LE K] [DecidableLE K] [LT K] [DecidableLT K]
  [Add K] [Sub K] [Mul K] [Div K] [Neg K] [Zero K] [One K] [NatCast K] [Min K] [Max K]
  [ScoreOps K] [Inhabited K]

/-- the functional `decompose` works with: the one given, or the score's own -/
def dec_fn (sf : SF K) (fnGiven : Option (Option Functional)) : Option Functional :=
  match fnGiven with
  | some f => f
  | none => sfFunctional sf

/-- the level `decompose` works with -/
def dec_lv (sf : SF K) (fn : Option Functional) (lvGiven : Option K) : Except Err K :=
  match lvGiven with
  | some l => pure l
  | none =>
    if fn = some .expectile ∨ fn = some .quantile then
      match sfLevel sf with
      | some l => pure l
      | none => throw Err.valueError
    else pure half

/-- `yminAllowed` -/
def dec_yminAllowed (sf : SF K) (ys : List K) (w : Option (List K)) : Bool :=
  match sfMean sf [ys[0]!] [ys.foldl min ys[0]!] (w.map (fun w' => w'.take 1)) with
  | .error Err.valueError => false
  | _ => true

/-- recalibrated forecasts of one column -/
def dec_recal (sf : SF K) (f : Functional) (lv : K) (ys : List K) (w : Option (List K))
    (x : List K) : Except Err (List K) := do
  let (tx, ty) ← isoFit (some f) lv true x ys w
  let recal := x.map (interp tx ty)
  if dec_yminAllowed sf ys w = false ∧ recal.foldl min recal[0]! ≤ ys.foldl min ys[0]! then
    repair f lv recal w (ys.foldl min ys[0]!) else pure recal

/-- the row of one column -/
def dec_row (sf : SF K) (f : Functional) (lv : K) (ys : List K) (w : Option (List K))
    (scoreMarg : K) (x : List K) : Except Err (DecompRow K) := do
  let recal ← dec_recal sf f lv ys w x
  let score ← sfMean sf ys x w
  let scoreRecal ← sfMean sf ys recal w
  pure ⟨score - scoreRecal, scoreMarg - scoreRecal, scoreMarg, score⟩

/-- the shape checks -/
def dec_shape (ys : List K) (cols : List (List K)) (w : Option (List K)) : Except Err Unit := do
  if cols.any (fun c => c.length ≠ ys.length) then throw Err.valueError
  match w with
  | some w' => if w'.length ≠ ys.length then throw Err.valueError else pure ()
  | none => pure ()
  if ys = [] then throw Err.other

/-- marginal stage: `(marginal, scoreMarg)` -/
def dec_marginal (sf : SF K) (f : Functional) (lv : K) (ys : List K) (w : Option (List K)) :
    Except Err (K × K) := do
  let marginal ← functionalVal f lv ys w
  if eqK ys[0]! marginal ∧ eqK marginal ys[ys.length - 1]! then
    match sfMean sf [ys[0]!] [marginal] none with
    | .error Err.valueError => throw Err.valueError
    | _ => pure ()
  let scoreMarg ← sfMean sf ys (ys.map (fun _ => marginal)) w
  pure (marginal, scoreMarg)

/-- the part of `decompose` after the shape checks, verbatim -/
def dec_tail (sf : SF K) (f : Functional) (lv : K) (ys : List K) (cols : List (List K))
    (w : Option (List K)) : Except Err (List (DecompRow K)) := do
  let marginal ← functionalVal f lv ys w
  let y0 := ys[0]!
  let yl := ys[ys.length - 1]!
  if eqK y0 marginal ∧ eqK marginal yl then
    match sfMean sf [y0] [marginal] none with
    | .error Err.valueError => throw Err.valueError
    | _ => pure ()
  let ymin := ys.foldl min y0
  let yminAllowed := match sfMean sf [y0] [ymin] (w.map (fun w' => w'.take 1)) with
    | .error Err.valueError => false
    | _ => true
  let margArr := ys.map (fun _ => marginal)
  let scoreMarg ← sfMean sf ys margArr w
  cols.mapM (fun x => do
    let (tx, ty) ← isoFit (some f) lv true x ys w
    let recal := x.map (interp tx ty)
    let recal ← if yminAllowed = false ∧ recal.foldl min recal[0]! ≤ ymin then repair f lv recal w ymin else pure recal
    let score ← sfMean sf ys x w
    let scoreRecal ← sfMean sf ys recal w
    pure ⟨score - scoreRecal, scoreMarg - scoreRecal, scoreMarg, score⟩)

/-- everything after the functional and the level are fixed, verbatim -/
def dec_core (sf : SF K) (p : Functional × K) (ys : List K) (cols : List (List K))
    (w : Option (List K)) : Except Err (List (DecompRow K)) := do
  let (f, lv) := p
  if cols.any (fun c => c.length ≠ ys.length) then throw Err.valueError
  match w with
  | some w' => if w'.length ≠ ys.length then throw Err.valueError else pure ()
  | none => pure ()
  if ys = [] then throw Err.other
  dec_tail sf f lv ys cols w

theorem dec_eq_core (sf : SF K) (fnGiven : Option (Option Functional)) (lvGiven : Option K)
    (ys : List K) (cols : List (List K)) (w : Option (List K)) :
    decompose sf fnGiven lvGiven ys cols w = (do
      let lv ← dec_lv sf (dec_fn sf fnGiven) lvGiven
      let f ← match dec_fn sf fnGiven with
        | some f => pure f
        | none => throw Err.valueError
      if (f = .expectile ∨ f = .quantile) ∧ (lv ≤ 0 ∨ 1 ≤ lv) then throw Err.valueError
      dec_core sf (if f = .median then (Functional.quantile, (half : K)) else (f, lv)) ys cols w) := by
  unfold decompose dec_core dec_lv
  cases lvGiven with
  | some l => rfl
  | none =>
    show (if dec_fn sf fnGiven = some .expectile ∨ dec_fn sf fnGiven = some .quantile then _ else _) = _
    by_cases h : dec_fn sf fnGiven = some .expectile ∨ dec_fn sf fnGiven = some .quantile
    · rw [if_pos h]
      simp only [if_pos h]
      cases sfLevel sf <;> rfl
    · rw [if_neg h]
      simp only [if_neg h]
      rfl


theorem dec_row_fun (sf : SF K) (f : Functional) (lv : K) (ys : List K) (w : Option (List K))
    (scoreMarg : K) :
    (fun x => do
      let (tx, ty) ← isoFit (some f) lv true x ys w
      let recal := x.map (interp tx ty)
      let recal ← if dec_yminAllowed sf ys w = false ∧ recal.foldl min recal[0]! ≤ ys.foldl min ys[0]! then repair f lv recal w (ys.foldl min ys[0]!) else pure recal
      let score ← sfMean sf ys x w
      let scoreRecal ← sfMean sf ys recal w
      pure (⟨score - scoreRecal, scoreMarg - scoreRecal, scoreMarg, score⟩ : DecompRow K))
    = dec_row sf f lv ys w scoreMarg := by
  funext x
  unfold dec_row dec_recal
  cases isoFit (some f) lv true x ys w with
  | error e => rfl
  | ok a =>
    obtain ⟨tx, ty⟩ := a
    by_cases hc : dec_yminAllowed sf ys w = false ∧
        List.foldl min (x.map (interp tx ty))[0]! (x.map (interp tx ty)) ≤ List.foldl min ys[0]! ys
    · show (if _ then _ else _) = Except.bind (if _ then _ else _) _
      rw [if_pos hc, if_pos hc]; rfl
    · show (if _ then _ else _) = Except.bind (if _ then _ else _) _
      rw [if_neg hc, if_neg hc]; rfl

theorem dec_core_eq (sf : SF K) (p : Functional × K) (ys : List K) (cols : List (List K))
    (w : Option (List K)) :
    dec_core sf p ys cols w = (do
      dec_shape ys cols w
      dec_tail sf p.1 p.2 ys cols w) := by
  obtain ⟨f, lv⟩ := p
  unfold dec_core dec_shape
  by_cases h1 : cols.any (fun c => decide (c.length ≠ ys.length)) = true
  · simp only [if_pos h1]; rfl
  by_cases h3 : ys = []
  · cases w with
    | some w' =>
      by_cases h2 : w'.length ≠ ys.length
      · simp only [if_neg h1, if_pos h2]; rfl
      · simp only [if_neg h1, if_neg h2, if_pos h3]
    | none => simp only [if_neg h1, if_pos h3]
  · cases w with
    | some w' =>
      by_cases h2 : w'.length ≠ ys.length
      · simp only [if_neg h1, if_pos h2]; rfl
      · simp only [if_neg h1, if_neg h2, if_neg h3]; rfl
    | none => simp only [if_neg h1, if_neg h3]; rfl

theorem dec_ok_bind {ε α β : Type} (a : α) (k : α → Except ε β) : (Except.ok a >>= k) = k a := rfl
theorem dec_error_bind {ε α β : Type} (e : ε) (k : α → Except ε β) :
    ((Except.error e : Except ε α) >>= k) = Except.error e := rfl

theorem dec_tail_eq (sf : SF K) (f : Functional) (lv : K) (ys : List K) (cols : List (List K))
    (w : Option (List K)) :
    dec_tail sf f lv ys cols w = (do
      let q ← dec_marginal sf f lv ys w
      cols.mapM (dec_row sf f lv ys w q.2)) := by
  unfold dec_tail dec_marginal
  cases functionalVal f lv ys w with
  | error e => rfl
  | ok m =>
    have key : ∀ sm : K, (List.mapM (fun x => do
          let (tx, ty) ← isoFit (some f) lv true x ys w
          let recal := x.map (interp tx ty)
          let recal ← if (match sfMean sf [ys[0]!] [ys.foldl min ys[0]!] (w.map (fun w' => w'.take 1)) with
              | .error Err.valueError => false
              | _ => true) = false ∧ recal.foldl min recal[0]! ≤ ys.foldl min ys[0]! then repair f lv recal w (ys.foldl min ys[0]!) else pure recal
          let score ← sfMean sf ys x w
          let scoreRecal ← sfMean sf ys recal w
          pure (⟨score - scoreRecal, sm - scoreRecal, sm, score⟩ : DecompRow K)) cols)
        = List.mapM (dec_row sf f lv ys w sm) cols := fun sm =>
      congrArg (fun g => List.mapM g cols) (dec_row_fun sf f lv ys w sm)
    have fin : (do
          let scoreMarg ← sfMean sf ys (ys.map (fun _ => m)) w
          List.mapM (fun x => do
            let (tx, ty) ← isoFit (some f) lv true x ys w
            let recal := x.map (interp tx ty)
            let recal ← if (match sfMean sf [ys[0]!] [ys.foldl min ys[0]!] (w.map (fun w' => w'.take 1)) with
                | .error Err.valueError => false
                | _ => true) = false ∧ recal.foldl min recal[0]! ≤ ys.foldl min ys[0]! then repair f lv recal w (ys.foldl min ys[0]!) else pure recal
            let score ← sfMean sf ys x w
            let scoreRecal ← sfMean sf ys recal w
            pure (⟨score - scoreRecal, scoreMarg - scoreRecal, scoreMarg, score⟩ : DecompRow K)) cols)
        = (do
          let q ← (do
            let scoreMarg ← sfMean sf ys (ys.map (fun _ => m)) w
            pure (m, scoreMarg))
          cols.mapM (dec_row sf f lv ys w q.2)) := by
      cases sfMean sf ys (ys.map (fun _ => m)) w with
      | error e => rfl
      | ok sm => exact key sm
    rw [dec_ok_bind, dec_ok_bind]
    by_cases hc : eqK ys[0]! m ∧ eqK m ys[ys.length - 1]!
    · rw [if_pos hc, if_pos hc]
      cases sfMean sf [ys[0]!] [m] none with
      | error e => cases e <;> first | rfl | exact fin
      | ok v => exact fin
    · rw [if_neg hc, if_neg hc]
      exact fin

/-- validation of functional and level: the effective pair -/
def dec_validate (sf : SF K) (fnGiven : Option (Option Functional)) (lvGiven : Option K) :
    Except Err (Functional × K) := do
  let lv ← dec_lv sf (dec_fn sf fnGiven) lvGiven
  let f ← match dec_fn sf fnGiven with
    | some f => pure f
    | none => throw Err.valueError
  if (f = .expectile ∨ f = .quantile) ∧ (lv ≤ 0 ∨ 1 ≤ lv) then throw Err.valueError
  pure (if f = .median then (Functional.quantile, (half : K)) else (f, lv))

/-- **normal form of `decompose`** -/
theorem dec_eq (sf : SF K) (fnGiven : Option (Option Functional)) (lvGiven : Option K)
    (ys : List K) (cols : List (List K)) (w : Option (List K)) :
    decompose sf fnGiven lvGiven ys cols w = (do
      let p ← dec_validate sf fnGiven lvGiven
      dec_shape ys cols w
      let q ← dec_marginal sf p.1 p.2 ys w
      cols.mapM (dec_row sf p.1 p.2 ys w q.2)) := by
  rw [dec_eq_core]
  unfold dec_validate
  cases dec_lv sf (dec_fn sf fnGiven) lvGiven with
  | error e => rfl
  | ok lv =>
    cases dec_fn sf fnGiven with
    | none => rfl
    | some f =>
      rw [dec_ok_bind, dec_ok_bind]
      by_cases h : (f = .expectile ∨ f = .quantile) ∧ (lv ≤ 0 ∨ 1 ≤ lv)
      · simp only [pure_bind, if_pos h]; rfl
      · simp only [pure_bind, if_neg h]
        rw [dec_core_eq, dec_tail_eq]

end Struct


/-! ## A2. `List.mapM` in `Except` -/

section MapM
variable {ε α β : Type}

theorem dec_mapM_nil (f : α → Except ε β) : ([] : List α).mapM f = .ok [] := rfl

theorem dec_mapM_cons (f : α → Except ε β) (a : α) (l : List α) :
    (a :: l).mapM f = (do let b ← f a; let bs ← l.mapM f; pure (b :: bs)) := by
  simp [List.mapM_cons]

/-- **`mapM` inversion**: a `mapM` in `Except` succeeds with `r` iff every element succeeds with the
corresponding entry of `r` -/
theorem dec_mapM_ok (f : α → Except ε β) (l : List α) (r : List β) :
    l.mapM f = .ok r ↔ List.Forall₂ (fun a b => f a = .ok b) l r := by
  induction l generalizing r with
  | nil =>
    rw [dec_mapM_nil]
    constructor
    · intro h; cases h; exact List.Forall₂.nil
    · intro h; cases h; rfl
  | cons a l ih =>
    rw [dec_mapM_cons]
    cases hfa : f a with
    | error e =>
      constructor
      · intro h; cases h
      · intro h
        cases h with
        | cons h1 _ => rw [hfa] at h1; cases h1
    | ok b =>
      rw [dec_ok_bind]
      cases hl : l.mapM f with
      | error e =>
        constructor
        · intro h; cases h
        · intro h
          cases h with
          | cons h1 h2 =>
            rw [(ih _).mpr h2] at hl; cases hl
      | ok bs =>
        rw [dec_ok_bind]
        constructor
        · intro h
          cases h
          exact List.Forall₂.cons hfa ((ih bs).mp hl)
        · intro h
          cases h with
          | cons h1 h2 =>
            have := (ih _).mpr h2
            rw [hl] at this
            cases this
            rw [hfa] at h1
            cases h1
            rfl

theorem dec_mapM_length {f : α → Except ε β} {l : List α} {r : List β} (h : l.mapM f = .ok r) :
    r.length = l.length := ((dec_mapM_ok f l r).mp h).length_eq.symm

theorem dec_mapM_get {f : α → Except ε β} {l : List α} {r : List β} (h : l.mapM f = .ok r)
    (i : Nat) (hi : i < l.length) (hr : i < r.length) : f l[i] = .ok r[i] := by
  have := (dec_mapM_ok f l r).mp h
  exact (List.forall₂_iff_get.mp this).2 i hi hr

theorem dec_mapM_mem {f : α → Except ε β} {l : List α} {r : List β} (h : l.mapM f = .ok r)
    {b : β} (hb : b ∈ r) : ∃ a ∈ l, f a = .ok b := by
  obtain ⟨i, hi, rfl⟩ := List.getElem_of_mem hb
  have hl := dec_mapM_length h
  exact ⟨l[i], List.getElem_mem (by omega), dec_mapM_get h i (by omega) hi⟩

/-- a `mapM` fails as soon as one element fails -/
theorem dec_mapM_error {f : α → Except ε β} {l : List α} {a : α} (ha : a ∈ l) {e : ε}
    (h : f a = .error e) : ∃ e', l.mapM f = .error e' := by
  cases hl : l.mapM f with
  | error e' => exact ⟨e', rfl⟩
  | ok r =>
    obtain ⟨i, hi, rfl⟩ := List.getElem_of_mem ha
    have := dec_mapM_get hl i hi (by rw [dec_mapM_length hl]; exact hi)
    rw [h] at this; cases this

/-- `mapM` over a single column -/
theorem dec_mapM_single (f : α → Except ε β) (a : α) : [a].mapM f = (f a).map (fun b => [b]) := by
  rw [dec_mapM_cons, dec_mapM_nil]
  cases f a <;> rfl

end MapM

/-! ## A3. Inversion of the stages -/
section Struct2
variable {K : Type} [LE K] [DecidableLE K] [LT K] [DecidableLT K]
  [Add K] [Sub K] [Mul K] [Div K] [Neg K] [Zero K] [One K] [NatCast K] [Min K] [Max K]
  [ScoreOps K] [Inhabited K]

/-- what the shape checks check -/
theorem dec_shape_ok (ys : List K) (cols : List (List K)) (w : Option (List K)) :
    dec_shape ys cols w = .ok () ↔
      (∀ c ∈ cols, c.length = ys.length) ∧ (∀ w', w = some w' → w'.length = ys.length) ∧ ys ≠ [] := by
  unfold dec_shape
  have hany : (cols.any (fun c => decide (c.length ≠ ys.length)) = true) ↔
      ¬ ∀ c ∈ cols, c.length = ys.length := by
    rw [List.any_eq_true]
    constructor
    · rintro ⟨c, hc, h⟩ hall
      exact (of_decide_eq_true h) (hall c hc)
    · intro h
      by_contra hcon
      apply h
      intro c hc
      by_contra hne
      exact hcon ⟨c, hc, decide_eq_true hne⟩
  by_cases h1 : cols.any (fun c => decide (c.length ≠ ys.length)) = true
  · simp only [if_pos h1]
    constructor
    · intro h; cases h
    · intro h; exact absurd h.1 (hany.mp h1)
  have h1' : ∀ c ∈ cols, c.length = ys.length := by
    by_contra hcon; exact h1 (hany.mpr hcon)
  cases w with
  | some w' =>
    by_cases h2 : w'.length ≠ ys.length
    · simp only [if_neg h1, if_pos h2]
      constructor
      · intro h; cases h
      · intro h; exact absurd (h.2.1 w' rfl) h2
    · by_cases h3 : ys = []
      · simp only [if_neg h1, if_neg h2, if_pos h3]
        constructor
        · intro h; cases h
        · intro h; exact absurd h3 h.2.2
      · simp only [if_neg h1, if_neg h2, if_neg h3]
        constructor
        · intro _
          exact ⟨h1', fun w'' hw => (by cases hw; exact not_not.mp h2), h3⟩
        · intro _; rfl
  | none =>
    by_cases h3 : ys = []
    · simp only [if_neg h1, if_pos h3]
      constructor
      · intro h; cases h
      · intro h; exact absurd h3 h.2.2
    · simp only [if_neg h1, if_neg h3]
      constructor
      · intro _
        exact ⟨h1', fun w'' hw => (by cases hw), h3⟩
      · intro _; rfl

/-- **inversion of `decompose`**: a call succeeds with `rows` iff the four stages succeed -/
theorem dec_ok_iff (sf : SF K) (fnGiven : Option (Option Functional)) (lvGiven : Option K)
    (ys : List K) (cols : List (List K)) (w : Option (List K)) (rows : List (DecompRow K)) :
    decompose sf fnGiven lvGiven ys cols w = .ok rows ↔
      ∃ f lv marg sm, dec_validate sf fnGiven lvGiven = .ok (f, lv) ∧ dec_shape ys cols w = .ok () ∧
        dec_marginal sf f lv ys w = .ok (marg, sm) ∧
        cols.mapM (dec_row sf f lv ys w sm) = .ok rows := by
  rw [dec_eq]
  cases hv : dec_validate sf fnGiven lvGiven with
  | error e =>
    constructor
    · intro h; cases h
    · rintro ⟨_, _, _, _, h, _⟩; cases h
  | ok p =>
    obtain ⟨f, lv⟩ := p
    rw [dec_ok_bind]
    cases hs : dec_shape ys cols w with
    | error e =>
      constructor
      · intro h; cases h
      · rintro ⟨_, _, _, _, _, h, _⟩; cases h
    | ok u =>
      rw [dec_ok_bind]
      cases hm : dec_marginal sf f lv ys w with
      | error e =>
        constructor
        · intro h; cases h
        · rintro ⟨_, _, _, _, h1, _, h, _⟩
          cases h1; rw [hm] at h; cases h
      | ok q =>
        obtain ⟨marg, sm⟩ := q
        rw [dec_ok_bind]
        constructor
        · intro h; exact ⟨f, lv, marg, sm, rfl, rfl, hm, h⟩
        · rintro ⟨_, _, _, _, h1, _, h, h2⟩
          cases h1; rw [hm] at h; cases h; exact h2

/-- inversion of the marginal stage -/
theorem dec_marginal_ok {sf : SF K} {f : Functional} {lv : K} {ys : List K} {w : Option (List K)}
    {marg sm : K} (h : dec_marginal sf f lv ys w = .ok (marg, sm)) :
    functionalVal f lv ys w = .ok marg ∧ sfMean sf ys (ys.map (fun _ => marg)) w = .ok sm := by
  unfold dec_marginal at h
  cases hm : functionalVal f lv ys w with
  | error e => rw [hm] at h; cases h
  | ok m =>
    rw [hm, dec_ok_bind] at h
    have fin : ∀ {X : Except Err PUnit}, (X >>= fun _ => (do
        let scoreMarg ← sfMean sf ys (ys.map (fun _ => m)) w
        pure (m, scoreMarg))) = Except.ok (marg, sm) →
        m = marg ∧ sfMean sf ys (ys.map (fun _ => marg)) w = .ok sm := by
      intro X hX
      cases X with
      | error e => cases hX
      | ok u =>
        rw [dec_ok_bind] at hX
        cases hsm : sfMean sf ys (ys.map (fun _ => m)) w with
        | error e => rw [hsm] at hX; cases hX
        | ok v =>
          rw [hsm] at hX
          cases hX
          exact ⟨rfl, hsm⟩
    by_cases hc : eqK ys[0]! m ∧ eqK m ys[ys.length - 1]!
    · simp only [if_pos hc] at h
      cases hp : sfMean sf [ys[0]!] [m] none with
      | error e =>
        rw [hp] at h
        cases e
        · cases h
        all_goals (obtain ⟨rfl, h2⟩ := fin (X := pure PUnit.unit) h; exact ⟨rfl, h2⟩)
      | ok v =>
        rw [hp] at h
        obtain ⟨rfl, h2⟩ := fin (X := pure PUnit.unit) h
        exact ⟨rfl, h2⟩
    · simp only [if_neg hc] at h
      obtain ⟨rfl, h2⟩ := fin (X := pure PUnit.unit) h
      exact ⟨rfl, h2⟩

/-- inversion of one row -/
theorem dec_row_ok (sf : SF K) (f : Functional) (lv : K) (ys : List K) (w : Option (List K))
    (sm : K) (x : List K) (row : DecompRow K) :
    dec_row sf f lv ys w sm x = .ok row ↔
      ∃ recal score scoreRecal, dec_recal sf f lv ys w x = .ok recal ∧
        sfMean sf ys x w = .ok score ∧ sfMean sf ys recal w = .ok scoreRecal ∧
        row = ⟨score - scoreRecal, sm - scoreRecal, sm, score⟩ := by
  unfold dec_row
  cases h1 : dec_recal sf f lv ys w x with
  | error e =>
    constructor
    · intro h; cases h
    · rintro ⟨_, _, _, h, _⟩; cases h
  | ok recal =>
    rw [dec_ok_bind]
    cases h2 : sfMean sf ys x w with
    | error e =>
      constructor
      · intro h; cases h
      · rintro ⟨_, _, _, _, h, _⟩; cases h
    | ok score =>
      rw [dec_ok_bind]
      cases h3 : sfMean sf ys recal w with
      | error e =>
        constructor
        · intro h; cases h
        · rintro ⟨_, _, _, h, _, h', _⟩
          cases h; rw [h3] at h'; cases h'
      | ok scoreRecal =>
        rw [dec_ok_bind]
        constructor
        · intro h
          cases h
          exact ⟨recal, score, scoreRecal, rfl, rfl, h3, rfl⟩
        · rintro ⟨_, _, _, h, h', h'', rfl⟩
          cases h; cases h'; rw [h3] at h''; cases h''
          rfl

/-- inversion of the recalibration of one column: the fit succeeded and `recal` is the fitted model
evaluated at the forecasts, possibly repaired -/
theorem dec_recal_ok (sf : SF K) (f : Functional) (lv : K) (ys : List K) (w : Option (List K))
    (x recal : List K) :
    dec_recal sf f lv ys w x = .ok recal ↔
      ∃ tx ty, isoFit (some f) lv true x ys w = .ok (tx, ty) ∧
        (if dec_yminAllowed sf ys w = false ∧
            (x.map (interp tx ty)).foldl min (x.map (interp tx ty))[0]! ≤ ys.foldl min ys[0]! then
          repair f lv (x.map (interp tx ty)) w (ys.foldl min ys[0]!) else pure (x.map (interp tx ty)))
          = .ok recal := by
  unfold dec_recal
  cases h1 : isoFit (some f) lv true x ys w with
  | error e =>
    constructor
    · intro h; cases h
    · rintro ⟨_, _, h, _⟩; cases h
  | ok p =>
    obtain ⟨tx, ty⟩ := p
    rw [dec_ok_bind]
    constructor
    · intro h; exact ⟨tx, ty, rfl, h⟩
    · rintro ⟨_, _, h, h'⟩
      cases h; exact h'

/-- when the smallest observation is an admissible prediction there is no repair -/
theorem dec_recal_ok_allowed {sf : SF K} {f : Functional} {lv : K} {ys : List K}
    {w : Option (List K)} {x recal : List K} (ha : dec_yminAllowed sf ys w = true)
    (h : dec_recal sf f lv ys w x = .ok recal) :
    ∃ tx ty, isoFit (some f) lv true x ys w = .ok (tx, ty) ∧ recal = x.map (interp tx ty) := by
  obtain ⟨tx, ty, h1, h2⟩ := (dec_recal_ok sf f lv ys w x recal).mp h
  refine ⟨tx, ty, h1, ?_⟩
  rw [if_neg (by rw [ha]; simp)] at h2
  cases h2; rfl

end Struct2

end MD
